(** IEEE-754 binary64 as Coq's [spec_float] (prec 53, emax 1024), with the
    round-to-nearest-even operations of [Floats.SpecFloat].  Flocq proves these
    operations equal to its [Bplus mode_NE] etc. (see F64_proofs.v). *)
From Coq Require Import ZArith Bool Floats.SpecFloat.
Open Scope Z_scope.

Definition prec := 53.
Definition emax := 1024.
Definition f64 := spec_float.

Definition fadd : f64 -> f64 -> f64 := SFadd prec emax.
Definition fsub : f64 -> f64 -> f64 := SFsub prec emax.
Definition fmul : f64 -> f64 -> f64 := SFmul prec emax.
Definition fdiv : f64 -> f64 -> f64 := SFdiv prec emax.
Definition fsqrt : f64 -> f64 := SFsqrt prec emax.
Definition fabs : f64 -> f64 := SFabs.
Definition fopp : f64 -> f64 := SFopp.

Definition f_nan : f64 := S754_nan.
Definition f_inf : f64 := S754_infinity false.
Definition f_neg_inf : f64 := S754_infinity true.
Definition f_zero : f64 := S754_zero false.

(** integer -> nearest double (Rust [i as f64]) *)
Definition f_of_Z (z : Z) : f64 := binary_normalize prec emax z 0 false.

(** m * 2^e rounded *)
Definition f_of_scaled (m e : Z) : f64 := binary_normalize prec emax m e false.

Definition f_is_nan (x : f64) : bool := match x with S754_nan => true | _ => false end.
Definition f_is_finite (x : f64) : bool :=
  match x with S754_zero _ | S754_finite _ _ _ => true | _ => false end.
Definition f_is_zero (x : f64) : bool := match x with S754_zero _ => true | _ => false end.
Definition f_sign (x : f64) : bool :=
  match x with S754_zero s | S754_infinity s | S754_finite s _ _ => s | S754_nan => false end.

(** IEEE partial comparison *)
Definition fcmp (x y : f64) : option comparison := SFcompare x y.
Definition fltb (x y : f64) : bool := SFltb x y.
Definition fleb (x y : f64) : bool := SFleb x y.
Definition feqb_ieee (x y : f64) : bool := SFeqb x y.

(** [OrderedFloat] total order: NaN is the greatest value and equal to itself,
    -0 = +0. *)
Definition ocmp (x y : f64) : comparison :=
  match fcmp x y with
  | Some c => c
  | None => if f_is_nan x then (if f_is_nan y then Eq else Gt) else Lt
  end.
Definition oeqb (x y : f64) : bool :=
  match ocmp x y with Eq => true | _ => false end.

(** exact comparison of an integer with a double (NaN greatest, as for OrderedFloat): data.rs
    [cmp_int_float] (since 1274b83 the integer is no longer converted to a double first) *)
Definition cmp_int_float (i : Z) (f : f64) : comparison :=
  match f with
  | S754_nan => Lt
  | S754_infinity s => if s then Gt else Lt
  | S754_zero _ => Z.compare i 0
  | S754_finite s m e =>
      let sm := if s then Z.neg m else Z.pos m in
      if 0 <=? e then Z.compare i (sm * 2 ^ e) else Z.compare (i * 2 ^ (- e)) sm
  end.

(** truncation toward zero of a finite float, as an integer *)
Definition ftrunc_Z (x : f64) : Z :=
  match x with
  | S754_finite s m e =>
      let a := if 0 <=? e then Zpos m * 2 ^ e else Zpos m / 2 ^ (- e) in
      if s then - a else a
  | _ => 0
  end.

(** does the finite float denote an integer?  (Rust [f.fract() == 0.0]) *)
Definition f_is_integral (x : f64) : bool :=
  match x with
  | S754_zero _ => true
  | S754_finite _ m e => if 0 <=? e then true else (Zpos m mod 2 ^ (- e) =? 0)
  | _ => false
  end.

Definition i64_min := - 2 ^ 63.
Definition i64_max := 2 ^ 63 - 1.
Definition in_i64 (z : Z) : bool := (i64_min <=? z) && (z <=? i64_max).

(** Rust [f as i64]: NaN -> 0, saturating *)
Definition f_to_i64_sat (x : f64) : Z :=
  match x with
  | S754_nan => 0
  | S754_infinity s => if s then i64_min else i64_max
  | _ => let t := ftrunc_Z x in
         if t <? i64_min then i64_min else if i64_max <? t then i64_max else t
  end.

(** Rust [f as usize] on a 64-bit target *)
Definition f_to_u64_sat (x : f64) : Z :=
  match x with
  | S754_nan => 0
  | S754_infinity s => if s then 0 else 2 ^ 64 - 1
  | _ => let t := ftrunc_Z x in
         if t <? 0 then 0 else if 2 ^ 64 - 1 <? t then 2 ^ 64 - 1 else t
  end.

(** floor / ceil / round-half-away / trunc as floats.  The result of rounding a
    finite double to an integer is exactly representable, so [f_of_Z] is exact;
    the sign of a zero result follows the argument as in IEEE. *)
Definition f_int_result (s : bool) (z : Z) : f64 :=
  if z =? 0 then S754_zero s else f_of_Z z.

Definition ffloor (x : f64) : f64 :=
  match x with
  | S754_finite s m e =>
      if f_is_integral x then x else
      let t := ftrunc_Z x in f_int_result s (if s then t - 1 else t)
  | _ => x
  end.
Definition fceil (x : f64) : f64 :=
  match x with
  | S754_finite s m e =>
      if f_is_integral x then x else
      let t := ftrunc_Z x in f_int_result s (if s then t else t + 1)
  | _ => x
  end.
Definition ftrunc (x : f64) : f64 :=
  match x with
  | S754_finite s m e => if f_is_integral x then x else f_int_result s (ftrunc_Z x)
  | _ => x
  end.
(** Rust [f64::round]: half away from zero *)
Definition fround (x : f64) : f64 :=
  match x with
  | S754_finite s m e =>
      if f_is_integral x then x else
      (* 2|x| truncated: odd iff fractional part >= 1/2 *)
      let two_abs := if 0 <=? e + 1 then Zpos m * 2 ^ (e + 1) else Zpos m / 2 ^ (- (e + 1)) in
      let a := (two_abs + 1) / 2 in
      f_int_result s (if s then - a else a)
  | _ => x
  end.

(** bit patterns (one NaN) *)
Definition f_of_bits (z : Z) : f64 :=
  let s := 2 ^ 63 <=? z in
  let ex := (z / 2 ^ 52) mod 2 ^ 11 in
  let mant := z mod 2 ^ 52 in
  if ex =? 0 then
    match mant with
    | Zpos p => S754_finite s p (-1074)
    | _ => S754_zero s
    end
  else if ex =? 2047 then
    (if mant =? 0 then S754_infinity s else S754_nan)
  else
    match mant + 2 ^ 52 with
    | Zpos p => S754_finite s p (ex - 1075)
    | _ => S754_nan
    end.

Definition bits_of_f (x : f64) : Z :=
  match x with
  | S754_zero s => if s then 2 ^ 63 else 0
  | S754_infinity s => (if s then 2 ^ 63 else 0) + 2047 * 2 ^ 52
  | S754_nan => 2047 * 2 ^ 52 + 2 ^ 51
  | S754_finite s m e =>
      (if s then 2 ^ 63 else 0) +
      (if Zpos m <? 2 ^ 52 then Zpos m
       else (e + 1075) * 2 ^ 52 + (Zpos m - 2 ^ 52))
  end.

(** correctly rounded [n / d] for positive [n], [d] (round-to-odd on 2 guard
    bits, then round-to-nearest-even): used by decimal -> double *)
Definition f_of_ratio (neg : bool) (n d : Z) : f64 :=
  if n =? 0 then S754_zero neg else
  (* choose k so that q = floor(n*2^k/d) has at least 56 significant bits *)
  let k := Z.max 0 (56 + Z.log2 d + 1 - Z.log2 n) in
  let num := n * 2 ^ k in
  let q := num / d in
  let r := num mod d in
  let q' := if r =? 0 then q else (if Z.even q then q + 1 else q) in
  f_of_scaled (if neg then - q' else q') (- k).

(** decimal mantissa/exponent -> correctly rounded double *)
Definition f_of_dec (neg : bool) (m : Z) (e10 : Z) : f64 :=
  if m =? 0 then S754_zero neg else
  if 0 <=? e10 then
    (* guard against absurd exponents: anything above 10^400 is infinity *)
    if 400 <? e10 then S754_infinity neg
    else f_of_scaled (if neg then - (m * 10 ^ e10) else m * 10 ^ e10) 0
  else
    if 800 + Z.log2 m <? - e10 then S754_zero neg
    else f_of_ratio neg m (10 ^ (- e10)).
