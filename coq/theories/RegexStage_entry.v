(** S-expression entry point of the [parse regex] row operator:
    [(rxstage "pat" <from> <nodrop> <noconv> <record>)] with
    [<from>] = [none] | [(some <expr>)] (the expression syntax of [dec_expr]),
    [<nodrop>], [<noconv>] = [t] | [f],
    [<record>] = [(rec "raw line" ("key" <value>) ...)] (values as in [dec_value]);
    answers [(row (rec ("key" <value>) ...))], [(dropped)], [(err)], [(panic)] or [(unm)]. *)
From Coq Require Import List ZArith NArith Bool.
From AG Require Import Str Value Json Expr Ops Sexp Regex RegexStage.
Import ListNotations.
Open Scope string_scope.
Open Scope list_scope.

Definition dec_record (x : sexp) : option record :=
  match x with
  | SList (h :: raw :: kvs) =>
      if is_sym h "rec" then
        match atom_str raw, map_opt (dec_named dec_value) kvs with
        | Some raw, Some kvs =>
            Some (mkRec (fold_left (fun m kv => put (fst kv) (snd kv) m) kvs []) raw)
        | _, _ => None
        end
      else None
  | _ => None
  end.

Definition enc_row_result (x : res (option record)) : sexp :=
  match x with
  | Ok (Some r) => SList [sym "row"; enc_data (rdata r)]
  | Ok None => SList [sym "dropped"]
  | Err => SList [sym "err"]
  | Panic => SList [sym "panic"]
  | Unm => SList [sym "unm"]
  end.

Definition rxstage_case (c : sexp) : sexp :=
  match c with
  | SList [h; p; f; nd; nc; r] =>
      if is_sym h "rxstage" then
        match atom_str p, dec_opt dec_expr f, atom_bool nd, atom_bool nc, dec_record r with
        | Some p, Some f, Some nd, Some nc, Some r => enc_row_result (rx_stage p f nd nc r)
        | _, _, _, _, _ => sym "bad-case"
        end
      else sym "bad-case"
  | _ => sym "bad-case"
  end.
