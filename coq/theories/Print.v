(** A printer for expressions, parameterised by spelling choices: the amount and
    kind of optional / required whitespace, word or symbol logical operators,
    `!=` or `<>`, quote style, and minimal or full parenthesisation.  The
    round-trip theorem (Roundtrip_proofs.v) says the parser of Grammar.v reads
    every such spelling of every well-formed expression back as the expression
    it came from: precedence, associativity, synonyms and layout in one
    statement. *)
From Coq Require Import List ZArith NArith Bool.
From AG Require Import Str F64 Value Json Expr Grammar.
Import ListNotations.
Open Scope string_scope.
Open Scope list_scope.
Open Scope N_scope.

Record popts := mkPO {
  po_ws0 : str;        (* where whitespace is optional: any run of blanks / tabs / line breaks, possibly empty *)
  po_ws1 : str;        (* where it is required: a non-empty run *)
  po_words : bool;     (* `and` / `or` instead of `&&` / `||` *)
  po_neq_alt : bool;   (* `<>` instead of `!=` *)
  po_dq : bool;        (* double instead of single quotes *)
  po_full : bool       (* parenthesise every compound sub-expression *)
}.

Definition popts_ok (o : popts) : bool :=
  forallb is_space (po_ws0 o) && forallb is_space (po_ws1 o) && negb (is_nil (po_ws1 o)).

(** quoting: backslash and the quote character are escaped, everything else is literal *)
Fixpoint escape_for (q : N) (s : str) : str :=
  match s with
  | [] => []
  | c :: r => if (c =? 92) || (c =? q) then 92 :: c :: escape_for q r else c :: escape_for q r
  end.
Definition quote_str (o : popts) (s : str) : str :=
  let q := if po_dq o then 34 else 39 in q :: escape_for q s ++ [q].

(** a name that can be written bare: an identifier that no literal keyword is a prefix of *)
Definition safe_name (n : str) : bool :=
  match n with
  | c :: r =>
      starts_ident c && forallb is_ident_char r
      && negb (match strip_prefix (lit "true") n with Some _ => true | None => false end)
      && negb (match strip_prefix (lit "false") n with Some _ => true | None => false end)
      && negb (match strip_prefix (lit "null") n with Some _ => true | None => false end)
  | [] => false
  end.

Definition ident_text (o : popts) (n : str) : str :=
  if safe_name n then n else 91 :: quote_str o n ++ [93].

Definition ref_text (o : popts) (r : vref) : str :=
  match r with
  | RField k => 46 :: ident_text o k
  | RIndex i => 91 :: Z_to_str i ++ [93]
  end.

Definition prec (e : expr) : nat :=
  match e with
  | ELogic LOr _ _ => 1%nat
  | ELogic LAnd _ _ => 2%nat
  | ECmp _ _ _ => 3%nat
  | EArith AAdd _ _ | EArith ASub _ _ => 4%nat
  | EArith _ _ _ => 5%nat
  | ENot _ => 6%nat
  | _ => 7%nat
  end.

Definition cmp_text (o : popts) (c : cmpop) : str :=
  match c with
  | CEq => lit "==" | CNeq => if po_neq_alt o then lit "<>" else lit "!="
  | CGt => lit ">" | CLt => lit "<" | CGte => lit ">=" | CLte => lit "<="
  end.
Definition ar_text (a : arop) : str :=
  match a with AAdd => lit "+" | ASub => lit "-" | AMul => lit "*" | ADiv => lit "/" end.

Fixpoint sep_join (sep : str) (l : list str) : str :=
  match l with
  | [] => []
  | [x] => x
  | x :: r => x ++ sep ++ sep_join sep r
  end.

Fixpoint pp (o : popts) (ctx : nat) (e : expr) : str :=
  let w0 := po_ws0 o in
  let w1 := po_ws1 o in
  let args (l : list expr) : str :=
    40 :: w0 ++ sep_join (w0 ++ 44 :: w0) (map (pp o 0) l) ++ w0 ++ [41] in
  let body :=
    match e with
    | ECol h refs => ident_text o h ++ flat_map (ref_text o) refs
    | EVal (VStr s) => quote_str o s
    | EVal (VInt z) => Z_to_str z
    | EVal (VBool true) => lit "true"
    | EVal (VBool false) => lit "false"
    | EVal _ => lit "null"
    | ENot e1 => 33 :: w0 ++ pp o 7 e1
    | ECall f l => f ++ args l
    | EIf c t e2 => lit "if" ++ args [c; t; e2]
    | ECmp c l r => pp o 4 l ++ w0 ++ cmp_text o c ++ w0 ++ pp o 4 r
    | EArith a l r =>
        match a with
        | AAdd | ASub => pp o 4 l ++ w0 ++ ar_text a ++ w0 ++ pp o 5 r
        | AMul | ADiv => pp o 5 l ++ w0 ++ ar_text a ++ w0 ++ pp o 6 r
        end
    | ELogic LAnd l r =>
        if po_words o then pp o 2 l ++ w1 ++ lit "and" ++ w1 ++ pp o 3 r
        else pp o 2 l ++ w0 ++ lit "&&" ++ w0 ++ pp o 3 r
    | ELogic LOr l r =>
        if po_words o then pp o 1 l ++ w1 ++ lit "or" ++ w1 ++ pp o 2 r
        else pp o 1 l ++ w0 ++ lit "||" ++ w0 ++ pp o 2 r
    | EError => []
    end in
  if Nat.ltb (prec e) ctx || (po_full o && Nat.ltb (prec e) 7)
  then 40 :: w0 ++ body ++ w0 ++ [41] else body.

(** expressions the grammar can express: non-negative integer literals in range,
    strings, booleans, null; indices in range; function names that are plain
    identifiers other than `if` *)
Definition wf_ref (r : vref) : bool := match r with RField _ => true | RIndex i => in_i64 i end.

Fixpoint wf_expr (e : expr) : bool :=
  match e with
  | ECol _ refs => forallb wf_ref refs
  | EVal (VStr _) | EVal (VBool _) | EVal VNone => true
  | EVal (VInt z) => (0 <=? z)%Z && (z <=? i64_max)%Z
  | EVal _ => false
  | ENot e1 => wf_expr e1
  | ECmp _ l r | EArith _ l r | ELogic _ l r => wf_expr l && wf_expr r
  | ECall f l => safe_name f && negb (str_eqb f (lit "if")) && forallb wf_expr l
  | EIf c t e2 => wf_expr c && wf_expr t && wf_expr e2
  | EError => false
  end.

(** what may follow an expression in a query: nothing, whitespace, `)`, `,`, `|` (a pipe, not `||`), ` as ` *)
Definition stop_after_spaces (r : str) : bool :=
  match r with
  | [] => true
  | c :: r' => (c =? 41) || (c =? 44) || ((c =? 124) && negb (head_is 124 r'))
               || (match strip_prefix (lit "as") r with Some (d :: _) => is_space d | _ => false end)
  end.
Definition stopb (rest : str) : bool :=
  (match rest with [] => true | c :: _ => is_space c || (c =? 41) || (c =? 44) || (c =? 124) end)
  && stop_after_spaces (skip_spaces rest).

(** ** filters *)
From AG Require Import Ops Filter.
Open Scope N_scope.

Definition flevel (f : filter) : nat :=
  match f with FOr _ => 1%nat | FAnd _ => 2%nat | _ => 3%nat end.

(** spelling choices for filters: [po_ws1] between juxtaposed filters and around AND / OR,
    [po_ws0] inside parentheses, quote style *)
Fixpoint fpp (o : popts) (ctx : nat) (f : filter) : str :=
  let body :=
    match f with
    | FKw KExact q => quote_str o q
    | FKw _ t => t
    | FNot g => lit "NOT" ++ po_ws1 o ++ fpp o 3 g
    | FAnd [a; b] => fpp o 3 a ++ po_ws1 o ++ lit "AND" ++ po_ws1 o ++ fpp o 3 b
    | FOr [a; b] => fpp o 2 a ++ po_ws1 o ++ lit "OR" ++ po_ws1 o ++ fpp o 2 b
    | _ => []
    end in
  if Nat.ltb (flevel f) ctx then 40 :: po_ws0 o ++ body ++ po_ws0 o ++ [41] else body.

(** a query's search part: filters side by side (implicit AND) *)
Definition fpp_top (o : popts) (fs : list filter) : str :=
  sep_join (po_ws1 o) (map (fpp o 1) fs).

Definition reserved_word (t : str) : bool :=
  str_eqb t (lit "AND") || str_eqb t (lit "OR") || str_eqb t (lit "NOT").

Definition wf_keyword (kind : kwkind) (t : str) : bool :=
  match kind with
  | KExact => negb (is_nil t)
  | _ => negb (is_nil t) && forallb is_keyword_char t && negb (reserved_word t)
         && negb (head_is 42 t) && negb (head_is 42 (rev t))
  end.

Fixpoint wf_filter (f : filter) : bool :=
  match f with
  | FKw kind t => wf_keyword kind t
  | FNot g => wf_filter g
  | FAnd [a; b] | FOr [a; b] => wf_filter a && wf_filter b
  | _ => false
  end.

(** ** stages and whole queries *)
From AG Require Import Pipeline.
Open Scope N_scope.

Definition names_text (o : popts) (l : list str) : str :=
  sep_join (po_ws0 o ++ 44 :: po_ws0 o) (map (ident_text o) l).
Definition from_text (o : popts) (f : option expr) : str :=
  match f with Some e => po_ws1 o ++ lit "from" ++ po_ws1 o ++ pp o 0 e | None => [] end.
Definition arg_text (o : popts) (e : expr) : str := 40 :: po_ws0 o ++ pp o 0 e ++ po_ws0 o ++ [41].
Definition as_text (o : popts) (n : str) : str := po_ws1 o ++ lit "as" ++ po_ws1 o ++ ident_text o n.
Definition dur_text (ns : Z) : str := Z_to_str ns ++ lit "ns".

(** the NN of a percentile q = NN/100 *)
Definition pct_of (q : f64) : option Z :=
  find (fun v => Z.eqb (bits_of_f (fdiv (f_of_Z v) (f_of_Z 100))) (bits_of_f q))
       (map Z.of_nat (seq 1 99)).

Definition aggfn_text (o : popts) (f : aggfn) : option str :=
  match f with
  | FCount None => Some (lit "count")
  | FCount (Some c) => Some (lit "count" ++ arg_text o c)
  | FSum e => Some (lit "sum" ++ arg_text o e)
  | FMin e => Some (lit "min" ++ arg_text o e)
  | FMax e => Some (lit "max" ++ arg_text o e)
  | FAvg e => Some (lit "avg" ++ arg_text o e)
  | FDistinct e => Some (lit "count_distinct" ++ arg_text o e)
  | FPct q e => match pct_of q with
                | Some v => Some (lit "p" ++ Z_to_str v ++ arg_text o e)
                | None => None
                end
  end.

Fixpoint all_some {A} (l : list (option A)) : option (list A) :=
  match l with
  | [] => Some []
  | Some x :: r => match all_some r with Some xs => Some (x :: xs) | None => None end
  | None :: _ => None
  end.

Definition comma (o : popts) : str := po_ws0 o ++ 44 :: po_ws0 o.

Definition pp_stage (o : popts) (st : stage) : option str :=
  let w1 := po_ws1 o in
  match st with
  | SJson f => Some (lit "json" ++ from_text o f)
  | SLogfmt f => Some (lit "logfmt" ++ from_text o f)
  | SParse pat fields f nodrop noconv =>
      Some (lit "parse" ++ w1 ++ quote_str o pat ++ from_text o f
            ++ (match fields with [] => [] | _ => w1 ++ lit "as" ++ w1 ++ names_text o fields end)
            ++ (if nodrop then w1 ++ lit "nodrop" else [])
            ++ (if noconv then w1 ++ lit "noconvert" else []))
  | SSplit sep arg out =>
      Some (lit "split" ++ (match arg with Some e => arg_text o e | None => [] end)
            ++ w1 ++ lit "on" ++ w1 ++ quote_str o sep
            ++ (match out, arg with
                | Some x, Some a => if str_eqb (pp o 0 x) (pp o 0 a) then [] else w1 ++ lit "as" ++ w1 ++ pp o 0 x
                | Some x, None => w1 ++ lit "as" ++ w1 ++ pp o 0 x
                | None, _ => []
                end))
  | SFields only fs =>
      Some (lit "fields" ++ w1 ++ (if only then [] else lit "except" ++ w1) ++ names_text o fs)
  | SWhere e => Some (lit "where" ++ w1 ++ pp o 0 e)
  | SLet e n => Some (pp o 0 e ++ as_text o n)
  | STimeslice e ns n =>
      Some (lit "timeslice" ++ arg_text o e ++ w1 ++ dur_text ns
            ++ (match n with Some x => as_text o x | None => [] end))
  | SLimit n => Some (lit "limit" ++ w1 ++ Z_to_str n)
  | STotal e n => Some (lit "total" ++ arg_text o e ++ as_text o n)
  | SAgg fns keys =>
      match all_some (map (fun nf => option_map (fun t => t ++ as_text o (fst nf)) (aggfn_text o (snd nf))) fns) with
      | Some ts =>
          Some (sep_join (comma o) ts
                ++ (match keys with
                    | [] => []
                    | _ => w1 ++ lit "by" ++ w1 ++ sep_join (comma o) (map (fun ke => pp o 0 (snd ke)) keys)
                    end))
      | None => None
      end
  | SSort keys desc =>
      Some (lit "sort"
            ++ (match keys with [] => [] | _ => w1 ++ lit "by" ++ w1 ++ sep_join (comma o) (map (pp o 0) keys) end)
            ++ (if desc then w1 ++ lit "desc" else []))
  | SUnmodelled => None
  end.

(** a whole query: the search part (`*` when empty), then `| stage` for every stage *)
Definition pp_query (o : popts) (fs : list filter) (stages : list stage) : option str :=
  match all_some (map (pp_stage o) stages) with
  | Some ts =>
      Some ((match fs with [] => lit "*" | _ => fpp_top o fs end)
            ++ flat_map (fun t => po_ws0 o ++ 124 :: po_ws0 o ++ t) ts)
  | None => None
  end.

(** *** which stages the printer/parser pair covers *)
Definition mode_word (n : str) : bool :=
  str_eqb n (lit "only") || str_eqb n (lit "include") || str_eqb n (lit "except") || str_eqb n (lit "drop").

Definition operator_words : list str :=
  map lit ["parse"; "json"; "logfmt"; "fields"; "limit"; "split"; "timeslice"; "total"; "where";
           "count"; "count_distinct"; "min"; "max"; "sum"; "avg"; "average"; "sort"].

(** a field expression must not begin with a word the operator alternatives claim first
    (known finding KF-30), nor look like a percentile call *)
Definition reserved_start (t : str) : bool :=
  let '(w, r) := take_while is_ident_char t in
  existsb (str_eqb w) operator_words
  || (match first_tag Generated.pct_tags w with
      | Some d => negb (is_nil d) && forallb is_digit d && head_is 40 r
      | None => false
      end).

(** structural equality of doubles ([bits_of_f] does not separate unnormalised representations) *)
Definition sf_eqb (x y : f64) : bool :=
  match x, y with
  | SpecFloat.S754_zero a, SpecFloat.S754_zero b => Bool.eqb a b
  | SpecFloat.S754_infinity a, SpecFloat.S754_infinity b => Bool.eqb a b
  | SpecFloat.S754_nan, SpecFloat.S754_nan => true
  | SpecFloat.S754_finite a m e, SpecFloat.S754_finite b n f => Bool.eqb a b && Pos.eqb m n && Z.eqb e f
  | _, _ => false
  end.

Definition wf_opt (f : option expr) : bool := match f with Some e => wf_expr e | None => true end.

Definition wf_aggfn (f : aggfn) : bool :=
  match f with
  | FCount c => wf_opt c
  | FSum e | FMin e | FMax e | FAvg e | FDistinct e => wf_expr e
  | FPct q e => wf_expr e && (match pct_of q with
                              | Some v => sf_eqb q (fdiv (f_of_Z v) (f_of_Z 100))   (* the canonical double of NN/100 *)
                              | None => false
                              end)
  end.

Definition wf_stage (o : popts) (st : stage) : bool :=
  match st with
  | SJson f | SLogfmt f => wf_opt f
  | SParse _ _ f _ _ => wf_opt f
  | SSplit _ arg out => wf_opt arg && wf_opt out && (match out, arg with None, Some _ => false | _, _ => true end)
  | SFields only fs =>
      negb (is_nil fs) && negb (only && match fs with n :: _ => mode_word n | [] => false end)
  | SWhere e => wf_expr e
  | SLet e _ => wf_expr e && negb (reserved_start (pp o 0 e))
  | STimeslice e ns _ => wf_expr e && in_i64 ns && dur_ok ns
  | SLimit n => negb (n =? 0)%Z && (Z.abs n <=? 2 ^ 53)%Z
  | STotal e _ => wf_expr e
  | SAgg fns keys =>
      negb (is_nil fns) && forallb (fun nf => wf_aggfn (snd nf)) fns
      && forallb (fun ke => wf_expr (snd ke) && str_eqb (fst ke) (pp o 0 (snd ke))) keys
  | SSort keys _ => forallb wf_expr keys
  | SUnmodelled => false
  end.

(** what follows a stage: the end of the query or, after optional whitespace, a pipe *)
Definition stage_stop (k : str) : bool :=
  match skip_spaces k with [] => true | c :: _ => (c =? 124) end.
(** ... a single pipe: `a||b` would continue an expression *)
Definition single_pipe (k : str) : bool :=
  match skip_spaces k with _ :: c :: _ => negb (c =? 124) | _ => true end.

Definition plain_inline (st : stage) : bool :=
  match st with SLet _ _ | SAgg _ _ | SSort _ _ | SUnmodelled => false | _ => true end.
