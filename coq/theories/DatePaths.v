(** Which chrono text each code path of src/data.rs gives a date: the table [Generated.date_forms]
    (re-read from the Rust source on every run) maps the path — "Serialize" (the JSON serializer),
    "Display" ([Display for Value], i.e. [to_string]), "ValueDisplay" (the text / logfmt / format
    printers) — to the spelling found there; the spelling selects one of the three texts of DateFmt.v. *)
From Coq Require Import List ZArith NArith Strings.String.
From AG Require Generated.
From AG Require Import Str DateFmt.
Import ListNotations.
Local Open Scope string_scope.

Definition form_of_spelling (s : string) : option (Z -> str) :=
  if String.eqb s "to_rfc3339" then Some fmt_rfc3339
  else if String.eqb s "{}" then Some fmt_date_display
  else if String.eqb s "{:?}" then Some fmt_date_debug
  else None.

Fixpoint assoc_path (p : string) (l : list (string * string)) : option string :=
  match l with
  | [] => None
  | (k, v) :: r => if String.eqb k p then Some v else assoc_path p r
  end.

Definition date_form (path : string) : option (Z -> str) :=
  match assoc_path path Generated.date_forms with
  | Some sp => form_of_spelling sp
  | None => None
  end.

Lemma date_form_serialize : date_form "Serialize" = Some fmt_rfc3339.
Proof. reflexivity. Qed.
Lemma date_form_display : date_form "Display" = Some fmt_date_debug.
Proof. reflexivity. Qed.
Lemma date_form_value_display : date_form "ValueDisplay" = Some fmt_date_display.
Proof. reflexivity. Qed.
