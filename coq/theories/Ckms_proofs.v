(** Theorems about the CKMS model (Ckms.v).  No fact about floating-point
    ARITHMETIC is used: only the order properties of the comparisons [fltb],
    [fleb] on non-NaN doubles (from F64_proofs.v, [ocmp]). *)
From Coq Require Import List ZArith Bool Lia Floats.SpecFloat.
From AG Require Import F64 F64_proofs Ckms.
Import ListNotations.
Open Scope Z_scope.

Opaque inner_cap.

(** * The flat list of entries under [Store::insert] and [Store::compress] *)

(** [l'] is [l] with [e] inserted somewhere *)
Definition Ins (e : entry) (l l' : list entry) : Prop :=
  exists l1 l2, l = l1 ++ l2 /\ l' = l1 ++ e :: l2.

Lemma flat_cons : forall b rest, flat (b :: rest) = b ++ flat rest.
Proof. reflexivity. Qed.

Lemma place_Ins : forall d oi ii e, Ins e (flat d) (flat (place oi ii e d)).
Proof.
  induction d as [|b rest IH]; intros oi ii e.
  - exists [], []. split; reflexivity.
  - destruct oi as [|k]; cbn [place].
    + exists (firstn ii b), (skipn ii b ++ flat rest).
      split.
      * rewrite flat_cons, app_assoc, firstn_skipn. reflexivity.
      * unfold insert_at.
        destruct (Nat.ltb inner_cap _).
        -- rewrite !flat_cons, app_assoc, firstn_skipn, <- app_assoc. reflexivity.
        -- rewrite flat_cons, <- app_assoc. reflexivity.
    + destruct (IH k ii e) as (l1 & l2 & H1 & H2).
      exists (b ++ l1), l2. rewrite !flat_cons, H1, H2, !app_assoc. split; reflexivity.
Qed.

Lemma store_insert_Ins : forall err2 x d,
  exists dl, Ins (mkE x 1 dl) (flat d) (flat (store_insert err2 x d)).
Proof.
  intros err2 x d. unfold store_insert.
  destruct (insert_pos err2 x d) as [[oi ii] dl]. exists dl. apply place_Ins.
Qed.

Lemma sum_g_app : forall a b, sum_g (a ++ b) = sum_g a + sum_g b.
Proof.
  induction a as [|e a IH]; intros b.
  - reflexivity.
  - cbn [app]. unfold sum_g in *. cbn [fold_right]. rewrite IH. lia.
Qed.

Lemma sum_g_cons : forall e l, sum_g (e :: l) = e_g e + sum_g l.
Proof. reflexivity. Qed.

Lemma Ins_In : forall e l l' x, Ins e l l' -> In x l' -> x = e \/ In x l.
Proof.
  intros e l l' x (l1 & l2 & -> & ->) Hin.
  apply in_app_or in Hin. destruct Hin as [Hin|[Hin|Hin]].
  - right. apply in_or_app. left. exact Hin.
  - left. symmetry. exact Hin.
  - right. apply in_or_app. right. exact Hin.
Qed.

Lemma Ins_sum : forall e l l', Ins e l l' -> sum_g l' = sum_g l + e_g e.
Proof.
  intros e l l' (l1 & l2 & -> & ->). rewrite !sum_g_app, sum_g_cons. lia.
Qed.

Lemma Ins_nonempty : forall e l l', Ins e l l' -> l' <> [].
Proof.
  intros e l l' (l1 & l2 & -> & ->) H. destruct l1; discriminate H.
Qed.

Lemma Ins_length : forall e l l', Ins e l l' -> length l' = S (length l).
Proof.
  intros e l l' (l1 & l2 & -> & ->). rewrite !app_length. cbn [length]. lia.
Qed.

(** compress *)
Lemma tag_data_snd : forall d k, map snd (tag_data k d) = flat d.
Proof.
  induction d as [|b rest IH]; intros k; cbn [tag_data].
  - reflexivity.
  - rewrite map_app, map_map, IH, flat_cons. cbn [snd]. rewrite map_id. reflexivity.
Qed.

Lemma regroup_concat : forall l, concat (regroup l) = map snd l.
Proof.
  induction l as [|[t e] rest IH].
  - reflexivity.
  - cbn [regroup]. destruct (regroup rest) as [|g gs] eqn:Hr.
    + cbn [concat] in IH. destruct rest as [|p rest']; [reflexivity | discriminate IH].
    + destruct rest as [|[t' e'] rest'].
      * discriminate Hr.
      * cbn [map snd] in *. destruct (Nat.eqb t t'); cbn [concat app] in *; rewrite IH; reflexivity.
Qed.

Lemma join_concat : forall rest cur, concat (join_blocks cur rest) = cur ++ concat rest.
Proof.
  induction rest as [|nx rest IH]; intros cur; cbn [join_blocks].
  - reflexivity.
  - destruct (Nat.leb _ _).
    + rewrite IH, <- app_assoc. reflexivity.
    + cbn [concat]. rewrite IH. reflexivity.
Qed.

Lemma store_compress_flat : forall err2 d,
  flat (store_compress err2 d) = flat d \/
  exists c rest, map snd (c :: rest) = flat d /\
                 flat (store_compress err2 d) = map snd (compress_flat err2 c rest 1).
Proof.
  intros err2 d. unfold store_compress.
  destruct (Nat.ltb _ 3); [left; reflexivity|].
  destruct (tag_data O d) as [|c rest] eqn:Ht; [left; reflexivity|].
  destruct (regroup _) as [|b bs] eqn:Hr; [left; reflexivity|].
  right. exists c, rest. split.
  - rewrite <- Ht. apply tag_data_snd.
  - unfold flat. rewrite join_concat. change (b ++ concat bs) with (concat (b :: bs)).
    rewrite <- Hr. apply regroup_concat.
Qed.

Lemma compress_flat_vals : forall err2 rest cur r x,
  In x (map snd (compress_flat err2 cur rest r)) ->
  In (e_v x) (map e_v (map snd (cur :: rest))).
Proof.
  induction rest as [|nxt rest IH]; intros cur r x Hin; cbn [compress_flat] in Hin.
  - cbn [map In] in *. destruct Hin as [<-|[]]. left. reflexivity.
  - destruct (Z.leb _ _).
    + apply IH in Hin. cbn [map In fst snd merge_entry e_v] in *.
      destruct Hin as [H|H]; [right; left; exact H | right; right; exact H].
    + cbn [map In] in *. destruct Hin as [<-|Hin].
      * left. reflexivity.
      * right. apply IH in Hin. exact Hin.
Qed.

Lemma compress_flat_sum : forall err2 rest cur r,
  sum_g (map snd (compress_flat err2 cur rest r)) = e_g (snd cur) + sum_g (map snd rest).
Proof.
  induction rest as [|nxt rest IH]; intros cur r; cbn [compress_flat].
  - cbn [map]. rewrite sum_g_cons. reflexivity.
  - destruct (Z.leb _ _).
    + rewrite IH. cbn [map fst snd merge_entry e_g]. rewrite sum_g_cons. lia.
    + cbn [map]. rewrite !sum_g_cons, IH. reflexivity.
Qed.

Lemma compress_flat_nonempty : forall err2 rest cur r, compress_flat err2 cur rest r <> [].
Proof.
  induction rest as [|nxt rest IH]; intros cur r; cbn [compress_flat].
  - discriminate.
  - destruct (Z.leb _ _); [apply IH | discriminate].
Qed.

Lemma compress_vals : forall err2 d e,
  In e (flat (store_compress err2 d)) -> In (e_v e) (map e_v (flat d)).
Proof.
  intros err2 d e Hin.
  destruct (store_compress_flat err2 d) as [H|(c & rest & H1 & H2)].
  - rewrite H in Hin. apply in_map. exact Hin.
  - rewrite H2 in Hin. apply compress_flat_vals in Hin. rewrite H1 in Hin. exact Hin.
Qed.

Lemma compress_sum : forall err2 d, sum_g (flat (store_compress err2 d)) = sum_g (flat d).
Proof.
  intros err2 d.
  destruct (store_compress_flat err2 d) as [H|(c & rest & H1 & H2)].
  - rewrite H. reflexivity.
  - rewrite H2, compress_flat_sum, <- H1. cbn [map]. rewrite sum_g_cons. reflexivity.
Qed.

Lemma compress_nonempty : forall err2 d, flat d <> [] -> flat (store_compress err2 d) <> [].
Proof.
  intros err2 d Hd.
  destruct (store_compress_flat err2 d) as [H|(c & rest & H1 & H2)].
  - rewrite H. exact Hd.
  - rewrite H2. intros E. apply map_eq_nil in E. exact (compress_flat_nonempty _ _ _ _ E).
Qed.

(** * The state invariant along an insertion sequence *)
Definition Inv (acc : list f64) (st : ckms_state) : Prop :=
  (forall e, In e (flat (st_data st)) -> In (e_v e) acc) /\
  sum_g (flat (st_data st)) = Z.of_nat (length acc) /\
  st_n st = Z.of_nat (length acc) /\
  (acc <> [] -> flat (st_data st) <> []).

Lemma Inv_new : forall err, Inv [] (ckms_new err).
Proof.
  intros err. unfold Inv, ckms_new. cbn [st_data st_n flat concat app length].
  repeat split.
  - intros e [].
  - intros H. exfalso. apply H. reflexivity.
Qed.

Lemma st_data_insert : forall st x,
  st_data (ckms_insert st x) = store_insert (st_err2 st) x (st_data st) \/
  st_data (ckms_insert st x) =
    store_compress (st_err2 st) (store_insert (st_err2 st) x (st_data st)).
Proof.
  intros st x. unfold ckms_insert. cbn [st_data].
  destruct (Z.eqb _ 0); [right | left]; reflexivity.
Qed.

Lemma Inv_step : forall acc st x, Inv acc st -> Inv (acc ++ [x]) (ckms_insert st x).
Proof.
  intros acc st x (Hv & Hs & Hn & Hne).
  destruct (store_insert_Ins (st_err2 st) x (st_data st)) as [dl HI].
  set (d1 := store_insert (st_err2 st) x (st_data st)) in *.
  assert (Hv1 : forall e, In e (flat d1) -> In (e_v e) (acc ++ [x])).
  { intros e Hin. apply (Ins_In _ _ _ _ HI) in Hin. apply in_or_app.
    destruct Hin as [->|Hin]; [right; left; reflexivity | left; apply Hv; exact Hin]. }
  assert (Hs1 : sum_g (flat d1) = Z.of_nat (length (acc ++ [x]))).
  { rewrite (Ins_sum _ _ _ HI), Hs, app_length. cbn [e_g length]. lia. }
  assert (Hne1 : flat d1 <> []) by exact (Ins_nonempty _ _ _ HI).
  assert (Hn1 : st_n (ckms_insert st x) = Z.of_nat (length (acc ++ [x]))).
  { unfold ckms_insert. cbn [st_n]. rewrite Hn, app_length. cbn [length]. lia. }
  unfold Inv.
  destruct (st_data_insert st x) as [E|E]; rewrite E; fold d1.
  - repeat split; auto.
  - repeat split; auto.
    + intros e Hin. apply compress_vals in Hin. apply in_map_iff in Hin.
      destruct Hin as (e' & Hev & Hin'). rewrite <- Hev. apply Hv1. exact Hin'.
    + rewrite compress_sum. exact Hs1.
    + intros _. apply compress_nonempty. exact Hne1.
Qed.

Lemma Inv_fold : forall vals acc st,
  Inv acc st -> Inv (acc ++ vals) (fold_left ckms_insert vals st).
Proof.
  induction vals as [|a vals IH]; intros acc st H; cbn [fold_left].
  - rewrite app_nil_r. exact H.
  - replace (acc ++ a :: vals) with ((acc ++ [a]) ++ vals) by (rewrite <- app_assoc; reflexivity).
    apply IH, Inv_step, H.
Qed.

Lemma Inv_run : forall err vals, Inv vals (fold_left ckms_insert vals (ckms_new err)).
Proof. intros err vals. apply (Inv_fold vals [] _ (Inv_new err)). Qed.

(** * query *)
Lemma query_loop_in : forall rest rhs prev r s,
  In (snd (query_loop rhs prev rest r s)) (map e_v (prev :: rest)).
Proof.
  induction rest as [|cur rest IH]; intros rhs prev r s; cbn [query_loop].
  - left. reflexivity.
  - destruct (fltb _ _).
    + left. reflexivity.
    + right. apply IH.
Qed.

Lemma ckms_query_in : forall st q r v,
  ckms_query st q = Some (r, v) -> exists e, In e (flat (st_data st)) /\ e_v e = v.
Proof.
  intros st q r v H. unfold ckms_query in H.
  destruct (flat (st_data st)) as [|e0 rest]; [discriminate H|].
  cbv zeta in H.
  match type of H with
  | Some (query_loop ?rhs ?p ?rs ?r0 ?s) = _ =>
      pose proof (query_loop_in rs rhs p r0 s) as Hq;
      destruct (query_loop rhs p rs r0 s) as [r' v']
  end.
  injection H as -> ->.
  cbn [snd] in Hq. apply in_map_iff in Hq.
  destruct Hq as (e & Hev & Hin). exists e. split; assumption.
Qed.

Lemma ckms_query_some : forall st q,
  flat (st_data st) <> [] -> exists r v, ckms_query st q = Some (r, v).
Proof.
  intros st q H. unfold ckms_query.
  destruct (flat (st_data st)) as [|e0 rest]; [contradiction|].
  destruct (query_loop _ e0 rest 0 _) as [r v]. exists r, v. reflexivity.
Qed.

(** ** (a) the answer is one of the inserted values *)
Theorem ckms_query_observed : forall err vals q r v,
  ckms_run err vals q = Some (r, v) -> In v vals.
Proof.
  intros err vals q r v H. unfold ckms_run in H.
  apply ckms_query_in in H. destruct H as (e & Hin & <-).
  destruct (Inv_run err vals) as (Hv & _). apply Hv. exact Hin.
Qed.

(** ** (b) a non-empty sketch answers, the empty one does not (any q, any error) *)
Theorem ckms_nonempty_answers : forall err vals q,
  vals <> [] -> exists r v, ckms_run err vals q = Some (r, v).
Proof.
  intros err vals q Hne. unfold ckms_run. apply ckms_query_some.
  destruct (Inv_run err vals) as (_ & _ & _ & H). apply H. exact Hne.
Qed.

Theorem ckms_empty_none : forall err q, ckms_run err [] q = None.
Proof. intros err q. reflexivity. Qed.

(** ** (c1) the [g] of the samples add up to the number of insertions, which
    is the sketch's [n] *)
Definition samples_g_sum (l : list (f64 * Z * Z)) : Z :=
  fold_right (fun s a => snd (fst s) + a) 0 l.

Lemma samples_g_sum_eq : forall l,
  samples_g_sum (map (fun e => (e_v e, e_g e, e_d e)) l) = sum_g l.
Proof.
  induction l as [|e l IH]; [reflexivity|].
  cbn [map]. unfold samples_g_sum, sum_g in *. cbn [fold_right fst snd]. rewrite IH. reflexivity.
Qed.

Theorem ckms_g_sum : forall err vals,
  let st := fold_left ckms_insert vals (ckms_new err) in
  samples_g_sum (ckms_samples st) = Z.of_nat (length vals) /\
  st_n st = Z.of_nat (length vals).
Proof.
  intros err vals st. destruct (Inv_run err vals) as (_ & Hs & Hn & _).
  unfold ckms_samples. rewrite samples_g_sum_eq. split; assumption.
Qed.

(** * (c2) Sortedness.  Order facts about [fltb]/[fleb] on non-NaN doubles *)
Definition nn (x : f64) : Prop := f_is_nan x = false.

Lemma SFcompare_some : forall x y, nn x -> nn y -> exists c, SFcompare x y = Some c.
Proof.
  unfold nn. intros x y Hx Hy.
  destruct x as [sx|sx| |sx mx ex]; try discriminate Hx;
    destruct y as [sy|sy| |sy my ey]; try discriminate Hy;
    cbn [SFcompare]; eexists; reflexivity.
Qed.

Lemma fltb_fleb : forall a b, fltb a b = true -> fleb a b = true.
Proof.
  intros a b. unfold fltb, fleb, SFltb, SFleb.
  destruct (SFcompare a b) as [[| |]|]; intros H; try reflexivity; discriminate H.
Qed.

Lemma fleb_ocmp : forall a b, nn a -> nn b -> (fleb a b = true <-> ocmp a b <> Gt).
Proof.
  intros a b Ha Hb. unfold fleb, SFleb, ocmp, fcmp.
  destruct (SFcompare_some a b Ha Hb) as [c Hc]. rewrite Hc.
  destruct c; split; intros H; try reflexivity; try discriminate; congruence.
Qed.

Lemma fleb_refl : forall a, nn a -> fleb a a = true.
Proof. intros a Ha. apply fleb_ocmp; auto. rewrite ocmp_refl. discriminate. Qed.

Lemma fleb_trans : forall a b c, nn a -> nn b -> nn c ->
  fleb a b = true -> fleb b c = true -> fleb a c = true.
Proof.
  intros a b c Ha Hb Hc H1 H2. apply fleb_ocmp; auto.
  apply (ocmp_trans_le a b c); apply fleb_ocmp; auto.
Qed.

Lemma nlt_fleb : forall a b, nn a -> nn b -> fltb a b = false -> fleb b a = true.
Proof.
  intros a b Ha Hb H. apply fleb_ocmp; auto. rewrite (ocmp_antisym a b).
  unfold ocmp, fcmp. unfold fltb, SFltb in H.
  destruct (SFcompare_some a b Ha Hb) as [c Hc]. rewrite Hc in *.
  destruct c; cbn [CompOpp]; try discriminate.
Qed.

(** adjacent entries are in order *)
Fixpoint sorted (l : list entry) : Prop :=
  match l with
  | a :: t => match t with b :: _ => fleb (e_v a) (e_v b) = true | [] => True end /\ sorted t
  | [] => True
  end.

Definition nnl (l : list entry) : Prop := forall e, In e l -> nn (e_v e).

Lemma sorted_app_inv : forall l1 l2, sorted (l1 ++ l2) -> sorted l1 /\ sorted l2.
Proof.
  induction l1 as [|a l1 IH]; intros l2 H.
  - split; [exact I | exact H].
  - cbn [app sorted] in H. destruct H as [Hh Ht]. destruct (IH _ Ht) as [H1 H2].
    split; [|exact H2]. cbn [sorted]. split; [|exact H1].
    destruct l1 as [|b l1']; [exact I | exact Hh].
Qed.

Lemma sorted_junction : forall l1 a c l2, sorted ((l1 ++ [a]) ++ c :: l2) -> fleb (e_v a) (e_v c) = true.
Proof.
  induction l1 as [|b l1 IH]; intros a c l2 H.
  - cbn [app sorted] in H. apply H.
  - cbn [app sorted] in H. destruct H as [_ H]. apply (IH _ _ _ H).
Qed.

Lemma sorted_app : forall l1 l2, sorted l1 -> sorted l2 ->
  (forall l' a c l2', l1 = l' ++ [a] -> l2 = c :: l2' -> fleb (e_v a) (e_v c) = true) ->
  sorted (l1 ++ l2).
Proof.
  induction l1 as [|a l1 IH]; intros l2 H1 H2 HJ.
  - exact H2.
  - cbn [app sorted] in *. destruct H1 as [Hh Ht]. split.
    + destruct l1 as [|b l1'].
      * cbn [app]. destruct l2 as [|c l2']; [exact I|]. apply (HJ [] a c l2'); reflexivity.
      * exact Hh.
    + apply IH; auto. intros l' a' c l2' E1 E2. apply (HJ (a :: l') a' c l2'); [|exact E2].
      rewrite E1. reflexivity.
Qed.

Lemma sorted_insert : forall x l1 l2, sorted (l1 ++ l2) ->
  (forall l' a, l1 = l' ++ [a] -> fleb (e_v a) (e_v x) = true) ->
  (forall a l', l2 = a :: l' -> fleb (e_v x) (e_v a) = true) ->
  sorted (l1 ++ x :: l2).
Proof.
  intros x l1 l2 Hs H1 H2. destruct (sorted_app_inv _ _ Hs) as [Hs1 Hs2].
  apply sorted_app; auto.
  - cbn [sorted]. split; [|exact Hs2]. destruct l2 as [|a l']; [exact I|]. apply (H2 a l'). reflexivity.
  - intros l' a c l2' E1 E2. injection E2 as <- _. apply (H1 l' a E1).
Qed.

(** lower bound carried along the blocks *)
Definition lb_ok (lo : option f64) (l : list entry) : Prop :=
  match lo, l with Some v, a :: _ => fleb v (e_v a) = true | _, _ => True end.

Lemma last_cons_ne : forall (e : entry) b d, b <> [] -> last (e :: b) d = last b d.
Proof. intros e b d H. destruct b; [contradiction | reflexivity]. Qed.

Lemma last_v_cons : forall e b x, b <> [] -> last_v (e :: b) x = last_v b x.
Proof. intros e b x H. unfold last_v. rewrite last_cons_ne; auto. Qed.

Lemma last_split : forall (b : list entry) d, b <> [] -> exists l', b = l' ++ [last b d].
Proof.
  induction b as [|e b IH]; intros d H; [contradiction|].
  destruct b as [|e' b'].
  - exists []. reflexivity.
  - destruct (IH d) as [l' E]; [discriminate|]. exists (e :: l').
    rewrite last_cons_ne by discriminate. cbn [app]. rewrite <- E. reflexivity.
Qed.

Lemma app_inj_tail' : forall (l1 l2 : list entry) a b, l1 ++ [a] = l2 ++ [b] -> a = b.
Proof. intros l1 l2 a b H. apply app_inj_tail in H. apply H. Qed.

Lemma seek_inner_firstn : forall x b e,
  In e (firstn (seek_inner x b) b) -> fltb (e_v e) x = true.
Proof.
  induction b as [|a b IH]; intros e Hin; cbn [seek_inner] in Hin.
  - destruct Hin.
  - destruct (fltb (e_v a) x) eqn:E.
    + cbn [firstn In] in Hin. destruct Hin as [<-|Hin]; [exact E | apply IH; exact Hin].
    + destruct Hin.
Qed.

Lemma seek_inner_skipn : forall x b a l',
  skipn (seek_inner x b) b = a :: l' -> fltb (e_v a) x = false.
Proof.
  induction b as [|c b IH]; intros a l' H; cbn [seek_inner] in H.
  - discriminate H.
  - destruct (fltb (e_v c) x) eqn:E.
    + cbn [skipn] in H. apply (IH _ _ H).
    + cbn [skipn] in H. injection H as <- _. exact E.
Qed.

Lemma seek_inner_skipn_ne : forall x b, b <> [] -> fltb (last_v b x) x = false ->
  skipn (seek_inner x b) b <> [].
Proof.
  induction b as [|c b IH]; intros Hne Hl; [contradiction|].
  cbn [seek_inner]. destruct (fltb (e_v c) x) eqn:E.
  - cbn [skipn]. destruct b as [|c' b'].
    + unfold last_v in Hl. cbn [last] in Hl. rewrite E in Hl. discriminate Hl.
    + apply IH; [discriminate|]. rewrite last_v_cons in Hl by discriminate. exact Hl.
  - cbn [skipn]. discriminate.
Qed.

Lemma flat_place_O : forall ii e b rest,
  flat (place O ii e (b :: rest)) = firstn ii b ++ e :: skipn ii b ++ flat rest.
Proof.
  intros ii e b rest. cbn [place]. unfold insert_at.
  destruct (Nat.ltb inner_cap _).
  - rewrite !flat_cons, app_assoc, firstn_skipn, <- app_assoc. reflexivity.
  - rewrite flat_cons, <- app_assoc. reflexivity.
Qed.

Lemma flat_place_S : forall k ii e b rest,
  flat (place (S k) ii e (b :: rest)) = b ++ flat (place k ii e rest).
Proof. reflexivity. Qed.

Definition blocks_ne (d : list (list entry)) : Prop := Forall (fun b => b <> []) d.

Lemma nnl_app_l : forall l1 l2, nnl (l1 ++ l2) -> nnl l1.
Proof. intros l1 l2 H e Hin. apply H, in_or_app. left. exact Hin. Qed.
Lemma nnl_app_r : forall l1 l2, nnl (l1 ++ l2) -> nnl l2.
Proof. intros l1 l2 H e Hin. apply H, in_or_app. right. exact Hin. Qed.

(** the middle insertion keeps the entries in order *)
Lemma middle_sorted : forall x, nn x -> forall d lo oi0 r0 oi r b,
  blocks_ne d -> d <> [] -> sorted (flat d) -> nnl (flat d) ->
  lb_ok lo (flat d) -> (forall v, lo = Some v -> fleb v x = true) ->
  fltb (last_v (last d []) x) x = false ->
  seek_outer x d oi0 r0 = (oi, r, b) ->
  exists k, forall dl,
    let L := flat (place k (seek_inner x b) (mkE x 1 dl) d) in
    oi = (oi0 + k)%nat /\ sorted L /\ lb_ok lo L.
Proof.
  intros x Hx. induction d as [|b0 rest IH]; intros lo oi0 r0 oi r b Hne Hd Hs Hnn Hlb Hlo Hback Hseek.
  - contradiction.
  - cbn [seek_outer] in Hseek. inversion Hne as [|? ? Hb0 Hrest]; subst.
    destruct (fltb (last_v b0 x) x) eqn:Hlt.
    + destruct rest as [|b' rest'].
      * cbn [last] in Hback. rewrite Hback in Hlt. discriminate Hlt.
      * rewrite flat_cons in Hs, Hnn, Hlb.
        destruct (sorted_app_inv _ _ Hs) as [Hs0 Hsr].
        destruct (last_split b0 (mkE x 0 0) Hb0) as [l0 El0].
        assert (Hlbr : lb_ok (Some (last_v b0 x)) (flat (b' :: rest'))).
        { unfold lb_ok. destruct (flat (b' :: rest')) as [|c fr] eqn:Efr; [exact I|].
          rewrite El0 in Hs. unfold last_v. apply (sorted_junction _ _ _ _ Hs). }
        destruct (IH (Some (last_v b0 x)) (S oi0) (r0 + sum_g b') oi r b Hrest) as [k Hk]; auto.
        -- discriminate.
        -- apply (nnl_app_r _ _ Hnn).
        -- intros v Ev. injection Ev as <-. apply fltb_fleb. exact Hlt.
        -- exists (S k). intros dl. destruct (Hk dl) as (Hoi & HsL & HlbL).
           rewrite flat_place_S. split; [lia|]. split.
           ++ apply sorted_app; auto. intros l' a c l2' E1 E2.
              rewrite El0 in E1. apply app_inj_tail' in E1. subst a.
              rewrite E2 in HlbL. exact HlbL.
           ++ destruct b0 as [|a0 b0']; [contradiction|]. exact Hlb.
    + injection Hseek as <- <- <-. exists O. intros dl. rewrite flat_place_O.
      rewrite flat_cons in Hs, Hnn, Hlb.
      split; [lia|]. split.
      * apply sorted_insert.
        -- rewrite app_assoc, firstn_skipn. exact Hs.
        -- intros l' a E. cbn [e_v]. apply fltb_fleb. apply (seek_inner_firstn x b0).
           rewrite E. apply in_or_app. right. left. reflexivity.
        -- intros a l' E. cbn [e_v].
           destruct (skipn (seek_inner x b0) b0) as [|a' sk] eqn:Esk.
           ++ exfalso. revert Esk. apply seek_inner_skipn_ne; auto.
           ++ cbn [app] in E. injection E as <- _.
              apply nlt_fleb; auto.
              ** apply Hnn. apply in_or_app. left.
                 rewrite <- (firstn_skipn (seek_inner x b0) b0), Esk. apply in_or_app. right. left. reflexivity.
              ** apply (seek_inner_skipn x b0 a' sk Esk).
      * unfold lb_ok. destruct lo as [v|]; [|exact I].
        destruct (firstn (seek_inner x b0) b0) as [|a1 f1] eqn:Ef.
        -- cbn [app e_v]. apply Hlo. reflexivity.
        -- cbn [app]. destruct b0 as [|a0 b0']; [contradiction|].
           destruct (seek_inner x (a0 :: b0')); [discriminate Ef|].
           cbn [firstn] in Ef. injection Ef as <- _. exact Hlb.
Qed.

Lemma last_flat : forall d dd, blocks_ne d -> d <> [] -> last (flat d) dd = last (last d []) dd.
Proof.
  induction d as [|b rest IH]; intros dd Hne Hd; [contradiction|].
  inversion Hne as [|? ? Hb Hrest]; subst.
  destruct rest as [|b' rest'].
  - rewrite flat_cons. cbn [flat concat last]. rewrite app_nil_r. reflexivity.
  - rewrite flat_cons. cbn [last]. rewrite <- IH; auto; [|discriminate].
    assert (Hf : flat (b' :: rest') <> []).
    { rewrite flat_cons. inversion Hrest; subst. destruct b'; [contradiction | discriminate]. }
    revert Hf. generalize (flat (b' :: rest')). intros l Hl.
    clear -Hl. induction b as [|e b IHb]; [reflexivity|].
    cbn [app]. rewrite last_cons_ne; [exact IHb|]. destruct b; [exact Hl | discriminate].
Qed.

Lemma place_back : forall e d, d <> [] ->
  flat (place (length d - 1) (length (last d [])) e d) = flat d ++ [e].
Proof.
  induction d as [|b rest IH]; intros Hd; [contradiction|].
  destruct rest as [|b' rest'].
  - cbn [length Nat.sub last]. rewrite flat_place_O, firstn_all, skipn_all.
    cbn [flat concat app]. rewrite !app_nil_r. reflexivity.
  - replace (length (b :: b' :: rest') - 1)%nat with (S (length (b' :: rest') - 1)) by (cbn [length]; lia).
    cbn [last]. rewrite flat_place_S. change (match rest' with [] => b' | _ :: _ => last rest' [] end) with (last (b' :: rest') []).
    rewrite IH by discriminate. rewrite flat_cons, app_assoc. reflexivity.
Qed.

Definition wfd (d : list (list entry)) : Prop := d = [[]] \/ (d <> [] /\ blocks_ne d).

Lemma store_insert_sorted : forall err2 x d, nn x -> wfd d ->
  sorted (flat d) -> nnl (flat d) -> sorted (flat (store_insert err2 x d)).
Proof.
  intros err2 x d Hx Hw Hs Hnn. unfold store_insert, insert_pos.
  destruct Hw as [->|[Hd Hne]].
  - rewrite flat_place_O. cbn [firstn skipn flat concat app sorted]. split; exact I.
  - destruct d as [|b0 rest]; [contradiction|].
    inversion Hne as [|? ? Hb0 Hrest]; subst.
    destruct b0 as [|e0 b0']; [contradiction|].
    destruct (fleb x (e_v e0)) eqn:Hfront.
    + rewrite flat_place_O. cbn [firstn skipn]. apply (sorted_insert _ []); auto.
      * intros l' a E. destruct l'; discriminate E.
      * intros a l' E. cbn [app] in E. injection E as <- _. exact Hfront.
    + destruct (fltb (last_v (last ((e0 :: b0') :: rest) []) x) x) eqn:Hback.
      * rewrite place_back by discriminate.
        apply sorted_insert.
        -- rewrite app_nil_r. exact Hs.
        -- intros l' a E. cbn [e_v]. apply fltb_fleb.
           assert (Ea : a = last (flat ((e0 :: b0') :: rest)) (mkE x 0 0)).
           { rewrite E. clear. induction l' as [|c l' IHl]; [reflexivity|].
             cbn [app]. rewrite last_cons_ne; [exact IHl|]. destruct l'; discriminate. }
           rewrite last_flat in Ea by (auto; discriminate). subst a. exact Hback.
        -- intros a l' E. discriminate E.
      * destruct (seek_outer x ((e0 :: b0') :: rest) 0 0) as [[oi r] b] eqn:Hseek.
        destruct (middle_sorted x Hx _ None 0%nat 0 oi r b Hne Hd Hs Hnn I) as [k Hk]; auto.
        -- intros v Ev. discriminate Ev.
        -- destruct (Hk (invariant err2 (f_of_Z (r + Z.of_nat (seek_inner x b))) - 1)) as (Hoi & HsL & _).
           cbn [Nat.add] in Hoi. subst oi. exact HsL.
Qed.

(** blocks stay non-empty *)
Lemma inner_cap_pos : (0 < inner_cap)%nat.
Proof. Transparent inner_cap. unfold inner_cap. apply Nat.lt_0_succ. Qed.
Opaque inner_cap.

Lemma place_blocks_ne : forall d oi ii e, blocks_ne d -> blocks_ne (place oi ii e d).
Proof.
  assert (Hsplit : forall b : list entry,
            Nat.ltb inner_cap (length b) = true -> firstn inner_cap b <> [] /\ skipn inner_cap b <> []).
  { intros b Hlt. apply Nat.ltb_lt in Hlt. pose proof inner_cap_pos as Hc. split; intros E.
    - apply (f_equal (@length _)) in E. rewrite firstn_length in E. cbn [length] in E. lia.
    - apply (f_equal (@length _)) in E. rewrite skipn_length in E. cbn [length] in E. lia. }
  assert (Hins : forall ii e (b : list entry), insert_at ii e b <> []).
  { intros ii e b E. unfold insert_at in E. destruct (firstn ii b); discriminate E. }
  induction d as [|b rest IH]; intros oi ii e Hne.
  - cbn [place]. constructor; [discriminate | constructor].
  - inversion Hne as [|? ? Hb Hrest]; subst. destruct oi as [|k]; cbn [place].
    + destruct (Nat.ltb inner_cap _) eqn:Hlt.
      * destruct (Hsplit _ Hlt) as [H1 H2]. constructor; [exact H1|]. constructor; [exact H2 | exact Hrest].
      * constructor; [apply Hins | exact Hrest].
    + constructor; [exact Hb | apply IH; exact Hrest].
Qed.

Lemma place_ne : forall d oi ii e, place oi ii e d <> [].
Proof.
  intros d oi ii e. destruct d as [|b rest]; [discriminate|].
  destruct oi; cbn [place]; [destruct (Nat.ltb inner_cap _)|]; discriminate.
Qed.

Lemma store_insert_wf : forall err2 x d, wfd d ->
  store_insert err2 x d <> [] /\ blocks_ne (store_insert err2 x d).
Proof.
  intros err2 x d Hw. unfold store_insert.
  destruct Hw as [->|[Hd Hne]].
  - cbn [insert_pos]. split; [apply place_ne|].
    change [[]] with ([] ++ [@nil entry]).
    cbn [place app]. unfold insert_at. cbn [firstn skipn app].
    destruct (Nat.ltb inner_cap _) eqn:Hlt.
    + apply Nat.ltb_lt in Hlt. cbn [length] in Hlt. pose proof inner_cap_pos. lia.
    + constructor; [discriminate | constructor].
  - destruct (insert_pos err2 x d) as [[oi ii] dl]. split; [apply place_ne | apply place_blocks_ne; exact Hne].
Qed.

Lemma regroup_ne : forall l, blocks_ne (regroup l).
Proof.
  induction l as [|[t e] rest IH]; cbn [regroup].
  - constructor.
  - destruct (regroup rest) as [|g gs].
    + constructor; [discriminate | constructor].
    + destruct rest as [|[t' e'] rest'].
      * constructor; [discriminate | constructor].
      * inversion IH as [|? ? Hg Hgs]; subst.
        destruct (Nat.eqb t t'); constructor; try discriminate; auto.
Qed.

Lemma join_ne : forall rest cur, cur <> [] -> blocks_ne rest ->
  join_blocks cur rest <> [] /\ blocks_ne (join_blocks cur rest).
Proof.
  induction rest as [|nx rest IH]; intros cur Hc Hr; cbn [join_blocks].
  - split; [discriminate | constructor; [exact Hc | constructor]].
  - inversion Hr as [|? ? Hnx Hrest]; subst. destruct (Nat.leb _ _).
    + apply IH; [|exact Hrest]. destruct cur; [contradiction | discriminate].
    + split; [discriminate|]. constructor; [exact Hc | apply IH; assumption].
Qed.

Lemma store_compress_wf : forall err2 d, d <> [] -> blocks_ne d ->
  store_compress err2 d <> [] /\ blocks_ne (store_compress err2 d).
Proof.
  intros err2 d Hd Hne. unfold store_compress.
  destruct (Nat.ltb _ 3); [split; assumption|].
  destruct (tag_data O d) as [|c rest]; [split; assumption|].
  destruct (regroup _) as [|b bs] eqn:Hr; [split; assumption|].
  pose proof (regroup_ne (compress_flat err2 c rest 1)) as H. rewrite Hr in H.
  inversion H; subst. apply join_ne; assumption.
Qed.

(** compress keeps the order *)
Lemma fleb_nn : forall a b, fleb a b = true -> nn a /\ nn b.
Proof.
  unfold nn, fleb, SFleb. intros a b H.
  destruct a; destruct b; cbn [SFcompare f_is_nan] in *; split; try reflexivity; discriminate H.
Qed.

Lemma fleb_trans' : forall a b c, fleb a b = true -> fleb b c = true -> fleb a c = true.
Proof.
  intros a b c H1 H2. destruct (fleb_nn _ _ H1), (fleb_nn _ _ H2). apply (fleb_trans a b c); auto.
Qed.

Lemma compress_flat_sorted : forall err2 rest cur r,
  sorted (map snd (cur :: rest)) -> nn (e_v (snd cur)) ->
  sorted (map snd (compress_flat err2 cur rest r)) /\
  (forall c t, map snd (compress_flat err2 cur rest r) = c :: t ->
               fleb (e_v (snd cur)) (e_v c) = true).
Proof.
  induction rest as [|nxt rest IH]; intros cur r Hs Hnn; cbn [compress_flat].
  - cbn [map] in *. split; [exact Hs|]. intros c t E. injection E as <- _. apply fleb_refl. exact Hnn.
  - cbn [map sorted] in Hs. destruct Hs as [Hh Ht].
    destruct (fleb_nn _ _ Hh) as [_ Hnx].
    destruct (Z.leb _ _).
    + destruct (IH (fst cur, merge_entry (snd cur) (snd nxt)) (r + 1)) as [HsO HhO].
      * cbn [map snd sorted merge_entry e_v] in *. exact Ht.
      * cbn [snd merge_entry e_v]. exact Hnx.
      * split; [exact HsO|]. intros c t E. specialize (HhO c t E).
        cbn [snd merge_entry e_v] in HhO. apply (fleb_trans' _ (e_v (snd nxt))); assumption.
    + destruct (IH nxt (r + 1) Ht Hnx) as [HsO HhO]. cbn [map]. split.
      * cbn [sorted]. split; [|exact HsO].
        destruct (map snd (compress_flat err2 nxt rest (r + 1))) as [|c t] eqn:EO; [exact I|].
        apply (fleb_trans' _ (e_v (snd nxt))); [exact Hh | apply (HhO c t eq_refl)].
      * intros c t E. injection E as <- _. apply fleb_refl. exact Hnn.
Qed.

Lemma compress_sorted : forall err2 d, sorted (flat d) -> nnl (flat d) ->
  sorted (flat (store_compress err2 d)).
Proof.
  intros err2 d Hs Hnn.
  destruct (store_compress_flat err2 d) as [H|(c & rest & H1 & H2)].
  - rewrite H. exact Hs.
  - rewrite H2. apply compress_flat_sorted.
    + rewrite H1. exact Hs.
    + apply Hnn. rewrite <- H1. left. reflexivity.
Qed.

Definition Inv2 (st : ckms_state) : Prop :=
  wfd (st_data st) /\ sorted (flat (st_data st)).

Lemma Inv2_new : forall err, Inv2 (ckms_new err).
Proof. intros err. split; [left; reflexivity | exact I]. Qed.

Lemma Inv2_step : forall acc st x, Forall nn (acc ++ [x]) -> Inv acc st -> Inv2 st ->
  Inv2 (ckms_insert st x).
Proof.
  intros acc st x Hall HI [Hw Hs].
  pose proof (Inv_step acc st x HI) as (Hv1 & _).
  destruct HI as (Hv & _).
  assert (Hx : nn x). { rewrite Forall_forall in Hall. apply Hall, in_or_app. right. left. reflexivity. }
  assert (Hnn : nnl (flat (st_data st))).
  { intros e Hin. rewrite Forall_forall in Hall. apply Hall, in_or_app. left. apply Hv. exact Hin. }
  pose proof (store_insert_sorted (st_err2 st) x _ Hx Hw Hs Hnn) as Hs1.
  destruct (store_insert_wf (st_err2 st) x _ Hw) as [Hd1 Hne1].
  unfold Inv2.
  destruct (st_data_insert st x) as [E|E]; rewrite E in *.
  - split; [right; split; assumption | exact Hs1].
  - destruct (store_compress_wf (st_err2 st) _ Hd1 Hne1) as [Hd2 Hne2].
    split; [right; split; assumption|].
    apply compress_sorted; [exact Hs1|].
    (* the values before compression are inserted values, hence not NaN *)
    intros e Hin.
    destruct (store_insert_Ins (st_err2 st) x (st_data st)) as [dl HIns].
    apply (Ins_In _ _ _ _ HIns) in Hin. destruct Hin as [->|Hin]; [exact Hx | apply Hnn; exact Hin].
Qed.

Lemma Inv2_fold : forall vals acc st, Forall nn (acc ++ vals) -> Inv acc st -> Inv2 st ->
  Inv2 (fold_left ckms_insert vals st).
Proof.
  induction vals as [|a vals IH]; intros acc st Hall HI H2; cbn [fold_left].
  - exact H2.
  - replace (acc ++ a :: vals) with ((acc ++ [a]) ++ vals) in Hall by (rewrite <- app_assoc; reflexivity).
    apply (IH (acc ++ [a])); [exact Hall | apply Inv_step; exact HI|].
    apply (Inv2_step acc); auto.
    rewrite Forall_forall in *. intros v Hin. apply Hall, in_or_app. left. exact Hin.
Qed.

(** the order on the sample values, as [ckms_samples] shows them *)
Fixpoint sorted_v (l : list f64) : Prop :=
  match l with
  | a :: t => match t with b :: _ => fleb a b = true | [] => True end /\ sorted_v t
  | [] => True
  end.

Lemma sorted_sorted_v : forall l, sorted l -> sorted_v (map e_v l).
Proof.
  induction l as [|a l IH]; intros H; [exact I|].
  cbn [map sorted sorted_v] in *. destruct H as [Hh Ht]. split; [|apply IH; exact Ht].
  destruct l as [|b l']; [exact I | exact Hh].
Qed.

(** ** (c2) without NaN among the inserted values the samples are in
    non-decreasing order *)
Theorem ckms_sorted : forall err vals,
  Forall (fun v => f_is_nan v = false) vals ->
  sorted_v (map (fun s => fst (fst s)) (ckms_samples (fold_left ckms_insert vals (ckms_new err)))).
Proof.
  intros err vals Hall.
  destruct (Inv2_fold vals [] (ckms_new err) Hall (Inv_new err) (Inv2_new err)) as [_ Hs].
  unfold ckms_samples. rewrite map_map. cbn [fst]. apply sorted_sorted_v. exact Hs.
Qed.

(** * (d) Below the first compression (fewer than 500 insertions with error
    0.001) the sketch is exact: every inserted value is kept as its own sample
    with g = 1 and delta = 0 (and, by [ckms_sorted], in order).  The only
    floating-point fact is checked by computation: [invariant] is 1 for every
    rank below 1000. *)
From Coq Require Import Permutation.

Definition err001 : f64 := f_of_bits 4562254508917369340.
Definition E2 : f64 := st_err2 (ckms_new err001).

Lemma invariant_small : forall r, 0 <= r < 1000 -> invariant E2 (f_of_Z r) = 1.
Proof.
  assert (H : forallb (fun r => invariant E2 (f_of_Z r) =? 1) (map Z.of_nat (seq 0 1000)) = true)
    by (vm_compute; reflexivity).
  intros r Hr. rewrite forallb_forall in H. apply Z.eqb_eq. apply H.
  replace r with (Z.of_nat (Z.to_nat r)) by lia. apply in_map. apply in_seq. lia.
Qed.

Lemma sum_g_ones : forall l, (forall e, In e l -> e_g e = 1) -> sum_g l = Z.of_nat (length l).
Proof.
  induction l as [|a l IH]; intros H; [reflexivity|].
  rewrite sum_g_cons, IH, (H a) by (try (left; reflexivity); intros e He; apply H; right; exact He).
  cbn [length]. lia.
Qed.

Lemma seek_inner_le : forall x b, (seek_inner x b <= length b)%nat.
Proof.
  induction b as [|e b IH]; cbn [seek_inner length]; [lia|].
  destruct (fltb _ _); lia.
Qed.

Lemma seek_outer_bound : forall x d oi0 r0 oi r b,
  (forall e, In e (flat d) -> e_g e = 1) ->
  seek_outer x d oi0 r0 = (oi, r, b) ->
  r0 <= r <= r0 + Z.of_nat (length (flat (tl d))) /\ (length b <= length (flat d))%nat.
Proof.
  induction d as [|b0 rest IH]; intros oi0 r0 oi r b Hg Hs; cbn [seek_outer] in Hs.
  - injection Hs as <- <- <-. cbn [tl flat concat length]. lia.
  - rewrite flat_cons in Hg. cbn [tl]. rewrite flat_cons, app_length.
    destruct (fltb _ _).
    + destruct rest as [|b' rest'].
      * injection Hs as <- <- <-. lia.
      * apply IH in Hs.
        -- rewrite (sum_g_ones b') in Hs.
           ++ cbn [tl] in Hs. rewrite flat_cons, app_length in *. lia.
           ++ intros e He. apply Hg. apply in_or_app. right. rewrite flat_cons. apply in_or_app. left. exact He.
        -- intros e He. apply Hg. apply in_or_app. right. exact He.
    + injection Hs as <- <- <-. lia.
Qed.

Lemma insert_pos_delta : forall x d,
  (forall e, In e (flat d) -> e_g e = 1) -> (length (flat d) < 500)%nat ->
  snd (insert_pos E2 x d) = 0.
Proof.
  intros x d Hg Hlen. unfold insert_pos.
  destruct d as [|[|e0 b0] rest]; try reflexivity.
  destruct (fleb _ _); [reflexivity|].
  destruct (fltb _ _); [reflexivity|].
  destruct (seek_outer x ((e0 :: b0) :: rest) 0 0) as [[oi r] b] eqn:Hs.
  destruct (seek_outer_bound _ _ _ _ _ _ _ Hg Hs) as [Hr Hb].
  cbn [snd]. rewrite invariant_small; [reflexivity|].
  pose proof (seek_inner_le x b).
  assert (length (flat (tl ((e0 :: b0) :: rest))) <= length (flat ((e0 :: b0) :: rest)))%nat.
  { cbn [tl]. rewrite (flat_cons (e0 :: b0)), app_length. lia. }
  lia.
Qed.

Definition Inv4 (acc : list f64) (st : ckms_state) : Prop :=
  st_thr st = 500 /\ st_err2 st = E2 /\ st_inserts st = Z.of_nat (length acc) /\
  (forall e, In e (flat (st_data st)) -> e_g e = 1 /\ e_d e = 0) /\
  Permutation (map e_v (flat (st_data st))) acc.

Lemma Inv4_new : Inv4 [] (ckms_new err001).
Proof.
  unfold Inv4. split; [vm_compute; reflexivity|]. split; [reflexivity|].
  split; [reflexivity|]. split; [intros e []|]. apply perm_nil.
Qed.

Lemma Inv4_step : forall acc st x, (length acc + 1 < 500)%nat ->
  Inv4 acc st -> Inv4 (acc ++ [x]) (ckms_insert st x).
Proof.
  intros acc st x Hlen (Hthr & He2 & Hins & Hgd & Hperm).
  assert (Hlenf : length (flat (st_data st)) = length acc).
  { rewrite <- (Permutation_length Hperm), map_length. reflexivity. }
  assert (Hnc : (st_inserts st + 1) mod st_thr st =? 0 = false).
  { rewrite Hthr, Hins. apply Z.eqb_neq. rewrite Z.mod_small; lia. }
  unfold Inv4, ckms_insert. cbn [st_thr st_err2 st_inserts st_data]. rewrite Hnc.
  split; [exact Hthr|]. split; [exact He2|]. split.
  { rewrite Hthr, Hins, Z.mod_small, app_length by lia. cbn [length]. lia. }
  rewrite He2. unfold store_insert.
  pose proof (insert_pos_delta x (st_data st)) as Hd.
  destruct (insert_pos E2 x (st_data st)) as [[oi ii] dl]. cbn [snd] in Hd.
  rewrite Hd; [| intros e He; apply Hgd; exact He | lia].
  destruct (place_Ins (st_data st) oi ii (mkE x 1 0)) as (l1 & l2 & E1 & E3).
  rewrite E3. rewrite E1 in Hgd, Hperm. split.
  - intros e Hin. apply in_app_or in Hin. destruct Hin as [Hin|[<-|Hin]].
    + apply Hgd, in_or_app. left. exact Hin.
    + split; reflexivity.
    + apply Hgd, in_or_app. right. exact Hin.
  - rewrite map_app in *. cbn [map e_v].
    apply Permutation_sym. eapply Permutation_trans; [|apply Permutation_middle].
    apply Permutation_sym. eapply Permutation_trans; [|apply Permutation_cons_append].
    apply perm_skip. exact Hperm.
Qed.

Lemma Inv4_fold : forall vals acc st, (length (acc ++ vals) < 500)%nat ->
  Inv4 acc st -> Inv4 (acc ++ vals) (fold_left ckms_insert vals st).
Proof.
  induction vals as [|a vals IH]; intros acc st Hlen H; cbn [fold_left].
  - rewrite app_nil_r. exact H.
  - replace (acc ++ a :: vals) with ((acc ++ [a]) ++ vals) in * by (rewrite <- app_assoc; reflexivity).
    apply IH; [exact Hlen|]. apply Inv4_step; [|exact H].
    rewrite !app_length in Hlen. cbn [length] in Hlen. lia.
Qed.

Theorem ckms_exact_below_threshold : forall vals,
  (length vals < 500)%nat ->
  let samples := ckms_samples (fold_left ckms_insert vals (ckms_new err001)) in
  Permutation (map (fun s => fst (fst s)) samples) vals /\
  Forall (fun s => snd (fst s) = 1 /\ snd s = 0) samples.
Proof.
  intros vals Hlen samples.
  destruct (Inv4_fold vals [] _ Hlen Inv4_new) as (_ & _ & _ & Hgd & Hperm).
  cbn [app] in Hperm. unfold samples, ckms_samples. split.
  - rewrite map_map. cbn [fst]. exact Hperm.
  - apply Forall_forall. intros s Hs. apply in_map_iff in Hs. destruct Hs as (e & <- & He).
    cbn [fst snd]. apply Hgd. exact He.
Qed.

(** * (d) The largest inserted value is always the last sample (any error);
    the smallest is always the first one (error 0.001: the first compression
    step never merges because [invariant 1 = 1]). *)
Definition dd0 : entry := mkE f_zero 0 0.

Lemma last_In : forall (l : list entry) d, l <> [] -> In (last l d) l.
Proof.
  induction l as [|a l IH]; intros d H; [contradiction|].
  destruct l as [|b l']; [left; reflexivity|].
  right. rewrite last_cons_ne by discriminate. apply IH. discriminate.
Qed.

Lemma sorted_last_ge : forall l, sorted l -> nnl l -> forall e d, In e l ->
  fleb (e_v e) (e_v (last l d)) = true.
Proof.
  induction l as [|a l IH]; intros Hs Hnn e d Hin; [destruct Hin|].
  destruct l as [|b l'].
  - destruct Hin as [<-|[]]. cbn [last]. apply fleb_refl. apply Hnn. left. reflexivity.
  - rewrite last_cons_ne by discriminate. cbn [sorted] in Hs. destruct Hs as [Hh Ht].
    assert (Hnn' : nnl (b :: l')) by (intros e' He'; apply Hnn; right; exact He').
    destruct Hin as [<-|Hin].
    + apply (fleb_trans' _ (e_v b)); [exact Hh|]. apply IH; auto. left. reflexivity.
    + apply IH; auto.
Qed.

Lemma sorted_head_le : forall l h t, sorted l -> nnl l -> l = h :: t -> forall e, In e l ->
  fleb (e_v h) (e_v e) = true.
Proof.
  induction l as [|a l IH]; intros h t Hs Hnn E e Hin; [discriminate E|].
  injection E as -> ->. destruct Hin as [<-|Hin].
  - apply fleb_refl. apply Hnn. left. reflexivity.
  - destruct t as [|b t']; [destruct Hin|]. cbn [sorted] in Hs. destruct Hs as [Hh Ht].
    apply (fleb_trans' _ (e_v b)); [exact Hh|].
    apply (IH b t'); auto. intros e' He'. apply Hnn. right. exact He'.
Qed.

Lemma compress_flat_last : forall err2 rest cur r d,
  e_v (last (map snd (compress_flat err2 cur rest r)) d) = e_v (last (map snd (cur :: rest)) d).
Proof.
  induction rest as [|nxt rest IH]; intros cur r d; cbn [compress_flat].
  - reflexivity.
  - destruct (Z.leb _ _).
    + rewrite IH. cbn [map snd]. destruct rest as [|n2 rest']; [reflexivity|].
      cbn [map]. rewrite !last_cons_ne by discriminate. reflexivity.
    + cbn [map]. rewrite last_cons_ne.
      * rewrite IH. cbn [map]. rewrite (last_cons_ne (snd cur)) by discriminate. reflexivity.
      * intros E. apply map_eq_nil in E. exact (compress_flat_nonempty _ _ _ _ E).
Qed.

Lemma compress_last : forall err2 d dd,
  e_v (last (flat (store_compress err2 d)) dd) = e_v (last (flat d) dd).
Proof.
  intros err2 d dd. destruct (store_compress_flat err2 d) as [H|(c & rest & H1 & H2)].
  - rewrite H. reflexivity.
  - rewrite H2, compress_flat_last, H1. reflexivity.
Qed.

Definition InvMax (acc : list f64) (st : ckms_state) : Prop :=
  forall v, In v acc -> fleb v (e_v (last (flat (st_data st)) dd0)) = true.

Lemma InvMax_step : forall acc st x, Forall nn (acc ++ [x]) -> Inv acc st -> Inv2 st ->
  InvMax acc st -> InvMax (acc ++ [x]) (ckms_insert st x).
Proof.
  intros acc st x Hall HI [Hw Hs] HM.
  destruct HI as (Hv & _ & _ & Hne).
  assert (Hx : nn x). { rewrite Forall_forall in Hall. apply Hall, in_or_app. right. left. reflexivity. }
  assert (Hnn : nnl (flat (st_data st))).
  { intros e Hin. rewrite Forall_forall in Hall. apply Hall, in_or_app. left. apply Hv. exact Hin. }
  pose proof (store_insert_sorted (st_err2 st) x _ Hx Hw Hs Hnn) as Hs1.
  destruct (store_insert_Ins (st_err2 st) x (st_data st)) as [dl HIns].
  set (d1 := store_insert (st_err2 st) x (st_data st)) in *.
  assert (Hnn1 : nnl (flat d1)).
  { intros e Hin. apply (Ins_In _ _ _ _ HIns) in Hin. destruct Hin as [->|Hin]; [exact Hx | apply Hnn; exact Hin]. }
  assert (H1 : forall v, In v (acc ++ [x]) -> fleb v (e_v (last (flat d1) dd0)) = true).
  { intros v Hin. apply in_app_or in Hin. destruct Hin as [Hin|[<-|[]]].
    - assert (Hacc : acc <> []) by (intros E; rewrite E in Hin; destruct Hin).
      apply (fleb_trans' _ (e_v (last (flat (st_data st)) dd0))); [apply HM; exact Hin|].
      apply sorted_last_ge; auto.
      destruct HIns as (l1 & l2 & E1 & E2). rewrite E2.
      pose proof (last_In (flat (st_data st)) dd0 (Hne Hacc)) as Hl. rewrite E1 in Hl |- *.
      apply in_app_or in Hl. apply in_or_app. destruct Hl; [left | right; right]; assumption.
    - change x with (e_v (mkE x 1 dl)). apply sorted_last_ge; auto.
      destruct HIns as (l1 & l2 & E1 & E2). rewrite E2. apply in_or_app. right. left. reflexivity. }
  unfold InvMax. destruct (st_data_insert st x) as [E|E]; rewrite E; fold d1.
  - exact H1.
  - intros v Hin. rewrite compress_last. apply H1. exact Hin.
Qed.

Lemma InvMax_fold : forall vals acc st, Forall nn (acc ++ vals) -> Inv acc st -> Inv2 st ->
  InvMax acc st -> InvMax (acc ++ vals) (fold_left ckms_insert vals st).
Proof.
  induction vals as [|a vals IH]; intros acc st Hall HI H2 HM; cbn [fold_left].
  - rewrite app_nil_r. exact HM.
  - replace (acc ++ a :: vals) with ((acc ++ [a]) ++ vals) in * by (rewrite <- app_assoc; reflexivity).
    assert (Hall' : Forall nn (acc ++ [a])).
    { rewrite Forall_forall in *. intros v Hin. apply Hall, in_or_app. left. exact Hin. }
    apply IH; [exact Hall | apply Inv_step; exact HI | apply (Inv2_step acc); auto |].
    apply InvMax_step; auto.
Qed.

Lemma last_map_ev : forall l d, last (map e_v l) (e_v d) = e_v (last l d).
Proof.
  induction l as [|a l IH]; intros d; [reflexivity|].
  destruct l as [|b l']; [reflexivity|].
  rewrite last_cons_ne by discriminate. rewrite <- IH. reflexivity.
Qed.

(** the last sample is the maximum of the inserted values *)
Theorem ckms_max_kept : forall err vals,
  Forall (fun v => f_is_nan v = false) vals ->
  let vmax := last (map (fun s => fst (fst s))
                        (ckms_samples (fold_left ckms_insert vals (ckms_new err)))) f_zero in
  forall v, In v vals -> In vmax vals /\ fleb v vmax = true.
Proof.
  intros err vals Hall vmax v Hin.
  assert (HM : InvMax vals (fold_left ckms_insert vals (ckms_new err))).
  { apply (InvMax_fold vals [] _ Hall (Inv_new err) (Inv2_new err)). intros w []. }
  destruct (Inv_run err vals) as (Hv & _ & _ & Hne).
  assert (E : vmax = e_v (last (flat (st_data (fold_left ckms_insert vals (ckms_new err)))) dd0)).
  { unfold vmax, ckms_samples. rewrite map_map. cbn [fst]. apply (last_map_ev _ dd0). }
  rewrite E. split; [|apply HM; exact Hin].
  apply Hv. apply last_In. apply Hne. intros E0. rewrite E0 in Hin. destruct Hin.
Qed.

(** min: needs g >= 1, delta >= 0 and the error 0.001 *)
Lemma invariant_ge_1 : forall err2 r, 1 <= invariant err2 r.
Proof.
  intros err2 r. unfold invariant.
  assert (H : 0 <= f_to_u32_sat (ffloor (fmul err2 r))).
  { unfold f_to_u32_sat. destruct (ffloor (fmul err2 r)) as [s|s| |s m e]; cbv zeta;
      repeat match goal with |- context [Z.ltb ?a ?b] => destruct (Z.ltb_spec a b) end;
      try (destruct s); lia. }
  destruct (Z.eqb_spec (f_to_u32_sat (ffloor (fmul err2 r))) 0); lia.
Qed.

Definition gd_ok (l : list entry) : Prop := forall e, In e l -> 1 <= e_g e /\ 0 <= e_d e.

Lemma insert_pos_delta_nonneg : forall err2 x d, 0 <= snd (insert_pos err2 x d).
Proof.
  intros err2 x d. unfold insert_pos.
  destruct d as [|[|e0 b0] rest]; cbn [snd]; try lia.
  destruct (fleb _ _); cbn [snd]; try lia.
  destruct (fltb _ _); cbn [snd]; try lia.
  destruct (seek_outer _ _ _ _) as [[oi r] b]. cbn [snd].
  pose proof (invariant_ge_1 err2 (f_of_Z (r + Z.of_nat (seek_inner x b)))). lia.
Qed.

Lemma compress_flat_gd : forall err2 rest cur r,
  gd_ok (map snd (cur :: rest)) -> gd_ok (map snd (compress_flat err2 cur rest r)).
Proof.
  induction rest as [|nxt rest IH]; intros cur r H; cbn [compress_flat].
  - exact H.
  - destruct (Z.leb _ _).
    + apply IH. intros e Hin. cbn [map snd] in Hin. destruct Hin as [<-|Hin].
      * destruct (H (snd cur)) as [Hg _]; [left; reflexivity|].
        destruct (H (snd nxt)) as [Hg' Hd']; [right; left; reflexivity|].
        cbn [merge_entry e_g e_d]. lia.
      * apply H. right. right. exact Hin.
    + intros e Hin. cbn [map] in Hin. destruct Hin as [<-|Hin].
      * apply H. left. reflexivity.
      * apply (IH nxt (r + 1)); [|exact Hin]. intros e' He'. apply H. right. exact He'.
Qed.

Lemma compress_gd : forall err2 d, gd_ok (flat d) -> gd_ok (flat (store_compress err2 d)).
Proof.
  intros err2 d H. destruct (store_compress_flat err2 d) as [E|(c & rest & H1 & H2)].
  - rewrite E. exact H.
  - rewrite H2. apply compress_flat_gd. rewrite H1. exact H.
Qed.

Lemma compress_head : forall d, gd_ok (flat d) -> forall h t, flat d = h :: t ->
  exists t', flat (store_compress E2 d) = h :: t'.
Proof.
  intros d Hgd h t E. destruct (store_compress_flat E2 d) as [E'|(c & rest & H1 & H2)].
  - exists t. rewrite E'. exact E.
  - rewrite H2. rewrite <- H1 in E, Hgd. cbn [map] in E. injection E as Eh Et.
    destruct rest as [|nxt rest']; cbn [compress_flat].
    + exists []. cbn [map]. rewrite Eh. reflexivity.
    + change 1 with (1 : Z). rewrite (invariant_small 1) by lia.
      destruct (Hgd (snd c)) as [Hg _]; [left; reflexivity|].
      destruct (Hgd (snd nxt)) as [Hg' Hd']; [right; left; reflexivity|].
      destruct (Z.leb_spec (e_g (snd c) + e_g (snd nxt) + e_d (snd nxt)) 1); [lia|].
      cbn [map]. rewrite Eh. eexists. reflexivity.
Qed.

Definition InvMin (acc : list f64) (st : ckms_state) : Prop :=
  st_err2 st = E2 /\ gd_ok (flat (st_data st)) /\
  forall h t, flat (st_data st) = h :: t -> forall v, In v acc -> fleb (e_v h) v = true.

Lemma InvMin_step : forall acc st x, Forall nn (acc ++ [x]) -> Inv acc st -> Inv2 st ->
  InvMin acc st -> InvMin (acc ++ [x]) (ckms_insert st x).
Proof.
  intros acc st x Hall HI [Hw Hs] (He2 & Hgd & HM).
  destruct HI as (Hv & _ & _ & Hne).
  assert (Hx : nn x). { rewrite Forall_forall in Hall. apply Hall, in_or_app. right. left. reflexivity. }
  assert (Hnn : nnl (flat (st_data st))).
  { intros e Hin. rewrite Forall_forall in Hall. apply Hall, in_or_app. left. apply Hv. exact Hin. }
  pose proof (store_insert_sorted (st_err2 st) x _ Hx Hw Hs Hnn) as Hs1.
  assert (HIns : exists dl, 0 <= dl /\ Ins (mkE x 1 dl) (flat (st_data st))
                   (flat (store_insert (st_err2 st) x (st_data st)))).
  { unfold store_insert. pose proof (insert_pos_delta_nonneg (st_err2 st) x (st_data st)) as Hd.
    destruct (insert_pos _ _ _) as [[oi ii] dl]. exists dl. split; [exact Hd | apply place_Ins]. }
  destruct HIns as (dl & Hdl & HIns).
  set (d1 := store_insert (st_err2 st) x (st_data st)) in *.
  assert (Hnn1 : nnl (flat d1)).
  { intros e Hin. apply (Ins_In _ _ _ _ HIns) in Hin. destruct Hin as [->|Hin]; [exact Hx | apply Hnn; exact Hin]. }
  assert (Hgd1 : gd_ok (flat d1)).
  { intros e Hin. apply (Ins_In _ _ _ _ HIns) in Hin. destruct Hin as [->|Hin]; [cbn [e_g e_d]; lia | apply Hgd; exact Hin]. }
  assert (H1 : forall h t, flat d1 = h :: t -> forall v, In v (acc ++ [x]) -> fleb (e_v h) v = true).
  { intros h t Eh v Hin. apply in_app_or in Hin. destruct Hin as [Hin|[<-|[]]].
    - assert (Hacc : acc <> []) by (intros E; rewrite E in Hin; destruct Hin).
      destruct (flat (st_data st)) as [|h0 t0] eqn:E0; [exfalso; apply (Hne Hacc); reflexivity|].
      apply (fleb_trans' _ (e_v h0)); [|apply (HM h0 t0 eq_refl); exact Hin].
      apply (sorted_head_le _ h t Hs1 Hnn1 Eh).
      destruct HIns as (l1 & l2 & E1 & E2'). rewrite E2'.
      assert (Hl : In h0 (l1 ++ l2)) by (rewrite <- E1; left; reflexivity).
      apply in_app_or in Hl. apply in_or_app. destruct Hl; [left | right; right]; assumption.
    - change x with (e_v (mkE x 1 dl)). apply (sorted_head_le _ h t Hs1 Hnn1 Eh).
      destruct HIns as (l1 & l2 & E1 & E2'). rewrite E2'. apply in_or_app. right. left. reflexivity. }
  unfold InvMin.
  assert (He2' : st_err2 (ckms_insert st x) = E2) by exact He2.
  split; [exact He2'|].
  destruct (st_data_insert st x) as [E|E]; rewrite E; fold d1.
  - split; assumption.
  - rewrite He2. split; [apply compress_gd; exact Hgd1|].
    intros h t Eh v Hin.
    destruct (flat d1) as [|h1 t1] eqn:E1.
    + destruct (store_compress_flat E2 d1) as [E'|(c & rest & H1' & _)].
      * rewrite E', E1 in Eh. discriminate Eh.
      * rewrite E1 in H1'. discriminate H1'.
    + destruct (compress_head d1) with (h := h1) (t := t1) as [t' Et']; auto.
      * rewrite E1. exact Hgd1.
      * rewrite Et' in Eh. injection Eh as <- _. apply (H1 h1 t1 eq_refl). exact Hin.
Qed.

Lemma InvMin_fold : forall vals acc st, Forall nn (acc ++ vals) -> Inv acc st -> Inv2 st ->
  InvMin acc st -> InvMin (acc ++ vals) (fold_left ckms_insert vals st).
Proof.
  induction vals as [|a vals IH]; intros acc st Hall HI H2 HM; cbn [fold_left].
  - rewrite app_nil_r. exact HM.
  - replace (acc ++ a :: vals) with ((acc ++ [a]) ++ vals) in * by (rewrite <- app_assoc; reflexivity).
    assert (Hall' : Forall nn (acc ++ [a])).
    { rewrite Forall_forall in *. intros v Hin. apply Hall, in_or_app. left. exact Hin. }
    apply IH; [exact Hall | apply Inv_step; exact HI | apply (Inv2_step acc); auto |].
    apply InvMin_step; auto.
Qed.

(** the first sample is the minimum of the inserted values (error 0.001) *)
Theorem ckms_min_kept : forall vals,
  Forall (fun v => f_is_nan v = false) vals ->
  forall vmin g dl rest,
  ckms_samples (fold_left ckms_insert vals (ckms_new err001)) = (vmin, g, dl) :: rest ->
  In vmin vals /\ forall v, In v vals -> fleb vmin v = true.
Proof.
  intros vals Hall vmin g dl rest E.
  assert (HM : InvMin vals (fold_left ckms_insert vals (ckms_new err001))).
  { apply (InvMin_fold vals [] _ Hall (Inv_new err001) (Inv2_new err001)).
    split; [reflexivity|]. split; [intros e []|]. intros h t Eh. discriminate Eh. }
  destruct (Inv_run err001 vals) as (Hv & _).
  destruct HM as (_ & _ & HM). unfold ckms_samples in E.
  destruct (flat (st_data (fold_left ckms_insert vals (ckms_new err001)))) as [|h t] eqn:Ef; [discriminate E|].
  cbn [map] in E. injection E as <- _ _ _. split.
  - apply Hv. left. reflexivity.
  - intros v Hin. apply (HM h t eq_refl). exact Hin.
Qed.

(** * Examples (error = the double nearest 0.001) *)

Definition fz (z : Z) : f64 := f_of_Z z.
Definition f_half : f64 := f_of_bits 4602678819172646912.      (* 0.5 *)
Definition f_09 : f64 := f_of_bits 4606281698874543309.        (* 0.9 *)

Example ex_threshold : st_thr (ckms_new err001) = 500.
Proof. vm_compute. reflexivity. Qed.

(** p50 of 1, 2.5 is 1 (rank 1) *)
Example ex_two : ckms_run err001 [fz 1; f_of_bits 4612811918334230528] f_half = Some (1, fz 1).
Proof. vm_compute. reflexivity. Qed.

Example ex_unsorted_input :
  ckms_samples (fold_left ckms_insert (map fz [5; 1; 4; 1; 3]) (ckms_new err001))
  = [(fz 1, 1, 0); (fz 1, 1, 0); (fz 3, 1, 0); (fz 4, 1, 0); (fz 5, 1, 0)].
Proof. vm_compute. reflexivity. Qed.

Example ex_p90_of_10 : ckms_run err001 (map fz [10; 9; 8; 7; 6; 5; 4; 3; 2; 1]) f_09 = Some (9, fz 9).
Proof. vm_compute. reflexivity. Qed.

(** [invariant] is 1 below rank 1000 and 2 from there to 1499: nothing can be
    merged before the 1000th iteration of a compression pass *)
Example ex_invariant_1 :
  forallb (fun r => invariant (st_err2 (ckms_new err001)) (f_of_Z r) =? 1)
          (map Z.of_nat (seq 0 1000)) = true.
Proof. vm_compute. reflexivity. Qed.
Example ex_invariant_1000 : invariant (st_err2 (ckms_new err001)) (f_of_Z 1000) = 2.
Proof. vm_compute. reflexivity. Qed.

(** 1200 ascending values: the compressions at n = 500, 1000 merge nothing
    (all [g] = 1 below iteration 1000), so 1200 samples are kept and p50 is exact *)
Example ex_1200 :
  let st := fold_left ckms_insert (map fz (map Z.of_nat (seq 0 1200))) (ckms_new err001) in
  (length (ckms_samples st), ckms_query st f_half) = (1200%nat, Some (600, fz 599)).
Proof. vm_compute. reflexivity. Qed.


(** * The percentile cell of the pipeline model (Pipeline.v [APct]): what
    percentile.rs [emit] answers for a group *)
From AG Require Import Str Value Json Expr Ops Pipeline Agg_proofs.

(** the values that reach the sketch: the numeric argument values that are not NaN, in arrival order *)
Definition pct_args (e : expr) (rows : list data) : list f64 :=
  filter (fun v => negb (f_is_nan v)) (numeric_args e rows).

Lemma pct_fold : forall e p rows vals,
  fold_left acc_step rows (APct vals p e) = APct (rev (pct_args e rows) ++ vals) p e.
Proof.
  intros e p rows. unfold pct_args, numeric_args.
  induction rows as [|d rows IH]; intros vals; [reflexivity|].
  cbn [fold_left flat_map acc_step].
  destruct (eval_f64 e d) as [v| | |]; cbn [app filter]; try apply IH.
  destruct (f_is_nan v); cbn [negb]; [apply IH|].
  rewrite IH. cbn [rev]. rewrite <- app_assoc. reflexivity.
Qed.

Lemma pct_emit_eq : forall p e rows,
  acc_emit (fold_left acc_step rows (acc_empty (FPct p e))) =
  Ok (match ckms_run ckms_error_f (pct_args e rows) p with
      | Some (_, v) => from_float v
      | None => VNone
      end).
Proof.
  intros p e rows. cbn [acc_empty]. rewrite pct_fold. cbn [acc_emit].
  rewrite app_nil_r, rev_involutive. reflexivity.
Qed.

Lemma from_float_not_none : forall v, from_float v <> VNone.
Proof. intros v. unfold from_float. destruct (_ && _); discriminate. Qed.

(** (i) the cell is None exactly when no non-NaN numeric argument value reached the group *)
Theorem pct_cell_none_iff : forall p e rows,
  acc_emit (fold_left acc_step rows (acc_empty (FPct p e))) = Ok VNone <-> pct_args e rows = [].
Proof.
  intros p e rows. rewrite pct_emit_eq. split.
  - intros H. destruct (pct_args e rows) as [|a l] eqn:E; [reflexivity|]. exfalso.
    destruct (ckms_nonempty_answers ckms_error_f (a :: l) p) as (r & v & Hq); [discriminate|].
    rewrite Hq in H. injection H as H. exact (from_float_not_none v H).
  - intros ->. rewrite ckms_empty_none. reflexivity.
Qed.

(** (ii) otherwise it is [from_float] of one of those values *)
Theorem pct_cell_observed : forall p e rows, pct_args e rows <> [] ->
  exists v, In v (pct_args e rows) /\
            acc_emit (fold_left acc_step rows (acc_empty (FPct p e))) = Ok (from_float v).
Proof.
  intros p e rows Hne. rewrite pct_emit_eq.
  destruct (ckms_nonempty_answers ckms_error_f _ p Hne) as (r & v & Hq).
  exists v. split; [apply (ckms_query_observed _ _ _ _ _ Hq) | rewrite Hq; reflexivity].
Qed.

(** (iii) the emit of a percentile accumulator is always [Ok]: no Panic, no Unm, no Err *)
Theorem pct_emit_ok : forall vals p e, exists v, acc_emit (APct vals p e) = Ok v.
Proof. intros vals p e. cbn [acc_emit]. eexists. reflexivity. Qed.

Print Assumptions ckms_query_observed.
Print Assumptions ckms_nonempty_answers.
Print Assumptions ckms_empty_none.
Print Assumptions ckms_g_sum.
Print Assumptions ckms_sorted.
Print Assumptions ckms_exact_below_threshold.
Print Assumptions ckms_max_kept.
Print Assumptions ckms_min_kept.
Print Assumptions pct_cell_none_iff.
Print Assumptions pct_cell_observed.
Print Assumptions pct_emit_ok.
