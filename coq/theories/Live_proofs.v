(** The render loop ([Render_loop]) drives the terminal ([Term]): for ANY pacing of rows and timeouts the
    screen ends up showing exactly the final print of all the rows received. *)
From Coq Require Import List ZArith NArith Bool Lia Arith.
From AG Require Import Str Term Term_proofs Render_loop.
Import ListNotations.
Open Scope nat_scope.

Section Live.
Variable A : Type.
Variables table final : list A -> list str.       (* a frame is a list of lines *)
Variable interval : nat.

Theorem live_view_converges : forall h w (evs : list (ev A)),
  0 < w ->
  (forall rows, good_frame h w (table rows)) -> (forall rows, good_frame h w (final rows)) ->
  let out := run_loop A (list str) table final interval true evs in
  let bytes := onlcr (render_frames [] (map frame_text (map snd out))) in
  let sc := term_run (blank_screen h w) (lex bytes) in
  let last := final (received A evs) in
  screen_text sc = map trim_end last ++ repeat [] (h - length last) /\ sc_r sc = length last /\ sc_c sc = 0.
Proof.
  intros h w evs Hw Ht Hf out bytes sc last. subst sc bytes out last.
  destruct (run_loop_shape A (list str) table final interval true evs) as (frames & Heq & HF).
  rewrite Heq, map_app. cbn [map snd].
  apply frames_converge; [exact Hw|].
  apply Forall_app. split; [|constructor; [apply Hf|constructor]].
  apply Forall_forall. intros f Hin. apply in_map_iff in Hin. destruct Hin as (bf & <- & Hin).
  rewrite Forall_forall in HF. destruct (HF bf Hin) as (k & ->). cbn [snd]. apply Ht.
Qed.

(** not a terminal: the bytes written are the final print, once, and nothing else *)
Theorem not_a_terminal_prints_once : forall (evs : list (ev A)),
  map snd (run_loop A (list str) table final interval false evs) = [final (received A evs)].
Proof. intros evs. rewrite run_loop_no_tty. reflexivity. Qed.
End Live.
