(** The representation invariant of numbers (src/data.rs):

      a number that is integral and inside the i64 range is ALWAYS a [VInt],
      never a [VFloat]   ([Value::from_float] normalises)

    Equality [veqb] (derived PartialEq, hashing, grouping) distinguishes
    [VInt] from [VFloat] by constructor, the order [vcmp] compares numbers by
    value ([cmp_int_float] is exact).  The two agree only because of the
    invariant.  This file states the invariant ([normalised], together with
    [i64_ints]: every [VInt] is an i64), proves that every producer of numbers
    establishes it (from_float, from_string, + - * /, json_to_value), and
    proves what it is for:  vcmp a b = Eq <-> veqb a b = true. *)
From Coq Require Import List ZArith NArith Bool Lia Floats.SpecFloat.
From AG Require Import Str F64 Value Json.
From AG Require Import Str_proofs F64_proofs Value_proofs Json_proofs.
Import ListNotations.
Open Scope Z_scope.

(** * The invariant *)

(** [from_float] leaves [f] a float: [f] is NOT an integral double inside the
    i64 range (NaN, the infinities, fractions, |f| >= 2^63 ...) *)
Definition norm_float (f : f64) : Prop := from_float f = VFloat f.

Fixpoint normalised (v : value) : Prop :=
  match v with
  | VFloat f => norm_float f
  | VArr l =>
      (fix go (l : list value) : Prop :=
         match l with
         | [] => True
         | x :: l' => normalised x /\ go l'
         end) l
  | VObj kvs =>
      (fix go (kvs : list (str * value)) : Prop :=
         match kvs with
         | [] => True
         | (_, x) :: r => normalised x /\ go r
         end) kvs
  | _ => True
  end.

(** the companion invariant: a [VInt] holds an i64.  (Needed for the
    comparison theorem: the model's [VInt] carries a [Z].) *)
Fixpoint i64_ints (v : value) : Prop :=
  match v with
  | VInt z => in_i64 z = true
  | VArr l =>
      (fix go (l : list value) : Prop :=
         match l with
         | [] => True
         | x :: l' => i64_ints x /\ go l'
         end) l
  | VObj kvs =>
      (fix go (kvs : list (str * value)) : Prop :=
         match kvs with
         | [] => True
         | (_, x) :: r => i64_ints x /\ go r
         end) kvs
  | _ => True
  end.

(** both together *)
Definition good (v : value) : Prop := normalised v /\ i64_ints v.

Definition is_number (v : value) : Prop :=
  match v with VInt _ | VFloat _ => True | _ => False end.

Lemma normalised_arr : forall l, normalised (VArr l) <-> Forall normalised l.
Proof.
  induction l as [|x l IH].
  - split; intros _; [constructor | exact I].
  - change (normalised (VArr (x :: l))) with (normalised x /\ normalised (VArr l)).
    rewrite IH. split.
    + intros [H1 H2]. constructor; assumption.
    + intros H. inversion H; subst. split; assumption.
Qed.

Lemma normalised_obj : forall kvs,
  normalised (VObj kvs) <-> Forall (fun kv => normalised (snd kv)) kvs.
Proof.
  induction kvs as [|[k x] l IH].
  - split; intros _; [constructor | exact I].
  - change (normalised (VObj ((k, x) :: l))) with (normalised x /\ normalised (VObj l)).
    rewrite IH. split.
    + intros [H1 H2]. constructor; assumption.
    + intros H. inversion H; subst. split; assumption.
Qed.

Lemma i64_ints_arr : forall l, i64_ints (VArr l) <-> Forall i64_ints l.
Proof.
  induction l as [|x l IH].
  - split; intros _; [constructor | exact I].
  - change (i64_ints (VArr (x :: l))) with (i64_ints x /\ i64_ints (VArr l)).
    rewrite IH. split.
    + intros [H1 H2]. constructor; assumption.
    + intros H. inversion H; subst. split; assumption.
Qed.

Lemma i64_ints_obj : forall kvs,
  i64_ints (VObj kvs) <-> Forall (fun kv => i64_ints (snd kv)) kvs.
Proof.
  induction kvs as [|[k x] l IH].
  - split; intros _; [constructor | exact I].
  - change (i64_ints (VObj ((k, x) :: l))) with (i64_ints x /\ i64_ints (VObj l)).
    rewrite IH. split.
    + intros [H1 H2]. constructor; assumption.
    + intros H. inversion H; subst. split; assumption.
Qed.

Lemma Forall_and_iff {A} (P Q : A -> Prop) l :
  Forall (fun x => P x /\ Q x) l <-> Forall P l /\ Forall Q l.
Proof.
  induction l as [|x l IH].
  - split; [intros _; split; constructor | intros _; constructor].
  - split.
    + intros H. inversion H as [|? ? [Hp Hq] Hl]; subst. apply IH in Hl as [H1 H2].
      split; constructor; assumption.
    + intros [H1 H2]. inversion H1; subst. inversion H2; subst.
      constructor; [split; assumption | apply IH; split; assumption].
Qed.

Lemma good_arr : forall l, good (VArr l) <-> Forall good l.
Proof.
  intros l. unfold good at 1. rewrite normalised_arr, i64_ints_arr.
  symmetry. apply Forall_and_iff.
Qed.

Lemma good_obj : forall kvs, good (VObj kvs) <-> Forall (fun kv => good (snd kv)) kvs.
Proof.
  intros l. unfold good at 1. rewrite normalised_obj, i64_ints_obj.
  symmetry. apply (Forall_and_iff (fun kv => normalised (snd kv)) (fun kv => i64_ints (snd kv))).
Qed.

Lemma good_int : forall z, in_i64 z = true -> good (VInt z).
Proof. intros z H. split; [exact I | exact H]. Qed.

(** * 1. from_float *)

Lemma from_float_good : forall f, good (from_float f).
Proof.
  intros f. unfold from_float.
  destruct (f_is_integral f && (i64_min <=? ftrunc_Z f) && (ftrunc_Z f <=? i64_max)) eqn:E.
  - apply good_int. unfold in_i64.
    apply andb_true_iff in E as [E1 E3]. apply andb_true_iff in E1 as [E1 E2].
    rewrite E2, E3. reflexivity.
  - split; [|exact I]. cbn [normalised]. unfold norm_float, from_float. rewrite E. reflexivity.
Qed.

Theorem from_float_normalised : forall f, normalised (from_float f).
Proof. intros f. apply from_float_good. Qed.

Theorem from_float_i64 : forall f, i64_ints (from_float f).
Proof. intros f. apply from_float_good. Qed.

(** * 2. from_string *)

Lemma parse_i64_in_range : forall s z, parse_i64 s = Some z -> in_i64 z = true.
Proof.
  intros s z. unfold parse_i64.
  destruct (strip_sign s) as [neg ds].
  destruct ds as [|c ds]; [discriminate|].
  destruct (all_digits (c :: ds)); [|discriminate].
  match goal with |- context [in_i64 ?x] => destruct (in_i64 x) eqn:E end; [|discriminate].
  intros H. injection H as <-. exact E.
Qed.

Lemma from_string_good : forall s, good (from_string s).
Proof.
  intros s. unfold from_string.
  destruct (parse_i64 (trim s)) as [z|] eqn:Ei.
  - apply good_int. exact (parse_i64_in_range _ _ Ei).
  - destruct (parse_f64 (trim s)) as [f|].
    + apply from_float_good.
    + destruct (str_eqb (trim s) (lit "true")); [split; exact I|].
      destruct (str_eqb (trim s) (lit "false")); split; exact I.
Qed.

Theorem from_string_normalised : forall s, normalised (from_string s).
Proof. intros s. apply from_string_good. Qed.

Theorem from_string_i64 : forall s, i64_ints (from_string s).
Proof. intros s. apply from_string_good. Qed.

(** * 3. arithmetic: no hypothesis on the operands is needed *)

Lemma binary_op_good : forall op l r v, binary_op op l r = Ok v -> good v.
Proof.
  intros op l r v. unfold binary_op. destruct (is_date l || is_date r); [discriminate|].
  destruct (to_f64 l), (to_f64 r); intros H; try discriminate H.
  injection H as <-. apply from_float_good.
Qed.

Lemma mk_dur_good : forall ns v, mk_dur ns = Ok v -> good v.
Proof.
  intros ns v. unfold mk_dur. destruct (dur_ok ns); intros H; [|discriminate H].
  injection H as <-. split; exact I.
Qed.

Lemma mk_date_good : forall ns v, mk_date ns = Ok v -> good v.
Proof.
  intros ns v. unfold mk_date. destruct (date_ok ns); intros H; [|discriminate H].
  injection H as <-. split; exact I.
Qed.

Lemma int_or_float_good : forall z f v, int_or_float z f = Ok v -> good v.
Proof.
  intros z f v. unfold int_or_float. destruct (in_i64 z) eqn:E.
  - intros H; injection H as <-. apply good_int. exact E.
  - pose proof (from_float_good f) as Hg. destruct (from_float f); intros H; try discriminate H; injection H as <-; exact Hg.
Qed.

Ltac arith_case H :=
  first
    [ exact (binary_op_good _ _ _ _ H)
    | exact (mk_dur_good _ _ H)
    | exact (mk_date_good _ _ H)
    | exact (int_or_float_good _ _ _ H)
    | discriminate H
    | injection H as <-; first [ apply from_float_good | split; exact I ] ].

Lemma vadd_typed_good : forall l r v, vadd_typed l r = Ok v -> good v.
Proof. intros l r v H. destruct l, r; cbn [vadd_typed] in H; arith_case H. Qed.

Lemma vsub_typed_good : forall l r v, vsub_typed l r = Ok v -> good v.
Proof. intros l r v H. destruct l, r; cbn [vsub_typed] in H; arith_case H. Qed.

Lemma vmul_typed_good : forall l r v, vmul_typed l r = Ok v -> good v.
Proof.
  intros l r v H. destruct l, r; cbn [vmul_typed] in H;
    try match type of H with (if ?c then _ else _) = _ => destruct c end; arith_case H.
Qed.

Lemma vadd_good : forall a b v, vadd a b = Ok v -> good v.
Proof. intros a b v. apply vadd_typed_good. Qed.
Lemma vsub_good : forall a b v, vsub a b = Ok v -> good v.
Proof. intros a b v. apply vsub_typed_good. Qed.
Lemma vmul_good : forall a b v, vmul a b = Ok v -> good v.
Proof. intros a b v. apply vmul_typed_good. Qed.
Lemma vdiv_typed_good : forall a b v, vdiv_typed a b = Ok v -> good v.
Proof.
  intros l r v H. destruct l, r; cbn [vdiv_typed] in H;
    try match type of H with (if ?c then _ else _) = _ => destruct c end; arith_case H.
Qed.
Lemma vdiv_good : forall a b v, vdiv a b = Ok v -> good v.
Proof. intros a b v. apply vdiv_typed_good. Qed.

Theorem vadd_normalised : forall a b v, vadd a b = Ok v -> normalised v.
Proof. intros a b v H. apply (vadd_good a b v H). Qed.
Theorem vsub_normalised : forall a b v, vsub a b = Ok v -> normalised v.
Proof. intros a b v H. apply (vsub_good a b v H). Qed.
Theorem vmul_normalised : forall a b v, vmul a b = Ok v -> normalised v.
Proof. intros a b v H. apply (vmul_good a b v H). Qed.
Theorem vdiv_normalised : forall a b v, vdiv a b = Ok v -> normalised v.
Proof. intros a b v H. apply (vdiv_good a b v H). Qed.

Theorem vadd_i64 : forall a b v, vadd a b = Ok v -> i64_ints v.
Proof. intros a b v H. apply (vadd_good a b v H). Qed.
Theorem vsub_i64 : forall a b v, vsub a b = Ok v -> i64_ints v.
Proof. intros a b v H. apply (vsub_good a b v H). Qed.
Theorem vmul_i64 : forall a b v, vmul a b = Ok v -> i64_ints v.
Proof. intros a b v H. apply (vmul_good a b v H). Qed.
Theorem vdiv_i64 : forall a b v, vdiv a b = Ok v -> i64_ints v.
Proof. intros a b v H. apply (vdiv_good a b v H). Qed.

(** * 4. json_to_value.  [JInt] is serde_json's PosInt(u64)/NegInt(i64): an
    in-range one becomes [VInt], a u64 above i64::MAX goes through
    [from_float (f_of_Z z)]; every [JFloat] goes through [from_float].  So the
    statement holds for EVERY tree, in particular for every tree the parser
    ([json_parse] / [parse_number] / [mk_json_int]) returns: no hypothesis on
    the [JFloat] payloads is needed. *)

Lemma put_Forall_snd {A} (P : A -> Prop) k v : forall l,
  P v -> Forall (fun kv => P (snd kv)) l -> Forall (fun kv => P (snd kv)) (put k v l).
Proof.
  induction l as [|[k' v'] t IH]; intros Hv Hl; cbn [put].
  - constructor; [exact Hv | constructor].
  - inversion Hl as [|? ? H1 H2]; subst.
    destruct (str_cmp k k').
    + constructor; [exact Hv | exact H2].
    + constructor; [exact Hv | exact Hl].
    + constructor; [exact H1 | apply IH; assumption].
Qed.

Lemma json_to_value_good : forall j, good (json_to_value j).
Proof.
  induction j as [|b|z|f|s|l IH|kvs IH] using jtree_ind'; cbn [json_to_value].
  - split; exact I.
  - split; exact I.
  - destruct (in_i64 z) eqn:E; [apply good_int; exact E | apply from_float_good].
  - apply from_float_good.
  - split; exact I.
  - apply good_arr. induction IH as [|x l Hx Hl IHl]; cbn [map]; constructor; assumption.
  - apply good_obj.
    assert (G : forall acc, Forall (fun kv => good (snd kv)) acc ->
      Forall (fun kv => good (snd kv))
        ((fix go (kvs : list (str * jtree)) (acc : list (str * value)) :=
            match kvs with
            | [] => acc
            | (k, v) :: r => go r (put k (json_to_value v) acc)
            end) kvs acc)).
    { induction IH as [|[k x] l Hx Hl IHl]; intros acc Hacc.
      - exact Hacc.
      - apply IHl. apply put_Forall_snd; [exact Hx | exact Hacc]. }
    apply G. constructor.
Qed.

Theorem json_to_value_normalised : forall j, normalised (json_to_value j).
Proof. intros j. apply json_to_value_good. Qed.

Theorem json_to_value_i64 : forall j, i64_ints (json_to_value j).
Proof. intros j. apply json_to_value_good. Qed.

(** * 5. the point of the invariant *)

(** an i64 that compares Eq with a double IS what [from_float] makes of that
    double.  Holds for every [spec_float], well-formed or not, NaN included. *)
Lemma cmp_int_float_Eq_from_float : forall x f,
  in_i64 x = true -> cmp_int_float x f = Eq -> from_float f = VInt x.
Proof.
  intros x f Hr H.
  assert (HT : f_is_integral f = true /\ ftrunc_Z f = x).
  { destruct f as [s|s| |s m e]; cbn [cmp_int_float] in H.
    - apply Z.compare_eq in H. subst x. split; reflexivity.
    - destruct s; discriminate H.
    - discriminate H.
    - cbn [f_is_integral ftrunc_Z].
      destruct (Z.leb_spec 0 e) as [He|He].
      + apply Z.compare_eq in H. split; [reflexivity|].
        destruct s; [change (Z.neg m) with (- Z.pos m) in H|]; lia.
      + apply Z.compare_eq in H.
        assert (Hp : 0 < 2 ^ (- e)) by (apply Z.pow_pos_nonneg; lia).
        destruct s.
        * change (Z.neg m) with (- Z.pos m) in H.
          assert (Hm : Z.pos m = (- x) * 2 ^ (- e)) by lia.
          rewrite Hm. split.
          -- rewrite Z.mod_mul by lia. reflexivity.
          -- rewrite Z.div_mul by lia. lia.
        * rewrite <- H. split.
          -- rewrite Z.mod_mul by lia. reflexivity.
          -- rewrite Z.div_mul by lia. reflexivity. }
  destruct HT as [Hi Ht]. unfold from_float. rewrite Hi, Ht.
  unfold in_i64 in Hr. cbn [andb]. rewrite Hr. reflexivity.
Qed.

(** a normalised double never compares Eq with an i64 *)
Lemma norm_float_cmp_int : forall x f,
  in_i64 x = true -> norm_float f -> cmp_int_float x f <> Eq.
Proof.
  intros x f Hr Hn H. unfold norm_float in Hn.
  rewrite (cmp_int_float_Eq_from_float x f Hr H) in Hn. discriminate Hn.
Qed.

(** THE theorem for numbers.  Hypotheses: both normalised, and the integers
    are i64 (automatic in Rust; the model's VInt holds a Z).  No
    well-formedness ([valid_binary]) of the doubles is needed, and NaN needs no
    special clause: OrderedFloat makes NaN equal to itself in both [vcmp] and
    [veqb], and [cmp_int_float _ NaN = Lt]. *)
Theorem num_cmp_eq_iff : forall a b,
  normalised a -> normalised b -> i64_ints a -> i64_ints b ->
  is_number a -> is_number b ->
  (vcmp a b = Eq <-> veqb a b = true).
Proof.
  intros a b Na Nb Ia Ib Ha Hb. split; [|apply veqb_vcmp].
  destruct a; try contradiction Ha; destruct b; try contradiction Hb;
    cbn [vcmp veqb normalised i64_ints] in *; intros H.
  - apply Z.compare_eq in H. subst. apply Z.eqb_refl.
  - exfalso. exact (norm_float_cmp_int _ _ Ia Nb H).
  - exfalso. destruct (cmp_int_float z f) eqn:E; try discriminate H.
    exact (norm_float_cmp_int _ _ Ib Na E).
  - apply oeqb_ocmp. exact H.
Qed.

(** the [i64_ints] hypothesis cannot be dropped: 2^64 as a (model) VInt and as a
    double are both [normalised] *)
Example num_cmp_eq_iff_needs_i64 :
  let a := VInt (2 ^ 64) in let b := VFloat (f_of_Z (2 ^ 64)) in
  normalised a /\ normalised b /\ vcmp a b = Eq /\ veqb a b = false.
Proof. vm_compute. repeat split. Qed.

(** the same for whole values (arrays, objects: group keys, sort keys) *)
Lemma list_cmp_eqb_P {A} (P : A -> Prop) (e : A -> A -> bool) (f : A -> A -> comparison) xs :
  Forall (fun x => forall y, P x -> P y -> f x y = Eq -> e x y = true) xs ->
  forall ys, Forall P xs -> Forall P ys -> list_cmp f xs ys = Eq -> list_eqb e xs ys = true.
Proof.
  induction 1 as [|x xs Hx Hxs IH]; intros [|y ys] Px Py; cbn [list_eqb list_cmp];
    intros H; try reflexivity; try discriminate.
  inversion Px; subst. inversion Py; subst.
  apply cmp_then_Eq in H as [Ha Hb].
  rewrite (Hx y) by assumption. rewrite (IH ys) by assumption. reflexivity.
Qed.

Lemma good_cmp_eq : forall a b, good a -> good b -> vcmp a b = Eq -> veqb a b = true.
Proof.
  induction a as [s|i|f|b|ns|ns|kvs IH|l IH|] using value_ind';
    intros [s'|i'|f'|b'|ns'|ns'|kvs'|l'|] Ga Gb H;
    try (cbn [vcmp rank N.compare Pos.compare Pos.compare_cont] in H; discriminate H).
  - cbn [veqb vcmp] in *. apply str_cmp_eq in H. subst. apply str_eqb_refl.
  - apply num_cmp_eq_iff; try exact I; try apply Ga; try apply Gb; exact H.
  - apply num_cmp_eq_iff; try exact I; try apply Ga; try apply Gb; exact H.
  - apply num_cmp_eq_iff; try exact I; try apply Ga; try apply Gb; exact H.
  - apply num_cmp_eq_iff; try exact I; try apply Ga; try apply Gb; exact H.
  - cbn [veqb vcmp] in *. destruct b, b'; try reflexivity; discriminate H.
  - cbn [veqb vcmp] in *. apply Z.compare_eq in H. subst. apply Z.eqb_refl.
  - cbn [veqb vcmp] in *. apply Z.compare_eq in H. subst. apply Z.eqb_refl.
  - rewrite vcmp_obj in H. rewrite veqb_obj.
    apply good_obj in Ga. apply good_obj in Gb. revert Ga Gb H.
    apply (list_cmp_eqb_P (fun kv => good (snd kv))).
    apply (Forall_impl _ (P := fun kv => forall b, good (snd kv) -> good b ->
                                    vcmp (snd kv) b = Eq -> veqb (snd kv) b = true)); [|exact IH].
    intros [k x] Hx [k' y]. unfold kveqb, kvcmp. cbn [fst snd] in *. intros Gx Gy H.
    apply cmp_then_Eq in H as [Ha Hb]. apply str_cmp_eq in Ha. subst.
    rewrite str_eqb_refl, (Hx y Gx Gy Hb). reflexivity.
  - rewrite vcmp_arr in H. rewrite veqb_arr.
    apply good_arr in Ga. apply good_arr in Gb. revert Ga Gb H.
    apply (list_cmp_eqb_P good). exact IH.
  - reflexivity.
Qed.

Theorem cmp_eq_iff : forall a b,
  normalised a -> normalised b -> i64_ints a -> i64_ints b ->
  (vcmp a b = Eq <-> veqb a b = true).
Proof.
  intros a b Na Nb Ia Ib. split; [|apply veqb_vcmp].
  apply good_cmp_eq; split; assumption.
Qed.

(** so on invariant-respecting values exactly one of  <  ==  >  holds *)
Corollary trichotomy : forall a b,
  normalised a -> normalised b -> i64_ints a -> i64_ints b ->
  (vltb a b = true /\ veqb a b = false /\ vgtb a b = false) \/
  (vltb a b = false /\ veqb a b = true /\ vgtb a b = false) \/
  (vltb a b = false /\ veqb a b = false /\ vgtb a b = true).
Proof.
  intros a b Na Nb Ia Ib. pose proof (cmp_eq_iff a b Na Nb Ia Ib) as [H1 H2].
  unfold vltb, vgtb. destruct (vcmp a b) eqn:E.
  - right; left. rewrite (H1 eq_refl). repeat split.
  - left. destruct (veqb a b); [discriminate (H2 eq_refl)|]. repeat split.
  - right; right. destruct (veqb a b); [discriminate (H2 eq_refl)|]. repeat split.
Qed.

(** * 6. what the invariant prevents: the double -2^63 kept as a float *)

Definition f_i64_min : f64 := f_of_Z i64_min.

Example f_i64_min_explicit : f_i64_min = S754_finite true 4503599627370496 11.
Proof. vm_compute. reflexivity. Qed.

Example broken_cmp : vcmp (VFloat f_i64_min) (VInt i64_min) = Eq.
Proof. vm_compute. reflexivity. Qed.

Example broken_eq : veqb (VFloat f_i64_min) (VInt i64_min) = false.
Proof. vm_compute. reflexivity. Qed.

Example broken_none_of_three :
  vltb (VFloat f_i64_min) (VInt i64_min) = false /\
  veqb (VFloat f_i64_min) (VInt i64_min) = false /\
  vgtb (VFloat f_i64_min) (VInt i64_min) = false.
Proof. vm_compute. repeat split. Qed.

Example broken_not_normalised : ~ normalised (VFloat f_i64_min).
Proof. cbn [normalised]. unfold norm_float. vm_compute. intros H. discriminate H. Qed.

(** * 7. the operations at the i64 boundary *)

(* since fix 9eb768d: the result would round to the integer i64::MIN, so the row is an error *)
Example vsub_min_1 : vsub (VInt i64_min) (VInt 1) = Err.
Proof. vm_compute. reflexivity. Qed.

Example vadd_max_1 :
  vadd (VInt i64_max) (VInt 1) = Ok (VFloat (S754_finite false 4503599627370496 11)).
Proof. vm_compute. reflexivity. Qed.

Example vadd_max_1_normalised :
  normalised (VFloat (S754_finite false 4503599627370496 11)).
Proof. cbn [normalised]. unfold norm_float. vm_compute. reflexivity. Qed.

Example vadd_max_1_is_2_63 : S754_finite false 4503599627370496 11 = f_of_Z (2 ^ 63).
Proof. vm_compute. reflexivity. Qed.

Print Assumptions from_float_normalised.
Print Assumptions from_float_i64.
Print Assumptions from_string_normalised.
Print Assumptions from_string_i64.
Print Assumptions vadd_normalised.
Print Assumptions vsub_normalised.
Print Assumptions vmul_normalised.
Print Assumptions vdiv_normalised.
Print Assumptions vadd_i64.
Print Assumptions vsub_i64.
Print Assumptions vmul_i64.
Print Assumptions vdiv_i64.
Print Assumptions json_to_value_normalised.
Print Assumptions json_to_value_i64.
Print Assumptions norm_float_cmp_int.
Print Assumptions num_cmp_eq_iff.
Print Assumptions num_cmp_eq_iff_needs_i64.
Print Assumptions cmp_eq_iff.
Print Assumptions trichotomy.
Print Assumptions broken_cmp.
Print Assumptions broken_eq.
Print Assumptions broken_none_of_three.
Print Assumptions broken_not_normalised.
Print Assumptions vsub_min_1.
Print Assumptions vadd_max_1.
Print Assumptions vadd_max_1_normalised.
