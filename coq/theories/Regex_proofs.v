(** Properties of the [parse regex] model (Regex.v): soundness of the
    backtracking matcher against a declarative semantics, capture spans,
    and "binds exactly the named captures". *)
From Coq Require Import List NArith Bool Arith Lia.
From AG Require Import Str Str_proofs Regex.
Import ListNotations.
Open Scope nat_scope.

(** * Declarative semantics: [M t r i j], the regex [r] matches the text [t]
    between the positions [i] and [j] (anchors see the whole text). *)
Inductive M (t : str) : regex -> nat -> nat -> Prop :=
| MEmpty i : M t REmpty i i
| MChar x i : nth_error t i = Some x -> M t (RChar x) i (S i)
| MAny y i : nth_error t i = Some y -> N.eqb y 10 = false -> M t RAny i (S i)
| MSet neg rs y i :
    nth_error t i = Some y -> set_matches neg rs y = true -> M t (RSet neg rs) i (S i)
| MBol : M t RBol 0 0
| MEol : M t REol (length t) (length t)
| MCat a b i j k : M t a i j -> M t b j k -> M t (RCat a b) i k
| MAltL a b i j : M t a i j -> M t (RAlt a b) i j
| MAltR a b i j : M t b i j -> M t (RAlt a b) i j
| MGroup idx nm a i j : M t a i j -> M t (RGroup idx nm a) i j
| MRep0 g mx a i : M t (RRep g 0 mx a) i i
| MRepS g m mx a i j k :
    mx <> Some 0 ->
    M t a i j -> M t (RRep g (pred m) (dec_max mx) a) j k -> M t (RRep g m mx a) i k
| MLoop0 g a i : M t (RLoop g a) i i
| MLoopS g a i j k : M t a i j -> M t (RLoop g a) j k -> M t (RLoop g a) i k.

(** [has_group r idx nm sub]: the capturing group [idx], named [nm], with
    body [sub], occurs in [r] *)
Inductive has_group : regex -> nat -> option str -> regex -> Prop :=
| HG_here idx nm a : has_group (RGroup idx nm a) idx nm a
| HG_in idx nm a i n s : has_group a i n s -> has_group (RGroup idx nm a) i n s
| HG_catl a b i n s : has_group a i n s -> has_group (RCat a b) i n s
| HG_catr a b i n s : has_group b i n s -> has_group (RCat a b) i n s
| HG_altl a b i n s : has_group a i n s -> has_group (RAlt a b) i n s
| HG_altr a b i n s : has_group b i n s -> has_group (RAlt a b) i n s
| HG_rep g m mx a i n s : has_group a i n s -> has_group (RRep g m mx a) i n s
| HG_loop g a i n s : has_group a i n s -> has_group (RLoop g a) i n s.

Lemma M_le t r i j : M t r i j -> i <= j /\ (i <= length t -> j <= length t).
Proof.
  intros HM. induction HM as
    [ i | x i Hn | y i Hn Hy | neg rs y i Hn Hs | | | a b i j k Ha IHa Hb IHb
    | a b i j Ha IHa | a b i j Hb IHb | idx nm a i j Ha IHa | g mx a i
    | g m mx a i j k Hmx Ha IHa Hr IHr | g a i | g a i j k Ha IHa Hl IHl ];
    try (assert (Hlt : i < length t) by (apply nth_error_Some; congruence));
    try lia.
Qed.

Lemma loop_rep0 t g a i j : M t (RLoop g a) i j -> M t (RRep g 0 None a) i j.
Proof.
  intros HM. remember (RLoop g a) as r eqn:Er.
  induction HM as
    [ i | x i Hn | y i Hn Hy | neg rs y i Hn Hs | | | a0 b i j k Ha IHa Hb IHb
    | a0 b i j Ha IHa | a0 b i j Hb IHb | idx nm a0 i j Ha IHa | g0 mx a0 i
    | g0 m mx a0 i j k Hmx Ha IHa Hr IHr | g0 a0 i | g0 a0 i j k Ha IHa Hl IHl ];
    try discriminate Er.
  - apply MRep0.
  - injection Er as -> ->. eapply MRepS; [discriminate | exact Ha | cbn [pred dec_max]; auto].
Qed.

(** * Capture bookkeeping *)
Definition cap := (nat * (nat * nat))%type.

Definition good (t : str) (r : regex) (lo hi : nat) (e : cap) : Prop :=
  lo <= fst (snd e) /\ fst (snd e) <= snd (snd e) /\ snd (snd e) <= hi /\
  exists nm sub, has_group r (fst e) nm sub /\ M t sub (fst (snd e)) (snd (snd e)).

Definition ext (P : cap -> Prop) (c c' : caps) : Prop :=
  exists new, c' = new ++ c /\ Forall P new.

Lemma ext_refl P c : ext P c c.
Proof. exists []. split; [reflexivity | constructor]. Qed.

Lemma ext_trans P c c1 c2 : ext P c c1 -> ext P c1 c2 -> ext P c c2.
Proof.
  intros (n1 & -> & H1) (n2 & -> & H2). exists (n2 ++ n1). split.
  - now rewrite app_assoc.
  - apply Forall_app. split; assumption.
Qed.

Lemma ext_mono (P Q : cap -> Prop) c c' : (forall e, P e -> Q e) -> ext P c c' -> ext Q c c'.
Proof.
  intros HPQ (n & -> & Hn). exists n. split; [reflexivity|].
  eapply Forall_impl; [exact HPQ | exact Hn].
Qed.

Lemma ext_cons (P : cap -> Prop) c c' e : P e -> ext P c c' -> ext P c (e :: c').
Proof.
  intros He (n & -> & Hn). exists (e :: n). split; [reflexivity | constructor; assumption].
Qed.

Lemma good_mono t r r' lo hi lo' hi' e :
  (forall idx nm s, has_group r' idx nm s -> has_group r idx nm s) ->
  lo <= lo' -> hi' <= hi -> good t r' lo' hi' e -> good t r lo hi e.
Proof.
  intros Hg Hlo Hhi (H1 & H2 & H3 & nm & sub & Hs & HM).
  repeat split; try lia. exists nm, sub. split; [apply Hg; exact Hs | exact HM].
Qed.

Lemma orelse_ok x y e c : orelse x y = BOk e c -> x = BOk e c \/ y tt = BOk e c.
Proof. destruct x; cbn [orelse]; intros H; try discriminate; auto. Qed.

Lemma split_ok g b x e c : split g b x = BOk e c -> b tt = BOk e c \/ x tt = BOk e c.
Proof.
  unfold split. destruct g; intros H; apply orelse_ok in H; tauto.
Qed.

(** * Soundness of the backtracking matcher: a success comes from a call of
    the continuation at the end [j] of a match of [r], with captures extended
    by spans inside [[i, j]] that match the body of their group. *)
Definition sound_at (t : str) (f : nat) : Prop :=
  forall r i c k e c',
    bt f t r i c k = BOk e c' ->
    exists j cj, M t r i j /\ ext (good t r i j) c cj /\ k j cj = BOk e c'.

(** the last copy of an unbounded repetition and its back edge *)
Lemma plus_sound t f g a i c k e c' :
  sound_at t f ->
  bt f t a i c (fun j c1 => if Nat.eqb j i then k j c1 else bt f t (RLoop g a) j c1 k) = BOk e c' ->
  exists j cj, M t (RRep g 1 None a) i j /\ ext (good t (RLoop g a) i j) c cj /\ k j cj = BOk e c'.
Proof.
  intros IH H.
  apply IH in H. destruct H as (j1 & c1 & Ha & He1 & Hk).
  destruct (M_le _ _ _ _ Ha) as [Hij1 _].
  destruct (Nat.eqb j1 i) eqn:Ej.
  - exists j1, c1. split; [|split]; [| |exact Hk].
    + eapply MRepS; [discriminate | exact Ha | cbn [pred dec_max]; apply MRep0].
    + eapply ext_mono; [|exact He1]. intros x Hx.
      eapply good_mono; [| | |exact Hx]; [intros; now apply HG_loop | lia | lia].
  - apply IH in Hk. destruct Hk as (j2 & c2 & Hl & He2 & Hk2).
    destruct (M_le _ _ _ _ Hl) as [Hj12 _].
    exists j2, c2. split; [|split]; [| |exact Hk2].
    + eapply MRepS; [discriminate | exact Ha | cbn [pred dec_max]; now apply loop_rep0].
    + eapply ext_trans.
      * eapply ext_mono; [|exact He1]. intros x Hx.
        eapply good_mono; [| | |exact Hx]; [intros; now apply HG_loop | lia | lia].
      * eapply ext_mono; [|exact He2]. intros x Hx.
        eapply good_mono; [| | |exact Hx]; [auto | lia | lia].
Qed.

Lemma hg_loop_rep g g' m mx a idx nm s :
  has_group (RLoop g a) idx nm s -> has_group (RRep g' m mx a) idx nm s.
Proof. intros H. inversion H; subst. now apply HG_rep. Qed.

Lemma hg_cat_rep g m mx m' mx' a idx nm s :
  has_group (RCat a (RRep g m' mx' a)) idx nm s -> has_group (RRep g m mx a) idx nm s.
Proof.
  intros H. inversion H as [ | | ? ? ? ? ? H1 | ? ? ? ? ? H1 | | | | ]; subst.
  - now apply HG_rep.
  - inversion H1; subst. now apply HG_rep.
Qed.

Lemma M_cat_rep t g m mx a i j :
  mx <> Some 0 ->
  M t (RCat a (RRep g (pred m) (dec_max mx) a)) i j -> M t (RRep g m mx a) i j.
Proof.
  intros Hmx H. inversion H; subst. eapply MRepS; eauto.
Qed.

Lemma bt_sound t f : sound_at t f.
Proof.
  induction f as [|f IH]; intros r i c k e c' H; [discriminate H|].
  destruct r as [ | x | | neg rs | | | a b | a b | idx nm a | g m mx a | g a ]; cbn [bt] in H.
  - (* REmpty *)
    exists i, c. split; [constructor | split; [apply ext_refl | exact H]].
  - (* RChar *)
    destruct (nth_error t i) as [y|] eqn:En; [|discriminate H].
    destruct (N.eqb y x) eqn:Ey; [|discriminate H].
    apply N.eqb_eq in Ey. subst y.
    exists (S i), c. split; [now constructor | split; [apply ext_refl | exact H]].
  - (* RAny *)
    destruct (nth_error t i) as [y|] eqn:En; [|discriminate H].
    destruct (N.eqb y 10) eqn:Ey; [discriminate H|].
    exists (S i), c. split; [econstructor; eauto | split; [apply ext_refl | exact H]].
  - (* RSet *)
    destruct (nth_error t i) as [y|] eqn:En; [|discriminate H].
    destruct (set_matches neg rs y) eqn:Ey; [|discriminate H].
    exists (S i), c. split; [econstructor; eauto | split; [apply ext_refl | exact H]].
  - (* RBol *)
    destruct (Nat.eqb i 0) eqn:Ei; [|discriminate H].
    apply Nat.eqb_eq in Ei. subst i.
    exists 0, c. split; [constructor | split; [apply ext_refl | exact H]].
  - (* REol *)
    destruct (Nat.eqb i (length t)) eqn:Ei; [|discriminate H].
    apply Nat.eqb_eq in Ei. subst i.
    exists (length t), c. split; [constructor | split; [apply ext_refl | exact H]].
  - (* RCat *)
    apply IH in H. destruct H as (j1 & c1 & Ha & He1 & Hk).
    apply IH in Hk. destruct Hk as (j2 & c2 & Hb & He2 & Hk2).
    destruct (M_le _ _ _ _ Ha) as [L1 _]. destruct (M_le _ _ _ _ Hb) as [L2 _].
    exists j2, c2. split; [econstructor; eauto | split; [|exact Hk2]].
    eapply ext_trans.
    + eapply ext_mono; [|exact He1]. intros x Hx.
      eapply good_mono; [| | |exact Hx]; [intros; now apply HG_catl | lia | lia].
    + eapply ext_mono; [|exact He2]. intros x Hx.
      eapply good_mono; [| | |exact Hx]; [intros; now apply HG_catr | lia | lia].
  - (* RAlt *)
    apply orelse_ok in H. destruct H as [H|H]; apply IH in H;
      destruct H as (j1 & c1 & Ha & He1 & Hk); exists j1, c1.
    + split; [now apply MAltL | split; [|exact Hk]].
      eapply ext_mono; [|exact He1]. intros x Hx.
      eapply good_mono; [| | |exact Hx]; [intros; now apply HG_altl | lia | lia].
    + split; [now apply MAltR | split; [|exact Hk]].
      eapply ext_mono; [|exact He1]. intros x Hx.
      eapply good_mono; [| | |exact Hx]; [intros; now apply HG_altr | lia | lia].
  - (* RGroup *)
    apply IH in H. destruct H as (j1 & c1 & Ha & He1 & Hk).
    destruct (M_le _ _ _ _ Ha) as [L1 _].
    exists j1, ((idx, (i, j1)) :: c1). split; [now constructor | split; [|exact Hk]].
    apply ext_cons.
    + unfold good; cbn [fst snd]. repeat split; try lia.
      exists nm, a. split; [constructor | exact Ha].
    + eapply ext_mono; [|exact He1]. intros x Hx.
      eapply good_mono; [| | |exact Hx]; [intros; now apply HG_in | lia | lia].
  - (* RRep *)
    assert (Hplus : forall k e c',
      bt f t a i c (fun j c1 => if Nat.eqb j i then k j c1 else bt f t (RLoop g a) j c1 k) = BOk e c' ->
      exists j cj, M t (RRep g 1 None a) i j /\ ext (good t (RRep g m mx a) i j) c cj /\ k j cj = BOk e c').
    { intros k0 e0 c0 H0. apply (plus_sound t f g a i c k0 e0 c0 IH) in H0.
      destruct H0 as (j & cj & HM & He & Hk). exists j, cj. split; [exact HM | split; [|exact Hk]].
      eapply ext_mono; [|exact He]. intros x Hx.
      eapply good_mono; [| | |exact Hx]; [intros ? ? ? Hg; eapply hg_loop_rep; exact Hg | lia | lia]. }
    assert (Hcat : forall m' mx',
      mx <> Some 0 -> m' = pred m -> mx' = dec_max mx ->
      bt f t (RCat a (RRep g m' mx' a)) i c k = BOk e c' ->
      exists j cj, M t (RRep g m mx a) i j /\ ext (good t (RRep g m mx a) i j) c cj /\ k j cj = BOk e c').
    { intros m' mx' Hmx -> -> H0. apply IH in H0.
      destruct H0 as (j & cj & HM & He & Hk). exists j, cj.
      split; [now apply M_cat_rep | split; [|exact Hk]].
      eapply ext_mono; [|exact He]. intros x Hx.
      eapply good_mono; [| | |exact Hx]; [intros ? ? ? Hg; eapply hg_cat_rep; exact Hg | lia | lia]. }
    destruct m as [|[|m']]; destruct mx as [[|n]|].
    + (* 0, Some 0 *)
      exists i, c. split; [apply MRep0 | split; [apply ext_refl | exact H]].
    + (* 0, Some (S n) *)
      apply split_ok in H. destruct H as [H|H].
      * apply IH in H. destruct H as (j1 & c1 & Ha & He1 & Hk).
        apply IH in Hk. destruct Hk as (j2 & c2 & Hb & He2 & Hk2).
        destruct (M_le _ _ _ _ Ha) as [L1 _]. destruct (M_le _ _ _ _ Hb) as [L2 _].
        exists j2, c2. split; [eapply MRepS; [discriminate | exact Ha | exact Hb] | split; [|exact Hk2]].
        eapply ext_trans.
        -- eapply ext_mono; [|exact He1]. intros x Hx.
           eapply good_mono; [| | |exact Hx]; [intros; now apply HG_rep | lia | lia].
        -- eapply ext_mono; [|exact He2]. intros x Hx.
           eapply good_mono; [| | |exact Hx];
             [intros ? ? ? Hg; inversion Hg; subst; now apply HG_rep | lia | lia].
      * exists i, c. split; [apply MRep0 | split; [apply ext_refl | exact H]].
    + (* 0, None *)
      apply split_ok in H. destruct H as [H|H].
      * apply Hplus in H. destruct H as (j & cj & HM & He & Hk). exists j, cj.
        split; [|split; assumption].
        inversion HM; subst. eapply MRepS; eauto.
      * exists i, c. split; [apply MRep0 | split; [apply ext_refl | exact H]].
    + discriminate H.
    + apply (Hcat 0 (Some n)) in H; [exact H | discriminate | reflexivity | reflexivity].
    + apply Hplus in H. exact H.
    + discriminate H.
    + apply (Hcat (S m') (Some n)) in H; [exact H | discriminate | reflexivity | reflexivity].
    + apply (Hcat (S m') None) in H; [exact H | discriminate | reflexivity | reflexivity].
  - (* RLoop *)
    apply split_ok in H. destruct H as [H|H].
    + apply IH in H. destruct H as (j1 & c1 & Ha & He1 & Hk).
      destruct (Nat.eqb j1 i) eqn:Ej; [discriminate Hk|].
      apply IH in Hk. destruct Hk as (j2 & c2 & Hl & He2 & Hk2).
      destruct (M_le _ _ _ _ Ha) as [L1 _]. destruct (M_le _ _ _ _ Hl) as [L2 _].
      exists j2, c2. split; [eapply MLoopS; eauto | split; [|exact Hk2]].
      eapply ext_trans.
      * eapply ext_mono; [|exact He1]. intros x Hx.
        eapply good_mono; [| | |exact Hx]; [intros; now apply HG_loop | lia | lia].
      * eapply ext_mono; [|exact He2]. intros x Hx.
        eapply good_mono; [| | |exact Hx]; [auto | lia | lia].
    + exists i, c. split; [apply MLoop0 | split; [apply ext_refl | exact H]].
Qed.

(** * The search *)
Lemma search_from_sound t f r : forall n s s' e c,
  search_from f t r s n = SFound s' e c ->
  s <= s' /\ s' <= s + n /\ M t r s' e /\ ext (good t r s' e) [] c.
Proof.
  induction n as [|n IH]; intros s s' e c H; cbn [search_from] in H;
    destruct (bt f t r s [] (fun e c => BOk e c)) as [| |e0 c0] eqn:Eb; try discriminate H.
  - injection H as <- <- <-. apply bt_sound in Eb.
    destruct Eb as (j & cj & HM & He & Hk). injection Hk as <- <-.
    repeat split; try lia; assumption.
  - apply IH in H. destruct H as (H1 & H2 & H3 & H4). repeat split; try lia; assumption.
  - injection H as <- <- <-. apply bt_sound in Eb.
    destruct Eb as (j & cj & HM & He & Hk). injection Hk as <- <-.
    repeat split; try lia; assumption.
Qed.

(** (a) soundness: the reported overall span is a match of the regex, inside the text *)
Theorem search_sound : forall f t r s e c,
  search f t r = SFound s e c ->
  M t r s e /\ s <= e /\ e <= length t.
Proof.
  intros f t r s e c H. unfold search in H. apply search_from_sound in H.
  destruct H as (H1 & H2 & HM & _). destruct (M_le _ _ _ _ HM) as [L1 L2].
  repeat split; try assumption. apply L2. lia.
Qed.

Lemma cap_lookup_In c idx sp : cap_lookup c idx = Some sp -> In (idx, sp) c.
Proof.
  induction c as [|[j sp'] c IH]; cbn [cap_lookup]; intros H; [discriminate H|].
  destruct (Nat.eqb j idx) eqn:Ej.
  - apply Nat.eqb_eq in Ej. subst j. injection H as ->. now left.
  - right. now apply IH.
Qed.

(** (b), (d) every reported capture span lies inside the overall span, belongs to
    a group of the pattern, and its slice is in the language of the group's body *)
Theorem search_capture_inside : forall f t r s e c idx a b,
  search f t r = SFound s e c ->
  cap_lookup c idx = Some (a, b) ->
  s <= a /\ a <= b /\ b <= e /\ e <= length t /\
  exists nm sub, has_group r idx nm sub /\ M t sub a b.
Proof.
  intros f t r s e c idx a b H Hl.
  destruct (search_sound _ _ _ _ _ _ H) as (_ & _ & Hlen).
  unfold search in H. apply search_from_sound in H.
  destruct H as (_ & _ & _ & new & Hc & Hnew).
  rewrite app_nil_r in Hc. subst new.
  apply cap_lookup_In in Hl. rewrite Forall_forall in Hnew. apply Hnew in Hl.
  destruct Hl as (H1 & H2 & H3 & H4). cbn [fst snd] in *.
  repeat split; assumption.
Qed.

(** the groups of [regex_groups] are the groups of [has_group] *)
Lemma has_group_groups r idx nm :
  In (idx, nm) (regex_groups r) <-> exists sub, has_group r idx nm sub.
Proof.
  split.
  - induction r as [ | x | | neg rs | | | a IHa b IHb | a IHa b IHb | i0 n0 a IHa | g m mx a IHa | g a IHa ];
      cbn [regex_groups]; intros H; try contradiction.
    + apply in_app_or in H. destruct H as [H|H].
      * destruct (IHa H) as [s Hs]. exists s. now apply HG_catl.
      * destruct (IHb H) as [s Hs]. exists s. now apply HG_catr.
    + apply in_app_or in H. destruct H as [H|H].
      * destruct (IHa H) as [s Hs]. exists s. now apply HG_altl.
      * destruct (IHb H) as [s Hs]. exists s. now apply HG_altr.
    + destruct H as [H|H].
      * injection H as -> ->. exists a. constructor.
      * destruct (IHa H) as [s Hs]. exists s. now apply HG_in.
    + destruct (IHa H) as [s Hs]. exists s. now apply HG_rep.
    + destruct (IHa H) as [s Hs]. exists s. now apply HG_loop.
  - intros [sub H]. induction H; cbn [regex_groups]; try (apply in_or_app); auto.
    + now left.
    + now right.
Qed.

(** the reported text of a group is the slice of its span *)
Lemma slice_length t a b : a <= b -> b <= length t -> length (slice t a b) = b - a.
Proof.
  intros H1 H2. unfold slice. rewrite firstn_length, skipn_length. lia.
Qed.

Lemma nth_firstn_lt {A} (l : list A) : forall k n, n < k -> nth_error (firstn k l) n = nth_error l n.
Proof.
  induction l as [|x l IH]; intros k n H.
  - rewrite firstn_nil. reflexivity.
  - destruct k as [|k]; [lia|]. destruct n as [|n]; cbn [firstn nth_error]; [reflexivity|].
    apply IH. lia.
Qed.

Lemma nth_skipn_add {A} (l : list A) : forall a n, nth_error (skipn a l) n = nth_error l (a + n).
Proof.
  induction l as [|x l IH]; intros a n.
  - rewrite skipn_nil. destruct n, a; reflexivity.
  - destruct a as [|a]; cbn [skipn Nat.add nth_error]; [reflexivity | apply IH].
Qed.

(** the slice is the text between the two positions, character by character *)
Lemma slice_nth t a b n : n < b - a -> nth_error (slice t a b) n = nth_error t (a + n).
Proof.
  intros H. unfold slice. rewrite nth_firstn_lt by exact H. apply nth_skipn_add.
Qed.

Lemma map_fst_bind_named r t c : map fst (bind_named r t c) = regex_named r.
Proof.
  unfold bind_named, regex_named. rewrite map_map. reflexivity.
Qed.

(** (c) "binds exactly the named captures": whatever the text, a match lists
    exactly the named groups of the pattern, in index order *)
Theorem regex_captures_names : forall f r t l,
  regex_captures f r t = RxMatch l -> map fst l = regex_named r.
Proof.
  intros f r t l H. unfold regex_captures in H.
  destruct (search f t r) as [| |s e c]; try discriminate H.
  injection H as <-. apply map_fst_bind_named.
Qed.

Theorem parse_regex_captures_names : forall pat text l,
  parse_regex_captures pat text = RxMatch l ->
  exists r, parse_regex pat = Some r /\ map fst l = regex_named r.
Proof.
  intros pat text l H. unfold parse_regex_captures in H.
  destruct (negb (is_ascii_str text)); [discriminate H|].
  destruct (parse_regex pat) as [r|]; [|discriminate H].
  exists r. split; [reflexivity|]. eapply regex_captures_names; exact H.
Qed.

(** (a)+(b) at the level of the result: the bindings are those of one match
    [(s, e)] of the regex; each named group is bound to [None] when it has no
    span, otherwise to the slice of a span inside [(s, e)] on which the body
    of that group matches *)
Definition binding_ok (t : str) (r : regex) (s e : nat) (c : caps)
           (g : nat * str) (b : str * option str) : Prop :=
  fst b = snd g /\
  match cap_lookup c (fst g) with
  | None => snd b = None
  | Some (x, y) =>
      snd b = Some (slice t x y) /\ s <= x /\ x <= y /\ y <= e /\
      exists sub, has_group r (fst g) (Some (snd g)) sub /\ M t sub x y
  end.

Lemma in_named_only (l : list (nat * option str)) i n :
  In (i, n) (named_only l) -> In (i, Some n) l.
Proof.
  induction l as [|[j [m|]] l IH]; cbn [named_only]; intros H; try contradiction.
  - destruct H as [H|H]; [injection H as -> ->; now left | right; auto].
  - right; auto.
Qed.

Lemma has_group_name_unique_idx r :
  NoDup (map fst (regex_groups r)) ->
  forall idx nm nm' sub, In (idx, nm) (regex_groups r) -> has_group r idx nm' sub -> nm' = nm.
Proof.
  intros Hnd idx nm nm' sub Hin Hg.
  assert (Hin' : In (idx, nm') (regex_groups r)) by (apply has_group_groups; eauto).
  revert Hnd Hin Hin'. generalize (regex_groups r) as l.
  induction l as [|[j m] l IH]; cbn [map fst In]; intros Hnd H1 H2; [contradiction|].
  inversion Hnd as [|? ? Hnotin Hnd']; subst.
  destruct H1 as [H1|H1]; destruct H2 as [H2|H2].
  - congruence.
  - injection H1 as -> ->. exfalso. apply Hnotin.
    change idx with (fst (idx, nm')). now apply in_map.
  - injection H2 as -> ->. exfalso. apply Hnotin.
    change idx with (fst (idx, nm)). now apply in_map.
  - now apply IH.
Qed.

Theorem regex_captures_sound : forall f r t l,
  NoDup (map fst (regex_groups r)) ->
  regex_captures f r t = RxMatch l ->
  exists s e c,
    search f t r = SFound s e c /\ M t r s e /\ s <= e /\ e <= length t /\
    Forall2 (binding_ok t r s e c) (named_only (regex_groups r)) l.
Proof.
  intros f r t l Hnd H. unfold regex_captures in H.
  destruct (search f t r) as [| |s e c] eqn:Es; try discriminate H.
  injection H as <-.
  destruct (search_sound _ _ _ _ _ _ Es) as (HM & L1 & L2).
  exists s, e, c. repeat split; try assumption.
  unfold bind_named.
  assert (Hall : forall g, In g (named_only (regex_groups r)) ->
            binding_ok t r s e c g
              (snd g, option_map (fun sp => slice t (fst sp) (snd sp)) (cap_lookup c (fst g)))).
  { intros [i n] Hin. unfold binding_ok. cbn [fst snd]. split; [reflexivity|].
    destruct (cap_lookup c i) as [[x y]|] eqn:El; cbn [option_map fst snd]; [|reflexivity].
    destruct (search_capture_inside _ _ _ _ _ _ _ _ _ Es El) as (B1 & B2 & B3 & _ & nm & sub & Hg & Hs).
    repeat split; try assumption.
    apply in_named_only in Hin.
    rewrite (has_group_name_unique_idx r Hnd _ _ _ _ Hin Hg) in Hg.
    exists sub. split; assumption. }
  revert Hall. generalize (named_only (regex_groups r)) as gs.
  induction gs as [|g gs IH]; intros Hall; cbn [map]; constructor.
  - apply Hall. now left.
  - apply IH. intros g' Hg'. apply Hall. now right.
Qed.

(** what the parser guarantees about group numbering *)
Lemma idx_seq_spec l : forall n, idx_seq l n = true -> l = seq n (length l).
Proof.
  induction l as [|x l IH]; intros n H; [reflexivity|].
  cbn [idx_seq] in H. apply andb_true_iff in H. destruct H as [H1 H2].
  apply Nat.eqb_eq in H1. subst x. cbn [length seq]. f_equal. now apply IH.
Qed.

Theorem parse_regex_groups : forall pat r,
  parse_regex pat = Some r ->
  map fst (regex_groups r) = seq 1 (length (regex_groups r)) /\
  NoDup (map fst (regex_groups r)).
Proof.
  intros pat r H. unfold parse_regex in H.
  destruct (negb (is_ascii_str pat)); [discriminate H|].
  destruct (p_re _ _ _ _) as [[[r0 rest] n]|]; [|discriminate H].
  destruct rest; [|discriminate H].
  destruct (nodup_names (regex_named r0) && loops_ok r0 && groups_ok r0) eqn:E; [|discriminate H].
  injection H as <-. apply andb_true_iff in E. destruct E as [_ E].
  unfold groups_ok in E. apply idx_seq_spec in E. rewrite map_length in E.
  split; [exact E|]. rewrite E. apply seq_NoDup.
Qed.

(** the end-to-end statement for [parse regex "pat"] on a (trimmed) text *)
Theorem parse_regex_captures_sound : forall pat text l,
  parse_regex_captures pat text = RxMatch l ->
  exists r s e c,
    parse_regex pat = Some r /\
    map fst l = regex_named r /\
    search (default_fuel r text) text r = SFound s e c /\
    M text r s e /\ s <= e /\ e <= length text /\
    Forall2 (binding_ok text r s e c) (named_only (regex_groups r)) l.
Proof.
  intros pat text l H.
  destruct (parse_regex_captures_names _ _ _ H) as (r & Hp & Hn).
  unfold parse_regex_captures in H.
  destruct (negb (is_ascii_str text)); [discriminate H|].
  rewrite Hp in H.
  destruct (parse_regex_groups _ _ Hp) as [_ Hnd].
  destruct (regex_captures_sound _ _ _ _ Hnd H) as (s & e & c & H1 & H2 & H3 & H4 & H5).
  exists r, s, e, c. repeat split; assumption.
Qed.

(** * Completeness on failure, hence leftmost-ness.
    [wf r]: every unbounded repetition (and every back edge) has a body that
    cannot match the empty string; the parser guarantees it ([loops_ok]). *)
Fixpoint wf (r : regex) : bool :=
  match r with
  | RCat a b | RAlt a b => wf a && wf b
  | RGroup _ _ a => wf a
  | RRep _ _ mx a => wf a && match mx with None => negb (nullable a) | Some _ => true end
  | RLoop _ a => wf a && negb (nullable a)
  | _ => true
  end.

Lemma loops_ok_wf r : loops_ok r = true -> wf r = true.
Proof.
  induction r as [ | x | | neg rs | | | a IHa b IHb | a IHa b IHb | i0 n0 a IHa | g m mx a IHa | g a IHa ];
    cbn [loops_ok wf]; intros H; try reflexivity; try discriminate H.
  - apply andb_true_iff in H. destruct H as [H1 H2]. rewrite IHa, IHb by assumption. reflexivity.
  - apply andb_true_iff in H. destruct H as [H1 H2]. rewrite IHa, IHb by assumption. reflexivity.
  - auto.
  - apply andb_true_iff in H. destruct H as [H1 H2]. rewrite IHa by assumption. exact H2.
Qed.

Lemma nonnull_progress t r i j : M t r i j -> nullable r = false -> i < j.
Proof.
  intros HM. induction HM as
    [ i | x i Hn | y i Hn Hy | neg rs y i Hn Hs | | | a b i j k Ha IHa Hb IHb
    | a b i j Ha IHa | a b i j Hb IHb | idx nm a i j Ha IHa | g mx a i
    | g m mx a i j k Hmx Ha IHa Hr IHr | g a i | g a i j k Ha IHa Hl IHl ];
    cbn [nullable]; intros Hnull; try discriminate Hnull; try lia; auto.
  - destruct (M_le _ _ _ _ Ha) as [La _]. destruct (M_le _ _ _ _ Hb) as [Lb _].
    apply andb_false_iff in Hnull. destruct Hnull as [Hn|Hn].
    + specialize (IHa Hn). lia.
    + specialize (IHb Hn). lia.
  - apply orb_false_iff in Hnull. destruct Hnull as [Hn _]. auto.
  - apply orb_false_iff in Hnull. destruct Hnull as [_ Hn]. auto.
  - apply orb_false_iff in Hnull. destruct Hnull as [_ Hn].
    destruct (M_le _ _ _ _ Hr) as [Lr _]. specialize (IHa Hn). lia.
Qed.

Lemma rep0_loop t g a i j : M t (RRep g 0 None a) i j -> M t (RLoop g a) i j.
Proof.
  intros HM. remember (RRep g 0 None a) as r eqn:Er.
  induction HM as
    [ i | x i Hn | y i Hn Hy | neg rs y i Hn Hs | | | a0 b i j k Ha IHa Hb IHb
    | a0 b i j Ha IHa | a0 b i j Hb IHb | idx nm a0 i j Ha IHa | g0 mx a0 i
    | g0 m mx a0 i j k Hmx Ha IHa Hr IHr | g0 a0 i | g0 a0 i j k Ha IHa Hl IHl ];
    try discriminate Er.
  - injection Er as -> -> ->. apply MLoop0.
  - injection Er as -> -> -> ->. eapply MLoopS; [exact Ha|]. apply IHr. reflexivity.
Qed.

Lemma orelse_fail x y : orelse x y = BFail -> x = BFail /\ y tt = BFail.
Proof. destruct x; cbn [orelse]; intros H; try discriminate; auto. Qed.

Lemma split_fail g b x : split g b x = BFail -> b tt = BFail /\ x tt = BFail.
Proof. unfold split. destruct g; intros H; apply orelse_fail in H; tauto. Qed.

(** a failure of the matcher means that the continuation fails at the end of
    every match of [r] from [i] *)
Definition complete_at (t : str) (f : nat) : Prop :=
  forall r i c k,
    wf r = true ->
    bt f t r i c k = BFail ->
    forall j, M t r i j -> exists cj, k j cj = BFail.

Lemma plus_complete t f g a i c k :
  complete_at t f ->
  wf a = true -> nullable a = false ->
  bt f t a i c (fun j c1 => if Nat.eqb j i then k j c1 else bt f t (RLoop g a) j c1 k) = BFail ->
  forall j1 j, M t a i j1 -> M t (RRep g 0 None a) j1 j -> exists cj, k j cj = BFail.
Proof.
  intros IH Hwf Hnull H j1 j Ha Hr.
  destruct (IH _ _ _ _ Hwf H _ Ha) as [c1 Hk].
  pose proof (nonnull_progress _ _ _ _ Ha Hnull) as Hlt.
  destruct (Nat.eqb j1 i) eqn:Ej; [apply Nat.eqb_eq in Ej; lia|].
  apply rep0_loop in Hr.
  refine (IH _ _ _ _ _ Hk _ Hr). cbn [wf]. rewrite Hwf, Hnull. reflexivity.
Qed.

Lemma bt_complete t f : complete_at t f.
Proof.
  induction f as [|f IH]; intros r i c k Hwf H j HM; [discriminate H|].
  destruct r as [ | x | | neg rs | | | a b | a b | idx nm a | g m mx a | g a ];
    cbn [bt] in H; cbn [wf] in Hwf.
  - inversion HM; subst. eauto.
  - inversion HM as [ | ? ? Hn | | | | | | | | | | | | ]; subst. rewrite Hn in H.
    rewrite N.eqb_refl in H. eauto.
  - inversion HM as [ | | ? ? Hn Hy | | | | | | | | | | | ]; subst. rewrite Hn, Hy in H. eauto.
  - inversion HM as [ | | | ? ? ? ? Hn Hs | | | | | | | | | | ]; subst. rewrite Hn, Hs in H. eauto.
  - inversion HM; subst. cbn in H. eauto.
  - inversion HM; subst. rewrite Nat.eqb_refl in H. eauto.
  - apply andb_true_iff in Hwf. destruct Hwf as [Wa Wb].
    inversion HM as [ | | | | | | ? ? ? j1 ? Ha Hb | | | | | | | ]; subst.
    destruct (IH _ _ _ _ Wa H _ Ha) as [c1 H1].
    exact (IH _ _ _ _ Wb H1 _ Hb).
  - apply andb_true_iff in Hwf. destruct Hwf as [Wa Wb].
    apply orelse_fail in H. destruct H as [H1 H2].
    inversion HM; subst.
    + exact (IH _ _ _ _ Wa H1 _ ltac:(eassumption)).
    + exact (IH _ _ _ _ Wb H2 _ ltac:(eassumption)).
  - inversion HM as [ | | | | | | | | | ? ? ? ? ? Ha | | | | ]; subst.
    destruct (IH _ _ _ _ Hwf H _ Ha) as [c1 H1]. eauto.
  - (* RRep *)
    apply andb_true_iff in Hwf. destruct Hwf as [Wa Wn].
    assert (Hcat : forall m' mx',
      wf (RCat a (RRep g m' mx' a)) = true ->
      m' = pred m -> mx' = dec_max mx ->
      bt f t (RCat a (RRep g m' mx' a)) i c k = BFail ->
      forall j1, M t a i j1 -> M t (RRep g (pred m) (dec_max mx) a) j1 j ->
      exists cj, k j cj = BFail).
    { intros m' mx' W -> -> H0 j1 Ha Hr.
      refine (IH _ _ _ _ W H0 _ _). econstructor; eassumption. }
    assert (Wcat : forall m' mx', mx' = dec_max mx -> wf (RCat a (RRep g m' mx' a)) = true).
    { intros m' mx' ->. cbn [wf]. rewrite Wa. destruct mx as [n|]; cbn [dec_max]; [reflexivity|exact Wn]. }
    destruct m as [|[|m']]; destruct mx as [[|n]|].
    + inversion HM; subst; [eauto | congruence].
    + apply split_fail in H. destruct H as [H1 H2].
      inversion HM as [ | | | | | | | | | | | ? ? ? ? ? j1 ? Hmx Ha Hr | | ]; subst; [eauto|].
      cbn [pred dec_max] in Hr.
      destruct (IH _ _ _ _ Wa H1 _ Ha) as [c1 Hk].
      refine (IH _ _ _ _ _ Hk _ Hr). cbn [wf]. rewrite Wa. reflexivity.
    + apply split_fail in H. destruct H as [H1 H2].
      apply negb_true_iff in Wn.
      inversion HM as [ | | | | | | | | | | | ? ? ? ? ? j1 ? Hmx Ha Hr | | ]; subst; [eauto|].
      cbn [pred dec_max] in Hr.
      exact (plus_complete t f g a i c k IH Wa Wn H1 j1 j Ha Hr).
    + inversion HM; subst. congruence.
    + inversion HM as [ | | | | | | | | | | | ? ? ? ? ? j1 ? Hmx Ha Hr | | ]; subst.
      refine (Hcat 0 (Some n) _ eq_refl eq_refl H j1 Ha Hr). now apply Wcat.
    + apply negb_true_iff in Wn.
      inversion HM as [ | | | | | | | | | | | ? ? ? ? ? j1 ? Hmx Ha Hr | | ]; subst.
      cbn [pred dec_max] in Hr.
      exact (plus_complete t f g a i c k IH Wa Wn H j1 j Ha Hr).
    + inversion HM; subst. congruence.
    + inversion HM as [ | | | | | | | | | | | ? ? ? ? ? j1 ? Hmx Ha Hr | | ]; subst.
      refine (Hcat (S m') (Some n) _ eq_refl eq_refl H j1 Ha Hr). now apply Wcat.
    + inversion HM as [ | | | | | | | | | | | ? ? ? ? ? j1 ? Hmx Ha Hr | | ]; subst.
      refine (Hcat (S m') None _ eq_refl eq_refl H j1 Ha Hr). now apply Wcat.
  - (* RLoop *)
    apply andb_true_iff in Hwf. destruct Hwf as [Wa Wn]. apply negb_true_iff in Wn.
    apply split_fail in H. destruct H as [H1 H2].
    inversion HM as [ | | | | | | | | | | | | | ? ? ? j1 ? Ha Hl ]; subst; [eauto|].
    destruct (IH _ _ _ _ Wa H1 _ Ha) as [c1 Hk].
    pose proof (nonnull_progress _ _ _ _ Ha Wn) as Hlt.
    destruct (Nat.eqb j1 i) eqn:Ej; [apply Nat.eqb_eq in Ej; lia|].
    refine (IH _ _ _ _ _ Hk _ Hl). cbn [wf]. rewrite Wa, Wn. reflexivity.
Qed.

Lemma search_from_leftmost t f r : wf r = true -> forall n s,
  match search_from f t r s n with
  | SFound s' _ _ => forall p j, s <= p < s' -> ~ M t r p j
  | SNone => forall p j, s <= p <= s + n -> ~ M t r p j
  | SFuel => True
  end.
Proof.
  intros W. induction n as [|n IH]; intros s; cbn [search_from];
    destruct (bt f t r s [] (fun e c => BOk e c)) as [| |e0 c0] eqn:Eb; try exact I.
  - intros p j Hp HM. assert (p = s) by lia. subst p.
    destruct (bt_complete t f _ _ _ _ W Eb _ HM) as [cj Hk]. discriminate Hk.
  - intros p j Hp. lia.
  - specialize (IH (S s)). destruct (search_from f t r (S s) n) as [| |s' e' c'].
    + exact I.
    + intros p j Hp HM. destruct (Nat.eq_dec p s) as [->|Hne].
      * destruct (bt_complete t f _ _ _ _ W Eb _ HM) as [cj Hk]. discriminate Hk.
      * apply (IH p j); [lia | exact HM].
    + intros p j Hp HM. destruct (Nat.eq_dec p s) as [->|Hne].
      * destruct (bt_complete t f _ _ _ _ W Eb _ HM) as [cj Hk]. discriminate Hk.
      * apply (IH p j); [lia | exact HM].
  - intros p j Hp. lia.
Qed.

(** (d) leftmost: no match of the regex starts before the reported one *)
Theorem search_leftmost : forall f t r s e c,
  loops_ok r = true ->
  search f t r = SFound s e c ->
  forall p j, p < s -> ~ M t r p j.
Proof.
  intros f t r s e c W H p j Hp.
  pose proof (search_from_leftmost t f r (loops_ok_wf _ W) (length t) 0) as L.
  unfold search in H. rewrite H in L. apply L. lia.
Qed.

(** and "no match" is only answered when the regex matches nowhere in the text *)
Theorem search_none_complete : forall f t r,
  loops_ok r = true ->
  search f t r = SNone ->
  forall p j, p <= length t -> ~ M t r p j.
Proof.
  intros f t r W H p j Hp.
  pose proof (search_from_leftmost t f r (loops_ok_wf _ W) (length t) 0) as L.
  unfold search in H. rewrite H in L. apply L. lia.
Qed.

Theorem parse_regex_loops_ok : forall pat r, parse_regex pat = Some r -> loops_ok r = true.
Proof.
  intros pat r H. unfold parse_regex in H.
  destruct (negb (is_ascii_str pat)); [discriminate H|].
  destruct (p_re _ _ _ _) as [[[r0 rest] n]|]; [|discriminate H].
  destruct rest; [|discriminate H].
  destruct (nodup_names (regex_named r0) && loops_ok r0 && groups_ok r0) eqn:E; [|discriminate H].
  injection H as <-. apply andb_true_iff in E. destruct E as [E _].
  apply andb_true_iff in E. tauto.
Qed.

(** * Fuel: [fuel_need] suffices *)
Lemma fuel_need_pos r n : 1 <= fuel_need r n.
Proof. destruct r; cbn [fuel_need]; lia. Qed.

Lemma fuel_need_mono r : forall n n', n <= n' -> fuel_need r n <= fuel_need r n'.
Proof.
  induction r as [ | x | | neg rs | | | a IHa b IHb | a IHa b IHb | i0 n0 a IHa | g m mx a IHa | g a IHa ];
    intros n n' H; cbn [fuel_need]; try lia.
  - specialize (IHa _ _ H). specialize (IHb _ _ H). lia.
  - specialize (IHa _ _ H). specialize (IHb _ _ H). lia.
  - specialize (IHa _ _ H). lia.
  - specialize (IHa _ _ H). lia.
  - specialize (IHa _ _ H). lia.
Qed.

Lemma fuel_need_pos_mono (t : str) r i j :
  i <= j -> fuel_need r (length t - j) <= fuel_need r (length t - i).
Proof. intros H. apply fuel_need_mono. lia. Qed.

Lemma orelse_nofuel x y : x <> BFuel -> y tt <> BFuel -> orelse x y <> BFuel.
Proof. destruct x; cbn [orelse]; intros H1 H2; try assumption; discriminate. Qed.

Lemma split_nofuel g b x : b tt <> BFuel -> x tt <> BFuel -> split g b x <> BFuel.
Proof. unfold split. destruct g; intros H1 H2; apply orelse_nofuel; assumption. Qed.

Definition nofuel_at (t : str) (f : nat) : Prop :=
  forall r i c k,
    i <= length t ->
    fuel_need r (length t - i) <= f ->
    (forall j cj, i <= j -> j <= length t -> k j cj <> BFuel) ->
    bt f t r i c k <> BFuel.

Lemma bt_nofuel t f : nofuel_at t f.
Proof.
  induction f as [|f IH]; intros r i c k Hi Hf Hk.
  - pose proof (fuel_need_pos r (length t - i)). lia.
  - destruct r as [ | x | | neg rs | | | a b | a b | idx nm a | g m mx a | g a ];
      cbn [bt]; cbn [fuel_need] in Hf.
    + apply Hk; lia.
    + destruct (nth_error t i) as [y|] eqn:En; [|discriminate].
      assert (i < length t) by (apply nth_error_Some; congruence).
      destruct (N.eqb y x); [apply Hk; lia | discriminate].
    + destruct (nth_error t i) as [y|] eqn:En; [|discriminate].
      assert (i < length t) by (apply nth_error_Some; congruence).
      destruct (N.eqb y 10); [discriminate | apply Hk; lia].
    + destruct (nth_error t i) as [y|] eqn:En; [|discriminate].
      assert (i < length t) by (apply nth_error_Some; congruence).
      destruct (set_matches neg rs y); [apply Hk; lia | discriminate].
    + destruct (Nat.eqb i 0); [apply Hk; lia | discriminate].
    + destruct (Nat.eqb i (length t)); [apply Hk; lia | discriminate].
    + apply IH; [exact Hi | lia |]. intros j cj Hij Hj.
      pose proof (fuel_need_pos_mono t b i j Hij).
      apply IH; [exact Hj | lia |]. intros j' cj' Hjj' Hj'. apply Hk; lia.
    + apply orelse_nofuel; (apply IH; [exact Hi | lia | exact Hk]).
    + apply IH; [exact Hi | lia |]. intros j cj Hij Hj. apply Hk; lia.
    + (* RRep *)
      assert (Hloop : forall j cj, i <= j -> j <= length t -> j <> i ->
                 2 + (length t - i) + fuel_need a (length t - i) <= S f ->
                 bt f t (RLoop g a) j cj k <> BFuel).
      { intros j cj Hij Hj Hne Hb. pose proof (fuel_need_pos_mono t a i j Hij).
        apply IH; [exact Hj | cbn [fuel_need]; lia |].
        intros j' cj' Hjj' Hj'. apply Hk; lia. }
      assert (Hplus : 3 + (length t - i) + fuel_need a (length t - i) <= S f ->
                 bt f t a i c (fun j c1 => if Nat.eqb j i then k j c1 else bt f t (RLoop g a) j c1 k)
                 <> BFuel).
      { intros Hb. apply IH; [exact Hi | lia |]. intros j cj Hij Hj.
        destruct (Nat.eqb j i) eqn:Ej; [apply Hk; lia|].
        apply Nat.eqb_neq in Ej. apply Hloop; try assumption. lia. }
      assert (Hcat : forall m' mx',
                 fuel_need (RCat a (RRep g m' mx' a)) (length t - i) <= f ->
                 bt f t (RCat a (RRep g m' mx' a)) i c k <> BFuel).
      { intros m' mx' Hb. apply IH; [exact Hi | exact Hb | exact Hk]. }
      destruct m as [|[|m']]; destruct mx as [[|n]|].
      * apply Hk; lia.
      * apply split_nofuel; [|apply Hk; lia].
        apply IH; [exact Hi | lia |]. intros j cj Hij Hj.
        pose proof (fuel_need_pos_mono t a i j Hij).
        apply IH; [exact Hj | cbn [fuel_need]; lia |].
        intros j' cj' Hjj' Hj'. apply Hk; lia.
      * apply split_nofuel; [apply Hplus; lia | apply Hk; lia].
      * discriminate.
      * apply Hcat. cbn [fuel_need]. lia.
      * apply Hplus. lia.
      * discriminate.
      * apply Hcat. cbn [fuel_need]. lia.
      * apply Hcat. cbn [fuel_need]. lia.
    + (* RLoop *)
      apply split_nofuel; [|apply Hk; lia].
      apply IH; [exact Hi | lia |]. intros j cj Hij Hj.
      destruct (Nat.eqb j i) eqn:Ej; [discriminate|].
      apply Nat.eqb_neq in Ej. pose proof (fuel_need_pos_mono t a i j Hij).
      apply IH; [exact Hj | cbn [fuel_need]; lia |].
      intros j' cj' Hjj' Hj'. apply Hk; lia.
Qed.

Lemma search_from_nofuel t f r : forall n s,
  s + n <= length t -> fuel_need r (length t) <= f ->
  search_from f t r s n <> SFuel.
Proof.
  induction n as [|n IH]; intros s Hs Hf; cbn [search_from];
    (destruct (bt f t r s [] (fun e c => BOk e c)) as [| |e0 c0] eqn:Eb; [|try discriminate|discriminate]).
  - exfalso. revert Eb. apply bt_nofuel; [lia | | discriminate].
    pose proof (fuel_need_mono r (length t - s) (length t)). lia.
  - exfalso. revert Eb. apply bt_nofuel; [lia | | discriminate].
    pose proof (fuel_need_mono r (length t - s) (length t)). lia.
  - apply IH; [lia | exact Hf].
Qed.

(** (d) the matcher never runs out of fuel from [fuel_need r (length t)] on *)
Theorem search_no_fuel : forall f t r,
  fuel_need r (length t) <= f -> search f t r <> SFuel.
Proof.
  intros f t r Hf. unfold search. apply search_from_nofuel; [lia | exact Hf].
Qed.

Theorem parse_regex_captures_no_fuel : forall pat text,
  parse_regex_captures pat text <> RxFuel.
Proof.
  intros pat text. unfold parse_regex_captures.
  destruct (negb (is_ascii_str text)); [discriminate|].
  destruct (parse_regex pat) as [r|]; [|discriminate].
  unfold regex_captures.
  pose proof (search_no_fuel (default_fuel r text) text r (le_n _)) as H.
  destruct (search (default_fuel r text) text r); [contradiction | discriminate | discriminate].
Qed.

(** the columns are pairwise distinct (the crate rejects a duplicate name) *)
Lemma nodup_names_spec l : nodup_names l = true -> NoDup l.
Proof.
  induction l as [|x l IH]; cbn [nodup_names]; intros H; constructor.
  - apply andb_true_iff in H. destruct H as [H _]. apply negb_true_iff in H.
    intros Hin. assert (E : existsb (str_eqb x) l = true).
    { apply existsb_exists. exists x. split; [exact Hin | apply str_eqb_refl]. }
    congruence.
  - apply andb_true_iff in H. destruct H as [_ H]. auto.
Qed.

Theorem parse_regex_named_nodup : forall pat r,
  parse_regex pat = Some r -> NoDup (regex_named r).
Proof.
  intros pat r H. unfold parse_regex in H.
  destruct (negb (is_ascii_str pat)); [discriminate H|].
  destruct (p_re _ _ _ _) as [[[r0 rest] n]|]; [|discriminate H].
  destruct rest; [|discriminate H].
  destruct (nodup_names (regex_named r0) && loops_ok r0 && groups_ok r0) eqn:E; [|discriminate H].
  injection H as <-. apply andb_true_iff in E. destruct E as [E _].
  apply andb_true_iff in E. destruct E as [E _]. now apply nodup_names_spec.
Qed.

(** * The repetition rules of [M] say what they should: [n] iterations with
    [min <= n <= max] *)
Fixpoint Miter (t : str) (a : regex) (n i j : nat) : Prop :=
  match n with
  | O => i = j
  | S n' => exists k, M t a i k /\ Miter t a n' k j
  end.

Definition in_bounds (m : nat) (mx : option nat) (n : nat) : Prop :=
  m <= n /\ match mx with Some x => n <= x | None => True end.

Theorem M_rep_iff : forall t g m mx a i j,
  M t (RRep g m mx a) i j <-> exists n, in_bounds m mx n /\ Miter t a n i j.
Proof.
  intros t g m mx a i j. split.
  - intros HM. remember (RRep g m mx a) as r eqn:Er. revert m mx Er.
    induction HM as
      [ i | x i Hn | y i Hn Hy | neg rs y i Hn Hs | | | a0 b i j k Ha IHa Hb IHb
      | a0 b i j Ha IHa | a0 b i j Hb IHb | idx nm a0 i j Ha IHa | g0 mx0 a0 i
      | g0 m0 mx0 a0 i j k Hmx Ha IHa Hr IHr | g0 a0 i | g0 a0 i j k Ha IHa Hl IHl ];
      intros m mx Er; try discriminate Er.
    + injection Er as -> <- -> ->. exists 0. unfold in_bounds. split; [|reflexivity].
      split; [lia | destruct mx; [lia | exact I]].
    + injection Er as -> -> -> ->.
      destruct (IHr _ _ eq_refl) as (n & [B1 B2] & Hit).
      exists (S n). split.
      * unfold in_bounds. split; [lia|].
        destruct mx as [x|]; [|exact I]. cbn [dec_max] in B2.
        destruct x as [|x]; [congruence | cbn [pred] in B2; lia].
      * cbn [Miter]. exists j. split; assumption.
  - intros (n & HB & Hit). revert m mx i HB Hit.
    induction n as [|n IH]; intros m mx i [B1 B2] Hit; cbn [Miter] in Hit.
    + subst j. assert (m = 0) by lia. subst m. apply MRep0.
    + destruct Hit as (k & Ha & Hit).
      eapply MRepS; [| exact Ha |].
      * destruct mx as [[|x]|]; [lia | discriminate | discriminate].
      * apply IH; [|exact Hit]. unfold in_bounds. split; [lia|].
        destruct mx as [x|]; cbn [dec_max]; [lia | exact I].
Qed.

Theorem M_loop_iff : forall t g a i j,
  M t (RLoop g a) i j <-> exists n, Miter t a n i j.
Proof.
  intros t g a i j. split.
  - intros HM. apply loop_rep0 in HM. apply M_rep_iff in HM.
    destruct HM as (n & _ & Hit). eauto.
  - intros (n & Hit). apply rep0_loop. apply M_rep_iff. exists n.
    split; [|exact Hit]. unfold in_bounds. split; [lia | exact I].
Qed.

(** * Examples (checked against the real binary, `agrind -o json '* | parse regex "..." noconvert'`) *)
Open Scope string_scope.

(** greedy vs lazy *)
Example ex_greedy :
  parse_regex_captures (lit "(?P<a>\d+)(?P<b>\d*)") (lit "x1234y")
  = RxMatch [(lit "a", Some (lit "1234")); (lit "b", Some (lit ""))].
Proof. vm_compute. reflexivity. Qed.

Example ex_lazy :
  parse_regex_captures (lit "(?P<a>\d+?)(?P<b>\d*)") (lit "x1234y")
  = RxMatch [(lit "a", Some (lit "1")); (lit "b", Some (lit "234"))].
Proof. vm_compute. reflexivity. Qed.

(** alternation prefers the left branch, even when the right one is longer *)
Example ex_alt_priority :
  parse_regex_captures (lit "(?P<k>ab|abc)(?P<r>.*)") (lit "abcd")
  = RxMatch [(lit "k", Some (lit "ab")); (lit "r", Some (lit "cd"))].
Proof. vm_compute. reflexivity. Qed.

(** an optional group that does not take part is [None], not the empty string *)
Example ex_optional_none :
  parse_regex_captures (lit "(?P<user>\w+)(?:@(?P<host>[a-z.]+))?;") (lit "id=bob; x")
  = RxMatch [(lit "user", Some (lit "bob")); (lit "host", None)].
Proof. vm_compute. reflexivity. Qed.

Example ex_optional_some :
  parse_regex_captures (lit "(?P<user>\w+)(?:@(?P<host>[a-z.]+))?;") (lit "id=bob@a.org; x")
  = RxMatch [(lit "user", Some (lit "bob")); (lit "host", Some (lit "a.org"))].
Proof. vm_compute. reflexivity. Qed.

(** leftmost start wins over a longer or "better" later match *)
Example ex_leftmost :
  parse_regex_captures (lit "(?P<n>\d{2,}|[a-c])") (lit "zzb12345")
  = RxMatch [(lit "n", Some (lit "b"))].
Proof. vm_compute. reflexivity. Qed.

(** a group inside a repetition keeps the span of its last iteration *)
Example ex_last_iteration :
  parse_regex_captures (lit "^(?:(?P<d>\d)|(?<l>[a-z]))+$") (lit "a1b2c")
  = RxMatch [(lit "d", Some (lit "2")); (lit "l", Some (lit "c"))].
Proof. vm_compute. reflexivity. Qed.

(** counted, lazy, anchored *)
Example ex_counted :
  parse_regex_captures (lit "^(?P<a>[^-]{2,3}?)(?P<b>-?\w{1,2})$") (lit "abc-d")
  = RxMatch [(lit "a", Some (lit "abc")); (lit "b", Some (lit "-d"))].
Proof. vm_compute. reflexivity. Qed.

Example ex_nomatch :
  parse_regex_captures (lit "^(?P<a>\d+)$") (lit "12a") = RxNoMatch.
Proof. vm_compute. reflexivity. Qed.

(** outside the model: flags, word boundaries, an unbounded repetition of a
    possibly empty body, [{0}], non-ASCII *)
Example ex_unsupported :
  map (fun p => parse_regex_captures (lit p) (lit "a"))
      ["(?i)a"; "\ba"; "(?P<x>a*)*"; "(?P<x>a){0}"; "\pL"; "(?P<x>a)(?P<x>b)"; "a{2,1}"; "(?P<x>a"]
  = [RxUnsupported; RxUnsupported; RxUnsupported; RxUnsupported; RxUnsupported;
     RxUnsupported; RxUnsupported; RxUnsupported].
Proof. vm_compute. reflexivity. Qed.

(** the line is trimmed first *)
Example ex_trim :
  parse_regex_line (lit "^(?P<a>.*)$") (lit "  a b  ") = RxMatch [(lit "a", Some (lit "a b"))].
Proof. vm_compute. reflexivity. Qed.

Example ex_names :
  option_map regex_names (parse_regex (lit "(?P<a>x(?:y)(?<b>z))|(?P<c>w)"))
  = Some [Some (lit "a"); Some (lit "b"); Some (lit "c")].
Proof. vm_compute. reflexivity. Qed.

Print Assumptions bt_sound.
Print Assumptions search_sound.
Print Assumptions search_capture_inside.
Print Assumptions regex_captures_names.
Print Assumptions parse_regex_captures_names.
Print Assumptions regex_captures_sound.
Print Assumptions parse_regex_groups.
Print Assumptions parse_regex_captures_sound.
Print Assumptions bt_complete.
Print Assumptions search_leftmost.
Print Assumptions search_none_complete.
Print Assumptions parse_regex_loops_ok.
Print Assumptions search_no_fuel.
Print Assumptions parse_regex_captures_no_fuel.
Print Assumptions parse_regex_named_nodup.
Print Assumptions M_rep_iff.
Print Assumptions M_loop_iff.
