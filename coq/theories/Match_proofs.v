(** The wildcard / keyword matcher (Ops.v: seg_match, match_segs, find_match,
    kw_captures — the semantics of the regex built by Keyword::to_regex). *)
From Coq Require Import List NArith ZArith Bool Lia.
From AG Require Import Str Ops Filter Str_proofs.
Import ListNotations.
Open Scope N_scope.

(** [m] is an instance of the literal segment [p] under the character test [pm]: same length,
    every character of [m] accepted by the character of [p] at the same place.
    With [pchar_match] (bare keywords, parse patterns): equal up to ASCII case, a pattern space
    standing for any whitespace character.  With [pchar_exact] (quoted keywords): equal
    character for character (case-sensitively, a blank is a blank). *)
Fixpoint seg_eq (pm : N -> N -> bool) (p m : str) : bool :=
  match p, m with
  | [], [] => true
  | pc :: p', c :: m' => pm pc c && seg_eq pm p' m'
  | _, _ => false
  end.

Section Matcher.
Variable pm : N -> N -> bool.

Lemma seg_match_spec : forall p t r,
  seg_match pm p t = Some r <-> exists m, t = m ++ r /\ seg_eq pm p m = true.
Proof.
  induction p as [|pc p IH]; intros t r; split.
  - cbn [seg_match]. intros H; inversion H; subst. exists []. split; reflexivity.
  - intros [m [Ht Hm]]. destruct m; cbn [seg_eq] in Hm; [|discriminate].
    cbn [app] in Ht. subst. reflexivity.
  - cbn [seg_match]. destruct t as [|c t]; [discriminate|].
    destruct (pm pc c) eqn:E; [|discriminate].
    intros H. apply IH in H. destruct H as [m [Ht Hm]].
    exists (c :: m). split.
    + cbn [app]. rewrite Ht. reflexivity.
    + cbn [seg_eq]. rewrite E, Hm. reflexivity.
  - intros [m [Ht Hm]]. destruct m as [|c m]; cbn [seg_eq] in Hm; [discriminate|].
    apply andb_true_iff in Hm. destruct Hm as [E Hm]. subst t.
    cbn [app seg_match]. rewrite E. apply IH. exists m. split; auto.
Qed.

(** the inner [fix gap] of [match_segs], as a standalone function *)
Definition here_of (s : str) (f : str -> option (list str)) (t acc : str) : option (list str) :=
  match seg_match pm s t with
  | Some t' =>
      match f t' with
      | Some caps => Some (rev acc :: caps)
      | None => None
      end
  | None => None
  end.

Definition gapf (s : str) (f : str -> option (list str)) : str -> str -> option (list str) :=
  fix gap (t : str) (acc : str) {struct t} : option (list str) :=
    let here :=
      match seg_match pm s t with
      | Some t' =>
          match f t' with
          | Some caps => Some (rev acc :: caps)
          | None => None
          end
      | None => None
      end in
    match here with
    | Some r => Some r
    | None =>
        match t with
        | [] => None
        | c :: t' => gap t' (c :: acc)
        end
    end.

Lemma match_segs_cons : forall s rest anch t,
  match_segs pm (s :: rest) anch t = gapf s (match_segs pm rest anch) t [].
Proof. reflexivity. Qed.

Lemma gapf_eq : forall s f t acc,
  gapf s f t acc =
  match here_of s f t acc with
  | Some r => Some r
  | None =>
      match t with
      | [] => None
      | c :: t' => gapf s f t' (c :: acc)
      end
  end.
Proof. intros s f t acc. destruct t; reflexivity. Qed.

Lemma here_of_some : forall s f t acc r,
  here_of s f t acc = Some r ->
  exists m t' caps, t = m ++ t' /\ seg_eq pm s m = true /\ f t' = Some caps /\ r = rev acc :: caps.
Proof.
  intros s f t acc r. unfold here_of.
  destruct (seg_match pm s t) as [t'|] eqn:E1; [|discriminate].
  destruct (f t') as [caps|] eqn:E2; [|discriminate].
  intros H; inversion H; subst.
  apply seg_match_spec in E1. destruct E1 as [m [Ht Hm]].
  exists m, t', caps. auto.
Qed.

Lemma here_of_none : forall s f t acc,
  here_of s f t acc = None ->
  forall m2 t2, t = m2 ++ t2 -> seg_eq pm s m2 = true -> f t2 = None.
Proof.
  unfold here_of; intros s f t acc H m2 t2 Ht Hm.
  assert (E : seg_match pm s t = Some t2) by (apply seg_match_spec; exists m2; auto).
  rewrite E in H. destruct (f t2); [discriminate|reflexivity].
Qed.

Lemma here_of_complete : forall s f t acc m t' caps,
  t = m ++ t' -> seg_eq pm s m = true -> f t' = Some caps ->
  here_of s f t acc = Some (rev acc :: caps).
Proof.
  unfold here_of; intros s f t acc m t' caps Ht Hm Hf.
  assert (E : seg_match pm s t = Some t') by (apply seg_match_spec; exists m; auto).
  rewrite E, Hf. reflexivity.
Qed.

(** the gap [g] is any text, line breaks included *)
Lemma gap_sound : forall s f t acc r,
  gapf s f t acc = Some r ->
  exists g m t' caps,
    t = g ++ m ++ t' /\ seg_eq pm s m = true /\ f t' = Some caps /\
    r = (rev acc ++ g) :: caps /\
    forall g2 m2 t2, t = g2 ++ m2 ++ t2 -> seg_eq pm s m2 = true -> f t2 <> None ->
      (length g <= length g2)%nat.
Proof.
  intros s f. induction t as [|c t IH]; intros acc r H; rewrite gapf_eq in H.
  - destruct (here_of s f [] acc) as [r'|] eqn:E; [|discriminate].
    inversion H; subst r'. apply here_of_some in E.
    destruct E as [m [t' [caps [Ht [Hm [Hf Hr]]]]]].
    exists [], m, t', caps. rewrite app_nil_r.
    repeat split; auto. intros; cbn [length]; lia.
  - destruct (here_of s f (c :: t) acc) as [r'|] eqn:E.
    + inversion H; subst r'. apply here_of_some in E.
      destruct E as [m [t' [caps [Ht [Hm [Hf Hr]]]]]].
      exists [], m, t', caps. rewrite app_nil_r.
      repeat split; auto. intros; cbn [length]; lia.
    + apply IH in H.
      destruct H as [g [m [t' [caps [Ht [Hm [Hf [Hr Hmin]]]]]]]].
      exists (c :: g), m, t', caps. split; [|split; [|split; [|split]]]; auto.
      * cbn [app]. rewrite Ht. reflexivity.
      * rewrite Hr. cbn [rev]. rewrite <- app_assoc. reflexivity.
      * intros g2 m2 t2 Ht2 Hm2 Hf2. destruct g2 as [|c2 g2].
        -- exfalso. apply Hf2. cbn [app] in Ht2.
           eapply here_of_none; eauto.
        -- cbn [app] in Ht2. injection Ht2 as Hc Ht2.
           specialize (Hmin g2 m2 t2 Ht2 Hm2 Hf2). cbn [length]. lia.
Qed.

Lemma gap_complete : forall s f g t acc m t' caps,
  t = g ++ m ++ t' -> seg_eq pm s m = true -> f t' = Some caps ->
  exists r, gapf s f t acc = Some r.
Proof.
  intros s f. induction g as [|c g IH]; intros t acc m t' caps Ht Hm Hf; rewrite gapf_eq.
  - cbn [app] in Ht. erewrite here_of_complete; eauto.
  - destruct (here_of s f t acc) as [r|] eqn:E; [eauto|].
    subst t. cbn [app].
    eapply IH; eauto.
Qed.

(** a match of the segments [segs] (each preceded by a wildcard gap) against [t],
    with the texts captured by the gaps; a gap is any text (it may contain line breaks) *)
Inductive segs_match : list str -> bool -> str -> list str -> Prop :=
| sm_nil_free : forall t, segs_match [] false t []
| sm_nil_anch : segs_match [] true [] []
| sm_cons : forall s rest anch g m t caps,
    seg_eq pm s m = true -> segs_match rest anch t caps ->
    segs_match (s :: rest) anch (g ++ m ++ t) (g :: caps).

Theorem match_segs_sound : forall segs anch t caps,
  match_segs pm segs anch t = Some caps -> segs_match segs anch t caps.
Proof.
  induction segs as [|s rest IH]; intros anch t caps H.
  - cbn [match_segs] in H. destruct anch.
    + destruct t; inversion H; constructor.
    + inversion H; constructor.
  - rewrite match_segs_cons in H. apply gap_sound in H.
    destruct H as [g [m [t' [caps0 [Ht [Hm [Hf [Hr _]]]]]]]].
    subst t caps. cbn [rev app]. apply sm_cons; auto.
Qed.

Theorem match_segs_complete : forall segs anch t caps,
  segs_match segs anch t caps -> exists caps', match_segs pm segs anch t = Some caps'.
Proof.
  intros segs anch t caps H. induction H as [t| |s rest anch g m t caps Hm H IH].
  - exists []. reflexivity.
  - exists []. reflexivity.
  - destruct IH as [caps' Hc]. rewrite match_segs_cons.
    eapply gap_complete; eauto.
Qed.

Definition fhere (s0 : str) (f : str -> option (list str)) (t : str) : option (list str) :=
  match seg_match pm s0 t with
  | Some t' => f t'
  | None => None
  end.

Lemma find_match_eq : forall s0 rest anch t,
  find_match pm s0 rest anch t =
  match fhere s0 (match_segs pm rest anch) t with
  | Some caps => Some caps
  | None =>
      match t with
      | [] => None
      | _ :: t' => find_match pm s0 rest anch t'
      end
  end.
Proof. intros s0 rest anch t. destruct t; reflexivity. Qed.

Lemma fhere_some : forall s0 f t caps,
  fhere s0 f t = Some caps ->
  exists m t', t = m ++ t' /\ seg_eq pm s0 m = true /\ f t' = Some caps.
Proof.
  intros s0 f t caps. unfold fhere.
  destruct (seg_match pm s0 t) as [t'|] eqn:E1; [|discriminate].
  intros H. apply seg_match_spec in E1. destruct E1 as [m [Ht Hm]].
  exists m, t'. auto.
Qed.

Lemma fhere_complete : forall s0 f t m t',
  t = m ++ t' -> seg_eq pm s0 m = true -> fhere s0 f t = f t'.
Proof.
  unfold fhere; intros s0 f t m t' Ht Hm.
  assert (E : seg_match pm s0 t = Some t') by (apply seg_match_spec; exists m; auto).
  rewrite E. reflexivity.
Qed.

Lemma find_match_strong : forall s0 rest anch t caps,
  find_match pm s0 rest anch t = Some caps ->
  exists pre m t', t = pre ++ m ++ t' /\ seg_eq pm s0 m = true /\
    match_segs pm rest anch t' = Some caps /\
    forall pre2 m2 t2, t = pre2 ++ m2 ++ t2 -> seg_eq pm s0 m2 = true ->
      match_segs pm rest anch t2 <> None -> (length pre <= length pre2)%nat.
Proof.
  intros s0 rest anch. induction t as [|c t IH]; intros caps H; rewrite find_match_eq in H.
  - destruct (fhere s0 (match_segs pm rest anch) []) as [r|] eqn:E; [|discriminate].
    inversion H; subst r. apply fhere_some in E. destruct E as [m [t' [Ht [Hm Hf]]]].
    exists [], m, t'. repeat split; auto. intros; cbn [length]; lia.
  - destruct (fhere s0 (match_segs pm rest anch) (c :: t)) as [r|] eqn:E.
    + inversion H; subst r. apply fhere_some in E. destruct E as [m [t' [Ht [Hm Hf]]]].
      exists [], m, t'. repeat split; auto. intros; cbn [length]; lia.
    + apply IH in H. destruct H as [pre [m [t' [Ht [Hm [Hf Hmin]]]]]].
      exists (c :: pre), m, t'. split; [|split; [|split]]; auto.
      * cbn [app]. rewrite Ht. reflexivity.
      * intros pre2 m2 t2 Ht2 Hm2 Hf2. destruct pre2 as [|c2 pre2].
        -- exfalso. apply Hf2. cbn [app] in Ht2.
           rewrite <- E. symmetry. eapply fhere_complete; eauto.
        -- cbn [app] in Ht2. injection Ht2 as Hc Ht2.
           specialize (Hmin pre2 m2 t2 Ht2 Hm2 Hf2). cbn [length]. lia.
Qed.

Lemma find_match_complete_aux : forall s0 rest anch pre t m t' caps,
  t = pre ++ m ++ t' -> seg_eq pm s0 m = true -> match_segs pm rest anch t' = Some caps ->
  exists caps', find_match pm s0 rest anch t = Some caps'.
Proof.
  intros s0 rest anch. induction pre as [|c pre IH]; intros t m t' caps Ht Hm Hf;
    rewrite find_match_eq.
  - cbn [app] in Ht. erewrite fhere_complete; eauto. rewrite Hf. eauto.
  - destruct (fhere s0 (match_segs pm rest anch) t) as [r|] eqn:E; [eauto|].
    subst t. cbn [app]. eapply IH; eauto.
Qed.

(** the whole pattern s0 * s1 * ... anywhere in the text *)
Theorem find_match_sound : forall s0 rest anch t caps,
  find_match pm s0 rest anch t = Some caps ->
  exists pre m t', t = pre ++ m ++ t' /\ seg_eq pm s0 m = true /\ segs_match rest anch t' caps.
Proof.
  intros s0 rest anch t caps H. apply find_match_strong in H.
  destruct H as [pre [m [t' [Ht [Hm [Hf _]]]]]].
  exists pre, m, t'. repeat split; auto. apply match_segs_sound; auto.
Qed.

Theorem find_match_complete : forall s0 rest anch t pre m t' caps,
  t = pre ++ m ++ t' -> seg_eq pm s0 m = true -> segs_match rest anch t' caps ->
  exists caps', find_match pm s0 rest anch t = Some caps'.
Proof.
  intros s0 rest anch t pre m t' caps Ht Hm H.
  apply match_segs_complete in H. destruct H as [caps' Hc].
  eapply find_match_complete_aux; eauto.
Qed.

(** leftmost: no match starts earlier than the one found *)
Theorem find_match_leftmost : forall s0 rest anch t caps,
  find_match pm s0 rest anch t = Some caps ->
  exists pre m t', t = pre ++ m ++ t' /\ seg_eq pm s0 m = true /\ segs_match rest anch t' caps /\
    forall pre2 m2 t2 caps2, t = pre2 ++ m2 ++ t2 -> seg_eq pm s0 m2 = true -> segs_match rest anch t2 caps2 ->
      (length pre <= length pre2)%nat.
Proof.
  intros s0 rest anch t caps H. apply find_match_strong in H.
  destruct H as [pre [m [t' [Ht [Hm [Hf Hmin]]]]]].
  exists pre, m, t'. split; [|split; [|split]]; auto.
  - apply match_segs_sound; auto.
  - intros pre2 m2 t2 caps2 Ht2 Hm2 H2.
    apply match_segs_complete in H2. destruct H2 as [caps' Hc].
    apply (Hmin pre2 m2 t2); auto. rewrite Hc. discriminate.
Qed.

(** lazy: the first capture is the shortest that lets the rest match (among all gaps:
    a gap may contain line breaks) *)
Theorem match_segs_lazy : forall s rest anch t g caps,
  match_segs pm (s :: rest) anch t = Some (g :: caps) ->
  forall g2 m2 t2 caps2, t = g2 ++ m2 ++ t2 -> seg_eq pm s m2 = true -> segs_match rest anch t2 caps2 ->
    (length g <= length g2)%nat.
Proof.
  intros s rest anch t g caps H g2 m2 t2 caps2 Ht2 Hm2 H2.
  rewrite match_segs_cons in H. apply gap_sound in H.
  destruct H as [g0 [m [t' [caps0 [Ht [Hm [Hf [Hr Hmin]]]]]]]].
  cbn [rev app] in Hr. injection Hr as Hg0 Hcaps. subst g0.
  apply match_segs_complete in H2. destruct H2 as [caps' Hc].
  apply (Hmin g2 m2 t2); auto. rewrite Hc. discriminate.
Qed.

(** the number of captures is the number of wildcards *)
Theorem match_segs_count : forall segs anch t caps,
  match_segs pm segs anch t = Some caps -> length caps = length segs.
Proof.
  induction segs as [|s rest IH]; intros anch t caps H.
  - cbn [match_segs] in H. destruct anch.
    + destruct t; inversion H; reflexivity.
    + inversion H; reflexivity.
  - rewrite match_segs_cons in H. apply gap_sound in H.
    destruct H as [g [m [t' [caps0 [Ht [Hm [Hf [Hr _]]]]]]]].
    subst caps. cbn [length]. f_equal. eapply IH; eauto.
Qed.

End Matcher.

(** the wildcard gap is no longer confined to one line (fix 72583f8): a line break inside the
    text between two segments is captured like any other character *)
Example gap_spans_newline :
  match_segs pchar_match [[98]] false [97; 10; 98] = Some [[97; 10]].
Proof. reflexivity. Qed.

(** an exact (quoted) keyword: one segment, [*] is an ordinary character; the text occurs
    case-SENSITIVELY ([pchar_exact]), a blank of the keyword being a blank *)
Theorem exact_keyword_spec : forall pat t,
  kw_is_match KExact pat t = true <->
  exists pre m post, t = pre ++ m ++ post /\ seg_eq pchar_exact pat m = true.
Proof.
  intros pat t. unfold kw_is_match, kw_captures. split.
  - destruct (find_match pchar_exact pat [] false t) as [caps|] eqn:E; [|discriminate].
    intros _. apply find_match_sound in E.
    destruct E as [pre [m [t' [Ht [Hm _]]]]]. exists pre, m, t'. auto.
  - intros [pre [m [post [Ht Hm]]]].
    destruct (find_match_complete pchar_exact pat [] false t pre m post [] Ht Hm
                (sm_nil_free pchar_exact post)) as [caps' Hc].
    rewrite Hc. reflexivity.
Qed.

(** a wildcard (bare) keyword / parse pattern: its segments, caseless ([pchar_match]) *)
Theorem wild_keyword_spec : forall pat t caps,
  kw_captures KWild pat t = Some caps ->
  exists s0 rest pre m t', split_on_star pat [] = s0 :: rest /\
    t = pre ++ m ++ t' /\ seg_eq pchar_match s0 m = true /\
    segs_match pchar_match rest (ends_with_star pat) t' caps.
Proof.
  intros pat t caps. unfold kw_captures.
  destruct (split_on_star pat []) as [|s0 rest]; [discriminate|].
  intros H. apply find_match_sound in H. destruct H as [pre [m [t' H]]].
  exists s0, rest, pre, m, t'. split; [reflexivity|exact H].
Qed.

(** quoted keywords are literal: every character of the keyword, a blank included, matches only itself *)
Lemma pchar_exact_literal : forall p c, pchar_exact p c = true -> p = c.
Proof.
  intros p c H. unfold pchar_exact in H. apply N.eqb_eq in H. exact H.
Qed.

(** the quoted form matches iff the text occurs verbatim (blanks included) *)
Lemma seg_eq_exact_iff : forall p m, seg_eq pchar_exact p m = true <-> m = p.
Proof.
  induction p as [|pc p IH]; intros m; split.
  - destruct m; [reflexivity|discriminate].
  - intros ->. reflexivity.
  - destruct m as [|c m]; cbn [seg_eq]; [discriminate|].
    intros H. apply andb_true_iff in H. destruct H as [H1 H2].
    apply pchar_exact_literal in H1. apply IH in H2. congruence.
  - intros ->. cbn [seg_eq]. apply andb_true_iff. split.
    + unfold pchar_exact. apply N.eqb_refl.
    + apply IH; auto.
Qed.

(** a keyword without blanks: the quoted form matches iff the text occurs verbatim *)
Lemma seg_eq_exact_no_blank : forall p m,
  forallb (fun c => negb (c =? 32)) p = true ->
  (seg_eq pchar_exact p m = true <-> m = p).
Proof. intros p m _. apply seg_eq_exact_iff. Qed.

(** segments are literal: a character of the pattern other than a space matches only itself up to ASCII case *)
Lemma pchar_match_literal : forall p c, p <> 32 -> pchar_match p c = true -> ascii_lower p = ascii_lower c.
Proof.
  intros p c Hp H. unfold pchar_match in H.
  destruct (p =? 32) eqn:E.
  - apply N.eqb_eq in E. contradiction.
  - apply N.eqb_eq in H. exact H.
Qed.

(** the filter tree is plain boolean logic over the keyword tests *)
Theorem fmatches_and : forall l line, fmatches (FAnd l) line = forallb (fun f => fmatches f line) l.
Proof.
  intros l line. induction l as [|x r IH]; [reflexivity|].
  cbn [forallb]. rewrite <- IH. reflexivity.
Qed.
Theorem fmatches_or : forall l line, fmatches (FOr l) line = existsb (fun f => fmatches f line) l.
Proof.
  intros l line. induction l as [|x r IH]; [reflexivity|].
  cbn [existsb]. rewrite <- IH. reflexivity.
Qed.
Theorem fmatches_not : forall f line, fmatches (FNot f) line = negb (fmatches f line).
Proof. reflexivity. Qed.
Theorem fmatches_star : forall line, fmatches (FAnd []) line = true.
Proof. reflexivity. Qed.

Print Assumptions find_match_leftmost.
Print Assumptions match_segs_lazy.
Print Assumptions match_segs_complete.
Print Assumptions exact_keyword_spec.
