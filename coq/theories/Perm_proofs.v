(** C14: aggregates do not depend on arrival order or batching. *)
From Coq Require Import List ZArith NArith Bool Lia Permutation Floats.SpecFloat.
From AG Require Import Str F64 Value Json Expr Ops Pipeline Str_proofs F64_proofs F64_exact_proofs Value_proofs Agg_proofs.
Import ListNotations.
Open Scope Z_scope.

(** *** generic helpers *)
Lemma perm_filter : forall (A : Type) (f : A -> bool) (l l' : list A),
  Permutation l l' -> Permutation (filter f l) (filter f l').
Proof.
  intros A f l l' H. induction H as [|x l l' H IH|x y l|l l' l'' H1 IH1 H2 IH2].
  - apply perm_nil.
  - cbn [filter]. destruct (f x); [apply perm_skip; exact IH|exact IH].
  - cbn [filter]. destruct (f x); destruct (f y);
      try apply Permutation_refl. apply perm_swap.
  - eapply perm_trans; [exact IH1|exact IH2].
Qed.

Lemma perm_flat_map : forall (A B : Type) (g : A -> list B) (l l' : list A),
  Permutation l l' -> Permutation (flat_map g l) (flat_map g l').
Proof.
  intros A B g l l' H. induction H as [|x l l' H IH|x y l|l l' l'' H1 IH1 H2 IH2].
  - apply perm_nil.
  - cbn [flat_map]. apply Permutation_app_head. exact IH.
  - cbn [flat_map]. rewrite !app_assoc. apply Permutation_app_tail.
    apply Permutation_app_comm.
  - eapply perm_trans; [exact IH1|exact IH2].
Qed.

Lemma existsb_filter : forall (A : Type) (f g : A -> bool) (l : list A),
  existsb f (filter g l) = existsb (fun x => g x && f x) l.
Proof.
  intros A f g l. induction l as [|x l IH]; [reflexivity|].
  cbn [filter existsb]. destruct (g x); cbn [existsb andb orb]; rewrite IH; reflexivity.
Qed.

Lemma existsb_perm : forall (A : Type) (f : A -> bool) (l l' : list A),
  Permutation l l' -> existsb f l = existsb f l'.
Proof.
  intros A f l l' H. induction H as [|x l l' H IH|x y l|l l' l'' H1 IH1 H2 IH2].
  - reflexivity.
  - cbn [existsb]. rewrite IH. reflexivity.
  - cbn [existsb]. destruct (f x); destruct (f y); reflexivity.
  - rewrite IH1. exact IH2.
Qed.

Lemma existsb_ext_in : forall (A : Type) (f g : A -> bool) (l : list A),
  (forall x, In x l -> f x = g x) -> existsb f l = existsb g l.
Proof.
  intros A f g l. induction l as [|x l IH]; intro H; [reflexivity|].
  cbn [existsb]. rewrite (H x (or_introl eq_refl)). rewrite IH; [reflexivity|].
  intros y Hy. apply H. right. exact Hy.
Qed.

(** *** groups under permutation and concatenation *)
Lemma group_rows_perm : forall keys k rows rows',
  Permutation rows rows' -> Permutation (group_rows keys k rows) (group_rows keys k rows').
Proof.
  intros keys k rows rows' H. unfold group_rows. apply perm_filter. exact H.
Qed.

Lemma group_rows_app : forall keys k a b,
  group_rows keys k (a ++ b) = group_rows keys k a ++ group_rows keys k b.
Proof.
  intros keys k a b. unfold group_rows. apply filter_app.
Qed.

Lemma numeric_args_perm : forall e rows rows',
  Permutation rows rows' -> Permutation (numeric_args e rows) (numeric_args e rows').
Proof.
  intros e rows rows' H. unfold numeric_args. apply perm_flat_map. exact H.
Qed.

Lemma numeric_args_app : forall e a b,
  numeric_args e (a ++ b) = numeric_args e a ++ numeric_args e b.
Proof.
  intros e a b. unfold numeric_args. apply flat_map_app.
Qed.

Lemma existsb_dedup_keys : forall k l,
  existsb (keys_eqb k) (dedup_keys l) = existsb (keys_eqb k) l.
Proof.
  intros k l. induction l as [|x l IH]; [reflexivity|].
  cbn [dedup_keys existsb]. destruct (keys_eqb k x) eqn:E; [reflexivity|].
  cbn [orb]. rewrite existsb_filter. rewrite <- IH.
  apply existsb_ext_in. intros y _.
  destruct (keys_eqb k y) eqn:Ey; [|apply andb_false_r].
  rewrite andb_true_r.
  destruct (keys_eqb y x) eqn:Eyx; [|reflexivity].
  rewrite (keys_eqb_trans veqb_trans _ _ _ Ey Eyx) in E. discriminate E.
Qed.

(** the same set of groups, whatever the arrival order *)
Lemma group_keys_perm : forall keys fns rows rows',
  Permutation rows rows' ->
  forall k, existsb (keys_eqb k) (map fst (g_state (grouper_after keys fns rows))) =
            existsb (keys_eqb k) (map fst (g_state (grouper_after keys fns rows'))).
Proof.
  intros keys fns rows rows' H k.
  rewrite !(grouper_keys veqb_trans). rewrite !existsb_dedup_keys.
  apply existsb_perm. apply Permutation_map. exact H.
Qed.

(** *** count: exact *)
Lemma count_perm : forall c rows rows', Permutation rows rows' ->
  acc_emit (fold_left acc_step rows (acc_empty (FCount c))) =
  acc_emit (fold_left acc_step rows' (acc_empty (FCount c))).
Proof.
  intros c rows rows' H. cbn [acc_empty]. destruct c as [c|].
  - rewrite !count_cond_fold. cbn [acc_emit].
    rewrite (Permutation_length (perm_filter _ _ _ _ H)). reflexivity.
  - rewrite !count_fold. cbn [acc_emit].
    rewrite (Permutation_length H). reflexivity.
Qed.

Lemma count_app : forall rows_a rows_b na nb,
  acc_emit (fold_left acc_step rows_a (acc_empty (FCount None))) = Ok (VInt na) ->
  acc_emit (fold_left acc_step rows_b (acc_empty (FCount None))) = Ok (VInt nb) ->
  acc_emit (fold_left acc_step (rows_a ++ rows_b) (acc_empty (FCount None))) = Ok (VInt (na + nb)).
Proof.
  intros rows_a rows_b na nb Ha Hb. cbn [acc_empty] in *.
  rewrite count_fold in Ha, Hb |- *. cbn [acc_emit] in *.
  inversion Ha as [Ha']. inversion Hb as [Hb'].
  rewrite app_length, Nat2Z.inj_add. apply f_equal. apply f_equal. lia.
Qed.

(** *** integer sums: exact as long as the magnitudes add up to at most 2^53 *)
Definition sum_abs (zs : list Z) : Z := fold_right (fun z acc => Z.abs z + acc) 0 zs.
Definition sumZ (zs : list Z) : Z := fold_right Z.add 0 zs.

Lemma sum_abs_nonneg : forall zs, 0 <= sum_abs zs.
Proof.
  induction zs as [|z zs IH]; [cbn; lia|].
  cbn [sum_abs fold_right]. fold (sum_abs zs). lia.
Qed.

Lemma sumZ_le_sum_abs : forall zs, Z.abs (sumZ zs) <= sum_abs zs.
Proof.
  induction zs as [|z zs IH]; [cbn; lia|].
  cbn [sum_abs sumZ fold_right]. fold (sum_abs zs). fold (sumZ zs). lia.
Qed.

Lemma fold_fadd_ints : forall zs t, Z.abs t + sum_abs zs <= 2 ^ 53 ->
  fold_left fadd (map f_of_Z zs) (f_of_Z t) = f_of_Z (t + sumZ zs).
Proof.
  induction zs as [|z zs IH]; intros t H.
  - cbn [map fold_left sumZ fold_right]. f_equal. lia.
  - cbn [map fold_left sumZ sum_abs fold_right] in *.
    fold (sum_abs zs) in H. fold (sumZ zs).
    pose proof (sum_abs_nonneg zs) as Hn.
    rewrite fadd_of_Z by (unfold small; lia).
    rewrite IH by lia. f_equal. lia.
Qed.

Lemma sumZ_perm : forall a b, Permutation a b -> sumZ a = sumZ b.
Proof.
  intros a b H. induction H as [|x l l' H IH|x y l|l l' l'' H1 IH1 H2 IH2].
  - reflexivity.
  - cbn [sumZ fold_right]. fold (sumZ l). fold (sumZ l'). lia.
  - cbn [sumZ fold_right]. lia.
  - lia.
Qed.
Lemma sum_abs_perm : forall a b, Permutation a b -> sum_abs a = sum_abs b.
Proof.
  intros a b H. induction H as [|x l l' H IH|x y l|l l' l'' H1 IH1 H2 IH2].
  - reflexivity.
  - cbn [sum_abs fold_right]. fold (sum_abs l). fold (sum_abs l'). lia.
  - cbn [sum_abs fold_right]. lia.
  - lia.
Qed.

Lemma sumZ_app : forall a b, sumZ (a ++ b) = sumZ a + sumZ b.
Proof.
  induction a as [|x a IH]; intro b; [reflexivity|].
  cbn [app sumZ fold_right]. fold (sumZ (a ++ b)). fold (sumZ a). rewrite IH. lia.
Qed.
Lemma sum_abs_app : forall a b, sum_abs (a ++ b) = sum_abs a + sum_abs b.
Proof.
  induction a as [|x a IH]; intro b; [reflexivity|].
  cbn [app sum_abs fold_right]. fold (sum_abs (a ++ b)). fold (sum_abs a). rewrite IH. lia.
Qed.

(** a sum over a group whose numeric arguments are the integers [zs] reports exactly their sum *)
Theorem sum_exact : forall e rows zs,
  numeric_args e rows = map f_of_Z zs -> sum_abs zs <= 2 ^ 53 ->
  acc_emit (fold_left acc_step rows (acc_empty (FSum e))) = Ok (VInt (sumZ zs)).
Proof.
  intros e rows zs Hn Hs. cbn [acc_empty]. rewrite sum_fold, Hn.
  change f_zero with (f_of_Z 0). rewrite fold_fadd_ints by (cbn [Z.abs]; lia).
  cbn [acc_emit Z.add]. rewrite from_float_of_Z; [reflexivity|].
  unfold small. pose proof (sumZ_le_sum_abs zs). lia.
Qed.

(** a list of floats that is a permutation of converted integers is itself
    a list of converted integers, of a permutation of those integers *)
Lemma perm_map_inv : forall (fs : list f64) (zs : list Z),
  Permutation (map f_of_Z zs) fs ->
  exists zs', Permutation zs zs' /\ fs = map f_of_Z zs'.
Proof.
  intros fs zs H. apply Permutation_sym in H. apply Permutation_map_inv in H.
  destruct H as [zs' [H1 H2]]. exists zs'. split; [exact H2|exact H1].
Qed.

(** ... hence it does not depend on the order of the rows *)
Theorem sum_perm_exact : forall e rows rows' zs,
  Permutation rows rows' ->
  numeric_args e rows = map f_of_Z zs -> sum_abs zs <= 2 ^ 53 ->
  acc_emit (fold_left acc_step rows' (acc_empty (FSum e))) = Ok (VInt (sumZ zs)).
Proof.
  intros e rows rows' zs Hp Hn Hs.
  pose proof (numeric_args_perm e _ _ Hp) as Hq. rewrite Hn in Hq.
  destruct (perm_map_inv _ _ Hq) as [zs' [Hz Hn']].
  rewrite (sumZ_perm _ _ Hz). apply sum_exact; [exact Hn'|].
  rewrite <- (sum_abs_perm _ _ Hz). exact Hs.
Qed.

(** and sums add over a concatenation *)
Theorem sum_app_exact : forall e a b za zb,
  numeric_args e a = map f_of_Z za -> numeric_args e b = map f_of_Z zb ->
  sum_abs za + sum_abs zb <= 2 ^ 53 ->
  acc_emit (fold_left acc_step (a ++ b) (acc_empty (FSum e))) = Ok (VInt (sumZ za + sumZ zb)).
Proof.
  intros e a b za zb Ha Hb Hs. rewrite <- sumZ_app. apply sum_exact.
  - rewrite numeric_args_app, Ha, Hb, map_app. reflexivity.
  - rewrite sum_abs_app. exact Hs.
Qed.

(** *** min / max over integers: exact, order independent, and they combine *)
(* [minZ] / [maxZ] are defined in Agg_proofs *)
Lemma small_fold_min : forall zs z, small z -> Forall small zs -> small (fold_left Z.min zs z).
Proof.
  induction zs as [|a zs IH]; intros z Hz Hf; [exact Hz|].
  inversion Hf as [|a' zs' Ha Hzs]; subst. cbn [fold_left]. apply IH; [|exact Hzs].
  unfold small in *. lia.
Qed.
Lemma small_fold_max : forall zs z, small z -> Forall small zs -> small (fold_left Z.max zs z).
Proof.
  induction zs as [|a zs IH]; intros z Hz Hf; [exact Hz|].
  inversion Hf as [|a' zs' Ha Hzs]; subst. cbn [fold_left]. apply IH; [|exact Hzs].
  unfold small in *. lia.
Qed.

Lemma fold_min_ints : forall zs z, small z -> Forall small zs ->
  fold_left (fun acc v => if fltb v acc then v else acc) (map f_of_Z zs) (f_of_Z z) =
  f_of_Z (fold_left Z.min zs z).
Proof.
  induction zs as [|a zs IH]; intros z Hz Hf; [reflexivity|].
  inversion Hf as [|a' zs' Ha Hzs]; subst. cbn [map fold_left].
  rewrite fltb_of_Z by assumption.
  destruct (Z.ltb_spec a z) as [Hlt|Hge].
  - rewrite IH by assumption. f_equal. f_equal. lia.
  - rewrite IH by assumption. f_equal. f_equal. lia.
Qed.
Lemma fold_max_ints : forall zs z, small z -> Forall small zs ->
  fold_left (fun acc v => if fltb acc v then v else acc) (map f_of_Z zs) (f_of_Z z) =
  f_of_Z (fold_left Z.max zs z).
Proof.
  induction zs as [|a zs IH]; intros z Hz Hf; [reflexivity|].
  inversion Hf as [|a' zs' Ha Hzs]; subst. cbn [map fold_left].
  rewrite fltb_of_Z by assumption.
  destruct (Z.ltb_spec z a) as [Hlt|Hge].
  - rewrite IH by assumption. f_equal. f_equal. lia.
  - rewrite IH by assumption. f_equal. f_equal. lia.
Qed.

Lemma fltb_finite_inf : forall x, f_is_finite x = true -> fltb x f_inf = true.
Proof. intros x H. destruct x as [s|s| |s m e]; try discriminate H; reflexivity. Qed.
Lemma fltb_neg_inf_finite : forall x, f_is_finite x = true -> fltb f_neg_inf x = true.
Proof. intros x H. destruct x as [s|s| |s m e]; try discriminate H; reflexivity. Qed.

Lemma fold_min_init : forall l a b, fold_left Z.min l (Z.min a b) = Z.min a (fold_left Z.min l b).
Proof.
  induction l as [|x l IH]; intros a b; [reflexivity|].
  cbn [fold_left]. rewrite <- IH. f_equal. lia.
Qed.
Lemma fold_max_init : forall l a b, fold_left Z.max l (Z.max a b) = Z.max a (fold_left Z.max l b).
Proof.
  induction l as [|x l IH]; intros a b; [reflexivity|].
  cbn [fold_left]. rewrite <- IH. f_equal. lia.
Qed.

Lemma fold_min_perm : forall a b, Permutation a b -> forall z, fold_left Z.min a z = fold_left Z.min b z.
Proof.
  intros a b H. induction H as [|x l l' H IH|x y l|l l' l'' H1 IH1 H2 IH2]; intro z.
  - reflexivity.
  - cbn [fold_left]. apply IH.
  - cbn [fold_left]. f_equal. lia.
  - rewrite IH1. apply IH2.
Qed.
Lemma fold_max_perm : forall a b, Permutation a b -> forall z, fold_left Z.max a z = fold_left Z.max b z.
Proof.
  intros a b H. induction H as [|x l l' H IH|x y l|l l' l'' H1 IH1 H2 IH2]; intro z.
  - reflexivity.
  - cbn [fold_left]. apply IH.
  - cbn [fold_left]. f_equal. lia.
  - rewrite IH1. apply IH2.
Qed.

Lemma minZ_perm : forall a b, Permutation a b -> minZ a = minZ b.
Proof.
  intros a b H. destruct a as [|x r]; destruct b as [|y r'].
  - reflexivity.
  - apply Permutation_nil in H. discriminate H.
  - apply Permutation_sym, Permutation_nil in H. discriminate H.
  - cbn [minZ]. f_equal.
    pose proof (fold_min_perm _ _ H) as HM. cbn [fold_left] in HM.
    pose proof (HM (fold_left Z.min r x)) as H1.
    pose proof (HM (fold_left Z.min r' y)) as H2.
    rewrite !fold_min_init in H1, H2. lia.
Qed.
Lemma maxZ_perm : forall a b, Permutation a b -> maxZ a = maxZ b.
Proof.
  intros a b H. destruct a as [|x r]; destruct b as [|y r'].
  - reflexivity.
  - apply Permutation_nil in H. discriminate H.
  - apply Permutation_sym, Permutation_nil in H. discriminate H.
  - cbn [maxZ]. f_equal.
    pose proof (fold_max_perm _ _ H) as HM. cbn [fold_left] in HM.
    pose proof (HM (fold_left Z.max r x)) as H1.
    pose proof (HM (fold_left Z.max r' y)) as H2.
    rewrite !fold_max_init in H1, H2. lia.
Qed.

Lemma minZ_app : forall a b, minZ (a ++ b) =
  match minZ a, minZ b with
  | Some x, Some y => Some (Z.min x y) | Some x, None => Some x | None, y => y end.
Proof.
  intros [|x r] b; [reflexivity|].
  cbn [app minZ]. rewrite fold_left_app. destruct b as [|y s]; [reflexivity|].
  cbn [fold_left]. rewrite fold_min_init. reflexivity.
Qed.
Lemma maxZ_app : forall a b, maxZ (a ++ b) =
  match maxZ a, maxZ b with
  | Some x, Some y => Some (Z.max x y) | Some x, None => Some x | None, y => y end.
Proof.
  intros [|x r] b; [reflexivity|].
  cbn [app maxZ]. rewrite fold_left_app. destruct b as [|y s]; [reflexivity|].
  cbn [fold_left]. rewrite fold_max_init. reflexivity.
Qed.

(** the cell for an integral double extremum [f_of_Z z] and the exact integer extremum *)
Lemma minmax_emit_small_min : forall z mi, small z ->
  minmax_emit true (Some (f_of_Z z)) mi = VInt (match mi with Some i => Z.min i z | None => z end).
Proof.
  intros z mi Hz.
  pose proof (from_float_of_Z z Hz) as Hff.
  unfold minmax_emit. cbn [option_map]. rewrite Hff.
  destruct mi as [i|]; [|reflexivity]. unfold vmin. cbn [vcmp].
  destruct (Z.compare_spec z i); f_equal; lia.
Qed.
Lemma minmax_emit_small_max : forall z mi, small z ->
  minmax_emit false (Some (f_of_Z z)) mi = VInt (match mi with Some i => Z.max i z | None => z end).
Proof.
  intros z mi Hz.
  pose proof (from_float_of_Z z Hz) as Hff.
  unfold minmax_emit. cbn [option_map]. rewrite Hff.
  destruct mi as [i|]; [|reflexivity]. unfold vmax. cbn [vcmp].
  destruct (Z.compare_spec z i); f_equal; lia.
Qed.

(** the double extremum of converted integers of magnitude at most 2^53: the converted extremum *)
Lemma filter_not_nan_ints : forall zs, Forall small zs ->
  filter not_nan (map f_of_Z zs) = map f_of_Z zs.
Proof.
  induction zs as [|z zs IH]; intro Hf; [reflexivity|].
  inversion Hf as [|z' zs' Hz Hzs]; subst. cbn [map filter].
  pose proof (proj2 (f_of_Z_valid z Hz)) as Hfin. unfold not_nan at 1.
  destruct (f_of_Z z) as [s|s| |s m e] eqn:E; try discriminate Hfin;
    cbn [f_is_nan negb]; rewrite (IH Hzs); reflexivity.
Qed.
Lemma minF_ints : forall zs, Forall small zs ->
  minF (map f_of_Z zs) = option_map f_of_Z (minZ zs).
Proof.
  intros zs Hf. unfold minF. rewrite filter_not_nan_ints by exact Hf.
  destruct zs as [|z zs]; [reflexivity|].
  inversion Hf as [|z' zs' Hz Hzs]; subst. cbn [map minZ option_map].
  rewrite fold_min_ints by assumption. reflexivity.
Qed.
Lemma maxF_ints : forall zs, Forall small zs ->
  maxF (map f_of_Z zs) = option_map f_of_Z (maxZ zs).
Proof.
  intros zs Hf. unfold maxF. rewrite filter_not_nan_ints by exact Hf.
  destruct zs as [|z zs]; [reflexivity|].
  inversion Hf as [|z' zs' Hz Hzs]; subst. cbn [map maxZ option_map].
  rewrite fold_max_ints by assumption. reflexivity.
Qed.

(** min / max are exact: over the integer arguments (an integer, or text holding one) WITHOUT any
    bound on their size, together with the other numeric arguments when those are the integral
    doubles of the integers [fz] of magnitude at most 2^53 *)
Theorem min_exact : forall e rows fz,
  float_args e rows = map f_of_Z fz -> Forall small fz ->
  acc_emit (fold_left acc_step rows (acc_empty (FMin e))) =
  Ok (match minZ (int_args e rows ++ fz) with Some m => VInt m | None => VNone end).
Proof.
  intros e rows fz Hn Hf. rewrite min_emit, Hn, minZ_app, minF_ints by exact Hf.
  destruct fz as [|z fz].
  - cbn [minZ option_map]. destruct (minZ (int_args e rows)); reflexivity.
  - inversion Hf as [|z' zs' Hz Hzs]; subst.
    cbn [minZ option_map].
    rewrite minmax_emit_small_min by (apply small_fold_min; assumption).
    destruct (minZ (int_args e rows)); reflexivity.
Qed.

Theorem max_exact : forall e rows fz,
  float_args e rows = map f_of_Z fz -> Forall small fz ->
  acc_emit (fold_left acc_step rows (acc_empty (FMax e))) =
  Ok (match maxZ (int_args e rows ++ fz) with Some m => VInt m | None => VNone end).
Proof.
  intros e rows fz Hn Hf. rewrite max_emit, Hn, maxZ_app, maxF_ints by exact Hf.
  destruct fz as [|z fz].
  - cbn [maxZ option_map]. destruct (maxZ (int_args e rows)); reflexivity.
  - inversion Hf as [|z' zs' Hz Hzs]; subst.
    cbn [maxZ option_map].
    rewrite minmax_emit_small_max by (apply small_fold_max; assumption).
    destruct (maxZ (int_args e rows)); reflexivity.
Qed.

(** in particular: when every numeric argument is an integer, the cell is their exact
    minimum / maximum, whatever their size (no 2^53 bound) *)
Theorem min_exact_all_integers : forall e rows, float_args e rows = [] ->
  acc_emit (fold_left acc_step rows (acc_empty (FMin e))) =
  Ok (match minZ (int_args e rows) with Some m => VInt m | None => VNone end).
Proof.
  intros e rows H. rewrite (min_exact e rows [] H (Forall_nil _)), app_nil_r. reflexivity.
Qed.
Theorem max_exact_all_integers : forall e rows, float_args e rows = [] ->
  acc_emit (fold_left acc_step rows (acc_empty (FMax e))) =
  Ok (match maxZ (int_args e rows) with Some m => VInt m | None => VNone end).
Proof.
  intros e rows H. rewrite (max_exact e rows [] H (Forall_nil _)), app_nil_r. reflexivity.
Qed.

Lemma int_args_perm : forall e rows rows',
  Permutation rows rows' -> Permutation (int_args e rows) (int_args e rows').
Proof. intros e rows rows' H. unfold int_args. apply perm_flat_map. exact H. Qed.
Lemma float_args_perm : forall e rows rows',
  Permutation rows rows' -> Permutation (float_args e rows) (float_args e rows').
Proof. intros e rows rows' H. unfold float_args. apply perm_flat_map. exact H. Qed.
Lemma int_args_app : forall e a b, int_args e (a ++ b) = int_args e a ++ int_args e b.
Proof. intros e a b. unfold int_args. apply flat_map_app. Qed.
Lemma float_args_app : forall e a b, float_args e (a ++ b) = float_args e a ++ float_args e b.
Proof. intros e a b. unfold float_args. apply flat_map_app. Qed.

(** ... hence the min / max cell does not depend on the order of the rows *)
Theorem min_max_perm_exact : forall e rows rows' fz,
  Permutation rows rows' ->
  float_args e rows = map f_of_Z fz -> Forall small fz ->
  acc_emit (fold_left acc_step rows' (acc_empty (FMin e))) =
    Ok (match minZ (int_args e rows ++ fz) with Some m => VInt m | None => VNone end) /\
  acc_emit (fold_left acc_step rows' (acc_empty (FMax e))) =
    Ok (match maxZ (int_args e rows ++ fz) with Some m => VInt m | None => VNone end).
Proof.
  intros e rows rows' fz Hp Hn Hs.
  pose proof (float_args_perm e _ _ Hp) as Hq. rewrite Hn in Hq.
  destruct (perm_map_inv _ _ Hq) as [fz' [Hz Hn']].
  assert (Hs' : Forall small fz') by (eapply Permutation_Forall; eassumption).
  assert (HP : Permutation (int_args e rows ++ fz) (int_args e rows' ++ fz'))
    by (apply Permutation_app; [apply int_args_perm; exact Hp|exact Hz]).
  rewrite (minZ_perm _ _ HP), (maxZ_perm _ _ HP).
  split; [apply min_exact|apply max_exact]; assumption.
Qed.

(** *** count_distinct: exact under permutation *)
Definition vresp (p : value -> bool) : Prop := forall u v, veqb u v = true -> p u = p v.

Lemma vresp_and_neq : forall p x, vresp p -> vresp (fun v => negb (veqb v x) && p v).
Proof.
  intros p x Hp u v Huv. rewrite (Hp u v Huv). f_equal. f_equal.
  destruct (veqb u x) eqn:Eu; destruct (veqb v x) eqn:Ev; try reflexivity.
  - rewrite veqb_sym in Huv. rewrite (veqb_trans _ _ _ Huv Eu) in Ev. discriminate Ev.
  - rewrite (veqb_trans _ _ _ Huv Ev) in Eu. discriminate Eu.
Qed.

Lemma filter_comm : forall (A : Type) (f g : A -> bool) (l : list A),
  filter f (filter g l) = filter g (filter f l).
Proof.
  intros A f g l. rewrite !filter_filter'. apply filter_ext. intro x. apply andb_comm.
Qed.

Lemma dedup_filter_perm : forall a b, Permutation a b ->
  forall p, vresp p ->
  length (filter p (dedup_values a)) = length (filter p (dedup_values b)).
Proof.
  intros a b H. induction H as [|x l l' H IH|x y l|l l' l'' H1 IH1 H2 IH2]; intros p Hp.
  - reflexivity.
  - cbn [dedup_values filter]. rewrite !filter_filter'.
    pose proof (IH _ (vresp_and_neq p x Hp)) as E.
    destruct (p x); cbn [length]; rewrite E; reflexivity.
  - cbn [dedup_values filter]. rewrite (veqb_sym y x).
    rewrite (filter_comm _ (fun v' => negb (veqb v' y)) (fun v' => negb (veqb v' x))).
    destruct (veqb x y) eqn:Exy; cbn [negb filter].
    + rewrite (Hp x y Exy). destruct (p y); reflexivity.
    + destruct (p x); destruct (p y); reflexivity.
  - rewrite (IH1 p Hp). apply IH2. exact Hp.
Qed.

Lemma dedup_values_perm_length : forall a b, Permutation a b ->
  length (dedup_values a) = length (dedup_values b).
Proof.
  intros a b H.
  pose proof (dedup_filter_perm a b H (fun _ => true) (fun u v _ => eq_refl)) as E.
  rewrite !filter_all in E by reflexivity. exact E.
Qed.

Theorem distinct_perm : forall e rows rows', Permutation rows rows' ->
  acc_emit (fold_left acc_step rows (acc_empty (FDistinct e))) =
  acc_emit (fold_left acc_step rows' (acc_empty (FDistinct e))).
Proof.
  intros e rows rows' H. rewrite !(distinct_fold veqb_trans).
  f_equal. f_equal. f_equal. apply dedup_values_perm_length.
  apply perm_flat_map. exact H.
Qed.

(** *** a group present in only one part is carried over unchanged *)
Theorem group_only_left : forall keys k a b,
  group_rows keys k b = [] -> group_rows keys k (a ++ b) = group_rows keys k a.
Proof.
  intros keys k a b H. rewrite group_rows_app, H. apply app_nil_r.
Qed.
Theorem group_only_right : forall keys k a b,
  group_rows keys k a = [] -> group_rows keys k (a ++ b) = group_rows keys k b.
Proof.
  intros keys k a b H. rewrite group_rows_app, H. reflexivity.
Qed.

Print Assumptions sum_perm_exact.
Print Assumptions min_exact.
Print Assumptions distinct_perm.
Print Assumptions group_keys_perm.
