(** Runner entry for the date texts: [(datefmt rfc3339|display|debug <ns>)] -> a string atom *)
From Coq Require Import List ZArith NArith Bool.
From AG Require Import Str Sexp DateFmt.
Import ListNotations.

Definition datefmt_case (c : sexp) : sexp :=
  match c with
  | SList [h; k; n] =>
      if is_sym h "datefmt" then
        match atom_Z n with
        | Some ns =>
            if is_sym k "rfc3339" then sstr (fmt_rfc3339 ns)
            else if is_sym k "display" then sstr (fmt_date_display ns)
            else if is_sym k "debug" then sstr (fmt_date_debug ns)
            else SList [sym "error"; sstr (lit "datefmt: unknown form")]
        | None => SList [sym "error"; sstr (lit "datefmt: bad instant")]
        end
      else SList [sym "error"; sstr (lit "datefmt: bad case")]
  | _ => SList [sym "error"; sstr (lit "datefmt: bad case")]
  end.
