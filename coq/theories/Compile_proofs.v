(** Pipeline::new places every stage exactly once and in the order written. *)
From Coq Require Import List ZArith Bool Lia.
From AG Require Import Str F64 Value Json Expr Ops Pipeline.
Import ListNotations.

(** reference: the aggregate side, stage by stage *)
Definition needs_sort (rest : list stage) : bool :=
  match rest with [] => true | SLimit _ :: _ => true | _ => false end.

Fixpoint post_ref (stages : list stage) : list aggop :=
  match stages with
  | [] => []
  | SAgg fns keys :: rest =>
      mk_aggop (SAgg fns keys) ::
      (if needs_sort rest then [mk_aggop (implicit_sort fns keys)] else []) ++ post_ref rest
  | s :: rest => mk_aggop s :: post_ref rest
  end.

(** the longest prefix of row operators, and what follows it *)
Fixpoint split_pre (stages : list stage) : list stage * list stage :=
  match stages with
  | [] => ([], [])
  | s :: rest =>
      if is_inline s then let '(p, q) := split_pre rest in (s :: p, q) else ([], stages)
  end.

Lemma compile_walk_in_agg stages : forall pre post,
  compile_walk stages true pre post = (rev pre, rev post ++ post_ref stages).
Proof.
  induction stages as [|s rest IH]; intros pre post.
  - cbn. now rewrite app_nil_r.
  - destruct s; cbn [compile_walk post_ref is_inline]; try (rewrite IH; cbn [rev]; now rewrite <- app_assoc).
    rewrite IH. unfold needs_sort.
    destruct rest as [|[] rest']; cbn [rev app]; rewrite <- ?app_assoc; reflexivity.
Qed.

Lemma compile_walk_pre stages : forall pre,
  compile_walk stages false pre [] =
  let '(p, q) := split_pre stages in (rev pre ++ map build_op p, post_ref q).
Proof.
  induction stages as [|s rest IH]; intros pre.
  - cbn. now rewrite app_nil_r.
  - destruct s; cbn [compile_walk split_pre is_inline];
      try (rewrite IH; destruct (split_pre rest) as [p q]; cbn [map rev]; now rewrite <- app_assoc).
    + (* SAgg *)
      destruct (match rest with [] => true | SLimit _ :: _ => true | _ => false end) eqn:E;
        rewrite compile_walk_in_agg; cbn [rev app map post_ref]; rewrite app_nil_r;
        unfold needs_sort; rewrite E; reflexivity.
    + (* SSort *)
      rewrite compile_walk_in_agg. cbn. now rewrite app_nil_r.
Qed.

Theorem compile_spec stages :
  compile stages = let '(p, q) := split_pre stages in (map build_op p, post_ref q).
Proof. unfold compile. now rewrite compile_walk_pre. Qed.

(** nothing is lost, duplicated or reordered: the two parts concatenate back *)
Lemma split_pre_app stages : let '(p, q) := split_pre stages in p ++ q = stages.
Proof.
  induction stages as [|s rest IH]; [reflexivity|].
  cbn. destruct (is_inline s); [|reflexivity].
  destruct (split_pre rest) as [p q]. cbn. now rewrite IH.
Qed.

Lemma split_pre_inline stages : let '(p, _) := split_pre stages in forallb is_inline p = true.
Proof.
  induction stages as [|s rest IH]; [reflexivity|].
  cbn. destruct (is_inline s) eqn:E; [|reflexivity].
  destruct (split_pre rest) as [p q]. cbn. now rewrite E.
Qed.

Lemma split_pre_head stages :
  let '(_, q) := split_pre stages in
  match q with [] => True | s :: _ => is_inline s = false end.
Proof.
  induction stages as [|s rest IH]; [exact I|].
  cbn. destruct (is_inline s) eqn:E; [|exact E].
  destruct (split_pre rest) as [p q]. exact IH.
Qed.

(** what [post_ref] produces, read back: every written stage appears once, in
    order; the only inserted operator is the implicit sort after an
    aggregation that ends the query or is followed by limit *)
Definition is_implicit (a : aggop) (fns : list (str * aggfn)) (keys : list (str * expr)) : Prop :=
  a = mk_aggop (implicit_sort fns keys).

Fixpoint erase_implicit (stages : list stage) (post : list aggop) : option (list aggop) :=
  match stages, post with
  | [], [] => Some []
  | SAgg fns keys :: rest, a :: post' =>
      if needs_sort rest then
        match post' with
        | _ :: post'' => option_map (cons a) (erase_implicit rest post'')
        | [] => None
        end
      else option_map (cons a) (erase_implicit rest post')
  | _ :: rest, a :: post' => option_map (cons a) (erase_implicit rest post')
  | _, _ => None
  end.

Theorem post_ref_faithful stages :
  erase_implicit stages (post_ref stages) = Some (map mk_aggop stages).
Proof.
  induction stages as [|s rest IH]; [reflexivity|].
  destruct s; cbn [post_ref erase_implicit map]; try (rewrite IH; reflexivity).
  destruct (needs_sort rest); cbn [app]; rewrite IH; reflexivity.
Qed.
