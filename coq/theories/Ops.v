(** Row operators (src/operator/*.rs): json, logfmt, parse, split, fields,
    where, field expression, timeslice, limit, total. *)
From Coq Require Import List ZArith NArith Bool Floats.SpecFloat.
From AG Require Import Str F64 Value Json Expr.
Import ListNotations.
Open Scope string_scope.
Open Scope list_scope.
Open Scope Z_scope.

Record record := mkRec { rdata : data; rraw : str }.

Definition rput (k : str) (v : value) (r : record) : record :=
  mkRec (put k v (rdata r)) (rraw r).

(** [get_input] *)
Definition get_input (r : record) (from : option expr) : res str :=
  match from with
  | Some e => eval_str e (rdata r)
  | None => Ok (rraw r)
  end.

(** ** json *)
Definition json_op (from : option expr) (r : record) : res (option record) :=
  do inp <- get_input r from;
  match json_parse inp with
  | None => Err
  | Some (JObj kvs) =>
      Ok (Some (fold_left (fun acc kv => rput (fst kv) (json_to_value (snd kv)) acc) kvs r))
  | Some _ => Ok (Some r)
  end.

(** ** logfmt: the state machine of the logfmt crate (0.0.2) *)
Record lf_state := mkLf {
  lf_pair : option str;          (* key of the pending pend *)
  lf_pairs : list (str * option str);   (* reversed *)
  lf_buf : str;                  (* reversed *)
  lf_escape : bool; lf_garbage : bool; lf_quoted : bool }.

Definition lf_complete (buf : str) (pend : option str) : str * option str :=
  match pend with
  | Some k => (k, Some buf)
  | None => (buf, None)
  end.

Definition lf_step (st : lf_state) (c : N) : lf_state :=
  let '(mkLf pend pairs buf escape garbage quoted) := st in
  if negb quoted && (c =? 32)%N then
    match buf with
    | [] => mkLf pend pairs buf escape false quoted
    | _ =>
        if garbage then mkLf pend pairs [] escape false quoted
        else mkLf None (lf_complete (rev buf) pend :: pairs) [] escape false quoted
    end
  else if negb quoted && (c =? 61)%N then
    match buf with
    | [] => mkLf pend pairs buf escape true quoted
    | _ => mkLf (Some (rev buf)) pairs [] escape garbage quoted
    end
  else if quoted && (c =? 92)%N then
    mkLf pend pairs buf true garbage quoted
  else if (c =? 34)%N then
    if escape then mkLf pend pairs (c :: buf) false garbage quoted
    else mkLf pend pairs buf escape garbage (negb quoted)
  else
    if escape then mkLf pend pairs (c :: 92%N :: buf) false garbage quoted
    else mkLf pend pairs (c :: buf) escape garbage quoted.

Definition logfmt_parse (msg : str) : list (str * option str) :=
  let st := fold_left lf_step msg (mkLf None [] [] false false false) in
  let '(mkLf pend pairs buf _ garbage _) := st in
  rev (if garbage then pairs else lf_complete (rev buf) pend :: pairs).

Definition logfmt_op (from : option expr) (r : record) : res (option record) :=
  do inp <- get_input r from;
  (* text without any pair comes back as one pair without key or value: not stored (fix d4c6bb8) *)
  let pairs := filter (fun kv => negb (match fst kv, snd kv with [], None => true | _, _ => false end))
                      (logfmt_parse (trim_end inp)) in
  Ok (Some (fold_left (fun acc kv =>
                         match snd kv with
                         | None => rput (fst kv) VNone acc
                         | Some v => rput (fst kv) (from_string v) acc
                         end) pairs r)).

(** ** wildcard patterns: the matcher that Keyword::to_regex denotes *)

(** caseless on ASCII letters; a pattern space matches any whitespace *)
Definition pchar_match (p c : N) : bool :=
  if (p =? 32)%N then is_ws c else (ascii_lower p =? ascii_lower c)%N.

(** a quoted keyword is its literal text: case-sensitive (fix 9cc9c86), a blank is a blank *)
Definition pchar_exact (p c : N) : bool := (p =? c)%N.

Fixpoint seg_match (pm : N -> N -> bool) (p t : str) : option str :=
  match p with
  | [] => Some t
  | pc :: p' =>
      match t with
      | c :: t' => if pm pc c then seg_match pm p' t' else None
      | [] => None
      end
  end.

(** segments after the first one, each preceded by a lazy gap [(.*?)] over any text, line
    breaks included ((?s), fix 72583f8); [anch] = the pattern ends with [*] (regex [$]) *)
Fixpoint match_segs (pm : N -> N -> bool) (segs : list str) (anch : bool) (t : str) {struct segs}
  : option (list str) :=
  match segs with
  | [] => if anch then match t with [] => Some [] | _ => None end else Some []
  | s :: rest =>
      (fix gap (t : str) (acc : str) {struct t} : option (list str) :=
         let here :=
           match seg_match pm s t with
           | Some t' =>
               match match_segs pm rest anch t' with
               | Some caps => Some (rev acc :: caps)
               | None => None
               end
           | None => None
           end in
         match here with
         | Some r => Some r
         | None =>
             match t with
             | [] => None
             | c :: t' => gap t' (c :: acc)
             end
         end) t []
  end.

Fixpoint find_match (pm : N -> N -> bool) (s0 : str) (rest : list str) (anch : bool) (t : str) {struct t}
  : option (list str) :=
  let here := match seg_match pm s0 t with
              | Some t' => match_segs pm rest anch t'
              | None => None
              end in
  match here with
  | Some caps => Some caps
  | None => match t with
            | [] => None
            | _ :: t' => find_match pm s0 rest anch t'
            end
  end.

Fixpoint split_on_star (s : str) (cur : str) : list str :=
  match s with
  | [] => [rev cur]
  | c :: s' => if (c =? 42)%N then rev cur :: split_on_star s' [] else split_on_star s' (c :: cur)
  end.

(** the [replace("\\\"", "\"")] of to_regex *)
Fixpoint unescape_quotes (s : str) : str :=
  match s with
  | c :: r =>
      if (c =? 92)%N && head_is 34%N r then unescape_quotes r
      else c :: unescape_quotes r
  | [] => []
  end.

Definition ends_with_star (s : str) : bool :=
  head_is 42%N (rev s).

Inductive kwkind := KExact | KWild.

(** captures of the first match, or None *)
Definition kw_captures (kind : kwkind) (pat : str) (t : str) : option (list str) :=
  let p := pat in      (* the lexer has unescaped the text already (fix 34af2a5) *)
  match kind with
  | KExact => find_match pchar_exact p [] false t
  | KWild =>
      match split_on_star p [] with
      | [] => None
      | s0 :: rest => find_match pchar_match s0 rest (ends_with_star pat) t
      end
  end.

Definition kw_is_match (kind : kwkind) (pat : str) (t : str) : bool :=
  match kw_captures kind pat t with Some _ => true | None => false end.

Definition count_stars (s : str) : nat :=
  length (filter (fun c => (c =? 42)%N) s).

(** ** parse (wildcard form) *)
Definition parse_op (pat : str) (fields : list str) (from : option expr)
           (nodrop noconvert : bool) (r : record) : res (option record) :=
  do inp <- get_input r from;
  match kw_captures KWild pat (trim inp) with
  | None =>
      if nodrop then
        Ok (Some (fold_left (fun acc f => if has f (rdata r) then acc else rput f VNone acc)
                            fields r))
      else Ok None
  | Some caps =>
      let vals := map (fun c => if noconvert then VStr c else from_string c) caps in
      Ok (Some (fold_left (fun acc fv => rput (fst fv) (snd fv) acc) (combine fields vals) r))
  end.

(** ** split *)
Fixpoint find_close_scan (q : N) (prev : N) (t : str) (acc : str) : option (str * str) :=
  match t with
  | [] => None
  | c :: t' =>
      if (c =? q)%N && negb (prev =? 92)%N then Some (rev acc, t')
      else find_close_scan q c t' (c :: acc)
  end.

Definition find_close_delimiter (q : N) (s : str) : str * str :=
  match s with
  | _ :: t =>
      match find_close_scan q q t [] with
      | Some (tok, rest) => (tok, rest)
      | None => (s, [])
      end
  | [] => (s, [])
  end.

Definition split_once (s sep : str) : str * str :=
  match find_sub sep s with
  | Some i => (firstn i s, skipn (i + length sep) s)
  | None => (s, [])
  end.

Inductive splitres := SplitOk (l : list str) | SplitDiverge.

Fixpoint split_loop (fuel : nat) (wip sep : str) (acc : list str) : splitres :=
  match wip with
  | [] => SplitOk (rev acc)
  | c :: _ =>
      match fuel with
      | O => SplitDiverge
      | S f =>
          let '(tok, rest) :=
            if (c =? 34)%N || (c =? 39)%N then find_close_delimiter c wip
            else split_once wip sep in
          let tok := trim tok in
          split_loop f rest sep (match tok with [] => acc | _ => tok :: acc end)
      end
  end.

Definition split_with_delimiters (input sep : str) : splitres :=
  split_loop (S (length input)) input sep [].

Fixpoint replace_nth {A} (n : nat) (x : A) (l : list A) : list A :=
  match l, n with
  | [], _ => []
  | _ :: t, O => x :: t
  | h :: t, S n' => h :: replace_nth n' x t
  end.

Fixpoint put_path (rest : list vref) (cur : value) (newv : value) : res value :=
  match rest with
  | [] => Ok newv
  | RField k :: rest' =>
      match cur with
      | VObj m =>
          match get k m with
          | None => match rest' with [] => Ok (VObj (put k newv m)) | _ => Err end
          | Some child => do c' <- put_path rest' child newv; Ok (VObj (put k c' m))
          end
      | _ => Err
      end
  | RIndex i :: rest' =>
      match cur with
      | VArr l =>
          let len := Z.of_nat (length l) in
          let real := if i <? 0 then i + len else i in
          if (real <? 0) || (len <=? real) then Err
          else match nth_error l (Z.to_nat real) with
               | Some child => do c' <- put_path rest' child newv;
                               Ok (VArr (replace_nth (Z.to_nat real) c' l))
               | None => Err
               end
      | _ => Err
      end
  end.

(** [Record::put_expr] *)
Definition put_expr (key : expr) (v : value) (r : record) : res record :=
  match key with
  | ECol h rest =>
      match get h (rdata r) with
      | None => match rest with [] => Ok (rput h v r) | _ => Err end
      | Some root => do root' <- put_path rest root v; Ok (rput h root' r)
      end
  | _ => Err
  end.

Definition split_op (sep : str) (from : option expr) (out : option expr) (r : record)
  : res (option record) :=
  do inp <- get_input r from;
  match split_with_delimiters inp sep with
  | SplitDiverge => Unm
  | SplitOk toks =>
      let arr := VArr (map from_string toks) in
      match out with
      | Some oc => do r' <- put_expr oc arr r; Ok (Some r')
      | None => Ok (Some (rput (lit "_split") arr r))
      end
  end.

(** ** fields *)
Definition fields_op (only : bool) (fs : list str) (r : record) : res (option record) :=
  let keep kv := let isin := existsb (str_eqb (fst kv)) fs in if only then isin else negb isin in
  let d := filter keep (rdata r) in
  match d with
  | [] => Ok None
  | _ => Ok (Some (mkRec d (rraw r)))
  end.

(** ** where / field expression / timeslice *)
Definition where_op (e : expr) (r : record) : res (option record) :=
  do b <- eval_bool e (rdata r);
  Ok (if b then Some r else None).

Definition let_op (e : expr) (name : str) (r : record) : res (option record) :=
  do v <- eval e (rdata r); Ok (Some (rput name v r)).

(** chrono duration_trunc: both the span and the timestamp must fit i64 ns *)
Definition timeslice_op (e : expr) (span : Z) (name : option str) (r : record)
  : res (option record) :=
  do v <- eval e (rdata r);
  match v with
  | VDate ns =>
      (* on the nanosecond count, for every date and every slice length (fix fa5338c); a result outside
         chrono's date range is an error *)
      if span <=? 0 then Err
      else
        let out := match name with Some n => n | None => lit "_timeslice" end in
        do d <- mk_date (ns - ns mod span);
        Ok (Some (rput out d r))
  | _ => Err
  end.

(** ** stages and stateful operator instances *)
Inductive aggfn : Type :=
| FCount (cond : option expr) | FSum (e : expr) | FMin (e : expr) | FMax (e : expr)
| FAvg (e : expr) | FDistinct (e : expr) | FPct (p : f64) (e : expr).

Inductive stage : Type :=
| SJson (from : option expr)
| SLogfmt (from : option expr)
| SParse (pat : str) (fields : list str) (from : option expr) (nodrop noconvert : bool)
| SSplit (sep : str) (from out : option expr)
| SFields (only : bool) (fs : list str)
| SWhere (e : expr)
| SLet (e : expr) (name : str)
| STimeslice (e : expr) (span : Z) (name : option str)
| SLimit (n : Z)
| STotal (e : expr) (name : str)
| SAgg (fns : list (str * aggfn)) (keys : list (str * expr))
| SSort (keys : list expr) (desc : bool)
| SUnmodelled.

Definition is_inline (s : stage) : bool :=
  match s with SAgg _ _ | SSort _ _ => false | _ => true end.

Inductive opstate : Type :=
| OFun (s : stage)                 (* stateless UnaryPreAggFunction *)
| OHead (index limit : Z)
| OTail (queue : list record) (limit : Z)
| OTotal (e : expr) (name : str) (total : f64).

Definition build_op (s : stage) : opstate :=
  match s with
  | SLimit n => if 0 <? n then OHead 0 n else OTail [] (Z.abs n)
  | STotal e name => OTotal e name f_zero
  | _ => OFun s
  end.

Definition apply_fun (s : stage) (r : record) : res (option record) :=
  match s with
  | SJson from => json_op from r
  | SLogfmt from => logfmt_op from r
  | SParse pat fields from nodrop noconvert => parse_op pat fields from nodrop noconvert r
  | SSplit sep from out => split_op sep from out r
  | SFields only fs => fields_op only fs r
  | SWhere e => where_op e r
  | SLet e name => let_op e name r
  | STimeslice e span name => timeslice_op e span name r
  | _ => Unm
  end.

(** [process_mut] *)
Definition op_step (o : opstate) (r : record) : opstate * res (option record) :=
  match o with
  | OFun s => (o, apply_fun s r)
  | OHead index limit =>
      let index' := index + 1 in
      (OHead index' limit, Ok (if index' <=? limit then Some r else None))
  | OTail q limit =>
      let q' := if Z.of_nat (length q) =? limit then tl q else q in
      (OTail (q' ++ [r]) limit, Ok None)
  | OTotal e name total =>
      match eval_f64 e (rdata r) with
      | Unm => (o, Unm)
      | Panic => (o, Panic)
      | other =>
          let v := match other with Ok x => x | _ => f_zero end in
          let total' := fadd total v in
          (OTotal e name total', Ok (Some (rput name (from_float total') r)))
      end
  end.

Definition op_drain (o : opstate) : list record :=
  match o with OTail q _ => q | _ => [] end.
