(** S-expression codec between the harness and the model, and the model's
    entry point [run_case]. *)
From Coq Require Import List ZArith NArith Bool Floats.SpecFloat.
From AG Require Cli.
From AG Require Import Str F64 Value Json Expr Ops Pipeline Filter Output Display Term Grammar.
From AG Require Print PrintSyn.
Import ListNotations.
Open Scope string_scope.
Open Scope list_scope.
Open Scope Z_scope.

Inductive sexp : Type :=
| SAtom (quoted : bool) (s : str)
| SList (l : list sexp).

Definition sym (n : String.string) : sexp := SAtom false (lit n).
Definition sstr (s : str) : sexp := SAtom true s.
Definition sint (z : Z) : sexp := SAtom false (Z_to_str z).

Definition is_sym (x : sexp) (n : String.string) : bool :=
  match x with SAtom false s => str_eqb s (lit n) | _ => false end.

Definition atom_Z (x : sexp) : option Z :=
  match x with
  | SAtom false s =>
      let '(neg, ds) := strip_minus s in
      if all_digits ds && negb (is_nil ds)
      then Some (if neg then - Z.of_N (digits_val ds 0%N) else Z.of_N (digits_val ds 0%N))
      else None
  | _ => None
  end.

Definition atom_str (x : sexp) : option str :=
  match x with SAtom true s => Some s | _ => None end.

Definition atom_bool (x : sexp) : option bool :=
  if is_sym x "t" then Some true else if is_sym x "f" then Some false else None.

Fixpoint map_opt {A B} (f : A -> option B) (l : list A) : option (list B) :=
  match l with
  | [] => Some []
  | x :: r => match f x, map_opt f r with
              | Some y, Some ys => Some (y :: ys)
              | _, _ => None
              end
  end.

(** *** decoding *)
Fixpoint dec_value (x : sexp) {struct x} : option value :=
  match x with
  | SAtom false _ => if is_sym x "n" then Some VNone else None
  | SList [h; a] =>
      if is_sym h "s" then option_map VStr (atom_str a)
      else if is_sym h "i" then option_map VInt (atom_Z a)
      else if is_sym h "f" then option_map (fun z => VFloat (f_of_bits z)) (atom_Z a)
      else if is_sym h "b" then option_map VBool (atom_bool a)
      else if is_sym h "d" then option_map VDate (atom_Z a)
      else if is_sym h "u" then option_map VDur (atom_Z a)
      else if is_sym h "a" then
        match a with
        | SList l => option_map VArr
            ((fix go (l : list sexp) : option (list value) :=
                match l with
                | [] => Some []
                | y :: r => match dec_value y, go r with
                            | Some v, Some vs => Some (v :: vs)
                            | _, _ => None end
                end) l)
        | _ => None
        end
      else if is_sym h "o" then
        match a with
        | SList l => option_map (fun kvs => VObj (fold_left (fun m kv => put (fst kv) (snd kv) m) kvs []))
            ((fix go (l : list sexp) : option (list (str * value)) :=
                match l with
                | [] => Some []
                | SList [k; y] :: r =>
                    match atom_str k, dec_value y, go r with
                    | Some k, Some v, Some vs => Some ((k, v) :: vs)
                    | _, _, _ => None end
                | _ => None
                end) l)
        | _ => None
        end
      else None
  | _ => None
  end.

Definition dec_ref (x : sexp) : option vref :=
  match x with
  | SList [h; a] =>
      if is_sym h "k" then option_map RField (atom_str a)
      else if is_sym h "ix" then option_map RIndex (atom_Z a)
      else None
  | _ => None
  end.

Definition dec_cmpop (x : sexp) : option cmpop :=
  if is_sym x "eq" then Some CEq else if is_sym x "neq" then Some CNeq
  else if is_sym x "gt" then Some CGt else if is_sym x "lt" then Some CLt
  else if is_sym x "gte" then Some CGte else if is_sym x "lte" then Some CLte else None.

Definition dec_arop (x : sexp) : option arop :=
  if is_sym x "add" then Some AAdd else if is_sym x "sub" then Some ASub
  else if is_sym x "mul" then Some AMul else if is_sym x "div" then Some ADiv else None.

Fixpoint dec_expr (x : sexp) {struct x} : option expr :=
  match x with
  | SAtom false _ => if is_sym x "err" then Some EError else None
  | SList (h :: args) =>
      if is_sym h "col" then
        match args with
        | hd :: refs =>
            match atom_str hd, map_opt dec_ref refs with
            | Some hs, Some rs => Some (ECol hs rs)
            | _, _ => None
            end
        | _ => None
        end
      else if is_sym h "lit" then
        match args with [v] => option_map EVal (dec_value v) | _ => None end
      else if is_sym h "not" then
        match args with [a] => option_map ENot (dec_expr a) | _ => None end
      else if is_sym h "cmp" then
        match args with
        | [o; a; b] => match dec_cmpop o, dec_expr a, dec_expr b with
                       | Some o, Some a, Some b => Some (ECmp o a b)
                       | _, _, _ => None end
        | _ => None
        end
      else if is_sym h "ar" then
        match args with
        | [o; a; b] => match dec_arop o, dec_expr a, dec_expr b with
                       | Some o, Some a, Some b => Some (EArith o a b)
                       | _, _, _ => None end
        | _ => None
        end
      else if is_sym h "lg" then
        match args with
        | [o; a; b] =>
            let oo := if is_sym o "and" then Some LAnd else if is_sym o "or" then Some LOr else None in
            match oo, dec_expr a, dec_expr b with
            | Some o, Some a, Some b => Some (ELogic o a b)
            | _, _, _ => None end
        | _ => None
        end
      else if is_sym h "call" then
        match args with
        | f :: es =>
            match atom_str f,
                  (fix go (l : list sexp) : option (list expr) :=
                     match l with
                     | [] => Some []
                     | y :: r => match dec_expr y, go r with
                                 | Some v, Some vs => Some (v :: vs)
                                 | _, _ => None end
                     end) es with
            | Some f, Some es => Some (ECall f es)
            | _, _ => None
            end
        | _ => None
        end
      else if is_sym h "if" then
        match args with
        | [c; a; b] => match dec_expr c, dec_expr a, dec_expr b with
                       | Some c, Some a, Some b => Some (EIf c a b)
                       | _, _, _ => None end
        | _ => None
        end
      else None
  | _ => None
  end.

Definition dec_opt {A} (f : sexp -> option A) (x : sexp) : option (option A) :=
  if is_sym x "none" then Some None
  else match x with
       | SList [h; a] => if is_sym h "some" then option_map Some (f a) else None
       | _ => None
       end.

Definition dec_aggfn (x : sexp) : option aggfn :=
  match x with
  | SList [h; a] =>
      if is_sym h "count" then option_map FCount (dec_opt dec_expr a)
      else if is_sym h "sum" then option_map FSum (dec_expr a)
      else if is_sym h "min" then option_map FMin (dec_expr a)
      else if is_sym h "max" then option_map FMax (dec_expr a)
      else if is_sym h "avg" then option_map FAvg (dec_expr a)
      else if is_sym h "distinct" then option_map FDistinct (dec_expr a)
      else None
  | SList [h; p; a] =>
      if is_sym h "pct" then
        match atom_Z p, dec_expr a with
        | Some bits, Some e => Some (FPct (f_of_bits bits) e)
        | _, _ => None
        end
      else None
  | _ => None
  end.

Definition dec_named {A} (f : sexp -> option A) (x : sexp) : option (str * A) :=
  match x with
  | SList [n; a] => match atom_str n, f a with
                    | Some n, Some a => Some (n, a)
                    | _, _ => None end
  | _ => None
  end.

Definition dec_stage (x : sexp) : option stage :=
  match x with
  | SAtom false _ => if is_sym x "unmodelled" then Some SUnmodelled else None
  | SList (h :: args) =>
      if is_sym h "json" then
        match args with [f] => option_map SJson (dec_opt dec_expr f) | _ => None end
      else if is_sym h "logfmt" then
        match args with [f] => option_map SLogfmt (dec_opt dec_expr f) | _ => None end
      else if is_sym h "parse" then
        match args with
        | [p; SList fs; f; nd; nc] =>
            match atom_str p, map_opt atom_str fs, dec_opt dec_expr f, atom_bool nd, atom_bool nc with
            | Some p, Some fs, Some f, Some nd, Some nc => Some (SParse p fs f nd nc)
            | _, _, _, _, _ => None
            end
        | _ => None
        end
      else if is_sym h "split" then
        match args with
        | [s; f; o] =>
            match atom_str s, dec_opt dec_expr f, dec_opt dec_expr o with
            | Some s, Some f, Some o => Some (SSplit s f o)
            | _, _, _ => None
            end
        | _ => None
        end
      else if is_sym h "fields" then
        match args with
        | m :: fs =>
            let mo := if is_sym m "only" then Some true else if is_sym m "except" then Some false else None in
            match mo, map_opt atom_str fs with
            | Some m, Some fs => Some (SFields m fs)
            | _, _ => None
            end
        | _ => None
        end
      else if is_sym h "where" then
        match args with [e] => option_map SWhere (dec_expr e) | _ => None end
      else if is_sym h "let" then
        match args with
        | [e; n] => match dec_expr e, atom_str n with
                    | Some e, Some n => Some (SLet e n) | _, _ => None end
        | _ => None
        end
      else if is_sym h "timeslice" then
        match args with
        | [e; d; n] => match dec_expr e, atom_Z d, dec_opt atom_str n with
                       | Some e, Some d, Some n => Some (STimeslice e d n)
                       | _, _, _ => None end
        | _ => None
        end
      else if is_sym h "limit" then
        match args with [n] => option_map SLimit (atom_Z n) | _ => None end
      else if is_sym h "total" then
        match args with
        | [e; n] => match dec_expr e, atom_str n with
                    | Some e, Some n => Some (STotal e n) | _, _ => None end
        | _ => None
        end
      else if is_sym h "agg" then
        match args with
        | [SList fns; SList keys] =>
            match map_opt (dec_named dec_aggfn) fns, map_opt (dec_named dec_expr) keys with
            | Some fns, Some keys => Some (SAgg fns keys)
            | _, _ => None
            end
        | _ => None
        end
      else if is_sym h "sort" then
        match args with
        | [SList keys; d] =>
            let dd := if is_sym d "asc" then Some false else if is_sym d "desc" then Some true else None in
            match map_opt dec_expr keys, dd with
            | Some keys, Some d => Some (SSort keys d)
            | _, _ => None
            end
        | _ => None
        end
      else None
  | _ => None
  end.

Fixpoint dec_filter (x : sexp) {struct x} : option filter :=
  match x with
  | SList (h :: args) =>
      let go := (fix go (l : list sexp) : option (list filter) :=
                   match l with
                   | [] => Some []
                   | y :: r => match dec_filter y, go r with
                               | Some v, Some vs => Some (v :: vs)
                               | _, _ => None end
                   end) in
      if is_sym h "and" then option_map FAnd (go args)
      else if is_sym h "or" then option_map FOr (go args)
      else if is_sym h "not" then
        match args with [a] => option_map FNot (dec_filter a) | _ => None end
      else if is_sym h "kw" then
        match args with
        | [k; t] =>
            let kk := if is_sym k "exact" then Some KExact else if is_sym k "wild" then Some KWild else None in
            match kk, atom_str t with
            | Some k, Some t => Some (FKw k t)
            | _, _ => None
            end
        | _ => None
        end
      else None
  | _ => None
  end.

(** *** encoding *)
Fixpoint enc_value (v : value) : sexp :=
  match v with
  | VStr s => SList [sym "s"; sstr s]
  | VInt z => SList [sym "i"; sint z]
  | VFloat f => SList [sym "f"; sint (bits_of_f f)]
  | VBool b => SList [sym "b"; sym (if b then "t" else "f")]
  | VDate ns => SList [sym "d"; sint ns]
  | VDur ns => SList [sym "u"; sint ns]
  | VObj kvs =>
      SList [sym "o"; SList ((fix go (l : list (str * value)) :=
                                match l with
                                | [] => []
                                | (k, x) :: r => SList [sstr k; enc_value x] :: go r
                                end) kvs)]
  | VArr l => SList [sym "a"; SList (map enc_value l)]
  | VNone => sym "n"
  end.

Definition enc_data (d : data) : sexp :=
  SList (sym "rec" :: map (fun kv => SList [sstr (fst kv); enc_value (snd kv)]) d).

Definition enc_run (r : run_result) : sexp :=
  let e := SList [sym "err"; sint (Z.of_nat (nerr r))] in
  match out r with
  | Ok (ORows rows) => SList (sym "rows" :: e :: map (fun r => enc_data (rdata r)) rows)
  | Ok (OTable t) =>
      SList (sym "table" :: e :: SList (sym "cols" :: map sstr (t_cols t)) :: map enc_data (t_rows t))
  | Err => sym "err"
  | Panic => sym "panic"
  | Unm => sym "unm"
  end.

(** *** printing a run the way the chosen output mode does *)
Inductive outmode := MLogfmt | MFormat (f : str) | MLegacy (term : option (nat * nat)).

Definition table_row_data (cols : list str) (d : data) : data :=
  fold_left (fun acc c => put c (match get c d with Some v => v | None => VNone end) acc) cols [].

Definition print_rows (f : data -> res str) (rows : list data) : res str :=
  fold_right (fun d racc => do s <- f d; do acc <- racc; Ok (s ++ 10%N :: acc)) (Ok []) rows.

Definition print_run (m : outmode) (r : run_result) : sexp :=
  let txt :=
    match out r with
    | Ok (ORows rows) =>
        match m with
        | MLogfmt => print_rows logfmt_row (map rdata rows)
        | MFormat f => match fmt_parse f with
                       | Some ps => print_rows (fmt_subst ps) (map rdata rows)
                       | None => Err
                       end
        | MLegacy term => do ls <- format_records (mkRP [] [] term) rows; Ok (flat_map (fun l => l ++ [10%N]) ls)
        end
    | Ok (OTable t) =>
        match m with
        | MLogfmt => print_rows logfmt_row (map (table_row_data (t_cols t)) (t_rows t))
        | MFormat f => match fmt_parse f with
                       | Some ps => print_rows (fmt_subst ps) (map (table_row_data (t_cols t)) (t_rows t))
                       | None => Err
                       end
        | MLegacy term => do st <- format_aggregate (mkPP [] term) t; Ok (snd st)
        end
    | Err => Err | Panic => Panic | Unm => Unm
    end in
  match txt with
  | Ok s => SList [sym "text"; SList [sym "err"; sint (Z.of_nat (nerr r))]; sstr s]
  | Err => sym "reject"
  | Panic => sym "panic"
  | Unm => sym "unm"
  end.

Definition dec_mode (x : sexp) : option outmode :=
  if is_sym x "logfmt" then Some MLogfmt
  else match x with
       | SList [h; a] =>
           if is_sym h "format" then option_map MFormat (atom_str a)
           else if is_sym h "legacy" then
             if is_sym a "none" then Some (MLegacy None) else None
           else None
       | SList [h; w; hh] =>
           if is_sym h "legacy" then
             match atom_Z w, atom_Z hh with
             | Some w, Some hh => Some (MLegacy (Some (Z.to_nat w, Z.to_nat hh)))
             | _, _ => None
             end
           else None
       | _ => None
       end.

(** *** entry point *)
Definition run_case (c : sexp) : sexp :=
  match c with
  | SList [h; f; SList stages; SList lines] =>
      if is_sym h "run" then
        match dec_filter f, map_opt dec_stage stages, map_opt atom_str lines with
        | Some f, Some stages, Some lines =>
            if forallb stage_ok stages
            then enc_run (run_pipeline (fmatches f) stages lines)
            else sym "reject"
        | _, _, _ => sym "bad-case"
        end
      else sym "bad-case"
  | SList [h; q] =>
      if is_sym h "accepts" then
        match atom_str q with
        | Some q => match accepts q with Some _ => sym "accept" | None => sym "reject" end
        | None => sym "bad-case"
        end
      else sym "bad-case"
  | SList [h; q; SList lines] =>
      if is_sym h "runq" then
        match atom_str q, map_opt atom_str lines with
        | Some q, Some lines =>
            match accepts q with
            | Some (f, stages) => enc_run (run_pipeline (fmatches f) stages lines)
            | None => sym "reject"
            end
        | _, _ => sym "bad-case"
        end
      else sym "bad-case"
  | SList [h; o; f] =>
      if is_sym h "cli" then
        let opt x := if is_sym x "none" then Some None else option_map Some (atom_str x) in
        match opt o, opt f with
        | Some o, Some f =>
            match Cli.select_mode o f with
            | Some Cli.CLegacy => sym "legacy"
            | Some Cli.CJson => sym "json"
            | Some Cli.CLogfmt => sym "logfmt"
            | Some (Cli.CFormat t) => SList [sym "format"; sstr t]
            | None => sym "reject"
            end
        | _, _ => sym "bad-case"
        end
      else sym "bad-case"
  | SList [h; w0; w1; SList [b1; b2; b3; b4]; SList [s1; s2; s3; s4; s5; s6; s7; s8; s9]; ww; SList stages] =>
      if is_sym h "pps" then
        (* as (pp ...) with the synonym / default choices of PrintSyn.sopts *)
        match atom_str w0, atom_str w1, dec_filter ww, map_opt dec_stage stages,
              atom_Z s1, atom_Z s2, atom_Z s3, atom_Z s4, atom_Z s6 with
        | Some w0, Some w1, Some f, Some stages, Some n1, Some n2, Some n3, Some n4, Some n6 =>
            let o := Print.mkPO w0 w1 (is_sym b1 "true") (is_sym b2 "true") (is_sym b3 "true") (is_sym b4 "true") in
            let so := PrintSyn.mkSO (Z.to_N n1) (Z.to_N n2) (Z.to_N n3) (Z.to_N n4) (is_sym s5 "true") (Z.to_N n6)
                                    (is_sym s7 "true") (is_sym s8 "true") (is_sym s9 "true") in
            let fs := match f with FAnd l => l | _ => [f] end in
            let stages := map (fun st => match st with
                                         | SAgg fns keys => SAgg fns (map (fun ke => (Print.pp o 0 (snd ke), snd ke)) keys)
                                         | _ => st end) stages in
            let wf := Print.popts_ok o && forallb Print.wf_filter fs
                      && forallb (PrintSyn.wf_stage_syn o so) stages && forallb stage_ok stages in
            match PrintSyn.pp_query_syn o so fs stages with
            | Some t => SList [sym "text"; sym (if wf then "wf" else "notwf"); sstr t]
            | None => sym "unprintable"
            end
        | _, _, _, _, _, _, _, _, _ => sym "bad-case"
        end
      else sym "bad-case"
  | SList [h; w0; w1; SList [b1; b2; b3; b4]; ww; SList stages] =>
      if is_sym h "pp" then
        (* (pp ws0 ws1 (words neq dq full) filter (stages)): the query text the printer of the round-trip
           theorems writes for this AST, and whether the AST is within the theorems' hypotheses *)
        match atom_str w0, atom_str w1, dec_filter ww, map_opt dec_stage stages with
        | Some w0, Some w1, Some f, Some stages =>
            let o := Print.mkPO w0 w1 (is_sym b1 "true") (is_sym b2 "true") (is_sym b3 "true") (is_sym b4 "true") in
            let fs := match f with FAnd l => l | _ => [f] end in
            (* the header of a key column IS the source text of its expression *)
            let stages := map (fun st => match st with
                                         | SAgg fns keys => SAgg fns (map (fun ke => (Print.pp o 0 (snd ke), snd ke)) keys)
                                         | _ => st end) stages in
            let wf := Print.popts_ok o && forallb Print.wf_filter fs
                      && forallb (Print.wf_stage o) stages && forallb stage_ok stages in
            match Print.pp_query o fs stages with
            | Some t => SList [sym "text"; sym (if wf then "wf" else "notwf"); sstr t]
            | None => sym "unprintable"
            end
        | _, _, _, _ => sym "bad-case"
        end
      else sym "bad-case"
  | SList [h; hh; ww; bytes] =>
      if is_sym h "term" then
        match atom_Z hh, atom_Z ww, atom_str bytes with
        | Some hh, Some ww, Some bytes =>
            let sc := term_run (blank_screen (Z.to_nat hh) (Z.to_nat ww)) (lex bytes) in
            SList (sym "screen" :: SList [sym "cursor"; sint (Z.of_nat (sc_r sc)); sint (Z.of_nat (sc_c sc))]
                   :: SList [sym "other"; sint (Z.of_nat (length (List.filter (fun t => match t with TOther => true | _ => false end) (lex bytes))))]
                   :: map sstr (screen_text sc))
        | _, _, _ => sym "bad-case"
        end
      else sym "bad-case"
  | SList [h; m; f; SList stages; SList lines] =>
      if is_sym h "print" then
        match dec_mode m, dec_filter f, map_opt dec_stage stages, map_opt atom_str lines with
        | Some m, Some f, Some stages, Some lines =>
            if forallb stage_ok stages
            then print_run m (run_pipeline (fmatches f) stages lines)
            else sym "reject"
        | _, _, _, _ => sym "bad-case"
        end
      else sym "bad-case"
  | _ => sym "bad-case"
  end.
