(** limit: head keeps [firstn], tail keeps the last N (src/operator/limit.rs). *)
From Coq Require Import List ZArith Bool Lia Arith.
From AG Require Import Str F64 Value Json Expr Ops Pipeline Stream_proofs.
Import ListNotations.
Open Scope Z_scope.

Definition lastn {A} (n : nat) (l : list A) : list A := skipn (length l - n) l.

Lemma head_run recs : forall i lim,
  0 <= i ->
  op_run (OHead i lim) recs =
  (OHead (i + Z.of_nat (length recs)) lim, firstn (Z.to_nat (lim - i)) recs, O, no_bad).
Proof.
  induction recs as [|r recs IH]; intros i lim Hi.
  - cbn. rewrite Z.add_0_r. now destruct (Z.to_nat (lim - i)).
  - cbn [op_run op_step length]. rewrite IH by lia.
    replace (i + 1 + Z.of_nat (length recs)) with (i + Z.of_nat (S (length recs))) by lia.
    destruct (Z.leb_spec (i + 1) lim) as [Hle|Hgt].
    + replace (Z.to_nat (lim - i)) with (S (Z.to_nat (lim - (i + 1)))) by lia. reflexivity.
    + replace (Z.to_nat (lim - i)) with O by lia.
      replace (Z.to_nat (lim - (i + 1))) with O by lia. reflexivity.
Qed.

Lemma tl_skipn1 {A} (l : list A) : tl l = skipn 1 l.
Proof. now destruct l. Qed.

Lemma tail_run recs : forall q lim,
  (length q <= Z.to_nat lim)%nat -> 0 < lim ->
  op_run (OTail q lim) recs = (OTail (lastn (Z.to_nat lim) (q ++ recs)) lim, [], O, no_bad).
Proof.
  induction recs as [|r recs IH]; intros q lim Hq Hlim.
  - cbn. rewrite app_nil_r. unfold lastn.
    replace (length q - Z.to_nat lim)%nat with O by lia. reflexivity.
  - cbn [op_run op_step].
    destruct (Z.eqb_spec (Z.of_nat (length q)) lim) as [Heq|Hne].
    + (* full: evict the oldest *)
      rewrite IH; [| rewrite app_length, tl_skipn1, skipn_length; cbn; lia | lia].
      f_equal. f_equal. f_equal. unfold lastn.
      rewrite <- app_assoc. cbn [app].
      destruct q as [|x q']; [cbn in Heq; lia|].
      cbn [tl app length].
      replace (S (length (q' ++ r :: recs)) - Z.to_nat lim)%nat
        with (S (length (q' ++ r :: recs) - Z.to_nat lim))%nat.
      * reflexivity.
      * rewrite app_length in *. cbn [length] in *. lia.
    + rewrite IH; [| rewrite app_length; cbn; lia | lia].
      now rewrite <- app_assoc.
Qed.

(** the complete output of a limit stage *)
Theorem limit_head n recs :
  0 < n -> stage_out (build_op (SLimit n)) recs = firstn (Z.to_nat n) recs.
Proof.
  intros Hn. unfold stage_out, build_op.
  destruct (Z.ltb_spec 0 n); [|lia].
  rewrite head_run by lia. cbn [op_drain]. rewrite app_nil_r. now rewrite Z.sub_0_r.
Qed.

Theorem limit_tail n recs :
  n < 0 -> stage_out (build_op (SLimit n)) recs = lastn (Z.to_nat (- n)) recs.
Proof.
  intros Hn. unfold stage_out, build_op.
  destruct (Z.ltb_spec 0 n); [lia|].
  rewrite tail_run; [| cbn; lia | lia].
  cbn [op_drain app]. now replace (Z.abs n) with (- n) by lia.
Qed.

Theorem limit_short n recs :
  n <> 0 -> (length recs <= Z.to_nat (Z.abs n))%nat ->
  stage_out (build_op (SLimit n)) recs = recs.
Proof.
  intros Hn Hlen. destruct (Z.lt_trichotomy n 0) as [Hneg|[H0|Hpos]]; [| lia |].
  - rewrite limit_tail by lia. unfold lastn.
    replace (length recs - Z.to_nat (- n))%nat with O by lia. reflexivity.
  - rewrite limit_head by lia. apply firstn_all2. lia.
Qed.

(** limit never reports an error line and never leaves the modelled fragment *)
Theorem limit_clean n recs :
  n <> 0 ->
  let '(_, _, nerr, b) := op_run (build_op (SLimit n)) recs in nerr = O /\ b = no_bad.
Proof.
  intros Hn. unfold build_op. destruct (Z.ltb_spec 0 n).
  - rewrite head_run by lia. auto.
  - rewrite tail_run; [auto | cbn; lia | lia].
Qed.

(** chained limits compose (a corollary of streaming = staging) *)
Theorem limit_chain a b recs :
  staged [build_op (SLimit a); build_op (SLimit b)] recs =
  stage_out (build_op (SLimit b)) (stage_out (build_op (SLimit a)) recs).
Proof. reflexivity. Qed.

(** the order of the surviving rows is the input order: both results are
    contiguous segments of the input *)
Lemma firstn_segment {A} n (l : list A) : exists post, l = firstn n l ++ post.
Proof. exists (skipn n l). symmetry. apply firstn_skipn. Qed.
Lemma lastn_segment {A} n (l : list A) : exists pre, l = pre ++ lastn n l.
Proof. exists (firstn (length l - n) l). symmetry. apply firstn_skipn. Qed.

Lemma lastn_length {A} n (l : list A) : length (lastn n l) = Nat.min n (length l).
Proof. unfold lastn. rewrite skipn_length. lia. Qed.

(** *** the limit behind the PreAggAdapter *)
Lemma run_rows_op_run o recs : forall acc,
  (let '(_, _, _, b) := op_run o recs in b = no_bad) ->
  run_rows o recs acc =
  let '(o', outs, _, _) := op_run o recs in (o', Ok (rev acc ++ outs)).
Proof.
  revert o. induction recs as [|r recs IH]; intros o acc Hb.
  - cbn. now rewrite app_nil_r.
  - cbn [run_rows op_run] in *. destruct (op_step o r) as [o1 out].
    specialize (IH o1).
    destruct (op_run o1 recs) as [[[o2 outs] n] b].
    destruct out as [[r'|]| | |].
    + rewrite IH by exact Hb. cbn. now rewrite <- app_assoc.
    + now rewrite IH by exact Hb.
    + now rewrite IH by exact Hb.
    + destruct b; discriminate.
    + destruct b; discriminate.
Qed.

Theorem limit_after_table n t :
  n <> 0 ->
  exists cols,
    adapter_process (SLimit n) t =
    Ok (mkT cols (map rdata (stage_out (build_op (SLimit n)) (map (fun d => mkRec d []) (t_rows t))))).
Proof.
  intros Hn. unfold adapter_process, stage_out.
  pose proof (limit_clean n (map (fun d => mkRec d []) (t_rows t)) Hn) as Hc.
  rewrite run_rows_op_run.
  - destruct (op_run (build_op (SLimit n)) (map (fun d => mkRec d []) (t_rows t))) as [[[o' outs] ne] b].
    cbn [bind app rev]. eexists. reflexivity.
  - destruct (op_run (build_op (SLimit n)) (map (fun d => mkRec d []) (t_rows t))) as [[[o' outs] ne] b].
    tauto.
Qed.

(** *** static checks *)
Theorem limit_default : typecheck_limit None = Some 10.
Proof. reflexivity. Qed.

Theorem limit_static f n :
  typecheck_limit (Some f) = Some n ->
  n <> 0 /\ f_is_integral f = true /\ stage_ok (SLimit n) = true.
Proof.
  unfold typecheck_limit.
  destruct (f_is_finite f) eqn:Hfin; cbn [negb]; [|discriminate].
  destruct (ftrunc_Z f =? 0) eqn:Hz; cbn [orb]; [discriminate|].
  destruct (f_is_integral f) eqn:Hi; cbn [negb]; [|discriminate].
  intros H; injection H as <-.
  apply Z.eqb_neq in Hz.
  assert (Hnz : f_to_i64_sat f <> 0).
  { unfold f_to_i64_sat.
    destruct f as [s|s| |s m e]; cbn in Hfin; try discriminate; try (cbn in Hz; lia).
    set (t := ftrunc_Z (Floats.SpecFloat.S754_finite s m e)) in *.
    destruct (t <? i64_min) eqn:H1; [unfold i64_min; lia|].
    destruct (i64_max <? t) eqn:H2; [unfold i64_max; lia|]. exact Hz. }
  repeat split; [exact Hnz|].
  cbn [stage_ok]. now apply Z.eqb_neq in Hnz as ->.
Qed.

Theorem limit_static_zero f : ftrunc_Z f = 0 -> typecheck_limit (Some f) = None.
Proof.
  intros H. unfold typecheck_limit. destruct (f_is_finite f); cbn [negb]; [|reflexivity].
  now rewrite H.
Qed.

Theorem limit_static_fraction f : f_is_integral f = false -> typecheck_limit (Some f) = None.
Proof.
  intros H. unfold typecheck_limit. destruct (f_is_finite f); cbn [negb]; [|reflexivity].
  rewrite H. cbn [negb]. now rewrite orb_true_r.
Qed.
