(** Dates have their text inside the model: the three code paths of src/data.rs and what they print. *)
From Coq Require Import List ZArith NArith Bool.
From AG Require Import Str F64 Value Json Expr Ops Pipeline Output Display DateFmt DatePaths DateFmt_proofs.
Import ListNotations.
Open Scope Z_scope.

(** text / logfmt / format printers (ValueDisplay): chrono's Display *)
Theorem render_date ns : render (VDate ns) = Ok (fmt_date_display ns).
Proof. reflexivity. Qed.

(** [Display for Value] ([to_string]: concat, length, ...): chrono's Debug *)
Theorem to_display_date ns : to_display (VDate ns) = Ok (fmt_date_debug ns).
Proof. reflexivity. Qed.

Theorem concat_date ns : eval_func (lit "concat") [VDate ns] = Ok (VStr (fmt_date_debug ns)).
Proof.
  change (eval_func (lit "concat") [VDate ns])
    with (bind (concat_displays [VDate ns]) (fun s => Ok (VStr s))).
  cbn [concat_displays]. rewrite to_display_date. cbn [bind]. now rewrite app_nil_r.
Qed.

(** the JSON serializer: [to_rfc3339] *)
Theorem ser_date_rfc3339 : ser_date = fmt_rfc3339.
Proof. reflexivity. Qed.
Theorem value_json_date fu ns : value_json fu (VDate ns) = JStr (fmt_rfc3339 ns).
Proof. reflexivity. Qed.

(** no two instants share a text, on any of the three paths *)
Theorem render_date_injective a b : render (VDate a) = render (VDate b) -> a = b.
Proof.
  rewrite !render_date. intros H. injection H as H. apply (f_equal unfmt) in H. unfold fmt_date_display in H.
  rewrite !unfmt_fmt_gen in H by reflexivity. now injection H.
Qed.
Theorem to_display_date_injective a b : to_display (VDate a) = to_display (VDate b) -> a = b.
Proof.
  rewrite !to_display_date. intros H. injection H as H. apply (f_equal unfmt) in H. unfold fmt_date_debug in H.
  rewrite !unfmt_fmt_gen in H by reflexivity. now injection H.
Qed.
Theorem value_json_date_injective fu a b : value_json fu (VDate a) = value_json fu (VDate b) -> a = b.
Proof. rewrite !value_json_date. intros H. injection H as H. now apply rfc3339_injective. Qed.

(** the JSON text of a date, given back to parseDate, is the same date (years 1678..2261: what the
    model of parseDate reads) *)
Theorem json_date_parses_back fu ns s :
  date_ok ns = true -> year_parseable ns = true ->
  value_json fu (VDate ns) = JStr s -> eval_func (lit "parseDate") [VStr s] = Ok (VDate ns).
Proof.
  intros Hok Hy H. rewrite value_json_date in H. injection H as <-.
  pose proof (rfc3339_roundtrip ns Hok Hy) as Hp.
  unfold eval_func.
  repeat match goal with
         | |- context [is_name ?f ?n] =>
             let b := eval vm_compute in (is_name f n) in change (is_name f n) with b; cbv iota
         end.
  rewrite Hp. reflexivity.
Qed.

Print Assumptions render_date.
Print Assumptions to_display_date.
Print Assumptions value_json_date.
Print Assumptions json_date_parses_back.
