(** C09: the Sorter returns an ordered permutation under one total order. *)
From Coq Require Import List ZArith NArith Bool Lia Permutation Sorted.
From AG Require Import Str F64 Value Json Expr Ops Pipeline Str_proofs F64_proofs F64_exact_proofs Value_proofs Sort_proofs.
Import ListNotations.

(** the comparison used by Sorter::emit, as a boolean "not after" relation *)
Definition sort_le (s : sorter) (a b : data) : bool := cmp_le (sort_cmp s a b).

(** the domain on which Ord is a total preorder: every cell, and every key
    value that evaluates, is made of well-formed numbers (any integer, any
    well-formed double: [small_ints], Value_proofs.v) *)
Definition row_ok (keys : list expr) (d : data) : Prop :=
  Forall (fun kv => small_ints (snd kv) = true) d /\
  Forall (fun k => match eval k d with Ok v => small_ints v = true | _ => True end) keys.

(** 1. the output is a permutation of the input rows *)
Theorem sorter_perm : forall s, Permutation (t_rows (s_emit s)) (s_rows s).
Proof.
  intros s. unfold s_emit. cbn [t_rows]. apply isort_perm.
Qed.

Theorem sorter_cols : forall s, t_cols (s_emit s) = s_cols s.
Proof. intros s. reflexivity. Qed.

(** *** generic helpers *)
Lemma cmp_then_opp : forall a b, cmp_then (CompOpp a) (CompOpp b) = CompOpp (cmp_then a b).
Proof. intros a b. destruct a; reflexivity. Qed.

Lemma tri_le : forall a b c, tri a b c -> cmp_le a = true -> cmp_le c = true -> cmp_le b = true.
Proof.
  intros a b c (H1 & H2 & H3) Ha Hc.
  destruct a.
  - rewrite (H1 eq_refl). exact Hc.
  - destruct c.
    + rewrite <- (H2 eq_refl). reflexivity.
    + rewrite (H3 eq_refl eq_refl). reflexivity.
    + discriminate Hc.
  - discriminate Ha.
Qed.

(** the laws for the flipped comparison follow from the laws and antisymmetry *)
Lemma tri_flip : forall {A} (D : A -> Prop) (f : A -> A -> comparison),
  (forall x y, f y x = CompOpp (f x y)) ->
  (forall x y z, D x -> D y -> D z -> tri (f x y) (f x z) (f y z)) ->
  forall x y z, D x -> D y -> D z -> tri (f y x) (f z x) (f z y).
Proof.
  intros A D f Hanti Htri x y z Dx Dy Dz.
  destruct (Htri y x z Dy Dx Dz) as (P1 & _ & _).
  destruct (Htri z y x Dz Dy Dx) as (Q1 & _ & Q3).
  unfold tri. repeat split.
  - intros E. rewrite (Hanti y z), (Hanti x z). rewrite (P1 E). reflexivity.
  - intros E. symmetry. exact (Q1 E).
  - intros E1 E2. exact (Q3 E2 E1).
Qed.

(** *** key_cmp *)
Definition res_ok (r : res value) : Prop :=
  match r with Ok v => small_ints v = true | _ => True end.
Definition opt_ok (o : option value) : Prop :=
  match o with Some v => small_ints v = true | None => True end.

Lemma key_cmp_antisym : forall a b, key_cmp b a = CompOpp (key_cmp a b).
Proof.
  intros a b. destruct a, b; cbn [key_cmp CompOpp]; try reflexivity. apply vcmp_antisym.
Qed.

Lemma key_cmp_tri : forall x y z, res_ok x -> res_ok y -> res_ok z ->
  tri (key_cmp x y) (key_cmp x z) (key_cmp y z).
Proof.
  intros x y z Sx Sy Sz.
  destruct x as [a| | |], y as [b| | |], z as [c| | |]; cbn [key_cmp res_ok] in *;
    try (apply vcmp_laws; assumption);
    unfold tri; repeat split; intros; congruence.
Qed.

Lemma ocmp_opt_antisym : forall a b, ocmp_opt b a = CompOpp (ocmp_opt a b).
Proof.
  intros a b. destruct a, b; cbn [ocmp_opt CompOpp]; try reflexivity. apply vcmp_antisym.
Qed.

Lemma ocmp_opt_tri : forall x y z, opt_ok x -> opt_ok y -> opt_ok z ->
  tri (ocmp_opt x y) (ocmp_opt x z) (ocmp_opt y z).
Proof.
  intros x y z Sx Sy Sz.
  destruct x as [a|], y as [b|], z as [c|]; cbn [ocmp_opt opt_ok] in *;
    try (apply vcmp_laws; assumption);
    unfold tri; repeat split; intros; congruence.
Qed.

(** *** ordering / ordering_ref *)
Definition keys_ok (keys : list expr) (d : data) : Prop :=
  Forall (fun k => match eval k d with Ok v => small_ints v = true | _ => True end) keys.
Definition cells_ok (d : data) : Prop := Forall (fun kv => small_ints (snd kv) = true) d.

Lemma ordering_antisym : forall keys a b, ordering keys b a = CompOpp (ordering keys a b).
Proof.
  induction keys as [|k ks IH]; intros a b; cbn [ordering]; [reflexivity|].
  rewrite (key_cmp_antisym (eval k a) (eval k b)), IH. apply cmp_then_opp.
Qed.

Lemma ordering_ref_antisym : forall cols a b, ordering_ref cols b a = CompOpp (ordering_ref cols a b).
Proof.
  induction cols as [|k ks IH]; intros a b; cbn [ordering_ref]; [reflexivity|].
  rewrite (ocmp_opt_antisym (get k a) (get k b)), IH. apply cmp_then_opp.
Qed.

Lemma ordering_tri : forall keys a b c, keys_ok keys a -> keys_ok keys b -> keys_ok keys c ->
  tri (ordering keys a b) (ordering keys a c) (ordering keys b c).
Proof.
  induction keys as [|k ks IH]; intros a b c Ka Kb Kc; cbn [ordering].
  - unfold tri. repeat split; intros; congruence.
  - inversion Ka as [|k1 ks1 Ka1 Ka2]; subst.
    inversion Kb as [|k2 ks2 Kb1 Kb2]; subst.
    inversion Kc as [|k3 ks3 Kc1 Kc2]; subst.
    apply tri_then.
    + apply key_cmp_tri; assumption.
    + apply IH; assumption.
Qed.

Lemma get_ok : forall k (d : data), cells_ok d -> opt_ok (get k d).
Proof.
  intros k d H. induction H as [|[k' v'] t Hv Ht IH]; cbn [get opt_ok].
  - exact I.
  - destruct (str_eqb k k'); [exact Hv|exact IH].
Qed.

Lemma ordering_ref_tri : forall cols a b c, cells_ok a -> cells_ok b -> cells_ok c ->
  tri (ordering_ref cols a b) (ordering_ref cols a c) (ordering_ref cols b c).
Proof.
  induction cols as [|k ks IH]; intros a b c Ka Kb Kc; cbn [ordering_ref].
  - unfold tri. repeat split; intros; congruence.
  - apply tri_then.
    + apply ocmp_opt_tri; apply get_ok; assumption.
    + apply IH; assumption.
Qed.

Lemma sort_cmp_tri : forall s a b c,
  row_ok (s_keys s) a -> row_ok (s_keys s) b -> row_ok (s_keys s) c ->
  tri (sort_cmp s a b) (sort_cmp s a c) (sort_cmp s b c).
Proof.
  intros s a b c [Ca Ka] [Cb Kb] [Cc Kc]. unfold sort_cmp.
  apply tri_then.
  - destruct (s_desc s).
    + apply (tri_flip (keys_ok (s_keys s)) (ordering (s_keys s))); try assumption.
      * apply ordering_antisym.
      * apply ordering_tri.
    + apply ordering_tri; assumption.
  - destruct (s_desc s && match s_keys s with [] => true | _ => false end).
    + apply (tri_flip cells_ok (ordering_ref (s_cols s))); try assumption.
      * apply ordering_ref_antisym.
      * apply ordering_ref_tri.
    + apply ordering_ref_tri; assumption.
Qed.

(** order laws of the row comparison *)
Lemma sort_cmp_antisym : forall s a b, sort_cmp s b a = CompOpp (sort_cmp s a b).
Proof.
  intros s a b. unfold sort_cmp.
  assert (T : (if s_desc s && match s_keys s with [] => true | _ => false end
               then ordering_ref (s_cols s) a b else ordering_ref (s_cols s) b a)
            = CompOpp (if s_desc s && match s_keys s with [] => true | _ => false end
               then ordering_ref (s_cols s) b a else ordering_ref (s_cols s) a b)).
  { destruct (s_desc s && match s_keys s with [] => true | _ => false end).
    - apply (ordering_ref_antisym (s_cols s) b a).
    - apply (ordering_ref_antisym (s_cols s) a b). }
  cbv zeta. rewrite T.
  destruct (s_desc s).
  - rewrite (ordering_antisym (s_keys s) b a). apply cmp_then_opp.
  - rewrite (ordering_antisym (s_keys s) a b). apply cmp_then_opp.
Qed.

Lemma sort_le_total : forall s a b, sort_le s a b = true \/ sort_le s b a = true.
Proof.
  intros s a b. unfold sort_le. rewrite (sort_cmp_antisym s a b).
  destruct (sort_cmp s a b); cbn; auto.
Qed.

Lemma sort_le_trans : forall s a b c,
  row_ok (s_keys s) a -> row_ok (s_keys s) b -> row_ok (s_keys s) c ->
  sort_le s a b = true -> sort_le s b c = true -> sort_le s a c = true.
Proof.
  intros s a b c Ra Rb Rc Hab Hbc. unfold sort_le in *.
  exact (tri_le _ _ _ (sort_cmp_tri s a b c Ra Rb Rc) Hab Hbc).
Qed.

(** [isort] sorts as soon as the order is transitive on a domain containing the input *)
Section IsortDom.
  Context {A : Type} (le : A -> A -> bool) (P : A -> Prop).
  Hypothesis Htot : forall x y, le x y = true \/ le y x = true.
  Hypothesis Htr : forall x y z, P x -> P y -> P z -> le x y = true -> le y z = true -> le x z = true.

  Lemma insert_sorted_dom : forall a l, P a -> Forall P l ->
    StronglySorted (fun x y => le x y = true) l ->
    StronglySorted (fun x y => le x y = true) (insert le a l).
  Proof.
    intros a l Pa. induction l as [|y t IH]; intros Pl Hs; cbn [insert].
    - constructor; constructor.
    - inversion Pl as [|y0 t0 Py Pt]; subst.
      inversion Hs as [|y' t' Hst Hall]; subst.
      rewrite Forall_forall in Hall, Pt.
      destruct (le a y) eqn:E.
      + constructor; [exact Hs|].
        constructor; [exact E|].
        rewrite Forall_forall. intros z Hz.
        apply Htr with y; [exact Pa|exact Py|apply Pt; exact Hz|exact E|apply Hall; exact Hz].
      + constructor; [apply IH; [rewrite Forall_forall; exact Pt|exact Hst]|].
        rewrite Forall_forall. intros z Hz.
        apply (Permutation_in z (insert_perm le a t)) in Hz.
        destruct Hz as [Hz|Hz].
        * subst z. destruct (Htot a y) as [H1|H1]; [congruence|exact H1].
        * apply Hall; exact Hz.
  Qed.

  Lemma isort_sorted_dom : forall l, Forall P l ->
    StronglySorted (fun x y => le x y = true) (isort le l).
  Proof.
    intros l. induction l as [|a t IH]; intros Pl.
    - constructor.
    - inversion Pl as [|a0 t0 Pa Pt]; subst.
      rewrite isort_cons. apply insert_sorted_dom; [exact Pa| |apply IH; exact Pt].
      rewrite Forall_forall in Pt |- *. intros x Hx. apply Pt.
      apply (Permutation_in x (isort_perm le t)); exact Hx.
  Qed.

  Lemma sorted_perm_unique' : forall l1 l2,
      Permutation l1 l2 ->
      StronglySorted (fun x y => le x y = true) l1 ->
      StronglySorted (fun x y => le x y = true) l2 ->
      (forall x y, In x l1 -> In y l1 -> le x y = true -> le y x = true -> x = y) ->
      l1 = l2.
  Proof.
    intros l1. induction l1 as [|a t1 IH]; intros l2 HP S1 S2 Hanti.
    - apply Permutation_nil in HP. symmetry; exact HP.
    - destruct l2 as [|b t2].
      + apply Permutation_sym in HP. apply Permutation_nil in HP. discriminate HP.
      + inversion S1 as [|a' t1' S1t A1]; subst.
        inversion S2 as [|b' t2' S2t A2]; subst.
        rewrite Forall_forall in A1, A2.
        assert (Hab : a = b).
        { assert (Ha : In a (b :: t2)) by (apply (Permutation_in a HP); left; reflexivity).
          assert (Hb : In b (a :: t1))
            by (apply (Permutation_in b (Permutation_sym HP)); left; reflexivity).
          destruct Ha as [Ha|Ha]; [symmetry; exact Ha|].
          destruct Hb as [Hb|Hb]; [exact Hb|].
          apply Hanti.
          - left; reflexivity.
          - right; exact Hb.
          - apply A1; exact Hb.
          - apply A2; exact Ha. }
        subst b. f_equal.
        apply IH.
        * apply Permutation_cons_inv with a; exact HP.
        * exact S1t.
        * exact S2t.
        * intros x y Hx Hy. apply Hanti; right; assumption.
  Qed.
End IsortDom.

Lemma StronglySorted_impl : forall {A} (R R' : A -> A -> Prop) l,
  (forall x y, R x y -> R' x y) -> StronglySorted R l -> StronglySorted R' l.
Proof.
  intros A R R' l HR H. induction H as [|a l Hs IH Hall]; constructor; [exact IH|].
  rewrite Forall_forall in Hall |- *. intros x Hx. apply HR. apply Hall. exact Hx.
Qed.

(** 2. the output is sorted: every row is "not after" every later row *)
Theorem sorter_sorted : forall s,
  Forall (row_ok (s_keys s)) (s_rows s) ->
  StronglySorted (fun a b => sort_le s a b = true) (t_rows (s_emit s)).
Proof.
  intros s Hok. unfold s_emit. cbn [t_rows].
  apply (isort_sorted_dom (fun a b => cmp_le (sort_cmp s a b)) (row_ok (s_keys s))).
  - intros x y. exact (sort_le_total s x y).
  - intros x y z Px Py Pz. exact (sort_le_trans s x y z Px Py Pz).
  - exact Hok.
Qed.

(** ... in particular by the primary keys, in the requested direction *)
Theorem sorter_primary_order : forall s,
  Forall (row_ok (s_keys s)) (s_rows s) ->
  StronglySorted (fun a b => (if s_desc s then ordering (s_keys s) b a else ordering (s_keys s) a b) <> Gt)
                 (t_rows (s_emit s)).
Proof.
  intros s Hok.
  apply (StronglySorted_impl (fun a b => sort_le s a b = true)); [|apply sorter_sorted; exact Hok].
  intros a b. unfold sort_le, sort_cmp.
  destruct (if s_desc s then ordering (s_keys s) b a else ordering (s_keys s) a b);
    cbn [cmp_then cmp_le]; intros H; congruence.
Qed.

(** 3. ties are broken by the remaining columns, so the result does not depend
    on the arrival order when no two distinct rows agree on the keys and on all columns *)
Theorem sorter_order_independent : forall keys desc cols rows rows',
  Permutation rows rows' ->
  Forall (row_ok keys) rows ->
  (forall a b, In a rows -> In b rows ->
      sort_cmp (mkS keys desc cols rows) a b = Eq -> a = b) ->
  t_rows (s_emit (mkS keys desc cols rows)) = t_rows (s_emit (mkS keys desc cols rows')).
Proof.
  intros keys desc cols rows rows' HP Hok Hinj.
  set (s := mkS keys desc cols rows).
  assert (Hok' : Forall (row_ok keys) rows').
  { rewrite Forall_forall in Hok |- *. intros x Hx. apply Hok.
    apply (Permutation_in x (Permutation_sym HP)); exact Hx. }
  unfold s_emit. cbn [t_rows s_rows].
  change (fun a b => cmp_le (sort_cmp (mkS keys desc cols rows') a b))
    with (fun a b => cmp_le (sort_cmp s a b)).
  change (fun a b => cmp_le (sort_cmp (mkS keys desc cols rows) a b))
    with (fun a b => cmp_le (sort_cmp s a b)).
  apply (sorted_perm_unique' (fun a b => cmp_le (sort_cmp s a b))).
  - apply Permutation_trans with rows; [apply isort_perm|].
    apply Permutation_trans with rows'; [exact HP|].
    apply Permutation_sym; apply isort_perm.
  - apply (isort_sorted_dom _ (row_ok keys)).
    + intros x y. exact (sort_le_total s x y).
    + intros x y z Px Py Pz. exact (sort_le_trans s x y z Px Py Pz).
    + exact Hok.
  - apply (isort_sorted_dom _ (row_ok keys)).
    + intros x y. exact (sort_le_total s x y).
    + intros x y z Px Py Pz. exact (sort_le_trans s x y z Px Py Pz).
    + exact Hok'.
  - intros x y Hx Hy H1 H2.
    apply Hinj.
    + apply (Permutation_in x (isort_perm (fun a b => cmp_le (sort_cmp s a b)) rows)); exact Hx.
    + apply (Permutation_in y (isort_perm (fun a b => cmp_le (sort_cmp s a b)) rows)); exact Hy.
    + fold s. rewrite (sort_cmp_antisym s x y) in H2.
      destruct (sort_cmp s x y); [reflexivity|discriminate H2|discriminate H1].
Qed.

(** 4. a key that cannot be evaluated sorts after every value (ascending) *)
Lemma key_cmp_err_last : forall v, key_cmp (Ok v) Err = Lt /\ key_cmp Err (Ok v) = Gt /\ key_cmp (@Err value) Err = Eq.
Proof. intros v. repeat split; reflexivity. Qed.

(** 5. the fixed type order None < Bool < numbers < Str < Date < Dur < Arr < Obj, from the rank table *)
Lemma type_order :
  forall b z f s d u l o,
    vcmp VNone (VBool b) = Lt /\ vcmp (VBool b) (VInt z) = Lt /\ vcmp (VBool b) (VFloat f) = Lt /\
    vcmp (VInt z) (VStr s) = Lt /\ vcmp (VFloat f) (VStr s) = Lt /\ vcmp (VStr s) (VDate d) = Lt /\
    vcmp (VDate d) (VDur u) = Lt /\ vcmp (VDur u) (VArr l) = Lt /\ vcmp (VArr l) (VObj o) = Lt.
Proof. intros b z f s d u l o. repeat split; reflexivity. Qed.

(** 6. the implicit sort after an aggregation: by the aggregate columns,
    descending; ascending, with the time column first, when the bare column
    _timeslice is a key: that column is named by the header of the first such key *)
Lemma find_existsb : forall {A} (f : A -> bool) l,
  existsb f l = match find f l with Some _ => true | None => false end.
Proof.
  intros A f l. induction l as [|x t IH]; cbn [existsb find]; [reflexivity|].
  destruct (f x); [reflexivity|exact IH].
Qed.

Lemma implicit_sort_plain : forall fns keys,
  existsb (fun ke => match snd ke with ECol h [] => str_eqb h (lit "_timeslice") | _ => false end) keys = false ->
  implicit_sort fns keys = SSort (map (fun nf => ECol (fst nf) []) fns) true.
Proof.
  intros fns keys H. unfold implicit_sort. cbv zeta. rewrite find_existsb in H.
  destruct (find _ keys); [discriminate H|reflexivity].
Qed.

Lemma implicit_sort_timeslice_key : forall fns keys ke,
  find (fun ke => match snd ke with ECol h [] => str_eqb h (lit "_timeslice") | _ => false end) keys = Some ke ->
  implicit_sort fns keys = SSort (ECol (fst ke) [] :: map (fun nf => ECol (fst nf) []) fns) false.
Proof.
  intros fns keys ke H. unfold implicit_sort. cbv zeta. rewrite H. reflexivity.
Qed.

Lemma implicit_sort_timeslice : forall fns keys,
  existsb (fun ke => match snd ke with ECol h [] => str_eqb h (lit "_timeslice") | _ => false end) keys = true ->
  exists ke,
    find (fun ke => match snd ke with ECol h [] => str_eqb h (lit "_timeslice") | _ => false end) keys = Some ke /\
    implicit_sort fns keys = SSort (ECol (fst ke) [] :: map (fun nf => ECol (fst nf) []) fns) false.
Proof.
  intros fns keys H. rewrite find_existsb in H.
  destruct (find _ keys) as [ke|] eqn:E; [|discriminate H].
  exists ke. split; [reflexivity|]. apply implicit_sort_timeslice_key. exact E.
Qed.

Print Assumptions sorter_perm.
Print Assumptions sorter_sorted.
Print Assumptions sorter_order_independent.
Print Assumptions sorter_primary_order.
Print Assumptions sort_le_trans.
