(** Aggregation, sorting, the PreAggAdapter, Pipeline::new and
    Pipeline::process (src/operator.rs, src/operator/sort.rs, src/lib.rs). *)
From Coq Require Import List ZArith NArith Bool Floats.SpecFloat.
From AG Require Import Str F64 Value Json Expr Ops.
From AG Require Generated.
From AG Require Ckms.
Import ListNotations.
Open Scope string_scope.
Open Scope list_scope.
Open Scope Z_scope.

(** ** accumulators *)
Inductive acc : Type :=
| ACount (n : Z) (cond : option expr)
| ASum (total : f64) (e : expr)
| AMin (m : option f64) (mi : option Z) (e : expr)     (* the other numbers (None until one is seen); the integers, kept exactly *)
| AMax (m : option f64) (mi : option Z) (e : expr)
| AAvg (total : f64) (n : Z) (e : expr)
| ADistinct (seen : list value) (e : expr)
| APct (vals : list f64) (p : f64) (e : expr).   (* CKMS sketch: contents only *)

Definition acc_empty (f : aggfn) : acc :=
  match f with
  | FCount c => ACount 0 c
  | FSum e => ASum f_zero e
  | FMin e => AMin None None e
  | FMax e => AMax None None e
  | FAvg e => AAvg f_zero 0 e
  | FDistinct e => ADistinct [] e
  | FPct p e => APct [] p e
  end.

Definition ok_or {A} (r : res A) (d : A) (k : A -> acc) (same : acc) : acc :=
  match r with Ok x => k x | _ => same end.

(** an integer argument (or text holding one) of min / max is tracked as an integer *)
Definition exact_int_of (r : res value) : option Z :=
  match r with
  | Ok (VInt i) => Some i
  | Ok (VStr s) => match from_string s with VInt i => Some i | _ => None end
  | _ => None
  end.
(** [Ord::min] / [Ord::max] on values *)
Definition vmin (a b : value) : value := match vcmp b a with Lt => b | _ => a end.
Definition vmax (a b : value) : value := match vcmp b a with Lt => a | _ => b end.
Definition minmax_emit (is_min : bool) (m : option f64) (mi : option Z) : value :=
  let of_floats := option_map from_float m in
  match mi, of_floats with
  | Some i, Some f => if is_min then vmin (VInt i) f else vmax (VInt i) f
  | Some i, None => VInt i
  | None, Some f => f
  | None, None => VNone
  end.

(** [AggregateFunction::process]; an evaluation error leaves the state as is *)
Definition acc_step (a : acc) (d : data) : acc :=
  match a with
  | ACount n None => ACount (n + 1) None
  | ACount n (Some c) =>
      match eval_bool c d with Ok true => ACount (n + 1) (Some c) | _ => a end
  | ASum t e => match eval_f64 e d with Ok v => ASum (fadd t v) e | _ => a end
  | AMin m mi e =>
      match eval_f64 e d with
      | Ok v => match exact_int_of (eval e d) with
                | Some i => AMin m (Some (match mi with Some s => Z.min i s | None => i end)) e
                | None => if f_is_nan v then a else
                          match m with Some s => if fltb v s then AMin (Some v) mi e else a | None => AMin (Some v) mi e end
                end
      | _ => a
      end
  | AMax m mi e =>
      match eval_f64 e d with
      | Ok v => match exact_int_of (eval e d) with
                | Some i => AMax m (Some (match mi with Some s => Z.max i s | None => i end)) e
                | None => if f_is_nan v then a else
                          match m with Some s => if fltb s v then AMax (Some v) mi e else a | None => AMax (Some v) mi e end
                end
      | _ => a
      end
  | AAvg t n e => match eval_f64 e d with Ok v => AAvg (fadd t v) (n + 1) e | _ => a end
  | ADistinct seen e =>
      match eval e d with
      | Ok v => if existsb (veqb v) seen then a else ADistinct (v :: seen) e
      | _ => a
      end
  | APct vals p e => match eval_f64 e d with Ok v => if f_is_nan v then a else APct (v :: vals) p e | _ => a end   (* a NaN has no rank *)
  end.

(** does processing this row hit the unmodelled fragment? *)
Definition acc_unm (a : acc) (d : data) : bool :=
  let isunm {A} (r : res A) := match r with Unm | Panic => true | _ => false end in
  match a with
  | ACount _ None => false
  | ACount _ (Some c) => isunm (eval_bool c d)
  | ASum _ e | AMin _ _ e | AMax _ _ e | AAvg _ _ e | APct _ _ e => isunm (eval_f64 e d)
  | ADistinct _ e => isunm (eval e d)
  end.

(** [emit]; a non-empty percentile is the CKMS oracle's business *)
Definition acc_emit (a : acc) : res value :=
  match a with
  | ACount n _ => Ok (VInt n)
  | ASum t _ => Ok (from_float t)
  | AMin m mi _ => Ok (minmax_emit true m mi)
  | AMax m mi _ => Ok (minmax_emit false m mi)
  | AAvg t n _ => Ok (if n =? 0 then VNone else from_float (fdiv t (f_of_Z n)))     (* no numeric value: None, not 0/0 *)
  | ADistinct seen _ => Ok (VInt (Z.of_nat (length seen)))
  | APct vals p _ =>
      (* percentile.rs [emit]: the CKMS sketch (Ckms.v) fed with the non-NaN values in arrival order *)
      Ok (match Ckms.ckms_run Ckms.ckms_error_f (rev vals) p with
          | Some (_, v) => from_float v
          | None => VNone
          end)
  end.

(** ** MultiGrouper *)
Record grouper := mkG {
  g_keys : list (str * expr);          (* header, expression *)
  g_fns : list (str * aggfn);          (* output name, function *)
  g_state : list (list value * list (str * acc)) }.   (* in first-seen order *)

Definition keys_eqb (a b : list value) : bool :=
  (fix go (a b : list value) :=
     match a, b with
     | [], [] => true
     | x :: a', y :: b' => veqb x y && go a' b'
     | _, _ => false
     end) a b.

Fixpoint keys_cmp (a b : list value) : comparison :=
  match a, b with
  | [], [] => Eq | [], _ :: _ => Lt | _ :: _, [] => Gt
  | x :: a', y :: b' => cmp_then (vcmp x y) (keys_cmp a' b')
  end.

Definition eval_key (d : data) (ke : str * expr) : value :=
  match eval (snd ke) d with Ok v => v | _ => VNone end.

(** one accumulator per distinct output name (a later duplicate replaces an
    earlier one, as collecting into a HashMap does) *)
Definition fresh_accs (fns : list (str * aggfn)) : list (str * acc) :=
  fold_left (fun m nf => put (fst nf) (acc_empty (snd nf)) m) fns [].

Fixpoint upd_group (k : list value) (d : data) (fns : list (str * aggfn))
         (st : list (list value * list (str * acc))) : list (list value * list (str * acc)) :=
  match st with
  | [] => [(k, map (fun na => (fst na, acc_step (snd na) d)) (fresh_accs fns))]
  | (k', accs) :: t =>
      if keys_eqb k k' then (k', map (fun na => (fst na, acc_step (snd na) d)) accs) :: t
      else (k', accs) :: upd_group k d fns t
  end.

Definition g_process_map (g : grouper) (d : data) : grouper :=
  let k := map (eval_key d) (g_keys g) in
  mkG (g_keys g) (g_fns g) (upd_group k d (g_fns g) (g_state g)).

(** stable insertion sort *)
Section Sort.
  Context {A : Type} (le : A -> A -> bool).   (* le x y = not (y strictly before x) *)
  Fixpoint insert (x : A) (l : list A) : list A :=
    match l with
    | [] => [x]
    | y :: t => if le x y then x :: l else y :: insert x t
    end.
  Definition isort (l : list A) : list A := fold_right insert [] l.
End Sort.

Definition cmp_le (c : comparison) : bool := match c with Gt => false | _ => true end.

Record table := mkT { t_cols : list str; t_rows : list data }.

Definition sequence_res {A} (l : list (res A)) : res (list A) :=
  fold_right (fun r acc => do x <- r; do xs <- acc; Ok (x :: xs)) (Ok []) l.

(** [MultiGrouper::emit] (groups in key order, after the fix) *)
Definition g_emit (g : grouper) : res table :=
  let cols := map fst (g_keys g) ++ map fst (g_fns g) in
  let groups := isort (fun a b => cmp_le (keys_cmp (fst a) (fst b))) (g_state g) in
  do rows <- sequence_res
       (map (fun ga =>
               let '(kvals, accs) := ga in
               let base := fold_left (fun m hv => put (fst hv) (snd hv) m)
                                     (combine (map fst (g_keys g)) kvals) [] in
               fold_left (fun rm na => do m <- rm; do v <- acc_emit (snd na); Ok (put (fst na) v m))
                         accs (Ok base))
            groups);
  Ok (mkT cols rows).

(** ** Sorter *)
Record sorter := mkS {
  s_keys : list expr; s_desc : bool; s_cols : list str; s_rows : list data }.

(** [Record::ordering]: a key that cannot be evaluated sorts after every
    value and equal to another failing key (after the fix) *)
Definition key_cmp (a b : res value) : comparison :=
  match a, b with
  | Ok x, Ok y => vcmp x y
  | Ok _, _ => Lt
  | _, Ok _ => Gt
  | _, _ => Eq
  end.

Fixpoint ordering (keys : list expr) (l r : data) : comparison :=
  match keys with
  | [] => Eq
  | k :: ks => cmp_then (key_cmp (eval k l) (eval k r)) (ordering ks l r)
  end.

(** [Record::ordering_ref] *)
Fixpoint ordering_ref (cols : list str) (l r : data) : comparison :=
  match cols with
  | [] => Eq
  | c :: cs => cmp_then (ocmp_opt (get c l) (get c r)) (ordering_ref cs l r)
  end.

Definition sort_cmp (s : sorter) (l r : data) : comparison :=
  let prim := if s_desc s then ordering (s_keys s) r l else ordering (s_keys s) l r in
  (* the tie-break by all columns is ascending, except for a keyless [sort desc] (fix 2c51787) *)
  cmp_then prim (if s_desc s && match s_keys s with [] => true | _ => false end
                 then ordering_ref (s_cols s) r l else ordering_ref (s_cols s) l r).

Definition s_emit (s : sorter) : table :=
  mkT (s_cols s) (isort (fun a b => cmp_le (sort_cmp s a b)) (s_rows s)).

Definition new_columns (cols : list str) (d : data) : list str :=
  (* data is key-sorted, so the new keys come out sorted *)
  filter (fun k => negb (existsb (str_eqb k) cols)) (map fst d).

Definition s_process_record (s : sorter) (d : data) : sorter :=
  mkS (s_keys s) (s_desc s) (s_cols s ++ new_columns (s_cols s) d) (s_rows s ++ [d]).

Definition s_process_table (s : sorter) (t : table) : sorter :=
  mkS (s_keys s) (s_desc s) (t_cols t) (t_rows t).

(** ** aggregate operators *)
Inductive aggop : Type :=
| AGroup (g : grouper)
| ASorter (s : sorter)
| AAdapter (st : stage) (state : table).

Fixpoint run_rows (o : opstate) (rows : list record) (acc : list record) : opstate * res (list record) :=
  match rows with
  | [] => (o, Ok (rev acc))
  | r :: rest =>
      let '(o', out) := op_step o r in
      match out with
      | Ok (Some r') => run_rows o' rest (r' :: acc)
      | Ok None | Err => run_rows o' rest acc       (* unwrap_or(None) *)
      | Panic => (o', Panic)
      | Unm => (o', Unm)
      end
  end.

(** [PreAggAdapter::process] *)
Definition adapter_process (st : stage) (t : table) : res table :=
  let recs := map (fun d => mkRec d []) (t_rows t) in
  let '(o, out) := run_rows (build_op st) recs [] in
  do outs <- out;
  let datas := map rdata (outs ++ op_drain o) in
  let present k := existsb (fun d => has k d) datas in
  let kept := filter present (t_cols t) in
  let allkeys := fold_left (fun acc d => fold_left (fun a kv => put (fst kv) tt a) d acc) datas [] in
  let newc := filter (fun k => negb (existsb (str_eqb k) kept)) (map fst allkeys) in
  Ok (mkT (kept ++ newc) datas).

Definition any_unm_row (a : aggop) (d : data) : bool :=
  match a with
  | AGroup g =>
      existsb (fun ke => match eval (snd ke) d with Unm | Panic => true | _ => false end) (g_keys g)
      || existsb (fun nf => acc_unm (acc_empty (snd nf)) d) (g_fns g)
  | _ => false
  end.

Definition agg_process_table (a : aggop) (t : table) : res aggop :=
  match a with
  | AGroup g =>
      if existsb (any_unm_row a) (t_rows t) then Unm else
      Ok (AGroup (fold_left g_process_map (t_rows t) (mkG (g_keys g) (g_fns g) [])))
  | ASorter s => Ok (ASorter (s_process_table s t))
  | AAdapter st _ => do t' <- adapter_process st t; Ok (AAdapter st t')
  end.

Definition agg_process_record (a : aggop) (d : data) : res aggop :=
  match a with
  | AGroup g => Ok (AGroup (g_process_map g d))
  | ASorter s => Ok (ASorter (s_process_record s d))
  | AAdapter _ _ => Panic     (* "PreAgg adaptor should only be used after aggregates" *)
  end.

Definition agg_emit (a : aggop) : res table :=
  match a with
  | AGroup g => g_emit g
  | ASorter s =>
      (* a key outside the modelled fragment makes the whole order unmodelled *)
      if existsb (fun d => existsb (fun k => match eval k d with Unm | Panic => true | _ => false end)
                                   (s_keys s)) (s_rows s)
      then Unm else Ok (s_emit s)
  | AAdapter _ t => Ok t
  end.

(** ** Pipeline::new *)
Definition implicit_sort (fns : list (str * aggfn)) (keys : list (str * expr)) : stage :=
  let ts := lit "_timeslice" in
  let is_ts (ke : str * expr) :=
    match snd ke with ECol h [] => str_eqb h ts | _ => false end in
  let cols := map (fun nf => ECol (fst nf) []) fns in
  (* the time column is named after the text its key was written with (fix af5ecd9) *)
  match find is_ts keys with
  | Some ke => SSort (ECol (fst ke) [] :: cols) false
  | None => SSort cols true
  end.

Definition mk_aggop (s : stage) : aggop :=
  match s with
  | SAgg fns keys => AGroup (mkG keys fns [])
  | SSort keys desc => ASorter (mkS keys desc [] [])
  | other => AAdapter other (mkT [] [])
  end.

Fixpoint compile_walk (stages : list stage) (in_agg : bool)
         (pre : list opstate) (post : list aggop) : list opstate * list aggop :=
  match stages with
  | [] => (rev pre, rev post)
  | s :: rest =>
      match s with
      | SAgg fns keys =>
          let needs_sort := match rest with [] => true | SLimit _ :: _ => true | _ => false end in
          let post' := if needs_sort then mk_aggop (implicit_sort fns keys) :: mk_aggop s :: post
                       else mk_aggop s :: post in
          compile_walk rest true pre post'
      | SSort _ _ => compile_walk rest true pre (mk_aggop s :: post)
      | _ =>
          if in_agg then compile_walk rest in_agg pre (mk_aggop s :: post)
          else compile_walk rest in_agg (build_op s :: pre) post
      end
  end.

Definition compile (stages : list stage) : list opstate * list aggop :=
  compile_walk stages false [] [].

(** static checks (typecheck.rs) *)
Definition opt_expr_ok (o : option expr) : bool :=
  match o with Some e => expr_ok e | None => true end.

Definition aggfn_ok (f : aggfn) : bool :=
  match f with
  | FCount c => opt_expr_ok c
  | FSum e | FMin e | FMax e | FAvg e | FDistinct e | FPct _ e => expr_ok e
  end.

Definition stage_ok (s : stage) : bool :=
  match s with
  | SJson f | SLogfmt f => opt_expr_ok f
  | SParse pat fields f _ _ => Nat.eqb (count_stars pat) (length fields) && opt_expr_ok f
  | SSplit sep f o => negb (match sep with [] => true | _ => false end) && opt_expr_ok f && opt_expr_ok o
  | SFields _ _ => true
  | SWhere e => expr_ok e && match e with EVal (VBool _) => true | EVal _ => false | _ => true end
  | SLet e _ => expr_ok e
  | STimeslice e _ _ => expr_ok e
  | SLimit n => negb (n =? 0)
  | STotal e _ => expr_ok e
  | SAgg fns keys => forallb (fun nf => aggfn_ok (snd nf)) fns && forallb (fun ke => expr_ok (snd ke)) keys
  | SSort keys _ => forallb expr_ok keys
  | SUnmodelled => true
  end.

(** the count of [limit] as typecheck.rs sees it: an optional f64 from the
    grammar's [double]; absent means DEFAULT_LIMIT *)
Definition typecheck_limit (count : option f64) : option Z :=
  match count with
  | None => Some Generated.default_limit
  | Some f =>
      if negb (f_is_finite f) then None                       (* fract() is NaN *)
      else if (ftrunc_Z f =? 0) || negb (f_is_integral f) then None
      else Some (f_to_i64_sat f)                              (* limit as i64 *)
  end.

(** ** Pipeline::process *)
Inductive output : Type :=
| ORows (rows : list record)
| OTable (t : table).

Record run_result := mkRun { out : res output; nerr : nat }.

(** thread one record through the pre-aggregate operators *)
Fixpoint proc_preagg (ops : list opstate) (r : record)
  : list opstate * res (option record) * nat :=
  match ops with
  | [] => ([], Ok (Some r), O)
  | o :: rest =>
      let '(o', out) := op_step o r in
      match out with
      | Ok (Some r') =>
          let '(rest', res, n) := proc_preagg rest r' in (o' :: rest', res, n)
      | Ok None => (o' :: rest, Ok None, O)
      | Err => (o' :: rest, Ok None, 1%nat)        (* eprintln!("error: ...") *)
      | Panic => (o' :: rest, Panic, O)
      | Unm => (o' :: rest, Unm, O)
      end
  end.

(** sticky flags: did any row panic / leave the modelled fragment? *)
Record bad := mkBad { b_panic : bool; b_unm : bool }.
Definition no_bad : bad := mkBad false false.
Definition bad_or (a b : bad) : bad := mkBad (b_panic a || b_panic b) (b_unm a || b_unm b).
Definition is_bad (b : bad) : bool := b_panic b || b_unm b.

Record pstate := mkP {
  p_ops : list opstate; p_sent : list record (* reversed *); p_err : nat; p_bad : bad }.

(** a row whose processing panics or leaves the modelled fragment is dropped
    and remembered in [p_bad]; the run as a whole is then reported as such *)
Definition feed (st : pstate) (r : record) : pstate :=
  let '(ops', res, n) := proc_preagg (p_ops st) r in
  match res with
  | Ok (Some r') => mkP ops' (r' :: p_sent st) (p_err st + n) (p_bad st)
  | Ok None | Err => mkP ops' (p_sent st) (p_err st + n) (p_bad st)
  | Panic => mkP ops' (p_sent st) (p_err st + n) (bad_or (p_bad st) (mkBad true false))
  | Unm => mkP ops' (p_sent st) (p_err st + n) (bad_or (p_bad st) (mkBad false true))
  end.

(** the drain loop: remove(0), push the drained rows through the remaining ops *)
Fixpoint drain_loop (fuel : nat) (st : pstate) : pstate :=
  match fuel with
  | O => st
  | S f =>
      match p_ops st with
      | [] => st
      | o :: rest =>
          let st' := fold_left feed (op_drain o) (mkP rest (p_sent st) (p_err st) (p_bad st)) in
          drain_loop f st'
      end
  end.

Definition run_preagg (ops : list opstate) (recs : list record) : pstate :=
  let st := fold_left feed recs (mkP ops [] O no_bad) in
  drain_loop (S (length ops)) st.

(** *** the stage-by-stage reference semantics of one operator instance *)
Fixpoint op_run (o : opstate) (recs : list record) : opstate * list record * nat * bad :=
  match recs with
  | [] => (o, [], O, no_bad)
  | r :: rest =>
      let '(o1, out) := op_step o r in
      let '(o2, outs, n, b) := op_run o1 rest in
      match out with
      | Ok (Some r') => (o2, r' :: outs, n, b)
      | Ok None => (o2, outs, n, b)
      | Err => (o2, outs, S n, b)
      | Panic => (o2, outs, n, bad_or (mkBad true false) b)
      | Unm => (o2, outs, n, bad_or (mkBad false true) b)
      end
  end.

(** everything the operator lets through for the complete input, drained *)
Definition stage_out (o : opstate) (recs : list record) : list record :=
  let '(o', outs, _, _) := op_run o recs in outs ++ op_drain o'.

(** [run_agg_pipeline] *)
Fixpoint run_agg_rest (t : table) (rest : list aggop) : res table :=
  match rest with
  | [] => Ok t
  | a :: rest' =>
      do a' <- agg_process_table a t;
      do t' <- agg_emit a';
      run_agg_rest t' rest'
  end.

(** how many rows an operator fails on: the `error:` lines of an adapter that follows a mere sort (fix 64df92c:
    a row dropped after a sort alone is reported like anywhere before an aggregation) *)
Fixpoint count_errs (o : opstate) (rows : list record) : nat :=
  match rows with
  | [] => O
  | r :: rest =>
      let '(o', out) := op_step o r in
      match out with
      | Err => S (count_errs o' rest)
      | Ok _ => count_errs o' rest
      | Panic | Unm => O
      end
  end.

Definition adapter_errs (st : stage) (t : table) : nat :=
  count_errs (build_op st) (map (fun d => mkRec d []) (t_rows t)).

(** the adapters report until the first real aggregation; after it rows are dropped silently *)
Fixpoint post_errs (t : table) (rest : list aggop) : nat :=
  match rest with
  | [] => O
  | AGroup _ :: _ => O
  | a :: rest' =>
      (match a with AAdapter st _ => adapter_errs st t | _ => O end) +
      match agg_process_table a t with
      | Ok a' => match agg_emit a' with Ok t' => post_errs t' rest' | _ => O end
      | _ => O
      end
  end.

(** the line without its terminator: what the filter looks at (fix 0a8f710) *)
Definition chomp (l : str) : str :=
  match rev l with
  | 10%N :: r => rev r
  | _ => l
  end.

Definition run_pipeline (filter_ok : str -> bool) (stages : list stage) (lines : list str)
  : run_result :=
  let '(pre, post) := compile stages in
  let recs := map (fun l => mkRec [] l) (filter (fun l => filter_ok (chomp l)) lines) in
  let st := run_preagg pre recs in
  if b_panic (p_bad st) then mkRun Panic (p_err st)
  else if b_unm (p_bad st) then mkRun Unm (p_err st)
  else
      let sent := rev (p_sent st) in
      match post with
      | [] => mkRun (Ok (ORows sent)) (p_err st)
      | head :: rest =>
          if existsb (fun r => any_unm_row head (rdata r)) sent then mkRun Unm (p_err st) else
          let hd := fold_left (fun ra r => do a <- ra; agg_process_record a (rdata r)) sent (Ok head) in
          let r :=
            do head' <- hd;
            do t <- agg_emit head';
            do t' <- run_agg_rest t rest;
            Ok (OTable t') in
          let perr := match head, hd with
                      | ASorter _, Ok head' => match agg_emit head' with Ok t => post_errs t rest | _ => O end
                      | _, _ => O
                      end in
          mkRun r (p_err st + perr)
      end.
