(** Every spelling of an aggregation, a sort and a field expression is read back by the operator
    parser as exactly that stage. *)
From Coq Require Import List ZArith NArith Bool Lia Arith.
From AG Require Import Str F64 Value Json Expr Ops Pipeline Filter Grammar Print Roundtrip_proofs FilterRoundtrip_proofs.
From AG Require Spelling_proofs Str_proofs.
Import ListNotations.
Open Scope string_scope.
Open Scope list_scope.
Open Scope nat_scope.

(** * characters *)
Lemma ident_not_ws c : is_ident_char c = true -> is_ws c = false.
Proof.
  intros H. destruct (is_ws c) eqn:E; [|reflexivity]. exfalso.
  assert (Hc : (c = 9 \/ c = 10 \/ c = 11 \/ c = 12 \/ c = 13 \/ c = 32 \/ c = 133 \/ c = 160 \/ c = 5760
               \/ c = 8192 \/ c = 8193 \/ c = 8194 \/ c = 8195 \/ c = 8196 \/ c = 8197 \/ c = 8198 \/ c = 8199
               \/ c = 8200 \/ c = 8201 \/ c = 8202 \/ c = 8232 \/ c = 8233 \/ c = 8239 \/ c = 8287 \/ c = 12288)%N).
  { unfold is_ws in E.
    repeat (apply orb_true_iff in E as [E|E]);
      try (apply andb_true_iff in E as [E1 E2]; apply N.leb_le in E1, E2; lia);
      try (apply N.eqb_eq in E; lia). }
  repeat (destruct Hc as [Hc|Hc]; [subst c; vm_compute in H; discriminate H|]).
  subst c; vm_compute in H; discriminate H.
Qed.

Lemma ident_not_space c : is_ident_char c = true -> is_space c = false.
Proof.
  intros H. destruct (is_space c) eqn:E; [|reflexivity].
  apply space_cases in E. destruct E as [->|[->|[->| ->]]]; vm_compute in H; discriminate H.
Qed.

Lemma ident_not c v : is_ident_char c = true -> is_ident_char v = false -> (c =? v)%N = false.
Proof. intros H1 H2. destruct (N.eqb_spec c v) as [->|]; [congruence|reflexivity]. Qed.

Lemma space_not_ident c : is_space c = true -> is_ident_char c = false.
Proof. intros H. destruct (is_ident_char c) eqn:E; [|reflexivity]. apply ident_not_space in E. congruence. Qed.

(** * first / last character not whitespace: [trim] is the identity *)
Definition whd (s : str) : Prop := match s with [] => False | c :: _ => is_ws c = false end.
Definition wl (s : str) : Prop := whd (rev s).

Lemma whd_app s t : whd s -> whd (s ++ t).
Proof. destruct s; cbn; tauto. Qed.
Lemma wl_app s t : wl t -> wl (s ++ t).
Proof. unfold wl. rewrite rev_app_distr. apply whd_app. Qed.
Lemma wl_one c : is_ws c = false -> wl [c].
Proof. auto. Qed.
Lemma wl_cons c s : wl s -> wl (c :: s).
Proof. apply (wl_app [c]). Qed.

Lemma trim_id s : whd s -> wl s -> trim s = s.
Proof.
  unfold wl, trim, trim_end. intros H1 H2.
  destruct s as [|c s]; [destruct H1|]. cbn [whd] in H1. cbn [trim_start]. rewrite H1.
  destruct (rev (c :: s)) as [|x xs] eqn:E; [destruct H2|]. cbn [whd] in H2. cbn [trim_start]. rewrite H2.
  rewrite <- E. apply rev_involutive.
Qed.

Lemma wl_ident_chars w : w <> [] -> forallb is_ident_char w = true -> wl w.
Proof.
  intros Hne H. unfold wl. destruct (rev w) as [|x xs] eqn:E.
  - apply (f_equal (@rev N)) in E. rewrite rev_involutive in E. contradiction.
  - cbn [whd]. apply ident_not_ws. rewrite forallb_forall in H. apply H. apply in_rev. rewrite E. now left.
Qed.

Section WS.
Variable o : popts.

Lemma whd_ident_text n : whd (ident_text o n).
Proof.
  unfold ident_text. destruct (safe_name n) eqn:Hs; [|reflexivity].
  destruct (safe_parts _ Hs) as (c & n' & -> & H1 & _). cbn [whd]. apply ident_not_ws. now apply starts_is_ident.
Qed.

Lemma wl_ident_text n : wl (ident_text o n).
Proof.
  unfold ident_text. destruct (safe_name n) eqn:Hs.
  - destruct (safe_parts _ Hs) as (c & n' & -> & H1 & H2 & _). apply wl_ident_chars; [discriminate|].
    cbn [forallb]. now rewrite (starts_is_ident _ H1).
  - apply wl_cons. apply wl_app. now apply wl_one.
Qed.

Lemma wl_ref r : wl (ref_text o r).
Proof.
  destruct r as [k|i]; cbn [ref_text]; apply wl_cons; [apply wl_ident_text|]. apply wl_app. now apply wl_one.
Qed.

Lemma wl_flat x refs : wl x -> wl (x ++ flat_map (ref_text o) refs).
Proof.
  revert x. induction refs as [|r refs IH]; intros x Hx; cbn [flat_map].
  - now rewrite app_nil_r.
  - rewrite app_assoc. apply IH. apply wl_app. apply wl_ref.
Qed.

Lemma wl_quote s : wl (quote_str o s).
Proof. unfold quote_str. apply wl_cons. apply wl_app. destruct (po_dq o); now apply wl_one. Qed.

Lemma wl_args l : wl (args_text o l).
Proof. unfold args_text. apply wl_cons. do 3 apply wl_app. now apply wl_one. Qed.

Lemma wl_par e : wl (par o e).
Proof. unfold par. apply wl_cons. do 3 apply wl_app. now apply wl_one. Qed.

Lemma ws_both e : wf_expr e = true -> (whd (body o e) /\ wl (body o e)) /\ forall n, whd (pp o n e) /\ wl (pp o n e).
Proof.
  induction e as [h refs|e1 IH|c l IHl r IHr|a l IHl r IHr|lo l IHl r IHr|f args|c t e2| v |];
    intros Hwf;
    (match goal with |- (whd (body o ?e) /\ _) /\ _ => assert (Hb : whd (body o e) /\ wl (body o e)) end;
     [|split; [exact Hb|intros n; rewrite pp_eq; destruct (parb o n _); [split; [reflexivity|apply wl_par]|exact Hb]]]);
    cbn [body].
  - split; [apply whd_app, whd_ident_text|apply wl_flat, wl_ident_text].
  - split; [reflexivity|]. apply wl_cons, wl_app. now apply IH.
  - cbn [wf_expr] in Hwf. apply andb_true_iff in Hwf as [Hl Hr].
    split; [apply whd_app; now apply IHl|do 4 apply wl_app; now apply IHr].
  - cbn [wf_expr] in Hwf. apply andb_true_iff in Hwf as [Hl Hr].
    destruct a; (split; [apply whd_app; now apply IHl|do 4 apply wl_app; now apply IHr]).
  - cbn [wf_expr] in Hwf. apply andb_true_iff in Hwf as [Hl Hr].
    destruct lo, (po_words o); (split; [apply whd_app; now apply IHl|do 4 apply wl_app; now apply IHr]).
  - cbn [wf_expr] in Hwf. apply andb_true_iff in Hwf as [Hs _]. apply andb_true_iff in Hs as [Hs _].
    split; [|apply wl_app, wl_args].
    destruct (safe_parts _ Hs) as (c & n' & -> & H1 & _). cbn [app whd]. apply ident_not_ws. now apply starts_is_ident.
  - split; [reflexivity|apply wl_app, wl_args].
  - destruct v as [s|z|fl|[|]|ns|ns|kvs|l|]; try discriminate Hwf; try (split; reflexivity).
    + split; [|apply wl_quote]. unfold quote_str. destruct (po_dq o); reflexivity.
    + destruct (Z_to_str_spec z) as (d & ds & E & Hd & _). cbn [wf_expr] in Hwf.
      apply andb_true_iff in Hwf as [Hz _]. apply Z.leb_le in Hz.
      destruct (Z.ltb_spec z 0); [lia|]. rewrite E. cbn [app].
      split.
      * cbn [whd]. cbn [forallb] in Hd. apply andb_true_iff in Hd as [Hd _]. now apply is_digit_not_ws.
      * apply wl_ident_chars; [discriminate|]. rewrite forallb_forall in *. intros x Hx. apply is_digit_ident. now apply Hd.
  - discriminate Hwf.
Qed.

Lemma trim_pp e : wf_expr e = true -> trim (pp o 0 e) = pp o 0 e.
Proof. intros H. apply trim_id; now apply ws_both. Qed.
End WS.

(** * the continuation of a stage *)
(** after optional whitespace, the continuation is over or is a pipe that is not the start of `||`
    ([single_pipe], from Print.v) *)
Definition kstop (k : str) : Prop := stage_stop k = true /\ single_pipe k = true.

Lemma kstop_cases k : kstop k ->
  skip_spaces k = [] \/ exists r, skip_spaces k = 124%N :: r /\ head_is 124 r = false.
Proof.
  unfold kstop, stage_stop, single_pipe. intros [H1 H2].
  destruct (skip_spaces k) as [|c r]; [now left|right].
  apply N.eqb_eq in H1. subst c. exists r. split; [reflexivity|].
  destruct r as [|d r]; [reflexivity|]. cbn [head_is]. now apply negb_true_iff in H2.
Qed.

Lemma skip_spaces_hd k c r : skip_spaces k = c :: r -> is_space c = false.
Proof.
  induction k as [|x k IH]; cbn [skip_spaces]; [discriminate|].
  destruct (is_space x) eqn:E; [exact IH|]. intros [= <- _]. exact E.
Qed.

Lemma kstop_hd k : kstop k -> hdp (fun c => is_space c || (c =? 124)%N) k = true.
Proof.
  intros H. destruct k as [|c k']; [reflexivity|]. cbn [hdp].
  destruct (is_space c) eqn:E; [reflexivity|].
  destruct (kstop_cases _ H) as [H0|(r & H0 & _)]; cbn [skip_spaces] in H0; rewrite E in H0; [discriminate|].
  injection H0 as -> _. reflexivity.
Qed.

Lemma kstop_stopb k : kstop k -> stopb k = true.
Proof.
  intros H. unfold stopb. apply andb_true_iff. split.
  - pose proof (kstop_hd _ H) as Hh. destruct k as [|c k']; [reflexivity|]. cbn [hdp] in Hh.
    apply orb_true_iff in Hh as [Hh|Hh]; rewrite Hh; rewrite ?orb_true_r; reflexivity.
  - destruct (kstop_cases _ H) as [->|(r & -> & Hr)]; [reflexivity|].
    cbn [stop_after_spaces]. rewrite Hr. reflexivity.
Qed.

Lemma kstop_fol k : kstop k -> fol 0 k.
Proof. intros H. apply stopb_fol. now apply kstop_stopb. Qed.

Lemma kstop_nid k : kstop k -> nid k = true.
Proof. intros H. apply afol_nid. eapply fol_afol. now apply kstop_fol. Qed.

Lemma kstop_eoq k : kstop k -> end_of_query k = POk tt k.
Proof.
  intros H. unfold end_of_query. destruct (kstop_cases _ H) as [->|(r & -> & _)]; reflexivity.
Qed.

Lemma kstop_skip k : kstop k -> kstop (skip_spaces k).
Proof.
  unfold kstop, stage_stop, single_pipe. now rewrite Roundtrip_proofs.skip_spaces_idem.
Qed.

(** no tag made of letters starts the continuation *)
Lemma kstop_no_tag k t c : kstop k -> lit t = c :: tl (lit t) -> is_ident_char c = true ->
  strip_prefix (lit t) (skip_spaces k) = None.
Proof.
  intros H E Hc. rewrite E.
  destruct (kstop_cases _ H) as [->|(r & -> & _)]; [reflexivity|].
  cbn [strip_prefix]. destruct (N.eqb_spec c 124) as [->|]; [discriminate Hc|reflexivity].
Qed.

Lemma kstop_no_comma k : kstop k -> ptag "," (skip_spaces k) = PFail.
Proof.
  intros H. unfold ptag. destruct (kstop_cases _ H) as [->|(r & -> & _)]; reflexivity.
Qed.

(** * consumed text *)
Lemma consumed_app x r : consumed (x ++ r) r = x.
Proof.
  unfold consumed. rewrite app_length. replace (length x + length r - length r) with (length x) by lia.
  rewrite firstn_app, Nat.sub_diag, firstn_all. cbn [firstn]. apply app_nil_r.
Qed.

Section Lists.
Variable o : popts.
Hypothesis Ho : popts_ok o = true.

Lemma Hw0 : forallb is_space (po_ws0 o) = true.
Proof. unfold popts_ok in Ho. apply andb_true_iff in Ho as [H _]. now apply andb_true_iff in H as [H _]. Qed.
Lemma Hw1 : forallb is_space (po_ws1 o) = true.
Proof. unfold popts_ok in Ho. apply andb_true_iff in Ho as [H _]. now apply andb_true_iff in H as [_ H]. Qed.
Lemma Hw1ne : po_ws1 o <> [].
Proof. unfold popts_ok in Ho. apply andb_true_iff in Ho as [_ H]. destruct (po_ws1 o); [discriminate H|discriminate]. Qed.

Lemma sourced_expr_ok e rest : wf_expr e = true -> fol 0 rest ->
  sourced_expr (pp o 0 e ++ rest) = POk (pp o 0 e, e) rest.
Proof.
  intros Hwf Hr. unfold sourced_expr, req_expr, pexpect.
  rewrite (expr_roundtrip_fol o e rest Ho Hwf Hr). cbn [pbind].
  rewrite consumed_app, trim_pp by exact Hwf. reflexivity.
Qed.

(** the text of a comma separated list after its first element *)
Definition tailt (ts : list str) : str := flat_map (fun y => comma o ++ y) ts.

Lemma sep_join_tail x ts : sep_join (comma o) (x :: ts) = x ++ tailt ts.
Proof.
  revert x. induction ts as [|y ts IH]; intros x.
  - cbn. now rewrite app_nil_r.
  - change (sep_join (comma o) (x :: y :: ts)) with (x ++ comma o ++ sep_join (comma o) (y :: ts)).
    rewrite IH. cbn [tailt flat_map]. now rewrite <- app_assoc.
Qed.

Lemma length_tailt ts : length ts <= length (tailt ts).
Proof.
  induction ts as [|y ts IH]; [apply Nat.le_refl|].
  change (tailt (y :: ts)) with ((comma o ++ y) ++ tailt ts). unfold comma.
  rewrite !app_length. cbn [length]. lia.
Qed.

Lemma fol_comma_txt x : fol 0 (comma o ++ x).
Proof. unfold comma. rewrite <- app_assoc. apply fol_ws; [apply Hw0|]. cbn [app]. apply fol_comma. Qed.

Lemma nid_comma_txt x : nid (comma o ++ x) = true.
Proof. apply afol_nid. eapply fol_afol. apply fol_comma_txt. Qed.

Lemma comma_ws_ok x : comma_ws (comma o ++ x) = POk tt (skip_spaces x).
Proof.
  unfold comma_ws, ms0, comma. cbn [pbind]. rewrite <- app_assoc.
  rewrite skip_spaces_app by apply Hw0. cbn [app skip_spaces]. change (is_space 44) with false. cbv iota.
  unfold ptag. change (lit ",") with [44%N]. cbn [strip_prefix]. rewrite N.eqb_refl. cbn [pbind].
  rewrite skip_spaces_app by apply Hw0. reflexivity.
Qed.

Lemma comma_ws_fail rest : ptag "," (skip_spaces rest) = PFail -> comma_ws rest = PFail.
Proof. intros H. unfold comma_ws, ms0. cbn [pbind]. rewrite H. reflexivity. Qed.

Lemma fol_tailt es rest : fol 0 rest -> fol 0 (tailt (map (pp o 0) es) ++ rest).
Proof.
  intros Hr. destruct es as [|e es]; [exact Hr|].
  cbn [map tailt flat_map]. rewrite <- !app_assoc. apply fol_comma_txt.
Qed.

Lemma keys_more rest : fol 0 rest -> ptag "," (skip_spaces rest) = PFail ->
  forall es fuel acc, length es <= fuel -> forallb wf_expr es = true ->
  sep_list_more fuel comma_ws sourced_expr (tailt (map (pp o 0) es) ++ rest) acc
  = POk (rev acc ++ map (fun e => (pp o 0 e, e)) es) rest.
Proof.
  intros Hr Hc. induction es as [|e es IH]; intros fuel acc Hf Hwf.
  - cbn [map tailt flat_map app]. rewrite app_nil_r. destruct fuel as [|f]; [reflexivity|].
    cbn [sep_list_more]. now rewrite (comma_ws_fail _ Hc).
  - destruct fuel as [|f]; [cbn [length] in Hf; lia|]. cbn [length] in Hf.
    cbn [forallb] in Hwf. apply andb_true_iff in Hwf as [He Hes].
    cbn [map tailt flat_map]. fold (tailt (map (pp o 0) es)). rewrite <- !app_assoc.
    cbn [sep_list_more]. rewrite comma_ws_ok.
    rewrite Roundtrip_proofs.skip_spaces_nsp by (apply nsp_app; now apply nsp_pp).
    rewrite (sourced_expr_ok e _ He (fol_tailt es rest Hr)).
    rewrite IH by (lia || assumption). cbn [rev map]. now rewrite <- app_assoc.
Qed.

Lemma sourced_list_ok es rest : es <> [] -> forallb wf_expr es = true -> fol 0 rest ->
  ptag "," (skip_spaces rest) = PFail ->
  sourced_expr_list (sep_join (comma o) (map (pp o 0) es) ++ rest) = POk (map (fun e => (pp o 0 e, e)) es) rest.
Proof.
  intros Hne Hwf Hr Hc. destruct es as [|e es]; [congruence|].
  cbn [forallb] in Hwf. apply andb_true_iff in Hwf as [He Hes].
  cbn [map]. rewrite sep_join_tail, <- app_assoc. unfold sourced_expr_list, sep_list1.
  rewrite (sourced_expr_ok e _ He (fol_tailt es rest Hr)). cbn [pbind].
  rewrite (keys_more rest Hr Hc es); [reflexivity| |exact Hes].
  rewrite app_length. pose proof (length_tailt (map (pp o 0) es)). rewrite map_length in H. lia.
Qed.

(** ** a parenthesised argument *)
Lemma arg_text_app e rest : arg_text o e ++ rest = 40%N :: po_ws0 o ++ pp o 0 e ++ po_ws0 o ++ 41%N :: rest.
Proof. unfold arg_text. cbn [app]. now rewrite <- !app_assoc. Qed.

Lemma fol_close_txt rest : fol 0 (po_ws0 o ++ 41%N :: rest).
Proof. apply fol_ws; [apply Hw0|apply fol_close]. Qed.

Lemma skip_close rest : skip_spaces (po_ws0 o ++ 41%N :: rest) = 41%N :: rest.
Proof. apply skip_ws_nsp; [apply Hw0|reflexivity]. Qed.

Lemma single_arg_ok e rest : wf_expr e = true -> single_arg (arg_text o e ++ rest) = POk e rest.
Proof.
  intros Hwf. rewrite arg_text_app. unfold single_arg. cbn [eat]. rewrite N.eqb_refl.
  rewrite skip_ws_nsp by (apply Hw0 || (apply nsp_app; now apply nsp_pp)).
  unfold pexpect. rewrite (expr_roundtrip_fol o e _ Ho Hwf (fol_close_txt rest)).
  rewrite skip_close. cbn [eat]. now rewrite N.eqb_refl.
Qed.

Lemma req_single_arg_ok e rest : wf_expr e = true -> req_single_arg (arg_text o e ++ rest) = POk e rest.
Proof. intros H. unfold req_single_arg, pexpect. now rewrite single_arg_ok. Qed.

Lemma arg_list_ok e rest : wf_expr e = true -> p_arg_list (arg_text o e ++ rest) = POk [e] rest.
Proof.
  intros Hwf. rewrite arg_text_app. unfold p_arg_list, p_args. cbn [eat]. rewrite N.eqb_refl.
  rewrite skip_ws_nsp by (apply Hw0 || (apply nsp_app; now apply nsp_pp)).
  rewrite (expr_roundtrip_fol o e _ Ho Hwf (fol_close_txt rest)).
  rewrite Nat.add_1_r. cbn [args_more]. rewrite skip_close. cbn [eat].
  change (41 =? 44)%N with false. cbv iota. now rewrite N.eqb_refl.
Qed.

Lemma nid_arg e rest : nid (arg_text o e ++ rest) = true.
Proof. reflexivity. Qed.

(** ** ` as name` *)
Lemma nsp_ident_text n x : nsp (ident_text o n ++ x).
Proof.
  unfold ident_text. destruct (safe_name n) eqn:Hs; [|reflexivity].
  destruct (safe_parts _ Hs) as (c & n' & -> & H1 & _). cbn [app nsp]. now apply start_not_space.
Qed.

Lemma as_text_app n rest : as_text o n ++ rest = po_ws1 o ++ lit "as" ++ po_ws1 o ++ ident_text o n ++ rest.
Proof. unfold as_text. now rewrite <- !app_assoc. Qed.

Lemma word_as_ok n rest : (safe_name n = true -> nid rest = true) ->
  word_then "as" req_ident (as_text o n ++ rest) = POk n rest.
Proof.
  intros Hr. rewrite as_text_app. unfold word_then.
  rewrite Roundtrip_proofs.ms1_ws by (apply Hw1ne || apply Hw1 || reflexivity). cbn [pbind].
  unfold ptag. rewrite Roundtrip_proofs.strip_prefix_app. cbn [pbind].
  rewrite Roundtrip_proofs.ms1_ws by (apply Hw1ne || apply Hw1 || apply nsp_ident_text). cbn [pbind].
  unfold req_ident, pexpect. now rewrite ident_ok.
Qed.

Lemma fol_as n rest : fol 0 (as_text o n ++ rest).
Proof.
  rewrite as_text_app. apply fol_ws1; [apply Hw1ne|apply Hw1|].
  repeat split; intros; vm_compute; reflexivity.
Qed.

Lemma nid_ws1 x : nid (po_ws1 o ++ x) = true.
Proof.
  pose proof Hw1ne as Hne. pose proof Hw1 as Hw. destruct (po_ws1 o) as [|c w]; [congruence|].
  cbn [forallb] in Hw. apply andb_true_iff in Hw as [Hc _]. cbn [app nid hdp].
  now rewrite (space_not_ident _ Hc).
Qed.

Lemma not40_ws1 x : eat 40 (po_ws1 o ++ x) = None.
Proof.
  pose proof Hw1ne as Hne. pose proof Hw1 as Hw. destruct (po_ws1 o) as [|c w]; [congruence|].
  cbn [forallb] in Hw. apply andb_true_iff in Hw as [Hc _]. cbn [app eat].
  destruct (N.eqb_spec c 40) as [->|]; [discriminate Hc|reflexivity].
Qed.
End Lists.

Lemma forall2_length {A B} (R : A -> B -> Prop) l l' : Forall2 R l l' -> length l = length l'.
Proof. induction 1; cbn [length]; congruence. Qed.

Lemma some_inj {A} (a b : A) : Some a = Some b -> a = b.
Proof. now intros [= ->]. Qed.

(** * alternatives that do not apply *)
Lemma palt_fail {A} (p q : parser A) s : p s = PFail -> (p <|> q) s = q s.
Proof. intros H. unfold palt. now rewrite H. Qed.
Lemma palt_ok {A} (p q : parser A) s a r : p s = POk a r -> (p <|> q) s = POk a r.
Proof. intros H. unfold palt. now rewrite H. Qed.

(** the tag [T] does not start [s], or it does and an identifier character follows *)
Definition idhd (r : str) : bool := match r with c :: _ => is_ident_char c | [] => false end.
Definition wfree (T : String.string) (s : str) : Prop :=
  forall r, strip_prefix (lit T) s = Some r -> idhd r = true.

Lemma wfree_none T s : strip_prefix (lit T) s = None -> wfree T s.
Proof. intros H r E. congruence. Qed.

Lemma pkw_wfree T s : is_word_kw T = true -> wfree T s -> pkw T s = PFail.
Proof.
  intros Hk H. unfold pkw. destruct (strip_prefix (lit T) s) as [r|] eqn:E; [|reflexivity].
  specialize (H r E). destruct r as [|c r]; [discriminate H|]. cbn [idhd] in H. now rewrite Hk, H.
Qed.

Lemma ptag_ms1_wfree T s : wfree T s ->
  match ptag T s with POk _ r => ms1 r = PFail | PFail => True | PFatal => False end.
Proof.
  intros H. unfold ptag. destruct (strip_prefix (lit T) s) as [r|] eqn:E; [|exact I].
  specialize (H r E). destruct r as [|c r]; [discriminate H|]. cbn [idhd] in H.
  unfold ms1. now rewrite (ident_not_space _ H).
Qed.

Lemma oper0_wfree T s : wfree T s -> oper_0_args T s = PFail.
Proof.
  intros H. unfold oper_0_args, ptag. destruct (strip_prefix (lit T) s) as [r|] eqn:E; [|reflexivity].
  specialize (H r E). destruct r as [|c r]; [discriminate H|]. cbn [idhd] in H. cbn [pbind head_is].
  destruct (N.eqb_spec c 40) as [->|_]; [discriminate H|].
  rewrite (ident_not_space _ H). unfold end_of_query. cbn [skip_spaces]. rewrite (ident_not_space _ H).
  destruct (N.eqb_spec c 124) as [->|_]; [discriminate H|reflexivity].
Qed.

Lemma inline_fail s :
  wfree "parse" s -> wfree "json" s -> wfree "logfmt" s -> wfree "fields" s -> wfree "limit" s ->
  wfree "split" s -> wfree "timeslice" s -> wfree "total" s -> wfree "where" s ->
  inline_opers s = PFail.
Proof.
  intros H1 H2 H3 H4 H5 H6 H7 H8 H9. unfold inline_opers.
  rewrite palt_fail; [unfold p_where; now rewrite (pkw_wfree "where" s eq_refl H9)|].
  rewrite palt_fail; [unfold p_total; now rewrite (pkw_wfree "total" s eq_refl H8)|].
  rewrite palt_fail; [unfold p_timeslice; now rewrite (pkw_wfree "timeslice" s eq_refl H7)|].
  rewrite palt_fail; [unfold p_split; now rewrite (pkw_wfree "split" s eq_refl H6)|].
  rewrite palt_fail; [unfold p_limit; now rewrite (oper0_wfree "limit" s H5)|].
  rewrite palt_fail.
  { unfold p_fields. pose proof (ptag_ms1_wfree "fields" s H4) as H.
    destruct (ptag "fields" s) as [u r| |]; cbn [pbind]; [now rewrite H|reflexivity|destruct H]. }
  rewrite palt_fail; [unfold p_json; now rewrite (oper0_wfree "logfmt" s H3)|].
  rewrite palt_fail; [unfold p_json; now rewrite (oper0_wfree "json" s H2)|].
  unfold p_parse. pose proof (ptag_ms1_wfree "parse" s H1) as H.
  destruct (ptag "parse" s) as [u r| |]; cbn [pbind]; [now rewrite H|reflexivity|destruct H].
Qed.

Lemma sort_fail s : wfree "sort" s -> p_sort s = PFail.
Proof. intros H. unfold p_sort. now rewrite (pkw_wfree "sort" s eq_refl H). Qed.

(** ** the alternatives of [p_aggfn] *)
Definition ag_cd : parser (lagg * str) :=
  fun s => LET _u, r <- pkw "count_distinct" s IN
           LET args, r1 <- popt p_arg_list r IN
           match args with
           | Some [e] => POk (LAgg (FDistinct e), []) r1
           | _ => POk (LAggDistinctBad, []) r1
           end.
Definition ag_count : parser (lagg * str) :=
  fun s => LET _u, r <- pkw "count" s IN LET c, r1 <- popt single_arg r IN POk (LAgg (FCount c), []) r1.
Definition ag_min : parser (lagg * str) :=
  fun s => LET _u, r <- pkw "min" s IN LET e, r1 <- req_single_arg r IN POk (LAgg (FMin e), []) r1.
Definition ag_max : parser (lagg * str) :=
  fun s => LET _u, r <- pkw "max" s IN LET e, r1 <- req_single_arg r IN POk (LAgg (FMax e), []) r1.
Definition ag_sum : parser (lagg * str) :=
  fun s => LET _u, r <- pkw "sum" s IN LET e, r1 <- req_single_arg r IN POk (LAgg (FSum e), []) r1.
Definition ag_avg : parser (lagg * str) :=
  fun s => LET _u, r <- pkws Generated.avg_tags s IN LET e, r1 <- req_single_arg r IN POk (LAgg (FAvg e), []) r1.

Lemma p_aggfn_alts : p_aggfn = ag_cd <|> ag_count <|> ag_min <|> ag_max <|> p_pct <|> ag_sum <|> ag_avg.
Proof. reflexivity. Qed.

Lemma ag_cd_fail s : wfree "count_distinct" s -> ag_cd s = PFail.
Proof. intros H. unfold ag_cd. now rewrite (pkw_wfree "count_distinct" s eq_refl H). Qed.
Lemma ag_count_fail s : wfree "count" s -> ag_count s = PFail.
Proof. intros H. unfold ag_count. now rewrite (pkw_wfree "count" s eq_refl H). Qed.
Lemma ag_min_fail s : wfree "min" s -> ag_min s = PFail.
Proof. intros H. unfold ag_min. now rewrite (pkw_wfree "min" s eq_refl H). Qed.
Lemma ag_max_fail s : wfree "max" s -> ag_max s = PFail.
Proof. intros H. unfold ag_max. now rewrite (pkw_wfree "max" s eq_refl H). Qed.
Lemma ag_sum_fail s : wfree "sum" s -> ag_sum s = PFail.
Proof. intros H. unfold ag_sum. now rewrite (pkw_wfree "sum" s eq_refl H). Qed.
Lemma ag_avg_fail s : wfree "avg" s -> wfree "average" s -> ag_avg s = PFail.
Proof.
  intros H1 H2. unfold ag_avg, Generated.avg_tags. cbn [pkws].
  now rewrite (pkw_wfree "avg" s eq_refl H1), (pkw_wfree "average" s eq_refl H2).
Qed.

Lemma p_pct_none s : first_tag Generated.pct_tags s = None -> p_pct s = PFail.
Proof. intros H. unfold p_pct, ptags. now rewrite H. Qed.

Lemma aggfn_fail s :
  wfree "count_distinct" s -> wfree "count" s -> wfree "min" s -> wfree "max" s -> p_pct s = PFail ->
  wfree "sum" s -> wfree "avg" s -> wfree "average" s -> p_aggfn s = PFail.
Proof.
  intros H1 H2 H3 H4 H5 H6 H7 H8. rewrite p_aggfn_alts.
  rewrite palt_fail; [now apply ag_avg_fail|].
  rewrite palt_fail; [now apply ag_sum_fail|].
  rewrite palt_fail; [exact H5|].
  rewrite palt_fail; [now apply ag_max_fail|].
  rewrite palt_fail; [now apply ag_min_fail|].
  rewrite palt_fail; [now apply ag_count_fail|]. now apply ag_cd_fail.
Qed.

Lemma multi_agg_fail s : nsp s -> p_aggfn s = PFail -> p_multi_agg s = PFail.
Proof.
  intros Hn H. unfold p_multi_agg, sep_list1, p_agg_oper.
  rewrite Roundtrip_proofs.skip_spaces_nsp by exact Hn. now rewrite H.
Qed.

(** ** [p_oper]: which alternative answers *)
Lemma p_oper_agg s lo r : nsp s -> inline_opers s = PFail -> p_multi_agg s = POk lo r ->
  p_oper s = POk lo (skip_spaces r).
Proof.
  intros Hn H1 H2. unfold p_oper. rewrite Roundtrip_proofs.skip_spaces_nsp by exact Hn.
  do 5 (erewrite palt_ok; [reflexivity|]).
  rewrite palt_fail; [exact H2|]. unfold pmap. now rewrite H1.
Qed.

Lemma p_oper_sort s lo r : nsp s -> inline_opers s = PFail -> p_multi_agg s = PFail -> p_sort s = POk lo r ->
  p_oper s = POk lo (skip_spaces r).
Proof.
  intros Hn H1 H2 H3. unfold p_oper. rewrite Roundtrip_proofs.skip_spaces_nsp by exact Hn.
  do 4 (erewrite palt_ok; [reflexivity|]).
  rewrite palt_fail; [exact H3|]. rewrite palt_fail; [exact H2|]. unfold pmap. now rewrite H1.
Qed.

Lemma p_oper_field s lo r : nsp s -> inline_opers s = PFail -> p_multi_agg s = PFail -> p_sort s = PFail ->
  p_field_expr s = POk lo r -> p_oper s = POk lo (skip_spaces r).
Proof.
  intros Hn H1 H2 H3 H4. unfold p_oper. rewrite Roundtrip_proofs.skip_spaces_nsp by exact Hn.
  do 3 (erewrite palt_ok; [reflexivity|]).
  rewrite palt_fail; [exact H4|]. rewrite palt_fail; [exact H3|]. rewrite palt_fail; [exact H2|].
  unfold pmap. now rewrite H1.
Qed.

(** * sort *)
Definition sort_mode_p : parser (option bool) :=
  fun s => match ms1 s with
           | POk _ x => match sort_mode_from Generated.sort_mode_tags x with
                        | Some (d, y) => POk (Some d) y
                        | None => POk None s
                        end
           | _ => POk None s
           end.

Lemma p_sort_unfold s : p_sort s =
  LET _u, r <- pkw "sort" s IN
  LET keys, r1 <- popt (word_then "by" sourced_expr_list) r IN
  LET mode, r2 <- sort_mode_p r1 IN
  POk (LSort (map snd (match keys with Some k => k | None => [] end))
             (match mode with Some d => d | None => false end)) r2.
Proof. reflexivity. Qed.

Lemma p_sort_eq R ks r1 mode r2 : nid R = true ->
  popt (word_then "by" sourced_expr_list) R = POk ks r1 -> sort_mode_p r1 = POk mode r2 ->
  p_sort (lit "sort" ++ R)
  = POk (LSort (map snd (match ks with Some k => k | None => [] end)) (match mode with Some d => d | None => false end)) r2.
Proof.
  intros Hn H1 H2. rewrite p_sort_unfold. rewrite (pkw_ok "sort" R Hn). cbn [pbind]. rewrite H1. cbn [pbind].
  rewrite H2. reflexivity.
Qed.

Lemma ms1_cases s : ms1 s = PFail \/ ms1 s = POk tt (skip_spaces s).
Proof.
  destruct s as [|c r]; [now left|]. unfold ms1. cbn [skip_spaces]. destruct (is_space c); [now right|now left].
Qed.

Lemma word_then_kstop {A} T c (p : parser A) k : kstop k -> lit T = c :: tl (lit T) -> is_ident_char c = true ->
  word_then T p k = PFail.
Proof.
  intros Hk E Hc. unfold word_then. destruct (ms1_cases k) as [-> | ->]; [reflexivity|]. cbn [pbind].
  unfold ptag. now rewrite (kstop_no_tag k T c Hk E Hc).
Qed.

Lemma sort_mode_kstop k : kstop k -> sort_mode_p k = POk None k.
Proof.
  intros Hk. unfold sort_mode_p. destruct (ms1_cases k) as [-> | ->]; [reflexivity|].
  destruct (kstop_cases _ Hk) as [->|(r & -> & _)]; reflexivity.
Qed.

Section Sort.
Variable o : popts.
Hypothesis Ho : popts_ok o = true.

Definition desc_text (desc : bool) : str := if desc then po_ws1 o ++ lit "desc" else [].

Lemma desc_fol desc k : kstop k -> fol 0 (desc_text desc ++ k).
Proof.
  intros Hk. destruct desc; [|now apply kstop_fol]. unfold desc_text. rewrite <- app_assoc.
  apply fol_ws1; [now apply Hw1ne|now apply Hw1|]. repeat split; intros; vm_compute; reflexivity.
Qed.

Lemma desc_no_comma desc k : kstop k -> ptag "," (skip_spaces (desc_text desc ++ k)) = PFail.
Proof.
  intros Hk. destruct desc; [|now apply kstop_no_comma]. unfold desc_text. rewrite <- app_assoc.
  rewrite skip_ws_nsp by (now apply Hw1 || reflexivity). reflexivity.
Qed.

Lemma desc_mode desc k : kstop k -> sort_mode_p (desc_text desc ++ k) = POk (if desc then Some true else None) k.
Proof.
  intros Hk. destruct desc; [|now apply sort_mode_kstop]. unfold desc_text, sort_mode_p. rewrite <- app_assoc.
  rewrite Roundtrip_proofs.ms1_ws by (now apply Hw1ne || now apply Hw1 || reflexivity).
  destruct (Spelling_proofs.sort_mode_synonyms k (kstop_nid _ Hk)) as (_ & _ & -> & _). reflexivity.
Qed.

Lemma desc_no_by desc k : kstop k -> popt (word_then "by" sourced_expr_list) (desc_text desc ++ k) = POk None (desc_text desc ++ k).
Proof.
  intros Hk. unfold popt. destruct desc.
  - unfold desc_text. rewrite <- app_assoc. unfold word_then.
    rewrite Roundtrip_proofs.ms1_ws by (now apply Hw1ne || now apply Hw1 || reflexivity). reflexivity.
  - cbn [desc_text app]. now rewrite (word_then_kstop "by" 98%N sourced_expr_list k Hk eq_refl eq_refl).
Qed.

Lemma desc_nid desc k : kstop k -> nid (desc_text desc ++ k) = true.
Proof.
  intros Hk. destruct desc; [|now apply kstop_nid]. unfold desc_text. rewrite <- app_assoc. now apply nid_ws1.
Qed.

Lemma map_snd_src (es : list expr) : map snd (map (fun e => (pp o 0 e, e)) es) = es.
Proof. rewrite map_map. cbn [snd]. apply map_id. Qed.

Lemma sort_text_fail R :
  inline_opers (lit "sort" ++ R) = PFail /\ p_multi_agg (lit "sort" ++ R) = PFail.
Proof.
  split.
  - apply inline_fail; apply wfree_none; reflexivity.
  - apply multi_agg_fail; [reflexivity|]. apply aggfn_fail; try (apply wfree_none; reflexivity).
    apply p_pct_none. reflexivity.
Qed.

Lemma pp_sort_eq keys desc : pp_stage o (SSort keys desc)
  = Some (lit "sort" ++ (match keys with [] => []
                         | _ => po_ws1 o ++ lit "by" ++ po_ws1 o ++ sep_join (comma o) (map (pp o 0) keys) end)
          ++ desc_text desc).
Proof. reflexivity. Qed.

Lemma sort_rt keys desc t k : forallb wf_expr keys = true -> kstop k ->
  pp_stage o (SSort keys desc) = Some t -> p_oper (t ++ k) = POk (LSort keys desc) (skip_spaces k).
Proof.
  intros Hwf Hk Ht. rewrite pp_sort_eq in Ht. apply some_inj in Ht. subst t.
  rewrite <- !app_assoc.
  match goal with |- p_oper (_ ++ ?R) = _ => set (rest := R) end.
  destruct (sort_text_fail rest) as [Hi Hm].
  apply (p_oper_sort (lit "sort" ++ rest) _ _ eq_refl Hi Hm). subst rest.
  destruct keys as [|e es].
  - cbn [app]. rewrite (p_sort_eq _ None _ _ _ (desc_nid desc k Hk) (desc_no_by desc k Hk) (desc_mode desc k Hk)).
    destruct desc; reflexivity.
  - rewrite <- !app_assoc.
    assert (Hby : popt (word_then "by" sourced_expr_list)
                    (po_ws1 o ++ lit "by" ++ po_ws1 o ++ sep_join (comma o) (map (pp o 0) (e :: es)) ++ desc_text desc ++ k)
                  = POk (Some (map (fun e => (pp o 0 e, e)) (e :: es))) (desc_text desc ++ k)).
    { unfold popt, word_then.
      assert (Hnsp : nsp (sep_join (comma o) (map (pp o 0) (e :: es)) ++ desc_text desc ++ k)).
      { cbn [map]. rewrite sep_join_tail, <- app_assoc. apply nsp_app. apply nsp_pp.
        cbn [forallb] in Hwf. now apply andb_true_iff in Hwf as [H _]. }
      rewrite Roundtrip_proofs.ms1_ws by (now apply Hw1ne || now apply Hw1 || reflexivity). cbn [pbind].
      unfold ptag. rewrite Roundtrip_proofs.strip_prefix_app. cbn [pbind].
      rewrite Roundtrip_proofs.ms1_ws by (now apply Hw1ne || now apply Hw1 || exact Hnsp). cbn [pbind].
      rewrite (sourced_list_ok o Ho (e :: es) _ ltac:(discriminate) Hwf (desc_fol desc k Hk) (desc_no_comma desc k Hk)).
      reflexivity. }
    rewrite (p_sort_eq _ _ _ _ _ (nid_ws1 o Ho _) Hby (desc_mode desc k Hk)).
    rewrite map_snd_src. destruct desc; reflexivity.
Qed.

(** ** the same with any spelling [m] of the direction: nothing, or whitespace and one of the words *)
Definition mode_words : list (String.string * bool) :=
  [("asc", false); ("ascending", false); ("desc", true); ("dsc", true); ("descending", true)].
Definition mode_text_ok (m : str) (desc : bool) : Prop :=
  (m = [] /\ desc = false) \/ exists wd, In (wd, desc) mode_words /\ m = po_ws1 o ++ lit wd.

Lemma mode_fol m desc k : mode_text_ok m desc -> kstop k -> fol 0 (m ++ k).
Proof.
  intros [[-> _]|(wd & Hin & ->)] Hk; [now apply kstop_fol|]. rewrite <- app_assoc.
  apply fol_ws1; [now apply Hw1ne|now apply Hw1|].
  cbn [mode_words In] in Hin.
  repeat (destruct Hin as [Hin|Hin]; [injection Hin as <- _; repeat split; intros; vm_compute; reflexivity|]).
  destruct Hin.
Qed.

Lemma mode_no_comma m desc k : mode_text_ok m desc -> kstop k -> ptag "," (skip_spaces (m ++ k)) = PFail.
Proof.
  intros [[-> _]|(wd & Hin & ->)] Hk; [now apply kstop_no_comma|]. rewrite <- app_assoc.
  cbn [mode_words In] in Hin.
  repeat (destruct Hin as [Hin|Hin];
          [injection Hin as <- _; rewrite skip_ws_nsp by (now apply Hw1 || reflexivity); reflexivity|]).
  destruct Hin.
Qed.

Lemma mode_mode m desc k : mode_text_ok m desc -> kstop k ->
  exists md, sort_mode_p (m ++ k) = POk md k /\ match md with Some d => d | None => false end = desc.
Proof.
  intros [[-> ->]|(wd & Hin & ->)] Hk.
  - exists None. split; [now apply sort_mode_kstop|reflexivity].
  - exists (Some desc). split; [|reflexivity]. unfold sort_mode_p. rewrite <- app_assoc.
    destruct (Spelling_proofs.sort_mode_synonyms k (kstop_nid _ Hk)) as (E1 & E2 & E3 & E4 & E5).
    cbn [mode_words In] in Hin.
    repeat (destruct Hin as [Hin|Hin];
            [injection Hin as <- <-;
             rewrite Roundtrip_proofs.ms1_ws by (now apply Hw1ne || now apply Hw1 || reflexivity);
             first [rewrite E1|rewrite E2|rewrite E3|rewrite E4|rewrite E5]; reflexivity|]).
    destruct Hin.
Qed.

Lemma mode_no_by m desc k : mode_text_ok m desc -> kstop k ->
  popt (word_then "by" sourced_expr_list) (m ++ k) = POk None (m ++ k).
Proof.
  intros [[-> _]|(wd & Hin & ->)] Hk; unfold popt.
  - cbn [app]. now rewrite (word_then_kstop "by" 98%N sourced_expr_list k Hk eq_refl eq_refl).
  - rewrite <- app_assoc. unfold word_then. cbn [mode_words In] in Hin.
    repeat (destruct Hin as [Hin|Hin];
            [injection Hin as <- _;
             rewrite Roundtrip_proofs.ms1_ws by (now apply Hw1ne || now apply Hw1 || reflexivity); reflexivity|]).
    destruct Hin.
Qed.

Lemma mode_nid m desc k : mode_text_ok m desc -> kstop k -> nid (m ++ k) = true.
Proof.
  intros [[-> _]|(wd & Hin & ->)] Hk; [now apply kstop_nid|]. rewrite <- app_assoc. now apply nid_ws1.
Qed.

Lemma sort_rt_gen keys desc m k : forallb wf_expr keys = true -> kstop k -> mode_text_ok m desc ->
  p_oper ((lit "sort" ++ (match keys with [] => []
                          | _ => po_ws1 o ++ lit "by" ++ po_ws1 o ++ sep_join (comma o) (map (pp o 0) keys) end)
           ++ m) ++ k) = POk (LSort keys desc) (skip_spaces k).
Proof.
  intros Hwf Hk Hm.
  rewrite <- !app_assoc.
  match goal with |- p_oper (_ ++ ?R) = _ => set (rest := R) end.
  destruct (sort_text_fail rest) as [Hi Hma].
  apply (p_oper_sort (lit "sort" ++ rest) _ _ eq_refl Hi Hma). subst rest.
  destruct (mode_mode m desc k Hm Hk) as (md & Hmd & Emd).
  destruct keys as [|e es].
  - cbn [app]. rewrite (p_sort_eq _ None _ _ _ (mode_nid m desc k Hm Hk) (mode_no_by m desc k Hm Hk) Hmd).
    now rewrite Emd.
  - rewrite <- !app_assoc.
    assert (Hby : popt (word_then "by" sourced_expr_list)
                    (po_ws1 o ++ lit "by" ++ po_ws1 o ++ sep_join (comma o) (map (pp o 0) (e :: es)) ++ m ++ k)
                  = POk (Some (map (fun e => (pp o 0 e, e)) (e :: es))) (m ++ k)).
    { unfold popt, word_then.
      assert (Hnsp : nsp (sep_join (comma o) (map (pp o 0) (e :: es)) ++ m ++ k)).
      { cbn [map]. rewrite sep_join_tail, <- app_assoc. apply nsp_app. apply nsp_pp.
        cbn [forallb] in Hwf. now apply andb_true_iff in Hwf as [H _]. }
      rewrite Roundtrip_proofs.ms1_ws by (now apply Hw1ne || now apply Hw1 || reflexivity). cbn [pbind].
      unfold ptag. rewrite Roundtrip_proofs.strip_prefix_app. cbn [pbind].
      rewrite Roundtrip_proofs.ms1_ws by (now apply Hw1ne || now apply Hw1 || exact Hnsp). cbn [pbind].
      rewrite (sourced_list_ok o Ho (e :: es) _ ltac:(discriminate) Hwf (mode_fol m desc k Hm Hk) (mode_no_comma m desc k Hm Hk)).
      reflexivity. }
    rewrite (p_sort_eq _ _ _ _ _ (nid_ws1 o Ho _) Hby Hmd).
    rewrite map_snd_src. now rewrite Emd.
Qed.
End Sort.

(** * field expressions: no operator claims the text *)
Lemma take_while_spec f s : forall w r, take_while f s = (w, r) ->
  s = w ++ r /\ forallb f w = true /\ hdp (fun c => negb (f c)) r = true.
Proof.
  induction s as [|c s IH]; intros w r H; cbn [take_while] in H.
  - injection H as <- <-. repeat split.
  - destruct (f c) eqn:E.
    + destruct (take_while f s) as [a b]. injection H as <- <-.
      destruct (IH a b eq_refl) as (-> & H1 & H2). cbn [app forallb]. rewrite E. repeat split; assumption.
    + injection H as <- <-. cbn [app forallb hdp]. rewrite E. repeat split.
Qed.

Lemma take_while_rest s rest w r : take_while is_ident_char s = (w, r) -> nid rest = true ->
  take_while is_ident_char (s ++ rest) = (w, r ++ rest).
Proof.
  intros H Hr. destruct (take_while_spec _ _ _ _ H) as (-> & H1 & H2). rewrite <- app_assoc.
  apply take_while_app; [exact H1|]. destruct r as [|c r]; [exact Hr|exact H2].
Qed.

Lemma reserved_start_app s rest : nid rest = true -> head_is 40 rest = false ->
  reserved_start (s ++ rest) = reserved_start s.
Proof.
  intros H1 H2. unfold reserved_start. destruct (take_while is_ident_char s) as [w r] eqn:E.
  rewrite (take_while_rest _ _ _ _ E H1). destruct r as [|c r]; [|reflexivity].
  cbn [app]. rewrite H2. reflexivity.
Qed.

Lemma sp_word p : forallb is_ident_char p = true -> forall w r z, nid r = true ->
  strip_prefix p (w ++ r) = Some z -> exists w', w = p ++ w' /\ z = w' ++ r.
Proof.
  induction p as [|x p IH]; intros Hp w r z Hr H.
  - cbn [strip_prefix] in H. injection H as <-. now exists w.
  - cbn [forallb] in Hp. apply andb_true_iff in Hp as [Hx Hp]. destruct w as [|y w].
    + cbn [app] in H. destruct r as [|c r]; [discriminate H|]. cbn [strip_prefix] in H.
      cbn [nid hdp] in Hr. apply negb_true_iff in Hr. rewrite (ident_not _ _ Hx Hr) in H. discriminate H.
    + cbn [app strip_prefix] in H. destruct (N.eqb_spec x y) as [->|]; [|discriminate H].
      destruct (IH Hp w r z Hr H) as (w' & -> & ->). now exists w'.
Qed.

Lemma sp_app_some p : forall h z t, strip_prefix p h = Some z -> strip_prefix p (h ++ t) = Some (z ++ t).
Proof.
  induction p as [|x p IH]; intros h z t H.
  - cbn [strip_prefix] in *. now injection H as <-.
  - destruct h as [|y h]; [discriminate H|]. cbn [app strip_prefix] in *.
    destruct (x =? y)%N; [now apply IH|discriminate H].
Qed.

Lemma idhd_app w r : forallb is_ident_char w = true -> w <> [] -> idhd (w ++ r) = true.
Proof.
  destruct w as [|c w]; [congruence|]. cbn [forallb app idhd]. intros H _. now apply andb_true_iff in H as [H _].
Qed.

Lemma rs_wfree s T : reserved_start s = false -> In T
    ["parse"; "json"; "logfmt"; "fields"; "limit"; "split"; "timeslice"; "total"; "where";
     "count"; "count_distinct"; "min"; "max"; "sum"; "avg"; "average"; "sort"] ->
  forallb is_ident_char (lit T) = true -> wfree T s.
Proof.
  intros Hrs Hin Hid z Hz. unfold reserved_start in Hrs.
  destruct (take_while is_ident_char s) as [w r] eqn:E.
  destruct (take_while_spec _ _ _ _ E) as (-> & H1 & H2).
  apply orb_false_iff in Hrs as [Hrs _].
  destruct (sp_word _ Hid w r z H2 Hz) as (w' & -> & ->).
  destruct w' as [|c w'].
  - exfalso. rewrite app_nil_r in Hrs.
    assert (Hx : existsb (str_eqb (lit T)) operator_words = true); [|congruence].
    apply existsb_exists. exists (lit T). split; [|apply Str_proofs.str_eqb_refl].
    unfold operator_words. apply in_map. exact Hin.
  - apply idhd_app; [|discriminate]. rewrite forallb_app in H1. now apply andb_true_iff in H1 as [_ H1].
Qed.

Lemma first_tag_word tags : forallb (fun t => forallb is_ident_char (lit t)) tags = true ->
  forall w r, nid r = true -> first_tag tags (w ++ r) = option_map (fun d => d ++ r) (first_tag tags w).
Proof.
  induction tags as [|t tags IH]; intros Ht w r Hr; [reflexivity|].
  cbn [forallb] in Ht. apply andb_true_iff in Ht as [H1 H2]. cbn [first_tag].
  destruct (strip_prefix (lit t) w) as [z|] eqn:E.
  - now rewrite (sp_app_some _ _ _ r E).
  - rewrite (sp_app_none _ H1 _ _ Hr E). now apply IH.
Qed.

Lemma first_tag_inv tags : forall w d, first_tag tags w = Some d -> exists t, w = lit t ++ d.
Proof.
  induction tags as [|t tags IH]; intros w d H; [discriminate H|]. cbn [first_tag] in H.
  destruct (strip_prefix (lit t) w) as [z|] eqn:E; [|now apply IH].
  injection H as ->. exists t. now apply strip_prefix_inv.
Qed.

Lemma take_digits_40 d : forall r a b, forallb is_ident_char d = true -> nid r = true ->
  take_digits (d ++ r) = (a, b) -> head_is 40 b = true -> a = d /\ b = r /\ forallb is_digit d = true.
Proof.
  induction d as [|c d IH]; intros r a b Hd Hr H H40.
  - cbn [app] in H. destruct r as [|x r]; cbn [take_digits] in H.
    + injection H as <- <-. discriminate H40.
    + cbn [nid hdp] in Hr. apply negb_true_iff in Hr. rewrite (not_ident_not_digit _ Hr) in H.
      injection H as <- <-. repeat split.
  - cbn [forallb] in Hd. apply andb_true_iff in Hd as [Hc Hd]. cbn [app take_digits] in H.
    destruct (is_digit c) eqn:Ec.
    + destruct (take_digits (d ++ r)) as [a' b'] eqn:E. injection H as <- <-.
      destruct (IH r a' b' Hd Hr E H40) as (-> & -> & H3). cbn [forallb]. rewrite Ec. repeat split. exact H3.
    + injection H as <- <-. cbn [head_is] in H40. apply N.eqb_eq in H40. subst c. discriminate Hc.
Qed.

Lemma rs_pct s : reserved_start s = false -> p_pct s = PFail.
Proof.
  intros Hrs. unfold reserved_start in Hrs.
  destruct (take_while is_ident_char s) as [w r] eqn:E.
  destruct (take_while_spec _ _ _ _ E) as (-> & H1 & H2).
  apply orb_false_iff in Hrs as [_ Hrs].
  unfold p_pct, ptags. rewrite (first_tag_word Generated.pct_tags eq_refl w r H2).
  destruct (first_tag Generated.pct_tags w) as [d|] eqn:Ed; [|reflexivity].
  cbn [option_map pbind]. destruct (first_tag_inv _ _ _ Ed) as (t & ->).
  rewrite forallb_app in H1. apply andb_true_iff in H1 as [_ H1].
  unfold pdigit1. destruct (take_digits (d ++ r)) as [a b] eqn:Et.
  destruct (is_nil a) eqn:Ea; [reflexivity|]. cbn [pbind].
  destruct (head_is 40 b) eqn:E40; [|reflexivity]. exfalso.
  destruct (take_digits_40 d r a b H1 H2 Et E40) as (-> & -> & H3).
  rewrite Ea, H3, E40 in Hrs. discriminate Hrs.
Qed.

Section Let.
Variable o : popts.
Hypothesis Ho : popts_ok o = true.

Lemma head40_ws1 x : head_is 40 (po_ws1 o ++ x) = false.
Proof.
  pose proof (not40_ws1 o Ho x) as H. destruct (po_ws1 o ++ x) as [|c r]; [reflexivity|].
  cbn [eat head_is] in *. destruct (c =? 40)%N; [discriminate H|reflexivity].
Qed.

Ltac inwords := cbn [In]; repeat (first [left; reflexivity | right]).

Lemma let_rt e n t k : wf_expr e = true -> reserved_start (pp o 0 e) = false -> nid k = true ->
  pp_stage o (SLet e n) = Some t -> p_oper (t ++ k) = POk (LFieldExpr e n) (skip_spaces k).
Proof.
  intros Hwf Hrs Hk Ht. change (pp_stage o (SLet e n)) with (Some (pp o 0 e ++ as_text o n)) in Ht.
  apply some_inj in Ht. subst t. rewrite <- app_assoc.
  set (s := pp o 0 e ++ as_text o n ++ k).
  assert (Hs : reserved_start s = false).
  { subst s. rewrite reserved_start_app; [exact Hrs| |]; rewrite as_text_app; [now apply nid_ws1|now apply head40_ws1]. }
  assert (Hn : nsp s) by (apply nsp_app; now apply nsp_pp).
  assert (W : forall T, In T ["parse"; "json"; "logfmt"; "fields"; "limit"; "split"; "timeslice"; "total"; "where";
     "count"; "count_distinct"; "min"; "max"; "sum"; "avg"; "average"; "sort"] ->
     forallb is_ident_char (lit T) = true -> wfree T s) by (intros T; now apply rs_wfree).
  apply p_oper_field; [exact Hn| | | |].
  - apply inline_fail; (apply W; [inwords|reflexivity]).
  - apply multi_agg_fail; [exact Hn|].
    apply aggfn_fail; try (apply W; [inwords|reflexivity]). now apply rs_pct.
  - apply sort_fail. apply W; [inwords|reflexivity].
  - subst s. unfold p_field_expr, req_expr, pexpect.
    rewrite (expr_roundtrip_fol o e _ Ho Hwf (fol_as o Ho n k)). cbn [pbind].
    rewrite (word_as_ok o Ho n k (fun _ => Hk)). reflexivity.
Qed.
End Let.

(** * aggregates *)
(** ** percentiles: the printed NN is the NN of the quotient *)
Definition pct_val (v : Z) : f64 := fdiv (f_of_Z v) (f_of_Z 100).

Lemma pct_of_canon_all :
  forallb (fun v => match pct_of (pct_val v) with Some v' => Z.eqb v' v | None => false end)
          (map Z.of_nat (seq 1 99)) = true.
Proof. vm_compute. reflexivity. Qed.

Lemma pct_of_canon v : (1 <= v <= 99)%Z -> pct_of (pct_val v) = Some v.
Proof.
  intros Hv. pose proof pct_of_canon_all as H. rewrite forallb_forall in H.
  specialize (H v). destruct (pct_of (pct_val v)) as [v'|].
  - f_equal. apply Z.eqb_eq. apply H. replace v with (Z.of_nat (Z.to_nat v)) by lia.
    apply in_map. apply in_seq. lia.
  - assert (false = true); [|discriminate]. apply H. replace v with (Z.of_nat (Z.to_nat v)) by lia.
    apply in_map. apply in_seq. lia.
Qed.

Definition pct_ok (f : aggfn) : Prop :=
  match f with FPct q _ => exists v, (1 <= v <= 99)%Z /\ q = fdiv (f_of_Z v) (f_of_Z 100) | _ => True end.

Lemma p_pct_unfold s : p_pct s =
  LET _u, r <- ptags Generated.pct_tags s IN
  LET d, r1 <- pdigit1 r IN
  if negb (head_is 40 r1) then PFail else
  LET e, r2 <- req_single_arg r1 IN
  let v := Z.of_N (digits_val d 0) in
  if (0 <? v)%Z && (v <? 100)%Z
  then POk (LAgg (FPct (fdiv (f_of_Z v) (f_of_Z 100)) e), pct_string d) r2
  else PFatal.
Proof. reflexivity. Qed.

Section Agg.
Variable o : popts.
Hypothesis Ho : popts_ok o = true.

Lemma pct_rt v e rest : (1 <= v <= 99)%Z -> wf_expr e = true ->
  p_pct (lit "p" ++ Z_to_str v ++ arg_text o e ++ rest)
  = POk (LAgg (FPct (pct_val v) e), pct_string (Z_to_str v)) rest.
Proof.
  intros Hv Hwf. rewrite p_pct_unfold.
  destruct (Z_to_str_spec v) as (d & ds & E & Hd & Hval).
  destruct (Z.ltb_spec v 0) as [?|_]; [lia|]. cbn [app] in E.
  assert (Hd0 : is_digit d = true) by (cbn [forallb] in Hd; now apply andb_true_iff in Hd).
  change (lit "p") with [112%N]. cbn [app].
  assert (Et : ptags Generated.pct_tags (112%N :: Z_to_str v ++ arg_text o e ++ rest)
               = POk tt (Z_to_str v ++ arg_text o e ++ rest)).
  { rewrite E. cbn [app]. now apply Spelling_proofs.ptags_pct_p. }
  rewrite Et. cbn [pbind].
  rewrite (pdigit1_ok v (arg_text o e ++ rest)) by (lia || reflexivity). cbn [pbind].
  change (negb (head_is 40 (arg_text o e ++ rest))) with false. cbv iota.
  rewrite (req_single_arg_ok o Ho e rest Hwf). cbn [pbind]. cbv zeta.
  rewrite E, Hval. replace (Z.abs v) with v by lia.
  destruct (Z.ltb_spec 0 v); [|lia]. destruct (Z.ltb_spec v 100); [|lia]. reflexivity.
Qed.

Ltac alts_fail :=
  repeat (rewrite palt_fail);
  first [apply ag_cd_fail | apply ag_count_fail | apply ag_min_fail | apply ag_max_fail | apply ag_sum_fail
        | apply p_pct_none | idtac];
  try (apply wfree_none); reflexivity.

Lemma cd_not_count R : nid R = true -> ag_cd (lit "count" ++ R) = PFail.
Proof.
  intros H. apply ag_cd_fail, wfree_none.
  apply (sp_app_none (lit "count_distinct") eq_refl (lit "count") R H eq_refl).
Qed.

(** the continuation [R] of an aggregate function: no identifier character and no `(` first *)
Lemma aggfn_rt_gen f tf R : wf_aggfn f = true -> pct_ok f -> aggfn_text o f = Some tf ->
  nid R = true -> eat 40 R = None ->
  nsp tf /\ exists ps, p_aggfn (tf ++ R) = POk (LAgg f, ps) R
                        /\ ps = match f with
                                | FPct q _ => match pct_of q with Some v => pct_string (Z_to_str v) | None => [] end
                                | _ => []
                                end.
Proof.
  intros Hwf Hp Ht HR H40. rewrite p_aggfn_alts.
  destruct f as [[c|]|e|e|e|e|e|q e]; cbn [wf_aggfn wf_opt] in Hwf.
  - (* count(c) *)
    change (aggfn_text o (FCount (Some c))) with (Some (lit "count" ++ arg_text o c)) in Ht.
    apply some_inj in Ht. subst tf. split; [reflexivity|]. exists []. split; [|reflexivity]. rewrite <- app_assoc.
    do 5 apply palt_ok. rewrite palt_fail by (now apply cd_not_count).
    unfold ag_count. rewrite pkw_ok by reflexivity. cbn [pbind]. unfold popt.
    now rewrite (single_arg_ok o Ho c _ Hwf).
  - (* count *)
    change (aggfn_text o (FCount None)) with (Some (lit "count")) in Ht.
    apply some_inj in Ht. subst tf. split; [reflexivity|]. exists []. split; [|reflexivity].
    do 5 apply palt_ok. rewrite palt_fail by (apply cd_not_count; exact HR).
    unfold ag_count. rewrite pkw_ok by exact HR. cbn [pbind]. unfold popt, single_arg.
    now rewrite H40.
  - (* sum *)
    change (aggfn_text o (FSum e)) with (Some (lit "sum" ++ arg_text o e)) in Ht.
    apply some_inj in Ht. subst tf. split; [reflexivity|]. exists []. split; [|reflexivity]. rewrite <- app_assoc.
    apply palt_ok. rewrite palt_fail by alts_fail.
    unfold ag_sum. rewrite pkw_ok by reflexivity. cbn [pbind].
    now rewrite (req_single_arg_ok o Ho e _ Hwf).
  - (* min *)
    change (aggfn_text o (FMin e)) with (Some (lit "min" ++ arg_text o e)) in Ht.
    apply some_inj in Ht. subst tf. split; [reflexivity|]. exists []. split; [|reflexivity]. rewrite <- app_assoc.
    do 4 apply palt_ok. rewrite palt_fail by alts_fail.
    unfold ag_min. rewrite pkw_ok by reflexivity. cbn [pbind].
    now rewrite (req_single_arg_ok o Ho e _ Hwf).
  - (* max *)
    change (aggfn_text o (FMax e)) with (Some (lit "max" ++ arg_text o e)) in Ht.
    apply some_inj in Ht. subst tf. split; [reflexivity|]. exists []. split; [|reflexivity]. rewrite <- app_assoc.
    do 3 apply palt_ok. rewrite palt_fail by alts_fail.
    unfold ag_max. rewrite pkw_ok by reflexivity. cbn [pbind].
    now rewrite (req_single_arg_ok o Ho e _ Hwf).
  - (* avg *)
    change (aggfn_text o (FAvg e)) with (Some (lit "avg" ++ arg_text o e)) in Ht.
    apply some_inj in Ht. subst tf. split; [reflexivity|]. exists []. split; [|reflexivity]. rewrite <- app_assoc.
    rewrite palt_fail by alts_fail.
    unfold ag_avg, Generated.avg_tags. cbn [pkws]. rewrite pkw_ok by reflexivity. cbn [pbind].
    now rewrite (req_single_arg_ok o Ho e _ Hwf).
  - (* count_distinct *)
    change (aggfn_text o (FDistinct e)) with (Some (lit "count_distinct" ++ arg_text o e)) in Ht.
    apply some_inj in Ht. subst tf. split; [reflexivity|]. exists []. split; [|reflexivity]. rewrite <- app_assoc.
    do 6 apply palt_ok.
    unfold ag_cd. rewrite pkw_ok by reflexivity. cbn [pbind]. unfold popt.
    now rewrite (arg_list_ok o Ho e _ Hwf).
  - (* pNN *)
    apply andb_true_iff in Hwf as [Hwf _]. destruct Hp as (v & Hv & ->). fold (pct_val v) in *.
    unfold aggfn_text in Ht. rewrite (pct_of_canon v Hv) in Ht.
    apply some_inj in Ht. subst tf. split; [reflexivity|]. exists (pct_string (Z_to_str v)).
    split; [|now rewrite (pct_of_canon v Hv)].
    rewrite <- !app_assoc. rewrite <- p_aggfn_alts.
    change (lit "p" ++ Z_to_str v ++ arg_text o e ++ R)
      with (112%N :: Z_to_str v ++ arg_text o e ++ R).
    rewrite Spelling_proofs.p_aggfn_p.
    change (112%N :: Z_to_str v ++ arg_text o e ++ R)
      with (lit "p" ++ Z_to_str v ++ arg_text o e ++ R).
    now rewrite (pct_rt v e _ Hv Hwf).
Qed.

Lemma aggfn_rt f tf x : wf_aggfn f = true -> pct_ok f -> aggfn_text o f = Some tf ->
  nsp tf /\ exists ps, p_aggfn (tf ++ po_ws1 o ++ x) = POk (LAgg f, ps) (po_ws1 o ++ x).
Proof.
  intros Hwf Hp Ht.
  destruct (aggfn_rt_gen f tf (po_ws1 o ++ x) Hwf Hp Ht (nid_ws1 o Ho x) (not40_ws1 o Ho x)) as (Hn & ps & E & _).
  split; [exact Hn|]. now exists ps.
Qed.

Lemma agg_oper_ok n f tf ws rest : wf_aggfn f = true -> pct_ok f -> aggfn_text o f = Some tf ->
  forallb is_space ws = true -> (safe_name n = true -> nid rest = true) ->
  p_agg_oper (ws ++ (tf ++ as_text o n) ++ rest) = POk (n, LAgg f) (skip_spaces rest).
Proof.
  intros Hwf Hp Ht Hws Hr. rewrite <- app_assoc, as_text_app.
  destruct (aggfn_rt f tf (lit "as" ++ po_ws1 o ++ ident_text o n ++ rest) Hwf Hp Ht) as (Hn & ps & E).
  unfold p_agg_oper. rewrite skip_ws_nsp by (exact Hws || now apply nsp_app).
  rewrite E. cbn [pbind]. rewrite <- as_text_app. unfold popt. rewrite (word_as_ok o Ho n rest Hr). reflexivity.
Qed.

(** the relation between the functions of an aggregation and their printed texts *)
Definition agg_item (nf : str * aggfn) (t : str) : Prop :=
  exists tf, aggfn_text o (snd nf) = Some tf /\ t = tf ++ as_text o (fst nf).

Lemma all_some_items fns : forall ts,
  all_some (map (fun nf => option_map (fun t => t ++ as_text o (fst nf)) (aggfn_text o (snd nf))) fns) = Some ts ->
  Forall2 agg_item fns ts.
Proof.
  induction fns as [|nf fns IH]; intros ts H; cbn [map all_some] in H.
  - apply some_inj in H. subst ts. constructor.
  - destruct (aggfn_text o (snd nf)) as [tf|] eqn:E; cbn [option_map] in H; [|discriminate H].
    destruct (all_some _) as [ts'|]; [|discriminate H]. apply some_inj in H. subst ts.
    constructor; [|now apply IH]. now exists tf.
Qed.

Definition agg_good (nf : str * aggfn) : Prop := wf_aggfn (snd nf) = true /\ pct_ok (snd nf).

Lemma nid_tailt ts rest : nid rest = true -> nid (tailt o ts ++ rest) = true.
Proof.
  intros H. destruct ts as [|t ts]; [exact H|]. cbn [tailt flat_map]. rewrite <- !app_assoc.
  now apply nid_comma_txt.
Qed.

Lemma skip_comma x : skip_spaces (comma o ++ x) = 44%N :: po_ws0 o ++ x.
Proof. unfold comma. rewrite <- app_assoc. apply skip_ws_nsp; [now apply Hw0|reflexivity]. Qed.

Lemma aggs_more rest : nid rest = true -> ptag "," (skip_spaces rest) = PFail ->
  forall fns ts, Forall2 agg_item fns ts -> Forall agg_good fns ->
  forall fuel acc, length fns <= fuel ->
  sep_list_more fuel (ptag ",") p_agg_oper (skip_spaces (tailt o ts ++ rest)) acc
  = POk (rev acc ++ map (fun nf => (fst nf, LAgg (snd nf))) fns) (skip_spaces rest).
Proof.
  intros Hr Hc fns ts H2. induction H2 as [|nf t fns ts Hit H2 IH]; intros Hg fuel acc Hf.
  - cbn [tailt flat_map app map]. rewrite app_nil_r. destruct fuel as [|fu]; [reflexivity|].
    cbn [sep_list_more]. now rewrite Hc.
  - destruct fuel as [|fu]; [cbn [length] in Hf; lia|]. cbn [length] in Hf.
    inversion Hg as [|? ? Hg1 Hg2]; subst. destruct Hg1 as [Hwf Hp]. destruct Hit as (tf & Etf & ->).
    cbn [tailt flat_map]. fold (tailt o ts). rewrite <- !app_assoc. rewrite skip_comma.
    cbn [sep_list_more]. unfold ptag at 1. change (lit ",") with [44%N]. cbn [strip_prefix]. rewrite N.eqb_refl.
    pose proof (agg_oper_ok (fst nf) (snd nf) tf (po_ws0 o) (tailt o ts ++ rest) Hwf Hp Etf (Hw0 o Ho)
               (fun _ => nid_tailt ts rest Hr)) as E.
    rewrite <- app_assoc in E. rewrite E.
    rewrite IH by (assumption || lia). cbn [rev map]. now rewrite <- app_assoc.
Qed.

Lemma length_skip_tailt ts rest : length ts <= length (skip_spaces (tailt o ts ++ rest)).
Proof.
  destruct ts as [|t ts]; [apply Nat.le_0_l|]. cbn [tailt flat_map]. fold (tailt o ts).
  rewrite <- !app_assoc, skip_comma. cbn [length]. rewrite !app_length.
  pose proof (length_tailt o ts). lia.
Qed.

Lemma aggs_ok rest fns ts : nid rest = true -> ptag "," (skip_spaces rest) = PFail ->
  fns <> [] -> Forall2 agg_item fns ts -> Forall agg_good fns ->
  sep_list1 (ptag ",") p_agg_oper (sep_join (comma o) ts ++ rest)
  = POk (map (fun nf => (fst nf, LAgg (snd nf))) fns) (skip_spaces rest).
Proof.
  intros Hr Hc Hne H2 Hg. destruct H2 as [|nf t fns ts Hit H2]; [congruence|].
  inversion Hg as [|? ? Hg1 Hg2]; subst. destruct Hg1 as [Hwf Hp]. destruct Hit as (tf & Etf & ->).
  rewrite sep_join_tail, <- (app_assoc _ (tailt o ts)). unfold sep_list1.
  pose proof (agg_oper_ok (fst nf) (snd nf) tf [] (tailt o ts ++ rest) Hwf Hp Etf eq_refl
             (fun _ => nid_tailt ts rest Hr)) as E. cbn [app] in E.
  rewrite E. cbn [pbind].
  rewrite (aggs_more rest Hr Hc fns ts H2 Hg2); [reflexivity|].
  rewrite (forall2_length _ _ _ H2). apply length_skip_tailt.
Qed.

Lemma check_aggs fns : map_opt_list check_agg (map (fun nf : str * aggfn => (fst nf, LAgg (snd nf))) fns) = Some fns.
Proof.
  induction fns as [|[n f] fns IH]; [reflexivity|]. cbn [map map_opt_list fst snd]. unfold check_agg at 1.
  cbn [fst snd]. now rewrite IH.
Qed.

Definition by_text (keys : list (str * expr)) : str :=
  match keys with
  | [] => []
  | _ => po_ws1 o ++ lit "by" ++ po_ws1 o ++ sep_join (comma o) (map (fun ke => pp o 0 (snd ke)) keys)
  end.

Lemma pp_agg_eq fns keys : pp_stage o (SAgg fns keys) =
  match all_some (map (fun nf => option_map (fun t => t ++ as_text o (fst nf)) (aggfn_text o (snd nf))) fns) with
  | Some ts => Some (sep_join (comma o) ts ++ by_text keys)
  | None => None
  end.
Proof. reflexivity. Qed.

Lemma keys_src keys : forallb (fun ke => wf_expr (snd ke) && str_eqb (fst ke) (pp o 0 (snd ke))) keys = true ->
  map (fun e => (pp o 0 e, e)) (map snd keys) = keys /\ forallb wf_expr (map snd keys) = true.
Proof.
  induction keys as [|[h e] keys IH]; intros H; [split; reflexivity|].
  cbn [forallb fst snd] in H. apply andb_true_iff in H as [H1 H2]. apply andb_true_iff in H1 as [H0 H1].
  apply Str_proofs.str_eqb_eq in H1. subst h. destruct (IH H2) as [E1 E2].
  cbn [map fst snd forallb]. rewrite E1, H0, E2. split; reflexivity.
Qed.

Definition by_parser : parser (list (str * expr)) :=
  fun s => LET _a, x <- ptag "by" s IN LET _b, y <- ms1 x IN sourced_expr_list y.

Lemma p_multi_agg_unfold s : p_multi_agg s =
  LET fns, r <- sep_list1 (ptag ",") p_agg_oper s IN
  LET keys, r1 <- popt by_parser r IN
  LET _e, r2 <- end_of_query r1 IN
  POk (LMultiAgg fns (match keys with Some k => k | None => [] end)) r2.
Proof. reflexivity. Qed.

Lemma by_ok keys k : kstop k ->
  forallb (fun ke => wf_expr (snd ke) && str_eqb (fst ke) (pp o 0 (snd ke))) keys = true ->
  exists r1, popt by_parser (skip_spaces (by_text keys ++ k)) = POk (match keys with [] => None | _ => Some keys end) r1
             /\ end_of_query r1 = POk tt r1 /\ skip_spaces r1 = skip_spaces k.
Proof.
  intros Hk Hwf. destruct keys as [|ke keys].
  - exists (skip_spaces k). cbn [by_text app]. split; [|split].
    + unfold popt, by_parser, ptag. now rewrite (kstop_no_tag k "by" 98%N Hk eq_refl eq_refl).
    + apply kstop_eoq. now apply kstop_skip.
    + apply Roundtrip_proofs.skip_spaces_idem.
  - exists k. split; [|split; [now apply kstop_eoq|reflexivity]].
    destruct (keys_src _ Hwf) as [E1 E2]. set (ks := ke :: keys) in *.
    unfold by_text. subst ks. cbv iota. set (ks := ke :: keys) in *.
    rewrite <- !app_assoc. rewrite skip_ws_nsp by (now apply Hw1 || reflexivity).
    unfold popt, by_parser, ptag. rewrite Roundtrip_proofs.strip_prefix_app. cbn [pbind].
    rewrite <- (map_map snd (pp o 0)).
    assert (Hnsp : nsp (sep_join (comma o) (map (pp o 0) (map snd ks)) ++ k)).
    { subst ks. cbn [map]. rewrite sep_join_tail, <- app_assoc. apply nsp_app. apply nsp_pp.
      cbn [map forallb] in E2. now apply andb_true_iff in E2 as [H _]. }
    rewrite Roundtrip_proofs.ms1_ws by (now apply Hw1ne || now apply Hw1 || exact Hnsp). cbn [pbind].
    rewrite (sourced_list_ok o Ho (map snd ks) k ltac:(subst ks; discriminate) E2 (kstop_fol k Hk) (kstop_no_comma k Hk)).
    rewrite E1. reflexivity.
Qed.

Lemma agg_first_fail f tf R : wf_aggfn f = true -> pct_ok f -> aggfn_text o f = Some tf ->
  inline_opers (tf ++ R) = PFail.
Proof.
  intros Hwf Hp Ht.
  destruct f as [[c|]|e|e|e|e|e|q e].
  8: { destruct Hp as (v & Hv & ->). fold (pct_val v) in *. unfold aggfn_text in Ht. rewrite (pct_of_canon v Hv) in Ht.
       apply some_inj in Ht. subst tf.
       destruct (Z_to_str_spec v) as (d & ds & E & Hd & _). destruct (Z.ltb_spec v 0) as [?|_]; [lia|]. cbn [app] in E.
       assert (Hd0 : is_digit d = true) by (cbn [forallb] in Hd; now apply andb_true_iff in Hd).
       rewrite E. change (lit "p") with [112%N]. cbn [app].
       apply inline_fail; apply wfree_none; try reflexivity.
       change (lit "parse") with [112; 97; 114; 115; 101]%N. cbn [strip_prefix]. rewrite N.eqb_refl.
       destruct (N.eqb_spec 97 d) as [<-|_]; [discriminate Hd0|reflexivity]. }
  all: unfold aggfn_text in Ht; apply some_inj in Ht; subst tf; rewrite <- ?app_assoc;
       apply inline_fail; apply wfree_none; reflexivity.
Qed.

Lemma agg_rt fns keys t k : kstop k -> fns <> [] -> Forall agg_good fns ->
  forallb (fun ke => wf_expr (snd ke) && str_eqb (fst ke) (pp o 0 (snd ke))) keys = true ->
  pp_stage o (SAgg fns keys) = Some t ->
  p_oper (t ++ k) = POk (LMultiAgg (map (fun nf => (fst nf, LAgg (snd nf))) fns) keys) (skip_spaces k).
Proof.
  intros Hk Hne Hg Hkeys Ht. rewrite pp_agg_eq in Ht.
  destruct (all_some _) as [ts|] eqn:Ets; [|discriminate Ht]. apply some_inj in Ht. subst t.
  pose proof (all_some_items _ _ Ets) as H2. rewrite <- app_assoc.
  destruct (by_ok keys k Hk Hkeys) as (r1 & Hby & Heoq & Hskip).
  assert (Hnid : nid (by_text keys ++ k) = true).
  { destruct keys; [now apply kstop_nid|]. unfold by_text. rewrite <- app_assoc. now apply nid_ws1. }
  assert (Hc : ptag "," (skip_spaces (by_text keys ++ k)) = PFail).
  { destruct keys; [now apply kstop_no_comma|]. unfold by_text. rewrite <- !app_assoc.
    rewrite skip_ws_nsp by (now apply Hw1 || reflexivity). reflexivity. }
  assert (Hm : p_multi_agg (sep_join (comma o) ts ++ by_text keys ++ k)
               = POk (LMultiAgg (map (fun nf => (fst nf, LAgg (snd nf))) fns) keys) r1).
  { rewrite p_multi_agg_unfold. rewrite (aggs_ok _ fns ts Hnid Hc Hne H2 Hg). cbn [pbind].
    rewrite Hby. cbn [pbind]. rewrite Heoq. cbn [pbind]. destruct keys; reflexivity. }
  rewrite <- Hskip.
  destruct H2 as [|nf t fns ts Hit H2]; [congruence|].
  inversion Hg as [|? ? Hg1 Hg2]; subst. destruct Hg1 as [Hwf Hp]. destruct Hit as (tf & Etf & ->).
  destruct (aggfn_rt (snd nf) tf [] Hwf Hp Etf) as (Hn & _).
  apply p_oper_agg; [| |exact Hm].
  - rewrite sep_join_tail, <- !app_assoc. now apply nsp_app.
  - rewrite sep_join_tail, <- !app_assoc. now apply (agg_first_fail (snd nf) tf _ Hwf Hp Etf).
Qed.

(** ** the same for any way of printing the items: [I nf t] says that [t] is a text of the function [nf];
    what follows an item ([aend]) neither continues an identifier, nor opens an argument list, nor is an
    `as` clause *)
Definition aend (R : str) : Prop :=
  nid R = true /\ eat 40 R = None /\ ptag "as" (skip_spaces R) = PFail.

Lemma no_as_clause {A} (p : parser A) R : ptag "as" (skip_spaces R) = PFail ->
  popt (word_then "as" p) R = POk None R.
Proof.
  intros H. unfold popt, word_then. destruct (ms1_cases R) as [-> | ->]; [reflexivity|]. cbn [pbind].
  now rewrite H.
Qed.

Lemma not40_comma x : eat 40 (comma o ++ x) = None.
Proof.
  unfold comma. rewrite <- app_assoc. pose proof (Hw0 o Ho) as Hw. destruct (po_ws0 o) as [|c w]; [reflexivity|].
  cbn [forallb] in Hw. apply andb_true_iff in Hw as [Hc _]. cbn [app eat].
  destruct (N.eqb_spec c 40) as [->|]; [discriminate Hc|reflexivity].
Qed.

Lemma aend_tailt ts rest : aend rest -> aend (tailt o ts ++ rest).
Proof.
  intros H. destruct ts as [|t ts]; [exact H|]. cbn [tailt flat_map]. rewrite <- !app_assoc.
  split; [now apply nid_comma_txt|split; [apply not40_comma|]]. rewrite skip_comma. reflexivity.
Qed.

Lemma aend_by keys k : kstop k -> aend (by_text keys ++ k).
Proof.
  intros Hk. destruct keys as [|ke keys].
  - cbn [by_text app]. split; [now apply kstop_nid|split].
    + pose proof (kstop_hd k Hk) as Hh. destruct k as [|c k']; [reflexivity|]. cbn [hdp eat] in *.
      destruct (N.eqb_spec c 40) as [->|]; [discriminate Hh|reflexivity].
    + unfold ptag. now rewrite (kstop_no_tag k "as" 97%N Hk eq_refl eq_refl).
  - unfold by_text. rewrite <- !app_assoc. split; [now apply nid_ws1|split; [now apply not40_ws1|]].
    rewrite skip_ws_nsp by (now apply Hw1 || reflexivity). reflexivity.
Qed.

Section AggGen.
Variable I : (str * aggfn) -> str -> Prop.
Hypothesis I_oper : forall nf t ws rest, I nf t -> agg_good nf -> forallb is_space ws = true -> aend rest ->
  p_agg_oper (ws ++ t ++ rest) = POk (fst nf, LAgg (snd nf)) (skip_spaces rest).
Hypothesis I_first : forall nf t R, I nf t -> agg_good nf -> nsp t /\ inline_opers (t ++ R) = PFail.

Lemma aggs_more_gen rest : aend rest -> ptag "," (skip_spaces rest) = PFail ->
  forall fns ts, Forall2 I fns ts -> Forall agg_good fns ->
  forall fuel acc, length fns <= fuel ->
  sep_list_more fuel (ptag ",") p_agg_oper (skip_spaces (tailt o ts ++ rest)) acc
  = POk (rev acc ++ map (fun nf => (fst nf, LAgg (snd nf))) fns) (skip_spaces rest).
Proof.
  intros Hr Hc fns ts H2. induction H2 as [|nf t fns ts Hit H2 IH]; intros Hg fuel acc Hf.
  - cbn [tailt flat_map app map]. rewrite app_nil_r. destruct fuel as [|fu]; [reflexivity|].
    cbn [sep_list_more]. now rewrite Hc.
  - destruct fuel as [|fu]; [cbn [length] in Hf; lia|]. cbn [length] in Hf.
    inversion Hg as [|? ? Hg1 Hg2]; subst.
    cbn [tailt flat_map]. fold (tailt o ts). rewrite <- !app_assoc. rewrite skip_comma.
    cbn [sep_list_more]. unfold ptag at 1. change (lit ",") with [44%N]. cbn [strip_prefix]. rewrite N.eqb_refl.
    rewrite (I_oper nf t (po_ws0 o) (tailt o ts ++ rest) Hit Hg1 (Hw0 o Ho) (aend_tailt ts rest Hr)).
    rewrite IH by (assumption || lia). cbn [rev map]. now rewrite <- app_assoc.
Qed.

Lemma aggs_ok_gen rest fns ts : aend rest -> ptag "," (skip_spaces rest) = PFail ->
  fns <> [] -> Forall2 I fns ts -> Forall agg_good fns ->
  sep_list1 (ptag ",") p_agg_oper (sep_join (comma o) ts ++ rest)
  = POk (map (fun nf => (fst nf, LAgg (snd nf))) fns) (skip_spaces rest).
Proof.
  intros Hr Hc Hne H2 Hg. destruct H2 as [|nf t fns ts Hit H2]; [congruence|].
  inversion Hg as [|? ? Hg1 Hg2]; subst.
  rewrite sep_join_tail, <- (app_assoc _ (tailt o ts)). unfold sep_list1.
  pose proof (I_oper nf t [] (tailt o ts ++ rest) Hit Hg1 eq_refl (aend_tailt ts rest Hr)) as E. cbn [app] in E.
  rewrite E. cbn [pbind].
  rewrite (aggs_more_gen rest Hr Hc fns ts H2 Hg2); [reflexivity|].
  rewrite (forall2_length _ _ _ H2). apply length_skip_tailt.
Qed.

Lemma agg_rt_gen fns keys ts k : kstop k -> fns <> [] -> Forall agg_good fns ->
  forallb (fun ke => wf_expr (snd ke) && str_eqb (fst ke) (pp o 0 (snd ke))) keys = true ->
  Forall2 I fns ts ->
  p_oper ((sep_join (comma o) ts ++ by_text keys) ++ k)
  = POk (LMultiAgg (map (fun nf => (fst nf, LAgg (snd nf))) fns) keys) (skip_spaces k).
Proof.
  intros Hk Hne Hg Hkeys H2. rewrite <- app_assoc.
  destruct (by_ok keys k Hk Hkeys) as (r1 & Hby & Heoq & Hskip).
  pose proof (aend_by keys k Hk) as Hend.
  assert (Hc : ptag "," (skip_spaces (by_text keys ++ k)) = PFail).
  { destruct keys; [now apply kstop_no_comma|]. unfold by_text. rewrite <- !app_assoc.
    rewrite skip_ws_nsp by (now apply Hw1 || reflexivity). reflexivity. }
  assert (Hm : p_multi_agg (sep_join (comma o) ts ++ by_text keys ++ k)
               = POk (LMultiAgg (map (fun nf => (fst nf, LAgg (snd nf))) fns) keys) r1).
  { rewrite p_multi_agg_unfold. rewrite (aggs_ok_gen _ fns ts Hend Hc Hne H2 Hg). cbn [pbind].
    rewrite Hby. cbn [pbind]. rewrite Heoq. cbn [pbind]. destruct keys; reflexivity. }
  rewrite <- Hskip.
  destruct H2 as [|nf t fns ts Hit H2]; [congruence|].
  inversion Hg as [|? ? Hg1 Hg2]; subst.
  apply p_oper_agg; [| |exact Hm].
  - rewrite sep_join_tail, <- !app_assoc. apply nsp_app. now apply (I_first nf t []).
  - rewrite sep_join_tail, <- !app_assoc. now apply (I_first nf t).
Qed.
End AggGen.
End Agg.

(** * the three stage kinds together *)

(* STATEMENT FALSE (as first stated, with only [stage_stop k = true] and no premise on percentiles):
   (1) a continuation starting with a double pipe continues the last key expression:
       o = mkPO [] [32] false false false false, st = SSort [ECol (lit "a") []] false, k = lit "||b":
       wf_stage o st = stage_ok st = stage_stop k = true, pp_stage o st = Some (lit "sort by a"), but
       p_oper (lit "sort by a||b") = POk (LSort [ELogic LOr (ECol (lit "a") []) (ECol (lit "b") [])] false) [],
       which checks to [SSort [a || b] false] <> [st]   (same for SAgg with keys: "count as c by a||b");
   (2) [pct_of] compares bit patterns, and [bits_of_f] is not injective on non-canonical spec_floats:
       q = S754_finite false (2^53) (-54) (= 0.5, mantissa not normalised) has pct_of q = Some 50, so
       st = SAgg [(lit "x", FPct q (ECol (lit "a") []))] [] is wf and prints as "p50(a) as x", which reads back as
       FPct (S754_finite false (2^52) (-53)) _  <> FPct q _.
   Hence the two extra premises below: [single_pipe k = true] (after optional whitespace the continuation
   is over or is one `|` not followed by another) and [pct_exact st] (every percentile of an aggregation
   is literally the double NN/100 with 1 <= NN <= 99, which is what the parser produces). *)

Definition pct_exact (st : stage) : Prop :=
  match st with
  | SAgg fns _ => forall n q e, In (n, FPct q e) fns ->
                  exists v, (1 <= v <= 99)%Z /\ q = fdiv (f_of_Z v) (f_of_Z 100)
  | _ => True
  end.

(** [wf_stage] now asks exactly that: [wf_aggfn] compares the percentile structurally with NN/100 *)
Lemma sf_eqb_eq (x y : f64) : sf_eqb x y = true -> x = y.
Proof.
  destruct x as [a|a| |a m e], y as [b|b| |b n f]; cbn [sf_eqb]; intros H; try discriminate H; try reflexivity.
  - apply Bool.eqb_prop in H. now subst.
  - apply Bool.eqb_prop in H. now subst.
  - apply andb_true_iff in H as [H H3]. apply andb_true_iff in H as [H1 H2].
    apply Bool.eqb_prop in H1. apply Pos.eqb_eq in H2. apply Z.eqb_eq in H3. now subst.
Qed.

Lemma pct_of_range (q : f64) (v : Z) : pct_of q = Some v -> (1 <= v <= 99)%Z.
Proof.
  unfold pct_of. intros H. apply find_some in H as [H _].
  apply in_map_iff in H as (n & <- & Hn). apply in_seq in Hn. lia.
Qed.

Lemma wf_pct_exact (o : popts) (st : stage) : wf_stage o st = true -> pct_exact st.
Proof.
  destruct st as [f|f|pat fields f nd nc|sep arg out|only fs|e|e n|e ns n|n|e n|fns keys|keys desc|];
    try (intros _; exact I).
  cbn [wf_stage pct_exact]. intros H n q e Hin.
  apply andb_true_iff in H as [H _]. apply andb_true_iff in H as [_ H].
  rewrite forallb_forall in H. specialize (H _ Hin). cbn [snd wf_aggfn] in H.
  apply andb_true_iff in H as [_ H].
  destruct (pct_of q) as [v|] eqn:E; [|discriminate H].
  exists v. split; [exact (pct_of_range q v E)|now apply sf_eqb_eq].
Qed.

Theorem stage_roundtrip_rest_weak (o : popts) (st : stage) (t k : str) :
  popts_ok o = true -> plain_inline st = false ->
  wf_stage o st = true -> stage_ok st = true -> pp_stage o st = Some t -> stage_stop k = true ->
  single_pipe k = true -> pct_exact st ->
  exists lo, p_oper (t ++ k) = POk lo (skip_spaces k) /\ check_lop true lo = Some [st].
Proof.
  intros Ho Hpl Hwf _ Ht Hk1 Hk2 Hpct.
  assert (Hk : kstop k) by (split; assumption).
  destruct st as [f|f|pat fields f nd nc|sep arg out|only fs|e|e n|e ns n|n|e n|fns keys|keys desc|];
    try discriminate Hpl; try discriminate Hwf.
  - (* expr as name *)
    cbn [wf_stage] in Hwf. apply andb_true_iff in Hwf as [Hwf Hrs]. apply negb_true_iff in Hrs.
    exists (LFieldExpr e n). split; [|reflexivity].
    now apply (let_rt o Ho e n t k Hwf Hrs (kstop_nid k Hk)).
  - (* aggregation *)
    cbn [wf_stage] in Hwf. apply andb_true_iff in Hwf as [Hwf Hkeys]. apply andb_true_iff in Hwf as [Hne Hfns].
    exists (LMultiAgg (map (fun nf => (fst nf, LAgg (snd nf))) fns) keys). split.
    + apply (agg_rt o Ho fns keys t k Hk); [destruct fns; [discriminate Hne|discriminate]| |exact Hkeys|exact Ht].
      apply Forall_forall. intros [n f] Hin. rewrite forallb_forall in Hfns. split; [exact (Hfns _ Hin)|].
      cbn [snd]. destruct f; try exact I. cbn [pct_exact] in Hpct. now apply (Hpct n p e).
    + cbn [check_lop]. now rewrite check_aggs.
  - (* sort *)
    cbn [wf_stage] in Hwf. exists (LSort keys desc). split; [|reflexivity].
    now apply (sort_rt o Ho keys desc t k Hwf Hk).
Qed.

Print Assumptions stage_roundtrip_rest_weak.

(** with the present [wf_stage] the premise on percentiles is redundant *)
Theorem stage_roundtrip_rest (o : popts) (st : stage) (t k : str) :
  popts_ok o = true -> plain_inline st = false ->
  wf_stage o st = true -> stage_ok st = true -> pp_stage o st = Some t -> stage_stop k = true ->
  single_pipe k = true ->
  exists lo, p_oper (t ++ k) = POk lo (skip_spaces k) /\ check_lop true lo = Some [st].
Proof.
  intros Ho Hpl Hwf Hok Ht Hk1 Hk2.
  exact (stage_roundtrip_rest_weak o st t k Ho Hpl Hwf Hok Ht Hk1 Hk2 (wf_pct_exact o st Hwf)).
Qed.

Print Assumptions stage_roundtrip_rest.
