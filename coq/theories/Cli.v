(** The output-mode selection of main() and parse_output (src/bin/agrind.rs). *)
From Coq Require Import List NArith Bool.
From AG Require Import Str.
Import ListNotations.
Open Scope string_scope.
Open Scope list_scope.
Open Scope N_scope.

Inductive cli_mode := CLegacy | CJson | CLogfmt | CFormat (f : str).

(** [output_param.find('=')] then [split_at]: the text before the first '=' and the text after it
    (no '=' at all reads as an empty value) *)
Fixpoint split_eq (s : str) : str * str :=
  match s with
  | [] => ([], [])
  | c :: r => if c =? 61 then ([], r) else let '(a, v) := split_eq r in (c :: a, v)
  end.

Definition parse_output (p : str) : option cli_mode :=
  let '(arg, val) := split_eq p in
  if str_eqb arg (lit "legacy") && is_nil val then Some CLegacy
  else if str_eqb arg (lit "json") && is_nil val then Some CJson
  else if str_eqb arg (lit "logfmt") && is_nil val then Some CLogfmt
  else if str_eqb arg (lit "format") && negb (is_nil val) then Some (CFormat val)
  else None.

(** main(): -o together with --format is an error; --format '' is an error; nothing means legacy *)
Definition select_mode (output format : option str) : option cli_mode :=
  match output, format with
  | Some _, Some _ => None
  | Some o, None => parse_output o
  | None, Some f => if is_nil f then None else Some (CFormat f)
  | None, None => parse_output (lit "legacy")
  end.
