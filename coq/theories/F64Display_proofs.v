(** Facts about the float text (F64Display.v). *)
From Coq Require Import List ZArith NArith Bool Lia Floats.SpecFloat.
From AG Require Import Str F64 Value F64Display.
Import ListNotations.
Open Scope Z_scope.

(** * (b) the digit generator never runs out of fuel *)

Lemma gen_step : forall f r s mp mm incl,
  gen (S f) r s mp mm incl =
    let r' := (r * 10) mod s in let d := r * 10 / s in
    if (if incl then r' <=? mm * 10 else r' <? mm * 10) then
      (if (if incl then s <=? r' + mp * 10 else s <? r' + mp * 10)
       then (if r' * 2 <? s then Some [d] else Some [d + 1]) else Some [d])
    else if (if incl then s <=? r' + mp * 10 else s <? r' + mp * 10) then Some [d + 1]
    else match gen f r' s (mp * 10) (mm * 10) incl with
         | Some l => Some (d :: l) | None => None end.
Proof. reflexivity. Qed.

Lemma gen_some : forall fuel r s mp mm incl,
  0 < s -> 0 < mm -> s <= mm * 10 ^ Z.of_nat fuel ->
  gen (S fuel) r s mp mm incl <> None.
Proof.
  induction fuel as [|f IH]; intros r s mp mm incl Hs Hmm Hb; rewrite gen_step; cbv zeta.
  - simpl in Hb.
    assert (Hr : 0 <= (r * 10) mod s < s) by (apply Z.mod_pos_bound; lia).
    assert (T : (if incl then (r * 10) mod s <=? mm * 10 else (r * 10) mod s <? mm * 10) = true).
    { destruct incl; [apply Z.leb_le | apply Z.ltb_lt]; lia. }
    destruct (if incl then (r * 10) mod s <=? mm * 10 else (r * 10) mod s <? mm * 10); [|discriminate T].
    destruct (if incl then s <=? _ else _); [destruct (_ <? _)|]; discriminate.
  - destruct (if incl then (r * 10) mod s <=? mm * 10 else (r * 10) mod s <? mm * 10).
    + destruct (if incl then s <=? _ else _); [destruct (_ <? _)|]; discriminate.
    + destruct (if incl then s <=? _ else _); [discriminate|].
      specialize (IH ((r * 10) mod s) s (mp * 10) (mm * 10) incl Hs).
      assert (H10 : 10 ^ Z.of_nat (S f) = 10 * 10 ^ Z.of_nat f).
      { rewrite Nat2Z.inj_succ, Z.pow_succ_r by lia. reflexivity. }
      rewrite H10 in Hb.
      destruct (gen (S f) _ _ _ _ _); [discriminate|].
      exfalso. apply IH; [lia | lia | reflexivity].
Qed.

Lemma gen_fuel_enough : forall s mm, 0 < s -> 0 < mm ->
  s <= mm * 10 ^ Z.of_nat (Z.to_nat (Z.log2_up s - Z.log2 mm)).
Proof.
  intros s mm Hs Hmm.
  set (n := Z.of_nat (Z.to_nat (Z.log2_up s - Z.log2 mm))).
  assert (Hn : 0 <= n /\ Z.log2_up s - Z.log2 mm <= n) by (unfold n; lia).
  pose proof (Z.log2_log2_up_spec s Hs) as [_ H1].
  pose proof (Z.log2_spec mm Hmm) as [H2 _].
  pose proof (Z.log2_nonneg mm) as Hl.
  assert (H3 : 2 ^ n <= 10 ^ n) by (apply Z.pow_le_mono_l; lia).
  assert (H4 : 2 ^ Z.log2_up s <= 2 ^ (Z.log2 mm + n)) by (apply Z.pow_le_mono_r; lia).
  rewrite Z.pow_add_r in H4 by lia.
  assert (H5 : 0 < 2 ^ Z.log2 mm) by (apply Z.pow_pos_nonneg; lia).
  assert (H6 : 0 < 2 ^ n) by (apply Z.pow_pos_nonneg; lia).
  nia.
Qed.

Lemma start_pos : forall m e r s mp mm k,
  start m e = (r, s, mp, mm, k) -> 0 < s /\ 0 < mm.
Proof.
  intros m e r s mp mm k. unfold start.
  assert (P : forall z, 0 < 2 ^ z \/ 2 ^ z = 0).
  { intro z. destruct (Z_le_gt_dec 0 z); [left; apply Z.pow_pos_nonneg; lia|right; apply Z.pow_neg_r; lia]. }
  assert (Q : forall z, 0 <= z -> 0 < 10 ^ z) by (intros; apply Z.pow_pos_nonneg; lia).
  destruct (0 <=? e) eqn:He;
  destruct ((Z.pos m =? 2 ^ 52) && (-1074 <? e));
  cbv beta iota zeta;
  match goal with |- context [find_k ?a ?b ?c ?d ?f ?g] => generalize (find_k a b c d f g) end;
  intro k0; destruct (0 <=? k0) eqn:Hk; intro H; inversion H; subst; clear H;
  try apply Z.leb_le in He; try apply Z.leb_gt in He;
  try apply Z.leb_le in Hk; try apply Z.leb_gt in Hk;
  split; repeat (apply Z.mul_pos_pos); try lia; try (apply Z.pow_pos_nonneg; lia);
  match goal with |- context [10 ^ ?z] => specialize (Q z ltac:(lia)); destruct (10 ^ z); lia end.
Qed.

(** the shortest-digits computation always produces digits (the "?" of [f64_display] is dead) *)
Theorem shortest_some : forall m e, shortest m e <> None.
Proof.
  intros m e. unfold shortest.
  destruct (start m e) as [[[[r s] mp] mm] k] eqn:E.
  destruct (start_pos _ _ _ _ _ _ _ E) as [Hs Hmm].
  pose proof (gen_some _ r s mp mm (Z.even (Z.pos m)) Hs Hmm (gen_fuel_enough s mm Hs Hmm)) as G.
  unfold gen_fuel.
  destruct (gen _ r s mp mm _); [discriminate | contradiction].
Qed.

(** * (a) shape of the text *)

Definition plain_char (c : N) : bool := is_digit c || (c =? 46)%N.
Definition dots (t : str) : nat := count_occ N.eq_dec t 46%N.

Lemma digits_plain : forall l, forallb is_digit l = true -> forallb plain_char l = true.
Proof.
  induction l; simpl; intros H; [reflexivity|].
  apply andb_prop in H as [A B]. unfold plain_char at 1. rewrite A, IHl by assumption. reflexivity.
Qed.

Lemma digits_no_dot : forall l, forallb is_digit l = true -> dots l = 0%nat.
Proof.
  unfold dots. induction l; simpl; intros H; [reflexivity|].
  apply andb_prop in H as [A B]. destruct (N.eq_dec a 46) as [->|_]; [discriminate A|auto].
Qed.

Lemma zeros_digits : forall n, forallb is_digit (zeros n) = true.
Proof. induction n; simpl; auto. Qed.

Lemma forallb_firstn : forall (f : N -> bool) n l, forallb f l = true -> forallb f (firstn n l) = true.
Proof.
  induction n; destruct l; simpl; auto. intros H. apply andb_prop in H as [A B]. rewrite A; simpl; auto.
Qed.
Lemma forallb_skipn : forall (f : N -> bool) n l, forallb f l = true -> forallb f (skipn n l) = true.
Proof.
  induction n; destruct l; simpl; auto. intros H. apply andb_prop in H as [A B]. auto.
Qed.

(** digits laid out positionally: not empty, only digits and at most one point *)
Theorem positional_shape : forall ds k,
  ds <> [] -> forallb is_digit ds = true ->
  positional ds k <> [] /\ forallb plain_char (positional ds k) = true /\ (dots (positional ds k) <= 1)%nat.
Proof.
  intros ds k Hne Hd. unfold positional.
  destruct (k <=? 0) eqn:K1; [|destruct (k <? Z.of_nat (length ds)) eqn:K2].
  - assert (D : forallb is_digit (zeros (Z.to_nat (- k)) ++ ds) = true)
      by (rewrite forallb_app, zeros_digits, Hd; reflexivity).
    split; [discriminate|]. split.
    + simpl. apply digits_plain, D.
    + unfold dots. simpl. fold (dots (zeros (Z.to_nat (- k)) ++ ds)). rewrite digits_no_dot by exact D. lia.
  - apply Z.leb_gt in K1.
    split.
    { destruct ds; [contradiction|]. destruct (Z.to_nat k) eqn:Ek; [lia|]. simpl. discriminate. }
    split.
    + rewrite forallb_app. simpl.
      rewrite (digits_plain _ (forallb_firstn _ _ _ Hd)), (digits_plain _ (forallb_skipn _ _ _ Hd)).
      reflexivity.
    + unfold dots. rewrite count_occ_app. simpl.
      fold (dots (firstn (Z.to_nat k) ds)). fold (dots (skipn (Z.to_nat k) ds)).
      rewrite (digits_no_dot _ (forallb_firstn _ _ _ Hd)), (digits_no_dot _ (forallb_skipn _ _ _ Hd)). lia.
  - assert (D : forallb is_digit (ds ++ zeros (Z.to_nat (k - Z.of_nat (length ds)))) = true)
      by (rewrite forallb_app, zeros_digits, Hd; reflexivity).
    split; [destruct ds; [contradiction|discriminate]|]. split.
    + apply digits_plain, D.
    + rewrite digits_no_dot by exact D. lia.
Qed.

(** per-instance check that every generated digit is a decimal digit (d+1 = 10 would need a
    carry; the classical argument excludes it, here it is checked, not proved) *)
Definition digits_in_range (x : f64) : bool :=
  match x with
  | S754_finite _ m e =>
      match shortest m e with
      | Some (ds, _) => negb (is_nil ds) && forallb (fun d => (0 <=? d) && (d <=? 9)) ds
      | None => false
      end
  | _ => true
  end.

Lemma digit_char_digit : forall ds, forallb (fun d => (0 <=? d) && (d <=? 9)) ds = true ->
  forallb is_digit (map digit_char ds) = true.
Proof.
  induction ds; simpl; intros H; [reflexivity|].
  apply andb_prop in H as [A B]. rewrite IHds by assumption.
  apply andb_prop in A as [A1 A2]. apply Z.leb_le in A1. apply Z.leb_le in A2.
  unfold is_digit, digit_char. rewrite andb_true_r.
  apply andb_true_intro; split; apply N.leb_le; lia.
Qed.

(** finite doubles: optional '-', then digits with at most one '.', never empty, no exponent *)
Theorem f64_display_shape : forall x,
  f_is_finite x = true -> digits_in_range x = true ->
  let body := snd (strip_minus (f64_display x)) in
  body <> [] /\ forallb plain_char body = true /\ (dots body <= 1)%nat /\
  fst (strip_minus (f64_display x)) = f_sign x.
Proof.
  intros x Hf Hr. destruct x as [s| |?|s m e]; try discriminate.
  - destruct s; cbn; repeat split; auto; discriminate.
  - cbn [digits_in_range] in Hr. cbn [f64_display f_sign].
    destruct (shortest m e) as [[ds k]|]; [|discriminate].
    apply andb_prop in Hr as [N D].
    pose proof (digit_char_digit _ D) as DD.
    assert (NE : map digit_char ds <> []) by (destruct ds; [discriminate N|discriminate]).
    destruct (positional_shape _ k NE DD) as [P1 [P2 P3]].
    destruct s; cbn [sign_str app].
    + cbn. repeat split; assumption.
    + cbv zeta. destruct (positional (map digit_char ds) k) as [|c t] eqn:EP; [contradiction|].
      assert (c <> 45%N).
      { intros ->. cbn in P2. discriminate. }
      unfold strip_minus. destruct (N.eqb_spec c 45); [contradiction|].
      cbn [fst snd]. repeat split; try assumption.
Qed.

(** * (c) round trip, checked per instance (a test, not a theorem about all doubles) *)

Fixpoint digits_Z (ds : list Z) (acc : Z) : Z :=
  match ds with d :: r => digits_Z r (acc * 10 + d) | [] => acc end.

Definition roundtrips (x : f64) : bool :=
  match x with
  | S754_finite s m e =>
      match shortest m e with
      | Some (ds, k) =>
          bits_of_f (f_of_dec s (digits_Z ds 0) (k - Z.of_nat (length ds))) =? bits_of_f x
      | None => false
      end
  | _ => true
  end.

(** the model's own reader ([Value.parse_f64], Rust's [str::parse::<f64>]) on the printed text *)
Definition reads_back (x : f64) : bool :=
  match parse_f64 (f64_display x) with
  | Some y => bits_of_f y =? bits_of_f x
  | None => false
  end.

Open Scope string_scope.

Definition hard : list Z :=
  [ 4591870180066957722      (* 0.1 *)
  ; 4599075939470750515      (* 0.3 *)
  ; 4599676419421066581      (* 1/3 *)
  ; 1                        (* 5e-324 *)
  ; 9218868437227405311      (* 1.7976931348623157e308 *)
  ; 4845873199050653697      (* 2^53 + 2 *)
  ; 4921056587992461136      (* 1e21 *)
  ; 4502148214488346440      (* 1e-7 *)
  ; 4683220299150161609      (* 123456.789 *)
  ; 4599075939470750516      (* 0.1 + 0.2 *)
  ; 4503599627370496         (* least normal *)
  ; 4503599627370495         (* greatest subnormal *)
  ; 4922434392715952128      (* 2^70: a lower boundary *)
  ; 13815242216921733530     (* -0.1 *)
  ].

Example hard_texts :
  map (fun b => f64_display (f_of_bits b)) (firstn 10 hard) =
  map lit [ "0.1"; "0.3"; "0.3333333333333333";
    "0.000000000000000000000000000000000000000000000000000000000000000000000000000000000000000000000000000000000000000000000000000000000000000000000000000000000000000000000000000000000000000000000000000000000000000000000000000000000000000000000000000000000000000000000000000000000000000000000000000000000000000000000000000000000005";
    "179769313486231570000000000000000000000000000000000000000000000000000000000000000000000000000000000000000000000000000000000000000000000000000000000000000000000000000000000000000000000000000000000000000000000000000000000000000000000000000000000000000000000000000000000000000000000000000000000000000000000000000";
    "9007199254740994"; "1000000000000000000000"; "0.0000001"; "123456.789"; "0.30000000000000004" ].
Proof. vm_compute. reflexivity. Qed.

Example hard_checks :
  forallb (fun b => let x := f_of_bits b in roundtrips x && reads_back x && digits_in_range x) hard = true.
Proof. vm_compute. reflexivity. Qed.

Example specials :
  map f64_display [S754_nan; S754_infinity false; S754_infinity true; S754_zero false; S754_zero true]
  = map lit ["NaN"; "inf"; "-inf"; "0"; "-0"].
Proof. vm_compute. reflexivity. Qed.

(** sweep (a test): every power of two and its two neighbours, from the least subnormal to the
    greatest exponent: digits in range, at most 17 of them, reads back *)
(* Print Assumptions: see the report *)
