(** The whole-query round trip with the documented synonyms and defaults as spelling choices:
    whatever keyword synonym, default or clause order is chosen, the query compiles to exactly the
    filter and stages it was printed from; hence all such spellings compile identically. *)
From Coq Require Import List ZArith NArith Bool Lia Arith.
From AG Require Import Str F64 Value Json Expr Ops Pipeline Filter Grammar Print PrintSyn
     Roundtrip_proofs FilterRoundtrip_proofs Spelling_proofs StageRT_inline_proofs StageRT_agg_proofs QueryRT_proofs QueryRoundtrip.
From AG Require Str_proofs.
Import ListNotations.
Open Scope string_scope.
Open Scope list_scope.
Open Scope nat_scope.

(** * the canonical keywords are the special case *)
Lemma aggfn_text_syn_canonical (o : popts) (f : aggfn) : aggfn_text_syn o so_canonical f = aggfn_text o f.
Proof.
  destruct f as [c|e|e|e|e|e|q e]; reflexivity.
Qed.

Lemma agg_item_syn_canonical (o : popts) (nf : str * aggfn) :
  agg_item_syn o so_canonical nf = option_map (fun t => t ++ as_text o (fst nf)) (aggfn_text o (snd nf)).
Proof. unfold agg_item_syn. rewrite aggfn_text_syn_canonical. reflexivity. Qed.

(** * percentiles: the text Rust prints for the parsed NN is the NN that was written *)
Lemma pct_string_all :
  forallb (fun v => str_eqb (pct_string (Z_to_str v)) (Z_to_str v)) (map Z.of_nat (seq 1 99)) = true.
Proof. vm_compute. reflexivity. Qed.

Lemma pct_string_Z (v : Z) : (1 <= v <= 99)%Z -> pct_string (Z_to_str v) = Z_to_str v.
Proof.
  intros Hv. pose proof pct_string_all as H. rewrite forallb_forall in H.
  apply Str_proofs.str_eqb_eq. apply H. replace v with (Z.of_nat (Z.to_nat v)) by lia.
  apply in_map. apply in_seq. lia.
Qed.

Lemma Z_to_str_digit_hd (v : Z) (R : str) : (1 <= v)%Z ->
  (match Z_to_str v ++ R with c :: _ => is_digit c | [] => false end) = true.
Proof.
  intros Hv. destruct (Z_to_str_spec v) as (d & ds & E & Hd & _).
  destruct (Z.ltb_spec v 0) as [?|_]; [lia|]. cbn [app] in E. rewrite E. cbn [app].
  cbn [forallb] in Hd. now apply andb_true_iff in Hd as [Hd _].
Qed.

Lemma all_some_Forall2 {A B} (f : A -> option B) : forall (l : list A) (ts : list B),
  all_some (map f l) = Some ts -> Forall2 (fun x t => f x = Some t) l ts.
Proof.
  induction l as [|x l IH]; intros ts H; cbn [map] in H.
  - cbn [all_some] in H. injection H as <-. constructor.
  - apply all_some_cons in H as (y & ys & Hy & Hys & ->). constructor; [exact Hy|now apply IH].
Qed.

Section Syn.
Variable o : popts.
Hypothesis Ho : popts_ok o = true.
Variable so : sopts.

(** * aggregate functions *)
Lemma nsp_aggfn (f : aggfn) (tf : str) : aggfn_text o f = Some tf -> nsp tf.
Proof.
  destruct f as [[c|]|e|e|e|e|e|q e]; cbn [aggfn_text]; try (intros H; injection H as <-; reflexivity).
  destruct (pct_of q) as [v|]; [|discriminate]. intros H; injection H as <-; reflexivity.
Qed.

(** every spelling of an aggregate function is read as the canonical one *)
Definition syn_canon (f : aggfn) (tf : str) : Prop :=
  exists tf0, aggfn_text o f = Some tf0 /\ nph tf /\ nsp tf /\
              (forall R, p_aggfn (tf ++ R) = p_aggfn (tf0 ++ R)) /\
              (forall R, wf_aggfn f = true -> pct_ok f -> inline_opers (tf ++ R) = PFail).

Lemma aggfn_syn_canon (f : aggfn) (tf : str) : aggfn_text_syn o so f = Some tf -> syn_canon f tf.
Proof.
  intros Ht.
  assert (Hsame : aggfn_text o f = Some tf -> syn_canon f tf).
  { intros H. exists tf. split; [exact H|split; [exact (nph_aggfn o f tf H)|split; [exact (nsp_aggfn f tf H)|split; [reflexivity|]]]].
    intros R Hwf Hp. exact (agg_first_fail o f tf R Hwf Hp H). }
  destruct f as [c|e|e|e|e|e|q e]; try (apply Hsame; exact Ht).
  - (* avg / average *)
    cbn [aggfn_text_syn] in Ht. destruct (so_average so).
    + apply StageRT_agg_proofs.some_inj in Ht. subst tf.
      exists (lit "avg" ++ arg_text o e). split; [reflexivity|split; [reflexivity|split; [reflexivity|split]]].
      * intros R. rewrite <- !app_assoc. symmetry. apply avg_synonyms.
      * intros R _ _. rewrite <- app_assoc. apply inline_fail; apply wfree_none; reflexivity.
    + apply Hsame. exact Ht.
  - (* pNN / pctNN / percentileNN *)
    cbn [aggfn_text_syn] in Ht. destruct (pct_of q) as [v|] eqn:Ev; [|discriminate Ht].
    pose proof (pct_of_range q v Ev) as Hv.
    destruct (N.eqb (so_pct so) 0).
    + apply Hsame. unfold aggfn_text. rewrite Ev. exact Ht.
    + exists (lit "p" ++ Z_to_str v ++ arg_text o e). split; [unfold aggfn_text; now rewrite Ev|].
      destruct (N.eqb (so_pct so) 1); apply StageRT_agg_proofs.some_inj in Ht; subst tf.
      * split; [reflexivity|split; [reflexivity|split]].
        -- intros R. rewrite <- !app_assoc. symmetry.
           apply (pct_synonyms (Z_to_str v ++ arg_text o e ++ R)). apply Z_to_str_digit_hd. lia.
        -- intros R _ _. rewrite <- app_assoc. apply inline_fail; apply wfree_none; reflexivity.
      * split; [reflexivity|split; [reflexivity|split]].
        -- intros R. rewrite <- !app_assoc. symmetry.
           apply (pct_synonyms (Z_to_str v ++ arg_text o e ++ R)). apply Z_to_str_digit_hd. lia.
        -- intros R _ _. rewrite <- app_assoc. apply inline_fail; apply wfree_none; reflexivity.
Qed.

(** the name an aggregate gets when `as` is omitted is [default_agg_name] *)
Lemma default_name_agrees (f : aggfn) (ps : str) : pct_ok f ->
  ps = match f with
       | FPct q _ => match pct_of q with Some v => pct_string (Z_to_str v) | None => [] end
       | _ => []
       end ->
  default_name_of (LAgg f) ps = default_agg_name f.
Proof.
  intros Hp ->. destruct f as [c|e|e|e|e|e|q e]; try reflexivity.
  unfold default_agg_name. destruct (pct_of q) as [v|] eqn:Ev.
  - now rewrite (pct_string_Z v (pct_of_range q v Ev)).
  - exfalso. destruct Hp as (v & Hv & ->). fold (pct_val v) in Ev. rewrite (pct_of_canon v Hv) in Ev. discriminate Ev.
Qed.

Definition item_syn (nf : str * aggfn) (t : str) : Prop := agg_item_syn o so nf = Some t.

Lemma item_syn_oper nf t ws rest : item_syn nf t -> agg_good nf -> forallb is_space ws = true -> aend rest ->
  p_agg_oper (ws ++ t ++ rest) = POk (fst nf, LAgg (snd nf)) (skip_spaces rest).
Proof.
  intros Hit [Hwf Hp] Hws (Hnid & H40 & Has). unfold item_syn, agg_item_syn in Hit.
  destruct (aggfn_text_syn o so (snd nf)) as [tf|] eqn:Etf; [|discriminate Hit].
  cbn [option_map] in Hit. apply StageRT_agg_proofs.some_inj in Hit.
  destruct (aggfn_syn_canon (snd nf) tf Etf) as (tf0 & E0 & _ & Hn & Hsyn & _).
  destruct (so_default_as so && str_eqb (fst nf) (default_agg_name (snd nf))) eqn:Ed.
  - (* `as` omitted *)
    subst t. apply andb_true_iff in Ed as [_ Ed]. apply Str_proofs.str_eqb_eq in Ed.
    destruct (aggfn_rt_gen o Ho (snd nf) tf0 rest Hwf Hp E0 Hnid H40) as (Hn0 & ps & Ep & Eps).
    rewrite Ed.
    rewrite <- (default_name_agrees (snd nf) ps Hp Eps).
    apply (agg_default_name (ws ++ tf ++ rest) rest (LAgg (snd nf)) ps rest).
    + rewrite skip_ws_nsp by (exact Hws || now apply nsp_app). now rewrite Hsyn.
    + now apply no_as_clause.
  - (* `as name` *)
    subst t. rewrite <- app_assoc.
    assert (Hnid' : nid (as_text o (fst nf) ++ rest) = true) by (rewrite as_text_app; now apply nid_ws1).
    assert (H40' : eat 40 (as_text o (fst nf) ++ rest) = None) by (rewrite as_text_app; now apply not40_ws1).
    destruct (aggfn_rt_gen o Ho (snd nf) tf0 _ Hwf Hp E0 Hnid' H40') as (Hn0 & ps & Ep & _).
    apply (agg_explicit_name (ws ++ tf ++ as_text o (fst nf) ++ rest) (as_text o (fst nf) ++ rest)
                             (LAgg (snd nf)) ps (fst nf) rest).
    + rewrite skip_ws_nsp by (exact Hws || now apply nsp_app). now rewrite Hsyn.
    + unfold popt. now rewrite (word_as_ok o Ho (fst nf) rest (fun _ => Hnid)).
Qed.

Lemma item_syn_first nf t R : item_syn nf t -> agg_good nf -> nsp t /\ inline_opers (t ++ R) = PFail.
Proof.
  intros Hit [Hwf Hp]. unfold item_syn, agg_item_syn in Hit.
  destruct (aggfn_text_syn o so (snd nf)) as [tf|] eqn:Etf; [|discriminate Hit].
  cbn [option_map] in Hit. apply StageRT_agg_proofs.some_inj in Hit.
  destruct (aggfn_syn_canon (snd nf) tf Etf) as (tf0 & E0 & _ & Hn & _ & Hfail).
  destruct (so_default_as so && str_eqb (fst nf) (default_agg_name (snd nf))); subst t.
  - split; [exact Hn|now apply Hfail].
  - split; [now apply nsp_app|]. rewrite <- app_assoc. now apply Hfail.
Qed.

(** * a printed stage is non-empty and does not start with a pipe *)
Lemma nph_stage_syn (st : stage) (t : str) :
  pp_stage_syn o so st = Some t -> wf_stage_syn o so st = true -> nph t.
Proof.
  destruct st as [f|f|pat fields f nd nc|sep arg out|only fs|e|e n|e ns n|n|e n|fns keys|keys desc|];
    intros Ht Hwf;
    try exact (nph_stage o _ t Ht Hwf);
    try (cbn [pp_stage_syn] in Ht; injection Ht as <-; reflexivity).
  - (* limit *)
    cbn [pp_stage_syn] in Ht. destruct (so_bare_limit so && (n =? 10)%Z).
    + injection Ht as <-. reflexivity.
    + exact (nph_stage o _ t Ht Hwf).
  - (* aggregation *)
    cbn [wf_stage_syn wf_stage] in Hwf. apply andb_true_iff in Hwf as [Hwf _]. apply andb_true_iff in Hwf as [Hne _].
    destruct fns as [|nf fns]; [discriminate Hne|].
    cbn [pp_stage_syn map] in Ht.
    destruct (all_some _) as [ts|] eqn:Hts in Ht; [|discriminate Ht].
    injection Ht as <-.
    apply all_some_cons in Hts as (y & ys & Hy & _ & ->).
    unfold agg_item_syn in Hy.
    destruct (aggfn_text_syn o so (snd nf)) as [tf|] eqn:Hf; [|discriminate Hy].
    cbn [option_map] in Hy. injection Hy as <-.
    destruct (aggfn_syn_canon (snd nf) tf Hf) as (_ & _ & Hnph & _).
    apply nph_app, nph_sep_join.
    destruct (so_default_as so && str_eqb (fst nf) (default_agg_name (snd nf))); [exact Hnph|now apply nph_app].
Qed.

(** * one stage *)
Lemma inline_wrap (s : str) (l : lstage) (k : str) (st : stage) :
  nsp s -> inline_opers s = POk l k -> check_lstage l = Some [st] ->
  exists lo, p_oper s = POk lo (skip_spaces k) /\ check_lop true lo = Some [st].
Proof.
  intros Hn Hi Hc. exists (LInline l). split; [exact (p_oper_inline s l k Hn Hi)|exact Hc].
Qed.

Lemma stage_rt_syn (st : stage) (t k : str) :
  wf_stage_syn o so st = true -> stage_ok st = true -> pp_stage_syn o so st = Some t ->
  stage_stop k = true -> single_pipe k = true ->
  exists lo, p_oper (t ++ k) = POk lo (skip_spaces k) /\ check_lop true lo = Some [st].
Proof.
  intros Hwf Hok Ht Hk1 Hk2.
  pose proof (single_pipe_not_oror k Hk1 Hk2) as Hno.
  assert (Hk : kstop k) by (split; assumption).
  destruct st as [f|f|pat fields f nd nc|sep arg out|only fs|e|e n|e ns n|n|e n|fns keys|keys desc|];
    try exact (stage_roundtrip o _ t k Ho Hwf Hok Ht Hk1 Hk2).
  - (* parse *)
    cbn [wf_stage_syn wf_stage] in Hwf. cbn [pp_stage_syn] in Ht.
    destruct (so_from_last so);
      [|rewrite <- app_assoc in Ht; exact (stage_roundtrip o (SParse pat fields f nd nc) t k Ho Hwf Hok Ht Hk1 Hk2)].
    destruct fields as [|n l]; [exact (stage_roundtrip o (SParse pat [] f nd nc) t k Ho Hwf Hok Ht Hk1 Hk2)|].
    destruct f as [e|].
    + apply StageRT_agg_proofs.some_inj in Ht. subst t.
      apply (inline_wrap _ (LStage (SParse pat (n :: l) (Some e) nd nc)) k); [reflexivity| |reflexivity].
      unfold inline_opers. do 8 apply palt_ok.
      apply (parse_rt_from_last o Ho pat n l e nd nc k Hwf Hk1 Hno).
    + cbn [from_text] in Ht. rewrite app_nil_r in Ht.
      exact (stage_roundtrip o (SParse pat (n :: l) None nd nc) t k Ho Hwf Hok Ht Hk1 Hk2).
  - (* fields *)
    destruct fs as [|n l]; [destruct only; discriminate Hwf|].
    cbn [pp_stage_syn] in Ht. apply StageRT_agg_proofs.some_inj in Ht. subst t.
    apply (inline_wrap _ (LStage (SFields only (n :: l))) k); [reflexivity| |reflexivity].
    unfold inline_opers. do 5 apply palt_ok. rewrite palt_skip by kw_fails.
    apply (fields_rt_gen o Ho only _ n l k); [|exact Hk1].
    unfold fmode_ok. destruct only.
    + cbn [wf_stage_syn is_nil negb andb] in Hwf.
      destruct (N.eqb (so_only so) 0).
      * left. split; [reflexivity|]. cbn [negb orb] in Hwf. now apply negb_true_iff in Hwf.
      * right. destruct (N.eqb (so_only so) 1); [now left|right].
        destruct (N.eqb (so_only so) 2); [now left|now right].
    + destruct (N.eqb (so_except so) 0); [now left|right].
      destruct (N.eqb (so_except so) 1); [now left|now right].
  - (* limit *)
    cbn [pp_stage_syn] in Ht.
    destruct (so_bare_limit so && (n =? 10)%Z) eqn:Eb;
      [|exact (stage_roundtrip o (SLimit n) t k Ho Hwf Hok Ht Hk1 Hk2)].
    apply andb_true_iff in Eb as [_ Eb]. apply Z.eqb_eq in Eb. subst n.
    apply StageRT_agg_proofs.some_inj in Ht. subst t.
    apply (inline_wrap _ (LLimit None) k); [reflexivity| |reflexivity].
    unfold inline_opers. do 4 apply palt_ok. rewrite palt_skip by kw_fails.
    apply p_limit_bare. now apply stop_eoq.
  - (* total *)
    cbn [wf_stage_syn wf_stage] in Hwf. cbn [pp_stage_syn] in Ht.
    destruct (so_default_as so && str_eqb n (lit "_total")) eqn:Ed;
      [|exact (stage_roundtrip o (STotal e n) t k Ho Hwf Hok Ht Hk1 Hk2)].
    apply andb_true_iff in Ed as [_ Ed]. apply Str_proofs.str_eqb_eq in Ed. subst n.
    rewrite app_nil_r in Ht. apply StageRT_agg_proofs.some_inj in Ht. subst t.
    apply (inline_wrap _ (LStage (STotal e (lit "_total"))) k); [reflexivity| |reflexivity].
    unfold inline_opers. do 1 apply palt_ok. rewrite palt_skip by kw_fails.
    now apply total_rt_default.
  - (* aggregation *)
    pose proof (wf_pct_exact o (SAgg fns keys) Hwf) as Hpct.
    cbn [wf_stage_syn wf_stage] in Hwf. apply andb_true_iff in Hwf as [Hwf Hkeys]. apply andb_true_iff in Hwf as [Hne Hfns].
    cbn [pp_stage_syn] in Ht.
    destruct (all_some (map (agg_item_syn o so) fns)) as [ts|] eqn:Ets; [|discriminate Ht].
    apply StageRT_agg_proofs.some_inj in Ht. subst t.
    exists (LMultiAgg (map (fun nf => (fst nf, LAgg (snd nf))) fns) keys). split.
    + apply (agg_rt_gen o Ho item_syn item_syn_oper item_syn_first fns keys ts k Hk).
      * destruct fns; [discriminate Hne|discriminate].
      * apply Forall_forall. intros [n f] Hin. rewrite forallb_forall in Hfns. split; [exact (Hfns _ Hin)|].
        cbn [snd]. destruct f; try exact I. cbn [pct_exact] in Hpct. now apply (Hpct n p e).
      * exact Hkeys.
      * exact (all_some_Forall2 (agg_item_syn o so) fns ts Ets).
    + cbn [check_lop]. now rewrite check_aggs.
  - (* sort *)
    cbn [wf_stage_syn wf_stage] in Hwf. cbn [pp_stage_syn] in Ht.
    apply StageRT_agg_proofs.some_inj in Ht. subst t.
    exists (LSort keys desc). split; [|reflexivity].
    apply (sort_rt_gen o Ho keys desc _ k Hwf Hk).
    unfold mode_text_ok, mode_words. destruct desc.
    + right. destruct (N.eqb (so_desc so) 0); [exists "desc"|destruct (N.eqb (so_desc so) 1); [exists "dsc"|exists "descending"]];
        (split; [cbn [In]; tauto|reflexivity]).
    + destruct (N.eqb (so_asc so) 0); [left; now split|right].
      destruct (N.eqb (so_asc so) 1); [exists "asc"|exists "ascending"]; (split; [cbn [In]; tauto|reflexivity]).
Qed.

End Syn.

(** * the statements *)
Theorem stage_roundtrip_syn (o : popts) (so : sopts) (st : stage) (t k : str) :
  popts_ok o = true -> wf_stage_syn o so st = true -> stage_ok st = true -> pp_stage_syn o so st = Some t ->
  stage_stop k = true -> single_pipe k = true ->
  exists lo, p_oper (t ++ k) = POk lo (skip_spaces k) /\ check_lop true lo = Some [st].
Proof. intros Ho. exact (stage_rt_syn o Ho so st t k). Qed.

Theorem query_roundtrip_syn (o : popts) (so : sopts) (fs : list filter) (stages : list stage) (t : str) :
  popts_ok o = true -> forallb wf_filter fs = true ->
  forallb (wf_stage_syn o so) stages = true -> forallb stage_ok stages = true ->
  pp_query_syn o so fs stages = Some t ->
  accepts t = Some (FAnd fs, stages).
Proof.
  intros Ho Hfs Hwf Hok Hpp.
  exact (query_roundtrip_gen o Ho (pp_stage_syn o so) (wf_stage_syn o so) (nph_stage_syn o so)
           (stage_rt_syn o Ho so) fs stages t Hfs Hwf Hok Hpp).
Qed.

Corollary query_synonym_spellings_agree (o1 o2 : popts) (so1 so2 : sopts) (fs : list filter) (stages : list stage) (t1 t2 : str) :
  popts_ok o1 = true -> popts_ok o2 = true -> forallb wf_filter fs = true ->
  forallb (wf_stage_syn o1 so1) stages = true -> forallb (wf_stage_syn o2 so2) stages = true -> forallb stage_ok stages = true ->
  pp_query_syn o1 so1 fs stages = Some t1 -> pp_query_syn o2 so2 fs stages = Some t2 ->
  accepts t1 = accepts t2.
Proof.
  intros Ho1 Ho2 Hfs Hwf1 Hwf2 Hok Ht1 Ht2.
  rewrite (query_roundtrip_syn o1 so1 fs stages t1 Ho1 Hfs Hwf1 Hok Ht1).
  rewrite (query_roundtrip_syn o2 so2 fs stages t2 Ho2 Hfs Hwf2 Hok Ht2). reflexivity.
Qed.

(** the canonical keywords are the special case *)
Lemma pp_stage_syn_canonical (o : popts) (st : stage) : pp_stage_syn o so_canonical st = pp_stage o st.
Proof.
  destruct st as [f|f|pat fields f nd nc|sep arg out|only fs|e|e n|e ns n|n|e n|fns keys|keys desc|];
    try reflexivity.
  - (* parse: the same text, differently bracketed *)
    cbn [pp_stage_syn pp_stage so_from_last so_canonical]. now rewrite <- app_assoc.
  - (* aggregation: item by item *)
  cbn [pp_stage_syn pp_stage].
  rewrite (map_ext _ _ (agg_item_syn_canonical o)). reflexivity.
Qed.

Print Assumptions stage_roundtrip_syn.
Print Assumptions query_roundtrip_syn.
Print Assumptions query_synonym_spellings_agree.
Print Assumptions pp_stage_syn_canonical.
