(** The text of a date: chrono 0.4.40 on [DateTime<Utc>] (src/data.rs: [to_rfc3339] in the JSON
    serializer, [Display] in the text / logfmt / format printers, [{:?}] in [Value]'s Debug arm).
    MODEL ONLY.  A date is [ns : Z], nanoseconds since the Unix epoch (Value.v, [VDate]).

    chrono sources read: datetime/mod.rs ([to_rfc3339], Display, Debug), format/formatting.rs
    ([write_rfc3339], SecondsFormat::AutoSi), naive/date/mod.rs (Debug for NaiveDate: years outside
    0..=9999 are written [{:+05}]: a mandatory sign and at least four digits), naive/time/mod.rs
    (Debug for NaiveTime: fraction of none / 3 / 6 / 9 digits), offset/utc.rs (Display "UTC", Debug "Z"). *)
From Coq Require Import List ZArith NArith Bool.
From AG Require Import Str.
Import ListNotations.
Open Scope Z_scope.

(** * days <-> civil date (proleptic Gregorian, any sign; Hinnant's civil_from_days with floor division) *)
Definition civil_from_days (d : Z) : Z * Z * Z :=
  let z := d + 719468 in
  let era := z / 146097 in
  let doe := z - era * 146097 in
  let yoe := (doe - doe / 1460 + doe / 36524 - doe / 146096) / 365 in
  let doy := doe - (365 * yoe + yoe / 4 - yoe / 100) in
  let mp := (5 * doy + 2) / 153 in
  let dd := doy - (153 * mp + 2) / 5 + 1 in
  let m := if mp <? 10 then mp + 3 else mp - 9 in
  let y := yoe + era * 400 in
  (if m <=? 2 then y + 1 else y, m, dd).

(** * the instant split with floor semantics ([div_euclid] / [rem_euclid] in chrono's from_timestamp) *)
Definition ns_per_s : Z := 1000000000.
Definition ns_secs (ns : Z) : Z := ns / ns_per_s.
Definition ns_nanos (ns : Z) : Z := ns mod ns_per_s.
Definition ns_days (ns : Z) : Z := ns_secs ns / 86400.
Definition ns_sod (ns : Z) : Z := ns_secs ns mod 86400.        (* second of the day *)
Definition ns_hour (ns : Z) : Z := ns_sod ns / 3600.
Definition ns_min (ns : Z) : Z := ns_sod ns / 60 mod 60.
Definition ns_sec (ns : Z) : Z := ns_sod ns mod 60.
Definition ns_year (ns : Z) : Z := let '(y, _, _) := civil_from_days (ns_days ns) in y.

(** * digits *)
Definition dig (z : Z) : N := (48 + Z.to_N (z mod 10))%N.
(** exactly [k] decimal digits of [z] (the low ones), zero padded *)
Fixpoint digs (k : nat) (z : Z) : str :=
  match k with
  | O => []
  | S k' => digs k' (z / 10) ++ [dig z]
  end.
(** number of decimal digits of a >= 0 (0 for 0) *)
Fixpoint ndig_fuel (fuel : nat) (a : Z) : nat :=
  match fuel with
  | O => O
  | S f => if a <? 10 then 1%nat else S (ndig_fuel f (a / 10))
  end.
Definition ndig (a : Z) : nat := ndig_fuel (S (Z.to_nat (Z.log2 a))) a.

(** the year: four digits in 0..=9999, else [{:+05}] — sign, then the magnitude padded to four digits *)
Definition year_str (y : Z) : str :=
  if (0 <=? y) && (y <=? 9999) then digs 4 y
  else let a := Z.abs y in
       (if y <? 0 then 45%N else 43%N) :: digs (Nat.max 4 (ndig a)) a.

(** the fraction: nothing, or '.' and 3 / 6 / 9 digits (the same rule in AutoSi and in NaiveTime's Debug) *)
Definition frac_str (nano : Z) : str :=
  if nano =? 0 then []
  else if nano mod 1000000 =? 0 then 46%N :: digs 3 (nano / 1000000)
  else if nano mod 1000 =? 0 then 46%N :: digs 6 (nano / 1000)
  else 46%N :: digs 9 nano.

(** date, separator, time, fraction, zone text *)
Definition fmt_gen (sep : N) (tail : str) (ns : Z) : str :=
  let '(y, m, d) := civil_from_days (ns_days ns) in
  year_str y ++ 45%N :: digs 2 m ++ 45%N :: digs 2 d ++ sep ::
  digs 2 (ns_hour ns) ++ 58%N :: digs 2 (ns_min ns) ++ 58%N :: digs 2 (ns_sec ns) ++
  frac_str (ns_nanos ns) ++ tail.

(** [dt.to_rfc3339()]: 2021-08-11T00:00:00+00:00 ([use_z] = false) *)
Definition fmt_rfc3339 (ns : Z) : str := fmt_gen 84%N [43; 48; 48; 58; 48; 48]%N ns.
(** [Display]: 2021-08-11 00:00:00 UTC *)
Definition fmt_date_display (ns : Z) : str := fmt_gen 32%N [32; 85; 84; 67]%N ns.
(** [Debug]: 2021-08-11T00:00:00Z *)
Definition fmt_date_debug (ns : Z) : str := fmt_gen 84%N [90%N] ns.
