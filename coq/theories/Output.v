(** Output side: Serialize impls (value -> JSON tree), the compact JSON text
    that serde_json writes, logfmt rows. *)
From Coq Require Import List ZArith NArith Bool Floats.SpecFloat.
From AG Require Import Str F64 Value Json Expr Ops Pipeline DatePaths DurFmt.
Import ListNotations.
Open Scope string_scope.
Open Scope list_scope.
Open Scope N_scope.

Definition hex_digit (n : N) : N := if n <? 10 then 48 + n else 87 + n.

(** serde_json string escaping *)
Definition esc_char (c : N) : str :=
  if c =? 34 then [92; 34] else if c =? 92 then [92; 92]
  else if c =? 10 then [92; 110] else if c =? 13 then [92; 114] else if c =? 9 then [92; 116]
  else if c =? 8 then [92; 98] else if c =? 12 then [92; 102]
  else if c <? 32 then [92; 117; 48; 48; hex_digit (c / 16); hex_digit (c mod 16)]
  else [c].

Definition print_str (s : str) : str := 34 :: flat_map esc_char s ++ [34].

Fixpoint intercalate (sep : str) (l : list str) : str :=
  match l with
  | [] => []
  | [x] => x
  | x :: r => x ++ sep ++ intercalate sep r
  end.

(** compact JSON text; [fmt] renders a finite non-integral double (ryu in the
    implementation: the shortest text that parses back to the same double) *)
Section Print.
  Variable fmt : f64 -> str.
  Fixpoint json_print (t : jtree) : str :=
    match t with
    | JNull => lit "null"
    | JBool true => lit "true"
    | JBool false => lit "false"
    | JInt z => Z_to_str z
    | JFloat f => fmt f
    | JStr s => print_str s
    | JArr l => 91 :: intercalate [44] (map json_print l) ++ [93]
    | JObj kvs =>
        123 :: intercalate [44] (map (fun kv => print_str (fst kv) ++ 58 :: json_print (snd kv)) kvs) ++ [125]
    end.
End Print.

(** the Serialize impls of data.rs; dates and durations are rendered by chrono
    ([fmt_date] = to_rfc3339, [fmt_dur] = Duration::to_string) *)
Section Ser.
  Variables (fmt_date fmt_dur : Z -> str).
  Fixpoint value_to_json (v : value) : jtree :=
    match v with
    | VStr s => JStr s
    | VInt z => JInt z
    | VFloat f => if f_is_finite f then JFloat f else JNull
    | VBool b => JBool b
    | VDate ns => JStr (fmt_date ns)
    | VDur ns => JStr (fmt_dur ns)
    | VObj kvs => JObj ((fix go (l : list (str * value)) :=
                           match l with
                           | [] => []
                           | (k, x) :: r => (k, value_to_json x) :: go r
                           end) kvs)
    | VArr l => JArr (map value_to_json l)
    | VNone => JNull
    end.

  (** a record: its fields in key order (data is kept key-sorted) *)
  Definition record_to_json (d : data) : jtree :=
    JObj (map (fun kv => (fst kv, value_to_json (snd kv))) d).

  (** an aggregate: an array of objects carrying every column in column order,
      a missing cell as null *)
  Definition table_to_json (t : table) : jtree :=
    JArr (map (fun d => JObj (map (fun c => (c, match get c d with
                                                | Some v => value_to_json v
                                                | None => JNull end)) (t_cols t)))
              (t_rows t)).
End Ser.

(** the date text of the JSON output: the "Serialize" path of data.rs, [to_rfc3339] (DateFmt.v); the
    serializers with that text filled in (the duration text stays a parameter: chrono's Duration Display) *)
Definition ser_date : Z -> str :=
  match date_form "Serialize" with Some f => f | None => fun _ => [] end.
Definition value_json (fmt_dur : Z -> str) : value -> jtree := value_to_json ser_date fmt_dur.
Definition record_json (fmt_dur : Z -> str) : data -> jtree := record_to_json ser_date fmt_dur.
Definition table_json (fmt_dur : Z -> str) : table -> jtree := table_to_json ser_date fmt_dur.

(** fully instantiated: the duration text of the JSON output is [d.to_string()], chrono's Display for TimeDelta (DurFmt.v) *)
Definition value_json' : value -> jtree := value_to_json ser_date fmt_dur_iso.
Definition record_json' : data -> jtree := record_to_json ser_date fmt_dur_iso.
Definition table_json' : table -> jtree := table_to_json ser_date fmt_dur_iso.
