(** Rust's [{}] for [f64] (what [Display for Value] prints for [Value::Float]): the shortest
    decimal digit string that reads back as the same double, in positional notation.

    [shortest] is the classical free-format algorithm (Steele-White / Burger-Dybvig) on exact
    integers: the double is [r / s], the half-gaps to its neighbours are [mp / s] and [mm / s],
    the bounds of the rounding interval are included iff the mantissa is even.  The text is then
    laid out as [core::num::flt2dec::digits_to_dec_str] does with [frac_digits = 0]. *)
From Coq Require Import List ZArith NArith Bool Floats.SpecFloat.
From AG Require Import Str F64.
Import ListNotations.
Open Scope Z_scope.

(** one digit per round; [None] = out of fuel (proved impossible for the fuel used below) *)
Fixpoint gen (fuel : nat) (r s mp mm : Z) (incl : bool) : option (list Z) :=
  match fuel with
  | O => None
  | S f =>
      let r10 := r * 10 in
      let mp10 := mp * 10 in
      let mm10 := mm * 10 in
      let d := r10 / s in
      let r' := r10 mod s in
      let tc1 := if incl then r' <=? mm10 else r' <? mm10 in
      let tc2 := if incl then s <=? r' + mp10 else s <? r' + mp10 in
      if tc1 then
        (if tc2 then (if r' * 2 <? s then Some [d] else Some [d + 1]) else Some [d])
      else if tc2 then Some [d + 1]
      else match gen f r' s mp10 mm10 incl with
           | Some l => Some (d :: l)
           | None => None
           end
  end.

(** [high < 10^k] (the upper bound itself may be printed when [incl]) *)
Definition k_ok (r s mp : Z) (incl : bool) (k : Z) : bool :=
  if 0 <=? k then
    (if incl then r + mp <? s * 10 ^ k else r + mp <=? s * 10 ^ k)
  else
    (if incl then (r + mp) * 10 ^ (- k) <? s else (r + mp) * 10 ^ (- k) <=? s).

Fixpoint find_k (n : nat) (r s mp : Z) (incl : bool) (k : Z) : Z :=
  match n with
  | O => k
  | S n' => if k_ok r s mp incl k then k else find_k n' r s mp incl (k + 1)
  end.

(** fuel that provably suffices: [mm * 10^fuel >= s] *)
Definition gen_fuel (s mm : Z) : nat := S (Z.to_nat (Z.log2_up s - Z.log2 mm)).

(** the scaled start state (r, s, mp, mm) and the decimal exponent k *)
Definition start (m : positive) (e : Z) : Z * Z * Z * Z * Z :=
  let mz := Zpos m in
  let boundary := (mz =? 2 ^ 52) && (-1074 <? e) in
  let '(r0, s0, mp0, mm0) :=
    if 0 <=? e then
      (if boundary then (mz * 2 ^ e * 4, 4, 2 ^ (e + 1), 2 ^ e)
       else (mz * 2 ^ e * 2, 2, 2 ^ e, 2 ^ e))
    else
      (if boundary then (mz * 4, 2 ^ (- e) * 4, 2, 1)
       else (mz * 2, 2 ^ (- e) * 2, 1, 1)) in
  let incl := Z.even mz in
  let est := ((Z.log2 mz + e) * 1233) / 4096 in
  let k := find_k 6 r0 s0 mp0 incl (est - 2) in
  if 0 <=? k then (r0, s0 * 10 ^ k, mp0, mm0, k)
  else (r0 * 10 ^ (- k), s0, mp0 * 10 ^ (- k), mm0 * 10 ^ (- k), k).

(** the value is [0.d1 d2 ... dn * 10^k] *)
Definition shortest (m : positive) (e : Z) : option (list Z * Z) :=
  let '(r, s, mp, mm, k) := start m e in
  match gen (gen_fuel s mm) r s mp mm (Z.even (Zpos m)) with
  | Some ds => Some (ds, k)
  | None => None
  end.

Definition digit_char (d : Z) : N := (48 + Z.to_N d)%N.

Fixpoint zeros (n : nat) : str :=
  match n with O => [] | S n' => 48%N :: zeros n' end.

(** [digits_to_dec_str] with [frac_digits = 0] *)
Definition positional (ds : str) (k : Z) : str :=
  if k <=? 0 then
    48%N :: 46%N :: zeros (Z.to_nat (- k)) ++ ds
  else if k <? Z.of_nat (length ds) then
    firstn (Z.to_nat k) ds ++ 46%N :: skipn (Z.to_nat k) ds
  else
    ds ++ zeros (Z.to_nat (k - Z.of_nat (length ds))).

Definition sign_str (s : bool) : str := if s then [45%N] else [].

(** out of fuel would print "?" (never: [shortest_some] in F64Display_proofs.v) *)
Definition f64_display (x : f64) : str :=
  match x with
  | S754_nan => [78; 97; 78]%N
  | S754_infinity s => sign_str s ++ [105; 110; 102]%N
  | S754_zero s => sign_str s ++ [48%N]
  | S754_finite s m e =>
      match shortest m e with
      | Some (ds, k) => sign_str s ++ positional (map digit_char ds) k
      | None => [63%N]
      end
  end.
