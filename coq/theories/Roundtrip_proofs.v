(** Every spelling of every well-formed expression parses back to that expression.

    [pp o ctx e] (Print.v) prints [e] with the spelling choices [o]: any run of
    whitespace where it is optional / required, `and`/`&&`, `or`/`||`, `!=`/`<>`,
    quote style, minimal or full parentheses.  [opt_expr] is the expression
    parser of lang.rs as transcribed in Grammar.v.  The theorem therefore states
    at once: `*` `/` bind tighter than `+` `-`, those tighter than comparisons,
    then `and`, then `or`; binary operators associate to the left; comparisons
    do not chain; redundant parentheses, layout and the synonyms do not matter. *)
From Coq Require Import List ZArith NArith Bool Lia Arith.
From AG Require Import Str F64 Value Json Expr Grammar Print.
Import ListNotations.
Open Scope string_scope.
Open Scope list_scope.
Open Scope nat_scope.

(* ------------------------------------------------------------------ *)
Open Scope string_scope.
Open Scope list_scope.
Open Scope nat_scope.

(** * basic string facts *)

Definition hdp (P : N -> bool) (s : str) : bool :=
  match s with [] => true | c :: _ => P c end.

Definition nsp (s : str) : Prop :=
  match s with [] => False | c :: _ => is_space c = false end.

Lemma skip_spaces_nsp s : nsp s -> skip_spaces s = s.
Proof. destruct s as [|c r]; cbn; [tauto|]. intros ->. reflexivity. Qed.

Lemma skip_spaces_app ws s : forallb is_space ws = true -> skip_spaces (ws ++ s) = skip_spaces s.
Proof.
  induction ws as [|c ws IH]; cbn [forallb app]; intros H; [reflexivity|].
  apply andb_true_iff in H as [H1 H2]. cbn [skip_spaces]. rewrite H1. auto.
Qed.

Lemma skip_ws_nsp ws s : forallb is_space ws = true -> nsp s -> skip_spaces (ws ++ s) = s.
Proof. intros H1 H2. rewrite skip_spaces_app by exact H1. now apply skip_spaces_nsp. Qed.

Lemma skip_spaces_idem s : skip_spaces (skip_spaces s) = skip_spaces s.
Proof.
  induction s as [|c r IH]; [reflexivity|]. cbn [skip_spaces].
  destruct (is_space c) eqn:E; [exact IH|]. cbn [skip_spaces]. now rewrite E.
Qed.

Lemma nsp_app s t : nsp s -> nsp (s ++ t).
Proof. destruct s; cbn; tauto. Qed.

Lemma strip_prefix_app p r : strip_prefix p (p ++ r) = Some r.
Proof. induction p as [|x p IH]; cbn; [reflexivity|]. now rewrite N.eqb_refl. Qed.

Lemma strip_prefix_inv p : forall s r, strip_prefix p s = Some r -> s = p ++ r.
Proof.
  induction p as [|x p IH]; cbn; intros s r H.
  - now injection H as ->.
  - destruct s as [|y s]; [discriminate|].
    destruct (N.eqb_spec x y) as [->|]; [|discriminate]. now rewrite (IH _ _ H).
Qed.

Lemma take_while_app f a : forall b, forallb f a = true -> hdp (fun c => negb (f c)) b = true ->
  take_while f (a ++ b) = (a, b).
Proof.
  induction a as [|c a IH]; intros b Ha Hb.
  - cbn [app]. destruct b as [|c b]; [reflexivity|]. cbn in Hb. cbn [take_while].
    apply negb_true_iff in Hb. now rewrite Hb.
  - cbn [forallb] in Ha. apply andb_true_iff in Ha as [H1 H2].
    cbn [app take_while]. rewrite H1, (IH b H2 Hb). reflexivity.
Qed.

(** * digits *)
Open Scope N_scope.

Lemma digits_val_app : forall a b acc, digits_val (a ++ b) acc = digits_val b (digits_val a acc).
Proof.
  induction a as [|x a IH]; intros b acc; cbn [app digits_val]; [reflexivity|apply IH].
Qed.

Lemma take_digits_app : forall ds rest,
  forallb is_digit ds = true -> hdp (fun c => negb (is_digit c)) rest = true ->
  take_digits (ds ++ rest) = (ds, rest).
Proof.
  induction ds as [|d ds IH]; intros rest Hd Hr.
  - cbn [app]. destruct rest as [|c r]; [reflexivity|].
    cbn [take_digits]. cbn in Hr. apply negb_true_iff in Hr. rewrite Hr. reflexivity.
  - cbn [forallb] in Hd. apply andb_true_iff in Hd as [Hd1 Hd2].
    cbn [app take_digits]. rewrite Hd1. rewrite (IH rest Hd2 Hr). reflexivity.
Qed.

Lemma pdf_spec : forall fuel n acc,
  0 < n -> n < 2 ^ N.of_nat fuel ->
  exists d ds, pos_digits_fuel fuel n acc = (d :: ds) ++ acc /\
               forallb is_digit (d :: ds) = true /\
               digits_val (d :: ds) 0 = n.
Proof.
  induction fuel as [|f IH]; intros n acc Hpos Hlt.
  - cbn in Hlt. lia.
  - cbn [pos_digits_fuel].
    assert (Hm : n mod 10 < 10) by (apply N.mod_lt; lia).
    pose proof (N.le_0_l (n mod 10)) as Hm0.
    pose proof (N.le_0_l (n / 10)) as Hq0.
    pose proof (N.div_mod n 10 ltac:(lia)) as Hdm.
    destruct (N.eqb_spec (n / 10) 0) as [Hq|Hq].
    + exists (48 + n mod 10), []. cbn [app]. split; [reflexivity|].
      split.
      { cbn [forallb]. unfold is_digit.
        destruct (N.leb_spec 48 (48 + n mod 10)) as [_|E]; [|lia].
        destruct (N.leb_spec (48 + n mod 10) 57) as [_|E]; [|lia]. reflexivity. }
      cbn [digits_val]. lia.
    + assert (Hq2 : n / 10 < 2 ^ N.of_nat f).
      { apply N.div_lt_upper_bound; [lia|].
        rewrite Nat2N.inj_succ, N.pow_succ_r' in Hlt. lia. }
      destruct (IH (n / 10) ((48 + n mod 10) :: acc) ltac:(lia) Hq2)
        as (d & ds & Heq & Hall & Hval).
      exists d, (ds ++ [48 + n mod 10]). split.
      { rewrite Heq. cbn [app]. rewrite <- app_assoc. reflexivity. }
      split.
      { cbn [forallb] in *. apply andb_true_iff in Hall as [Ha Hb].
        rewrite Ha, forallb_app, Hb. cbn [forallb andb]. unfold is_digit.
        destruct (N.leb_spec 48 (48 + n mod 10)) as [_|E]; [|lia].
        destruct (N.leb_spec (48 + n mod 10) 57) as [_|E]; [|lia]. reflexivity. }
      change (d :: ds ++ [48 + n mod 10]) with ((d :: ds) ++ [48 + n mod 10]).
      rewrite digits_val_app, Hval. cbn [digits_val]. lia.
Qed.

Lemma N_to_str_spec : forall p,
  exists d ds, N_to_str (Npos p) = d :: ds /\
               forallb is_digit (d :: ds) = true /\
               digits_val (d :: ds) 0 = Npos p.
Proof.
  intros p. unfold N_to_str.
  destruct (pdf_spec (S (N.to_nat (N.log2 (Npos p)))) (Npos p) []) as (d & ds & Heq & H).
  - lia.
  - rewrite Nat2N.inj_succ, N2Nat.id.
    apply N.log2_spec. lia.
  - exists d, ds. rewrite Heq, app_nil_r. split; [reflexivity|exact H].
Qed.

(** decimal text of an integer: optional minus, then a non-empty digit run with the right value *)
Lemma Z_to_str_spec z :
  exists d ds, Z_to_str z = (if (z <? 0)%Z then [45] else []) ++ d :: ds /\
               forallb is_digit (d :: ds) = true /\
               Z.of_N (digits_val (d :: ds) 0) = Z.abs z.
Proof.
  destruct z as [|p|p].
  - exists 48, []. repeat split.
  - destruct (N_to_str_spec p) as (d & ds & E & Hd & Hv).
    exists d, ds. cbn [Z_to_str Z.ltb Z.compare app]. rewrite E, Hv. repeat split; assumption.
  - destruct (N_to_str_spec p) as (d & ds & E & Hd & Hv).
    exists d, ds. cbn [Z_to_str Z.ltb Z.compare app]. rewrite E, Hv. repeat split; assumption.
Qed.

Lemma is_digit_not_45 c : is_digit c = true -> (c =? 45) = false.
Proof.
  intros H. destruct (N.eqb_spec c 45) as [->|]; [discriminate H|reflexivity].
Qed.

Lemma i64_parse_ok z r :
  in_i64 z = true -> hdp (fun c => negb (is_digit c)) r = true ->
  i64_parse (Z_to_str z ++ r) = POk z r.
Proof.
  intros Hin Hr. destruct (Z_to_str_spec z) as (d & ds & E & Hd & Hv).
  unfold i64_parse. rewrite E.
  assert (Hd0 : is_digit d = true) by (cbn [forallb] in Hd; now apply andb_true_iff in Hd).
  destruct (Z.ltb_spec z 0) as [Hneg|Hpos].
  - cbn [app strip_minus]. rewrite N.eqb_refl.
    change (d :: ds ++ r) with ((d :: ds) ++ r). rewrite (take_digits_app _ _ Hd Hr).
    cbn [is_nil]. rewrite Hv.
    replace (- Z.abs z)%Z with z by lia. now rewrite Hin.
  - cbn [app strip_minus]. rewrite (is_digit_not_45 _ Hd0).
    change (d :: ds ++ r) with ((d :: ds) ++ r). rewrite (take_digits_app _ _ Hd Hr).
    cbn [is_nil]. rewrite Hv.
    replace (Z.abs z) with z by lia. now rewrite Hin.
Qed.

(* ------------------------------------------------------------------ *)
Open Scope string_scope.
Open Scope list_scope.
Open Scope N_scope.

(** a character test decided by computation once the character is known *)
Ltac neq_by H c v :=
  destruct (N.eqb_spec c v) as [->|_]; [vm_compute in H; discriminate H|].
Ltac neq_by' H c v :=
  destruct (N.eqb_spec v c) as [<-|_]; [vm_compute in H; discriminate H|].

Lemma is_digit_ident c : is_digit c = true -> is_ident_char c = true.
Proof.
  intros H. unfold is_digit in H. apply andb_true_iff in H as [H1 H2].
  apply N.leb_le in H1, H2.
  unfold is_ident_char, is_alnum8, low_byte. rewrite (N.mod_small c 256) by lia.
  unfold is_digit. destruct (N.leb_spec 48 c); [|lia]. destruct (N.leb_spec c 57); [|lia].
  cbn. now rewrite orb_true_r.
Qed.

Lemma not_ident_not_digit c : is_ident_char c = false -> is_digit c = false.
Proof. intros H. destruct (is_digit c) eqn:E; [|reflexivity]. apply is_digit_ident in E. congruence. Qed.

Lemma is_digit_not_ws c : is_digit c = true -> is_ws c = false.
Proof.
  intros H. unfold is_digit in H. apply andb_true_iff in H as [H1 H2].
  apply N.leb_le in H1, H2. unfold is_ws.
  repeat match goal with
  | |- context [N.leb ?a ?b] => destruct (N.leb_spec a b); try lia
  | |- context [N.eqb ?a ?b] => destruct (N.eqb_spec a b); try lia
  end; reflexivity.
Qed.

Lemma trim_start_digits d ds : is_digit d = true -> trim_start (d :: ds) = d :: ds.
Proof. intros H. cbn [trim_start]. now rewrite (is_digit_not_ws _ H). Qed.

Lemma trim_digits ds : ds <> [] -> forallb is_digit ds = true -> trim ds = ds.
Proof.
  intros Hne Hd. unfold trim, trim_end.
  destruct ds as [|d ds']; [congruence|].
  assert (Hd0 : is_digit d = true) by (cbn [forallb] in Hd; now apply andb_true_iff in Hd).
  rewrite (trim_start_digits _ _ Hd0).
  assert (Hr : forallb is_digit (rev (d :: ds')) = true).
  { rewrite forallb_forall in *. intros x Hx. apply Hd. now apply in_rev. }
  destruct (rev (d :: ds')) as [|x xs] eqn:E.
  - apply (f_equal (@length N)) in E. rewrite rev_length in E. discriminate E.
  - assert (Hx : is_digit x = true) by (cbn [forallb] in Hr; now apply andb_true_iff in Hr).
    rewrite (trim_start_digits _ _ Hx), <- E. apply rev_involutive.
Qed.

Lemma from_string_int z : (0 <= z)%Z -> in_i64 z = true -> from_string (Z_to_str z) = VInt z.
Proof.
  intros Hz Hin. destruct (Z_to_str_spec z) as (d & ds & E & Hd & Hv).
  destruct (Z.ltb_spec z 0) as [?|_]; [lia|]. cbn [app] in E. rewrite E.
  unfold from_string. rewrite trim_digits by (congruence || exact Hd).
  assert (Hd0 : is_digit d = true) by (cbn [forallb] in Hd; now apply andb_true_iff in Hd).
  unfold parse_i64. cbn [strip_sign].
  destruct (N.eqb_spec d 45) as [->|_]; [discriminate Hd0|].
  destruct (N.eqb_spec d 43) as [->|_]; [discriminate Hd0|].
  unfold all_digits. rewrite Hd, Hv. replace (Z.abs z) with z by lia. now rewrite Hin.
Qed.

Lemma pdigit1_ok z r : (0 <= z)%Z -> hdp (fun c => negb (is_digit c)) r = true ->
  pdigit1 (Z_to_str z ++ r) = POk (Z_to_str z) r.
Proof.
  intros Hz Hr. destruct (Z_to_str_spec z) as (d & ds & E & Hd & Hv).
  destruct (Z.ltb_spec z 0) as [?|_]; [lia|]. cbn [app] in E. rewrite E.
  unfold pdigit1. rewrite (take_digits_app _ _ Hd Hr). reflexivity.
Qed.

Lemma dur_suffix_none r : hdp (fun c => negb (is_ident_char c)) r = true ->
  dur_suffix Generated.duration_suffixes r = None.
Proof.
  destruct r as [|c r]; [reflexivity|]. cbn [hdp]. intros H. apply negb_true_iff in H.
  unfold Generated.duration_suffixes. cbn [dur_suffix lit Ascii.N_of_ascii strip_prefix].
  cbn -[N.eqb is_ident_char].
  neq_by' H c 110. neq_by' H c 117. neq_by' H c 109. neq_by' H c 115.
  neq_by' H c 104. neq_by' H c 100. neq_by' H c 119. reflexivity.
Qed.

Lemma hdp_weaken (P Q : N -> bool) s : (forall c, P c = true -> Q c = true) -> hdp P s = true -> hdp Q s = true.
Proof. destruct s; cbn; auto. Qed.

Lemma duration_int_fail z r : hdp (fun c => negb (is_ident_char c)) r = true ->
  duration (Z_to_str z ++ r) = PFail.
Proof.
  intros Hr. unfold duration, duration_fragment.
  assert (Hr' : hdp (fun c => negb (is_digit c)) r = true).
  { revert Hr. apply hdp_weaken. intros c H. apply negb_true_iff in H. apply negb_true_iff.
    now apply not_ident_not_digit. }
  destruct (in_i64 z) eqn:Hin.
  - rewrite (i64_parse_ok _ _ Hin Hr'). cbn [pbind]. rewrite (dur_suffix_none _ Hr). reflexivity.
  - destruct (Z_to_str_spec z) as (d & ds & E & Hd & Hv). unfold i64_parse. rewrite E.
    assert (Hd0 : is_digit d = true) by (cbn [forallb] in Hd; now apply andb_true_iff in Hd).
    destruct (Z.ltb_spec z 0) as [Hneg|Hpos]; cbn [app strip_minus].
    + rewrite N.eqb_refl. change (d :: ds ++ r) with ((d :: ds) ++ r).
      rewrite (take_digits_app _ _ Hd Hr'). cbn [is_nil]. rewrite Hv.
      replace (- Z.abs z)%Z with z by lia. rewrite Hin. reflexivity.
    + rewrite (is_digit_not_45 _ Hd0). change (d :: ds ++ r) with ((d :: ds) ++ r).
      rewrite (take_digits_app _ _ Hd Hr'). cbn [is_nil]. rewrite Hv.
      replace (Z.abs z) with z by lia. rewrite Hin. reflexivity.
Qed.

(** * quoted strings *)
Lemma quoted_body_ok q s0 : q <> 92 -> forall fuel acc r,
  (length (escape_for q s0) < fuel)%nat ->
  quoted_body fuel q (escape_for q s0 ++ q :: r) acc = (rev acc ++ escape_for q s0, q :: r).
Proof.
  intros Hq. induction s0 as [|c s0 IH]; intros fuel acc r Hf.
  - destruct fuel as [|f]; [cbn in Hf; lia|]. cbn [escape_for app quoted_body].
    rewrite N.eqb_refl, app_nil_r. reflexivity.
  - destruct fuel as [|f]; [cbn in Hf; lia|]. cbn [escape_for] in *.
    destruct ((c =? 92) || (c =? q)) eqn:E.
    + cbn [app quoted_body length] in *.
      destruct (N.eqb_spec 92 q) as [E2|_]; [congruence|]. cbn [N.eqb Pos.eqb].
      rewrite IH by lia. cbn [rev]. rewrite <- !app_assoc. reflexivity.
    + apply orb_false_iff in E as [E1 E2]. cbn [app quoted_body length] in *.
      rewrite E2, E1. rewrite IH by lia. cbn [rev]. rewrite <- !app_assoc. reflexivity.
Qed.

Lemma unescape_escape q s : q = 39 \/ q = 34 -> unescape (escape_for q s) = s.
Proof.
  intros Hq. induction s as [|c s IH]; [reflexivity|]. cbn [escape_for].
  destruct (N.eqb_spec c 92) as [->|Hc].
  - cbn [orb unescape N.eqb Pos.eqb]. now rewrite IH.
  - cbn [orb]. destruct (N.eqb_spec c q) as [->|Hcq].
    + destruct Hq as [-> | ->]; cbn [unescape N.eqb Pos.eqb]; now rewrite IH.
    + cbn [unescape]. destruct (N.eqb_spec c 92); [contradiction|]. now rewrite IH.
Qed.

Lemma quoted_string_ok o s r : quoted_string (quote_str o s ++ r) = POk s r.
Proof.
  unfold quote_str. set (q := if po_dq o then 34 else 39).
  assert (Hq : q = 39 \/ q = 34) by (subst q; destruct (po_dq o); auto).
  assert (Hq92 : q <> 92) by (destruct Hq as [-> | ->]; discriminate).
  cbn [app quoted_string].
  assert (E : (q =? 39) || (q =? 34) = true) by (destruct Hq as [-> | ->]; reflexivity).
  rewrite E. rewrite <- app_assoc. cbn [app].
  rewrite quoted_body_ok; [|exact Hq92|rewrite app_length; cbn [length]; lia].
  cbn [rev app]. rewrite N.eqb_refl. now rewrite unescape_escape.
Qed.

(** * identifiers *)
Definition nid (s : str) : bool := hdp (fun c => negb (is_ident_char c)) s.

Lemma ident_ok o n r : (safe_name n = true -> nid r = true) ->
  ident (ident_text o n ++ r) = POk n r.
Proof.
  intros Hr. unfold ident_text, ident, palt. destruct (safe_name n) eqn:Hs.
  - unfold safe_name in Hs. destruct n as [|c n']; [discriminate|].
    do 3 (apply andb_true_iff in Hs as [Hs _]). apply andb_true_iff in Hs as [H1 H2].
    cbn [app bare_ident]. rewrite H1. rewrite (take_while_app _ _ _ H2 (Hr eq_refl)). reflexivity.
  - cbn [app bare_ident]. change (starts_ident 91) with false. cbv iota.
    unfold escaped_ident. cbn [eat N.eqb Pos.eqb]. rewrite <- app_assoc.
    rewrite quoted_string_ok. cbn [app eat N.eqb Pos.eqb]. reflexivity.
Qed.

(* ------------------------------------------------------------------ *)
Open Scope string_scope.
Open Scope list_scope.
Open Scope nat_scope.

(** * the printer, one layer at a time *)
Definition args_text (o : popts) (l : list expr) : str :=
  40%N :: po_ws0 o ++ sep_join (po_ws0 o ++ 44%N :: po_ws0 o) (map (pp o 0) l) ++ po_ws0 o ++ [41%N].

Definition body (o : popts) (e : expr) : str :=
  let w0 := po_ws0 o in
  let w1 := po_ws1 o in
  match e with
  | ECol h refs => ident_text o h ++ flat_map (ref_text o) refs
  | EVal (VStr s) => quote_str o s
  | EVal (VInt z) => Z_to_str z
  | EVal (VBool true) => lit "true"
  | EVal (VBool false) => lit "false"
  | EVal _ => lit "null"
  | ENot e1 => 33%N :: w0 ++ pp o 7 e1
  | ECall f l => f ++ args_text o l
  | EIf c t e2 => lit "if" ++ args_text o [c; t; e2]
  | ECmp c l r => pp o 4 l ++ w0 ++ cmp_text o c ++ w0 ++ pp o 4 r
  | EArith a l r =>
      match a with
      | AAdd | ASub => pp o 4 l ++ w0 ++ ar_text a ++ w0 ++ pp o 5 r
      | AMul | ADiv => pp o 5 l ++ w0 ++ ar_text a ++ w0 ++ pp o 6 r
      end
  | ELogic LAnd l r =>
      if po_words o then pp o 2 l ++ w1 ++ lit "and" ++ w1 ++ pp o 3 r
      else pp o 2 l ++ w0 ++ lit "&&" ++ w0 ++ pp o 3 r
  | ELogic LOr l r =>
      if po_words o then pp o 1 l ++ w1 ++ lit "or" ++ w1 ++ pp o 2 r
      else pp o 1 l ++ w0 ++ lit "||" ++ w0 ++ pp o 2 r
  | EError => []
  end.

Definition par (o : popts) (e : expr) : str := 40%N :: po_ws0 o ++ body o e ++ po_ws0 o ++ [41%N].
Definition parb (o : popts) (ctx : nat) (e : expr) : bool :=
  Nat.ltb (prec e) ctx || (po_full o && Nat.ltb (prec e) 7).

Lemma pp_eq o ctx e : pp o ctx e = if parb o ctx e then par o e else body o e.
Proof. destruct e; reflexivity. Qed.

Lemma prec_bounds e : 1 <= prec e <= 7.
Proof. destruct e as [| |? ? ?|[] ? ?|[] ? ?| | | |]; cbn; lia. Qed.

Lemma pp_0_1 o e : pp o 0 e = pp o 1 e.
Proof.
  rewrite !pp_eq. unfold parb. pose proof (prec_bounds e).
  destruct (Nat.ltb_spec (prec e) 0); [lia|]. destruct (Nat.ltb_spec (prec e) 1); [lia|]. reflexivity.
Qed.

(** * what may follow an expression of a given level *)
Definition afolb (c : N) : bool :=
  negb (is_ident_char c) && negb (c =? 40)%N && negb (c =? 46)%N && negb (c =? 91)%N.
Definition afol (k : str) : Prop := hdp afolb k = true.
Definition nomul (k : str) : Prop := muldiv_op (skip_spaces k) = PFail.
Definition noadd (k : str) : Prop := addsub_op (skip_spaces k) = PFail.
Definition nocmp (k : str) : Prop := comp_op (skip_spaces k) = PFail.
Definition noand (k : str) : Prop :=
  strip_prefix (lit "and") (skip_spaces k) = None /\ strip_prefix (lit "&&") (skip_spaces k) = None.
Definition noor (k : str) : Prop :=
  strip_prefix (lit "or") (skip_spaces k) = None /\ strip_prefix (lit "||") (skip_spaces k) = None.
Definition folops (n : nat) (k : str) : Prop :=
  (n <= 5 -> nomul k) /\ (n <= 4 -> noadd k) /\ (n <= 3 -> nocmp k)
  /\ (n <= 2 -> noand k) /\ (n <= 1 -> noor k).
Definition fol (n : nat) (k : str) : Prop := afol k /\ folops n k.

Lemma fol_mono n m k : n <= m -> fol n k -> fol m k.
Proof. unfold fol, folops. intros H (H0 & H1 & H2 & H3 & H4 & H5). repeat split; intros; (apply H1 || apply H2 || apply H3 || apply H4 || apply H5 || idtac); try lia; try apply H4; try apply H5; try lia; assumption. Qed.

Lemma fol_afol n k : fol n k -> afol k.
Proof. intros H; apply H. Qed.

Lemma afol_nid k : afol k -> nid k = true.
Proof.
  unfold afol, nid. apply hdp_weaken. intros c H. unfold afolb in H.
  do 3 (apply andb_true_iff in H as [H _]). exact H.
Qed.

(** keywords ([pkw]): like [ptag] whenever the rest does not continue an identifier *)
Lemma pkw_ok t k : nid k = true -> pkw t (lit t ++ k) = POk tt k.
Proof.
  intros Hk. unfold pkw. rewrite strip_prefix_app.
  destruct k as [|c k']; [now rewrite andb_false_r|].
  unfold nid in Hk. cbn [hdp] in Hk. apply negb_true_iff in Hk. now rewrite Hk, andb_false_r.
Qed.

Lemma pkw_none t s : strip_prefix (lit t) s = None -> pkw t s = PFail.
Proof. intros H. unfold pkw. now rewrite H. Qed.

Lemma pkw_ptag t s r : pkw t s = POk tt r -> ptag t s = POk tt r.
Proof.
  unfold pkw, ptag. destruct (strip_prefix (lit t) s) as [r'|]; [|discriminate].
  destruct (_ && _); [discriminate|auto].
Qed.

Lemma ptag_fail_pkw t s : ptag t s = PFail -> pkw t s = PFail.
Proof.
  unfold pkw, ptag. destruct (strip_prefix (lit t) s) as [r'|]; [discriminate|reflexivity].
Qed.

Lemma pkw_not_fatal t s : pkw t s <> PFatal.
Proof.
  unfold pkw. destruct (strip_prefix (lit t) s) as [r'|]; [|discriminate].
  destruct (_ && _); discriminate.
Qed.

Lemma afol_ws ws s : forallb is_space ws = true -> afol s -> afol (ws ++ s).
Proof.
  destruct ws as [|c ws]; [auto|]. cbn [forallb app]. intros H _. apply andb_true_iff in H as [H _].
  unfold afol. cbn [hdp]. unfold is_space in H.
  repeat (apply orb_true_iff in H as [H|H]); apply N.eqb_eq in H; subst c; reflexivity.
Qed.

Lemma fol_ws n ws s : forallb is_space ws = true -> fol n s -> fol n (ws ++ s).
Proof.
  intros Hw (H0 & H). split; [now apply afol_ws|].
  unfold folops, nomul, noadd, nocmp, noand, noor in *. rewrite (skip_spaces_app _ _ Hw). exact H.
Qed.

Lemma fol_ws1 n ws s : ws <> [] -> forallb is_space ws = true -> folops n s -> fol n (ws ++ s).
Proof.
  intros Hne Hw H. split.
  - destruct ws as [|c ws]; [congruence|]. cbn [forallb app] in *. apply andb_true_iff in Hw as [Hw _].
    unfold afol. cbn [hdp]. unfold is_space in Hw.
    repeat (apply orb_true_iff in Hw as [Hw|Hw]); apply N.eqb_eq in Hw; subst c; reflexivity.
  - unfold folops, nomul, noadd, nocmp, noand, noor in *. rewrite (skip_spaces_app _ _ Hw). exact H.
Qed.

(** * chains *)
Section Chain.
Context {A : Type} (op : parser A) (mk : A -> expr -> expr -> expr) (operand : parser expr).

Definition CHN (F : str -> Prop) (x : str) (e : expr) : Prop :=
  forall k, F k -> exists init r m, operand (x ++ k) = POk init r /\ m + length k <= length r /\
    forall n, chain_more op mk operand (m + n) init r = chain_more op mk operand n e k.

Lemma chain_stop n lhs k : op (skip_spaces k) = PFail -> chain_more op mk operand n lhs k = POk lhs k.
Proof. intros H. destruct n; cbn [chain_more]; [reflexivity|]. now rewrite H. Qed.

Lemma CHN_base (F : str -> Prop) x e : (forall k, F k -> operand (x ++ k) = POk e k) -> CHN F x e.
Proof. intros H k Hk. exists e, k, 0. split; [auto|]. split; [lia|]. reflexivity. Qed.

Lemma CHN_step (F : str -> Prop) xl l xr r a mid w :
  CHN F xl l ->
  (forall k, F k -> operand (xr ++ k) = POk r k) ->
  (forall y, F (mid ++ y)) ->
  (forall y, op (skip_spaces (mid ++ y)) = POk a y) ->
  (forall y, skip_spaces (w ++ xr ++ y) = xr ++ y) ->
  mid <> [] ->
  CHN F (xl ++ mid ++ w ++ xr) (mk a l r).
Proof.
  intros Hl Hr HF Hop Hw Hne k Hk.
  destruct (Hl (mid ++ w ++ xr ++ k) (HF _)) as (init & r0 & m & E1 & E2 & E3).
  exists init, r0, (S m). rewrite <- !app_assoc. split; [exact E1|]. split.
  - rewrite !app_length in E2. destruct mid; [congruence|]. cbn [length] in E2. lia.
  - intros n. replace (S m + n) with (m + S n) by lia. rewrite E3.
    cbn [chain_more]. rewrite Hop, Hw, (Hr _ Hk). reflexivity.
Qed.

Lemma CHN_finish (F : str -> Prop) x e k : CHN F x e -> F k -> op (skip_spaces k) = PFail ->
  (LET init, r <- operand (x ++ k) IN chain_more op mk operand (length r) init r) = POk e k.
Proof.
  intros H Hk Hs. destruct (H k Hk) as (init & r & m & E1 & E2 & E3).
  rewrite E1. cbn [pbind]. replace (length r) with (m + (length r - m)) by lia.
  rewrite E3. now apply chain_stop.
Qed.
End Chain.

Lemma ms1_ws ws y : ws <> [] -> forallb is_space ws = true -> nsp y -> ms1 (ws ++ y) = POk tt y.
Proof.
  intros Hne Hw Hy. destruct ws as [|c ws]; [congruence|]. cbn [forallb] in Hw.
  apply andb_true_iff in Hw as [H1 H2]. cbn [app ms1]. rewrite H1. now rewrite skip_ws_nsp.
Qed.

Section LChain.
Context (word sym : String.string) (lo : lgop) (operand : parser expr).

Definition CHL (F : str -> Prop) (x : str) (e : expr) : Prop :=
  forall k, F k -> exists init r m, operand (x ++ k) = POk init r /\ m + length k <= length r /\
    forall n, logic_more word sym lo operand (m + n) init r = logic_more word sym lo operand n e k.

Lemma logic_stop n lhs k :
  strip_prefix (lit word) (skip_spaces k) = None -> strip_prefix (lit sym) (skip_spaces k) = None ->
  logic_more word sym lo operand n lhs k = POk lhs k.
Proof.
  intros H1 H2. destruct n; cbn [logic_more]; [reflexivity|].
  destruct k as [|c r]; cbn [ms1].
  - now rewrite H2.
  - destruct (is_space c) eqn:E.
    + cbn [skip_spaces] in H1. rewrite E in H1. rewrite H1. now rewrite H2.
    + now rewrite H2.
Qed.

Lemma CHL_base (F : str -> Prop) x e : (forall k, F k -> operand (x ++ k) = POk e k) -> CHL F x e.
Proof. intros H k Hk. exists e, k, 0. split; [auto|]. split; [lia|]. reflexivity. Qed.

(** the word spelling: [w1 word w1] *)
Lemma CHL_step_word (F : str -> Prop) xl l xr r w1 :
  CHL F xl l ->
  (forall k, F k -> operand (xr ++ k) = POk r k) ->
  (forall y, F (w1 ++ lit word ++ y)) ->
  w1 <> [] -> forallb is_space w1 = true -> nsp (lit word) -> nsp xr ->
  CHL F (xl ++ w1 ++ lit word ++ w1 ++ xr) (ELogic lo l r).
Proof.
  intros Hl Hr HF Hne Hw Hnw Hnx k Hk.
  destruct (Hl (w1 ++ lit word ++ w1 ++ xr ++ k) (HF _)) as (init & r0 & m & E1 & E2 & E3).
  exists init, r0, (S m). rewrite <- !app_assoc. split; [exact E1|]. split.
  - rewrite !app_length in E2. destruct w1; [congruence|]. cbn [length] in E2. lia.
  - intros n. replace (S m + n) with (m + S n) by lia. rewrite E3.
    cbn [logic_more]. rewrite (ms1_ws _ _ Hne Hw) by now apply nsp_app.
    rewrite strip_prefix_app. rewrite (ms1_ws _ _ Hne Hw) by now apply nsp_app.
    rewrite (Hr _ Hk). reflexivity.
Qed.

(** the symbol spelling: [w0 sym w0] *)
Lemma CHL_step_sym (F : str -> Prop) xl l xr r w0 :
  CHL F xl l ->
  (forall k, F k -> operand (xr ++ k) = POk r k) ->
  (forall y, F (w0 ++ lit sym ++ y)) ->
  forallb is_space w0 = true -> nsp (lit sym) -> nsp xr ->
  (forall y, strip_prefix (lit word) (lit sym ++ y) = None) ->
  CHL F (xl ++ w0 ++ lit sym ++ w0 ++ xr) (ELogic lo l r).
Proof.
  intros Hl Hr HF Hw Hns Hnx Hdiff k Hk.
  destruct (Hl (w0 ++ lit sym ++ w0 ++ xr ++ k) (HF _)) as (init & r0 & m & E1 & E2 & E3).
  exists init, r0, (S m). rewrite <- !app_assoc. split; [exact E1|]. split.
  - rewrite !app_length in E2. destruct (lit sym); [destruct Hns|]. cbn [length] in E2. lia.
  - intros n. replace (S m + n) with (m + S n) by lia. rewrite E3.
    cbn [logic_more].
    assert (Hsk : skip_spaces (w0 ++ lit sym ++ w0 ++ xr ++ k) = lit sym ++ w0 ++ xr ++ k)
      by (apply skip_ws_nsp; [exact Hw|now apply nsp_app]).
    assert (Hb : match ms1 (w0 ++ lit sym ++ w0 ++ xr ++ k) with
                 | POk _ r1 => match strip_prefix (lit word) r1 with
                               | Some r2 => match ms1 r2 with
                                            | POk _ r3 => match operand r3 with
                                                          | POk e r4 => POk (Some e) r4
                                                          | PFail => POk None r2
                                                          | PFatal => PFatal
                                                          end
                                            | _ => POk None r2
                                            end
                               | None => PFail
                               end
                 | _ => PFail
                 end = PFail).
    { destruct w0 as [|c w0'].
      - cbn [app]. destruct (lit sym) as [|s0 sr] eqn:Es; [destruct Hns|]. cbn [app ms1].
        cbn in Hns. rewrite Hns. reflexivity.
      - rewrite (ms1_ws (c :: w0') _) by (congruence || exact Hw || now apply nsp_app).
        now rewrite Hdiff. }
    rewrite Hb, Hsk, strip_prefix_app, (skip_ws_nsp _ _ Hw) by now apply nsp_app.
    rewrite (Hr _ Hk). reflexivity.
Qed.

Lemma CHL_finish (F : str -> Prop) x e k : CHL F x e -> F k ->
  strip_prefix (lit word) (skip_spaces k) = None -> strip_prefix (lit sym) (skip_spaces k) = None ->
  (LET init, r <- operand (x ++ k) IN logic_more word sym lo operand (length r) init r) = POk e k.
Proof.
  intros H Hk Hs1 Hs2. destruct (H k Hk) as (init & r & m & E1 & E2 & E3).
  rewrite E1. cbn [pbind]. replace (length r) with (m + (length r - m)) by lia.
  rewrite E3. now apply logic_stop.
Qed.
End LChain.

(* ------------------------------------------------------------------ *)
Open Scope string_scope.
Open Scope list_scope.
Open Scope nat_scope.

Lemma afol_fol k n : 6 <= n -> afol k -> fol n k.
Proof. intros Hn H. split; [exact H|]. repeat split; intros; lia. Qed.

Section LevelStatements.
Variable oe : parser expr.

Definition S7 (x : str) (e : expr) := forall k, afol k -> p_atomic oe (x ++ k) = POk e k.
Definition S6 (x : str) (e : expr) := forall k, afol k -> p_unary oe (x ++ k) = POk e k.
Definition C5 (x : str) (e : expr) := CHN muldiv_op EArith (p_unary oe) (fol 6) x e.
Definition S5 (x : str) (e : expr) := forall k, fol 5 k -> p_term oe (x ++ k) = POk e k.
Definition C4 (x : str) (e : expr) := CHN addsub_op EArith (p_term oe) (fol 5) x e.
Definition S4 (x : str) (e : expr) := forall k, fol 4 k -> p_arith oe (x ++ k) = POk e k.
Definition S3 (x : str) (e : expr) := forall k, fol 3 k -> p_cmp oe (x ++ k) = POk e k.
Definition C2 (x : str) (e : expr) := CHL "and" "&&" LAnd (p_cmp oe) (fol 3) x e.
Definition S2 (x : str) (e : expr) := forall k, fol 2 k -> p_land oe (x ++ k) = POk e k.
Definition C1 (x : str) (e : expr) := CHL "or" "||" LOr (p_land oe) (fol 2) x e.
Definition S1 (x : str) (e : expr) := forall k, fol 1 k -> p_lor oe (x ++ k) = POk e k.

Definition Lev (n : nat) (x : str) (e : expr) : Prop :=
  match n with
  | 0 | 1 => C1 x e
  | 2 => C2 x e
  | 3 => S3 x e
  | 4 => C4 x e
  | 5 => C5 x e
  | 6 => S6 x e
  | _ => S7 x e
  end.

Lemma atomic_not_bang s e k : p_atomic oe s = POk e k -> eat 33%N s = None.
Proof.
  destruct s as [|c r]; [reflexivity|]. cbn [eat]. destruct (N.eqb_spec c 33) as [->|]; [|reflexivity].
  intros H. exfalso. revert H. vm_compute. discriminate.
Qed.

Lemma S7_S6 x e : S7 x e -> S6 x e.
Proof.
  intros H k Hk. unfold p_unary. rewrite (atomic_not_bang _ _ _ (H k Hk)). now apply H.
Qed.

Lemma S6_C5 x e : S6 x e -> C5 x e.
Proof. intros H. apply CHN_base. intros k Hk. apply H, Hk. Qed.

Lemma C5_S5 x e : C5 x e -> S5 x e.
Proof.
  intros H k Hk. unfold p_term. apply (CHN_finish _ _ _ _ _ _ _ H).
  - revert Hk. apply fol_mono. lia.
  - apply Hk. lia.
Qed.

Lemma S5_C4 x e : S5 x e -> C4 x e.
Proof. intros H. apply CHN_base. exact H. Qed.

Lemma C4_S4 x e : C4 x e -> S4 x e.
Proof.
  intros H k Hk. unfold p_arith. apply (CHN_finish _ _ _ _ _ _ _ H).
  - revert Hk. apply fol_mono. lia.
  - apply Hk. lia.
Qed.

Lemma S4_S3 x e : nsp x -> S4 x e -> S3 x e.
Proof.
  intros Hx H k Hk. unfold p_cmp. rewrite skip_spaces_nsp by now apply nsp_app.
  rewrite H by (revert Hk; apply fol_mono; lia). cbn [pbind].
  destruct Hk as (_ & _ & _ & Hc & _). unfold nocmp in Hc. rewrite Hc by lia. reflexivity.
Qed.

Lemma S3_C2 x e : S3 x e -> C2 x e.
Proof. intros H. apply CHL_base. exact H. Qed.

Lemma C2_S2 x e : C2 x e -> S2 x e.
Proof.
  intros H k Hk. unfold p_land. apply (CHL_finish _ _ _ _ _ _ _ _ H).
  - revert Hk. apply fol_mono. lia.
  - apply Hk. lia.
  - apply Hk. lia.
Qed.

Lemma S2_C1 x e : S2 x e -> C1 x e.
Proof. intros H. apply CHL_base. exact H. Qed.

Lemma C1_S1 x e : C1 x e -> S1 x e.
Proof.
  intros H k Hk. unfold p_lor. apply (CHL_finish _ _ _ _ _ _ _ _ H).
  - revert Hk. apply fol_mono. lia.
  - apply Hk. lia.
  - apply Hk. lia.
Qed.

Lemma Lev_step n x e : nsp x -> Lev (S n) x e -> Lev n x e.
Proof.
  intros Hx. destruct n as [|[|[|[|[|[|[|n]]]]]]]; cbn [Lev].
  - auto.
  - intros H. now apply S2_C1, C2_S2.
  - intros H. now apply S3_C2.
  - intros H. now apply S4_S3, C4_S4.
  - intros H. now apply S5_C4, C5_S5.
  - intros H. now apply S6_C5.
  - intros H. now apply S7_S6.
  - auto.
Qed.

Lemma Lev_down n m x e : n <= m -> nsp x -> Lev m x e -> Lev n x e.
Proof.
  intros Hnm Hx. induction Hnm as [|m Hnm IH]; [auto|]. intros H. apply IH. now apply Lev_step.
Qed.

Lemma Lev_S7 x e : Lev 7 x e -> S7 x e. Proof. auto. Qed.
Lemma Lev_S6 x e : Lev 6 x e -> S6 x e. Proof. auto. Qed.
Lemma Lev_S5 x e : Lev 5 x e -> S5 x e. Proof. apply C5_S5. Qed.
Lemma Lev_S4 x e : Lev 4 x e -> S4 x e. Proof. apply C4_S4. Qed.
Lemma Lev_S3 x e : Lev 3 x e -> S3 x e. Proof. auto. Qed.
Lemma Lev_S2 x e : Lev 2 x e -> S2 x e. Proof. apply C2_S2. Qed.
Lemma Lev_S1 x e : Lev 1 x e -> S1 x e. Proof. apply C1_S1. Qed.
End LevelStatements.

(* ------------------------------------------------------------------ *)
Open Scope string_scope.
Open Scope list_scope.
Open Scope nat_scope.

(** * atoms *)
Section Atoms.
Variable oe : parser expr.

Lemma p_atomic_unfold s :
  p_atomic oe s =
  match p_if oe s with
  | POk a r => POk a r | PFatal => PFatal
  | PFail =>
    match p_fcall oe s with
    | POk a r => POk a r | PFatal => PFatal
    | PFail =>
      match literal_value s with
      | POk a r => POk a r | PFatal => PFatal
      | PFail =>
        match column_ref s with
        | POk a r => POk a r | PFatal => PFatal
        | PFail => p_paren oe s
        end
      end
    end
  end.
Proof.
  unfold p_atomic, palt.
  destruct (p_if oe s); try reflexivity. destruct (p_fcall oe s); try reflexivity.
  destruct (literal_value s); reflexivity.
Qed.

Lemma literal_value_unfold s :
  literal_value s =
  match quoted_string s with
  | POk x r => POk (EVal (VStr x)) r | PFatal => PFatal
  | PFail =>
    match duration s with
    | POk x r => POk (EVal (VDur x)) r | PFatal => PFatal
    | PFail =>
      match pdigit1 s with
      | POk d r => POk (EVal (from_string d)) r | PFatal => PFatal
      | PFail =>
        match pkw "true" s with
        | POk _ r => POk (EVal (VBool true)) r | PFatal => PFatal
        | PFail =>
          match pkw "false" s with
          | POk _ r => POk (EVal (VBool false)) r | PFatal => PFatal
          | PFail =>
            match pkw "null" s with
            | POk _ r => POk (EVal VNone) r | PFatal => PFatal
            | PFail => PFail
            end
          end
        end
      end
    end
  end.
Proof.
  unfold literal_value, palt, pmap.
  destruct (quoted_string s); try reflexivity. destruct (duration s); try reflexivity.
  destruct (pdigit1 s); try reflexivity. destruct (pkw "true" s); try reflexivity.
  destruct (pkw "false" s); reflexivity.
Qed.

Lemma p_if_hd c r : (c =? 105)%N = false -> p_if oe (c :: r) = PFail.
Proof.
  intros H. unfold p_if. change (lit "if") with [105%N; 102%N]. cbn [strip_prefix].
  rewrite N.eqb_sym, H. reflexivity.
Qed.

Lemma ident_fail_hd c r : starts_ident c = false -> (c =? 91)%N = false -> ident (c :: r) = PFail.
Proof.
  intros H1 H2. unfold ident, palt, bare_ident, escaped_ident. rewrite H1. cbn [eat]. rewrite H2. reflexivity.
Qed.

Lemma p_fcall_fail s : ident s = PFail -> p_fcall oe s = PFail.
Proof. intros H. unfold p_fcall. now rewrite H. Qed.

Lemma column_ref_fail s : ident s = PFail -> column_ref s = PFail.
Proof. intros H. unfold column_ref. now rewrite H. Qed.

Lemma p_args_fail k : hdp (fun c => negb (c =? 40)%N) k = true -> p_args oe k = PFail.
Proof.
  destruct k as [|c r]; [reflexivity|]. cbn [hdp]. intros H. apply negb_true_iff in H.
  unfold p_args. cbn [eat]. now rewrite H.
Qed.

Lemma p_paren_fail_hd c r : (c =? 40)%N = false -> p_paren oe (c :: r) = PFail.
Proof. intros H. unfold p_paren. cbn [eat]. now rewrite H. Qed.

Lemma afol_not40 k : afol k -> hdp (fun c => negb (c =? 40)%N) k = true.
Proof.
  apply hdp_weaken. intros c H. unfold afolb in H.
  do 2 (apply andb_true_iff in H as [H _]). now apply andb_true_iff in H as [_ H].
Qed.

(** ** string literals *)
Lemma atom_str o t : S7 oe (quote_str o t) (EVal (VStr t)).
Proof.
  intros k _. rewrite p_atomic_unfold.
  assert (E : exists q r, quote_str o t ++ k = q :: r /\ (q = 34 \/ q = 39)%N).
  { unfold quote_str. destruct (po_dq o); eexists _, _; (split; [reflexivity|auto]). }
  destruct E as (q & r & E & Hq).
  assert (Hif : p_if oe (q :: r) = PFail) by (apply p_if_hd; destruct Hq as [-> | ->]; reflexivity).
  assert (Hid : ident (q :: r) = PFail) by (apply ident_fail_hd; destruct Hq as [-> | ->]; reflexivity).
  rewrite E, Hif, (p_fcall_fail _ Hid), <- E.
  rewrite literal_value_unfold, quoted_string_ok. reflexivity.
Qed.

(** ** integer literals *)
Lemma is_digit_not_start c : is_digit c = true -> starts_ident c = false.
Proof.
  intros H. unfold is_digit in H. apply andb_true_iff in H as [H1 H2].
  apply N.leb_le in H1, H2.
  unfold starts_ident, is_alpha8, low_byte. rewrite (N.mod_small c 256) by lia.
  unfold is_ascii_upper, is_ascii_lower.
  destruct (N.leb_spec 65 c); [lia|]. destruct (N.leb_spec 97 c); [lia|].
  destruct (N.eqb_spec c 95); [lia|]. reflexivity.
Qed.

Lemma quoted_string_fail_hd c r : (c =? 39)%N = false -> (c =? 34)%N = false -> quoted_string (c :: r) = PFail.
Proof. intros H1 H2. unfold quoted_string. now rewrite H1, H2. Qed.

Lemma atom_int z : (0 <= z)%Z -> in_i64 z = true -> S7 oe (Z_to_str z) (EVal (VInt z)).
Proof.
  intros Hz Hin k Hk. rewrite p_atomic_unfold.
  destruct (Z_to_str_spec z) as (d & ds & E & Hd & Hv).
  destruct (Z.ltb_spec z 0) as [?|_]; [lia|]. cbn [app] in E.
  assert (Hd0 : is_digit d = true) by (cbn [forallb] in Hd; now apply andb_true_iff in Hd).
  assert (Hif : p_if oe (d :: ds ++ k) = PFail).
  { apply p_if_hd. destruct (N.eqb_spec d 105) as [->|]; [discriminate Hd0|reflexivity]. }
  assert (Hid : ident (d :: ds ++ k) = PFail).
  { apply ident_fail_hd; [now apply is_digit_not_start|].
    destruct (N.eqb_spec d 91) as [->|]; [discriminate Hd0|reflexivity]. }
  assert (Hq : quoted_string (d :: ds ++ k) = PFail).
  { apply quoted_string_fail_hd.
    - destruct (N.eqb_spec d 39) as [->|]; [discriminate Hd0|reflexivity].
    - destruct (N.eqb_spec d 34) as [->|]; [discriminate Hd0|reflexivity]. }
  pose proof (afol_nid _ Hk) as Hn.
  assert (Hnd : hdp (fun c => negb (is_digit c)) k = true).
  { revert Hn. apply hdp_weaken. intros c H. apply negb_true_iff in H. apply negb_true_iff.
    now apply not_ident_not_digit. }
  pose proof (duration_int_fail z k Hn) as Hdur.
  pose proof (pdigit1_ok z k Hz Hnd) as Hpd.
  rewrite E in *. cbn [app] in *.
  rewrite Hif, (p_fcall_fail _ Hid), literal_value_unfold, Hq, Hdur, Hpd.
  rewrite <- E, from_string_int by assumption. reflexivity.
Qed.

(** ** the keyword literals *)
Lemma bare_kw (w : str) c w' k : w = c :: w' -> starts_ident c = true -> forallb is_ident_char w' = true ->
  afol k -> ident (w ++ k) = POk w k.
Proof.
  intros -> H1 H2 Hk. unfold ident, palt. cbn [app bare_ident]. rewrite H1.
  rewrite (take_while_app _ _ _ H2 (afol_nid _ Hk)). reflexivity.
Qed.

Lemma atom_kw (w : str) c w' v :
  w = c :: w' -> starts_ident c = true -> forallb is_ident_char w' = true ->
  (forall k, p_if oe (w ++ k) = PFail) ->
  (forall k, afol k -> literal_value (w ++ k) = POk (EVal v) k) ->
  S7 oe w (EVal v).
Proof.
  intros Hw H1 H2 Hif Hlit k Hk. rewrite p_atomic_unfold, Hif.
  unfold p_fcall. rewrite (bare_kw w c w' k Hw H1 H2 Hk).
  rewrite (p_args_fail _ (afol_not40 _ Hk)), (Hlit k Hk). reflexivity.
Qed.

Ltac lit_kw_pre k :=
  match goal with
  | |- literal_value (?w ++ k) = _ =>
    rewrite literal_value_unfold;
    let E1 := fresh in let E2 := fresh in let E3 := fresh in
    assert (E1 : quoted_string (w ++ k) = PFail) by (vm_compute; reflexivity);
    assert (E2 : duration (w ++ k) = PFail) by (vm_compute; reflexivity);
    assert (E3 : pdigit1 (w ++ k) = PFail) by (vm_compute; reflexivity);
    rewrite E1, E2, E3; clear E1 E2 E3
  end.

Lemma lit_kw_true k : afol k -> literal_value (lit "true" ++ k) = POk (EVal (VBool true)) k.
Proof. intros Hk. lit_kw_pre k. now rewrite (pkw_ok "true" k (afol_nid _ Hk)). Qed.
Lemma lit_kw_false k : afol k -> literal_value (lit "false" ++ k) = POk (EVal (VBool false)) k.
Proof.
  intros Hk. lit_kw_pre k. rewrite (pkw_none "true" (lit "false" ++ k) eq_refl).
  now rewrite (pkw_ok "false" k (afol_nid _ Hk)).
Qed.
Lemma lit_kw_null k : afol k -> literal_value (lit "null" ++ k) = POk (EVal VNone) k.
Proof.
  intros Hk. lit_kw_pre k. rewrite (pkw_none "true" (lit "null" ++ k) eq_refl).
  rewrite (pkw_none "false" (lit "null" ++ k) eq_refl).
  now rewrite (pkw_ok "null" k (afol_nid _ Hk)).
Qed.

Lemma atom_true : S7 oe (lit "true") (EVal (VBool true)).
Proof.
  eapply atom_kw; [reflexivity|reflexivity|reflexivity|intros k; vm_compute; reflexivity|apply lit_kw_true].
Qed.
Lemma atom_false : S7 oe (lit "false") (EVal (VBool false)).
Proof.
  eapply atom_kw; [reflexivity|reflexivity|reflexivity|intros k; vm_compute; reflexivity|apply lit_kw_false].
Qed.
Lemma atom_null : S7 oe (lit "null") (EVal VNone).
Proof.
  eapply atom_kw; [reflexivity|reflexivity|reflexivity|intros k; vm_compute; reflexivity|apply lit_kw_null].
Qed.
End Atoms.

(* ------------------------------------------------------------------ *)
Open Scope string_scope.
Open Scope list_scope.
Open Scope nat_scope.

(** ** column references *)
Section Cols.
Variable oe : parser expr.
Variable o : popts.

(** not an identifier character and not an opening parenthesis *)
Definition rfolb (c : N) : bool := negb (is_ident_char c) && negb (c =? 40)%N.
Definition rfol (t : str) : bool := hdp rfolb t.

Lemma afol_rfol k : afol k -> rfol k = true.
Proof.
  apply hdp_weaken. intros c H. unfold afolb in H. do 2 (apply andb_true_iff in H as [H _]). exact H.
Qed.

Lemma rfol_nid t : rfol t = true -> nid t = true.
Proof. apply hdp_weaken. intros c H. now apply andb_true_iff in H as [H _]. Qed.

Lemma rfol_not40 t : rfol t = true -> hdp (fun c => negb (c =? 40)%N) t = true.
Proof. apply hdp_weaken. intros c H. now apply andb_true_iff in H as [_ H]. Qed.

Lemma reftail_rfol refs k : afol k -> rfol (flat_map (ref_text o) refs ++ k) = true.
Proof.
  intros Hk. destruct refs as [|[f|i] refs]; [now apply afol_rfol| |]; reflexivity.
Qed.

Lemma sp_app_none p : forallb is_ident_char p = true -> forall h t, nid t = true ->
  strip_prefix p h = None -> strip_prefix p (h ++ t) = None.
Proof.
  induction p as [|x p IH]; intros Hp h t Ht Hn; [discriminate Hn|].
  cbn [forallb] in Hp. apply andb_true_iff in Hp as [Hx Hp].
  destruct h as [|y h].
  - cbn [app]. destruct t as [|c t]; [reflexivity|]. cbn [strip_prefix].
    destruct (N.eqb_spec x c) as [->|]; [|reflexivity].
    cbn in Ht. rewrite Hx in Ht. discriminate Ht.
  - cbn [app strip_prefix] in *. destruct (x =? y)%N; [now apply IH|reflexivity].
Qed.

Lemma starts_not c v : starts_ident c = true -> starts_ident v = false -> (c =? v)%N = false.
Proof. intros H1 H2. destruct (N.eqb_spec c v) as [->|]; [congruence|reflexivity]. Qed.

Lemma safe_parts n : safe_name n = true ->
  exists c n', n = c :: n' /\ starts_ident c = true /\ forallb is_ident_char n' = true /\
    strip_prefix (lit "true") n = None /\ strip_prefix (lit "false") n = None /\ strip_prefix (lit "null") n = None.
Proof.
  unfold safe_name. destruct n as [|c n']; [discriminate|]. intros H.
  apply andb_true_iff in H as [H H5]. apply andb_true_iff in H as [H H4]. apply andb_true_iff in H as [H H3].
  apply andb_true_iff in H as [H1 H2]. exists c, n'. repeat split; try assumption.
  - destruct (strip_prefix (lit "true") (c :: n')); [discriminate H3|reflexivity].
  - destruct (strip_prefix (lit "false") (c :: n')); [discriminate H4|reflexivity].
  - destruct (strip_prefix (lit "null") (c :: n')); [discriminate H5|reflexivity].
Qed.

Lemma starts_is_ident c : starts_ident c = true -> is_ident_char c = true.
Proof.
  unfold starts_ident, is_ident_char, is_alnum8. intros H. apply orb_true_iff in H as [H|H]; rewrite H; [reflexivity|].
  now rewrite orb_true_r.
Qed.

(** a bare name is not taken for [if(...)] *)
Lemma p_if_name n t : safe_name n = true -> rfol t = true -> p_if oe (n ++ t) = PFail.
Proof.
  intros Hs Ht. destruct (safe_parts _ Hs) as (c & n' & -> & H1 & H2 & _).
  unfold p_if. destruct (strip_prefix (lit "if") ((c :: n') ++ t)) as [r|] eqn:E; [|reflexivity].
  apply strip_prefix_inv in E. change (lit "if") with [105%N; 102%N] in E.
  rewrite p_args_fail; [reflexivity|].
  destruct n' as [|c2 n'']; cbn [app] in E.
  - destruct t as [|c2 t']; [discriminate E|]. injection E as _ -> _. discriminate Ht.
  - injection E as _ _ E. rewrite <- E.
    destruct n'' as [|c3 n3]; cbn [app].
    + now apply rfol_not40.
    + cbn [hdp]. cbn [forallb] in H2. apply andb_true_iff in H2 as [_ H2]. apply andb_true_iff in H2 as [H2 _].
      destruct (N.eqb_spec c3 40) as [->|]; [discriminate H2|reflexivity].
Qed.

Lemma literal_value_name n t : safe_name n = true -> nid t = true -> literal_value (n ++ t) = PFail.
Proof.
  intros Hs Ht. destruct (safe_parts _ Hs) as (c & n' & -> & H1 & H2 & H3 & H4 & H5).
  assert (Hid : forallb is_ident_char (c :: n') = true) by (cbn [forallb]; now rewrite (starts_is_ident _ H1), H2).
  rewrite literal_value_unfold. unfold pkw.
  rewrite (sp_app_none (lit "true") eq_refl _ _ Ht H3).
  rewrite (sp_app_none (lit "false") eq_refl _ _ Ht H4).
  rewrite (sp_app_none (lit "null") eq_refl _ _ Ht H5).
  cbn [app].
  rewrite quoted_string_fail_hd by (apply starts_not; [exact H1|reflexivity]).
  assert (Hdig : is_digit c = false).
  { destruct (is_digit c) eqn:E; [|reflexivity]. apply is_digit_not_start in E. congruence. }
  assert (Hdur : duration (c :: n' ++ t) = PFail).
  { unfold duration, duration_fragment, i64_parse. cbn [strip_minus].
    rewrite (starts_not c 45 H1 eq_refl). cbn [take_digits]. rewrite Hdig. reflexivity. }
  assert (Hpd : pdigit1 (c :: n' ++ t) = PFail).
  { unfold pdigit1. cbn [take_digits]. rewrite Hdig. reflexivity. }
  rewrite Hdur, Hpd. reflexivity.
Qed.

Lemma length_flat_map_refs refs : length refs <= length (flat_map (ref_text o) refs).
Proof.
  induction refs as [|r refs IH]; [reflexivity|]. cbn [flat_map length]. rewrite app_length.
  destruct r; cbn [ref_text length]; lia.
Qed.

Lemma many_refs_ok k : afol k -> forall refs n acc, length refs <= n -> forallb wf_ref refs = true ->
  many_refs n (flat_map (ref_text o) refs ++ k) acc = POk (rev acc ++ refs) k.
Proof.
  intros Hk. induction refs as [|r refs IH]; intros n acc Hn Hwf.
  - cbn [flat_map app]. rewrite app_nil_r. destruct n as [|n]; [reflexivity|]. cbn [many_refs].
    assert (E : (dot_property <|> index_access) k = PFail).
    { unfold palt, dot_property, index_access. destruct k as [|c k']; [reflexivity|].
      cbn [eat]. unfold afol in Hk. cbn [hdp] in Hk. unfold afolb in Hk.
      apply andb_true_iff in Hk as [Hk H91]. apply andb_true_iff in Hk as [_ H46].
      apply negb_true_iff in H91, H46. now rewrite H46, H91. }
    now rewrite E.
  - destruct n as [|n]; [cbn in Hn; lia|]. cbn [length] in Hn. cbn [forallb] in Hwf.
    apply andb_true_iff in Hwf as [Hr Hwf].
    cbn [flat_map many_refs]. rewrite <- app_assoc.
    pose proof (reftail_rfol refs k Hk) as Ht. set (t := flat_map (ref_text o) refs ++ k) in *.
    assert (E : (dot_property <|> index_access) (ref_text o r ++ t) = POk r t).
    { unfold palt. destruct r as [f|i]; cbn [ref_text app].
      - unfold dot_property. cbn [eat N.eqb Pos.eqb]. unfold pmap.
        rewrite ident_ok by (intros _; now apply rfol_nid). reflexivity.
      - unfold dot_property. cbn [eat N.eqb Pos.eqb]. unfold index_access. cbn [eat N.eqb Pos.eqb].
        rewrite <- app_assoc. cbn [wf_ref] in Hr. rewrite i64_parse_ok by (exact Hr || reflexivity).
        cbn [app eat N.eqb Pos.eqb]. reflexivity. }
    rewrite E. rewrite IH by (lia || exact Hwf). cbn [rev]. rewrite <- app_assoc. reflexivity.
Qed.

Lemma atom_col h refs : forallb wf_ref refs = true -> S7 oe (ident_text o h ++ flat_map (ref_text o) refs) (ECol h refs).
Proof.
  intros Hwf k Hk. rewrite <- app_assoc.
  pose proof (reftail_rfol refs k Hk) as Ht.
  assert (Hlen : length refs <= length (flat_map (ref_text o) refs ++ k)).
  { rewrite app_length. pose proof (length_flat_map_refs refs). lia. }
  set (t := flat_map (ref_text o) refs ++ k) in *.
  assert (Hid : ident (ident_text o h ++ t) = POk h t) by (apply ident_ok; intros _; now apply rfol_nid).
  assert (Hif : p_if oe (ident_text o h ++ t) = PFail).
  { unfold ident_text. destruct (safe_name h) eqn:Hs; [now apply p_if_name|]. now apply p_if_hd. }
  assert (Hlit : literal_value (ident_text o h ++ t) = PFail).
  { unfold ident_text. destruct (safe_name h) eqn:Hs; [apply literal_value_name; [exact Hs|now apply rfol_nid]|].
    cbn [app]. generalize (quote_str o h ++ [93%N]) as y. intros y. generalize (y ++ t) as z. intros z.
    vm_compute. reflexivity. }
  rewrite p_atomic_unfold, Hif. unfold p_fcall. rewrite Hid, (p_args_fail _ _ (rfol_not40 _ Ht)), Hlit.
  unfold column_ref. rewrite Hid. cbn [pbind].
  subst t. rewrite many_refs_ok by assumption. reflexivity.
Qed.
End Cols.

(* ------------------------------------------------------------------ *)
Open Scope string_scope.
Open Scope list_scope.
Open Scope nat_scope.

Lemma space_not_start c : is_space c = true -> starts_ident c = false.
Proof.
  unfold is_space. intros H.
  repeat (apply orb_true_iff in H as [H|H]); apply N.eqb_eq in H; subst c; reflexivity.
Qed.

Lemma start_not_space c : starts_ident c = true -> is_space c = false.
Proof. intros H. destruct (is_space c) eqn:E; [|reflexivity]. apply space_not_start in E. congruence. Qed.

Lemma digit_not_space c : is_digit c = true -> is_space c = false.
Proof.
  intros Hd. destruct (is_space c) eqn:H; [|reflexivity]. unfold is_space in H.
  repeat (apply orb_true_iff in H as [H|H]); apply N.eqb_eq in H; subst c; discriminate Hd.
Qed.

Lemma fol_close y : fol 0 (41%N :: y).
Proof. repeat split; intros; vm_compute; reflexivity. Qed.
Lemma fol_comma y : fol 0 (44%N :: y).
Proof. repeat split; intros; vm_compute; reflexivity. Qed.

Definition goodhd (c : N) : Prop := is_space c = false /\ (c =? 61)%N = false /\ (c =? 62)%N = false.
Definition ghd (s : str) : Prop := match s with [] => False | c :: _ => goodhd c end.
Lemma ghd_nsp s : ghd s -> nsp s.
Proof. destruct s; [auto|]. intros H; apply H. Qed.
Lemma ghd_app s t : ghd s -> ghd (s ++ t).
Proof. destruct s; cbn; tauto. Qed.
Lemma start_goodhd c : starts_ident c = true -> goodhd c.
Proof.
  intros H. split; [now apply start_not_space|]. split; apply starts_not; (exact H || reflexivity).
Qed.

Section Compound.
Variable oe : parser expr.
Variable o : popts.
Hypothesis Hw0 : forallb is_space (po_ws0 o) = true.
Hypothesis Hw1 : forallb is_space (po_ws1 o) = true.
Hypothesis Hw1ne : po_ws1 o <> [].

Lemma ghd_both e : wf_expr e = true -> ghd (body o e) /\ forall n, ghd (pp o n e).
Proof.
  induction e as [h refs|e1 IH|c l IHl r IHr|a l IHl r IHr|lo l IHl r IHr|f args|c t e2| v |];
    intros Hwf;
    (match goal with |- ghd (body o ?e) /\ _ => assert (Hb : ghd (body o e)) end;
     [|split; [exact Hb|intros n; rewrite pp_eq; destruct (parb o n _); [repeat split|exact Hb]]]);
    cbn [body].
  - apply ghd_app. unfold ident_text. destruct (safe_name h) eqn:Hs; [|repeat split].
    destruct (safe_parts _ Hs) as (c & n' & -> & H1 & _). cbn [ghd]. now apply start_goodhd.
  - repeat split.
  - cbn [wf_expr] in Hwf. apply andb_true_iff in Hwf as [Hl _]. apply ghd_app. now apply IHl.
  - cbn [wf_expr] in Hwf. apply andb_true_iff in Hwf as [Hl _]. destruct a; apply ghd_app; now apply IHl.
  - cbn [wf_expr] in Hwf. apply andb_true_iff in Hwf as [Hl _].
    destruct lo, (po_words o); apply ghd_app; now apply IHl.
  - cbn [wf_expr] in Hwf. apply andb_true_iff in Hwf as [Hs _]. apply andb_true_iff in Hs as [Hs _].
    destruct (safe_parts _ Hs) as (c & n' & -> & H1 & _). cbn [app ghd]. now apply start_goodhd.
  - repeat split.
  - destruct v as [s|z|fl|[|]|ns|ns|kvs|l|]; try discriminate Hwf; try (repeat split; fail).
    + unfold quote_str. destruct (po_dq o); repeat split.
    + destruct (Z_to_str_spec z) as (d & ds & E & Hd & _). cbn [wf_expr] in Hwf.
      apply andb_true_iff in Hwf as [Hz _]. apply Z.leb_le in Hz.
      destruct (Z.ltb_spec z 0); [lia|]. rewrite E. cbn [app ghd].
      cbn [forallb] in Hd. apply andb_true_iff in Hd as [Hd _].
      split; [now apply digit_not_space|].
      split; [destruct (N.eqb_spec d 61) as [->|]|destruct (N.eqb_spec d 62) as [->|]]; (discriminate Hd || reflexivity).
  - discriminate Hwf.
Qed.

Lemma ghd_pp e n : wf_expr e = true -> ghd (pp o n e).
Proof. intros H. now apply ghd_both. Qed.
Lemma nsp_pp e : wf_expr e = true -> forall n, nsp (pp o n e).
Proof. intros H n. apply ghd_nsp. now apply ghd_both. Qed.
Lemma nsp_body e : wf_expr e = true -> nsp (body o e).
Proof. intros H. apply ghd_nsp. now apply ghd_both. Qed.

(** ** argument lists *)
Definition OE (a : expr) : Prop :=
  forall ws k, forallb is_space ws = true -> fol 1 k -> oe (ws ++ pp o 0 a ++ k) = POk a k.

Definition sepc : str := po_ws0 o ++ 44%N :: po_ws0 o.
Definition tailtxt (l : list expr) : str := flat_map (fun a => sepc ++ pp o 0 a) l.

Lemma sep_join_cons l : forall a, sep_join sepc (map (pp o 0) (a :: l)) = pp o 0 a ++ tailtxt l.
Proof.
  induction l as [|b l IH]; intros a.
  - cbn. now rewrite app_nil_r.
  - change (sep_join sepc (map (pp o 0) (a :: b :: l))) with (pp o 0 a ++ sepc ++ sep_join sepc (map (pp o 0) (b :: l))).
    rewrite IH. cbn [tailtxt flat_map]. now rewrite <- app_assoc.
Qed.

Lemma length_tailtxt l : length l <= length (tailtxt l).
Proof.
  induction l as [|a l IH]; [reflexivity|].
  change (tailtxt (a :: l)) with ((sepc ++ pp o 0 a) ++ tailtxt l). unfold sepc.
  rewrite !app_length. cbn [length]. lia.
Qed.

Lemma fol_tail l k : fol 0 (tailtxt l ++ po_ws0 o ++ 41%N :: k).
Proof.
  destruct l as [|a l].
  - cbn [tailtxt flat_map app]. apply fol_ws; [exact Hw0|apply fol_close].
  - change (tailtxt (a :: l)) with ((sepc ++ pp o 0 a) ++ tailtxt l). unfold sepc. rewrite <- !app_assoc. apply fol_ws; [exact Hw0|].
    cbn [app]. apply fol_comma.
Qed.

Lemma args_more_ok k : forall l n acc, length l < n -> Forall OE l ->
  args_more oe n (tailtxt l ++ po_ws0 o ++ 41%N :: k) acc = POk (rev acc ++ l) k.
Proof.
  induction l as [|a l IH]; intros n acc Hn Hl.
  - destruct n as [|n]; [lia|]. cbn [tailtxt flat_map app args_more].
    rewrite skip_ws_nsp by (exact Hw0 || reflexivity). cbn [eat N.eqb Pos.eqb]. now rewrite app_nil_r.
  - destruct n as [|n]; [cbn in Hn; lia|]. cbn [length] in Hn. inversion Hl as [|? ? Ha Hl']; subst.
    change (tailtxt (a :: l)) with ((sepc ++ pp o 0 a) ++ tailtxt l).
    cbn [args_more]. unfold sepc. rewrite <- !app_assoc.
    rewrite skip_ws_nsp by (exact Hw0 || reflexivity). cbn [app eat N.eqb Pos.eqb].
    rewrite Ha by (exact Hw0 || (eapply fol_mono; [|apply fol_tail]; lia)).
    rewrite IH by (lia || assumption). cbn [rev]. now rewrite <- app_assoc.
Qed.

Hypothesis Hoe_close : forall y, oe (41%N :: y) = PFail.

Lemma p_args_ok l k : Forall OE l -> (forall a, In a l -> wf_expr a = true) ->
  p_args oe (args_text o l ++ k) = POk l k.
Proof.
  intros Hl Hwf. unfold args_text, p_args. cbn [app eat N.eqb Pos.eqb].
  destruct l as [|a l].
  - cbn [map sep_join app]. rewrite <- !app_assoc. cbn [app].
    rewrite skip_spaces_app by exact Hw0. rewrite skip_ws_nsp by (exact Hw0 || reflexivity).
    rewrite Hoe_close. cbn [skip_spaces]. change (is_space 41) with false. cbv iota.
    cbn [eat N.eqb Pos.eqb]. reflexivity.
  - rewrite sep_join_cons. rewrite <- !app_assoc.
    rewrite skip_ws_nsp by (exact Hw0 || apply nsp_app, nsp_pp, Hwf; now left).
    inversion Hl as [|? ? Ha Hl']; subst.
    change (pp o 0 a ++ tailtxt l ++ po_ws0 o ++ [41%N] ++ k)
      with ([] ++ pp o 0 a ++ tailtxt l ++ po_ws0 o ++ 41%N :: k).
    rewrite Ha by (reflexivity || (eapply fol_mono; [|apply fol_tail]; lia)).
    rewrite args_more_ok; [reflexivity| |exact Hl'].
    rewrite !app_length. pose proof (length_tailtxt l). lia.
Qed.

Lemma atom_call f l : safe_name f = true -> str_eqb f (lit "if") = false ->
  Forall OE l -> (forall a, In a l -> wf_expr a = true) ->
  S7 oe (f ++ args_text o l) (ECall f l).
Proof.
  intros Hs Hif Hl Hwf k _. rewrite <- app_assoc. rewrite p_atomic_unfold.
  assert (E1 : p_if oe (f ++ args_text o l ++ k) = PFail).
  { destruct (safe_parts _ Hs) as (c & n' & -> & H1 & H2 & _).
    unfold p_if. destruct (strip_prefix (lit "if") ((c :: n') ++ args_text o l ++ k)) as [r|] eqn:E; [|reflexivity].
    apply strip_prefix_inv in E. change (lit "if") with [105%N; 102%N] in E.
    rewrite p_args_fail; [reflexivity|].
    destruct n' as [|c2 n'']; cbn [app] in E.
    - unfold args_text in E. cbn [app] in E. injection E as _ E _. discriminate E.
    - injection E as -> -> E. rewrite <- E.
      destruct n'' as [|c3 n3]; [discriminate Hif|]. cbn [app hdp].
      cbn [forallb] in H2. apply andb_true_iff in H2 as [_ H2]. apply andb_true_iff in H2 as [H2 _].
      destruct (N.eqb_spec c3 40) as [->|]; [discriminate H2|reflexivity]. }
  rewrite E1. unfold p_fcall.
  assert (E2 : ident (f ++ args_text o l ++ k) = POk f (args_text o l ++ k)).
  { pose proof (ident_ok o f (args_text o l ++ k)) as H. unfold ident_text in H. rewrite Hs in H.
    apply H. intros _. reflexivity. }
  rewrite E2, p_args_ok by assumption. reflexivity.
Qed.

Lemma atom_if c t e2 : OE c -> OE t -> OE e2 -> wf_expr c = true -> wf_expr t = true -> wf_expr e2 = true ->
  S7 oe (lit "if" ++ args_text o [c; t; e2]) (EIf c t e2).
Proof.
  intros Hc Ht He Wc Wt We k _. rewrite <- app_assoc. rewrite p_atomic_unfold.
  unfold p_if. rewrite strip_prefix_app. rewrite p_args_ok; [reflexivity|repeat constructor; assumption|].
  intros a [<-|[<-|[<-|[]]]]; assumption.
Qed.

(** ** parentheses *)
Lemma atom_par e : (forall k, fol 1 k -> oe (po_ws0 o ++ body o e ++ k) = POk e k) -> S7 oe (par o e) e.
Proof.
  intros H k _. unfold par. cbn [app]. rewrite p_atomic_unfold.
  rewrite p_if_hd by reflexivity.
  assert (Hid : forall r, ident (40%N :: r) = PFail) by (intros r; now apply ident_fail_hd).
  rewrite p_fcall_fail by apply Hid. rewrite column_ref_fail by apply Hid.
  assert (Hlit : forall r, literal_value (40%N :: r) = PFail) by (intros r; vm_compute; reflexivity).
  rewrite Hlit. unfold p_paren, pexpect. cbn [eat N.eqb Pos.eqb]. rewrite <- !app_assoc.
  rewrite H by (apply fol_ws; [exact Hw0|apply fol_mono with 0; [lia|apply fol_close]]).
  cbn [app]. rewrite skip_ws_nsp by (exact Hw0 || reflexivity). cbn [eat N.eqb Pos.eqb]. reflexivity.
Qed.

(** ** negation *)
Lemma unary_not e1 : nsp (pp o 7 e1) -> S7 oe (pp o 7 e1) e1 -> S6 oe (body o (ENot e1)) (ENot e1).
Proof.
  intros Hn H k Hk. cbn [body app]. unfold p_unary. cbn [eat N.eqb Pos.eqb].
  unfold pmap, pexpect. rewrite <- app_assoc. rewrite skip_ws_nsp by (exact Hw0 || now apply nsp_app).
  rewrite H by exact Hk. reflexivity.
Qed.
End Compound.

(* ------------------------------------------------------------------ *)
Open Scope string_scope.
Open Scope list_scope.
Open Scope nat_scope.

Ltac fol_compute := repeat split; intros; try lia; vm_compute; reflexivity.

Section Binary.
Variable oe : parser expr.
Variable o : popts.
Hypothesis Hw0 : forallb is_space (po_ws0 o) = true.
Hypothesis Hw1 : forallb is_space (po_ws1 o) = true.
Hypothesis Hw1ne : po_ws1 o <> [].

Lemma w0_mid_ne (t : str) : t <> [] -> po_ws0 o ++ t <> [].
Proof. intros H E. apply app_eq_nil in E as [_ E]. contradiction. Qed.

Lemma bin_muldiv a l r : (a = AMul \/ a = ADiv) -> nsp (pp o 6 r) ->
  C5 oe (pp o 5 l) l -> S6 oe (pp o 6 r) r ->
  C5 oe (pp o 5 l ++ po_ws0 o ++ ar_text a ++ po_ws0 o ++ pp o 6 r) (EArith a l r).
Proof.
  intros Ha Hn Hl Hr. unfold C5.
  replace (pp o 5 l ++ po_ws0 o ++ ar_text a ++ po_ws0 o ++ pp o 6 r)
    with (pp o 5 l ++ (po_ws0 o ++ ar_text a) ++ po_ws0 o ++ pp o 6 r) by now rewrite <- !app_assoc.
  apply CHN_step.
  - exact Hl.
  - intros k Hk. apply Hr. apply Hk.
  - intros y. rewrite <- app_assoc. apply fol_ws; [exact Hw0|]. destruct Ha as [-> | ->]; fol_compute.
  - intros y. rewrite <- app_assoc. rewrite skip_ws_nsp; [|exact Hw0|destruct Ha as [-> | ->]; reflexivity].
    destruct Ha as [-> | ->]; reflexivity.
  - intros y. apply skip_ws_nsp; [exact Hw0|now apply nsp_app].
  - apply w0_mid_ne. destruct Ha as [-> | ->]; discriminate.
Qed.

Lemma bin_addsub a l r : (a = AAdd \/ a = ASub) -> nsp (pp o 5 r) ->
  C4 oe (pp o 4 l) l -> S5 oe (pp o 5 r) r ->
  C4 oe (pp o 4 l ++ po_ws0 o ++ ar_text a ++ po_ws0 o ++ pp o 5 r) (EArith a l r).
Proof.
  intros Ha Hn Hl Hr. unfold C4.
  replace (pp o 4 l ++ po_ws0 o ++ ar_text a ++ po_ws0 o ++ pp o 5 r)
    with (pp o 4 l ++ (po_ws0 o ++ ar_text a) ++ po_ws0 o ++ pp o 5 r) by now rewrite <- !app_assoc.
  apply CHN_step.
  - exact Hl.
  - exact Hr.
  - intros y. rewrite <- app_assoc. apply fol_ws; [exact Hw0|]. destruct Ha as [-> | ->]; fol_compute.
  - intros y. rewrite <- app_assoc. rewrite skip_ws_nsp; [|exact Hw0|destruct Ha as [-> | ->]; reflexivity].
    destruct Ha as [-> | ->]; reflexivity.
  - intros y. apply skip_ws_nsp; [exact Hw0|now apply nsp_app].
  - apply w0_mid_ne. destruct Ha as [-> | ->]; discriminate.
Qed.

Lemma comp_op_text c y : hdp (fun x => negb (x =? 61)%N && negb (x =? 62)%N) y = true ->
  comp_op (cmp_text o c ++ y) = POk c y.
Proof.
  intros Hy. destruct c; cbn [cmp_text]; [reflexivity|destruct (po_neq_alt o); reflexivity| | |reflexivity|reflexivity].
  - (* > *) destruct y as [|x y']; [reflexivity|]. cbn [hdp] in Hy. apply andb_true_iff in Hy as [H1 H2].
    apply negb_true_iff in H1, H2. unfold comp_op, Generated.comp_op_tags.
    cbn -[N.eqb]. rewrite (N.eqb_sym 61 x), H1. reflexivity.
  - (* < *) destruct y as [|x y']; [reflexivity|]. cbn [hdp] in Hy. apply andb_true_iff in Hy as [H1 H2].
    apply negb_true_iff in H1, H2. unfold comp_op, Generated.comp_op_tags.
    cbn -[N.eqb]. rewrite (N.eqb_sym 61 x), (N.eqb_sym 62 x), H1, H2. reflexivity.
Qed.

Lemma ghd_hdp ws s t : forallb is_space ws = true -> ghd s ->
  hdp (fun x => negb (x =? 61)%N && negb (x =? 62)%N) (ws ++ s ++ t) = true.
Proof.
  intros Hw Hs. destruct ws as [|c ws].
  - destruct s as [|c s]; [destruct Hs|]. cbn [app hdp]. destruct Hs as (_ & H1 & H2). now rewrite H1, H2.
  - cbn [forallb app hdp] in *. apply andb_true_iff in Hw as [Hw _]. unfold is_space in Hw.
    repeat (apply orb_true_iff in Hw as [Hw|Hw]); apply N.eqb_eq in Hw; subst c; reflexivity.
Qed.

Lemma bin_cmp c l r : ghd (pp o 4 l) -> ghd (pp o 4 r) ->
  S4 oe (pp o 4 l) l -> S4 oe (pp o 4 r) r ->
  S3 oe (pp o 4 l ++ po_ws0 o ++ cmp_text o c ++ po_ws0 o ++ pp o 4 r) (ECmp c l r).
Proof.
  intros Gl Gr Hl Hr k Hk. unfold p_cmp. rewrite <- !app_assoc.
  rewrite skip_spaces_nsp by now apply nsp_app, ghd_nsp.
  rewrite Hl; cycle 1.
  { apply fol_ws; [exact Hw0|]. destruct c; cbn [cmp_text]; try destruct (po_neq_alt o); fol_compute. }
  cbn [pbind]. rewrite skip_ws_nsp; [|exact Hw0|destruct c; cbn [cmp_text]; try destruct (po_neq_alt o); reflexivity].
  rewrite comp_op_text by now apply ghd_hdp.
  rewrite skip_ws_nsp by (exact Hw0 || now apply nsp_app, ghd_nsp).
  rewrite Hr by (revert Hk; apply fol_mono; lia). reflexivity.
Qed.

Lemma bin_and l r : nsp (pp o 3 r) ->
  C2 oe (pp o 2 l) l -> S3 oe (pp o 3 r) r ->
  C2 oe (body o (ELogic LAnd l r)) (ELogic LAnd l r).
Proof.
  intros Hn Hl Hr. cbn [body]. destruct (po_words o).
  - apply CHL_step_word; try assumption; [|reflexivity].
    intros y. apply fol_ws1; [exact Hw1ne|exact Hw1|]. fol_compute.
  - apply CHL_step_sym; try assumption; [|reflexivity|reflexivity].
    intros y. apply fol_ws; [exact Hw0|]. fol_compute.
Qed.

Lemma bin_or l r : nsp (pp o 2 r) ->
  C1 oe (pp o 1 l) l -> S2 oe (pp o 2 r) r ->
  C1 oe (body o (ELogic LOr l r)) (ELogic LOr l r).
Proof.
  intros Hn Hl Hr. cbn [body]. destruct (po_words o).
  - apply CHL_step_word; try assumption; [|reflexivity].
    intros y. apply fol_ws1; [exact Hw1ne|exact Hw1|]. fol_compute.
  - apply CHL_step_sym; try assumption; [|reflexivity|reflexivity].
    intros y. apply fol_ws; [exact Hw0|]. fol_compute.
Qed.
End Binary.

(* ------------------------------------------------------------------ *)
Open Scope string_scope.
Open Scope list_scope.
Open Scope nat_scope.

(** * induction over expressions (argument lists are nested) *)
Section ExprInd.
Variable P : expr -> Prop.
Hypothesis Hcol : forall h r, P (ECol h r).
Hypothesis Hnot : forall e, P e -> P (ENot e).
Hypothesis Hcmp : forall c l r, P l -> P r -> P (ECmp c l r).
Hypothesis Har : forall a l r, P l -> P r -> P (EArith a l r).
Hypothesis Hlg : forall a l r, P l -> P r -> P (ELogic a l r).
Hypothesis Hcall : forall f l, Forall P l -> P (ECall f l).
Hypothesis Hif : forall c t e, P c -> P t -> P e -> P (EIf c t e).
Hypothesis Hval : forall v, P (EVal v).
Hypothesis Herr : P EError.
Fixpoint expr_ind2 (e : expr) : P e :=
  match e with
  | ECol h r => Hcol h r
  | ENot e1 => Hnot e1 (expr_ind2 e1)
  | ECmp c l r => Hcmp c l r (expr_ind2 l) (expr_ind2 r)
  | EArith a l r => Har a l r (expr_ind2 l) (expr_ind2 r)
  | ELogic a l r => Hlg a l r (expr_ind2 l) (expr_ind2 r)
  | ECall f l => Hcall f l ((fix go (l : list expr) : Forall P l :=
                               match l with
                               | [] => Forall_nil P
                               | a :: l' => Forall_cons a (expr_ind2 a) (go l')
                               end) l)
  | EIf c t e2 => Hif c t e2 (expr_ind2 c) (expr_ind2 t) (expr_ind2 e2)
  | EVal v => Hval v
  | EError => Herr
  end.
End ExprInd.

(** nesting depth: the fuel the expression parser needs *)
Fixpoint ht (e : expr) : nat :=
  match e with
  | ENot e1 => S (ht e1)
  | ECmp _ l r | EArith _ l r | ELogic _ l r => S (Nat.max (ht l) (ht r))
  | ECall _ l => S (list_max (map ht l))
  | EIf c t e2 => S (Nat.max (ht c) (Nat.max (ht t) (ht e2)))
  | _ => 0
  end.

Definition oef (f : nat) : parser expr := fun s => p_expr f (skip_spaces s).

Lemma oef_close g y : oef (S g) (41%N :: y) = PFail.
Proof. unfold oef. vm_compute. reflexivity. Qed.

Section Main.
Variable o : popts.
Hypothesis Hw0 : forallb is_space (po_ws0 o) = true.
Hypothesis Hw1 : forallb is_space (po_ws1 o) = true.
Hypothesis Hw1ne : po_ws1 o <> [].

Definition M (e : expr) : Prop :=
  wf_expr e = true -> forall f, ht e <= f -> forall n, n <= 7 -> Lev (oef f) n (pp o n e) e.

Lemma assemble e f : wf_expr e = true ->
  Lev (oef f) (prec e) (body o e) e -> (prec e < 7 -> Lev (oef f) 7 (par o e) e) ->
  forall n, n <= 7 -> Lev (oef f) n (pp o n e) e.
Proof.
  intros Hwf Hb Hp n Hn. rewrite pp_eq. destruct (parb o n e) eqn:E.
  - apply Lev_down with 7; [exact Hn|reflexivity|]. apply Hp. unfold parb in E.
    apply orb_true_iff in E as [E|E].
    + apply Nat.ltb_lt in E. lia.
    + apply andb_true_iff in E as [_ E]. now apply Nat.ltb_lt in E.
  - unfold parb in E. apply orb_false_iff in E as [E _]. apply Nat.ltb_ge in E.
    apply Lev_down with (prec e); [exact E|now apply nsp_body|exact Hb].
Qed.

Lemma S1_body e g : wf_expr e = true -> Lev (oef g) (prec e) (body o e) e -> S1 (oef g) (body o e) e.
Proof.
  intros Hwf Hb. apply C1_S1. change (Lev (oef g) 1 (body o e) e).
  apply Lev_down with (prec e); [apply prec_bounds|now apply nsp_body|exact Hb].
Qed.

Lemma par_lev e g : wf_expr e = true -> Lev (oef g) (prec e) (body o e) e -> Lev (oef (S g)) 7 (par o e) e.
Proof.
  intros Hwf Hb. change (S7 (oef (S g)) (par o e) e). apply atom_par; [exact Hw0|].
  intros k Hk. unfold oef at 1. rewrite skip_ws_nsp by (exact Hw0 || now apply nsp_app, nsp_body).
  cbn [p_expr]. now apply (S1_body e g Hwf Hb).
Qed.

Lemma compound e : wf_expr e = true -> 1 <= ht e ->
  (forall g, ht e <= S g -> Lev (oef g) (prec e) (body o e) e) ->
  forall f, ht e <= f -> forall n, n <= 7 -> Lev (oef f) n (pp o n e) e.
Proof.
  intros Hwf Hh Hb f Hf. apply assemble; [exact Hwf|apply Hb; lia|].
  intros _. destruct f as [|g]; [lia|]. apply par_lev; [exact Hwf|]. now apply Hb.
Qed.

Lemma OE_of_M a g : M a -> wf_expr a = true -> ht a <= g -> OE (oef (S g)) o a.
Proof.
  intros HM Hwf Hg ws k Hws Hk. unfold oef at 1.
  rewrite skip_ws_nsp by (exact Hws || now apply nsp_app, nsp_pp).
  cbn [p_expr]. rewrite pp_0_1. apply (C1_S1 (oef g)); [|exact Hk]. apply (HM Hwf g Hg 1). lia.
Qed.

Lemma main e : M e.
Proof.
  induction e as [h refs|e1 IH|c l r IHl IHr|a l r IHl IHr|lo l r IHl IHr|f args IH|c t e2 IHc IHt IHe| v |]
    using expr_ind2; intros Hwf.
  - (* ECol *) intros f Hf. apply assemble; [exact Hwf| |cbn [prec]; lia].
    change (S7 (oef f) (body o (ECol h refs)) (ECol h refs)). cbn [body]. now apply atom_col.
  - (* ENot *) cbn [wf_expr] in Hwf. apply compound; [exact Hwf|cbn [ht]; lia|].
    intros g Hg. cbn [ht] in Hg. change (S6 (oef g) (body o (ENot e1)) (ENot e1)).
    apply unary_not; [exact Hw0|now apply nsp_pp|]. apply (IH Hwf g ltac:(lia) 7). lia.
  - (* ECmp *) pose proof Hwf as Hwf'. cbn [wf_expr] in Hwf'. apply andb_true_iff in Hwf' as [Wl Wr].
    apply compound; [exact Hwf|cbn [ht]; lia|].
    intros g Hg. cbn [ht] in Hg. change (S3 (oef g) (body o (ECmp c l r)) (ECmp c l r)). cbn [body].
    apply bin_cmp; [exact Hw0|now apply ghd_pp|now apply ghd_pp| |].
    + apply C4_S4. apply (IHl Wl g ltac:(lia) 4). lia.
    + apply C4_S4. apply (IHr Wr g ltac:(lia) 4). lia.
  - (* EArith *) pose proof Hwf as Hwf'. cbn [wf_expr] in Hwf'. apply andb_true_iff in Hwf' as [Wl Wr].
    apply compound; [exact Hwf|cbn [ht]; lia|].
    intros g Hg. cbn [ht] in Hg.
    destruct a.
    + change (C4 (oef g) (body o (EArith AAdd l r)) (EArith AAdd l r)). cbn [body].
      apply bin_addsub; [exact Hw0|auto|now apply nsp_pp| |].
      * apply (IHl Wl g ltac:(lia) 4). lia.
      * apply C5_S5. apply (IHr Wr g ltac:(lia) 5). lia.
    + change (C4 (oef g) (body o (EArith ASub l r)) (EArith ASub l r)). cbn [body].
      apply bin_addsub; [exact Hw0|auto|now apply nsp_pp| |].
      * apply (IHl Wl g ltac:(lia) 4). lia.
      * apply C5_S5. apply (IHr Wr g ltac:(lia) 5). lia.
    + change (C5 (oef g) (body o (EArith AMul l r)) (EArith AMul l r)). cbn [body].
      apply bin_muldiv; [exact Hw0|auto|now apply nsp_pp| |].
      * apply (IHl Wl g ltac:(lia) 5). lia.
      * apply (IHr Wr g ltac:(lia) 6). lia.
    + change (C5 (oef g) (body o (EArith ADiv l r)) (EArith ADiv l r)). cbn [body].
      apply bin_muldiv; [exact Hw0|auto|now apply nsp_pp| |].
      * apply (IHl Wl g ltac:(lia) 5). lia.
      * apply (IHr Wr g ltac:(lia) 6). lia.
  - (* ELogic *) pose proof Hwf as Hwf'. cbn [wf_expr] in Hwf'. apply andb_true_iff in Hwf' as [Wl Wr].
    apply compound; [exact Hwf|cbn [ht]; lia|].
    intros g Hg. cbn [ht] in Hg.
    destruct lo.
    + change (C2 (oef g) (body o (ELogic LAnd l r)) (ELogic LAnd l r)).
      apply bin_and; [exact Hw0|exact Hw1|exact Hw1ne|now apply nsp_pp| |].
      * apply (IHl Wl g ltac:(lia) 2). lia.
      * apply (IHr Wr g ltac:(lia) 3). lia.
    + change (C1 (oef g) (body o (ELogic LOr l r)) (ELogic LOr l r)).
      apply bin_or; [exact Hw0|exact Hw1|exact Hw1ne|now apply nsp_pp| |].
      * apply (IHl Wl g ltac:(lia) 1). lia.
      * apply C2_S2. apply (IHr Wr g ltac:(lia) 2). lia.
  - (* ECall *) intros f0 Hf. apply assemble; [exact Hwf| |cbn [prec]; lia].
    change (S7 (oef f0) (body o (ECall f args)) (ECall f args)). cbn [body].
    cbn [wf_expr] in Hwf. apply andb_true_iff in Hwf as [Hwf Wargs]. apply andb_true_iff in Hwf as [Hs Hif].
    apply negb_true_iff in Hif. rewrite forallb_forall in Wargs.
    cbn [ht] in Hf. destruct f0 as [|g]; [lia|].
    apply atom_call; [exact Hw0|apply oef_close|exact Hs|exact Hif| |exact Wargs].
    rewrite Forall_forall in *. intros a Ha. apply OE_of_M; [now apply IH|now apply Wargs|].
    assert (ht a <= list_max (map ht args)); [|lia].
    pose proof (list_max_le (map ht args) (list_max (map ht args))) as [H _].
    specialize (H (le_n _)). rewrite Forall_forall in H. apply H. now apply in_map.
  - (* EIf *) intros f0 Hf. apply assemble; [exact Hwf| |cbn [prec]; lia].
    change (S7 (oef f0) (body o (EIf c t e2)) (EIf c t e2)). cbn [body].
    cbn [wf_expr] in Hwf. apply andb_true_iff in Hwf as [Hwf We]. apply andb_true_iff in Hwf as [Wc Wt].
    cbn [ht] in Hf. destruct f0 as [|g]; [lia|].
    apply atom_if; try assumption; [apply oef_close| | |]; apply OE_of_M; try assumption; lia.
  - (* EVal *) intros f Hf. apply assemble; [exact Hwf| |cbn [prec]; lia].
    change (S7 (oef f) (body o (EVal v)) (EVal v)).
    destruct v as [s|z|fl|[|]|ns|ns|kvs|l|]; try discriminate Hwf; cbn [body].
    + apply atom_str.
    + cbn [wf_expr] in Hwf. apply andb_true_iff in Hwf as [H1 H2]. apply Z.leb_le in H1, H2.
      apply atom_int; [exact H1|]. unfold in_i64. apply andb_true_iff. split; apply Z.leb_le; [|exact H2].
      unfold i64_min. lia.
    + apply atom_true.
    + apply atom_false.
    + apply atom_null.
  - discriminate Hwf.
Qed.
End Main.

(* ------------------------------------------------------------------ *)
Open Scope string_scope.
Open Scope list_scope.
Open Scope nat_scope.

Lemma sep_join_len sep x xs : In x xs -> length x <= length (sep_join sep xs).
Proof.
  induction xs as [|y ys IH]; [intros []|]. intros Hin.
  destruct ys as [|z zs].
  - destruct Hin as [->|[]]. reflexivity.
  - change (sep_join sep (y :: z :: zs)) with (y ++ sep ++ sep_join sep (z :: zs)).
    rewrite !app_length. destruct Hin as [->|Hin]; [lia|]. specialize (IH Hin). lia.
Qed.

Lemma args_text_len o l m : (forall a, In a l -> ht a <= length (pp o 0 a)) ->
  m = list_max (map ht l) -> S m <= length (args_text o l).
Proof.
  intros H ->. unfold args_text. cbn [length]. rewrite !app_length.
  assert (list_max (map ht l) <= length (sep_join (po_ws0 o ++ 44%N :: po_ws0 o) (map (pp o 0) l))); [|lia].
  apply list_max_le. rewrite Forall_forall. intros x Hx. apply in_map_iff in Hx as (a & <- & Ha).
  etransitivity; [apply H, Ha|]. apply sep_join_len. now apply in_map.
Qed.

Lemma ht_le_len o e : forall n, ht e <= length (pp o n e).
Proof.
  assert (Hpar : forall e n, ht e <= length (body o e) -> ht e <= length (pp o n e)).
  { intros e0 n H. rewrite pp_eq. destruct (parb o n e0); [|exact H]. unfold par. cbn [length].
    rewrite !app_length. lia. }
  induction e as [h refs|e1 IH|c l r IHl IHr|a l r IHl IHr|lo l r IHl IHr|f args IH|c t e2 IHc IHt IHe| v |]
    using expr_ind2; intros n; apply Hpar; cbn [ht body]; try lia.
  - cbn [length]. rewrite app_length. specialize (IH 7). lia.
  - rewrite !app_length. specialize (IHl 4). specialize (IHr 4).
    assert (1 <= length (cmp_text o c)) by (destruct c; cbn [cmp_text]; try destruct (po_neq_alt o); cbn; lia). lia.
  - destruct a; rewrite !app_length; cbn [ar_text lit length].
    + specialize (IHl 4). specialize (IHr 5). lia.
    + specialize (IHl 4). specialize (IHr 5). lia.
    + specialize (IHl 5). specialize (IHr 6). lia.
    + specialize (IHl 5). specialize (IHr 6). lia.
  - destruct lo, (po_words o); rewrite !app_length; cbn [lit length].
    + specialize (IHl 2). specialize (IHr 3). lia.
    + specialize (IHl 2). specialize (IHr 3). lia.
    + specialize (IHl 1). specialize (IHr 2). lia.
    + specialize (IHl 1). specialize (IHr 2). lia.
  - rewrite app_length. rewrite Forall_forall in IH.
    pose proof (args_text_len o args _ (fun a Ha => IH a Ha 0) eq_refl). lia.
  - rewrite app_length.
    assert (H : forall a, In a [c; t; e2] -> ht a <= length (pp o 0 a)).
    { intros a [<-|[<-|[<-|[]]]]; auto. }
    pose proof (args_text_len o [c; t; e2] _ H eq_refl) as H2. cbn [map list_max fold_right] in H2. lia.
Qed.

Lemma space_cases c : is_space c = true -> (c = 32 \/ c = 9 \/ c = 13 \/ c = 10)%N.
Proof.
  unfold is_space. intros H.
  repeat (apply orb_true_iff in H as [H|H]); apply N.eqb_eq in H; auto.
Qed.

Lemma stopb_fol rest : stopb rest = true -> fol 0 rest.
Proof.
  unfold stopb. intros H. apply andb_true_iff in H as [H1 H2]. split.
  - destruct rest as [|c r]; [reflexivity|]. unfold afol. cbn [hdp].
    repeat (apply orb_true_iff in H1 as [H1|H1]); apply N.eqb_eq in H1 as ->; reflexivity.
  - unfold folops, nomul, noadd, nocmp, noand, noor.
    destruct (skip_spaces rest) as [|c r']; [fol_compute|].
    cbn [stop_after_spaces] in H2.
    repeat (apply orb_true_iff in H2 as [H2|H2]).
    + apply N.eqb_eq in H2 as ->. fol_compute.
    + apply N.eqb_eq in H2 as ->. fol_compute.
    + apply andb_true_iff in H2 as [H2 H3]. apply N.eqb_eq in H2 as ->. apply negb_true_iff in H3.
      destruct r' as [|x r'']; [fol_compute|]. cbn [head_is] in H3.
      repeat split; intros; try (vm_compute; reflexivity).
      change (lit "||") with [124%N; 124%N]. cbn [strip_prefix]. rewrite N.eqb_refl.
      rewrite N.eqb_sym, H3. reflexivity.
    + destruct (strip_prefix (lit "as") (c :: r')) as [[|d r'']|] eqn:E; try discriminate H2.
      apply strip_prefix_inv in E. rewrite E. fol_compute.
Qed.

Open Scope string_scope.
Open Scope list_scope.
Open Scope nat_scope.

Theorem expr_roundtrip (o : popts) (e : expr) (rest : str) :
  popts_ok o = true -> wf_expr e = true -> stopb rest = true ->
  opt_expr (pp o 0 e ++ rest) = POk e rest.
Proof.
  intros Ho Hwf Hrest. unfold popts_ok in Ho.
  apply andb_true_iff in Ho as [Ho H3]. apply andb_true_iff in Ho as [H1 H2].
  assert (Hne : po_ws1 o <> []) by (destruct (po_ws1 o); [discriminate H3|discriminate]).
  unfold opt_expr, expr_fuel.
  rewrite skip_spaces_nsp by now apply nsp_app, nsp_pp.
  cbn [p_expr]. rewrite pp_0_1.
  apply (C1_S1 (oef (S (length (pp o 1 e ++ rest))))).
  - apply (main o H1 H2 Hne e Hwf (S (length (pp o 1 e ++ rest)))
             ltac:(rewrite app_length; pose proof (ht_le_len o e 1); lia) 1). lia.
  - apply fol_mono with 0; [lia|]. now apply stopb_fol.
Qed.

(** the same with the general continuation condition: [rest] may be anything that cannot continue
    an expression — it starts with no identifier character, `(`, `.` or `[`, and after optional
    whitespace with no binary operator ([fol 0]); e.g. ` desc`, ` nodrop`, ` as x`, `)`, `,`, `| ...` *)
Theorem expr_roundtrip_fol (o : popts) (e : expr) (rest : str) :
  popts_ok o = true -> wf_expr e = true -> fol 0 rest ->
  opt_expr (pp o 0 e ++ rest) = POk e rest.
Proof.
  intros Ho Hwf Hrest. unfold popts_ok in Ho.
  apply andb_true_iff in Ho as [Ho H3]. apply andb_true_iff in Ho as [H1 H2].
  assert (Hne : po_ws1 o <> []) by (destruct (po_ws1 o); [discriminate H3|discriminate]).
  unfold opt_expr, expr_fuel.
  rewrite skip_spaces_nsp by now apply nsp_app, nsp_pp.
  cbn [p_expr]. rewrite pp_0_1.
  apply (C1_S1 (oef (S (length (pp o 1 e ++ rest))))).
  - apply (main o H1 H2 Hne e Hwf (S (length (pp o 1 e ++ rest)))
             ltac:(rewrite app_length; pose proof (ht_le_len o e 1); lia) 1). lia.
  - apply fol_mono with 0; [lia|]. exact Hrest.
Qed.

(** any two spellings of the same expression are read identically *)
Corollary expr_spellings_agree (o1 o2 : popts) (e : expr) (rest : str) :
  popts_ok o1 = true -> popts_ok o2 = true -> wf_expr e = true -> stopb rest = true ->
  opt_expr (pp o1 0 e ++ rest) = opt_expr (pp o2 0 e ++ rest).
Proof. intros H1 H2 Hwf Hr. now rewrite !expr_roundtrip. Qed.

Open Scope string_scope.
Open Scope list_scope.
Open Scope nat_scope.

(** * parsers never lengthen their input *)
Definition LB {A} (p : parser A) : Prop := forall s a r, p s = POk a r -> length r <= length s.

Lemma strip_prefix_len p s r : strip_prefix p s = Some r -> length r <= length s.
Proof. intros H. apply strip_prefix_inv in H. subst. rewrite app_length. lia. Qed.

Lemma eat_len c s r : eat c s = Some r -> length s = S (length r).
Proof. destruct s as [|x s]; cbn; [discriminate|]. destruct (x =? c)%N; [|discriminate]. now intros [= ->]. Qed.

Lemma skip_spaces_len s : length (skip_spaces s) <= length s.
Proof. induction s as [|c s IH]; cbn; [lia|]. destruct (is_space c); cbn; lia. Qed.

Lemma take_while_len f s : forall a b, take_while f s = (a, b) -> length b <= length s.
Proof.
  induction s as [|c s IH]; cbn; intros a b H.
  - injection H as <- <-. cbn; lia.
  - destruct (f c).
    + destruct (take_while f s) as [a' b'] eqn:E. injection H as <- <-. specialize (IH _ _ eq_refl). lia.
    + injection H as <- <-. cbn; lia.
Qed.

Lemma take_digits_len s : forall d r, take_digits s = (d, r) -> length r <= length s.
Proof.
  induction s as [|c s IH]; cbn; intros d r H.
  - injection H as <- <-. cbn; lia.
  - destruct (is_digit c).
    + destruct (take_digits s) as [a' b'] eqn:E. injection H as <- <-. specialize (IH _ _ eq_refl). lia.
    + injection H as <- <-. cbn; lia.
Qed.

Lemma LB_palt {A} (p q : parser A) : LB p -> LB q -> LB (p <|> q).
Proof.
  intros Hp Hq s a r. unfold palt. destruct (p s) eqn:E; try discriminate.
  - intros [= <- <-]. eapply Hp, E.
  - apply Hq.
Qed.

Lemma LB_pmap {A B} (f : A -> B) (p : parser A) : LB p -> LB (pmap f p).
Proof.
  intros Hp s a r. unfold pmap. destruct (p s) eqn:E; try discriminate.
  intros [= <- <-]. eapply Hp, E.
Qed.

Lemma LB_pexpect {A} (p : parser A) : LB p -> LB (pexpect p).
Proof.
  intros Hp s a r. unfold pexpect. destruct (p s) eqn:E; try discriminate.
  intros [= <- <-]. eapply Hp, E.
Qed.

Lemma LB_ptag t : LB (ptag t).
Proof.
  intros s a r. unfold ptag. destruct (strip_prefix (lit t) s) eqn:E; [|discriminate].
  intros H. injection H as _ <-. now apply strip_prefix_len in E.
Qed.

Lemma LB_pkw t : LB (pkw t).
Proof.
  intros s a r H. destruct a. apply pkw_ptag in H. revert H. apply LB_ptag.
Qed.

Lemma quoted_body_len fuel q : forall s acc b r, quoted_body fuel q s acc = (b, r) -> length r <= length s.
Proof.
  induction fuel as [|f IH]; intros s acc b r; cbn [quoted_body].
  - intros [= <- <-]. lia.
  - destruct s as [|c s']; [intros [= <- <-]; cbn; lia|].
    destruct (c =? q)%N; [intros [= <- <-]; lia|].
    destruct (c =? 92)%N.
    + destruct s' as [|e s'']; [intros [= <- <-]; lia|].
      intros H. apply IH in H. cbn [length]. lia.
    + intros H. apply IH in H. cbn [length]. lia.
Qed.

Lemma LB_quoted_string : LB quoted_string.
Proof.
  intros s a r. unfold quoted_string. destruct s as [|q s']; [discriminate|].
  destruct ((q =? 39)%N || (q =? 34)%N); [|discriminate].
  destruct (quoted_body (S (length s')) q s' []) as [b rest] eqn:E.
  apply quoted_body_len in E. destruct rest as [|c rest']; [discriminate|].
  destruct (c =? q)%N; [|discriminate]. intros [= <- <-]. cbn [length] in *. lia.
Qed.

Lemma LB_bare_ident : LB bare_ident.
Proof.
  intros s a r. unfold bare_ident. destruct s as [|c s']; [discriminate|].
  destruct (starts_ident c); [|discriminate].
  destruct (take_while is_ident_char s') as [x y] eqn:E. apply take_while_len in E.
  intros [= <- <-]. cbn [length]. lia.
Qed.

Lemma LB_escaped_ident : LB escaped_ident.
Proof.
  intros s a r. unfold escaped_ident. destruct (eat 91%N s) as [r0|] eqn:E0; [|discriminate].
  apply eat_len in E0. destruct (quoted_string r0) as [n r1| |] eqn:E1; try discriminate.
  apply LB_quoted_string in E1. destruct (eat 93%N r1) as [r2|] eqn:E2; [|discriminate].
  apply eat_len in E2. intros [= <- <-]. lia.
Qed.

Lemma LB_ident : LB ident.
Proof. apply LB_palt; [apply LB_bare_ident|apply LB_escaped_ident]. Qed.

Lemma LB_i64_parse : LB i64_parse.
Proof.
  intros s a r. unfold i64_parse.
  destruct (strip_minus s) as [neg r0] eqn:E0.
  assert (H0 : length r0 <= length s).
  { unfold strip_minus in E0. destruct s as [|x s']; [injection E0 as <- <-; cbn; lia|].
    destruct (x =? 45)%N; injection E0 as <- <-; cbn; lia. }
  destruct (take_digits r0) as [d rest] eqn:E1. apply take_digits_len in E1.
  destruct (is_nil d); [discriminate|].
  match goal with |- context [in_i64 ?z] => destruct (in_i64 z) end; [|discriminate].
  intros [= <- <-]. lia.
Qed.

Lemma dur_suffix_len alts : forall s k r, dur_suffix alts s = Some (k, r) -> length r <= length s.
Proof.
  induction alts as [|[t u] alts IH]; intros s k r; cbn [dur_suffix]; [discriminate|].
  destruct (strip_prefix (lit t) s) as [rest|] eqn:E.
  - destruct (dur_unit_ns t); [|discriminate]. intros [= <- <-]. now apply strip_prefix_len in E.
  - apply IH.
Qed.

Lemma LB_duration_fragment : LB duration_fragment.
Proof.
  intros s a r. unfold duration_fragment. destruct (i64_parse s) as [amt r0| |] eqn:E0; try discriminate.
  apply LB_i64_parse in E0. cbn [pbind].
  destruct (dur_suffix Generated.duration_suffixes r0) as [[k rest]|] eqn:E1; [|discriminate].
  apply dur_suffix_len in E1. destruct (dur_ok (amt * k)); [|discriminate]. intros [= <- <-]. lia.
Qed.

Lemma duration_more_len fuel : forall acc s a r, duration_more fuel acc s = POk a r -> length r <= length s.
Proof.
  induction fuel as [|f IH]; intros acc s a r; cbn [duration_more].
  - intros [= <- <-]. lia.
  - destruct (duration_fragment s) as [d r0| |] eqn:E.
    + apply LB_duration_fragment in E. intros H. apply IH in H. lia.
    + intros [= <- <-]. lia.
    + intros [= <- <-]. lia.
Qed.

Lemma LB_duration : LB duration.
Proof.
  intros s a r. unfold duration. destruct (duration_fragment s) as [d r0| |] eqn:E; try discriminate.
  apply LB_duration_fragment in E. cbn [pbind].
  destruct (duration_more (length r0) d r0) as [t r1| |] eqn:E1; try discriminate.
  apply duration_more_len in E1. cbn [pbind]. destruct (dur_ok t); [|discriminate].
  intros [= <- <-]. lia.
Qed.

Lemma LB_pdigit1 : LB pdigit1.
Proof.
  intros s a r. unfold pdigit1. destruct (take_digits s) as [d r0] eqn:E. apply take_digits_len in E.
  destruct (is_nil d); [discriminate|]. intros [= <- <-]. lia.
Qed.

Lemma LB_literal_value : LB literal_value.
Proof.
  unfold literal_value. repeat apply LB_palt; apply LB_pmap;
    first [apply LB_quoted_string|apply LB_duration|apply LB_pdigit1|apply LB_pkw].
Qed.

Lemma LB_ref : LB (dot_property <|> index_access).
Proof.
  apply LB_palt.
  - intros s a r. unfold dot_property. destruct (eat 46%N s) as [r0|] eqn:E; [|discriminate].
    apply eat_len in E. intros H. apply (LB_pmap RField ident LB_ident) in H. lia.
  - intros s a r. unfold index_access. destruct (eat 91%N s) as [r0|] eqn:E; [|discriminate].
    apply eat_len in E. destruct (i64_parse r0) as [i r1| |] eqn:E1; try discriminate.
    apply LB_i64_parse in E1. destruct (eat 93%N r1) as [r2|] eqn:E2; [|discriminate].
    apply eat_len in E2. intros [= <- <-]. lia.
Qed.

Lemma many_refs_len fuel : forall s acc l r, many_refs fuel s acc = POk l r -> length r <= length s.
Proof.
  induction fuel as [|f IH]; intros s acc l r; cbn [many_refs].
  - intros [= <- <-]. lia.
  - destruct ((dot_property <|> index_access) s) as [x r0| |] eqn:E; try discriminate.
    + apply LB_ref in E. intros H. apply IH in H. lia.
    + intros [= <- <-]. lia.
Qed.

Lemma LB_column_ref : LB column_ref.
Proof.
  intros s a r. unfold column_ref. destruct (ident s) as [h r0| |] eqn:E; try discriminate.
  apply LB_ident in E. cbn [pbind]. destruct (many_refs (length r0) r0 []) as [l r1| |] eqn:E1; try discriminate.
  apply many_refs_len in E1. cbn [pbind]. intros [= <- <-]. lia.
Qed.

Lemma comp_op_from_len table : forall s a r, comp_op_from table s = POk a r -> length r <= length s.
Proof.
  induction table as [|[t c] table IH]; intros s a r; cbn [comp_op_from]; [discriminate|].
  destruct (strip_prefix (lit t) s) as [rest|] eqn:E.
  - destruct (cmpop_of_name c); [|discriminate]. intros [= <- <-]. now apply strip_prefix_len in E.
  - apply IH.
Qed.

Lemma LB_comp_op : LB comp_op.
Proof. intros s a r. apply comp_op_from_len. Qed.
Lemma LB_muldiv_op : LB muldiv_op.
Proof. apply LB_palt; apply LB_pmap, LB_ptag. Qed.
Lemma LB_addsub_op : LB addsub_op.
Proof. apply LB_palt; apply LB_pmap, LB_ptag. Qed.

Open Scope string_scope.
Open Scope list_scope.
Open Scope nat_scope.

Section LevelLB.
Variable oe : parser expr.
Hypothesis Hoe : LB oe.

Lemma args_more_len k : forall s acc l r, args_more oe k s acc = POk l r -> length r <= length s.
Proof.
  induction k as [|k IH]; intros s acc l r; cbn [args_more]; [discriminate|].
  pose proof (skip_spaces_len s) as Hs.
  assert (Hclose : match eat 41%N (skip_spaces s) with Some r0 => POk (rev acc) r0 | None => PFatal end = POk l r ->
                   length r <= length s).
  { destruct (eat 41%N (skip_spaces s)) as [r0|] eqn:E; [|discriminate]. apply eat_len in E.
    intros [= <- <-]. lia. }
  destruct (eat 44%N (skip_spaces s)) as [r3|] eqn:E3; [|exact Hclose].
  apply eat_len in E3. destruct (oe r3) as [e' r4| |] eqn:E4; try discriminate.
  - apply Hoe in E4. intros H. apply IH in H. lia.
  - exact Hclose.
Qed.

Lemma LB_p_args : LB (p_args oe).
Proof.
  intros s a r. unfold p_args. destruct (eat 40%N s) as [r0|] eqn:E0; [|discriminate].
  apply eat_len in E0. pose proof (skip_spaces_len r0) as H1.
  destruct (oe (skip_spaces r0)) as [e r2| |] eqn:E2; try discriminate.
  - apply Hoe in E2. intros H. apply args_more_len in H. lia.
  - pose proof (skip_spaces_len (skip_spaces r0)) as H2.
    destruct (eat 41%N (skip_spaces (skip_spaces r0))) as [r3|] eqn:E3; [|discriminate].
    apply eat_len in E3. intros [= <- <-]. lia.
Qed.

Lemma LB_p_if : LB (p_if oe).
Proof.
  intros s a r. unfold p_if. destruct (strip_prefix (lit "if") s) as [r0|] eqn:E0; [|discriminate].
  apply strip_prefix_len in E0. destruct (p_args oe r0) as [l r1| |] eqn:E1; try discriminate.
  apply LB_p_args in E1. destruct l as [|c [|t [|e [|]]]]; try discriminate. intros [= <- <-]. lia.
Qed.

Lemma LB_p_fcall : LB (p_fcall oe).
Proof.
  intros s a r. unfold p_fcall. destruct (ident s) as [n r0| |] eqn:E0; try discriminate.
  apply LB_ident in E0. destruct (p_args oe r0) as [l r1| |] eqn:E1; try discriminate.
  apply LB_p_args in E1. intros [= <- <-]. lia.
Qed.

Lemma LB_p_paren : LB (p_paren oe).
Proof.
  intros s a r. unfold p_paren. destruct (eat 40%N s) as [r0|] eqn:E0; [|discriminate].
  apply eat_len in E0. destruct (pexpect oe r0) as [e r1| |] eqn:E1; try discriminate.
  apply (LB_pexpect _ Hoe) in E1. pose proof (skip_spaces_len r1).
  destruct (eat 41%N (skip_spaces r1)) as [r2|] eqn:E2; [|discriminate].
  apply eat_len in E2. intros [= <- <-]. lia.
Qed.

Lemma LB_p_atomic : LB (p_atomic oe).
Proof.
  unfold p_atomic.
  apply LB_palt; [apply LB_palt; [apply LB_palt; [apply LB_palt; [apply LB_p_if|apply LB_p_fcall]|
    apply LB_literal_value]|apply LB_column_ref]|apply LB_p_paren].
Qed.

Lemma LB_p_unary : LB (p_unary oe).
Proof.
  intros s a r. unfold p_unary. destruct (eat 33%N s) as [r0|] eqn:E0.
  - apply eat_len in E0. pose proof (skip_spaces_len r0). intros Hp.
    apply (LB_pmap ENot _ (LB_pexpect _ LB_p_atomic)) in Hp. lia.
  - apply LB_p_atomic.
Qed.

Lemma chain_more_len {A} (op : parser A) mk (operand : parser expr) : LB op -> LB operand ->
  forall k lhs s e r, chain_more op mk operand k lhs s = POk e r -> length r <= length s.
Proof.
  intros Hop Hopd. induction k as [|k IH]; intros lhs s e r; cbn [chain_more].
  - intros [= <- <-]. lia.
  - pose proof (skip_spaces_len s). destruct (op (skip_spaces s)) as [a r1| |] eqn:E1.
    + apply Hop in E1. pose proof (skip_spaces_len r1).
      destruct (operand (skip_spaces r1)) as [rhs r2| |] eqn:E2; try discriminate.
      apply Hopd in E2. intros H2. apply IH in H2. lia.
    + intros [= <- <-]. lia.
    + intros [= <- <-]. lia.
Qed.

Lemma LB_chain {A} (op : parser A) mk (operand : parser expr) : LB op -> LB operand ->
  LB (fun s => LET init, r <- operand s IN chain_more op mk operand (length r) init r).
Proof.
  intros Hop Hopd s e r. destruct (operand s) as [init r0| |] eqn:E; try discriminate.
  apply Hopd in E. cbn [pbind]. intros H. apply (chain_more_len op mk operand Hop Hopd) in H. lia.
Qed.

Lemma LB_p_term : LB (p_term oe).
Proof. apply (LB_chain muldiv_op EArith (p_unary oe) LB_muldiv_op LB_p_unary). Qed.
Lemma LB_p_arith : LB (p_arith oe).
Proof. apply (LB_chain addsub_op EArith (p_term oe) LB_addsub_op LB_p_term). Qed.

Lemma LB_p_cmp : LB (p_cmp oe).
Proof.
  intros s e r. unfold p_cmp. pose proof (skip_spaces_len s).
  destruct (p_arith oe (skip_spaces s)) as [lhs r0| |] eqn:E0; try discriminate.
  apply LB_p_arith in E0. cbn [pbind]. pose proof (skip_spaces_len r0).
  destruct (comp_op (skip_spaces r0)) as [c r1| |] eqn:E1.
  - apply LB_comp_op in E1. pose proof (skip_spaces_len r1).
    destruct (p_arith oe (skip_spaces r1)) as [rhs r2| |] eqn:E2; try discriminate.
    apply LB_p_arith in E2. intros [= <- <-]. lia.
  - intros [= <- <-]. lia.
  - intros [= <- <-]. lia.
Qed.

Lemma ms1_len s u r : ms1 s = POk u r -> length r <= length s.
Proof.
  unfold ms1. destruct s as [|c s']; [discriminate|]. destruct (is_space c); [|discriminate].
  intros [= _ <-]. pose proof (skip_spaces_len s'). cbn [length]. lia.
Qed.

Lemma logic_more_len word sym lo (operand : parser expr) : LB operand ->
  forall k lhs s e r, logic_more word sym lo operand k lhs s = POk e r -> length r <= length s.
Proof.
  intros Hopd. induction k as [|k IH]; intros lhs s e r; cbn [logic_more].
  - intros [= <- <-]. lia.
  - destruct (ms1 s) as [u r1| |] eqn:E1.
    + apply ms1_len in E1. destruct (strip_prefix (lit word) r1) as [r2|] eqn:E2.
      * apply strip_prefix_len in E2. destruct (ms1 r2) as [u' r3| |] eqn:E3; try discriminate.
        apply ms1_len in E3. destruct (operand r3) as [e' r4| |] eqn:E4; try discriminate.
        apply Hopd in E4. intros H. apply IH in H. lia.
      * pose proof (skip_spaces_len s).
        destruct (strip_prefix (lit sym) (skip_spaces s)) as [r5|] eqn:E5.
        -- apply strip_prefix_len in E5. pose proof (skip_spaces_len r5). rename r5 into r2.
           destruct (operand (skip_spaces r2)) as [e' r3| |] eqn:E3; try discriminate.
           apply Hopd in E3. intros H5. apply IH in H5. lia.
        -- intros [= <- <-]. lia.
    + pose proof (skip_spaces_len s).
      destruct (strip_prefix (lit sym) (skip_spaces s)) as [r2|] eqn:E2.
      * apply strip_prefix_len in E2. pose proof (skip_spaces_len r2).
        destruct (operand (skip_spaces r2)) as [e' r3| |] eqn:E3; try discriminate.
        apply Hopd in E3. intros H5. apply IH in H5. lia.
      * intros [= <- <-]. lia.
    + pose proof (skip_spaces_len s).
      destruct (strip_prefix (lit sym) (skip_spaces s)) as [r2|] eqn:E2.
      * apply strip_prefix_len in E2. pose proof (skip_spaces_len r2).
        destruct (operand (skip_spaces r2)) as [e' r3| |] eqn:E3; try discriminate.
        apply Hopd in E3. intros H5. apply IH in H5. lia.
      * intros [= <- <-]. lia.
Qed.

Lemma LB_logic word sym lo (operand : parser expr) : LB operand ->
  LB (fun s => LET init, r <- operand s IN logic_more word sym lo operand (length r) init r).
Proof.
  intros Hopd s e r. destruct (operand s) as [init r0| |] eqn:E; try discriminate.
  apply Hopd in E. cbn [pbind]. intros H. apply (logic_more_len word sym lo operand Hopd) in H. lia.
Qed.

Lemma LB_p_land : LB (p_land oe).
Proof. apply (LB_logic "and" "&&" LAnd (p_cmp oe) LB_p_cmp). Qed.
Lemma LB_p_lor : LB (p_lor oe).
Proof. apply (LB_logic "or" "||" LOr (p_land oe) LB_p_land). Qed.
End LevelLB.

Lemma LB_p_expr f : LB (p_expr f).
Proof.
  induction f as [|f IH]; [intros s a r; discriminate|]. cbn [p_expr]. apply LB_p_lor.
  intros s a r H. apply IH in H. pose proof (skip_spaces_len s). lia.
Qed.

Open Scope string_scope.
Open Scope list_scope.
Open Scope nat_scope.

(** * the level parsers consult the nested-expression parser only on strictly shorter input *)
Definition agree (n : nat) (oe1 oe2 : parser expr) : Prop := forall s, length s < n -> oe1 s = oe2 s.

Lemma agree_mono n m oe1 oe2 : m <= n -> agree n oe1 oe2 -> agree m oe1 oe2.
Proof. intros H Ha s Hs. apply Ha. lia. Qed.

Section Cong.
Variables oe1 oe2 : parser expr.
Hypothesis Hlb : LB oe1.

Lemma args_more_cong k : forall s acc, agree (length s) oe1 oe2 ->
  args_more oe1 k s acc = args_more oe2 k s acc.
Proof.
  induction k as [|k IH]; intros s acc Ha; cbn [args_more]; [reflexivity|].
  pose proof (skip_spaces_len s) as Hs.
  destruct (eat 44%N (skip_spaces s)) as [r3|] eqn:E3; [|reflexivity].
  apply eat_len in E3. rewrite <- (Ha r3) by lia.
  destruct (oe1 r3) as [e' r4| |] eqn:E4; try reflexivity.
  apply Hlb in E4. apply IH. eapply agree_mono; [|exact Ha]. lia.
Qed.

Lemma p_args_cong s : agree (length s) oe1 oe2 -> p_args oe1 s = p_args oe2 s.
Proof.
  intros Ha. unfold p_args. destruct (eat 40%N s) as [r0|] eqn:E0; [|reflexivity].
  apply eat_len in E0. pose proof (skip_spaces_len r0).
  rewrite <- (Ha (skip_spaces r0)) by lia.
  destruct (oe1 (skip_spaces r0)) as [e r2| |] eqn:E2; try reflexivity.
  apply Hlb in E2. apply args_more_cong. eapply agree_mono; [|exact Ha]. lia.
Qed.

Lemma p_if_cong s : agree (length s) oe1 oe2 -> p_if oe1 s = p_if oe2 s.
Proof.
  intros Ha. unfold p_if. destruct (strip_prefix (lit "if") s) as [r0|] eqn:E0; [|reflexivity].
  apply strip_prefix_len in E0. rewrite p_args_cong; [reflexivity|]. eapply agree_mono; [|exact Ha]. lia.
Qed.

Lemma p_fcall_cong s : agree (length s) oe1 oe2 -> p_fcall oe1 s = p_fcall oe2 s.
Proof.
  intros Ha. unfold p_fcall. destruct (ident s) as [n r0| |] eqn:E0; try reflexivity.
  apply LB_ident in E0. rewrite p_args_cong; [reflexivity|]. eapply agree_mono; [|exact Ha]. lia.
Qed.

Lemma p_paren_cong s : agree (length s) oe1 oe2 -> p_paren oe1 s = p_paren oe2 s.
Proof.
  intros Ha. unfold p_paren, pexpect. destruct (eat 40%N s) as [r0|] eqn:E0; [|reflexivity].
  apply eat_len in E0. rewrite <- (Ha r0) by lia. reflexivity.
Qed.

Lemma p_atomic_cong s : agree (length s) oe1 oe2 -> p_atomic oe1 s = p_atomic oe2 s.
Proof.
  intros Ha. unfold p_atomic, palt.
  rewrite <- (p_if_cong s Ha), <- (p_fcall_cong s Ha), <- (p_paren_cong s Ha). reflexivity.
Qed.

Lemma p_unary_cong s : agree (length s) oe1 oe2 -> p_unary oe1 s = p_unary oe2 s.
Proof.
  intros Ha. unfold p_unary. destruct (eat 33%N s) as [r0|] eqn:E0.
  - apply eat_len in E0. pose proof (skip_spaces_len r0). unfold pmap, pexpect.
    rewrite p_atomic_cong; [reflexivity|]. eapply agree_mono; [|exact Ha]. lia.
  - now apply p_atomic_cong.
Qed.

Lemma chain_more_cong {A} (op : parser A) mk (opd1 opd2 : parser expr) (N : nat) :
  LB op -> LB opd1 -> (forall t, length t <= N -> opd1 t = opd2 t) ->
  forall k lhs s, length s <= N -> chain_more op mk opd1 k lhs s = chain_more op mk opd2 k lhs s.
Proof.
  intros Hop H1 Heq. induction k as [|k IH]; intros lhs s Hs; cbn [chain_more]; [reflexivity|].
  pose proof (skip_spaces_len s). destruct (op (skip_spaces s)) as [a r1| |] eqn:E1; try reflexivity.
  apply Hop in E1. pose proof (skip_spaces_len r1). rewrite <- Heq by lia.
  destruct (opd1 (skip_spaces r1)) as [rhs r2| |] eqn:E2; try reflexivity.
  apply H1 in E2. apply IH. lia.
Qed.

Lemma p_term_cong s : agree (length s) oe1 oe2 -> p_term oe1 s = p_term oe2 s.
Proof.
  intros Ha. unfold p_term. rewrite <- (p_unary_cong s Ha).
  destruct (p_unary oe1 s) as [init r| |] eqn:E; try reflexivity. cbn [pbind].
  apply (LB_p_unary oe1 Hlb) in E.
  apply (chain_more_cong _ _ _ _ (length r)); [apply LB_muldiv_op|apply (LB_p_unary oe1 Hlb)| |lia].
  intros t Ht. apply p_unary_cong. eapply agree_mono; [|exact Ha]. lia.
Qed.

Lemma p_arith_cong s : agree (length s) oe1 oe2 -> p_arith oe1 s = p_arith oe2 s.
Proof.
  intros Ha. unfold p_arith. rewrite <- (p_term_cong s Ha).
  destruct (p_term oe1 s) as [init r| |] eqn:E; try reflexivity. cbn [pbind].
  apply (LB_p_term oe1 Hlb) in E.
  apply (chain_more_cong _ _ _ _ (length r)); [apply LB_addsub_op|apply (LB_p_term oe1 Hlb)| |lia].
  intros t Ht. apply p_term_cong. eapply agree_mono; [|exact Ha]. lia.
Qed.

Lemma p_cmp_cong s : agree (length s) oe1 oe2 -> p_cmp oe1 s = p_cmp oe2 s.
Proof.
  intros Ha. unfold p_cmp. pose proof (skip_spaces_len s).
  rewrite <- (p_arith_cong (skip_spaces s)) by (eapply agree_mono; [|exact Ha]; lia).
  destruct (p_arith oe1 (skip_spaces s)) as [lhs r| |] eqn:E; try reflexivity. cbn [pbind].
  apply (LB_p_arith oe1 Hlb) in E. pose proof (skip_spaces_len r).
  destruct (comp_op (skip_spaces r)) as [c r1| |] eqn:E1; try reflexivity.
  apply LB_comp_op in E1. pose proof (skip_spaces_len r1).
  rewrite <- (p_arith_cong (skip_spaces r1)) by (eapply agree_mono; [|exact Ha]; lia). reflexivity.
Qed.

Lemma logic_more_cong word sym lo (opd1 opd2 : parser expr) (N : nat) :
  LB opd1 -> (forall t, length t <= N -> opd1 t = opd2 t) ->
  forall k lhs s, length s <= N ->
  logic_more word sym lo opd1 k lhs s = logic_more word sym lo opd2 k lhs s.
Proof.
  intros H1 Heq. induction k as [|k IH]; intros lhs s Hs; cbn [logic_more]; [reflexivity|].
  pose proof (skip_spaces_len s) as Hsk.
  assert (Hsym : match strip_prefix (lit sym) (skip_spaces s) with
                 | Some r2 => match opd1 (skip_spaces r2) with
                              | POk e r3 => logic_more word sym lo opd1 k (ELogic lo lhs e) r3
                              | _ => PFatal
                              end
                 | None => POk lhs s
                 end =
                 match strip_prefix (lit sym) (skip_spaces s) with
                 | Some r2 => match opd2 (skip_spaces r2) with
                              | POk e r3 => logic_more word sym lo opd2 k (ELogic lo lhs e) r3
                              | _ => PFatal
                              end
                 | None => POk lhs s
                 end).
  { destruct (strip_prefix (lit sym) (skip_spaces s)) as [r2|] eqn:E2; [|reflexivity].
    apply strip_prefix_len in E2. pose proof (skip_spaces_len r2). rewrite <- Heq by lia.
    destruct (opd1 (skip_spaces r2)) as [e r3| |] eqn:E3; try reflexivity.
    apply H1 in E3. apply IH. lia. }
  destruct (ms1 s) as [u r1| |] eqn:E1; try exact Hsym.
  apply ms1_len in E1. destruct (strip_prefix (lit word) r1) as [r2|] eqn:E2; [|exact Hsym].
  apply strip_prefix_len in E2. destruct (ms1 r2) as [u' r3| |] eqn:E3; try reflexivity.
  apply ms1_len in E3. rewrite <- Heq by lia.
  destruct (opd1 r3) as [e r4| |] eqn:E4; try reflexivity.
  apply H1 in E4. apply IH. lia.
Qed.

Lemma p_land_cong s : agree (length s) oe1 oe2 -> p_land oe1 s = p_land oe2 s.
Proof.
  intros Ha. unfold p_land. rewrite <- (p_cmp_cong s Ha).
  destruct (p_cmp oe1 s) as [init r| |] eqn:E; try reflexivity. cbn [pbind].
  apply (LB_p_cmp oe1 Hlb) in E.
  apply (logic_more_cong _ _ _ _ _ (length r)); [apply (LB_p_cmp oe1 Hlb)| |lia].
  intros t Ht. apply p_cmp_cong. eapply agree_mono; [|exact Ha]. lia.
Qed.

Lemma p_lor_cong s : agree (length s) oe1 oe2 -> p_lor oe1 s = p_lor oe2 s.
Proof.
  intros Ha. unfold p_lor. rewrite <- (p_land_cong s Ha).
  destruct (p_land oe1 s) as [init r| |] eqn:E; try reflexivity. cbn [pbind].
  apply (LB_p_land oe1 Hlb) in E.
  apply (logic_more_cong _ _ _ _ _ (length r)); [apply (LB_p_land oe1 Hlb)| |lia].
  intros t Ht. apply p_land_cong. eapply agree_mono; [|exact Ha]. lia.
Qed.
End Cong.

(** the fuel of the expression parser never runs out: its result does not depend on surplus fuel *)
Theorem p_expr_fuel_irrelevant (f1 f2 : nat) (s : str) :
  length s < f1 -> length s < f2 -> p_expr f1 s = p_expr f2 s.
Proof.
  revert f2 s. induction f1 as [|f1 IH]; intros f2 s H1 H2; [lia|].
  destruct f2 as [|f2]; [lia|]. cbn [p_expr]. apply p_lor_cong.
  - intros t a r H. apply LB_p_expr in H. pose proof (skip_spaces_len t). lia.
  - intros t Ht. pose proof (skip_spaces_len t). apply IH; lia.
Qed.

(** leading whitespace before an expression is immaterial *)
Theorem opt_expr_leading_ws (ws s : str) :
  forallb is_space ws = true -> opt_expr (ws ++ s) = opt_expr s.
Proof.
  intros Hw. unfold opt_expr, expr_fuel. rewrite skip_spaces_app by exact Hw.
  pose proof (skip_spaces_len s). apply p_expr_fuel_irrelevant; rewrite ?app_length; lia.
Qed.

(** concrete readings (closed computations) *)
Example precedence_examples :
  let c n := ECol (lit n) [] in
  opt_expr (lit "a + b * c") = POk (EArith AAdd (c "a") (EArith AMul (c "b") (c "c"))) [] /\
  opt_expr (lit "a - b - c") = POk (EArith ASub (EArith ASub (c "a") (c "b")) (c "c")) [] /\
  opt_expr (lit "a + 1 < b and !x or y") =
    POk (ELogic LOr (ELogic LAnd (ECmp CLt (EArith AAdd (c "a") (EVal (VInt 1))) (c "b")) (ENot (c "x"))) (c "y")) [] /\
  opt_expr (lit "( a  ||b )&& c") = POk (ELogic LAnd (ELogic LOr (c "a") (c "b")) (c "c")) [].
Proof. vm_compute. repeat split; reflexivity. Qed.

Print Assumptions expr_roundtrip.
Print Assumptions p_expr_fuel_irrelevant.
Print Assumptions opt_expr_leading_ws.
