(** C08 — numbers are never silently corrupted. *)
From Coq Require Import List ZArith NArith Lia Bool.
From AG Require Import Str F64 Value Json Expr Ops Pipeline F64_exact_proofs Value_proofs Expr_proofs Agg_proofs Perm_proofs.
Import ListNotations.
From Coq Require Import Reals Floats.SpecFloat.
From Flocq Require Import Core BinarySingleNaN.
From AG Require Import Dec_proofs Num_proofs.
Open Scope Z_scope.

(** a JSON integer inside the 64-bit range stays exactly that integer *)
Theorem C08_json_int_exact : forall z, in_i64 z = true -> json_to_value (JInt z) = VInt z.
Proof. intros z H. cbn. now rewrite H. Qed.
Print Assumptions C08_json_int_exact.

(** every other JSON number keeps its double, unless that double is exactly an in-range integer *)
Theorem C08_json_float_same_double : forall f,
  match json_to_value (JFloat f) with
  | VFloat g => g = f
  | VInt z => f_is_integral f = true /\ ftrunc_Z f = z /\ in_i64 z = true
  | _ => False
  end.
Proof.
  intros f. cbn [json_to_value]. destruct (from_float f) eqn:E;
    try (pose proof (from_float_never_other f) as H; rewrite E in H; exact H).
  - now apply from_float_int.
  - now apply from_float_float in E.
Qed.
Print Assumptions C08_json_float_same_double.

(** from_float never saturates, truncates a fraction or invents an integer *)
Theorem C08_from_float_faithful : forall f z,
  from_float f = VInt z -> f_is_integral f = true /\ ftrunc_Z f = z /\ in_i64 z = true.
Proof. exact from_float_int. Qed.
Print Assumptions C08_from_float_faithful.

(** integer arithmetic returns the true integer, or - beyond i64 - the float computation AS A FLOAT (a value [from_float]
    leaves a float), or an error: never an integer that is not the result - not wrapped, not saturated (fix 9eb768d: a
    result in [-2^63 - 1024, -2^63) rounds to the double -2^63, which is an integer in range, and used to come out
    as the integer i64::MIN) *)
Theorem C08_no_wrap : forall a b v,
  (vadd (VInt a) (VInt b) = Ok v ->
     (v = VInt (a + b) /\ in_i64 (a + b) = true) \/
     (in_i64 (a + b) = false /\ v = VFloat (fadd (f_of_Z a) (f_of_Z b)) /\ from_float (fadd (f_of_Z a) (f_of_Z b)) = VFloat (fadd (f_of_Z a) (f_of_Z b)))) /\
  (vsub (VInt a) (VInt b) = Ok v ->
     (v = VInt (a - b) /\ in_i64 (a - b) = true) \/
     (in_i64 (a - b) = false /\ v = VFloat (fsub (f_of_Z a) (f_of_Z b)) /\ from_float (fsub (f_of_Z a) (f_of_Z b)) = VFloat (fsub (f_of_Z a) (f_of_Z b)))) /\
  (vmul (VInt a) (VInt b) = Ok v ->
     (v = VInt (a * b) /\ in_i64 (a * b) = true) \/
     (in_i64 (a * b) = false /\ v = VFloat (fmul (f_of_Z a) (f_of_Z b)) /\ from_float (fmul (f_of_Z a) (f_of_Z b)) = VFloat (fmul (f_of_Z a) (f_of_Z b)))).
Proof.
  intros a b v. repeat split; cbn; intros H; now apply int_or_float_sound.
Qed.
Print Assumptions C08_no_wrap.

(** text that auto-converts to a number N on extraction coerces to the same N
    wherever a number is expected (sum/avg/min/max arguments, num(), arithmetic) *)
Theorem C08_coercion_agrees : forall s,
  (forall z, from_string s = VInt z -> aggressively_to_num s = Ok (f_of_Z z) /\ to_f64_agg (VStr s) = Ok (f_of_Z z) /\ to_f64 (VStr s) = Ok (f_of_Z z)) /\
  (forall f, from_string s = VFloat f -> aggressively_to_num s = Ok f /\ to_f64_agg (VStr s) = Ok f /\ to_f64 (VStr s) = Ok f).
Proof.
  intros s. split; intros x H; unfold to_f64_agg, to_f64, aggressively_to_num; rewrite H; auto.
Qed.
Print Assumptions C08_coercion_agrees.

(** sums of integers are exact while the magnitudes add up to at most 2^53 *)
Theorem C08_sum_exact : forall e rows zs,
  numeric_args e rows = map f_of_Z zs -> sum_abs zs <= 2 ^ 53 ->
  acc_emit (fold_left acc_step rows (acc_empty (FSum e))) = Ok (VInt (sumZ zs)).
Proof. exact sum_exact. Qed.
Print Assumptions C08_sum_exact.

(** small integers survive the trip through a double unchanged *)
Theorem C08_int_double_roundtrip : forall z, Z.abs z <= 2 ^ 53 ->
  ftrunc_Z (f_of_Z z) = z /\ from_float (f_of_Z z) = VInt z.
Proof. intros z H. split; [now apply ftrunc_f_of_Z | now apply from_float_of_Z]. Qed.
Print Assumptions C08_int_double_roundtrip.

(** the integer-to-integer functions keep every integer exact (no detour through a double), and
    text that auto-converts to the integer N coerces to that N in num() (fix 43e6167) *)
Theorem C08_int_functions_exact : forall i : Z,
  eval_func (lit "num") [VInt i] = Ok (VInt i) /\
  eval_func (lit "ceil") [VInt i] = Ok (VInt i) /\
  eval_func (lit "floor") [VInt i] = Ok (VInt i) /\
  eval_func (lit "round") [VInt i] = Ok (VInt i) /\
  (in_i64 (Z.abs i) = true -> eval_func (lit "abs") [VInt i] = Ok (VInt (Z.abs i))).
Proof. exact int_functions_exact. Qed.
Print Assumptions C08_int_functions_exact.
Theorem C08_num_of_integer_text : forall (s : str) (i : Z),
  from_string s = VInt i -> eval_func (lit "num") [VStr s] = Ok (VInt i).
Proof. exact num_of_integer_text. Qed.
Example C08_int_functions_beyond_2p53 :
  eval_func (lit "num") [VInt 9007199254740993] = Ok (VInt 9007199254740993) /\
  eval_func (lit "abs") [VInt (-9007199254740993)] = Ok (VInt 9007199254740993) /\
  eval_func (lit "num") [VStr (lit " 9007199254740993 ")] = Ok (VInt 9007199254740993) /\
  eval_func (lit "abs") [VInt i64_min] = Ok (VFloat (f_of_Z (- i64_min))).
Proof. exact int_functions_beyond_2p53. Qed.

Example C08_examples :
  from_string (lit "-5") = VInt (-5) /\
  aggressively_to_num (lit "-5") = Ok (f_of_Z (-5)) /\
  aggressively_to_num (lit "1e3") = Ok (f_of_Z 1000) /\
  aggressively_to_num (lit "-1,000") = Ok (f_of_Z (-1000)) /\
  from_float (f_of_dec false 1 300) = VFloat (f_of_dec false 1 300) /\
  from_float (f_of_dec false 1 (-300)) = VFloat (f_of_dec false 1 (-300)) /\
  json_to_value (JInt 18446744073709551615) = VFloat (f_of_Z 18446744073709551615) /\
  vadd (VInt 9223372036854775807) (VInt 1) = Ok (VFloat (f_of_Z 9223372036854775808)).
Proof. vm_compute. repeat split. Qed.

(** decimal text -> double is CORRECTLY ROUNDED: for a decimal  (-1)^neg * m * 10^e10  the model's
    conversion (used for every number read from JSON text, logfmt, parse and query literals) returns
    the binary64 value nearest to the exact decimal value, ties to even, whenever that value is in
    range; beyond the range guards it is an infinity resp. a zero, which is what the exact value
    rounds to *)
Theorem C08_decimal_correctly_rounded : forall (neg : bool) (m e10 : Z),
  0 < m -> e10 <= 400 ->
  (Rabs (rnd64 (dec_value neg m e10)) < bpow radix2 1024)%R ->
  SF2R radix2 (f_of_dec neg m e10) = rnd64 (dec_value neg m e10).
Proof. exact f_of_dec_correct. Qed.
Print Assumptions C08_decimal_correctly_rounded.

Theorem C08_decimal_underflow : forall (neg : bool) (m e10 : Z),
  0 < m -> e10 < 0 -> 800 + Z.log2 m < - e10 ->
  rnd64 (dec_value neg m e10) = 0%R /\ f_of_dec neg m e10 = S754_zero neg.
Proof. exact f_of_dec_guard_small. Qed.
Print Assumptions C08_decimal_underflow.

Theorem C08_decimal_overflow : forall (neg : bool) (m e10 : Z),
  0 < m -> 400 < e10 ->
  (bpow radix2 1024 <= Rabs (dec_value neg m e10))%R /\ f_of_dec neg m e10 = S754_infinity neg.
Proof. exact f_of_dec_guard_large. Qed.
Print Assumptions C08_decimal_overflow.

(** text that auto-converts to the integer i IS that integer as an operand of + - * and as a divisor - for every left
    operand, a duration included (fixes 3ad586e, 46e1115) *)
Theorem C08_integer_text_is_the_integer : forall l s i, from_string s = VInt i ->
  vadd l (VStr s) = vadd l (VInt i) /\ vsub l (VStr s) = vsub l (VInt i) /\
  vmul l (VStr s) = vmul l (VInt i) /\ vdiv l (VStr s) = vdiv l (VInt i) /\
  vadd (VStr s) l = vadd (VInt i) l /\ vsub (VStr s) l = vsub (VInt i) l /\ vmul (VStr s) l = vmul (VInt i) l.
Proof.
  intros l s i H. unfold vadd, vsub, vmul, vdiv. cbn [int_text]. rewrite H. repeat split; reflexivity.
Qed.
Print Assumptions C08_integer_text_is_the_integer.
Example C08_duration_divided_by_text :
  vdiv (VDur 3600000000000) (VStr (lit "2")) = Ok (VDur 1800000000000) /\
  vmul (VDur 3600000000000) (VStr (lit " 2 ")) = Ok (VDur 7200000000000).
Proof. vm_compute. split; reflexivity. Qed.

(** text that needs the aggressive conversion keeps the minus sign found before its first digit (fixes bda0777, 80926c1) *)
Example C08_sign_of_formatted_text :
  aggressively_to_num (lit "$-1,000") = Ok (f_of_Z (-1000)) /\
  aggressively_to_num (lit "USD -5.50") = Ok (f_of_dec true 55 (-1)) /\
  aggressively_to_num (lit "-$7") = Ok (f_of_Z (-7)) /\
  aggressively_to_num (lit "$1,000") = Ok (f_of_Z 1000) /\
  aggressively_to_num (lit "2021-05-03") = Ok (f_of_Z 20210503).
Proof. vm_compute. repeat split. Qed.

(** KF-48 - "never sign-stripped" is FALSE at exactly one double: the negative zero.  It is integral and in
    range, so the normalisation makes it the integer 0 (which has no sign); 1/x is then +inf where IEEE says
    -inf.  The witness replayed on the binary is the known finding; for every other double the integer
    it becomes IS its value ([C08_from_float_faithful]: integral, [ftrunc_Z f = z]), sign included. *)
Theorem C08_negative_zero_refuted :
  exists f, f = S754_zero true /\ from_float f = VInt 0 /\
            json_to_value (JFloat f) = VInt 0 /\
            vdiv (VInt 1) (from_float f) = Ok (VFloat (S754_infinity false)) /\
            vdiv (VInt 1) (VFloat f) = Ok (VFloat (S754_infinity true)).
Proof. exists (S754_zero true). vm_compute. repeat split. Qed.
Print Assumptions C08_negative_zero_refuted.
