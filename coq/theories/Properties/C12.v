(** C12 — row operators are local: one line in, at most one row out, order kept. *)
From Coq Require Import List ZArith Lia Bool.
From AG Require Import Str F64 Value Json Expr Ops Pipeline Stream_proofs Local_proofs.
From AG Require Display.
Import ListNotations.

(** the output for a concatenation of two inputs is the concatenation of the outputs *)
Theorem C12_concat : forall ops, forallb is_fun ops = true ->
  forall a b, staged ops (a ++ b) = staged ops a ++ staged ops b.
Proof. exact staged_app. Qed.
Print Assumptions C12_concat.

(** ... also for the streaming execution that Pipeline::process performs *)
Theorem C12_concat_streaming : forall ops, forallb is_fun ops = true ->
  forall a b,
    rev (p_sent (run_preagg ops (a ++ b))) =
    rev (p_sent (run_preagg ops a)) ++ rev (p_sent (run_preagg ops b)).
Proof. intros. rewrite !stream_is_staged. now apply staged_app. Qed.
Print Assumptions C12_concat_streaming.

(** each line is mapped independently of every other line, in input order *)
Theorem C12_line_by_line : forall ops, forallb is_fun ops = true ->
  forall rows, staged ops rows = flat_map (fun r => staged ops [r]) rows.
Proof. exact staged_flat_map. Qed.
Print Assumptions C12_line_by_line.

(** ... to zero or one output row *)
Theorem C12_at_most_one : forall ops, forallb is_fun ops = true ->
  forall r, (length (staged ops [r]) <= 1)%nat.
Proof. exact staged_one. Qed.
Print Assumptions C12_at_most_one.

(** limit and total are the only row operators that keep state *)
Theorem C12_only_limit_total_stateful : forall s,
  is_fun (build_op s) = match s with SLimit _ | STotal _ _ => false | _ => true end.
Proof. exact build_op_fun. Qed.
Print Assumptions C12_only_limit_total_stateful.

(** frame: an operator only adds or overwrites the fields it names *)
Theorem C12_frame_json : forall from r r' k,
  json_op from r = Ok (Some r') ->
  (forall inp kvs, get_input r from = Ok inp -> json_parse inp = Some (JObj kvs) -> ~ In k (map fst kvs)) ->
  get k (rdata r') = get k (rdata r) /\ rraw r' = rraw r.
Proof. exact json_frame. Qed.
Print Assumptions C12_frame_json.

Theorem C12_frame_parse : forall pat fields from nodrop noconvert r r' k,
  parse_op pat fields from nodrop noconvert r = Ok (Some r') -> ~ In k fields ->
  get k (rdata r') = get k (rdata r) /\ rraw r' = rraw r.
Proof. exact parse_frame. Qed.
Print Assumptions C12_frame_parse.

Theorem C12_frame_split : forall sep from out r r' k,
  split_op sep from out r = Ok (Some r') ->
  k <> match out with Some (ECol h _) => h | _ => lit "_split" end ->
  get k (rdata r') = get k (rdata r) /\ rraw r' = rraw r.
Proof. exact split_frame. Qed.
Print Assumptions C12_frame_split.

Theorem C12_frame_field_expression : forall e name r r' k,
  let_op e name r = Ok (Some r') -> k <> name ->
  get k (rdata r') = get k (rdata r) /\ rraw r' = rraw r.
Proof. exact let_frame. Qed.
Print Assumptions C12_frame_field_expression.

Theorem C12_frame_timeslice : forall e span name r r' k,
  timeslice_op e span name r = Ok (Some r') ->
  k <> match name with Some n => n | None => lit "_timeslice" end ->
  get k (rdata r') = get k (rdata r) /\ rraw r' = rraw r.
Proof. exact timeslice_frame. Qed.
Print Assumptions C12_frame_timeslice.

Theorem C12_frame_where : forall e r r', where_op e r = Ok (Some r') -> r' = r.
Proof. exact where_frame. Qed.
Print Assumptions C12_frame_where.

(** [fields] only removes fields *)
Theorem C12_fields_only_removes : forall only fs r r' k,
  fields_op only fs r = Ok (Some r') ->
  rraw r' = rraw r /\ (get k (rdata r') = get k (rdata r) \/ get k (rdata r') = None).
Proof. exact fields_frame. Qed.
Print Assumptions C12_fields_only_removes.

Example C12_example :
  let ops := [build_op (SJson None); build_op (SWhere (ECmp CGt (ECol (lit "a") []) (EVal (VInt 1))))] in
  forallb is_fun ops = true /\
  length (staged ops [mkRec [] (lit "{""a"": 2}"); mkRec [] (lit "{""a"": 1}"); mkRec [] (lit "junk")]) = 1%nat.
Proof. vm_compute. split; reflexivity. Qed.

(** KF-44 - "one input row, one output row" is FALSE for [fields] when nothing is left of a row: the row disappears
    (written on purpose in fields.rs), so a later count is too small.  The witness replayed on the binary is the
    known finding. *)
Theorem C12_fields_drops_fieldless_row_refuted :
  exists lines q t,
    length lines = 3%nat /\
    out (run_pipeline (fun _ => true) q lines) = Ok (OTable t) /\ t_rows t = [[(lit "_count", VInt 2)]].
Proof.
  exists [lit "{""a"":1}"; lit "{""b"":2}"; lit "{""a"":3}"],
         [SJson None; SFields true [lit "a"]; SAgg [(lit "_count", FCount None)] []].
  eexists. split; [reflexivity|split; [vm_compute; reflexivity|reflexivity]].
Qed.
Print Assumptions C12_fields_drops_fieldless_row_refuted.

(** ... and in the default text mode a row WITHOUT fields prints as its line whatever the printer has seen before
    (fix for KF-56: the fallback used to depend on the printer's memory of earlier rows) *)
Theorem C12_fieldless_row_is_its_line : forall st raw,
  exists st', Display.format_record st (mkRec [] raw) = Ok (st', Str.strip_eol raw) /\
              Display.rp_order st' = Display.rp_order st ++ [] /\ Display.rp_term st' = Display.rp_term st.
Proof.
  intros st raw. unfold Display.format_record. cbn [rdata rraw].
  destruct (Display.update_widths (Display.rp_widths st) []) as [w1| | |] eqn:E; cbn [bind].
  - eexists. split; [reflexivity|]. cbn. split; reflexivity.
  - vm_compute in E. discriminate.
  - vm_compute in E. discriminate.
  - vm_compute in E. discriminate.
Qed.
Print Assumptions C12_fieldless_row_is_its_line.
