(** C11 — running an accepted query never crashes or hangs, whatever the input.

    A Gallina function is total and deterministic, so "never crashes" would be vacuous if the
    model could not express the failure.  It can: every partial Rust operation of the anchored
    code is an explicit [Panic] outcome in the model (chrono's date/duration operators before the
    fix, the adapter's panic!, the printer's assert!), every real loop is a fuelled recursion
    whose exhaustion is a distinguished value ([SplitDiverge]).  The theorems say these outcomes
    are unreachable.  Stack overflow, allocation failure and panics inside dependencies are
    reached only by driving the real binary. *)
From Coq Require Import List ZArith NArith Bool Lia.
From AG Require Import Str F64 Value Json Expr Ops Pipeline Stream_proofs Local_proofs Compile_proofs Split_proofs NoPanic_proofs.
From AG Require Generated.
Import ListNotations.

(** expression evaluation (all operators, all functions, all operand types) never panics:
    every failure is the sanctioned EvalError channel *)
Theorem C11_eval_no_panic : forall e d, eval e d <> Panic.
Proof. exact eval_no_panic. Qed.
Print Assumptions C11_eval_no_panic.

Theorem C11_arithmetic_no_panic : forall a b,
  vadd a b <> Panic /\ vsub a b <> Panic /\ vmul a b <> Panic /\ vdiv a b <> Panic.
Proof. exact arith_no_panic. Qed.
Print Assumptions C11_arithmetic_no_panic.

(** no row operator panics on any record *)
Theorem C11_operator_no_panic : forall o r, snd (op_step o r) <> Panic.
Proof. exact op_step_no_panic. Qed.
Print Assumptions C11_operator_no_panic.

(** the whole run of any query on any input: never the Panic outcome *)
Theorem C11_no_panic : forall f stages lines, out (run_pipeline f stages lines) <> Panic.
Proof. exact run_pipeline_no_panic. Qed.
Print Assumptions C11_no_panic.

(** the one panic! in the anchored code (PreAggAdapter on a record) is unreachable:
    the first aggregate operator is never an adapter *)
Theorem C11_adapter_panic_unreachable : forall stages,
  match snd (compile stages) with AAdapter _ _ :: _ => False | _ => True end.
Proof. exact post_head_not_adapter. Qed.
Print Assumptions C11_adapter_panic_unreachable.

(** termination: split makes progress on every iteration for every separator the type checker accepts *)
Theorem C11_split_terminates : forall input sep, sep <> [] ->
  exists l, split_with_delimiters input sep = SplitOk l.
Proof. exact split_terminates. Qed.
Print Assumptions C11_split_terminates.

Theorem C11_split_never_diverges : forall sep from out r,
  stage_ok (SSplit sep from out) = true -> split_op sep from out r <> Unm \/
  (exists e, from = Some e /\ eval_str e (rdata r) = Unm).
Proof. exact split_never_diverges. Qed.
Print Assumptions C11_split_never_diverges.

(** a row that an operator cannot process is skipped without changing the result for any other row ... *)
Theorem C11_bad_row_isolated : forall ops a x b,
  forallb is_fun ops = true -> staged ops [x] = [] ->
  staged ops (a ++ [x] ++ b) = staged ops (a ++ b).
Proof. exact bad_row_isolated. Qed.
Print Assumptions C11_bad_row_isolated.

(** ... with exactly one `error:` line when this happens before any aggregation *)
Theorem C11_error_reported_once : forall o r,
  snd (op_step o r) = Err ->
  forall rest, let '(_, res, n) := proc_preagg (o :: rest) r in res = Ok None /\ n = 1%nat.
Proof. exact error_counted_once. Qed.
Print Assumptions C11_error_reported_once.

(** after an aggregation rows an operator rejects are skipped silently (unwrap_or(None)): see C03_adapter_rows *)

(** *** the audited inventory of explicitly partial operations.
    srcfacts.py counts, on every run, the `unwrap()` / `expect(` / `panic!` / `unreachable!` / `assert!` /
    `todo!` sites of every source file outside its test module.  The list below is the inventory that was
    audited (dispositions in DESIGN.md, section 4 / C11): a new site anywhere in the source changes
    Generated.panic_inventory, this statement stops checking, and C11 reports that the property is no
    longer shown to hold until the new site is audited. *)
Local Open Scope string_scope.
Example C11_panic_inventory_is_the_audited_one :
  Generated.panic_inventory =
  [("src/alias.rs", 3%N); ("src/data.rs", 4%N); ("src/funcs.rs", 1%N); ("src/lang.rs", 3%N);
   ("src/operator.rs", 1%N); ("src/operator/expr.rs", 1%N); ("src/operator/parse.rs", 2%N);
   ("src/operator/percentile.rs", 1%N); ("src/operator/split.rs", 1%N); ("src/printer.rs", 8%N);
   ("src/typecheck.rs", 1%N)].
Proof. reflexivity. Qed.

(** "... with an `error:` line on stderr when this happens before any aggregation": a `sort` is not an aggregation.
    The stages written after a sort run after it, inside an adapter; an adapter that follows no aggregation writes one
    line per row its operator fails on ([count_errs]), an adapter behind a real aggregation writes none
    (fix 64df92c: since the repair 01c24ac moved these stages behind the sort, their errors had been swallowed). *)
Theorem C11_errors_after_a_sort_are_reported : forall st old t rest,
  post_errs t (AAdapter st old :: rest) =
  (adapter_errs st t + match adapter_process st t with Ok t' => post_errs t' rest | _ => 0 end)%nat.
Proof.
  intros st old t rest. cbn [post_errs agg_process_table]. destruct (adapter_process st t) as [t'| | |]; reflexivity.
Qed.
Print Assumptions C11_errors_after_a_sort_are_reported.

Theorem C11_errors_after_an_aggregation_are_silent : forall g t rest, post_errs t (AGroup g :: rest) = 0%nat.
Proof. reflexivity. Qed.
Print Assumptions C11_errors_after_an_aggregation_are_silent.

(** at most one line per row *)
Theorem C11_at_most_one_error_line_per_row : forall rows o, (count_errs o rows <= length rows)%nat.
Proof.
  induction rows as [|r rows IH]; intros o; cbn [count_errs length]; [lia|].
  destruct (op_step o r) as [o' out]. destruct out as [x| | |]; try lia; specialize (IH o'); lia.
Qed.
Print Assumptions C11_at_most_one_error_line_per_row.

Example C11_errors_after_sort_example :
  let lines := [lit "x=2 y=1"; lit "x=1 z=2"; lit "x=3 y=3"] in
  let z1 := SLet (EArith AAdd (ECol (lit "z") []) (EVal (VInt 1))) (lit "w") in
  nerr (run_pipeline (fun _ => true) [SLogfmt None; SSort [ECol (lit "x") []] false; z1] lines) = 2%nat /\
  nerr (run_pipeline (fun _ => true) [SLogfmt None; z1; SSort [ECol (lit "x") []] false] lines) = 2%nat /\
  nerr (run_pipeline (fun _ => true) [SLogfmt None; SAgg [(lit "_count", FCount None)] [(lit "x", ECol (lit "x") [])]; z1] lines) = 0%nat.
Proof. vm_compute. repeat split. Qed.
