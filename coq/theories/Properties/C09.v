(** C09 — sorting returns an ordered permutation under one total value order. *)
From Coq Require Import List ZArith NArith Lia Bool Permutation Sorted.
From AG Require Import Str F64 Value Json Expr Ops Pipeline F64_proofs Value_proofs Sort_proofs Sorter_proofs Compile_proofs.
From AG Require Generated.
Import ListNotations.
Open Scope string_scope.
Open Scope list_scope.

(** the output is exactly the rows received *)
Theorem C09_permutation : forall s, Permutation (t_rows (s_emit s)) (s_rows s).
Proof. exact sorter_perm. Qed.
Print Assumptions C09_permutation.

(** ordered: every row is not-after every later row under the row comparison
    (key expressions in the requested direction, then all columns ascending;
    descending for a keyless [sort desc]) *)
Theorem C09_sorted : forall s,
  Forall (row_ok (s_keys s)) (s_rows s) ->
  StronglySorted (fun a b => sort_le s a b = true) (t_rows (s_emit s)).
Proof. exact sorter_sorted. Qed.
Print Assumptions C09_sorted.

Theorem C09_primary_order : forall s,
  Forall (row_ok (s_keys s)) (s_rows s) ->
  StronglySorted (fun a b => (if s_desc s then ordering (s_keys s) b a else ordering (s_keys s) a b) <> Gt)
                 (t_rows (s_emit s)).
Proof. exact sorter_primary_order. Qed.
Print Assumptions C09_primary_order.

(** the value order is a total preorder on the property's domain
    ([small_ints]: any integer, any well-formed double; an integer is compared
    with a double exactly), for ALL triples *)
Theorem C09_total_order : forall a b c,
  small_ints a = true -> small_ints b = true -> small_ints c = true ->
  vcmp a a = Eq /\
  vcmp b a = CompOpp (vcmp a b) /\
  (vcmp a b <> Gt -> vcmp b c <> Gt -> vcmp a c <> Gt) /\
  (vcmp a b = Eq -> vcmp a c = vcmp b c).
Proof.
  intros a b c Ha Hb Hc. repeat split.
  - apply vcmp_refl.
  - apply vcmp_antisym.
  - now apply vcmp_trans_le.
  - now apply vcmp_eq_l.
Qed.
Print Assumptions C09_total_order.

(** None < booleans < numbers < strings < dates < durations < arrays < objects *)
Theorem C09_rank_order :
  forall b z f s d u l o,
    vcmp VNone (VBool b) = Lt /\ vcmp (VBool b) (VInt z) = Lt /\ vcmp (VBool b) (VFloat f) = Lt /\
    vcmp (VInt z) (VStr s) = Lt /\ vcmp (VFloat f) (VStr s) = Lt /\ vcmp (VStr s) (VDate d) = Lt /\
    vcmp (VDate d) (VDur u) = Lt /\ vcmp (VDur u) (VArr l) = Lt /\ vcmp (VArr l) (VObj o) = Lt.
Proof. exact type_order. Qed.
Print Assumptions C09_rank_order.

(** the model's rank function is the table of Value::rank re-read from src/data.rs *)
Definition rank_of_ctor (v : value) : String.string :=
  match v with
  | VNone => "None" | VBool _ => "Bool" | VInt _ => "Int" | VFloat _ => "Float" | VStr _ => "Str"
  | VDate _ => "DateTime" | VDur _ => "Duration" | VArr _ => "Array" | VObj _ => "Obj"
  end.

Fixpoint table_lookup (k : String.string) (t : list (String.string * N)) : option N :=
  match t with
  | [] => None
  | (k', n) :: r => if String.eqb k k' then Some n else table_lookup k r
  end.

Theorem C09_rank_matches_source : forall v,
  table_lookup (rank_of_ctor v) Generated.rank_table = Some (rank v).
Proof. destruct v; reflexivity. Qed.
Print Assumptions C09_rank_matches_source.

(** numbers by numeric value, strings lexicographically *)
Theorem C09_numbers_and_strings : forall x y s t,
  vcmp (VInt x) (VInt y) = Z.compare x y /\ vcmp (VStr s) (VStr t) = str_cmp s t.
Proof. intros; split; [apply vcmp_int_int | apply vcmp_str]. Qed.
Print Assumptions C09_numbers_and_strings.

(** ties are broken deterministically by the remaining columns: when no two
    distinct rows tie on everything, the result is independent of the arrival
    order (hash order of the aggregation, thread timing) *)
Theorem C09_tiebreak_deterministic : forall keys desc cols rows rows',
  Permutation rows rows' ->
  Forall (row_ok keys) rows ->
  (forall a b, In a rows -> In b rows -> sort_cmp (mkS keys desc cols rows) a b = Eq -> a = b) ->
  t_rows (s_emit (mkS keys desc cols rows)) = t_rows (s_emit (mkS keys desc cols rows')).
Proof. exact sorter_order_independent. Qed.
Print Assumptions C09_tiebreak_deterministic.

(** a key that cannot be evaluated on a row sorts after every value *)
Theorem C09_failing_key_last : forall v,
  key_cmp (Ok v) Err = Lt /\ key_cmp Err (Ok v) = Gt /\ key_cmp (@Err value) Err = Eq.
Proof. exact key_cmp_err_last. Qed.
Print Assumptions C09_failing_key_last.

(** an aggregation that ends the query, or is followed directly by limit, is
    followed by a sort by its aggregate columns, descending; ascending with
    the time column first when the bare column _timeslice is a key: the time
    column is named by the header of the first such key *)
Theorem C09_implicit_sort : forall fns keys,
  (existsb (fun ke => match snd ke with ECol h [] => str_eqb h (lit "_timeslice") | _ => false end) keys = false ->
   implicit_sort fns keys = SSort (map (fun nf => ECol (fst nf) []) fns) true) /\
  (existsb (fun ke => match snd ke with ECol h [] => str_eqb h (lit "_timeslice") | _ => false end) keys = true ->
   exists ke,
     find (fun ke => match snd ke with ECol h [] => str_eqb h (lit "_timeslice") | _ => false end) keys = Some ke /\
     implicit_sort fns keys = SSort (ECol (fst ke) [] :: map (fun nf => ECol (fst nf) []) fns) false).
Proof. intros; split; [apply implicit_sort_plain | apply implicit_sort_timeslice]. Qed.
Print Assumptions C09_implicit_sort.

Theorem C09_implicit_sort_placement : forall fns keys rest,
  post_ref (SAgg fns keys :: rest) =
  mk_aggop (SAgg fns keys) ::
  (if needs_sort rest then [mk_aggop (implicit_sort fns keys)] else []) ++ post_ref rest.
Proof. reflexivity. Qed.
Print Assumptions C09_implicit_sort_placement.

Example C09_example :
  let row k v := [(lit "k", VStr (lit k)); (lit "v", v)] in
  let s := mkS [ECol (lit "v") []] false [lit "k"; lit "v"]
               [row "c" (VStr (lit "x")); row "a" (VInt 2); row "b" VNone; row "d" (VFloat (f_of_dec false 15 (-1)))] in
  map (fun d => get (lit "k") d) (t_rows (s_emit s)) =
  [Some (VStr (lit "b")); Some (VStr (lit "d")); Some (VStr (lit "a")); Some (VStr (lit "c"))].
Proof. vm_compute. reflexivity. Qed.

(** KF-46 - "`sort` outputs exactly the rows it received" holds for their FIELDS ([C09_permutation]
    and its neighbours above) and is FALSE for the text of the line: the sorter keeps the field maps, and a stage that
    reads the line after it ([parse] without [from]) sees the empty string.  The model transcribes the
    implementation here, so the witness is the finding: the same two stages give two rows with the sort last
    and none with the sort in between. *)
Theorem C09_sort_forgets_the_line_refuted :
  exists lines p1 p2 key,
    let all := fun _ : str => true in
    (exists t, out (run_pipeline all [p1; p2; SSort [key] true] lines) = Ok (OTable t) /\ length (t_rows t) = 2%nat) /\
    (exists t, out (run_pipeline all [p1; SSort [key] true; p2] lines) = Ok (OTable t) /\ t_rows t = []).
Proof.
  exists [lit "id=1 user=bob"; lit "id=2 user=amy"],
         (SParse (lit "id=* ") [lit "id"] None false false),
         (SParse (lit "user=*") [lit "user"] None false false),
         (ECol (lit "id") []).
  cbv zeta. split; eexists; split; vm_compute; reflexivity.
Qed.
Print Assumptions C09_sort_forgets_the_line_refuted.
