(** C02 — filters select exactly the matching lines. *)
From Coq Require Import List NArith ZArith Bool Lia.
From AG Require Import Str Ops Filter Pipeline Str_proofs Match_proofs Ops_proofs Grammar Print FilterRoundtrip_proofs.
Import ListNotations.
Open Scope N_scope.

(** a line reaches the operators iff it satisfies the filter; order kept, nothing else changes.
    The filter is tested on the line without its line terminator ([chomp]). *)
Theorem C02_pass_iff_match : forall f stages lines,
  run_pipeline f stages lines =
  run_pipeline (fun _ => true) stages (List.filter (fun l => f (chomp l)) lines).
Proof. exact run_pipeline_filter. Qed.
Print Assumptions C02_pass_iff_match.

(** AND / juxtaposition conjoin, OR disjoins, NOT negates, `*` alone selects every line *)
Theorem C02_boolean : forall l f line,
  fmatches (FAnd l) line = forallb (fun g => fmatches g line) l /\
  fmatches (FOr l) line = existsb (fun g => fmatches g line) l /\
  fmatches (FNot f) line = negb (fmatches f line) /\
  fmatches (FAnd []) line = true.
Proof.
  intros. split; [apply fmatches_and|]. split; [apply fmatches_or|]. split; [apply fmatches_not | apply fmatches_star].
Qed.
Print Assumptions C02_boolean.

(** a quoted keyword matches iff its text occurs somewhere in the line (a `*` inside quotes is literal),
    character by character and case-sensitively ([pchar_exact]), a space being a space *)
Theorem C02_quoted_keyword : forall pat t,
  kw_is_match KExact pat t = true <->
  exists pre m post, t = pre ++ m ++ post /\ seg_eq pchar_exact pat m = true.
Proof. exact exact_keyword_spec. Qed.
Print Assumptions C02_quoted_keyword.

(** a bare keyword s0*s1*...: the segments occur in order (up to ASCII case, [pchar_match]), the gaps
    between them any text, line breaks included *)
Theorem C02_wildcard_sound : forall s0 rest anch t caps,
  find_match pchar_match s0 rest anch t = Some caps ->
  exists pre m t', t = pre ++ m ++ t' /\ seg_eq pchar_match s0 m = true /\ segs_match pchar_match rest anch t' caps.
Proof. exact (find_match_sound pchar_match). Qed.
Print Assumptions C02_wildcard_sound.

Theorem C02_wildcard_complete : forall s0 rest anch t pre m t' caps,
  t = pre ++ m ++ t' -> seg_eq pchar_match s0 m = true -> segs_match pchar_match rest anch t' caps ->
  exists caps', find_match pchar_match s0 rest anch t = Some caps'.
Proof. exact (find_match_complete pchar_match). Qed.
Print Assumptions C02_wildcard_complete.

(** literal characters match only themselves (up to ASCII case) *)
Theorem C02_literal_characters : forall p c, p <> 32 -> pchar_match p c = true -> ascii_lower p = ascii_lower c.
Proof. exact pchar_match_literal. Qed.
Print Assumptions C02_literal_characters.

(** ... and exactly themselves inside quotes *)
Theorem C02_quoted_literal_characters : forall p c, p <> 32 -> pchar_exact p c = true -> p = c.
Proof. intros p c _. apply pchar_exact_literal. Qed.
Print Assumptions C02_quoted_literal_characters.

Example C02_example :
  let f := FAnd [FKw KWild (lit "err*r"); FNot (FKw KExact (lit "a*b"))] in
  map (fmatches f) [lit "an ERROR here"; lit "error a*b"; lit "err" ++ [10] ++ lit "or"; lit "fine"; lit "error A*B"]
  = [true; false; true; false; true].
Proof. vm_compute. reflexivity. Qed.

(** *** the filter syntax: every spelling of a filter is read back as that filter.
    AND binds tighter than OR, NOT tighter than both, parentheses group, filters side by side are an
    implicit AND, quoted keywords are literal, bare keywords are maximal runs of keyword characters;
    whitespace runs, blanks inside parentheses and the quote style do not matter *)
Theorem C02_filter_roundtrip : forall (o : popts) (fs : list filter) (rest : str),
  popts_ok o = true -> fs <> [] -> forallb wf_filter fs = true -> search_stop rest = true ->
  parse_search (fpp_top o fs ++ rest) = POk (FAnd fs) (skip_spaces rest).
Proof. exact filter_roundtrip. Qed.
Print Assumptions C02_filter_roundtrip.

Theorem C02_filter_spellings_agree : forall (o1 o2 : popts) (fs : list filter) (rest : str),
  popts_ok o1 = true -> popts_ok o2 = true -> fs <> [] -> forallb wf_filter fs = true -> search_stop rest = true ->
  parse_search (fpp_top o1 fs ++ rest) = parse_search (fpp_top o2 fs ++ rest).
Proof. exact filter_spellings_agree. Qed.
Print Assumptions C02_filter_spellings_agree.

(** `*` alone selects everything *)
Theorem C02_star_is_everything : forall rest : str,
  search_stop rest = true -> parse_search (lit "*" ++ rest) = POk (FAnd []) (skip_spaces rest).
Proof. exact star_is_everything. Qed.
Print Assumptions C02_star_is_everything.

(** ... and as an operand it is the Boolean constant true: `* OR x` selects every line, `NOT *` none
    ([None] is the parser's encoding of "every line") *)
Theorem C02_every_line_operand : forall (is_or : bool) (a b : option filter) (line : str),
  osem (combine2 is_or a b) line = (if is_or then osem a line || osem b line else osem a line && osem b line) /\
  osem (not_filter a) line = negb (osem a line).
Proof. intros. split; [apply combine2_sem | apply not_filter_sem]. Qed.
Print Assumptions C02_every_line_operand.
Example C02_star_operands :
  let k n := FKw KWild (lit n) in
  parse_search (lit "* OR foo") = POk (FAnd []) [] /\
  parse_search (lit "foo OR *") = POk (FAnd []) [] /\
  parse_search (lit "NOT *") = POk (FAnd [FNot (FAnd [])]) [] /\
  parse_search (lit "* AND foo") = POk (FAnd [k "foo"]) [] /\
  parse_search (lit "(* OR a) AND NOT (b OR """")") = POk (FAnd [FNot (FAnd [])]) [] /\
  forall line, fmatches (FAnd [FNot (FAnd [])]) line = false.
Proof. exact star_operands. Qed.

Example C02_filter_examples :
  let k n := FKw KWild (lit n) in
  parse_search (lit "a b OR c | count") = POk (FAnd [k "a"; FOr [k "b"; k "c"]]) (lit "| count") /\
  parse_search (lit "a AND b OR NOT c") = POk (FAnd [FOr [FAnd [k "a"; k "b"]; FNot (k "c")]]) [] /\
  parse_search (lit "( a OR b ) AND ""x y""") = POk (FAnd [FAnd [FOr [k "a"; k "b"]; FKw KExact (lit "x y")]]) [].
Proof. exact filter_examples. Qed.
