(** C04 — every query is either fully honoured or rejected with a diagnostic. *)
From Coq Require Import List ZArith NArith Bool Lia.
From AG Require Import Str F64 Value Json Expr Ops Pipeline Filter Grammar Print Grammar_proofs Spelling_proofs QueryRoundtrip Static_proofs.
From AG Require Generated.
Import ListNotations.
Open Scope string_scope.
Open Scope list_scope.

(** [accepts] is the accepted language: lang.rs transcribed combinator for combinator (every error
    recovery point collapses to rejection), followed by typecheck.rs and the alias splice.  It is a
    total function: compilation terminates.  What an accepted query consists of: *)
Theorem C04_accepted_query_anatomy : forall (s : str) (f : filter) (st : list stage),
  accepts s = Some (f, st) ->
  exists q sts,
    parse_query s = Some q /\ lq_filter q = f /\
    Forall2 (fun o l => check_lop true o = Some l) (lq_ops q) sts /\
    st = concat sts /\ forallb stage_ok st = true.
Proof. exact accepts_anatomy. Qed.
Print Assumptions C04_accepted_query_anatomy.

(** the whole text was consumed: only whitespace may remain after the last stage (false before fix e08667b) *)
Theorem C04_whole_input_consumed : forall (s : str) (q : lquery),
  parse_query s = Some q ->
  exists r1 r2,
    parse_search s = POk (lq_filter q) r1 /\
    (match eat 124%N r1 with Some r' => parse_operators r' | None => POk [] r1 end) = POk (lq_ops q) r2 /\
    is_nil (trim r2) = true.
Proof. exact parse_query_whole_input. Qed.
Print Assumptions C04_whole_input_consumed.

(** no stage is skipped: a stage either parses or aborts the whole parse (the operator parser never
    backtracks out of a stage — false before fix 6a3cc0b), no pipe is left over, and every operator of
    an accepted query contributes at least one stage *)
Theorem C04_no_stage_skipped : forall s : str, p_oper s <> PFail.
Proof. exact p_oper_never_backtracks. Qed.
Print Assumptions C04_no_stage_skipped.

Theorem C04_no_pipe_left : forall (s r : str) (ops : list lop),
  parse_operators s = POk ops r -> head_is 124%N r = false.
Proof. exact parse_operators_leaves_no_pipe. Qed.
Print Assumptions C04_no_pipe_left.

Theorem C04_every_operator_in_effect : forall (o : lop) (l : list stage),
  check_lop true o = Some l -> l <> [].
Proof. exact check_lop_nonempty. Qed.
Print Assumptions C04_every_operator_in_effect.
(** (that every stage of the resulting list is then in effect, in order, is C03) *)

(** *** every accepted query is honoured in full: a query printed from a filter list and a stage
    list — in ANY spelling: whitespace runs, quote style, and/&&, or/||, !=/<>, minimal or redundant
    parentheses — compiles to exactly that filter list and exactly those stages, in that order: nothing
    is lost, added, reordered or misread.  [wf_stage] names what the printer covers (every operator and
    option of the language except `parse regex`, durations printed in ns, explicit `as` names) *)
Theorem C04_query_roundtrip : forall (o : popts) (fs : list filter) (stages : list stage) (t : str),
  popts_ok o = true -> forallb wf_filter fs = true ->
  forallb (wf_stage o) stages = true -> forallb stage_ok stages = true ->
  pp_query o fs stages = Some t ->
  accepts t = Some (FAnd fs, stages).
Proof. exact query_roundtrip. Qed.
Print Assumptions C04_query_roundtrip.

(** *** static errors: ONE bad operator or ONE statically wrong stage anywhere rejects the whole query *)
Theorem C04_bad_operator_rejects : forall (s : str) (q : lquery) (o : lop),
  parse_query s = Some q -> In o (lq_ops q) -> check_lop true o = None -> accepts s = None.
Proof. exact bad_op_rejects. Qed.
Print Assumptions C04_bad_operator_rejects.

Theorem C04_bad_stage_rejects : forall (s : str) (q : lquery) (o : lop) (l : list stage) (x : stage),
  parse_query s = Some q -> In o (lq_ops q) -> check_lop true o = Some l -> In x l ->
  stage_ok x = false -> accepts s = None.
Proof. exact bad_stage_rejects. Qed.
Print Assumptions C04_bad_stage_rejects.

(** ... instantiated for the documented static errors *)
Theorem C04_static_limit : forall c : option f64,
  typecheck_limit c = None -> check_lop true (LInline (LLimit c)) = None.
Proof. exact bad_limit_rejected. Qed.
Print Assumptions C04_static_limit.
(** (zero, fractional, NaN and infinite counts have typecheck_limit = None: the C10_static theorems) *)

Theorem C04_static_where_missing : check_lop true (LInline (LWhere None)) = None.
Proof. exact where_without_condition_rejected. Qed.
Theorem C04_static_where_constant : forall v : value,
  (forall b, v <> VBool b) -> stage_ok (SWhere (EVal v)) = false.
Proof. exact where_constant_non_boolean_rejected. Qed.
Theorem C04_static_unknown_function : forall name args,
  is_known_func name = false -> stage_ok (SWhere (ECall name args)) = false.
Proof. exact unknown_function_rejected_in_where. Qed.
(** the static checks reach every sub-expression of every stage: an unknown function is rejected
    wherever it sits (operand, argument, either branch of an [if] with a literal condition,
    aggregate argument, group key, sort key), and the whole query with it *)
Theorem C04_static_unknown_function_anywhere : forall (s : stage) (e : expr) (f : str) (args : list expr),
  In e (stage_exprs s) -> subexpr (ECall f args) e -> is_known_func f = false -> stage_ok s = false.
Proof. exact unknown_function_anywhere_rejects_stage. Qed.
Print Assumptions C04_static_unknown_function_anywhere.
Theorem C04_static_error_node_anywhere : forall (s : stage) (e : expr),
  In e (stage_exprs s) -> subexpr EError e -> stage_ok s = false.
Proof. exact error_node_anywhere_rejects_stage. Qed.
Theorem C04_unknown_function_rejects_query : forall (q : str) (lq : lquery) (o : lop) (l : list stage) (s : stage)
    (e : expr) (f : str) (args : list expr),
  parse_query q = Some lq -> In o (lq_ops lq) -> check_lop true o = Some l -> In s l ->
  In e (stage_exprs s) -> subexpr (ECall f args) e -> is_known_func f = false ->
  accepts q = None.
Proof. exact unknown_function_anywhere_rejects_query. Qed.
Print Assumptions C04_unknown_function_rejects_query.
Example C04_unknown_function_in_dead_branch :
  accepts (lit "* | json | if(true, k, nosuchfn(k)) as x") = None /\
  accepts (lit "* | json | if(false, nosuchfn(k), k) as x") = None /\
  accepts (lit "* | json | count(if(true, k, nosuchfn(k)) > 1) as n") = None /\
  accepts (lit "* | json | if(true, k, length(k)) as x") <> None.
Proof. exact unknown_function_in_dead_branch. Qed.
Theorem C04_static_timeslice_duration : forall e n, check_lop true (LInline (LTimeslice e None n)) = None.
Proof. exact timeslice_without_duration_rejected. Qed.
Theorem C04_static_count_distinct_arity : forall fns keys n,
  In (n, LAggDistinctBad) fns -> check_lop true (LMultiAgg fns keys) = None.
Proof. exact count_distinct_arity_rejected. Qed.
Theorem C04_static_unknown_alias : forall n,
  alias_template Generated.alias_table n = None -> check_lop true (LAliasOp n) = None.
Proof. exact unknown_alias_rejected. Qed.
Theorem C04_static_field_count : forall pat fields from nodrop noconv,
  count_stars pat <> length fields -> stage_ok (SParse pat fields from nodrop noconv) = false.
Proof. exact parse_count_mismatch_rejected. Qed.
Theorem C04_static_split_separator : forall f o, stage_ok (SSplit [] f o) = false.
Proof. exact split_empty_separator_rejected. Qed.
Theorem C04_static_percentile_range : forall (s r : str) (q : f64) (e : expr) (ps : str),
  p_pct s = POk (LAgg (FPct q e), ps) r ->
  exists v : Z, (0 < v < 100)%Z /\ q = fdiv (f_of_Z v) (f_of_Z 100).
Proof. exact pct_in_range. Qed.
Print Assumptions C04_static_percentile_range.

(** mode words of `fields` are whole words: a field named `only_x` is a field (false before fix a6b1cfe) *)
Theorem C04_fields_mode_not_a_prefix : forall (c : N) (r : str),
  is_space c = false ->
  fields_mode (lit "only" ++ c :: r) = PFail /\ fields_mode (lit "include" ++ c :: r) = PFail /\
  fields_mode (lit "except" ++ c :: r) = PFail /\ fields_mode (lit "drop" ++ c :: r) = PFail.
Proof. exact fields_mode_not_a_prefix. Qed.
Print Assumptions C04_fields_mode_not_a_prefix.

(** concrete instances (closed computations through the whole of [accepts]) *)
Example C04_accepts_example : accepts (lit "* | json | count by k | sort by _count desc | limit 3") <> None.
Proof. exact ex_accept. Qed.

Example C04_static_error_examples :
  map (fun q => accepts (lit q))
    ["* | limit 0"; "* | limit 0.5"; "* | limit 1.5"; "* | parse ""* *"" as a";
     "* | parse ""*"" from a as x from b"; "* | json | where 5"; "* | json | where ""x""";
     "* | json | where nosuchfn(a)"; "* | json | nosuchop"; "* | json | p0(a)"; "* | json | p100(a)";
     "* | json | sum()"; "* | json | count_distinct()"; "* | json | count_distinct(a, b)"; "* | json | timeslice(t)";
     "* | json | where"; "* | json | split(a) on """""; "* | json | count |"; "* | json | limit 3 extra";
     "* | json | count by"; "* | json | fields"; "* | json | a +  as x"; "* | json | (a as x"]
  = repeat None 23.
Proof. exact ex_static_errors. Qed.

Example C04_silent_misreadings_gone :
  option_map snd (accepts (lit "* | json | fields only_x")) = Some [SJson None; SFields true [lit "only_x"]] /\
  accepts (lit "* | json | parse ""*"" from s asx") = None /\
  accepts (lit "* | json | fields a b | count") = None /\
  accepts (lit "* | json | count by x extra") = None.
Proof. vm_compute. repeat split; reflexivity. Qed.
