(** C05 — expressions evaluate with conventional, self-consistent semantics. *)
From Coq Require Import List ZArith NArith Lia Bool Reals Floats.SpecFloat.
From Flocq Require Import Core IEEE754.BinarySingleNaN.
From AG Require Import Str F64 Value Json Expr Ops Pipeline F64_proofs F64_exact_proofs Value_proofs Expr_proofs Grammar Print Roundtrip_proofs Hex_proofs Norm_proofs.
Import ListNotations.
Open Scope Z_scope.

(** integer addition, subtraction and multiplication are exact *)
Theorem C05_int_exact : forall a b,
  (in_i64 (a + b) = true -> vadd (VInt a) (VInt b) = Ok (VInt (a + b))) /\
  (in_i64 (a - b) = true -> vsub (VInt a) (VInt b) = Ok (VInt (a - b))) /\
  (in_i64 (a * b) = true -> vmul (VInt a) (VInt b) = Ok (VInt (a * b))).
Proof. intros; repeat split; [apply vadd_int | apply vsub_int | apply vmul_int]. Qed.
Print Assumptions C05_int_exact.

(** ... and beyond the 64-bit range the result is the float computation, never a wrapped integer - nor a saturated one:
    where the float is itself an integer in range (only -2^63, for results in [-2^63 - 1024, -2^63)) the row is an error
    ([float_or_error]; fix 9eb768d) *)
Theorem C05_int_overflow_is_float : forall a b,
  (in_i64 (a + b) = false -> vadd (VInt a) (VInt b) = float_or_error (fadd (f_of_Z a) (f_of_Z b))) /\
  (in_i64 (a * b) = false -> vmul (VInt a) (VInt b) = float_or_error (fmul (f_of_Z a) (f_of_Z b))).
Proof. intros; split; [apply vadd_int_overflow | apply vmul_int_overflow]. Qed.
Print Assumptions C05_int_overflow_is_float.

(** division and mixed arithmetic are IEEE double ... (a date converts to a number - num(date) is its epoch
    milliseconds - but is no operand of the numeric fallback: fixes 9840533, 4e663c3) *)
Theorem C05_div_mixed_ieee : forall l r a b,
  is_date l = false -> is_date r = false ->
  to_f64 l = Ok a -> to_f64 r = Ok b -> vdiv l r = Ok (from_float (fdiv a b)).
Proof. exact vdiv_numbers. Qed.
Print Assumptions C05_div_mixed_ieee.

(** two dates cannot be added, a date cannot be scaled or divided - while num(date) is a number *)
Theorem C05_dates_are_no_numeric_operands : forall op l r,
  is_date l = true \/ is_date r = true -> binary_op op l r = Err.
Proof. intros op l r [H|H]; unfold binary_op; rewrite H; [reflexivity|]. now rewrite orb_true_r. Qed.
Print Assumptions C05_dates_are_no_numeric_operands.
Example C05_date_arithmetic :
  vadd (VDate 1000000000) (VDate 3000000000) = Err /\ vmul (VDate 1000000000) (VInt 2) = Err /\
  vdiv (VDate 1000000000) (VInt 1000) = Err /\
  vsub (VDate 3000000000) (VDate 1000000000) = Ok (VDur 2000000000) /\
  vadd (VDate 1000000000) (VDur 1000000000) = Ok (VDate 2000000000) /\
  to_f64 (VDate 1000000000) = Ok (f_of_Z 1000).
Proof. vm_compute. repeat split. Qed.

(** a duration is scaled by any integer, on its nanosecond count (fixes c8b2097, 0992468); division truncates *)
Example C05_duration_scaling :
  vmul (VDur 1) (VInt 3000000000) = Ok (VDur 3000000000) /\
  vmul (VInt 3000000000) (VDur 1) = Ok (VDur 3000000000) /\
  vdiv (VDur 3600000000000) (VInt 3600000000000) = Ok (VDur 1) /\
  vdiv (VDur 1500000000) (VInt (-7)) = Ok (VDur (-214285714)) /\
  vdiv (VDur 3600000000000) (VInt 0) = Err /\
  vmul (VDur 3600000000000) (VInt 9223372036854775807) = Err.
Proof. vm_compute. repeat split. Qed.

Theorem C05_mixed_add : forall z f g,
  vadd (VInt z) (VFloat f) = Ok (from_float (fadd (f_of_Z z) f)) /\
  vadd (VFloat f) (VFloat g) = Ok (from_float (fadd f g)) /\
  vmul (VFloat f) (VFloat g) = Ok (from_float (fmul f g)).
Proof. intros; repeat split. Qed.
Print Assumptions C05_mixed_add.

(** ... with integral results shown as integers, and only those *)
Theorem C05_integral_shown_as_int : forall f,
  (forall z, from_float f = VInt z -> f_is_integral f = true /\ ftrunc_Z f = z /\ in_i64 z = true) /\
  (forall g, from_float f = VFloat g -> g = f /\ (f_is_integral f = false \/ in_i64 (ftrunc_Z f) = false)).
Proof. intros f; split; [apply from_float_int | apply from_float_float]. Qed.
Print Assumptions C05_integral_shown_as_int.

Theorem C05_small_int_roundtrip : forall z, Z.abs z <= 2 ^ 53 -> from_float (f_of_Z z) = VInt z.
Proof. exact from_float_of_Z. Qed.
Print Assumptions C05_small_int_roundtrip.

(** the six comparison operators are mutually consistent: exactly one of <, (cmp =), > holds,
    <= is < or =, >= is > or =, a < b iff b > a *)
Theorem C05_comparisons_consistent : forall a b,
  (vltb a b = true \/ vcmp a b = Eq \/ vgtb a b = true) /\
  (vltb a b = true -> vcmp a b <> Eq /\ vgtb a b = false) /\
  (vgtb a b = true -> vcmp a b <> Eq /\ vltb a b = false) /\
  vleb a b = (vltb a b || match vcmp a b with Eq => true | _ => false end) /\
  vgeb a b = (vgtb a b || match vcmp a b with Eq => true | _ => false end) /\
  vltb a b = vgtb b a.
Proof. exact cmp_ops_consistent. Qed.
Print Assumptions C05_comparisons_consistent.

(** == is an equivalence relation; it implies "neither < nor >", and coincides with
    it wherever an integer does not meet a float; None == None *)
Theorem C05_equality : forall a b c,
  veqb a a = true /\ veqb a b = veqb b a /\
  (veqb a b = true -> veqb b c = true -> veqb a c = true) /\
  (veqb a b = true -> vcmp a b = Eq) /\
  (no_mixed a b = true -> vcmp a b = Eq -> veqb a b = true) /\
  veqb VNone VNone = true.
Proof.
  intros. split; [apply veqb_refl|]. split; [apply veqb_sym|]. split; [apply veqb_trans|].
  split; [apply veqb_vcmp|]. split; [apply vcmp_eq_veqb | reflexivity].
Qed.
Print Assumptions C05_equality.

(** numeric between numbers (an integer is compared with a double exactly: with the real
    number the double denotes, for every integer and every finite well-formed double),
    lexicographic between strings, one fixed type order otherwise *)
Theorem C05_order_by_kind : forall x y s t a b,
  vcmp (VInt x) (VInt y) = Z.compare x y /\
  (Z.abs y <= 2 ^ 53 -> vcmp (VInt x) (VFloat (f_of_Z y)) = Z.compare x y) /\
  (forall f, valid_binary F64.prec F64.emax f = true -> f_is_finite f = true ->
     vcmp (VInt x) (VFloat f) = Rcompare (IZR x) (SF2R radix2 f)) /\
  vcmp (VStr s) (VStr t) = str_cmp s t /\
  ((rank a < rank b)%N -> vcmp a b = Lt).
Proof.
  intros. split; [apply vcmp_int_int|]. split; [apply vcmp_int_float_small|].
  split; [apply vcmp_int_float_exact|].
  split; [apply vcmp_str | apply vcmp_rank].
Qed.
Print Assumptions C05_order_by_kind.

(** and/or short-circuit, ! negates booleans, if evaluates only the chosen branch:
    the unchosen operand may even fail *)
Theorem C05_short_circuit : forall l r d,
  (eval l d = Ok (VBool false) -> eval (ELogic LAnd l r) d = Ok (VBool false)) /\
  (eval l d = Ok (VBool true) -> eval (ELogic LOr l r) d = Ok (VBool true)) /\
  (eval l d = Ok (VBool true) -> eval (ELogic LAnd l r) d = eval r d) /\
  (eval l d = Ok (VBool false) -> eval (ELogic LOr l r) d = eval r d).
Proof. intros; repeat split; [apply and_short_circuit | apply or_short_circuit | apply and_true | apply or_false]. Qed.
Print Assumptions C05_short_circuit.

Theorem C05_if_lazy : forall c t e d,
  (eval c d = Ok (VBool true) -> eval (EIf c t e) d = eval t d) /\
  (eval c d = Ok (VBool false) -> eval (EIf c t e) d = eval e d).
Proof. intros; split; [apply if_true | apply if_false]. Qed.
Print Assumptions C05_if_lazy.

Theorem C05_not : forall e d,
  (forall b, eval e d = Ok (VBool b) -> eval (ENot e) d = Ok (VBool (negb b))) /\
  (forall v, eval e d = Ok v -> (forall b, v <> VBool b) -> eval (ENot e) d = Err).
Proof. intros; split; [intros b; apply not_bool | intros v; apply not_nonbool]. Qed.
Print Assumptions C05_not.

(** timeslice(t) d: the latest multiple of d since the epoch that is not after t *)
Theorem C05_timeslice_floor : forall e span name r r' ns,
  eval e (rdata r) = Ok (VDate ns) ->
  timeslice_op e span name r = Ok (Some r') ->
  exists t', get (match name with Some n => n | None => lit "_timeslice" end) (rdata r') = Some (VDate t') /\
             0 < span /\ (span | t') /\ t' <= ns < t' + span.
Proof. exact timeslice_floor. Qed.
Print Assumptions C05_timeslice_floor.

(** ... and it IS yielded for every date and every slice length whose floor is a date (fix fa5338c: chrono's truncation
    refused every date outside 1677..2262 and every slice longer than 292 years) *)
Theorem C05_timeslice_defined : forall e span name r ns,
  eval e (rdata r) = Ok (VDate ns) -> 0 < span -> date_ok (ns - ns mod span) = true ->
  exists r', timeslice_op e span name r = Ok (Some r').
Proof.
  intros e span name r ns He Hs Hd. unfold timeslice_op. rewrite He. cbn [bind].
  destruct (span <=? 0) eqn:E; [apply Z.leb_le in E; lia|].
  unfold mk_date. rewrite Hd. cbn [bind]. eexists. reflexivity.
Qed.
Print Assumptions C05_timeslice_defined.
Example C05_timeslice_far_dates :
  (* 2300-01-01T10:20:30Z and an hour; 2021-03-01T10:20:30Z and 20000 weeks *)
  date_ok (10413829230000000000 - 10413829230000000000 mod 3600000000000) = true /\
  10413829230000000000 - 10413829230000000000 mod 3600000000000 = 10413828000000000000 /\
  1614594030000000000 - 1614594030000000000 mod (20000 * 604800000000000) = 0.
Proof. vm_compute. repeat split. Qed.

(** a row on which the expression fails is dropped on its own (with C12: no other row is affected) *)
Theorem C05_failing_row_dropped : forall e n r,
  (eval_bool e (rdata r) = Err -> where_op e r = Err) /\
  (eval e (rdata r) = Err -> let_op e n r = Err) /\
  (forall h rest, get h (rdata r) = None -> eval (ECol h rest) (rdata r) = Err).
Proof. intros; repeat split; [apply where_drops_failing_row | apply let_drops_failing_row | intros; now apply col_missing]. Qed.
Print Assumptions C05_failing_row_dropped.

(** documented functions (a sample; the rest is covered by the correspondence only) *)
Theorem C05_functions_sample : forall s l,
  eval_func (lit "length") [VStr s] = Ok (VInt (Z.of_nat (length s))) /\
  eval_func (lit "length") [VArr l] = Ok (VInt (Z.of_nat (length l))) /\
  eval_func (lit "isNull") [VNone] = Ok (VBool true) /\
  eval_func (lit "isNull") [] = Err.
Proof. intros; repeat split. Qed.
Print Assumptions C05_functions_sample.

Example C05_example_half_plus_half :
  eval (ECmp CEq (EArith AAdd (EVal (VFloat (f_of_dec false 5 (-1)))) (EVal (VFloat (f_of_dec false 5 (-1))))) (EVal (VInt 1))) [] = Ok (VBool true).
Proof. vm_compute. reflexivity. Qed.

(** *** precedence and associativity, as one statement about the parser: every spelling of every
    well-formed expression — printed with parentheses only where `* /` > `+ -` > comparisons >
    `and` > `or`, left associativity and the non-chaining of comparisons require them, or fully
    parenthesised; with any whitespace runs, `and`/`&&`, `or`/`||`, `!=`/`<>`, either quote
    style — is read back as exactly that expression *)
(** parseHex returns the documented result on EVERY hexadecimal spelling of every i64: either letter
    case, any number of leading zeros (so also on "0", "0x0", "0000"), with or without the 0x
    prefix, blanks around; a minus sign for negatives; too large or not hexadecimal is an error
    (the row is dropped with a message), never a wrapped value. [to_hex] is an independent printer. *)
Theorem C05_parse_hex_of_hex : forall (upper pre : bool) (k : nat) (n : Z) (ws1 ws2 : str),
  0 <= n <= i64_max ->
  forallb is_ws ws1 = true -> forallb is_ws ws2 = true ->
  parse_hex (ws1 ++ (if pre then lit "0x" else []) ++ zeros k ++ to_hex upper n ++ ws2) = Ok (VInt n).
Proof. exact parse_hex_of_hex. Qed.
Print Assumptions C05_parse_hex_of_hex.
Theorem C05_parse_hex_negative : forall (upper : bool) (k : nat) (n : Z),
  0 <= n <= - i64_min ->
  parse_hex (45%N :: zeros k ++ to_hex upper n) = Ok (VInt (- n)).
Proof. exact parse_hex_negative. Qed.
Theorem C05_parse_hex_out_of_range : forall (upper pre : bool) (n : Z),
  i64_max < n < 2 ^ 256 ->
  parse_hex ((if pre then lit "0x" else []) ++ to_hex upper n) = Err.
Proof. exact parse_hex_out_of_range. Qed.
Theorem C05_parse_hex_rejects : forall (s : str) (c : N) (r : str),
  hex_val c = None -> c <> 45%N -> c <> 43%N -> is_ws c = false ->
  (forall t, s ++ c :: r <> lit "0x" ++ t) ->
  forallb (fun x => match hex_val x with Some _ => true | None => false end) s = true ->
  parse_hex (s ++ c :: r ++ [49%N]) = Err.
Proof. exact parse_hex_rejects. Qed.
Example C05_parse_hex_examples :
  parse_hex (lit "0x0") = Ok (VInt 0) /\ parse_hex (lit "0") = Ok (VInt 0) /\ parse_hex (lit "0000") = Ok (VInt 0) /\
  parse_hex (lit "0x7b") = Ok (VInt 123) /\ parse_hex (lit " 0X1F ") = Err /\ parse_hex (lit "0x") = Err /\
  parse_hex (lit "") = Err /\ parse_hex (lit "-8000000000000000") = Ok (VInt i64_min) /\
  parse_hex (lit "8000000000000000") = Err /\ parse_hex (lit "0x0x1f") = Ok (VInt 31) /\
  to_hex false 255 = lit "ff" /\ to_hex true 48879 = lit "BEEF" /\ to_hex false 0 = lit "0".
Proof. exact parse_hex_examples. Qed.

(** THE INVARIANT BEHIND == : a number that is integral and within the i64 range is always an Int, never a
    Float.  Every producer keeps it (extraction from text and JSON, the four arithmetic operations - whatever
    their operands -, [from_float]); on values that respect it the order and the equality agree, so exactly
    one of <, ==, > holds.  Without it they do not: [VFloat (-2^63)] against [VInt i64_min] is neither <, == nor >
    (the repair 00e4db6 of this project produced such a value and was withdrawn, d2a8efa). *)
Theorem C05_values_are_normalised :
  (forall f, normalised (from_float f) /\ i64_ints (from_float f)) /\
  (forall s, normalised (from_string s) /\ i64_ints (from_string s)) /\
  (forall j, normalised (json_to_value j) /\ i64_ints (json_to_value j)) /\
  (forall a b v, (vadd a b = Ok v \/ vsub a b = Ok v \/ vmul a b = Ok v \/ vdiv a b = Ok v) -> normalised v /\ i64_ints v).
Proof.
  split; [intros; split; [apply from_float_normalised | apply from_float_i64]|].
  split; [intros; split; [apply from_string_normalised | apply from_string_i64]|].
  split; [intros; split; [apply json_to_value_normalised | apply json_to_value_i64]|].
  intros a b v [H|[H|[H|H]]]; split;
    first [ exact (vadd_normalised _ _ _ H) | exact (vadd_i64 _ _ _ H) | exact (vsub_normalised _ _ _ H) | exact (vsub_i64 _ _ _ H)
          | exact (vmul_normalised _ _ _ H) | exact (vmul_i64 _ _ _ H) | exact (vdiv_normalised _ _ _ H) | exact (vdiv_i64 _ _ _ H) ].
Qed.
Print Assumptions C05_values_are_normalised.
Theorem C05_trichotomy : forall a b,
  normalised a -> normalised b -> i64_ints a -> i64_ints b ->
  (vltb a b = true /\ veqb a b = false /\ vgtb a b = false) \/
  (vltb a b = false /\ veqb a b = true /\ vgtb a b = false) \/
  (vltb a b = false /\ veqb a b = false /\ vgtb a b = true).
Proof. exact trichotomy. Qed.
Print Assumptions C05_trichotomy.
Example C05_unnormalised_value_breaks_trichotomy :
  vltb (VFloat (f_of_Z i64_min)) (VInt i64_min) = false /\
  veqb (VFloat (f_of_Z i64_min)) (VInt i64_min) = false /\
  vgtb (VFloat (f_of_Z i64_min)) (VInt i64_min) = false /\
  vsub (VInt i64_min) (VInt 1) = Err.
Proof. vm_compute. repeat split. Qed.

Theorem C05_precedence_roundtrip : forall (o : popts) (e : expr) (rest : str),
  popts_ok o = true -> wf_expr e = true -> stopb rest = true ->
  opt_expr (pp o 0 e ++ rest) = POk e rest.
Proof. exact expr_roundtrip. Qed.
Print Assumptions C05_precedence_roundtrip.

(** the parser's fuel never runs out: its result does not depend on surplus fuel *)
Theorem C05_parser_fuel_irrelevant : forall (f1 f2 : nat) (s : str),
  (length s < f1)%nat -> (length s < f2)%nat -> p_expr f1 s = p_expr f2 s.
Proof. exact p_expr_fuel_irrelevant. Qed.
Print Assumptions C05_parser_fuel_irrelevant.

Example C05_precedence_examples :
  let c n := ECol (lit n) [] in
  opt_expr (lit "a + b * c") = POk (EArith AAdd (c "a") (EArith AMul (c "b") (c "c"))) [] /\
  opt_expr (lit "a - b - c") = POk (EArith ASub (EArith ASub (c "a") (c "b")) (c "c")) [] /\
  opt_expr (lit "a + 1 < b and !x or y") =
    POk (ELogic LOr (ELogic LAnd (ECmp CLt (EArith AAdd (c "a") (EVal (VInt 1))) (c "b")) (ENot (c "x"))) (c "y")) [] /\
  opt_expr (lit "( a  ||b )&& c") = POk (ELogic LAnd (ELogic LOr (c "a") (c "b")) (c "c")) [].
Proof. exact precedence_examples. Qed.

(** *** the text of a date and of a duration as the string functions see it ([Value::to_string]: chrono's Debug forms,
    DateFmt.v / DurFmt.v, compared byte for byte with the binary): concat of a date is its `…Z` text, the text determines
    the value *)
From AG Require Import DateFmt DatePaths DatePaths_proofs DurFmt DurFmt_proofs.

Theorem C05_concat_of_a_date : forall ns,
  eval_func (lit "concat") [VDate ns] = Ok (VStr (fmt_date_debug ns)).
Proof. exact concat_date. Qed.
Print Assumptions C05_concat_of_a_date.

Theorem C05_date_text_determines_the_date : forall a b, to_display (VDate a) = to_display (VDate b) -> a = b.
Proof. exact to_display_date_injective. Qed.
Print Assumptions C05_date_text_determines_the_date.

Theorem C05_duration_text_determines_the_duration : forall a b, to_display (VDur a) = to_display (VDur b) -> a = b.
Proof. exact to_display_dur_injective. Qed.
Print Assumptions C05_duration_text_determines_the_duration.

Example C05_date_and_duration_text_example :
  to_display (VDate 1628640000500000000) = Ok (lit "2021-08-11T00:00:00.500Z") /\
  to_display (VDur (-1500000000)) = Ok (lit "TimeDelta { secs: -2, nanos: 500000000 }").
Proof. vm_compute. split; reflexivity. Qed.
Print Assumptions C05_date_and_duration_text_example.

(** *** the text of a float as the string functions see it (F64Display.v: Rust's `{}` for f64 - the shortest digits that
    read back, free-format algorithm on exact integers, positional layout; compared byte for byte with the binary on
    every run).  The digit generator never runs out of fuel; the text of a finite double is an optional `-`, digits
    and at most one `.` - no exponent form.  That the text READS BACK as the same double is checked per instance
    ([hard_checks], and on every run against the binary with Python's float()); it is not a theorem here. *)
From AG Require Import F64Display F64Display_proofs.

Theorem C05_float_text_digits_always_found : forall m e, shortest m e <> None.
Proof. exact shortest_some. Qed.
Print Assumptions C05_float_text_digits_always_found.

Theorem C05_float_text_shape_partial : forall x,
  f_is_finite x = true -> digits_in_range x = true ->
  let body := snd (strip_minus (f64_display x)) in
  body <> [] /\ forallb plain_char body = true /\ (dots body <= 1)%nat /\
  fst (strip_minus (f64_display x)) = f_sign x.
Proof. exact f64_display_shape. Qed.
Print Assumptions C05_float_text_shape_partial.
