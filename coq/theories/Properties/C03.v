(** C03 — pipeline stages apply strictly in the order written. *)
From Coq Require Import List ZArith Lia.
From AG Require Import Str F64 Value Json Expr Ops Pipeline Stream_proofs Compile_proofs Str_proofs.
Import ListNotations.

(** Row operators before the first aggregation/sort: running them the way
    Pipeline::process does (each line through every operator, buffered rows
    drained through the REMAINING operators at end of input) is the same as
    applying each operator to the complete output of the one before it. *)
Theorem C03_stream_is_staged : forall (ops : list opstate) (rows : list record),
  rev (p_sent (run_preagg ops rows)) = staged ops rows.
Proof. exact stream_is_staged. Qed.
Print Assumptions C03_stream_is_staged.

(** one operator at a time, including error counts and the bad flags *)
Theorem C03_stage_step : forall o ops recs,
  let '(o', outs, n, bo) := op_run o recs in
  run_preagg (o :: ops) recs = shift n bo (run_preagg ops (outs ++ op_drain o')).
Proof. exact preagg_staged. Qed.
Print Assumptions C03_stage_step.

(** Pipeline::new: the row operators written before the first aggregation or
    sort become the pre-aggregate list, in order; everything after it becomes
    the aggregate list, in order (row operators wrapped in the adapter). *)
Theorem C03_compile : forall stages,
  compile stages = let '(p, q) := split_pre stages in (map build_op p, post_ref q).
Proof. exact compile_spec. Qed.
Print Assumptions C03_compile.

Theorem C03_partition_is_the_query : forall stages,
  let '(p, q) := split_pre stages in
  p ++ q = stages /\ forallb is_inline p = true /\
  match q with [] => True | s :: _ => is_inline s = false end.
Proof.
  intros stages. pose proof (split_pre_app stages) as H1.
  pose proof (split_pre_inline stages) as H2. pose proof (split_pre_head stages) as H3.
  destruct (split_pre stages) as [p q]. auto.
Qed.
Print Assumptions C03_partition_is_the_query.

(** no stage hoisted, skipped or applied twice: erasing the implicit sorts
    from the aggregate list gives back exactly the written stages *)
Theorem C03_nothing_lost_or_added : forall stages,
  erase_implicit stages (post_ref stages) = Some (map mk_aggop stages).
Proof. exact post_ref_faithful. Qed.
Print Assumptions C03_nothing_lost_or_added.

(** a row operator after an aggregation/sort acts on the rows of that table,
    in table order, with a fresh operator instance *)
Theorem C03_adapter_rows : forall st t t',
  adapter_process st t = Ok t' ->
  exists o outs,
    run_rows (build_op st) (map (fun d => mkRec d []) (t_rows t)) [] = (o, Ok outs) /\
    t_rows t' = map rdata (outs ++ op_drain o).
Proof.
  intros st t t'. unfold adapter_process.
  destruct (run_rows (build_op st) (map (fun d => mkRec d []) (t_rows t)) []) as [o out].
  destruct out as [outs| | |]; cbn [bind]; try discriminate.
  intros H. injection H as <-. exists o, outs. split; reflexivity.
Qed.
Print Assumptions C03_adapter_rows.

(** ... keeping the surviving columns of the table in order and appending new ones *)
Theorem C03_adapter_columns : forall st t t',
  adapter_process st t = Ok t' ->
  exists newc,
    t_cols t' = filter (fun k => existsb (fun d => has k d) (t_rows t')) (t_cols t) ++ newc /\
    forall k, In k newc -> ~ In k (filter (fun k => existsb (fun d => has k d) (t_rows t')) (t_cols t)).
Proof.
  intros st t t'. unfold adapter_process.
  destruct (run_rows (build_op st) (map (fun d => mkRec d []) (t_rows t)) []) as [o out].
  destruct out as [outs| | |]; cbn [bind]; try discriminate.
  intros H. injection H as <-. cbn [t_cols t_rows].
  eexists. split; [reflexivity|].
  intros k Hin Hk. apply filter_In in Hin as [_ Hneg].
  apply Bool.negb_true_iff in Hneg.
  assert (existsb (str_eqb k) (filter (fun k0 => existsb (fun d => has k0 d) (map rdata (outs ++ op_drain o))) (t_cols t)) = true) as Hex.
  { apply existsb_exists. exists k. split; [exact Hk|]. apply str_eqb_refl. }
  congruence.
Qed.
Print Assumptions C03_adapter_columns.

(** a second aggregation aggregates the first one's rows, from a cleared state *)
Theorem C03_agg_of_agg : forall g t,
  agg_process_table (AGroup g) t = Unm \/
  agg_process_table (AGroup g) t =
    Ok (AGroup (fold_left g_process_map (t_rows t) (mkG (g_keys g) (g_fns g) []))).
Proof.
  intros g t. cbn [agg_process_table].
  destruct (existsb (any_unm_row (AGroup g)) (t_rows t)); [left|right]; reflexivity.
Qed.
Print Assumptions C03_agg_of_agg.

(** a sort replaces its state by the upstream table on every frame *)
Theorem C03_sort_of_table : forall s t,
  agg_process_table (ASorter s) t = Ok (ASorter (mkS (s_keys s) (s_desc s) (t_cols t) (t_rows t))).
Proof. reflexivity. Qed.
Print Assumptions C03_sort_of_table.

(** the aggregate side is a left-to-right fold over the aggregate list *)
Theorem C03_agg_pipeline_fold : forall t a rest,
  run_agg_rest t (a :: rest) =
  bind (agg_process_table a t) (fun a' => bind (agg_emit a') (fun t' => run_agg_rest t' rest)).
Proof. reflexivity. Qed.
Print Assumptions C03_agg_pipeline_fold.

Example C03_example_sort_then_limit :
  (* sort by x | limit 2 on x = 3,1,2 keeps [1;2]: the limit runs after the sort *)
  let rows := [[(lit "x", VInt 3)]; [(lit "x", VInt 1)]; [(lit "x", VInt 2)]] in
  let '(pre, post) := compile [SSort [ECol (lit "x") []] false; SLimit 2] in
  pre = [] /\ length post = 2%nat.
Proof. vm_compute. split; reflexivity. Qed.
