(** C17 — I/O faults end the run cleanly.

    Same transition system as C15, with an output that fails after k rows (closed stdout).
    SIGPIPE disposition, EPIPE delivery, exit codes and unreadable inputs are the OS/runtime:
    the model assumes "every write at or after the fault fails"; the rest is enumerated on the
    real binary by the harness. *)
From Coq Require Import List ZArith NArith Bool Lia.
From AG Require Import Str F64 Value Json Expr Ops Pipeline Stream Stream_proofs Protocol_proofs Fault_proofs.
Import ListNotations.
Open Scope nat_scope.

(** at most k rows are ever written when stdout fails after k rows *)
Theorem C17_output_respects_fault : forall f ops lines k sched,
  length (y_out (run_schedule sched (init f ops lines (Some k)))) <= k.
Proof. exact output_respects_budget. Qed.
Print Assumptions C17_output_respects_fault.

(** once the renderer has given up (receiver dropped) nothing more is ever written, in any continuation *)
Theorem C17_no_output_after_failure : forall f ops lines budget sched1 sched2,
  let s := run_schedule sched1 (init f ops lines budget) in
  y_rx s = false -> y_out (run_schedule sched2 s) = y_out s.
Proof. exact after_failure_no_more_output_reachable_weak. Qed.
Print Assumptions C17_no_output_after_failure.

Theorem C17_failure_is_final : forall f ops lines budget sched1 sched2,
  let s := run_schedule sched1 (init f ops lines budget) in
  y_rx s = false -> y_rx (run_schedule sched2 s) = false.
Proof. exact failure_is_sticky_reachable_weak. Qed.
Print Assumptions C17_failure_is_final.

(** the renderer reports once and returns: it takes no further step (at most one error line from it) *)
Theorem C17_renderer_returns : forall s sched, y_rdone s = true -> renderer_step (run_schedule sched s) = None.
Proof. exact renderer_done_is_final. Qed.
Print Assumptions C17_renderer_returns.

(** the reader stops reading at the first row it cannot hand over — also on endless input *)
Theorem C17_reader_stops : forall s l rest ops' r n,
  y_rx s = false -> y_phase s = PRead -> y_lines s = l :: rest ->
  proc_preagg (y_ops s) (mkRec [] l) = (ops', Ok (Some r), n) ->
  exists s', reader_step s = Some s' /\ y_phase s' = PDrainOp /\ y_chan s' = y_chan s /\ y_out s' = y_out s.
Proof. exact reader_stops_on_failed_send. Qed.
Print Assumptions C17_reader_stops.

(** ... and at the first line it reads after the failure, WHATEVER that line is - rejected by the filter, dropped by an
    operator, or good for a row: in any continuation of any reachable failed state at most one more line is taken
    from the input (endless input included: the reader never waits for a row that would make a send fail) *)
Theorem C17_reader_stops_on_any_line : forall s l rest,
  y_rx s = false -> y_phase s = PRead -> y_lines s = l :: rest ->
  exists s', reader_step s = Some s' /\ y_phase s' = PDrainOp /\ y_lines s' = rest /\
             y_ops s' = y_ops s /\ y_chan s' = y_chan s /\ y_out s' = y_out s /\ y_errs s' = y_errs s.
Proof. exact reader_stops_on_any_line. Qed.
Print Assumptions C17_reader_stops_on_any_line.
Theorem C17_at_most_one_line_after_failure : forall f ops lines budget sched1 sched2,
  let s := run_schedule sched1 (init f ops lines budget) in
  y_rx s = false ->
  length (y_lines s) <= length (y_lines (run_schedule sched2 s)) + 1.
Proof. exact at_most_one_line_after_failure. Qed.
Print Assumptions C17_at_most_one_line_after_failure.

(** and the whole system can still always move until it has terminated (no hang after a fault) *)
Theorem C17_no_deadlock_with_fault : forall f ops lines k sched,
  let s := run_schedule sched (init f ops lines (Some k)) in
  terminal s = false -> (exists s', reader_step s = Some s') \/ (exists s', renderer_step s = Some s').
Proof. intros f ops lines k sched. exact (no_deadlock f ops lines (Some k) sched). Qed.
Print Assumptions C17_no_deadlock_with_fault.
