(** C19 — tables fit the terminal and show all the data. *)
From Coq Require Import List ZArith NArith Bool Lia Arith.
From AG Require Import Str F64 Value Json Expr Ops Pipeline Display Layout_proofs Record_proofs.
From AG Require Generated.
From Coq Require Strings.String.
Import ListNotations.
Open Scope nat_scope.

(** after resize_widths_to_fit the column widths add up to at most the terminal width
    (so the assert! holds and no line can be wider than the terminal), and no column grows *)
Theorem C19_resize_fits : forall w cols maxw,
  NoDup cols -> sum_widths (resize_widths w cols maxw) <= maxw.
Proof. exact resize_fits. Qed.
Print Assumptions C19_resize_fits.

Theorem C19_resize_no_growth : forall w cols maxw c n,
  In c cols ->
  get c (resize_widths w cols maxw) = Some n -> n <= match get c w with Some m => m | None => 0 end.
Proof. exact resize_no_growth. Qed.
Print Assumptions C19_resize_no_growth.

(** the allocation never divides by zero and never underflows a [usize], whatever the widths and
    however many columns there are: [resize_loop_chk] is the loop with those machine faults explicit *)
Theorem C19_resize_no_fault : forall cols w i remaining,
  resize_loop_chk cols w i (i + length cols) remaining = Some (resize_loop cols w i (i + length cols) remaining).
Proof. exact resize_loop_no_fault. Qed.
Print Assumptions C19_resize_no_fault.
(** the divisor the model uses is the divisor the source uses (re-read from resize_widths_to_fit on every run) *)
Module DivisorPin.
Import Strings.String.
Example C19_resize_divisor_is_the_column_count : Generated.resize_divisor = "ordering.len()"%string.
Proof. reflexivity. Qed.
End DivisorPin.

(** a cell is exactly as wide as its column; it shows the whole text iff it fits, else a prefix and an ellipsis *)
Theorem C19_cell_exact : forall inp limit,
  length (format_with_ellipsis inp limit) = limit /\
  (length inp <= limit -> format_with_ellipsis inp limit = inp ++ repeat 32%N (limit - length inp)) /\
  (limit < length inp -> 2 <= limit -> format_with_ellipsis inp limit = firstn (limit - 2) inp ++ ellipsis ++ [32%N]) /\
  (limit < length inp -> limit <= 1 -> format_with_ellipsis inp limit = firstn limit inp).
Proof.
  intros. split; [apply cell_width|]. split; [apply cell_fits|]. split; [apply cell_cut | apply cell_cut_narrow].
Qed.
Print Assumptions C19_cell_exact.

(** every cell starts at its column's offset (the sum of the widths before it) *)
Theorem C19_offsets : forall (cells : list (str * nat)) j,
  j < length cells ->
  firstn (snd (nth j cells ([], 0)))
         (skipn (fold_right plus 0 (map snd (firstn j cells)))
                (concat (map (fun cw => format_with_ellipsis (fst cw) (snd cw)) cells)))
  = format_with_ellipsis (fst (nth j cells ([], 0))) (snd (nth j cells ([], 0))).
Proof. exact row_offsets. Qed.
Print Assumptions C19_offsets.

(** no line is longer than the widths add up to, hence (with C19_resize_fits) than the terminal *)
Theorem C19_row_width : forall (cells : list (str * nat)),
  length (trim_end (concat (map (fun cw => format_with_ellipsis (fst cw) (snd cw)) cells)))
  <= fold_right plus 0 (map snd cells).
Proof. exact row_length. Qed.
Print Assumptions C19_row_width.

(** an empty result prints No data; on a terminal at most height-1 lines are printed *)
Theorem C19_empty : forall st cols,
  format_aggregate st (mkT cols []) = Ok (st, firstn (max_width st) (lit "No data") ++ [10%N]).
Proof. exact empty_table. Qed.
Print Assumptions C19_empty.

(** that is `No data` in full on every terminal of at least 7 columns and without a terminal, and it
    never exceeds the terminal width (it wrapped on narrower ones before fix 7856f06) *)
Theorem C19_empty_full : forall st cols, 7 <= max_width st ->
  format_aggregate st (mkT cols []) = Ok (st, lit "No data" ++ [10%N]).
Proof. exact empty_table_wide. Qed.
Print Assumptions C19_empty_full.

Theorem C19_empty_fits : forall st, length (firstn (max_width st) (lit "No data")) <= max_width st.
Proof. exact empty_table_fits. Qed.
Print Assumptions C19_empty_fits.

Theorem C19_height_clip : forall ws w h t st' txt,
  format_aggregate (mkPP ws (Some (w, h))) t = Ok (st', txt) -> t_rows t <> [] ->
  exists lines, txt = flat_map (fun l => l ++ [10%N]) lines /\ length lines <= h - 1.
Proof. exact height_clip_lines_weak. Qed.
Print Assumptions C19_height_clip.


(** *** record output ([name=value] columns) *)

(** every field of the row appears in the printed line as [name=value] *)
Theorem C19_record_shows_every_field : forall (st st' : rp_state) (r : record) (line k : str) (v : value) (s : str),
  format_record st r = Ok (st', line) ->
  get k (rdata r) = Some v -> In k (map fst (rdata r)) -> render v = Ok s ->
  exists pre post, line = pre ++ field_token k s ++ post.
Proof. exact record_shows_every_field. Qed.
Print Assumptions C19_record_shows_every_field.

(** the column order is only ever appended to (new names, sorted), never permuted; it restarts
    only when a terminal would overflow *)
Theorem C19_record_order_step : forall (st st' : rp_state) (r : record) (line : str),
  format_record st r = Ok (st', line) ->
  rp_order st' = rp_order st ++ new_columns (rp_order st) (rdata r)
  \/ (rp_term st <> None /\ rp_order st' = new_columns [] (rdata r)).
Proof. exact record_order_step. Qed.
Print Assumptions C19_record_order_step.

(** without a terminal the order is stable across the whole stream *)
Theorem C19_record_order_stable : forall (st : rp_state) (rs : list record) (sts : list rp_state),
  rp_term st = None -> run_states st rs = Ok sts ->
  forall i j si sj, i <= j -> nth_error sts i = Some si -> nth_error sts j = Some sj ->
  exists more, rp_order sj = rp_order si ++ more.
Proof. exact record_order_stable_no_terminal. Qed.
Print Assumptions C19_record_order_stable.

Theorem C19_record_order_nodup : forall (st st' : rp_state) (r : record) (line : str),
  NoDup (rp_order st) -> NoDup (map fst (rdata r)) ->
  format_record st r = Ok (st', line) -> NoDup (rp_order st').
Proof. exact record_order_nodup. Qed.
Print Assumptions C19_record_order_nodup.

(** `self.column_widths[column_name]` cannot fail: every ordered column has a width *)
Theorem C19_record_no_panic : forall (st : rp_state) (r : record),
  rp_inv st -> format_record st r <> Panic /\
  (forall st' line, format_record st r = Ok (st', line) -> rp_inv st').
Proof. exact record_no_panic. Qed.
Print Assumptions C19_record_no_panic.

Example C19_record_example :
  let d := [(lit "a", VInt 1); (lit "b", VStr (lit "x y"))] in
  format_record (mkRP [] [] None) (mkRec d (lit "raw")) =
  Ok (mkRP [(lit "a", 9); (lit "b", 11)] [lit "a"; lit "b"] None, lit "[a=1]        [b=x y]").
Proof. exact record_example. Qed.

(** KF-53 - "cells that fit are shown in full" against the allocation: a column asking for 69 (a 61-character url) next to one
    asking for 14, on 80 columns, is capped at 80 / 2 = 40 although 66 are free once the narrow one is served; what a narrow later column
    does not need is never given back (the allocation that would, narrowest first, fails the pinned test longlines.toml) *)
Theorem C19_width_allocation_refuted :
  let w' := resize_widths [(lit "url", 69); (lit "_count", 14)] [lit "url"; lit "_count"] 80 in
  get (lit "url") w' = Some 40 /\ get (lit "_count") w' = Some 14 /\ 69 + 14 > 80 /\ 61 <= 80 - 14.   (* the cell's text is 61 characters; 69 is the width it asks for, padding included *)
Proof. cbv zeta. split; [vm_compute; reflexivity|split; [vm_compute; reflexivity|split; lia]]. Qed.
Print Assumptions C19_width_allocation_refuted.
