(** C01 — grouped aggregation reports the true per-group statistics. *)
From Coq Require Import List ZArith Lia Bool Permutation.
From AG Require Import Str F64 Value Json Expr Ops Pipeline Value_proofs Agg_proofs Sort_proofs Extremum_proofs.
From Coq Require Import Floats.SpecFloat.
From Flocq Require Import IEEE754.BinarySingleNaN.
Import ListNotations.
Open Scope Z_scope.

(** exactly one group per distinct combination of key values among the rows
    that reach the stage (a key that cannot be evaluated is None: [eval_key]),
    in first-seen order *)
Theorem C01_one_row_per_key : forall keys fns rows,
  map fst (g_state (grouper_after keys fns rows)) = dedup_keys (map (row_key keys) rows).
Proof. intros. apply grouper_keys. exact veqb_trans. Qed.
Print Assumptions C01_one_row_per_key.

(** every aggregate column of a group holds its own function folded over
    exactly the rows of that group, in arrival order *)
Theorem C01_columns_exact : forall keys fns rows k accs,
  In (k, accs) (g_state (grouper_after keys fns rows)) ->
  accs = map (fun na => (fst na, fold_left acc_step (group_rows keys k rows) (snd na))) (fresh_accs fns).
Proof. intros. eapply grouper_accs; eauto using veqb_refl, veqb_sym, veqb_trans. Qed.
Print Assumptions C01_columns_exact.

(** the groups partition the input: the group sizes add up to the number of rows *)
Theorem C01_counts_add_up : forall keys fns rows,
  fold_right (fun k n => (length (group_rows keys k rows) + n)%nat) 0%nat
             (map fst (g_state (grouper_after keys fns rows))) = length rows.
Proof. intros. apply groups_partition; eauto using veqb_refl, veqb_sym, veqb_trans. Qed.
Print Assumptions C01_counts_add_up.

(** count / conditional count *)
Theorem C01_count : forall rows,
  acc_emit (fold_left acc_step rows (acc_empty (FCount None))) = Ok (VInt (Z.of_nat (length rows))).
Proof. intros. cbn [acc_empty]. rewrite count_fold. reflexivity. Qed.
Print Assumptions C01_count.

Theorem C01_count_condition : forall c rows,
  acc_emit (fold_left acc_step rows (acc_empty (FCount (Some c)))) =
  Ok (VInt (Z.of_nat (length (filter (fun d => match eval_bool c d with Ok true => true | _ => false end) rows)))).
Proof. intros. cbn [acc_empty]. rewrite count_cond_fold. reflexivity. Qed.
Print Assumptions C01_count_condition.

(** sum / average / min / max only see the rows whose argument is numeric;
    rows whose argument is missing or non-numeric are ignored (but counted, above) *)
Theorem C01_sum : forall e rows,
  acc_emit (fold_left acc_step rows (acc_empty (FSum e))) =
  Ok (from_float (fold_left fadd (numeric_args e rows) f_zero)).
Proof. intros. cbn [acc_empty]. rewrite sum_fold. reflexivity. Qed.
Print Assumptions C01_sum.

Theorem C01_average : forall e rows,
  acc_emit (fold_left acc_step rows (acc_empty (FAvg e))) =
  Ok (match numeric_args e rows with
      | [] => VNone          (* no numeric value: None, not 0/0 *)
      | _ :: _ => from_float (fdiv (fold_left fadd (numeric_args e rows) f_zero)
                                   (f_of_Z (Z.of_nat (length (numeric_args e rows)))))
      end).
Proof.
  intros. cbn [acc_empty]. rewrite avg_fold. cbn [acc_emit]. rewrite Z.add_0_l.
  destruct (numeric_args e rows) as [|x l]; [reflexivity|].
  replace (Z.of_nat (length (x :: l)) =? 0) with false; [reflexivity|].
  symmetry. apply Z.eqb_neq. cbn [length]. lia.
Qed.
Print Assumptions C01_average.

(** min / max (fix b2f85e2): the integer arguments (an integer, or text holding one: [int_args]) are
    compared exactly, the other numeric arguments ([float_args]) as doubles; the cell is the smaller /
    larger of the two extrema ([minmax_emit]), so an integer beyond 2^53 is reported digit for digit.
    [minF] / [maxF]: the double extremum (by the IEEE [<]) of the non-NaN elements, None when there
    is none - an infinite extremum is reported like any other.
    [numeric_args_split]: the two lists together are the numeric arguments. *)
Theorem C01_min : forall e rows,
  acc_emit (fold_left acc_step rows (acc_empty (FMin e))) =
  let m := minF (float_args e rows) in
  Ok (minmax_emit true m (minZ (int_args e rows))).
Proof. intros. apply min_emit. Qed.
Print Assumptions C01_min.

(** the same without the fold: the cell is ONE OF the numeric arguments ([candidates]: the integers as
    they are, the other numbers as doubles) and no argument is below it.  The hypothesis names what the
    accumulator skips: NaN. *)
Theorem C01_min_is_least : forall e rows v,
  Forall (fun f => valid_binary prec emax f = true /\ f_is_nan f = false)
         (float_args e rows) ->
  acc_emit (fold_left acc_step rows (acc_empty (FMin e))) = Ok v ->
  candidates e rows <> [] ->
  In v (candidates e rows) /\ (forall x, In x (candidates e rows) -> vcmp v x <> Gt).
Proof. exact min_is_least. Qed.
Print Assumptions C01_min_is_least.
Theorem C01_max_is_greatest : forall e rows v,
  Forall (fun f => valid_binary prec emax f = true /\ f_is_nan f = false)
         (float_args e rows) ->
  acc_emit (fold_left acc_step rows (acc_empty (FMax e))) = Ok v ->
  candidates e rows <> [] ->
  In v (candidates e rows) /\ (forall x, In x (candidates e rows) -> vcmp v x <> Lt).
Proof. exact max_is_greatest. Qed.
Print Assumptions C01_max_is_greatest.
Example C01_min_max_beyond_2p53 :
  acc_emit (fold_left acc_step [ex_row (VInt 9007199254740995); ex_row (VInt 9007199254740993)] (acc_empty (FMin ex_e))) = Ok (VInt 9007199254740993) /\
  acc_emit (fold_left acc_step [ex_row (VInt 9007199254740995); ex_row (VInt 9007199254740993)] (acc_empty (FMax ex_e))) = Ok (VInt 9007199254740995).
Proof. split; vm_compute; reflexivity. Qed.

(** fix 04d0ab4: an extremum that is infinite is reported even when every argument is (the accumulator used to
    start from +inf / -inf and could not tell that from "nothing seen"); NaN alone is nothing *)
Example C01_all_infinite_extremum :
  acc_emit (fold_left acc_step [ex_row (VFloat f_inf); ex_row (VFloat f_inf)] (acc_empty (FMin ex_e))) = Ok (VFloat f_inf) /\
  acc_emit (fold_left acc_step [ex_row (VFloat f_neg_inf)] (acc_empty (FMax ex_e))) = Ok (VFloat f_neg_inf) /\
  acc_emit (fold_left acc_step [ex_row (VFloat S754_nan)] (acc_empty (FMin ex_e))) = Ok VNone /\
  acc_emit (fold_left acc_step [ex_row (VFloat S754_nan); ex_row (VInt 3)] (acc_empty (FMax ex_e))) = Ok (VInt 3).
Proof. vm_compute. repeat split. Qed.

Theorem C01_max : forall e rows,
  acc_emit (fold_left acc_step rows (acc_empty (FMax e))) =
  let m := maxF (float_args e rows) in
  Ok (minmax_emit false m (maxZ (int_args e rows))).
Proof. intros. apply max_emit. Qed.
Print Assumptions C01_max.

Theorem C01_min_max_arguments : forall e rows,
  Permutation (numeric_args e rows) (map f_of_Z (int_args e rows) ++ float_args e rows).
Proof. exact numeric_args_split. Qed.
Print Assumptions C01_min_max_arguments.

(** a group with no numeric value reports None for min / max *)
Theorem C01_min_max_none : forall e rows, numeric_args e rows = [] ->
  acc_emit (fold_left acc_step rows (acc_empty (FMin e))) = Ok VNone /\
  acc_emit (fold_left acc_step rows (acc_empty (FMax e))) = Ok VNone.
Proof. intros; split; [now apply min_none | now apply max_none]. Qed.
Print Assumptions C01_min_max_none.

(** count_distinct: the number of distinct (==) values of the argument *)
Theorem C01_count_distinct : forall e rows,
  acc_emit (fold_left acc_step rows (acc_empty (FDistinct e))) =
  Ok (VInt (Z.of_nat (length (dedup_values (flat_map (fun d => match eval e d with Ok v => [v] | _ => [] end) rows))))).
Proof. intros. apply distinct_fold. exact veqb_trans. Qed.
Print Assumptions C01_count_distinct.

(** the emitted table: the key headers then the aggregate names as columns,
    and exactly one row per group (the groups in key order) *)
Theorem C01_emit_shape : forall g t,
  g_emit g = Ok t ->
  t_cols t = map fst (g_keys g) ++ map fst (g_fns g) /\
  length (t_rows t) = length (g_state g).
Proof.
  intros g t. unfold g_emit.
  set (groups := isort _ (g_state g)).
  destruct (sequence_res _) as [rows| | |] eqn:E; cbn [bind]; try discriminate.
  intros H. injection H as <-. cbn [t_cols t_rows]. split; [reflexivity|].
  assert (Hlen : forall (l : list (res data)) rs, sequence_res l = Ok rs -> length rs = length l).
  { clear. induction l as [|x l IH]; intros rs; cbn.
    - intros H; inversion H; reflexivity.
    - unfold sequence_res in *. cbn [fold_right].
      destruct x as [a| | |]; cbn [bind]; try discriminate.
      destruct (fold_right _ _ l) as [xs| | |]; cbn [bind]; try discriminate.
      intros H; inversion H; subst. cbn. f_equal. now apply IH. }
  apply Hlen in E. rewrite E, map_length. subst groups. apply isort_length.
Qed.
Print Assumptions C01_emit_shape.

(** a percentile is the answer of the CKMS sketch (Ckms.v) over the group's non-NaN numeric argument values: an empty
    group reports None (Ckms_proofs.v: [pct_cell_none_iff], [pct_cell_observed]) *)
Theorem C01_percentile_empty : forall p e rows, numeric_args e rows = [] ->
  acc_emit (fold_left acc_step rows (acc_empty (FPct p e))) = Ok VNone.
Proof.
  intros p e rows. cbn [acc_empty].
  assert (H : forall vals, numeric_args e rows = [] ->
            fold_left acc_step rows (APct vals p e) = APct vals p e).
  { induction rows as [|d rows IH]; intros vals Hn; [reflexivity|].
    cbn [fold_left acc_step]. unfold numeric_args in Hn. cbn [flat_map] in Hn.
    destruct (eval_f64 e d); cbn in Hn; try discriminate; now apply IH. }
  intros Hn. rewrite H by exact Hn. reflexivity.
Qed.
Print Assumptions C01_percentile_empty.

Example C01_example :
  let rows := [[(lit "k", VStr (lit "a")); (lit "v", VInt 1)];
               [(lit "k", VStr (lit "b")); (lit "v", VStr (lit "junk"))];
               [(lit "k", VStr (lit "a")); (lit "v", VInt 2)]] in
  let g := grouper_after [(lit "k", ECol (lit "k") [])] [(lit "_sum", FSum (ECol (lit "v") []))] rows in
  option_map t_rows (match g_emit g with Ok t => Some t | _ => None end) =
  Some [[(lit "_sum", VInt 3); (lit "k", VStr (lit "a"))]; [(lit "_sum", VInt 0); (lit "k", VStr (lit "b"))]].
Proof. vm_compute. reflexivity. Qed.

(** KF-06 - "every aggregate column holds its own function" is FALSE when two functions of one stage have the same
    output name (here the default name of two sums): they share one slot, the first is lost, and the column is
    listed twice.  The witness replayed on the binary is the known finding. *)
Theorem C01_same_name_aggregates_refuted :
  exists lines q t,
    out (run_pipeline (fun _ => true) q lines) = Ok (OTable t) /\
    t_cols t = [lit "_sum"; lit "_sum"] /\ t_rows t = [[(lit "_sum", VInt 10)]].
Proof.
  exists [lit "{""a"": 1, ""b"": 10}"],
         [SJson None; SAgg [(lit "_sum", FSum (ECol (lit "a") [])); (lit "_sum", FSum (ECol (lit "b") []))] []].
  eexists. split; [vm_compute; reflexivity|split; reflexivity].
Qed.
Print Assumptions C01_same_name_aggregates_refuted.

(** *** the percentile sketch (Ckms.v: a transcription of the CKMS sketch of the `quantiles` crate as agrind feeds and
    queries it; every percentile cell of every run is compared with it exactly) *)
From AG Require Import Ckms Ckms_proofs.

(** "a percentile that is one of the observed values": for every error bound, every arrival order and every quantile *)
Theorem C01_percentile_is_an_observed_value : forall err vals q r v,
  ckms_run err vals q = Some (r, v) -> In v vals.
Proof. exact ckms_query_observed. Qed.
Print Assumptions C01_percentile_is_an_observed_value.

(** a group with a numeric value has a percentile, one without has none *)
Theorem C01_percentile_defined : forall err vals q,
  vals <> [] -> exists r v, ckms_run err vals q = Some (r, v).
Proof. exact ckms_nonempty_answers. Qed.
Print Assumptions C01_percentile_defined.

Theorem C01_percentile_of_nothing : forall err q, ckms_run err [] q = None.
Proof. exact ckms_empty_none. Qed.
Print Assumptions C01_percentile_of_nothing.

(** the bookkeeping the rank estimate rests on: the weights of the samples add up to the number of values seen, and the
    samples stay in order *)
Theorem C01_sketch_weights_add_up : forall err vals,
  let st := fold_left ckms_insert vals (ckms_new err) in
  samples_g_sum (ckms_samples st) = Z.of_nat (length vals) /\
  st_n st = Z.of_nat (length vals).
Proof. exact ckms_g_sum. Qed.
Print Assumptions C01_sketch_weights_add_up.

Theorem C01_sketch_sorted : forall err vals,
  Forall (fun v => f_is_nan v = false) vals ->
  sorted_v (map (fun s => fst (fst s)) (ckms_samples (fold_left ckms_insert vals (ckms_new err)))).
Proof. exact ckms_sorted. Qed.
Print Assumptions C01_sketch_sorted.

(** below the first compression (fewer than 500 values with agrind's error bound) the sketch holds every value once:
    the percentile is then exact, not merely within the tolerance *)
Theorem C01_sketch_exact_below_threshold : forall vals,
  (length vals < 500)%nat ->
  let samples := ckms_samples (fold_left ckms_insert vals (ckms_new err001)) in
  Permutation (map (fun s => fst (fst s)) samples) vals /\
  Forall (fun s => snd (fst s) = 1 /\ snd s = 0) samples.
Proof. exact ckms_exact_below_threshold. Qed.
Print Assumptions C01_sketch_exact_below_threshold.

(** the extremes are never compressed away: the last sample is the maximum, the first the minimum of what was seen *)
Theorem C01_sketch_keeps_the_maximum : forall err vals,
  Forall (fun v => f_is_nan v = false) vals ->
  let vmax := last (map (fun s => fst (fst s))
                        (ckms_samples (fold_left ckms_insert vals (ckms_new err)))) f_zero in
  forall v, In v vals -> In vmax vals /\ fleb v vmax = true.
Proof. exact ckms_max_kept. Qed.
Print Assumptions C01_sketch_keeps_the_maximum.

Theorem C01_sketch_keeps_the_minimum : forall vals,
  Forall (fun v => f_is_nan v = false) vals ->
  forall vmin g dl rest,
  ckms_samples (fold_left ckms_insert vals (ckms_new err001)) = (vmin, g, dl) :: rest ->
  In vmin vals /\ forall v, In v vals -> fleb vmin v = true.
Proof. exact ckms_min_kept. Qed.
Print Assumptions C01_sketch_keeps_the_minimum.

(** *** the percentile CELL of the aggregation model is the sketch's answer ([acc_emit] of [APct] runs [ckms_run] with the
    error bound read from the source, [Generated.ckms_error]) *)
Theorem C01_percentile_cell_none_iff : forall p e rows,
  acc_emit (fold_left acc_step rows (acc_empty (FPct p e))) = Ok VNone <-> pct_args e rows = [].
Proof. exact pct_cell_none_iff. Qed.
Print Assumptions C01_percentile_cell_none_iff.

Theorem C01_percentile_cell_is_an_argument_of_the_group : forall p e rows, pct_args e rows <> [] ->
  exists v, In v (pct_args e rows) /\
            acc_emit (fold_left acc_step rows (acc_empty (FPct p e))) = Ok (from_float v).
Proof. exact pct_cell_observed. Qed.
Print Assumptions C01_percentile_cell_is_an_argument_of_the_group.

Theorem C01_percentile_emit_total : forall vals p e, exists v, acc_emit (APct vals p e) = Ok v.
Proof. exact pct_emit_ok. Qed.
Print Assumptions C01_percentile_emit_total.

(** KF-60: "within the sketch's documented rank tolerance" is FALSE of the crate's sketch once it has compressed - of the
    faithful model, and of the binary on the same input (the witness the check replays) *)
From AG Require Import Ckms_refuted.
Theorem C01_percentile_rank_tolerance_refuted :
  exists vals q r v,
    length vals = 5000%nat /\ q = kf60_q /\
    ckms_run ckms_error_f vals q = Some (r, v) /\
    v = f_of_Z 4951 /\ rank_lo v vals = 4958%Z /\ (rank_lo v vals - 4950 > 5)%Z.
Proof. exact ckms_rank_tolerance_refuted. Qed.
Print Assumptions C01_percentile_rank_tolerance_refuted.
