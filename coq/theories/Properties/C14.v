(** C14 — aggregates do not depend on arrival order or on how input is batched. *)
From Coq Require Import List ZArith Lia Bool Permutation.
From AG Require Import Str F64 Value Json Expr Ops Pipeline F64_exact_proofs Value_proofs Agg_proofs Perm_proofs.
Import ListNotations.
From Coq Require Import Reals.
From AG Require Import Sum_error_proofs.
Open Scope Z_scope.

(** permuting the input permutes the rows of every group and keeps the set of groups *)
Theorem C14_same_groups : forall keys fns rows rows',
  Permutation rows rows' ->
  forall k, existsb (keys_eqb k) (map fst (g_state (grouper_after keys fns rows))) =
            existsb (keys_eqb k) (map fst (g_state (grouper_after keys fns rows'))).
Proof. exact group_keys_perm. Qed.
Print Assumptions C14_same_groups.

Theorem C14_group_rows_permuted : forall keys k rows rows',
  Permutation rows rows' -> Permutation (group_rows keys k rows) (group_rows keys k rows').
Proof. exact group_rows_perm. Qed.
Print Assumptions C14_group_rows_permuted.

(** exactly equal cells under permutation: count (with or without condition) *)
Theorem C14_count_perm : forall c rows rows', Permutation rows rows' ->
  acc_emit (fold_left acc_step rows (acc_empty (FCount c))) =
  acc_emit (fold_left acc_step rows' (acc_empty (FCount c))).
Proof. exact count_perm. Qed.
Print Assumptions C14_count_perm.

(** count_distinct *)
Theorem C14_distinct_perm : forall e rows rows', Permutation rows rows' ->
  acc_emit (fold_left acc_step rows (acc_empty (FDistinct e))) =
  acc_emit (fold_left acc_step rows' (acc_empty (FDistinct e))).
Proof. exact distinct_perm. Qed.
Print Assumptions C14_distinct_perm.

(** integer sums, as long as the magnitudes add up to at most 2^53 (beyond
    that the f64 accumulator rounds: known finding KF-14) *)
Theorem C14_sum_perm_exact : forall e rows rows' zs,
  Permutation rows rows' ->
  numeric_args e rows = map f_of_Z zs -> sum_abs zs <= 2 ^ 53 ->
  acc_emit (fold_left acc_step rows (acc_empty (FSum e))) = Ok (VInt (sumZ zs)) /\
  acc_emit (fold_left acc_step rows' (acc_empty (FSum e))) = Ok (VInt (sumZ zs)).
Proof. intros. split; [now apply sum_exact | now apply (sum_perm_exact e rows rows')]. Qed.
Print Assumptions C14_sum_perm_exact.

(** ... and beyond it the full statement is FALSE (KF-14): the same three lines in two orders give two different
    sums, neither of them the true total 9007199254740995.  The witness replayed on the binary is the known finding. *)
Theorem C14_sum_order_refuted :
  exists lines lines' (q : list stage) t t',
    Permutation lines lines' /\
    out (run_pipeline (fun _ => true) q lines) = Ok (OTable t) /\
    out (run_pipeline (fun _ => true) q lines') = Ok (OTable t') /\
    t_rows t <> t_rows t'.
Proof.
  exists [lit "{""x"": 9007199254740993}"; lit "{""x"": 1}"; lit "{""x"": 1}"],
         [lit "{""x"": 1}"; lit "{""x"": 1}"; lit "{""x"": 9007199254740993}"],
         [SJson None; SAgg [(lit "_sum", FSum (ECol (lit "x") []))] []].
  do 2 eexists. split; [|split; [vm_compute; reflexivity|split; [vm_compute; reflexivity|cbn; discriminate]]].
  apply Permutation_sym. change (Permutation ([lit "{""x"": 1}"; lit "{""x"": 1}"] ++ [lit "{""x"": 9007199254740993}"])
                                           ([lit "{""x"": 9007199254740993}"] ++ [lit "{""x"": 1}"; lit "{""x"": 1}"])).
  apply Permutation_app_comm.
Qed.
Print Assumptions C14_sum_order_refuted.


(** min / max over integers: exact for the integer arguments ([int_args]: an integer, or text
    holding one) of ANY size (fix b2f85e2: they no longer pass through a double), together with the
    other numeric arguments ([float_args]) when those are integral doubles of magnitude <= 2^53 *)
Theorem C14_min_max_exact : forall e rows zs fz,
  int_args e rows = zs -> float_args e rows = map f_of_Z fz -> Forall small fz ->
  acc_emit (fold_left acc_step rows (acc_empty (FMin e))) =
    Ok (match minZ (zs ++ fz) with Some m => VInt m | None => VNone end) /\
  acc_emit (fold_left acc_step rows (acc_empty (FMax e))) =
    Ok (match maxZ (zs ++ fz) with Some m => VInt m | None => VNone end).
Proof. intros; subst zs. split; [now apply min_exact | now apply max_exact]. Qed.
Print Assumptions C14_min_max_exact.

(** all arguments integers: no bound at all *)
Theorem C14_min_max_exact_all_integers : forall e rows zs,
  int_args e rows = zs -> float_args e rows = [] ->
  acc_emit (fold_left acc_step rows (acc_empty (FMin e))) =
    Ok (match minZ zs with Some m => VInt m | None => VNone end) /\
  acc_emit (fold_left acc_step rows (acc_empty (FMax e))) =
    Ok (match maxZ zs with Some m => VInt m | None => VNone end).
Proof.
  intros; subst zs. split; [now apply min_exact_all_integers | now apply max_exact_all_integers].
Qed.
Print Assumptions C14_min_max_exact_all_integers.

(** ... and the same cells for every arrival order of the rows *)
Theorem C14_min_max_perm_exact : forall e rows rows' zs fz,
  Permutation rows rows' ->
  int_args e rows = zs -> float_args e rows = map f_of_Z fz -> Forall small fz ->
  acc_emit (fold_left acc_step rows' (acc_empty (FMin e))) =
    Ok (match minZ (zs ++ fz) with Some m => VInt m | None => VNone end) /\
  acc_emit (fold_left acc_step rows' (acc_empty (FMax e))) =
    Ok (match maxZ (zs ++ fz) with Some m => VInt m | None => VNone end).
Proof. intros; subst zs. now apply min_max_perm_exact. Qed.
Print Assumptions C14_min_max_perm_exact.

Theorem C14_min_max_order_free : forall a b, Permutation a b -> minZ a = minZ b /\ maxZ a = maxZ b.
Proof. intros. split; [now apply minZ_perm | now apply maxZ_perm]. Qed.
Print Assumptions C14_min_max_order_free.

(** A ++ B: groups split, counts and sums add, minima and maxima combine,
    a group present in only one part is carried over unchanged *)
Theorem C14_merge_groups : forall keys k a b,
  group_rows keys k (a ++ b) = group_rows keys k a ++ group_rows keys k b.
Proof. exact group_rows_app. Qed.
Print Assumptions C14_merge_groups.

Theorem C14_merge_count : forall rows_a rows_b na nb,
  acc_emit (fold_left acc_step rows_a (acc_empty (FCount None))) = Ok (VInt na) ->
  acc_emit (fold_left acc_step rows_b (acc_empty (FCount None))) = Ok (VInt nb) ->
  acc_emit (fold_left acc_step (rows_a ++ rows_b) (acc_empty (FCount None))) = Ok (VInt (na + nb)).
Proof. exact count_app. Qed.
Print Assumptions C14_merge_count.

Theorem C14_merge_sum : forall e a b za zb,
  numeric_args e a = map f_of_Z za -> numeric_args e b = map f_of_Z zb ->
  sum_abs za + sum_abs zb <= 2 ^ 53 ->
  acc_emit (fold_left acc_step (a ++ b) (acc_empty (FSum e))) = Ok (VInt (sumZ za + sumZ zb)).
Proof. exact sum_app_exact. Qed.
Print Assumptions C14_merge_sum.

Theorem C14_merge_min_max : forall a b,
  minZ (a ++ b) = match minZ a, minZ b with
                  | Some x, Some y => Some (Z.min x y) | Some x, None => Some x | None, y => y end /\
  maxZ (a ++ b) = match maxZ a, maxZ b with
                  | Some x, Some y => Some (Z.max x y) | Some x, None => Some x | None, y => y end.
Proof. intros. split; [apply minZ_app | apply maxZ_app]. Qed.
Print Assumptions C14_merge_min_max.

Theorem C14_group_in_one_part : forall keys k a b,
  (group_rows keys k b = [] -> group_rows keys k (a ++ b) = group_rows keys k a) /\
  (group_rows keys k a = [] -> group_rows keys k (a ++ b) = group_rows keys k b).
Proof. intros. split; [apply group_only_left | apply group_only_right]. Qed.
Print Assumptions C14_group_in_one_part.

(** float sums / averages and percentiles are NOT exactly order independent:
    the property only asks for floating-point / sketch tolerance there.  That part
    is validated by the harness (recursive-summation bound), not proved. *)
Definition C14_float_part_is_validated_only : Prop := True.

Example C14_example :
  let e := ECol (lit "v") [] in
  let r z := [(lit "v", VInt z)] in
  acc_emit (fold_left acc_step [r 3; r (-5); r 9] (acc_empty (FSum e))) = Ok (VInt 7) /\
  acc_emit (fold_left acc_step [r 9; r 3; r (-5)] (acc_empty (FSum e))) = Ok (VInt 7) /\
  acc_emit (fold_left acc_step [r 9; r 3; r (-5)] (acc_empty (FMin e))) = Ok (VInt (-5)) /\
  acc_emit (fold_left acc_step [r 9007199254740993; r 9007199254740992] (acc_empty (FMax e))) =
    Ok (VInt 9007199254740993).
Proof. vm_compute. repeat split. Qed.

(** float sums: the cell is the left-to-right floating-point sum of the numeric arguments ... *)
Theorem C14_sum_cell_is_fsum : forall e rows,
  acc_emit (fold_left acc_step rows (acc_empty (FSum e))) = Ok (from_float (fsum (numeric_args e rows))).
Proof. exact sum_cell_is_fsum. Qed.
Print Assumptions C14_sum_cell_is_fsum.

(** ... which differs from the exact real sum by at most the recursive-summation bound ... *)
Theorem C14_float_sum_error : forall l,
  Forall wf l -> no_overflow f_zero l ->
  (Rabs (fR (fsum l) - sumR l) <= ((1 + u64) ^ length l - 1) * sum_absR l)%R.
Proof. exact fsum_error. Qed.
Print Assumptions C14_float_sum_error.

(** ... so two arrival orders of the same values differ by at most twice that bound: this is the
    "floating-point tolerance" of the property, for every list length, with no bound on the values
    other than that no partial sum overflows *)
Theorem C14_float_sum_order_tolerance : forall l l',
  Permutation l l' -> Forall wf l -> no_overflow f_zero l -> no_overflow f_zero l' ->
  (Rabs (fR (fsum l) - fR (fsum l')) <= 2 * ((1 + u64) ^ length l - 1) * sum_absR l)%R.
Proof. exact fsum_perm_error. Qed.
Print Assumptions C14_float_sum_order_tolerance.

(** the closed form the check uses, 2(n+1) 2^-52 sum|x|, dominates the bound whenever n 2^-53 <= 1/2 *)
Theorem C14_tolerance_closed_form : forall n : nat,
  (INR n * u64 <= / 2 -> (1 + u64) ^ n - 1 <= 2 * INR n * u64)%R.
Proof. exact bound_simple. Qed.
Print Assumptions C14_tolerance_closed_form.
