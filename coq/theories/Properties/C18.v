(** C18 — machine-readable output modes are well-formed and faithful. *)
From Coq Require Import List ZArith NArith Bool Lia.
From AG Require Import Str F64 Value Json Expr Ops Pipeline Output Display Json_proofs Ops_proofs Cli Cli_proofs Extremum_proofs.
Import ListNotations.

(** -o json: the text the serialiser writes for a tree parses back to exactly that tree,
    so every line is valid JSON and carries what the tree carries *)
Theorem C18_json_wellformed : forall fmt t,
  wf_tree t = true -> (depth t < 127)%nat -> json_parse (json_print fmt t) = Some t.
Proof. exact json_roundtrip. Qed.
Print Assumptions C18_json_wellformed.

Theorem C18_strings_escaped : forall s rest fuel,
  (length (print_str s) <= fuel)%nat -> parse_str_body fuel (tl (print_str s ++ rest)) [] = Some (s, rest).
Proof. exact print_str_parses. Qed.
Print Assumptions C18_strings_escaped.

(** a record: one object with exactly the row's fields *)
Theorem C18_record_fields : forall fd fu d,
  match record_to_json fd fu d with JObj kvs => map fst kvs = map fst d | _ => False end.
Proof. exact record_json_fields. Qed.
Print Assumptions C18_record_fields.

(** an aggregate: one array with one object per row, each carrying every column in column order *)
Theorem C18_table_columns : forall fd fu t,
  match table_to_json fd fu t with
  | JArr rows => length rows = length (t_rows t) /\
                 Forall (fun r => match r with JObj kvs => map fst kvs = t_cols t | _ => False end) rows
  | _ => False
  end.
Proof. exact table_json_columns. Qed.
Print Assumptions C18_table_columns.

(** values are encoded without loss *)
Theorem C18_values_lossless : forall fd fu v,
  plain_value v = true -> canonical v = true -> json_to_value (value_to_json fd fu v) = v.
Proof. exact value_json_lossless. Qed.
Print Assumptions C18_values_lossless.

(** non-finite numbers are written as null *)
Theorem C18_non_finite_null : forall fd fu,
  value_to_json fd fu (VFloat f_nan) = JNull /\ value_to_json fd fu (VFloat f_inf) = JNull /\
  value_to_json fd fu (VFloat f_neg_inf) = JNull.
Proof. intros; repeat split. Qed.
Print Assumptions C18_non_finite_null.

(** -o logfmt: key=value pairs in key order, separated by single spaces *)
Theorem C18_logfmt_pairs : forall k v s d rest,
  (render v = Ok s -> logfmt_row [(k, v)] = Ok (k ++ 61%N :: s)) /\
  (d <> [] -> render v = Ok s -> logfmt_row d = Ok rest -> logfmt_row ((k, v) :: d) = Ok (k ++ 61%N :: s ++ 32%N :: rest)).
Proof. intros; split; [apply logfmt_row_single | apply logfmt_row_cons]. Qed.
Print Assumptions C18_logfmt_pairs.

(** -o format=: each {field} is replaced by the field's text (None when absent), every other character is copied *)
Theorem C18_format_subst : forall s n r d,
  fmt_subst (FLit s :: r) d = bind (fmt_subst r d) (fun rest => Ok (s ++ rest)) /\
  fmt_subst (FField n :: r) d =
    bind (render (match get n d with Some v => v | None => VNone end)) (fun x => bind (fmt_subst r d) (fun rest => Ok (x ++ rest))).
Proof. intros; split; [apply fmt_subst_lit | apply fmt_subst_field]. Qed.
Print Assumptions C18_format_subst.

Theorem C18_format_plain_text_intact : forall s, s <> [] ->
  forallb (fun c => negb ((c =? 123)%N || (c =? 125)%N)) s = true -> fmt_parse s = Some [FLit s].
Proof. exact fmt_parse_plain. Qed.
Print Assumptions C18_format_plain_text_intact.

(** malformed format strings are rejected when the printer is built, before any input is read *)
Theorem C18_format_validation : forall s ps,
  (fmt_parse s = Some ps -> fmt_parse (s ++ [123%N]) = None) /\ fmt_parse [123%N; 125%N] = None.
Proof. intros; split; [apply fmt_parse_rejects_open_weak | apply fmt_parse_rejects_empty_field]. Qed.
Print Assumptions C18_format_validation.

(** the output-mode selection of main(): exactly the documented -o values are accepted ... *)
Theorem C18_cli_output_values : forall (p : str) (m : cli_mode),
  parse_output p = Some m <->
  (m = CLegacy /\ (p = lit "legacy" \/ p = lit "legacy=")) \/
  (m = CJson /\ (p = lit "json" \/ p = lit "json=")) \/
  (m = CLogfmt /\ (p = lit "logfmt" \/ p = lit "logfmt=")) \/
  (exists v, v <> [] /\ m = CFormat v /\ p = lit "format=" ++ v).
Proof. exact parse_output_exact. Qed.
Print Assumptions C18_cli_output_values.

(** ... -o together with --format is rejected, an empty format is rejected either way, no option is legacy *)
Theorem C18_cli_exclusive : forall o f : str, select_mode (Some o) (Some f) = None.
Proof. exact both_options_rejected. Qed.
Print Assumptions C18_cli_exclusive.

Theorem C18_cli_empty_format : select_mode None (Some []) = None /\ select_mode (Some (lit "format=")) None = None.
Proof. exact empty_format_rejected_both_ways. Qed.
Print Assumptions C18_cli_empty_format.

Theorem C18_cli_default : select_mode None None = Some CLegacy.
Proof. exact default_is_legacy. Qed.
Print Assumptions C18_cli_default.

(** every duration has a text in the text modes ([0s] for the empty one; fix 5af605b) *)
Theorem C18_duration_text_nonempty : forall ns, dur_display ns <> [].
Proof. exact dur_display_nonempty. Qed.
Print Assumptions C18_duration_text_nonempty.

(** *** dates as text (DateFmt.v: chrono's to_rfc3339 / Display / Debug on DateTime<Utc>, compared byte for byte with
    the binary on every run; which path uses which form is read from the source, [Generated.date_forms]) *)
From AG Require Import DateFmt DateFmt_proofs.

(** "values encoded without loss": the JSON text of a date determines the instant - for EVERY instant, signed years
    included - and, where the tool's own parseDate (as modelled) reads RFC 3339, reads back as the instant that went in *)
Theorem C18_date_json_text_injective : forall a b : Z, fmt_rfc3339 a = fmt_rfc3339 b -> a = b.
Proof. exact rfc3339_injective. Qed.
Print Assumptions C18_date_json_text_injective.

Theorem C18_date_json_text_reads_back : forall ns,
  date_ok ns = true -> year_parseable ns = true -> parse_rfc3339_utc (fmt_rfc3339 ns) = Some ns.
Proof. exact rfc3339_roundtrip. Qed.
Print Assumptions C18_date_json_text_reads_back.

(** the hypothesis is met (and is needed: the model of parseDate reads four-digit years 1678..2261 only) *)
Example C18_date_reads_back_example :
  date_ok 1628640000500000000 = true /\ year_parseable 1628640000500000000 = true /\
  fmt_rfc3339 1628640000500000000 = lit "2021-08-11T00:00:00.500+00:00" /\
  fmt_date_display (-1) = lit "1969-12-31 23:59:59.999999999 UTC".
Proof. vm_compute. repeat split; reflexivity. Qed.
Print Assumptions C18_date_reads_back_example.

(** -o logfmt / -o format= / text: "the field's text" of a date determines the instant as well *)
Theorem C18_date_text_injective : forall a b,
  date_ok a = true -> date_ok b = true -> fmt_date_display a = fmt_date_display b -> a = b.
Proof. exact display_injective. Qed.
Print Assumptions C18_date_text_injective.

(** the calendar arithmetic underneath, for every day number (proleptic Gregorian, either sign) *)
Theorem C18_calendar_roundtrip : forall d,
  let '(y, m, dd) := civil_from_days d in days_from_civil y m dd = d.
Proof. exact civil_roundtrip. Qed.
Print Assumptions C18_calendar_roundtrip.

Theorem C18_calendar_ranges : forall d,
  let '(y, m, dd) := civil_from_days d in 1 <= m <= 12 /\ 1 <= dd <= days_in_month y m.
Proof. exact civil_ranges. Qed.
Print Assumptions C18_calendar_ranges.

(** *** durations as text (DurFmt.v: chrono's Display of TimeDelta in the JSON serializer; compared byte for byte with the
    binary on every run): the JSON text determines the duration, for every duration *)
From AG Require Import DurFmt DurFmt_proofs.

Theorem C18_duration_json_text_injective : forall a b : Z, fmt_dur_iso a = fmt_dur_iso b -> a = b.
Proof. exact fmt_dur_iso_injective. Qed.
Print Assumptions C18_duration_json_text_injective.

Theorem C18_duration_json_text_shape : forall ns,
  (exists r, fmt_dur_iso ns = 80%N :: r /\ 0 <= ns) \/ (exists r, fmt_dur_iso ns = 45%N :: 80%N :: r /\ ns < 0).
Proof. exact fmt_dur_iso_starts. Qed.
Print Assumptions C18_duration_json_text_shape.

(** the serializer of the model with both chrono texts filled in writes exactly these *)
Theorem C18_serializer_texts : forall ns,
  value_json' (VDur ns) = JStr (fmt_dur_iso ns) /\ value_json' (VDate ns) = JStr (fmt_rfc3339 ns).
Proof. intros ns; split; [exact (value_json_dur ns) | reflexivity]. Qed.
Print Assumptions C18_serializer_texts.
