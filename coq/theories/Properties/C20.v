From AG Require Import Str.
Example placeholder : 1 = 1. Proof. reflexivity. Qed.
