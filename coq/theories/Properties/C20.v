(** C20 — equivalent spellings of a query mean the same thing. *)
From Coq Require Import List ZArith NArith Bool Lia.
From AG Require Import Str F64 Value Json Expr Ops Pipeline Filter Grammar Print
     Roundtrip_proofs FilterRoundtrip_proofs Spelling_proofs QueryRoundtrip PrintSyn SynRoundtrip Cli Cli_proofs.
From AG Require Generated.
Import ListNotations.
Open Scope string_scope.
Open Scope list_scope.

(** *** whole queries: any two spellings of the same query (search part and every stage: json, logfmt,
    parse, split, fields, where, field expressions, timeslice, limit, total, aggregations with `by`
    keys, sort) compile to the same program — and to the one they were printed from (C04_query_roundtrip) *)
Theorem C20_query_spellings_agree : forall (o1 o2 : popts) (fs : list filter) (stages : list stage) (t1 t2 : str),
  popts_ok o1 = true -> popts_ok o2 = true -> forallb wf_filter fs = true ->
  forallb (wf_stage o1) stages = true -> forallb (wf_stage o2) stages = true -> forallb stage_ok stages = true ->
  pp_query o1 fs stages = Some t1 -> pp_query o2 fs stages = Some t2 ->
  accepts t1 = accepts t2.
Proof. exact query_spellings_agree. Qed.
Print Assumptions C20_query_spellings_agree.

(** ... including the documented keyword synonyms, defaults and clause orders as spelling choices
    ([sopts]): fields +/only/include/(nothing) and -/except/drop, (nothing)/asc/ascending,
    desc/dsc/descending, avg/average, pNN/pctNN/percentileNN, bare `limit` for `limit 10`, an omitted
    `as` where the name is the default one, `from` before or after `as` in parse: whatever is chosen,
    the query compiles to exactly the filter and stages it was printed from ... *)
Theorem C20_query_roundtrip_with_synonyms : forall (o : popts) (so : sopts) (fs : list filter) (stages : list stage) (t : str),
  popts_ok o = true -> forallb wf_filter fs = true ->
  forallb (wf_stage_syn o so) stages = true -> forallb stage_ok stages = true ->
  pp_query_syn o so fs stages = Some t ->
  accepts t = Some (FAnd fs, stages).
Proof. exact query_roundtrip_syn. Qed.
Print Assumptions C20_query_roundtrip_with_synonyms.

(** ... hence any two such spellings of one query compile identically *)
Theorem C20_synonym_spellings_agree : forall (o1 o2 : popts) (so1 so2 : sopts) (fs : list filter) (stages : list stage) (t1 t2 : str),
  popts_ok o1 = true -> popts_ok o2 = true -> forallb wf_filter fs = true ->
  forallb (wf_stage_syn o1 so1) stages = true -> forallb (wf_stage_syn o2 so2) stages = true -> forallb stage_ok stages = true ->
  pp_query_syn o1 so1 fs stages = Some t1 -> pp_query_syn o2 so2 fs stages = Some t2 ->
  accepts t1 = accepts t2.
Proof. exact query_synonym_spellings_agree. Qed.
Print Assumptions C20_synonym_spellings_agree.

(** one stage of any kind, in any spelling, followed by the end of the query or a pipe *)
Theorem C20_stage_roundtrip : forall (o : popts) (st : stage) (t k : str),
  popts_ok o = true -> wf_stage o st = true -> stage_ok st = true -> pp_stage o st = Some t ->
  stage_stop k = true -> single_pipe k = true ->
  exists lo, p_oper (t ++ k) = POk lo (skip_spaces k) /\ check_lop true lo = Some [st].
Proof. exact stage_roundtrip. Qed.
Print Assumptions C20_stage_roundtrip.

(** *** expressions: any two spellings — whitespace runs of any kind and length, `and`/`&&`,
    `or`/`||`, `!=`/`<>`, either quote style, minimal or redundant parentheses, `["name"]` where a
    bare name will not do — of the same expression are read identically (and as that expression:
    C05_precedence_roundtrip) *)
Theorem C20_expression_spellings_agree : forall (o1 o2 : popts) (e : expr) (rest : str),
  popts_ok o1 = true -> popts_ok o2 = true -> wf_expr e = true -> stopb rest = true ->
  opt_expr (pp o1 0 e ++ rest) = opt_expr (pp o2 0 e ++ rest).
Proof. exact expr_spellings_agree. Qed.
Print Assumptions C20_expression_spellings_agree.

(** the same in front of any continuation that cannot continue an expression (` desc`, ` nodrop`, ` as x`, ...) *)
Theorem C20_expression_roundtrip_general : forall (o : popts) (e : expr) (rest : str),
  popts_ok o = true -> wf_expr e = true -> fol 0 rest ->
  opt_expr (pp o 0 e ++ rest) = POk e rest.
Proof. exact expr_roundtrip_fol. Qed.
Print Assumptions C20_expression_roundtrip_general.

(** *** filters: any two spellings of the same search part are read identically *)
Theorem C20_filter_spellings_agree : forall (o1 o2 : popts) (fs : list filter) (rest : str),
  popts_ok o1 = true -> popts_ok o2 = true -> fs <> [] -> forallb wf_filter fs = true -> search_stop rest = true ->
  parse_search (fpp_top o1 fs ++ rest) = parse_search (fpp_top o2 fs ++ rest).
Proof. exact filter_spellings_agree. Qed.
Print Assumptions C20_filter_spellings_agree.

(** *** whitespace and line breaks before a stage / an expression are immaterial (for ANY text) *)
Theorem C20_stage_leading_whitespace : forall ws s : str,
  forallb is_space ws = true -> p_oper (ws ++ s) = p_oper s.
Proof. exact p_oper_leading_ws. Qed.
Print Assumptions C20_stage_leading_whitespace.

Theorem C20_expression_leading_whitespace : forall ws s : str,
  forallb is_space ws = true -> opt_expr (ws ++ s) = opt_expr s.
Proof. exact opt_expr_leading_ws. Qed.
Print Assumptions C20_expression_leading_whitespace.

(** *** the documented synonyms, over the keyword tables re-read from src/lang.rs in source order:
    every spelling is consumed whole and means what it names (false before fix f72d69c) *)
Theorem C20_sort_mode_synonyms : forall r : str,
  nonident_next r = true ->
  sort_mode_from Generated.sort_mode_tags (lit "asc" ++ r) = Some (false, r) /\
  sort_mode_from Generated.sort_mode_tags (lit "ascending" ++ r) = Some (false, r) /\
  sort_mode_from Generated.sort_mode_tags (lit "desc" ++ r) = Some (true, r) /\
  sort_mode_from Generated.sort_mode_tags (lit "dsc" ++ r) = Some (true, r) /\
  sort_mode_from Generated.sort_mode_tags (lit "descending" ++ r) = Some (true, r).
Proof. exact sort_mode_synonyms. Qed.
Print Assumptions C20_sort_mode_synonyms.

Theorem C20_fields_mode_synonyms : forall r : str,
  (match r with c :: _ => is_space c | [] => false end) = true ->
  fields_mode (lit "+" ++ r) = POk true r /\ fields_mode (lit "only" ++ r) = POk true r /\
  fields_mode (lit "include" ++ r) = POk true r /\
  fields_mode (lit "-" ++ r) = POk false r /\ fields_mode (lit "except" ++ r) = POk false r /\
  fields_mode (lit "drop" ++ r) = POk false r.
Proof. exact fields_mode_synonyms. Qed.
Print Assumptions C20_fields_mode_synonyms.

(** ... and a field whose name merely starts with a mode word is a field (false before fix a6b1cfe) *)
Theorem C20_fields_mode_whole_words : forall (c : N) (r : str),
  is_space c = false ->
  fields_mode (lit "only" ++ c :: r) = PFail /\ fields_mode (lit "include" ++ c :: r) = PFail /\
  fields_mode (lit "except" ++ c :: r) = PFail /\ fields_mode (lit "drop" ++ c :: r) = PFail.
Proof. exact fields_mode_not_a_prefix. Qed.
Print Assumptions C20_fields_mode_whole_words.

Theorem C20_neq_synonyms : forall r : str,
  comp_op (lit "!=" ++ r) = POk CNeq r /\ comp_op (lit "<>" ++ r) = POk CNeq r.
Proof. exact neq_synonyms. Qed.
Print Assumptions C20_neq_synonyms.

Theorem C20_avg_synonyms : forall r : str, p_aggfn (lit "avg" ++ r) = p_aggfn (lit "average" ++ r).
Proof. exact avg_synonyms. Qed.
Print Assumptions C20_avg_synonyms.

Theorem C20_pct_synonyms : forall r : str,
  (match r with c :: _ => is_digit c | [] => false end) = true ->
  p_aggfn (lit "p" ++ r) = p_aggfn (lit "pct" ++ r) /\
  p_aggfn (lit "p" ++ r) = p_aggfn (lit "percentile" ++ r).
Proof. exact pct_synonyms. Qed.
Print Assumptions C20_pct_synonyms.

(** *** defaults *)
Theorem C20_bare_limit_is_limit_10 :
  check_lop true (LInline (LLimit None)) = check_lop true (LInline (LLimit (Some (f_of_Z 10)))).
Proof. exact bare_limit_is_limit_10. Qed.
Print Assumptions C20_bare_limit_is_limit_10.

Theorem C20_limit_bare_form : forall r : str,
  end_of_query r = POk tt r -> p_limit (lit "limit" ++ r) = POk (LLimit None) r.
Proof. exact p_limit_bare. Qed.
Print Assumptions C20_limit_bare_form.

(** an aggregate without `as` gets its default name (table re-read from the source), so writing the
    default explicitly changes nothing *)
Theorem C20_default_column_name : forall (s r : str) (a : lagg) (ps r2 : str),
  p_aggfn (skip_spaces s) = POk (a, ps) r ->
  popt (word_then "as" req_ident) r = POk None r2 ->
  p_agg_oper s = POk (default_name_of a ps, a) (skip_spaces r2).
Proof. exact agg_default_name. Qed.
Print Assumptions C20_default_column_name.

Theorem C20_explicit_column_name : forall (s r : str) (a : lagg) (ps n r2 : str),
  p_aggfn (skip_spaces s) = POk (a, ps) r ->
  popt (word_then "as" req_ident) r = POk (Some n) r2 ->
  p_agg_oper s = POk (n, a) (skip_spaces r2).
Proof. exact agg_explicit_name. Qed.
Print Assumptions C20_explicit_column_name.

(** *** aliases: every alias of aliases/*.toml (re-read on every run) compiles to exactly the stages of
    its expansion written out in the query *)
Theorem C20_alias_is_expansion : forall k t : String.string,
  In (k, t) Generated.alias_table ->
  option_map snd (accepts (lit "* | " ++ lit k)) = option_map snd (accepts (lit "* | " ++ lit t))
  /\ option_map snd (accepts (lit "* | " ++ lit k)) <> None.
Proof. exact alias_is_expansion. Qed.
Print Assumptions C20_alias_is_expansion.

(** *** command line: `--format F` is `-o format=F` for every F *)
Theorem C20_format_flag : forall f : str,
  select_mode None (Some f) = select_mode (Some (lit "format=" ++ f)) None.
Proof. exact format_flag_is_output_format. Qed.
Print Assumptions C20_format_flag.

Example C20_spelling_examples :
  let same a b := match accepts (lit a), accepts (lit b) with
                  | Some x, Some y => True | _, _ => False end in
  same "* | json | count by k | limit" "* | json | count by k | limit 10" /\
  same "* | json | sort by a" "* | json | sort by a ascending" /\
  same "( a OR b ) | json | where ( x == 1 ) | sum( x )" "(a OR b)|json|where (x==1)|sum(x)".
Proof. vm_compute. repeat split. Qed.

(** KF-38, KF-30 - two spellings that differ only in optional whitespace / redundant parentheses and do NOT mean the
    same: [2h-30m] is one duration literal (so [2h-30m*2] is 1h30m * 2 while [2h - 30m*2] is 2h - 1h), and an
    expression starting with a bare column named like an operator keyword is rejected while its parenthesised
    spelling is accepted.  Both are language decisions left to the maintainers (known findings). *)
Theorem C20_duration_literal_swallows_minus_refuted :
  option_map lq_ops (parse_query (lit "* | 2h-30m*2 as x")) =
    Some [LFieldExpr (EArith AMul (EVal (VDur 5400000000000)) (EVal (VInt 2))) (lit "x")] /\
  option_map lq_ops (parse_query (lit "* | 2h - 30m*2 as x")) =
    Some [LFieldExpr (EArith ASub (EVal (VDur 7200000000000)) (EArith AMul (EVal (VDur 1800000000000)) (EVal (VInt 2)))) (lit "x")].
Proof. vm_compute. split; reflexivity. Qed.
Print Assumptions C20_duration_literal_swallows_minus_refuted.
Theorem C20_reserved_word_column_refuted :
  accepts (lit "* | json | total - used as free") = None /\
  accepts (lit "* | json | (total) - used as free") <> None.
Proof. vm_compute. split; [reflexivity|discriminate]. Qed.
Print Assumptions C20_reserved_word_column_refuted.

(** KF-52 - whitespace between the tokens of an access path is not optional whitespace: the spelling with blanks is
    rejected (loudly), the one without is accepted *)
Theorem C20_path_whitespace_refuted :
  accepts (lit "* | json | arr[ 0 ] as v") = None /\ accepts (lit "* | json | arr[0] as v") <> None.
Proof. vm_compute. split; [reflexivity|discriminate]. Qed.
Print Assumptions C20_path_whitespace_refuted.
