(** C07 — parse and split extract exactly the delimited text. *)
From Coq Require Import List NArith ZArith Bool Lia.
From AG Require Import Str F64 Value Json Expr Ops Pipeline Str_proofs Match_proofs Split_proofs Ops_proofs.
Import ListNotations.
Open Scope N_scope.

(** a match decomposes the text into the literal segments (up to ASCII case / whitespace) with the
    captured texts between them: substituting the captures back into the pattern reproduces the matched part *)
Theorem C07_wild_roundtrip : forall s0 rest anch t caps,
  find_match pchar_match s0 rest anch t = Some caps ->
  exists pre m t', t = pre ++ m ++ t' /\ seg_eq pchar_match s0 m = true /\ segs_match pchar_match rest anch t' caps.
Proof. exact (find_match_sound pchar_match). Qed.
Print Assumptions C07_wild_roundtrip.

(** ... and whenever such a decomposition exists the line matches *)
Theorem C07_wild_complete : forall s0 rest anch t pre m t' caps,
  t = pre ++ m ++ t' -> seg_eq pchar_match s0 m = true -> segs_match pchar_match rest anch t' caps ->
  exists caps', find_match pchar_match s0 rest anch t = Some caps'.
Proof. exact (find_match_complete pchar_match). Qed.
Print Assumptions C07_wild_complete.

(** leftmost start, shortest captures *)
Theorem C07_wild_leftmost : forall s0 rest anch t caps,
  find_match pchar_match s0 rest anch t = Some caps ->
  exists pre m t', t = pre ++ m ++ t' /\ seg_eq pchar_match s0 m = true /\ segs_match pchar_match rest anch t' caps /\
    forall pre2 m2 t2 caps2, t = pre2 ++ m2 ++ t2 -> seg_eq pchar_match s0 m2 = true ->
      segs_match pchar_match rest anch t2 caps2 ->
      (length pre <= length pre2)%nat.
Proof. exact (find_match_leftmost pchar_match). Qed.
Print Assumptions C07_wild_leftmost.

(** (a capture may span line breaks, so the shortest is taken among all texts, not only newline-free ones) *)
Theorem C07_wild_lazy : forall s rest anch t g caps,
  match_segs pchar_match (s :: rest) anch t = Some (g :: caps) ->
  forall g2 m2 t2 caps2, t = g2 ++ m2 ++ t2 -> seg_eq pchar_match s m2 = true ->
    segs_match pchar_match rest anch t2 caps2 ->
    (length g <= length g2)%nat.
Proof. exact (match_segs_lazy pchar_match). Qed.
Print Assumptions C07_wild_lazy.

(** one capture per wildcard; the field count is checked at compile time *)
Theorem C07_capture_count : forall pat t caps,
  kw_captures KWild pat t = Some caps -> length caps = count_stars pat.
Proof. exact captures_count. Qed.
Print Assumptions C07_capture_count.

Theorem C07_field_count_checked : forall pat fields from nd nc,
  stage_ok (SParse pat fields from nd nc) = true -> count_stars pat = length fields.
Proof. exact parse_field_count_checked. Qed.
Print Assumptions C07_field_count_checked.

(** fields are bound in order, as text under noconvert *)
Theorem C07_binds : forall pat fields from nodrop noconvert r inp caps,
  get_input r from = Ok inp -> kw_captures KWild pat (trim inp) = Some caps ->
  length caps = length fields -> NoDup fields ->
  exists r', parse_op pat fields from nodrop noconvert r = Ok (Some r') /\
    forall i f c, nth_error fields i = Some f -> nth_error caps i = Some c ->
      get f (rdata r') = Some (if noconvert then VStr c else from_string c).
Proof. exact parse_match_binds. Qed.
Print Assumptions C07_binds.

(** non-matching lines are dropped, or kept with the missing fields set to None under nodrop *)
Theorem C07_drop : forall pat fields from noconvert r inp,
  get_input r from = Ok inp -> kw_captures KWild pat (trim inp) = None ->
  parse_op pat fields from false noconvert r = Ok None.
Proof. exact parse_no_match_drop. Qed.
Print Assumptions C07_drop.

Theorem C07_nodrop_keeps : forall pat fields from noconvert r inp,
  get_input r from = Ok inp -> kw_captures KWild pat (trim inp) = None ->
  exists r', parse_op pat fields from true noconvert r = Ok (Some r') /\
    rraw r' = rraw r /\
    (forall k v, get k (rdata r) = Some v -> get k (rdata r') = Some v) /\
    (forall f, In f fields -> get f (rdata r) = None -> get f (rdata r') = Some VNone) /\
    (forall k, ~ In k fields -> get k (rdata r') = get k (rdata r)).
Proof. exact parse_no_match_nodrop. Qed.
Print Assumptions C07_nodrop_keeps.

(** `from` reads another field instead of the line *)
Theorem C07_from_field : forall r e,
  get_input r (Some e) = eval_str e (rdata r) /\ get_input r None = Ok (rraw r).
Proof. intros; split; [apply parse_from_field | apply parse_from_line]. Qed.
Print Assumptions C07_from_field.

(** split terminates for every non-empty separator (an empty one is rejected at compile time) *)
Theorem C07_split_terminates : forall input sep, sep <> [] ->
  exists l, split_with_delimiters input sep = SplitOk l.
Proof. exact split_terminates. Qed.
Print Assumptions C07_split_terminates.

Theorem C07_split_empty_separator_rejected : forall from out, stage_ok (SSplit [] from out) = false.
Proof. reflexivity. Qed.
Print Assumptions C07_split_empty_separator_rejected.

(** the tokens are non-empty and trimmed; without quotes they are exactly the pieces between separators *)
Theorem C07_split_tokens : forall input sep l,
  split_with_delimiters input sep = SplitOk l -> Forall (fun t => t <> [] /\ trim t = t) l.
Proof. exact split_tokens_trimmed. Qed.
Print Assumptions C07_split_tokens.

Theorem C07_split_pieces : forall pieces c,
  c <> 34 -> c <> 39 ->
  Forall (fun p => has_quote p = false /\ has_char c p = false) pieces ->
  split_with_delimiters (join_with c pieces) [c] = SplitOk (nonempty_trimmed pieces).
Proof. exact split_no_quotes. Qed.
Print Assumptions C07_split_pieces.

(** a quoted token is kept whole, without its quotes *)
Theorem C07_split_quoted : forall q body rest sep,
  (q = 34 \/ q = 39) -> sep <> [] ->
  has_char q body = false -> has_char 92 body = false ->
  exists l, split_with_delimiters rest sep = SplitOk l /\
    split_with_delimiters (q :: body ++ q :: rest) sep =
    SplitOk (match trim body with [] => l | t => t :: l end).
Proof. exact split_quoted_token. Qed.
Print Assumptions C07_split_quoted.

(** parse regex binds the named captures of the user's regex: the regex crate is not modelled *)
Definition C07_parse_regex_is_validated_only : Prop := True.

Example C07_example :
  kw_captures KWild (lit "GET * HTTP/*") (lit "x get /a b http/1.1 GET /c HTTP/2") = Some [lit "/a b"; lit "1.1 GET /c HTTP/2"].
Proof. vm_compute. reflexivity. Qed.

(** KF-39 - "keeping quoted tokens whole" is FALSE when a blank stands between the separator and the quote: the
    quote is only recognised directly after a separator, so the quoted token is cut at the separator inside it. *)
Theorem C07_split_quote_after_blank_refuted :
  exists r, out (run_pipeline (fun _ => true) [SSplit (lit ",") None None] [lit "a, ""b,c"", d"]) = Ok (ORows [r]) /\
            rdata r = [(lit "_split", VArr [VStr (lit "a"); VStr (lit """b"); VStr (lit "c"""); VStr (lit "d")])].
Proof. eexists. split; [vm_compute; reflexivity|reflexivity]. Qed.
Print Assumptions C07_split_quote_after_blank_refuted.

(** KF-55 - "`from` reads another field instead of the line" stops at a field that an earlier stage auto-converted: of
    the README's two example lines the one whose second word is a number is refused (one error line), the other is split *)
Theorem C07_from_converted_field_refuted :
  let q := [SParse (lit "* *") [lit "level"; lit "csv"] None false false; SSplit (lit ",") (Some (ECol (lit "csv") [])) None] in
  let run := run_pipeline (fun _ => true) q [lit "WARN 100"; lit "INFO a,b"] in
  (exists r, out run = Ok (ORows [r]) /\ get (lit "level") (rdata r) = Some (VStr (lit "INFO"))) /\ nerr run = 1%nat.
Proof. cbv zeta. split; [eexists; split; vm_compute; reflexivity | vm_compute; reflexivity]. Qed.
Print Assumptions C07_from_converted_field_refuted.

(** *** parse regex (Regex.v: a subset of the regex crate's syntax with leftmost-first semantics; compared with the
    binary on generated patterns on every run).  [M t r s e]: the slice [s, e) of [t] is in the language of [r]
    (anchors read against the whole text). *)
From AG Require Import Regex Regex_proofs.

(** "binds exactly the named captures": whatever the text, the fields bound are the named groups of the pattern, in
    group order - no more, no fewer *)
Theorem C07_regex_binds_the_named_groups : forall pat text l,
  parse_regex_captures pat text = RxMatch l ->
  exists r, parse_regex pat = Some r /\ map fst l = regex_named r.
Proof. exact parse_regex_captures_names. Qed.
Print Assumptions C07_regex_binds_the_named_groups.

(** "... of the first match": the reported span is a match of the whole pattern, every binding is the text its group
    matched inside that span (or None for a group that took no part), ... *)
Theorem C07_regex_bindings_are_the_match : forall pat text l,
  parse_regex_captures pat text = RxMatch l ->
  exists r s e c,
    parse_regex pat = Some r /\
    map fst l = regex_named r /\
    search (default_fuel r text) text r = SFound s e c /\
    M text r s e /\ s <= e /\ e <= length text /\
    Forall2 (binding_ok text r s e c) (named_only (regex_groups r)) l.
Proof. exact parse_regex_captures_sound. Qed.
Print Assumptions C07_regex_bindings_are_the_match.

Theorem C07_regex_capture_inside_the_match : forall f t r s e c idx a b,
  search f t r = SFound s e c ->
  cap_lookup c idx = Some (a, b) ->
  s <= a /\ a <= b /\ b <= e /\ e <= length t /\
  exists nm sub, has_group r idx nm sub /\ M t sub a b.
Proof. exact search_capture_inside. Qed.
Print Assumptions C07_regex_capture_inside_the_match.

(** ... it is the FIRST match: no match of the pattern starts further left, and a line is only dropped when the
    pattern matches nowhere in it *)
Theorem C07_regex_first_match_is_leftmost : forall f t r s e c,
  loops_ok r = true ->
  search f t r = SFound s e c ->
  forall p j, p < s -> ~ M t r p j.
Proof. exact search_leftmost. Qed.
Print Assumptions C07_regex_first_match_is_leftmost.

Theorem C07_regex_no_match_means_none : forall f t r,
  loops_ok r = true ->
  search f t r = SNone ->
  forall p j, p <= length t -> ~ M t r p j.
Proof. exact search_none_complete. Qed.
Print Assumptions C07_regex_no_match_means_none.

(** every pattern the parser accepts satisfies the side condition, and the matcher's fuel never runs out *)
Theorem C07_regex_parsed_patterns_are_fine : forall pat r, parse_regex pat = Some r -> loops_ok r = true.
Proof. exact parse_regex_loops_ok. Qed.
Print Assumptions C07_regex_parsed_patterns_are_fine.

Theorem C07_regex_matcher_terminates : forall pat text, parse_regex_captures pat text <> RxFuel.
Proof. exact parse_regex_captures_no_fuel. Qed.
Print Assumptions C07_regex_matcher_terminates.

(** *** the parse-regex STAGE on a row (RegexStage.v: the text from the line or the `from` field, trimmed; bindings
    converted unless noconvert; compared row by row with the binary on every run) *)
From AG Require Import RegexStage RegexStage_proofs.

(** a match: the row keeps its fields and gains exactly the named groups; each group is bound to its (converted) text
    or to None - whatever fields the row had before *)
Theorem C07_regex_stage_match : forall pat from nodrop noconv r rx inp l,
  parse_regex pat = Some rx -> unnamed_count rx = 0%nat ->
  get_input r from = Ok inp ->
  parse_regex_captures pat (trim inp) = RxMatch l ->
  exists row',
    rx_stage pat from nodrop noconv r = Ok (Some row') /\
    rraw row' = rraw r /\
    map fst l = regex_named rx /\
    (forall k, has k (rdata row') = true <-> has k (rdata r) = true \/ In k (regex_named rx)) /\
    (forall n o, In (n, o) l -> get n (rdata row') = Some (rx_value noconv o)) /\
    (forall k, ~ In k (regex_named rx) -> get k (rdata row') = get k (rdata r)).
Proof. exact rx_stage_match. Qed.
Print Assumptions C07_regex_stage_match.

(** a group that took no part in the match is None even when the row already had a field of that name (the seeded
    change C07h leaves the stale value) *)
Theorem C07_regex_stage_nonparticipating_group_is_none : forall pat from nodrop noconv r rx inp l n v0,
  parse_regex pat = Some rx -> unnamed_count rx = 0%nat ->
  get_input r from = Ok inp ->
  parse_regex_captures pat (trim inp) = RxMatch l ->
  In (n, None) l ->
  get n (rdata r) = Some v0 ->
  exists row', rx_stage pat from nodrop noconv r = Ok (Some row') /\
               get n (rdata row') = Some VNone.
Proof. exact rx_stage_nonparticipating. Qed.
Print Assumptions C07_regex_stage_nonparticipating_group_is_none.

Theorem C07_regex_stage_drop : forall pat from noconv r rx inp,
  parse_regex pat = Some rx -> unnamed_count rx = 0%nat ->
  get_input r from = Ok inp ->
  parse_regex_captures pat (trim inp) = RxNoMatch ->
  rx_stage pat from false noconv r = Ok None.
Proof. exact rx_stage_nomatch_drop. Qed.
Print Assumptions C07_regex_stage_drop.

Theorem C07_regex_stage_nodrop_keeps : forall pat from noconv r rx inp,
  parse_regex pat = Some rx -> unnamed_count rx = 0%nat ->
  get_input r from = Ok inp ->
  parse_regex_captures pat (trim inp) = RxNoMatch ->
  exists row',
    rx_stage pat from true noconv r = Ok (Some row') /\
    rraw row' = rraw r /\
    (forall k, has k (rdata r) = true -> get k (rdata row') = get k (rdata r)) /\
    (forall k, In k (regex_named rx) -> has k (rdata r) = false -> get k (rdata row') = Some VNone) /\
    (forall k, ~ In k (regex_named rx) -> get k (rdata row') = get k (rdata r)).
Proof. exact rx_stage_nomatch_nodrop. Qed.
Print Assumptions C07_regex_stage_nodrop_keeps.

Theorem C07_regex_stage_no_panic : forall pat from nodrop noconv r, rx_stage pat from nodrop noconv r <> Panic.
Proof. exact rx_stage_no_panic. Qed.
Print Assumptions C07_regex_stage_no_panic.
