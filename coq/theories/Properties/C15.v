(** C15 — rows stream through without loss, duplication, reordering or buffering delay.

    The model is the labelled transition system of Stream.v: reader, bounded channel
    (capacity re-read from src/lib.rs), renderer, stdout.  "For every schedule" is "for every
    list of actions".  The model has no clock: "as soon as" is proved as enabledness without
    any further input; the numeric latency is measured by the harness. *)
From Coq Require Import List ZArith NArith Bool Lia.
From AG Require Import Str F64 Value Json Expr Ops Pipeline Stream Stream_proofs Protocol_proofs.
Import ListNotations.
Open Scope nat_scope.

(** in every reachable state, under every interleaving: written ++ queued ++ still-to-send is
    exactly the reference output — nothing is lost, duplicated or reordered *)
Theorem C15_stream_safety : forall f ops lines sched,
  let s := run_schedule sched (init f ops lines None) in
  y_out s ++ y_chan s ++ reader_rest s = reference f ops lines.
Proof. exact stream_safety. Qed.
Print Assumptions C15_stream_safety.

Theorem C15_written_is_prefix : forall f ops lines sched,
  let s := run_schedule sched (init f ops lines None) in
  exists rest, reference f ops lines = y_out s ++ rest.
Proof. exact written_is_prefix. Qed.
Print Assumptions C15_written_is_prefix.

(** at the end every row that passes the pipeline has been written exactly once, in input order *)
Theorem C15_complete : forall f ops lines sched,
  let s := run_schedule sched (init f ops lines None) in
  terminal s = true -> y_out s = reference f ops lines.
Proof. exact stream_complete. Qed.
Print Assumptions C15_complete.

(** the reference itself is the stage-by-stage semantics (C03) of the filtered lines *)
Theorem C15_reference_is_staged : forall f ops lines,
  reference f ops lines = staged ops (map (fun l => mkRec [] l) (filter f lines)).
Proof. intros. unfold reference. apply stream_is_staged. Qed.
Print Assumptions C15_reference_is_staged.

(** inputs far larger than any internal buffer: the queue never holds more than the channel capacity *)
Theorem C15_queue_bounded : forall f ops lines budget sched,
  length (y_chan (run_schedule sched (init f ops lines budget))) <= cap.
Proof. exact queue_bounded. Qed.
Print Assumptions C15_queue_bounded.

(** no deadlock: a fast producer with a stalled consumer blocks, it does not hang forever *)
Theorem C15_no_deadlock : forall f ops lines budget sched,
  let s := run_schedule sched (init f ops lines budget) in
  terminal s = false -> (exists s', reader_step s = Some s') \/ (exists s', renderer_step s = Some s').
Proof. exact no_deadlock. Qed.
Print Assumptions C15_no_deadlock.

(** no buffering delay: a queued row can be written at once, and an available line is processed
    unless the queue is full — neither needs more input or EOF *)
Theorem C15_prompt_write : forall f ops lines sched,
  let s := run_schedule sched (init f ops lines None) in
  y_chan s <> [] -> exists s', renderer_step s = Some s' /\ length (y_out s') = S (length (y_out s)).
Proof. exact queued_row_writable. Qed.
Print Assumptions C15_prompt_write.

Theorem C15_prompt_read : forall f ops lines budget sched,
  let s := run_schedule sched (init f ops lines budget) in
  y_phase s <> PDone -> length (y_chan s) < cap -> exists s', reader_step s = Some s'.
Proof. exact reader_enabled_unless_full. Qed.
Print Assumptions C15_prompt_read.

(** however the input bytes are chunked (also inside a line or a UTF-8 sequence), the reader sees
    the same lines; a final line without newline is one of them; nothing is lost *)
Theorem C15_chunking_irrelevant : forall chunks, lines_of_chunks chunks = lines_of (concat chunks).
Proof. exact chunking_irrelevant. Qed.
Print Assumptions C15_chunking_irrelevant.

Theorem C15_lines_cover_input : forall bytes, concat (lines_of bytes) = bytes.
Proof. exact lines_concat. Qed.
Print Assumptions C15_lines_cover_input.

Example C15_example :
  lines_of_chunks [[97; 98]; [10; 99]; [100]]%N = [[97; 98; 10]; [99; 100]]%N.
Proof. vm_compute. reflexivity. Qed.

(** a line that is printed as it is (every row of a filter-only query) keeps its bytes: only the terminator - LF, or the
    CR LF of CRLF input - is stripped, not trailing blanks or tabs (fix 7f51c1d) *)
Theorem C15_printed_line_keeps_its_bytes : forall s : str,
  (forall c, last s 0%N = c -> c <> 10%N /\ c <> 13%N) ->
  strip_eol (s ++ [10%N]) = s /\ strip_eol (s ++ [13%N; 10%N]) = s /\ strip_eol s = s.
Proof.
  intros s Hl. unfold strip_eol.
  assert (H : drop_eol_rev (rev s) = rev s).
  { destruct (rev s) as [|c r] eqn:E; [reflexivity|].
    assert (Hc : last s 0%N = c).
    { rewrite <- (rev_involutive s), E. cbn [rev]. apply last_last. }
    destruct (Hl c Hc) as [H1 H2]. cbn [drop_eol_rev].
    destruct (N.eqb_spec c 10); [contradiction|]. destruct (N.eqb_spec c 13); [contradiction|]. reflexivity. }
  repeat split.
  - rewrite rev_app_distr. cbn [rev app drop_eol_rev N.eqb orb]. cbn. rewrite H. apply rev_involutive.
  - rewrite rev_app_distr. cbn [rev app]. cbn. rewrite H. apply rev_involutive.
  - rewrite H. apply rev_involutive.
Qed.
Print Assumptions C15_printed_line_keeps_its_bytes.
Example C15_trailing_blanks_kept :
  strip_eol (lit "x  " ++ [10%N]) = lit "x  " /\ strip_eol ([9%N; 13%N; 10%N]) = [9%N] /\ strip_eol (lit "z") = lit "z".
Proof. vm_compute. repeat split. Qed.
