(** C10 — limit keeps exactly the first or the last N rows.

    Statements only; every proof is [exact <lemma>] into the proof files. *)
From Coq Require Import List ZArith Lia.
From AG Require Import Str F64 Value Json Expr Ops Pipeline Stream_proofs Limit_proofs.
From AG Require Generated.
Import ListNotations.
Open Scope Z_scope.

(** [limit N], N > 0: exactly the first N rows that reach it, in order. *)
Theorem C10_head : forall (n : Z) (rows : list record),
  0 < n -> stage_out (build_op (SLimit n)) rows = firstn (Z.to_nat n) rows.
Proof. exact limit_head. Qed.
Print Assumptions C10_head.

(** [limit -N]: exactly the last N rows, in their original order. *)
Theorem C10_tail : forall (n : Z) (rows : list record),
  n < 0 -> stage_out (build_op (SLimit n)) rows = skipn (length rows - Z.to_nat (- n)) rows.
Proof. exact limit_tail. Qed.
Print Assumptions C10_tail.

(** all rows when fewer than |N| arrive *)
Theorem C10_short_input : forall (n : Z) (rows : list record),
  n <> 0 -> (length rows <= Z.to_nat (Z.abs n))%nat ->
  stage_out (build_op (SLimit n)) rows = rows.
Proof. exact limit_short. Qed.
Print Assumptions C10_short_input.

(** the limit never drops a row with an error and never panics *)
Theorem C10_clean : forall (n : Z) (rows : list record),
  n <> 0 ->
  let '(_, _, nerr, b) := op_run (build_op (SLimit n)) rows in nerr = O /\ b = no_bad.
Proof. exact limit_clean. Qed.
Print Assumptions C10_clean.

(** the streaming execution (one row at a time through every operator, then
    the drain loop) of ANY list of pre-aggregate operators equals applying
    each operator to the complete output of the one before it; hence a limit
    at any position sees exactly the rows the earlier stages let through, and
    chained limits compose. *)
Theorem C10_position : forall (ops : list opstate) (rows : list record),
  rev (p_sent (run_preagg ops rows)) = staged ops rows.
Proof. exact stream_is_staged. Qed.
Print Assumptions C10_position.

Theorem C10_chain : forall (a b : Z) (rows : list record),
  rev (p_sent (run_preagg [build_op (SLimit a); build_op (SLimit b)] rows)) =
  stage_out (build_op (SLimit b)) (stage_out (build_op (SLimit a)) rows).
Proof. intros. rewrite stream_is_staged. reflexivity. Qed.
Print Assumptions C10_chain.

(** after an aggregation or sort the limit is applied to the (ordered) table,
    afresh for every frame: the adapter builds a new operator instance *)
Theorem C10_after_table : forall (n : Z) (t : table),
  n <> 0 ->
  exists cols,
    adapter_process (SLimit n) t =
    Ok (mkT cols (map rdata (stage_out (build_op (SLimit n)) (map (fun d => mkRec d []) (t_rows t))))).
Proof. exact limit_after_table. Qed.
Print Assumptions C10_after_table.

(** a bare [limit] means [limit 10] (the constant is re-read from typecheck.rs) *)
Theorem C10_default : typecheck_limit None = Some 10.
Proof. exact limit_default. Qed.
Print Assumptions C10_default.

(** zero, fractional and non-finite counts are rejected at compile time;
    an accepted count is a non-zero integer *)
Theorem C10_static : forall (f : f64) (n : Z),
  typecheck_limit (Some f) = Some n ->
  n <> 0 /\ f_is_integral f = true /\ stage_ok (SLimit n) = true.
Proof. exact limit_static. Qed.
Print Assumptions C10_static.

Theorem C10_static_zero : forall f : f64, ftrunc_Z f = 0 -> typecheck_limit (Some f) = None.
Proof. exact limit_static_zero. Qed.
Print Assumptions C10_static_zero.

Theorem C10_static_fraction : forall f : f64, f_is_integral f = false -> typecheck_limit (Some f) = None.
Proof. exact limit_static_fraction. Qed.
Print Assumptions C10_static_fraction.

(** the hypotheses are satisfiable and the statements are not vacuous *)
Example C10_example_tail :
  map rraw (stage_out (build_op (SLimit (-2)))
                      [mkRec [] [97%N]; mkRec [] [98%N]; mkRec [] [99%N]]) = [[98%N]; [99%N]].
Proof. vm_compute. reflexivity. Qed.

Example C10_example_static :
  typecheck_limit (Some (f_of_dec false 25 (-1))) = None /\
  typecheck_limit (Some (f_of_Z 3)) = Some 3 /\
  typecheck_limit (Some (f_of_Z 0)) = None.
Proof. vm_compute. repeat split. Qed.
