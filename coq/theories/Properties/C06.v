(** C06 — json and logfmt extraction is faithful to the input data. *)
From Coq Require Import List NArith ZArith Bool Lia.
From AG Require Import Str F64 Value Json Expr Ops Pipeline Output Str_proofs Json_proofs Split_proofs Ops_proofs Expr_proofs.
Import ListNotations.

(** every member of the object becomes a field with the same name and value (the last duplicate wins);
    other fields and the raw line are untouched *)
Theorem C06_json_members : forall from r inp kvs,
  get_input r from = Ok inp -> json_parse inp = Some (JObj kvs) ->
  exists r', json_op from r = Ok (Some r') /\ rraw r' = rraw r /\
    forall k, get k (rdata r') =
      match last_member k kvs with
      | Some v => Some (json_to_value v)
      | None => get k (rdata r)
      end.
Proof. exact json_object_members. Qed.
Print Assumptions C06_json_members.

(** a line that is not JSON is dropped on its own; a non-object root leaves the row as it is *)
Theorem C06_not_json_dropped : forall from r inp,
  get_input r from = Ok inp -> json_parse inp = None -> json_op from r = Err.
Proof. exact json_not_json_dropped. Qed.
Print Assumptions C06_not_json_dropped.

Theorem C06_non_object : forall from r inp t,
  get_input r from = Ok inp -> json_parse inp = Some t -> (forall kvs, t <> JObj kvs) ->
  json_op from r = Ok (Some r).
Proof. exact json_non_object_unchanged. Qed.
Print Assumptions C06_non_object.

(** integers exactly, other numbers as the same double (see C08) *)
Theorem C06_numbers : forall z f,
  (in_i64 z = true -> json_to_value (JInt z) = VInt z) /\
  match json_to_value (JFloat f) with
  | VFloat g => g = f
  | VInt n => f_is_integral f = true /\ ftrunc_Z f = n /\ in_i64 n = true
  | _ => False
  end.
Proof.
  intros z f. split.
  - intros H. cbn. now rewrite H.
  - cbn [json_to_value]. destruct (from_float f) eqn:E;
      try (pose proof (from_float_never_other f) as H; rewrite E in H; exact H).
    + now apply from_float_int.
    + now apply from_float_float in E.
Qed.
Print Assumptions C06_numbers.

(** printing the row with -o json reproduces the object: the serialiser's tree reads back as the value,
    and its text parses back to that tree *)
Theorem C06_value_roundtrip : forall fd fu v,
  plain_value v = true -> canonical v = true -> json_to_value (value_to_json fd fu v) = v.
Proof. exact value_json_lossless. Qed.
Print Assumptions C06_value_roundtrip.

Theorem C06_text_roundtrip : forall fmt t,
  wf_tree t = true -> (depth t < 127)%nat -> json_parse (json_print fmt t) = Some t.
Proof. exact json_roundtrip. Qed.
Print Assumptions C06_text_roundtrip.

(** .key and [index] address the subtree; negative indexes count from the end; out of range fails for that row only *)
Theorem C06_access : forall k (i : Z) rest m l,
  walk_refs (RField k :: rest) (VObj m) = match get k m with Some v => walk_refs rest v | None => Err end /\
  ((0 <= i < Z.of_nat (length l))%Z ->
     walk_refs (RIndex i :: rest) (VArr l) = match nth_error l (Z.to_nat i) with Some v => walk_refs rest v | None => Err end) /\
  ((- Z.of_nat (length l) <= i < 0)%Z ->
     walk_refs (RIndex i :: rest) (VArr l) =
     match nth_error l (Z.to_nat (Z.of_nat (length l) + i)) with Some v => walk_refs rest v | None => Err end) /\
  ((i < - Z.of_nat (length l) \/ Z.of_nat (length l) <= i)%Z -> walk_refs (RIndex i :: rest) (VArr l) = Err).
Proof.
  intros. split; [apply access_key|]. split; [apply access_index|]. split; [apply access_index_negative | apply access_index_out_of_range].
Qed.
Print Assumptions C06_access.

(** logfmt: one field per key=value pair (bare, quoted, bare key), text passed through from_string;
    the pair without key and value that stands for "no pair at all" is not stored *)
Theorem C06_logfmt_pairs : forall pairs,
  pairs <> [] -> forallb pair_ok pairs = true -> no_empty_before_last pairs = true ->
  logfmt_parse (join_with 32%N (map render_pair pairs)) = map pair_value pairs.
Proof. exact logfmt_pairs. Qed.
Print Assumptions C06_logfmt_pairs.

Theorem C06_logfmt_fields : forall from r inp,
  get_input r from = Ok inp ->
  logfmt_op from r =
  Ok (Some (fold_left (fun acc kv => match snd kv with
                                     | None => rput (fst kv) VNone acc
                                     | Some v => rput (fst kv) (from_string v) acc
                                     end)
                      (List.filter (fun kv => negb (lf_empty_pair kv)) (logfmt_parse (trim_end inp))) r)).
Proof. exact logfmt_op_fields. Qed.
Print Assumptions C06_logfmt_fields.

(** the full statement is false of the faithful model: an empty value loses its key when another
    pair follows (known finding KF-26, a defect of the logfmt crate) *)
Theorem C06_refuted_logfmt_empty_value :
  logfmt_parse (lit "a="""" b=1") = [(lit "b", Some (lit "1"))].
Proof. exact logfmt_empty_value_dropped. Qed.
Print Assumptions C06_refuted_logfmt_empty_value.

(** KF-33, KF-42 - two more places where the faithful model (a transcription of the logfmt crate 0.0.2) refutes
    "one field per key=value pair": a quoted value ending in an escaped backslash is not closed by its quote and
    swallows the rest of the line; an unquoted value containing [=] loses its key, and one ending in [==] vanishes. *)
Theorem C06_refuted_logfmt_escaped_backslash :
  logfmt_parse (lit "dir=""C:\\"" user=bob") = [(lit "dir", Some (lit "C:"" user=bob"))].
Proof. vm_compute. reflexivity. Qed.
Print Assumptions C06_refuted_logfmt_escaped_backslash.
Theorem C06_refuted_logfmt_equals_in_value :
  logfmt_parse (lit "method=GET url=/search?q=rust status=200") =
    [(lit "method", Some (lit "GET")); (lit "/search?q", Some (lit "rust")); (lit "status", Some (lit "200"))] /\
  logfmt_parse (lit "tok=YWJj== n=1") = [(lit "n", Some (lit "1"))].
Proof. vm_compute. split; reflexivity. Qed.
Print Assumptions C06_refuted_logfmt_equals_in_value.

(** KF-51 - "numeric text converted" goes further than numbers: the WORDS nan, inf and infinity, in any case and with a
    sign, auto-convert to non-finite numbers (Rust's float grammar), so a user called Nan prints as null under -o json *)
Theorem C06_refuted_nonfinite_words :
  from_string (lit "Nan") = VFloat SpecFloat.S754_nan /\
  from_string (lit "Infinity") = VFloat (SpecFloat.S754_infinity false) /\
  from_string (lit "-inf") = VFloat (SpecFloat.S754_infinity true).
Proof. vm_compute. repeat split. Qed.
Print Assumptions C06_refuted_nonfinite_words.
