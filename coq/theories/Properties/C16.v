(** C16 — the live terminal view converges to the true result for any refresh schedule. *)
From Coq Require Import List ZArith NArith Bool Lia.
From AG Require Import Str F64 Value Json Expr Ops Pipeline Term Term_proofs Term_scroll_proofs Compile_proofs Rerun_proofs Render_loop Live_proofs.
From AG Require Generated.
Import ListNotations.
Open Scope nat_scope.

(** the reset sequence is what src/render.rs says (re-read on every run): per printed line
    erase-line + cursor-up, then one more erase-line for the top line *)
Theorem C16_reset_sequence : lex reset_unit = [TEraseLine; TCursorUp] /\ lex reset_tail = [TEraseLine].
Proof. exact reset_sequences. Qed.
Print Assumptions C16_reset_sequence.

(** any number of intermediate frames of any heights, then the final one: the screen shows exactly
    the final frame, blank elsewhere — no residue of earlier frames *)
Theorem C16_frames_converge : forall h w frames last,
  0 < w -> Forall (good_frame h w) (frames ++ [last]) ->
  let bytes := onlcr (render_frames [] (map frame_text (frames ++ [last]))) in
  let sc := term_run (blank_screen h w) (lex bytes) in
  screen_text sc = map trim_end last ++ repeat [] (h - length last) /\ sc_r sc = length last /\ sc_c sc = 0.
Proof. exact frames_converge. Qed.
Print Assumptions C16_frames_converge.

(** the frames of the theorem are lists of whole lines.  The one frame that is not a table -- the
    placeholder the machine-readable modes show until input ends, re-read from src/printer.rs on
    every run -- is such a frame too: one printable line and its newline (fix fa51386) ... *)
Theorem C16_placeholder_is_a_frame :
  exists line, Generated.agg_placeholder = frame_text [line] /\ Forall printable line /\ length line = 55.
Proof.
  exists (removelast Generated.agg_placeholder). split; [vm_compute; reflexivity|]. split; [|vm_compute; reflexivity].
  apply Forall_forall. intros c Hc. unfold printable.
  assert (H : forallb (fun c => (32 <=? c)%N) (removelast Generated.agg_placeholder) = true) by (vm_compute; reflexivity).
  rewrite forallb_forall in H. apply N.leb_le. apply H. exact Hc.
Qed.
Print Assumptions C16_placeholder_is_a_frame.

(** ... and it has to be: the same text WITHOUT its newline (the code before the fix), drawn twice
    and followed by the final rows, leaves the rows in the middle of the line under the residue *)
Example C16_frame_without_newline_refuted :
  let ph := removelast Generated.agg_placeholder in
  let bytes := render_frames [] [ph; ph; frame_text [lit "k=a n=1"]] in
  screen_text (term_run (blank_screen 4 80) (lex (onlcr bytes))) <> [lit "k=a n=1"; []; []; []] /\
  screen_text (term_run (blank_screen 4 80) (lex (onlcr (render_frames [] [Generated.agg_placeholder; Generated.agg_placeholder; frame_text [lit "k=a n=1"]]))))
    = [lit "k=a n=1"; []; []; []].
Proof. vm_compute. split; [discriminate|reflexivity]. Qed.

(** the renderer emits nothing outside printable text, CR, LF, ESC[2K and ESC[1A *)
Theorem C16_alphabet : forall frames,
  Forall (fun ls => Forall (Forall printable) ls) frames ->
  Forall (fun t => t <> TOther) (lex (onlcr (render_frames [] (map frame_text frames)))).
Proof. exact frames_alphabet. Qed.
Print Assumptions C16_alphabet.

(** every frame, and the final one, is run_agg_pipeline on the rows received so far: the downstream
    operators are re-entrant — a grouper clears its state, a sorter replaces it, an adapter rebuilds
    its operator — so the final table does not depend on how many frames were drawn before *)
Theorem C16_rerun_grouper : forall g t,
  agg_process_table (AGroup g) t = Unm \/
  agg_process_table (AGroup g) t = Ok (AGroup (fold_left g_process_map (t_rows t) (mkG (g_keys g) (g_fns g) []))).
Proof.
  intros g t. cbn [agg_process_table].
  destruct (existsb (any_unm_row (AGroup g)) (t_rows t)); [left | right]; reflexivity.
Qed.
Print Assumptions C16_rerun_grouper.

Theorem C16_rerun_sorter : forall s t,
  agg_process_table (ASorter s) t = Ok (ASorter (mkS (s_keys s) (s_desc s) (t_cols t) (t_rows t))).
Proof. reflexivity. Qed.
Print Assumptions C16_rerun_sorter.

Theorem C16_rerun_adapter : forall st old t,
  agg_process_table (AAdapter st old) t = bind (adapter_process st t) (fun t' => Ok (AAdapter st t')).
Proof. reflexivity. Qed.
Print Assumptions C16_rerun_adapter.

(** hence running the downstream list twice on the same upstream table gives the same table *)
Theorem C16_frames_do_not_accumulate : forall a t a1 a2,
  agg_process_table a t = Ok a1 -> agg_process_table a1 t = Ok a2 -> agg_emit a2 = agg_emit a1.
Proof. exact frames_do_not_accumulate. Qed.
Print Assumptions C16_frames_do_not_accumulate.

(** the same from ANY starting point: arbitrary earlier content above the cursor, the cursor on any
    row with blank rows from there down (as after a shell prompt) — including the usual case where
    the cursor is near the bottom and the terminal scrolls while frames are drawn.  The earlier
    content scrolls up by exactly what the tallest frame needed and is otherwise untouched; below it
    the screen shows exactly the final frame *)
Theorem C16_frames_converge_anywhere : forall w above below frames last,
  0 < w -> 0 < below -> Forall (fun r => length r = w) above ->
  let h := length above + below in
  Forall (good_frame h w) (frames ++ [last]) ->
  let bytes := onlcr (render_frames [] (map frame_text (frames ++ [last]))) in
  let sc := term_run (start_screen w above below) (lex bytes) in
  let s := scrolled h above (frames ++ [last]) in
  sc_rows sc = skipn s above ++ map (pad w) last ++ repeat (blank_row w) (h - (length above - s) - length last)
  /\ sc_r sc = length above - s + length last /\ sc_c sc = 0 /\ sc_w sc = w.
Proof. exact frames_converge_anywhere. Qed.
Print Assumptions C16_frames_converge_anywhere.

Theorem C16_frames_converge_anywhere_text : forall w above below frames last,
  0 < w -> 0 < below -> Forall (fun r => length r = w) above ->
  let h := length above + below in
  Forall (good_frame h w) (frames ++ [last]) ->
  let bytes := onlcr (render_frames [] (map frame_text (frames ++ [last]))) in
  let sc := term_run (start_screen w above below) (lex bytes) in
  let s := scrolled h above (frames ++ [last]) in
  screen_text sc = map trim_end (skipn s above) ++ map trim_end last ++ repeat [] (h - (length above - s) - length last).
Proof. exact frames_converge_anywhere_text. Qed.
Print Assumptions C16_frames_converge_anywhere_text.

Example C16_scroll_example :
  let w := 6 in
  let above := [lit "aaaaaa"; lit "bbbbbb"; lit "cccccc"] in
  let frames := [[lit "x"]; [lit "p"; lit "q"; lit "r"]] in
  let last := [lit "k  v"; lit "1  2"] in
  let sc := term_run (start_screen w above 2) (lex (onlcr (render_frames [] (map frame_text (frames ++ [last]))))) in
  (scrolled 5 above (frames ++ [last]) = 2) /\
  sc_rows sc = [lit "cccccc"; lit "k  v  "; lit "1  2  "; lit "      "; lit "      "] /\ sc_r sc = 3 /\ sc_c sc = 0.
Proof. exact scroll_example. Qed.

(** THE RENDER LOOP (src/lib.rs render_aggregate + Renderer::render / should_print, transcribed in Render_loop.v):
    rows and 50 ms timeouts arrive in any interleaving, a frame is drawn when the output is a terminal and no frame was
    drawn yet or more than the interval ago, and after the channel is disconnected one final call is made.
    For EVERY such sequence: the frames drawn are tables of prefixes of what was received, in order, and the run ends
    with exactly one final print, of ALL rows received ... *)
Theorem C16_render_loop_shape : forall (A F : Type) (table final : list A -> F) interval tty (evs : list (ev A)),
  exists frames, run_loop A F table final interval tty evs = frames ++ [(true, final (received A evs))] /\
                 Forall (prefix_frame A F table (received A evs)) frames.
Proof. exact run_loop_shape. Qed.
Print Assumptions C16_render_loop_shape.

(** ... so that, put together with the terminal ([C16_frames_converge]), for any pacing of the input and any number of
    refreshes the screen ends up showing exactly the final table (frames that fit the screen) *)
Theorem C16_live_view_converges : forall (A : Type) (table final : list A -> list str) interval h w (evs : list (ev A)),
  0 < w ->
  (forall rows, good_frame h w (table rows)) -> (forall rows, good_frame h w (final rows)) ->
  let out := run_loop A (list str) table final interval true evs in
  let bytes := onlcr (render_frames [] (map frame_text (map snd out))) in
  let sc := term_run (blank_screen h w) (lex bytes) in
  let last := final (received A evs) in
  screen_text sc = map trim_end last ++ repeat [] (h - length last) /\ sc_r sc = length last /\ sc_c sc = 0.
Proof. exact live_view_converges. Qed.
Print Assumptions C16_live_view_converges.

(** not a terminal: the aggregate is printed exactly once, at the end of input, and nothing else is written *)
Theorem C16_not_a_terminal_prints_once : forall (A F : Type) (table final : list A -> F) interval (evs : list (ev A)),
  run_loop A F table final interval false evs = [(true, final (received A evs))].
Proof. exact run_loop_no_tty. Qed.
Print Assumptions C16_not_a_terminal_prints_once.

(** while input is idle the display catches up within a bounded delay: of two consecutive timeouts more than the
    refresh interval apart at least one draws a frame, and the last frame then shows every row received so far *)
Theorem C16_idle_catches_up : forall (A F : Type) (table : list A -> F) interval (evs : list (ev A)) t t',
  interval < t' - t ->
  let s0 := fold_left (loop_step A F table interval true) evs (init A F) in
  (forall l, r_last A F s0 = Some l -> l <= t) ->
  let s2 := fold_left (loop_step A F table interval true) [Timeout A t; Timeout A t'] s0 in
  exists pre, r_out A F s2 = pre ++ [(false, table (received A evs))] /\ r_rows A F s2 = received A evs.
Proof. exact idle_catches_up. Qed.
Print Assumptions C16_idle_catches_up.

(** the loop on a concrete schedule: two rows, a frame after the first, a timeout too early to draw, one late enough *)
Example C16_render_loop_example :
  run_loop nat (list nat) (fun rows => rows) (fun rows => 0 :: rows) 50 true
           [Recv nat 7 0; Recv nat 8 10; Timeout nat 40; Timeout nat 60] =
    [(false, [7]); (false, [7; 8]); (true, [0; 7; 8])] /\
  run_loop nat (list nat) (fun rows => rows) (fun rows => 0 :: rows) 50 false
           [Recv nat 7 0; Recv nat 8 10; Timeout nat 40; Timeout nat 60] = [(true, [0; 7; 8])].
Proof. vm_compute. split; reflexivity. Qed.
