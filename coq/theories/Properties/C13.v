(** C13 — output is deterministic.

    The model is a function, so "same input, same output" is trivially true OF THE MODEL.
    What this file states is why the model may ignore the sources of nondeterminism that
    exist in the implementation: every place where the code iterates a hash table is
    followed by something that makes the result independent of the iteration order. *)
From Coq Require Import List ZArith NArith Bool Lia Permutation Sorted.
From AG Require Import Str F64 Value Json Expr Ops Pipeline Value_proofs Sort_proofs Sorter_proofs Agg_proofs Determinism_proofs Perm_proofs.
From AG Require Import Stream Stream_proofs Protocol_proofs.
From AG Require Render_loop.
Import ListNotations.

(** MultiGrouper::emit iterates a HashMap: any enumeration order of the groups gives the same table *)
Theorem C13_group_order_free : forall keys fns st st',
  Permutation st st' ->
  Forall (fun e => Forall (fun v => small_ints v = true) (fst e)) st ->
  (forall a b, In a st -> In b st -> keys_cmp (fst a) (fst b) = Eq -> a = b) ->
  g_emit (mkG keys fns st) = g_emit (mkG keys fns st').
Proof. exact g_emit_order_free. Qed.
Print Assumptions C13_group_order_free.

(** the Sorter's tie-break makes the sorted table independent of the order in which rows arrive
    (thread timing, hash order of an upstream aggregation) *)
Theorem C13_sort_order_free : forall keys desc cols rows rows',
  Permutation rows rows' ->
  Forall (row_ok keys) rows ->
  (forall a b, In a rows -> In b rows -> sort_cmp (mkS keys desc cols rows) a b = Eq -> a = b) ->
  t_rows (s_emit (mkS keys desc cols rows)) = t_rows (s_emit (mkS keys desc cols rows')).
Proof. exact sorter_order_independent. Qed.
Print Assumptions C13_sort_order_free.

(** PreAggAdapter collects the keys of its output rows in a HashSet: the new columns are appended
    in sorted order, so the column list depends only on the set of keys *)
Theorem C13_adapter_columns_order_free : forall datas datas',
  Permutation datas datas' -> all_keys datas = all_keys datas'.
Proof. exact all_keys_perm. Qed.
Print Assumptions C13_adapter_columns_order_free.

(** nested objects are im::HashMaps with random seeds: the value (and its serialisation, which
    sorts the keys) does not depend on the order in which the members are enumerated *)
Theorem C13_object_order_free : forall kvs kvs',
  Permutation kvs kvs' -> NoDup (map fst kvs) ->
  json_to_value (JObj kvs) = json_to_value (JObj kvs').
Proof. exact object_order_free. Qed.
Print Assumptions C13_object_order_free.

(** ... and neither does its TEXT as the string functions (concat, toUpperCase, contains, substring,
    parse .. from) see it: [to_display] is a function of the value, which is order free (f3ac142) *)
Theorem C13_object_text_order_free : forall kvs kvs',
  Permutation kvs kvs' -> NoDup (map fst kvs) ->
  to_display (json_to_value (JObj kvs)) = to_display (json_to_value (JObj kvs')).
Proof. intros kvs kvs' Hp Hn. f_equal. exact (object_order_free kvs kvs' Hp Hn). Qed.
Print Assumptions C13_object_text_order_free.
Example C13_object_text_example :
  to_display (json_to_value (JObj [(lit "b", JInt 2); (lit "a", JObj [(lit "z", JNull); (lit "y", JStr (lit "q"))])])) =
  Ok (lit "{""a"": Obj({""y"": Str(""q""), ""z"": None}), ""b"": Int(2)}").
Proof. vm_compute. reflexivity. Qed.

(** grouping does not depend on which of several equal keys is met first: == is an equivalence *)
Theorem C13_group_identity : forall a b c,
  veqb a a = true /\ veqb a b = veqb b a /\ (veqb a b = true -> veqb b c = true -> veqb a c = true).
Proof. intros. split; [apply veqb_refl|]. split; [apply veqb_sym | apply veqb_trans]. Qed.
Print Assumptions C13_group_identity.

(** accumulators that are sets (count_distinct) report a size, which is order free *)
Theorem C13_distinct_order_free : forall e rows rows', Permutation rows rows' ->
  acc_emit (fold_left acc_step rows (acc_empty (FDistinct e))) =
  acc_emit (fold_left acc_step rows' (acc_empty (FDistinct e))).
Proof. exact distinct_perm. Qed.
Print Assumptions C13_distinct_order_free.

(** record-mode output under thread timing is the business of C15 (stream_safety) *)

(** independent of THREAD TIMING.  Rows: whatever the interleaving of the reader and the renderer thread, a run that has
    terminated has written the same rows - those of the staged reference ([C15_complete]) ... *)
Theorem C13_schedule_free_rows : forall f ops lines sched sched',
  let s := run_schedule sched (Stream.init f ops lines None) in
  let s' := run_schedule sched' (Stream.init f ops lines None) in
  terminal s = true -> terminal s' = true -> y_out s = y_out s'.
Proof.
  intros f ops lines sched sched' s s' Ht Ht'. subst s s'.
  rewrite (stream_complete f ops lines sched Ht), (stream_complete f ops lines sched' Ht'). reflexivity.
Qed.
Print Assumptions C13_schedule_free_rows.

(** ... aggregates, not a terminal: the one thing written is the final print of the rows received, however rows and
    timeouts were interleaved and whatever the clock said ([C16_not_a_terminal_prints_once]) *)
Theorem C13_schedule_free_aggregate : forall (A F : Type) (table final : list A -> F) interval (evs evs' : list (Render_loop.ev A)),
  Render_loop.received A evs = Render_loop.received A evs' ->
  Render_loop.run_loop A F table final interval false evs = Render_loop.run_loop A F table final interval false evs'.
Proof. intros A F table final interval evs evs' H. rewrite !Render_loop.run_loop_no_tty, H. reflexivity. Qed.
Print Assumptions C13_schedule_free_aggregate.
