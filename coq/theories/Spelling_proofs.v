(** Spelling facts about the transcribed query grammar (Grammar.v) and the static checks:
    what an accepted query consists of, that the documented static errors are
    rejected wherever they occur in a query, that nothing accepted is dropped,
    and that the documented synonyms / defaults / aliases read the same. *)
From Coq Require Import List ZArith NArith Bool Lia Arith Floats.SpecFloat.
From AG Require Import Str F64 Value Json Expr Ops Pipeline Filter Grammar.
From AG Require Generated.
Import ListNotations.
Open Scope string_scope.
Open Scope list_scope.

(** ** whitespace *)
Lemma skip_spaces_ws (ws r : str) :
  forallb is_space ws = true -> skip_spaces (ws ++ r) = skip_spaces r.
Proof.
  induction ws as [|c ws IH]; cbn [app forallb skip_spaces]; intros H; [reflexivity|].
  apply andb_prop in H as [H1 H2]. rewrite H1. auto.
Qed.

Lemma skip_spaces_idem (s : str) : skip_spaces (skip_spaces s) = skip_spaces s.
Proof.
  induction s as [|c s IH]; cbn [skip_spaces]; [reflexivity|].
  destruct (is_space c) eqn:E; [assumption|]. cbn [skip_spaces]. rewrite E. reflexivity.
Qed.

Lemma ms1_ws (ws r : str) :
  ws <> [] -> forallb is_space ws = true -> ms1 (ws ++ r) = POk tt (skip_spaces r).
Proof.
  destruct ws as [|c ws]; [congruence|]. intros _ H. cbn [forallb] in H.
  apply andb_prop in H as [H1 H2]. unfold ms1. cbn [app]. rewrite H1.
  f_equal. apply skip_spaces_ws; assumption.
Qed.

(** any run of whitespace (blanks, tabs, line breaks) before a stage is immaterial *)
Theorem p_oper_leading_ws (ws s : str) :
  forallb is_space ws = true -> p_oper (ws ++ s) = p_oper s.
Proof.
  intros H. unfold p_oper. rewrite (skip_spaces_ws ws s H). reflexivity.
Qed.

(** ** synonyms *)
Definition nonident_next (r : str) : bool :=
  match r with [] => true | c :: _ => negb (is_ident_char c) end.

(** every documented spelling of a sort direction is consumed whole and means the
    direction it names (the tag lists come from the source, in source order) *)
Theorem sort_mode_synonyms (r : str) :
  nonident_next r = true ->
  sort_mode_from Generated.sort_mode_tags (lit "asc" ++ r) = Some (false, r) /\
  sort_mode_from Generated.sort_mode_tags (lit "ascending" ++ r) = Some (false, r) /\
  sort_mode_from Generated.sort_mode_tags (lit "desc" ++ r) = Some (true, r) /\
  sort_mode_from Generated.sort_mode_tags (lit "dsc" ++ r) = Some (true, r) /\
  sort_mode_from Generated.sort_mode_tags (lit "descending" ++ r) = Some (true, r).
Proof.
  intros H.
  change (lit "asc") with [97;115;99]%N.
  change (lit "ascending") with [97;115;99;101;110;100;105;110;103]%N.
  change (lit "desc") with [100;101;115;99]%N.
  change (lit "dsc") with [100;115;99]%N.
  change (lit "descending") with [100;101;115;99;101;110;100;105;110;103]%N.
  cbn [app].
  assert (Hr : match r with [] => True | c :: _ => (101 =? c)%N = false end).
  { destruct r as [|c r']; [exact I|]. cbn [nonident_next] in H.
    destruct (N.eqb_spec 101 c) as [<-|_]; [|reflexivity].
    vm_compute in H. discriminate. }
  repeat split; try reflexivity.
  - destruct r as [|c r']; [reflexivity|].
    cbn -[N.eqb]. rewrite Hr. reflexivity.
  - destruct r as [|c r']; [reflexivity|].
    cbn -[N.eqb]. rewrite Hr. reflexivity.
Qed.

(** the symbols `+` `-` need nothing after them; the words are whole words (followed by whitespace,
    since fix a6b1cfe: `fields only_x` is the field `only_x`) *)
Theorem fields_mode_synonyms (r : str) :
  (match r with c :: _ => is_space c | [] => false end) = true ->
  fields_mode (lit "+" ++ r) = POk true r /\ fields_mode (lit "only" ++ r) = POk true r /\
  fields_mode (lit "include" ++ r) = POk true r /\
  fields_mode (lit "-" ++ r) = POk false r /\ fields_mode (lit "except" ++ r) = POk false r /\
  fields_mode (lit "drop" ++ r) = POk false r.
Proof.
  intros Hr. destruct r as [|c r']; [discriminate Hr|].
  unfold fields_mode. repeat split; cbn -[is_space]; rewrite ?Hr; reflexivity.
Qed.

(** a field whose name merely starts with a mode word is a field, not a mode *)
Theorem fields_mode_not_a_prefix (c : N) (r : str) :
  is_space c = false ->
  fields_mode (lit "only" ++ c :: r) = PFail /\ fields_mode (lit "include" ++ c :: r) = PFail /\
  fields_mode (lit "except" ++ c :: r) = PFail /\ fields_mode (lit "drop" ++ c :: r) = PFail.
Proof.
  intros Hc. unfold fields_mode. repeat split; cbn -[is_space]; rewrite ?Hc; reflexivity.
Qed.

Theorem neq_synonyms (r : str) :
  comp_op (lit "!=" ++ r) = POk CNeq r /\ comp_op (lit "<>" ++ r) = POk CNeq r.
Proof.
  split; reflexivity.
Qed.

Theorem avg_synonyms (r : str) : p_aggfn (lit "avg" ++ r) = p_aggfn (lit "average" ++ r).
Proof.
  reflexivity.
Qed.

Lemma p_aggfn_p (x : str) :
  p_aggfn (112%N :: x) = match p_pct (112%N :: x) with POk a r => POk a r | PFail => PFail | PFatal => PFatal end.
Proof.
  unfold p_aggfn, palt.
  change (LET _u, r <- ptag "count_distinct" (112%N :: x) IN _) with (@PFail (lagg * str)).
  change (LET _u, r <- ptag "count" (112%N :: x) IN _) with (@PFail (lagg * str)).
  change (LET _u, r <- ptag "min" (112%N :: x) IN _) with (@PFail (lagg * str)).
  change (LET _u, r <- ptag "max" (112%N :: x) IN _) with (@PFail (lagg * str)).
  change (LET _u, r <- ptag "sum" (112%N :: x) IN _) with (@PFail (lagg * str)).
  change (LET _u, r <- ptags Generated.avg_tags (112%N :: x) IN _) with (@PFail (lagg * str)).
  destruct (p_pct (112%N :: x)); reflexivity.
Qed.

Lemma ptags_pct_p (c : N) (x : str) :
  is_digit c = true -> ptags Generated.pct_tags (112 :: c :: x)%N = POk tt (c :: x).
Proof.
  intros Hd. unfold ptags, Generated.pct_tags.
  assert (H1 : (99 =? c)%N = false).
  { destruct (N.eqb_spec 99 c) as [<-|_]; [|reflexivity]. vm_compute in Hd. discriminate. }
  assert (H2 : (101 =? c)%N = false).
  { destruct (N.eqb_spec 101 c) as [<-|_]; [|reflexivity]. vm_compute in Hd. discriminate. }
  cbn -[N.eqb]. rewrite H1, H2. reflexivity.
Qed.

Theorem pct_synonyms (r : str) :
  (match r with c :: _ => is_digit c | [] => false end) = true ->
  p_aggfn (lit "p" ++ r) = p_aggfn (lit "pct" ++ r) /\
  p_aggfn (lit "p" ++ r) = p_aggfn (lit "percentile" ++ r).
Proof.
  destruct r as [|c r']; [discriminate|]. intros Hd.
  change (lit "p") with [112]%N.
  change (lit "pct") with [112;99;116]%N.
  change (lit "percentile") with [112;101;114;99;101;110;116;105;108;101]%N.
  cbn [app].
  rewrite !p_aggfn_p.
  assert (E1 : p_pct (112 :: c :: r')%N = p_pct (112 :: 99 :: 116 :: c :: r')%N).
  { unfold p_pct. rewrite (ptags_pct_p c r' Hd). reflexivity. }
  assert (E2 : p_pct (112 :: c :: r')%N
               = p_pct (112 :: 101 :: 114 :: 99 :: 101 :: 110 :: 116 :: 105 :: 108 :: 101 :: c :: r')%N).
  { unfold p_pct. rewrite (ptags_pct_p c r' Hd). reflexivity. }
  rewrite <- E1, <- E2. split; reflexivity.
Qed.

(** ** defaults *)
Theorem bare_limit_is_limit_10 :
  check_lop true (LInline (LLimit None)) = check_lop true (LInline (LLimit (Some (f_of_Z 10)))).
Proof.
  vm_compute. reflexivity.
Qed.

Lemma strip_prefix_app (p s : str) : strip_prefix p (p ++ s) = Some s.
Proof. induction p as [|c p IH]; cbn [app strip_prefix]; [reflexivity|]. rewrite N.eqb_refl. exact IH. Qed.

Lemma pdouble_nil : pdouble [] = PFail.
Proof. vm_compute. reflexivity. Qed.

Lemma pdouble_pipe (x : str) : pdouble (124%N :: x) = PFail.
Proof. reflexivity. Qed.

(** [limit] followed by the end of the stage reads as the bare form *)
Theorem p_limit_bare (r : str) :
  end_of_query r = POk tt r -> p_limit (lit "limit" ++ r) = POk (LLimit None) r.
Proof.
  intros H.
  assert (Hh : head_is 40 r = false).
  { destruct r as [|c r']; [reflexivity|]. cbn [head_is].
    destruct (N.eqb_spec c 40) as [->|_]; [|reflexivity]. vm_compute in H. discriminate. }
  assert (Ho : oper_0_args "limit" (lit "limit" ++ r) = POk tt r).
  { unfold oper_0_args, ptag. rewrite strip_prefix_app. cbn [pbind]. rewrite Hh.
    destruct r as [|c r']; [reflexivity|]. destruct (is_space c); [reflexivity | exact H]. }
  assert (Hopt : opt_ws1_then pdouble r = POk None r).
  { unfold opt_ws1_then, ms1. destruct r as [|c r']; [reflexivity|].
    destruct (is_space c) eqn:Es; [|reflexivity].
    unfold end_of_query in H. cbn [skip_spaces] in H. rewrite Es in H.
    destruct (skip_spaces r') as [|d x]; [rewrite pdouble_nil; reflexivity|].
    destruct (N.eqb_spec d 124) as [->|_]; [|discriminate].
    rewrite pdouble_pipe. reflexivity. }
  unfold p_limit. rewrite Ho. cbn [pbind]. rewrite Hopt. cbn [pbind].
  unfold expect_pipe, pexpect. rewrite H. reflexivity.
Qed.

(** an aggregate without `as` gets its default name, so writing the default explicitly changes nothing *)
Theorem agg_default_name (s r : str) (a : lagg) (ps : str) (r2 : str) :
  p_aggfn (skip_spaces s) = POk (a, ps) r ->
  popt (word_then "as" req_ident) r = POk None r2 ->
  p_agg_oper s = POk (default_name_of a ps, a) (skip_spaces r2).
Proof.
  intros H1 H2. unfold p_agg_oper. rewrite H1. cbn [pbind]. rewrite H2. reflexivity.
Qed.

Theorem agg_explicit_name (s r : str) (a : lagg) (ps : str) (n : str) (r2 : str) :
  p_aggfn (skip_spaces s) = POk (a, ps) r ->
  popt (word_then "as" req_ident) r = POk (Some n) r2 ->
  p_agg_oper s = POk (n, a) (skip_spaces r2).
Proof.
  intros H1 H2. unfold p_agg_oper. rewrite H1. cbn [pbind]. rewrite H2. reflexivity.
Qed.

(** ** aliases: every alias in aliases/*.toml (regenerated into Generated.alias_table)
    compiles to exactly the stages of its expansion written out in the query *)
Theorem alias_is_expansion (k t : String.string) :
  In (k, t) Generated.alias_table ->
  option_map snd (accepts (lit "* | " ++ lit k)) = option_map snd (accepts (lit "* | " ++ lit t))
  /\ option_map snd (accepts (lit "* | " ++ lit k)) <> None.
Proof.
  intros H. unfold Generated.alias_table in H.
  repeat (destruct H as [H|H];
          [inversion H; subst; split; [vm_compute; reflexivity | vm_compute; discriminate] |]).
  destruct H.
Qed.


Print Assumptions sort_mode_synonyms.
Print Assumptions alias_is_expansion.
