(** C05/C08: expression evaluation facts. *)
From Coq Require Import List ZArith NArith Bool Lia Floats.SpecFloat.
From AG Require Import Str F64 Value Json Expr Ops Pipeline Value_proofs.
Import ListNotations.
Open Scope Z_scope.

(** *** from_float: integral, in-range floats become Int, everything else stays the same double *)
Lemma from_float_int f z :
  from_float f = VInt z -> f_is_integral f = true /\ ftrunc_Z f = z /\ in_i64 z = true.
Proof.
  unfold from_float, in_i64.
  destruct (f_is_integral f); cbn [andb]; [|discriminate].
  destruct (i64_min <=? ftrunc_Z f) eqn:H1; cbn [andb]; [|discriminate].
  destruct (ftrunc_Z f <=? i64_max) eqn:H2; [|discriminate].
  intros H; injection H as <-. now rewrite H1, H2.
Qed.

Lemma from_float_float f g :
  from_float f = VFloat g ->
  g = f /\ (f_is_integral f = false \/ in_i64 (ftrunc_Z f) = false).
Proof.
  unfold from_float, in_i64.
  destruct (f_is_integral f); cbn [andb].
  - destruct (i64_min <=? ftrunc_Z f); cbn [andb].
    + destruct (ftrunc_Z f <=? i64_max); [discriminate|].
      intros H; injection H as <-. split; [reflexivity | now right].
    + intros H; injection H as <-. split; [reflexivity | now right].
  - intros H; injection H as <-. split; [reflexivity | now left].
Qed.

Lemma from_float_never_other f :
  match from_float f with VInt _ | VFloat _ => True | _ => False end.
Proof. unfold from_float. now destruct (_ && _). Qed.

(** *** integer arithmetic is exact, and never wraps or saturates *)
Lemma vadd_int a b : in_i64 (a + b) = true -> vadd (VInt a) (VInt b) = Ok (VInt (a + b)).
Proof. intros H. cbn. unfold int_or_float. now rewrite H. Qed.
Lemma vsub_int a b : in_i64 (a - b) = true -> vsub (VInt a) (VInt b) = Ok (VInt (a - b)).
Proof. intros H. cbn. unfold int_or_float. now rewrite H. Qed.
Lemma vmul_int a b : in_i64 (a * b) = true -> vmul (VInt a) (VInt b) = Ok (VInt (a * b)).
Proof. intros H. cbn. unfold int_or_float. now rewrite H. Qed.

(** an integer result is the exact integer, or - beyond i64 - the float computation AS A FLOAT; never an integer
    that is not the result *)
Lemma int_or_float_sound exact fl v :
  int_or_float exact fl = Ok v ->
  (v = VInt exact /\ in_i64 exact = true) \/
  (in_i64 exact = false /\ v = VFloat fl /\ from_float fl = VFloat fl).
Proof.
  unfold int_or_float. destruct (in_i64 exact); [intros H; injection H as <-; left; auto|].
  pose proof (from_float_never_other fl) as Hn.
  destruct (from_float fl) as [| |f| | | | | |] eqn:E; try contradiction; intros H; [discriminate|].
  injection H as <-. right. split; [reflexivity|].
  assert (f = fl) as ->; [|auto].
  unfold from_float in E. destruct (_ && _); [discriminate|]. now injection E.
Qed.

(** outside the i64 range the result is the float computation; where that float is itself an integer in range (only
    -2^63) the row is an error: it would print as the integer i64::MIN *)
Definition float_or_error (fl : f64) : res value := match from_float fl with VInt _ => Err | v => Ok v end.
Lemma vadd_int_overflow a b :
  in_i64 (a + b) = false -> vadd (VInt a) (VInt b) = float_or_error (fadd (f_of_Z a) (f_of_Z b)).
Proof. intros H. cbn. unfold int_or_float, float_or_error. now rewrite H. Qed.
Lemma vmul_int_overflow a b :
  in_i64 (a * b) = false -> vmul (VInt a) (VInt b) = float_or_error (fmul (f_of_Z a) (f_of_Z b)).
Proof. intros H. cbn. unfold int_or_float, float_or_error. now rewrite H. Qed.

(** *** division and mixed operands: IEEE double, then normalised *)
Lemma to_f64_int_text r : to_f64 (int_text r) = to_f64 r.
Proof.
  destruct r; try reflexivity. cbn [int_text]. destruct (from_string s) eqn:E; try reflexivity.
  cbn [to_f64]. unfold aggressively_to_num. now rewrite E.
Qed.
Lemma is_date_int_text r : is_date (int_text r) = is_date r.
Proof. destruct r; try reflexivity. cbn [int_text]. destruct (from_string s); reflexivity. Qed.
(** (a date converts to a number - num(date) - but is no operand of / : the typed arms of + and - say what dates do) *)
Lemma vdiv_numbers l r a b :
  is_date l = false -> is_date r = false ->
  to_f64 l = Ok a -> to_f64 r = Ok b -> vdiv l r = Ok (from_float (fdiv a b)).
Proof.
  intros Dl Dr Ha Hb. unfold vdiv. rewrite <- to_f64_int_text in Hb. rewrite <- is_date_int_text in Dr.
  destruct l; try discriminate Ha; try discriminate Dl; destruct (int_text r); cbn [vdiv_typed];
    try discriminate Hb; try discriminate Dr;
    unfold binary_op; cbn [is_date orb]; now rewrite Ha, Hb.
Qed.

Lemma vadd_mixed z f : vadd (VInt z) (VFloat f) = Ok (from_float (fadd (f_of_Z z) f)).
Proof. reflexivity. Qed.
Lemma vadd_float f g : vadd (VFloat f) (VFloat g) = Ok (from_float (fadd f g)).
Proof. reflexivity. Qed.
Lemma vmul_float f g : vmul (VFloat f) (VFloat g) = Ok (from_float (fmul f g)).
Proof. reflexivity. Qed.

(** *** logical operators short-circuit; if evaluates only the chosen branch *)
Lemma and_short_circuit l r d : eval l d = Ok (VBool false) -> eval (ELogic LAnd l r) d = Ok (VBool false).
Proof. intros H. cbn. now rewrite H. Qed.
Lemma or_short_circuit l r d : eval l d = Ok (VBool true) -> eval (ELogic LOr l r) d = Ok (VBool true).
Proof. intros H. cbn. now rewrite H. Qed.
Lemma and_true l r d : eval l d = Ok (VBool true) -> eval (ELogic LAnd l r) d = eval r d.
Proof. intros H. cbn. now rewrite H. Qed.
Lemma or_false l r d : eval l d = Ok (VBool false) -> eval (ELogic LOr l r) d = eval r d.
Proof. intros H. cbn. now rewrite H. Qed.
Lemma if_true c t e d : eval c d = Ok (VBool true) -> eval (EIf c t e) d = eval t d.
Proof. intros H. cbn. now rewrite H. Qed.
Lemma if_false c t e d : eval c d = Ok (VBool false) -> eval (EIf c t e) d = eval e d.
Proof. intros H. cbn. now rewrite H. Qed.
Lemma not_bool e d b : eval e d = Ok (VBool b) -> eval (ENot e) d = Ok (VBool (negb b)).
Proof. intros H. cbn. now rewrite H. Qed.
Lemma not_nonbool e d v : eval e d = Ok v -> (forall b, v <> VBool b) -> eval (ENot e) d = Err.
Proof. intros H Hn. cbn. rewrite H. destruct v; try reflexivity. exfalso. now apply (Hn b). Qed.

(** *** comparisons *)
Lemma cmp_eval o l r d a b :
  eval l d = Ok a -> eval r d = Ok b ->
  eval (ECmp o l r) d =
  Ok (VBool (match o with
             | CEq => veqb a b | CNeq => negb (veqb a b)
             | CGt => vgtb a b | CLt => vltb a b | CGte => vgeb a b | CLte => vleb a b end)).
Proof. intros Ha Hb. cbn. now rewrite Ha, Hb. Qed.

Lemma none_eq_none : veqb VNone VNone = true.
Proof. reflexivity. Qed.

(** a failing operand fails the whole expression (the row is then dropped on its own) *)
Lemma cmp_err_l o l r d : eval l d = Err -> eval (ECmp o l r) d = Err.
Proof. intros H. cbn. now rewrite H. Qed.
Lemma arith_err_l o l r d : eval l d = Err -> eval (EArith o l r) d = Err.
Proof. intros H. cbn. now rewrite H. Qed.
Lemma col_missing h rest d : get h d = None -> eval (ECol h rest) d = Err.
Proof. intros H. cbn. now rewrite H. Qed.

Lemma where_drops_failing_row e r : eval_bool e (rdata r) = Err -> where_op e r = Err.
Proof. intros H. unfold where_op. now rewrite H. Qed.
Lemma let_drops_failing_row e n r : eval e (rdata r) = Err -> let_op e n r = Err.
Proof. intros H. unfold let_op. now rewrite H. Qed.

(** *** timeslice: the latest multiple of the span that is not after t *)
Lemma timeslice_floor e span name r r' ns :
  eval e (rdata r) = Ok (VDate ns) ->
  timeslice_op e span name r = Ok (Some r') ->
  exists t', get (match name with Some n => n | None => lit "_timeslice" end) (rdata r') = Some (VDate t') /\
             0 < span /\ (span | t') /\ t' <= ns < t' + span.
Proof.
  intros He. unfold timeslice_op. rewrite He. cbn [bind].
  destruct (span <=? 0) eqn:H2; [discriminate|].
  unfold mk_date. destruct (date_ok (ns - ns mod span)); cbn [bind]; [|discriminate].
  intros H; injection H as <-.
  apply Z.leb_gt in H2.
  exists (ns - ns mod span). split; [|split; [lia|split]].
  - unfold rput; cbn [rdata]. apply Str_proofs.get_put_same.
  - exists (ns / span). rewrite (Z.div_mod ns span) at 1 by lia. lia.
  - pose proof (Z.mod_pos_bound ns span ltac:(lia)). lia.
Qed.

Lemma timeslice_not_a_date e span name r v :
  eval e (rdata r) = Ok v -> (forall ns, v <> VDate ns) -> timeslice_op e span name r = Err.
Proof.
  intros He Hn. unfold timeslice_op. rewrite He. cbn [bind].
  destruct v; try reflexivity. exfalso. now apply (Hn ns).
Qed.

(** *** a few documented functions *)
Lemma length_string s : eval_func (lit "length") [VStr s] = Ok (VInt (Z.of_nat (length s))).
Proof. reflexivity. Qed.
Lemma length_array l : eval_func (lit "length") [VArr l] = Ok (VInt (Z.of_nat (length l))).
Proof. reflexivity. Qed.
Lemma isnull_none : eval_func (lit "isNull") [VNone] = Ok (VBool true).
Proof. reflexivity. Qed.
Lemma isnull_other v : v <> VNone -> eval_func (lit "isNull") [v] = Ok (VBool false).
Proof. intros H. destruct v; try reflexivity. contradiction. Qed.
Lemma substring_end_before_start s a b :
  0 <= a -> 0 <= b -> b < a ->
  eval_func (lit "substring") [VStr s; VInt a; VInt b] = Err.
Proof.
  intros Ha Hb Hab. cbn.
  destruct (0 <=? a) eqn:E1; [|lia]. destruct (0 <=? b) eqn:E2; [|lia]. cbn.
  destruct (b <? a) eqn:E3; [reflexivity | lia].
Qed.
Lemma wrong_arg_count_isnull : eval_func (lit "isNull") [] = Err /\ eval_func (lit "isNull") [VNone; VNone] = Err.
Proof. split; reflexivity. Qed.
