(** Basic facts about string equality/order and sorted association lists. *)
From Coq Require Import List NArith ZArith Bool Lia.
From AG Require Import Str Json.
Import ListNotations.
Open Scope N_scope.

Lemma str_eqb_eq a : forall b, str_eqb a b = true <-> a = b.
Proof.
  induction a as [|x a IH]; intros [|y b]; cbn; split; intros H; try reflexivity; try discriminate.
  - apply andb_true_iff in H as [H1 H2]. apply N.eqb_eq in H1. apply IH in H2. now subst.
  - injection H as -> ->. rewrite N.eqb_refl. now apply IH.
Qed.

Lemma str_eqb_refl a : str_eqb a a = true.
Proof. now apply str_eqb_eq. Qed.

Lemma str_eqb_sym a b : str_eqb a b = str_eqb b a.
Proof.
  destruct (str_eqb a b) eqn:H1, (str_eqb b a) eqn:H2; try reflexivity.
  - apply str_eqb_eq in H1. subst. now rewrite str_eqb_refl in H2.
  - apply str_eqb_eq in H2. subst. now rewrite str_eqb_refl in H1.
Qed.

Lemma str_eqb_neq a b : str_eqb a b = false <-> a <> b.
Proof.
  split; intros H.
  - intros ->. now rewrite str_eqb_refl in H.
  - destruct (str_eqb a b) eqn:E; [|reflexivity]. apply str_eqb_eq in E. contradiction.
Qed.

Lemma str_cmp_eq a : forall b, str_cmp a b = Eq <-> a = b.
Proof.
  induction a as [|x a IH]; intros [|y b]; cbn; split; intros H; try reflexivity; try discriminate.
  - destruct (N.compare_spec x y) as [->|Hlt|Hgt]; try discriminate. apply IH in H. now subst.
  - injection H as -> ->. rewrite N.compare_refl. now apply IH.
Qed.

Lemma str_cmp_refl a : str_cmp a a = Eq.
Proof. now apply str_cmp_eq. Qed.

Lemma str_cmp_antisym a : forall b, str_cmp b a = CompOpp (str_cmp a b).
Proof.
  induction a as [|x a IH]; intros [|y b]; cbn; try reflexivity.
  rewrite (N.compare_antisym x y). destruct (x ?= y); cbn; auto.
Qed.

Lemma str_cmp_trans_lt a : forall b c, str_cmp a b = Lt -> str_cmp b c = Lt -> str_cmp a c = Lt.
Proof.
  induction a as [|x a IH]; intros [|y b] [|z c]; cbn; intros H1 H2; try reflexivity; try discriminate.
  destruct (N.compare_spec x y) as [->|Hxy|Hxy]; try discriminate.
  - destruct (N.compare_spec y z) as [->|Hyz|Hyz]; try discriminate; [eauto | reflexivity].
  - destruct (N.compare_spec y z) as [->|Hyz|Hyz]; try discriminate.
    + destruct (N.compare_spec x z); try lia. reflexivity.
    + destruct (N.compare_spec x z); try lia. reflexivity.
Qed.

(** *** association lists *)
Section AssocFacts.
  Context {A : Type}.
  Implicit Types l : list (str * A).

  Lemma get_put_same k v l : get k (put k v l) = Some v.
  Proof.
    induction l as [|[k' v'] l IH]; cbn.
    - now rewrite str_eqb_refl.
    - destruct (str_cmp k k') eqn:E; cbn.
      + now rewrite str_eqb_refl.
      + now rewrite str_eqb_refl.
      + assert (str_eqb k k' = false) as ->.
        { apply str_eqb_neq. intros ->. now rewrite str_cmp_refl in E. }
        exact IH.
  Qed.

  Lemma get_put_other k k' v l : k <> k' -> get k (put k' v l) = get k l.
  Proof.
    intros Hne. induction l as [|[k2 v2] l IH]; cbn.
    - apply str_eqb_neq in Hne. now rewrite Hne.
    - destruct (str_cmp k' k2) eqn:E; cbn.
      + apply str_cmp_eq in E. subst k2. apply str_eqb_neq in Hne. now rewrite Hne.
      + apply str_eqb_neq in Hne. now rewrite Hne.
      + now rewrite IH.
  Qed.

  Lemma has_put_same k v l : has k (put k v l) = true.
  Proof. unfold has. now rewrite get_put_same. Qed.

  Lemma get_filter_keep (p : str * A -> bool) k l :
    (forall v, p (k, v) = true) -> get k (filter p l) = get k l.
  Proof.
    intros Hp. induction l as [|[k2 v2] l IH]; cbn; [reflexivity|].
    destruct (str_eqb k k2) eqn:E.
    - apply str_eqb_eq in E. subst k2. rewrite Hp. cbn. now rewrite str_eqb_refl.
    - destruct (p (k2, v2)); cbn; [rewrite E|]; exact IH.
  Qed.

  Lemma get_filter_drop (p : str * A -> bool) k l :
    (forall v, p (k, v) = false) -> get k (filter p l) = None.
  Proof.
    intros Hp. induction l as [|[k2 v2] l IH]; cbn; [reflexivity|].
    destruct (p (k2, v2)) eqn:E2; [|exact IH]. cbn.
    destruct (str_eqb k k2) eqn:E; [|exact IH].
    apply str_eqb_eq in E. subst k2. now rewrite Hp in E2.
  Qed.
End AssocFacts.
