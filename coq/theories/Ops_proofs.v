(** Facts about the row operators used by C02 / C06 / C07 / C18. *)
From Coq Require Import List ZArith NArith Bool Lia.
From AG Require Import Str F64 Value Json Expr Ops Pipeline Filter Output Display Str_proofs Match_proofs Local_proofs.
Import ListNotations.

(** the filter is applied to each raw line before any operator, and nothing else is *)
Lemma filter_all_true {A} (l : list A) : List.filter (fun _ => true) l = l.
Proof. induction l as [|x l IH]; cbn [List.filter]; [reflexivity | now rewrite IH]. Qed.

(** the filter sees the line without its line terminator ([chomp]); the operators get the line as read *)
Theorem run_pipeline_filter : forall f stages lines,
  run_pipeline f stages lines =
  run_pipeline (fun _ => true) stages (List.filter (fun l => f (chomp l)) lines).
Proof.
  intros f stages lines. unfold run_pipeline.
  change (fun l : str => (fun _ : str => true) (chomp l)) with (fun _ : str => true).
  rewrite filter_all_true. reflexivity.
Qed.

(** *** parse *)
Lemma split_on_star_length : forall s cur, length (split_on_star s cur) = S (count_stars s).
Proof.
  induction s as [|c s IH]; intros cur; cbn [split_on_star]; [reflexivity|].
  unfold count_stars in *. cbn [List.filter].
  destruct (c =? 42)%N; cbn [length].
  - rewrite IH. reflexivity.
  - apply IH.
Qed.

Lemma captures_count : forall pat t caps,
  kw_captures KWild pat t = Some caps -> length caps = count_stars pat.
Proof.
  intros pat t caps H. unfold kw_captures in H.
  pose proof (split_on_star_length pat []) as HL.
  destruct (split_on_star pat []) as [|s0 rest]; [discriminate|].
  apply find_match_strong in H. destruct H as (pre & m & t' & _ & _ & Hm & _).
  apply match_segs_count in Hm. cbn [length] in HL. lia.
Qed.

Lemma parse_no_match_drop : forall pat fields from noconvert r inp,
  get_input r from = Ok inp -> kw_captures KWild pat (trim inp) = None ->
  parse_op pat fields from false noconvert r = Ok None.
Proof.
  intros pat fields from noconvert r inp Hi Hk. unfold parse_op.
  rewrite Hi. cbn [bind]. rewrite Hk. reflexivity.
Qed.

Lemma nodrop_fold_facts : forall (d0 : data) fields acc,
  let F := fun (acc : record) (f : str) => if has f d0 then acc else rput f VNone acc in
  rraw (fold_left F fields acc) = rraw acc /\
  (forall k, ~ In k fields \/ has k d0 = true ->
             get k (rdata (fold_left F fields acc)) = get k (rdata acc)) /\
  (forall f, has f d0 = false -> In f fields \/ get f (rdata acc) = Some VNone ->
             get f (rdata (fold_left F fields acc)) = Some VNone).
Proof.
  intros d0 fields. induction fields as [|f0 fs IH]; intros acc F.
  - cbn [fold_left]. split; [reflexivity|]. split; [reflexivity|].
    intros f _ [[]|H]; exact H.
  - cbn [fold_left]. destruct (IH (F acc f0)) as (H1 & H2 & H3). fold F in H1, H2, H3.
    split; [|split].
    + rewrite H1. unfold F. destruct (has f0 d0); reflexivity.
    + intros k Hk. rewrite H2.
      * unfold F. destruct (has f0 d0) eqn:E; [reflexivity|].
        apply rput_get_other. intros ->. destruct Hk as [Hk|Hk].
        -- apply Hk. left. reflexivity.
        -- rewrite Hk in E. discriminate.
      * destruct Hk as [Hk|Hk]; [left|right; exact Hk].
        intros Hin. apply Hk. right. exact Hin.
    + intros f Hf Hor. apply H3; [exact Hf|].
      destruct (str_eqb f f0) eqn:E.
      * apply str_eqb_eq in E. subst f0. right. unfold F. rewrite Hf.
        unfold rput; cbn [rdata]. apply get_put_same.
      * apply str_eqb_neq in E. destruct Hor as [[Heq|Hin]|Hg].
        -- exfalso. apply E. symmetry. exact Heq.
        -- left. exact Hin.
        -- right. unfold F. destruct (has f0 d0); [exact Hg|].
           rewrite rput_get_other by exact E. exact Hg.
Qed.

Lemma parse_no_match_nodrop : forall pat fields from noconvert r inp,
  get_input r from = Ok inp -> kw_captures KWild pat (trim inp) = None ->
  exists r', parse_op pat fields from true noconvert r = Ok (Some r') /\
    rraw r' = rraw r /\
    (forall k v, get k (rdata r) = Some v -> get k (rdata r') = Some v) /\
    (forall f, In f fields -> get f (rdata r) = None -> get f (rdata r') = Some VNone) /\
    (forall k, ~ In k fields -> get k (rdata r') = get k (rdata r)).
Proof.
  intros pat fields from noconvert r inp Hi Hk. unfold parse_op.
  rewrite Hi. cbn [bind]. rewrite Hk.
  destruct (nodrop_fold_facts (rdata r) fields r) as (H1 & H2 & H3).
  eexists. split; [reflexivity|]. split; [exact H1|]. split; [|split].
  - intros k v Hg. rewrite H2; [exact Hg|]. right. unfold has. rewrite Hg. reflexivity.
  - intros f Hin Hg. apply H3; [|left; exact Hin]. unfold has. rewrite Hg. reflexivity.
  - intros k Hn. apply H2. left. exact Hn.
Qed.

Lemma in_map_fst_combine {A B} (k : A) : forall (a : list A) (b : list B),
  In k (map fst (combine a b)) -> In k a.
Proof.
  induction a as [|x a IH]; intros [|y b] H; cbn in H; try contradiction.
  destruct H as [H|H]; [left; exact H | right; eapply IH; exact H].
Qed.

Lemma fold_rput_combine_nth : forall fields vals r, NoDup fields ->
  forall i f v, nth_error fields i = Some f -> nth_error vals i = Some v ->
  get f (rdata (fold_left (fun acc fv => rput (fst fv) (snd fv) acc) (combine fields vals) r)) = Some v.
Proof.
  induction fields as [|f0 fs IH]; intros vals r Hnd i f v Hf Hv.
  - destruct i; discriminate.
  - destruct vals as [|v0 vs]; [destruct i; discriminate|].
    inversion Hnd as [|x l Hnotin Hnd']; subst.
    cbn [combine fold_left fst snd].
    destruct i as [|i].
    + cbn [nth_error] in Hf, Hv. injection Hf as <-. injection Hv as <-.
      rewrite (fold_rput_other fst snd).
      * unfold rput; cbn [rdata]. apply get_put_same.
      * intros Hin. apply Hnotin. eapply in_map_fst_combine. exact Hin.
    + cbn [nth_error] in Hf, Hv. eapply IH; eassumption.
Qed.

Lemma parse_match_binds : forall pat fields from nodrop noconvert r inp caps,
  get_input r from = Ok inp -> kw_captures KWild pat (trim inp) = Some caps ->
  length caps = length fields -> NoDup fields ->
  exists r', parse_op pat fields from nodrop noconvert r = Ok (Some r') /\
    forall i f c, nth_error fields i = Some f -> nth_error caps i = Some c ->
      get f (rdata r') = Some (if noconvert then VStr c else from_string c).
Proof.
  intros pat fields from nodrop noconvert r inp caps Hi Hk Hlen Hnd. unfold parse_op.
  rewrite Hi. cbn [bind]. rewrite Hk.
  eexists. split; [reflexivity|].
  intros i f c Hf Hc.
  eapply fold_rput_combine_nth; [exact Hnd | exact Hf |].
  apply (map_nth_error (fun c0 => if noconvert then VStr c0 else from_string c0)). exact Hc.
Qed.

Lemma parse_from_field : forall r e, get_input r (Some e) = eval_str e (rdata r).
Proof. reflexivity. Qed.
Lemma parse_from_line : forall r, get_input r None = Ok (rraw r).
Proof. reflexivity. Qed.

Lemma parse_field_count_checked : forall pat fields from nd nc,
  stage_ok (SParse pat fields from nd nc) = true -> count_stars pat = length fields.
Proof.
  intros pat fields from nd nc H. cbn [stage_ok] in H.
  apply andb_true_iff in H. destruct H as [H _]. apply Nat.eqb_eq. exact H.
Qed.

(** *** json *)
Lemma json_not_json_dropped : forall from r inp,
  get_input r from = Ok inp -> json_parse inp = None -> json_op from r = Err.
Proof.
  intros from r inp Hi Hp. unfold json_op. rewrite Hi. cbn [bind]. rewrite Hp. reflexivity.
Qed.

Lemma json_non_object_unchanged : forall from r inp t,
  get_input r from = Ok inp -> json_parse inp = Some t -> (forall kvs, t <> JObj kvs) ->
  json_op from r = Ok (Some r).
Proof.
  intros from r inp t Hi Hp Hno. unfold json_op. rewrite Hi. cbn [bind]. rewrite Hp.
  destruct t; try reflexivity. exfalso. eapply Hno. reflexivity.
Qed.

(** every member becomes a field with the same name and value; the last duplicate wins *)
Fixpoint last_member (k : str) (kvs : list (str * jtree)) : option jtree :=
  match kvs with
  | [] => None
  | (k', v) :: r => match last_member k r with
                    | Some v' => Some v'
                    | None => if str_eqb k k' then Some v else None
                    end
  end.

Lemma fold_json_members : forall kvs r k,
  get k (rdata (fold_left (fun acc kv => rput (fst kv) (json_to_value (snd kv)) acc) kvs r)) =
  match last_member k kvs with
  | Some v => Some (json_to_value v)
  | None => get k (rdata r)
  end.
Proof.
  induction kvs as [|[k' v] kvs IH]; intros r k; cbn [fold_left last_member fst snd];
    [reflexivity|].
  rewrite IH. destruct (last_member k kvs); [reflexivity|].
  destruct (str_eqb k k') eqn:E.
  - apply str_eqb_eq in E. subst k'. unfold rput; cbn [rdata]. apply get_put_same.
  - apply rput_get_other. apply str_eqb_neq. exact E.
Qed.

Lemma json_object_members : forall from r inp kvs,
  get_input r from = Ok inp -> json_parse inp = Some (JObj kvs) ->
  exists r', json_op from r = Ok (Some r') /\ rraw r' = rraw r /\
    forall k, get k (rdata r') =
      match last_member k kvs with
      | Some v => Some (json_to_value v)
      | None => get k (rdata r)
      end.
Proof.
  intros from r inp kvs Hi Hp. unfold json_op. rewrite Hi. cbn [bind]. rewrite Hp.
  eexists. split; [reflexivity|]. split.
  - apply (fold_rput_raw fst (fun kv => json_to_value (snd kv))).
  - intros k. apply fold_json_members.
Qed.

(** nested access *)
Lemma access_key : forall k rest m,
  walk_refs (RField k :: rest) (VObj m) = match get k m with Some v => walk_refs rest v | None => Err end.
Proof. reflexivity. Qed.
Lemma access_key_not_object : forall k rest v, (forall m, v <> VObj m) -> walk_refs (RField k :: rest) v = Err.
Proof.
  intros k rest v H. destruct v; try reflexivity. exfalso. eapply H. reflexivity.
Qed.

Lemma walk_refs_index_eq : forall (i : Z) rest l,
  walk_refs (RIndex i :: rest) (VArr l) =
  (if ((if i <? 0 then i + Z.of_nat (length l) else i) <? 0)
      || (Z.of_nat (length l) <=? (if i <? 0 then i + Z.of_nat (length l) else i))
   then Err
   else match nth_error l (Z.to_nat (if i <? 0 then i + Z.of_nat (length l) else i)) with
        | Some v' => walk_refs rest v'
        | None => Err
        end)%Z.
Proof. reflexivity. Qed.
Lemma access_index : forall (i : Z) rest l,
  (0 <= i < Z.of_nat (length l))%Z ->
  walk_refs (RIndex i :: rest) (VArr l) = match nth_error l (Z.to_nat i) with Some v => walk_refs rest v | None => Err end.
Proof.
  intros i rest l H. rewrite walk_refs_index_eq.
  assert (E1 : (i <? 0)%Z = false) by (apply Z.ltb_ge; lia). rewrite E1. cbv iota. rewrite E1.
  assert (E2 : (Z.of_nat (length l) <=? i)%Z = false) by (apply Z.leb_gt; lia). rewrite E2.
  reflexivity.
Qed.
Lemma access_index_negative : forall (i : Z) rest l,
  (- Z.of_nat (length l) <= i < 0)%Z ->
  walk_refs (RIndex i :: rest) (VArr l) =
  match nth_error l (Z.to_nat (Z.of_nat (length l) + i)) with Some v => walk_refs rest v | None => Err end.
Proof.
  intros i rest l H. rewrite walk_refs_index_eq.
  assert (E0 : (i <? 0)%Z = true) by (apply Z.ltb_lt; lia). rewrite E0. cbv iota.
  assert (E1 : (i + Z.of_nat (length l) <? 0)%Z = false) by (apply Z.ltb_ge; lia). rewrite E1.
  assert (E2 : (Z.of_nat (length l) <=? i + Z.of_nat (length l))%Z = false) by (apply Z.leb_gt; lia).
  rewrite E2. rewrite (Z.add_comm i). reflexivity.
Qed.
Lemma access_index_out_of_range : forall (i : Z) rest l,
  (i < - Z.of_nat (length l) \/ Z.of_nat (length l) <= i)%Z -> walk_refs (RIndex i :: rest) (VArr l) = Err.
Proof.
  intros i rest l H. rewrite walk_refs_index_eq.
  pose proof (Zle_0_nat (length l)) as Hlen.
  destruct H as [H|H].
  - assert (E0 : (i <? 0)%Z = true) by (apply Z.ltb_lt; lia). rewrite E0. cbv iota.
    assert (E1 : (i + Z.of_nat (length l) <? 0)%Z = true) by (apply Z.ltb_lt; lia). rewrite E1.
    reflexivity.
  - assert (E0 : (i <? 0)%Z = false) by (apply Z.ltb_ge; lia). rewrite E0. cbv iota. rewrite E0.
    assert (E2 : (Z.of_nat (length l) <=? i)%Z = true) by (apply Z.leb_le; lia). rewrite E2.
    reflexivity.
Qed.

(** *** logfmt *)
(** the pair without key and without value: what the parser returns for text holding no pair at all *)
Definition lf_empty_pair (kv : str * option str) : bool :=
  match fst kv, snd kv with [], None => true | _, _ => false end.

Lemma lf_empty_pair_iff : forall kv, lf_empty_pair kv = true <-> kv = ([], None).
Proof.
  intros [k v]. unfold lf_empty_pair. cbn [fst snd]. split.
  - destruct k; [|discriminate]. destruct v; [discriminate|reflexivity].
  - intros H. injection H as -> ->. reflexivity.
Qed.

(** every pair other than the empty one becomes a field; the empty pair is not stored (fix d4c6bb8) *)
Lemma logfmt_op_fields : forall from r inp,
  get_input r from = Ok inp ->
  logfmt_op from r =
  Ok (Some (fold_left (fun acc kv => match snd kv with
                                     | None => rput (fst kv) VNone acc
                                     | Some v => rput (fst kv) (from_string v) acc
                                     end)
                      (List.filter (fun kv => negb (lf_empty_pair kv)) (logfmt_parse (trim_end inp))) r)).
Proof.
  intros from r inp Hi. unfold logfmt_op. rewrite Hi. reflexivity.
Qed.

(** text without any pair (e.g. an empty line) leaves the row as it is *)
Lemma logfmt_op_no_pair : forall from r inp,
  get_input r from = Ok inp -> logfmt_parse (trim_end inp) = [([], None)] ->
  logfmt_op from r = Ok (Some r).
Proof.
  intros from r inp Hi Hp. rewrite (logfmt_op_fields from r inp Hi), Hp. reflexivity.
Qed.

(** *** text output *)
Lemma logfmt_row_single : forall k v s, render v = Ok s -> logfmt_row [(k, v)] = Ok (k ++ 61%N :: s).
Proof.
  intros k v s H. cbn [logfmt_row]. rewrite H. reflexivity.
Qed.
Lemma logfmt_row_cons : forall k v s d rest, d <> [] -> render v = Ok s -> logfmt_row d = Ok rest ->
  logfmt_row ((k, v) :: d) = Ok (k ++ 61%N :: s ++ 32%N :: rest).
Proof.
  intros k v s d rest Hd Hr Hrow.
  destruct d as [|kv d]; [contradiction|].
  change (logfmt_row ((k, v) :: kv :: d))
    with (bind (render v) (fun s0 => bind (logfmt_row (kv :: d))
                                       (fun rest0 => Ok (k ++ 61%N :: s0 ++ 32%N :: rest0)))).
  rewrite Hr. cbn [bind]. rewrite Hrow. reflexivity.
Qed.

Lemma fmt_parse_fuel_plain : forall s fuel cur, (length s < fuel)%nat ->
  forallb (fun c => negb ((c =? 123)%N || (c =? 125)%N)) s = true ->
  fmt_parse_fuel fuel s cur =
  Some (match rev s ++ cur with [] => [] | _ :: _ => [FLit (rev (rev s ++ cur))] end).
Proof.
  induction s as [|c s IH]; intros fuel cur Hlen Hnb.
  - destruct fuel as [|f]; [inversion Hlen|]. reflexivity.
  - destruct fuel as [|f]; [inversion Hlen|].
    cbn [forallb] in Hnb. apply andb_true_iff in Hnb. destruct Hnb as [Hc Hnb].
    apply negb_true_iff in Hc. apply orb_false_iff in Hc. destruct Hc as [Hc1 Hc2].
    cbn [fmt_parse_fuel]. rewrite Hc1, Hc2.
    rewrite IH; [|cbn [length] in Hlen; lia | exact Hnb].
    cbn [rev]. rewrite <- app_assoc. reflexivity.
Qed.

(** a template without braces is one literal piece, copied unchanged *)
Lemma fmt_parse_plain : forall s, s <> [] -> forallb (fun c => negb ((c =? 123)%N || (c =? 125)%N)) s = true ->
  fmt_parse s = Some [FLit s].
Proof.
  intros s Hne Hnb. unfold fmt_parse.
  rewrite fmt_parse_fuel_plain by (auto with arith).
  rewrite app_nil_r. destruct (rev s) as [|x l] eqn:E.
  - exfalso. apply Hne. rewrite <- (rev_involutive s), E. reflexivity.
  - rewrite <- E, rev_involutive. reflexivity.
Qed.
Lemma fmt_subst_lit : forall s r d, fmt_subst (FLit s :: r) d = bind (fmt_subst r d) (fun rest => Ok (s ++ rest)).
Proof. reflexivity. Qed.
Lemma fmt_subst_field : forall n r d,
  fmt_subst (FField n :: r) d =
  bind (render (match get n d with Some v => v | None => VNone end)) (fun s => bind (fmt_subst r d) (fun rest => Ok (s ++ rest))).
Proof. reflexivity. Qed.
(** an unbalanced brace or an empty field name is rejected when the template is built *)
(* STATEMENT FALSE: the original
     Lemma fmt_parse_rejects_open : forall s, fmt_parse (s ++ [123%N]) = None.
   fails for s = [123%N]: the template "{{" is the escape for a literal brace,
   fmt_parse ([123%N] ++ [123%N]) = Some [FLit [123%N]]   (by vm_compute);
   likewise s = [97%N; 123%N] gives Some [FLit [97%N; 123%N]].
   Missing hypothesis: the prefix [s] must itself be a well-formed template
   (fmt_parse s <> None), i.e. it must not end in an unmatched open brace that
   the appended brace would turn into the escape "{{".  The variant below is
   proved under exactly that hypothesis; the brace-free prefix is a corollary. *)
Lemma take_until_brace_app : forall r acc name r' x,
  take_until_brace r acc = Some (name, r') ->
  take_until_brace (r ++ x) acc = Some (name, r' ++ x).
Proof.
  induction r as [|c r IH]; intros acc name r' x H; cbn [take_until_brace] in H; [discriminate|].
  cbn [app take_until_brace].
  destruct (c =? 125)%N.
  - injection H as <- <-. reflexivity.
  - destruct (c =? 123)%N; [discriminate|]. apply IH. exact H.
Qed.

Lemma fmt_parse_fuel_open : forall fuel s cur ps,
  fmt_parse_fuel fuel s cur = Some ps ->
  forall fuel', fmt_parse_fuel fuel' (s ++ [123%N]) cur = None.
Proof.
  induction fuel as [|f IH]; intros s cur ps H fuel'; [discriminate|].
  destruct fuel' as [|f']; [reflexivity|].
  destruct s as [|c r].
  - reflexivity.
  - cbn [fmt_parse_fuel] in H.
    change ((c :: r) ++ [123%N]) with (c :: (r ++ [123%N])).
    cbn [fmt_parse_fuel].
    destruct (c =? 123)%N.
    + destruct r as [|c2 r2]; [discriminate|].
      change (head_is 123%N ((c2 :: r2) ++ [123%N])) with (head_is 123%N (c2 :: r2)).
      destruct (head_is 123%N (c2 :: r2)).
      * change (tl ((c2 :: r2) ++ [123%N])) with (tl (c2 :: r2) ++ [123%N]).
        eapply IH. exact H.
      * destruct (take_until_brace (c2 :: r2) []) as [[name r']|] eqn:ET; [|discriminate].
        rewrite (take_until_brace_app _ _ _ _ [123%N] ET).
        destruct (existsb (fun x => (x =? 58)%N) name || is_nil name); [reflexivity|].
        destruct (fmt_parse_fuel f r' []) as [ps'|] eqn:EP; [|discriminate].
        rewrite (IH _ _ _ EP f'). reflexivity.
    + destruct (c =? 125)%N.
      * destruct r as [|c2 r2]; [discriminate|].
        change (head_is 125%N ((c2 :: r2) ++ [123%N])) with (head_is 125%N (c2 :: r2)).
        destruct (head_is 125%N (c2 :: r2)); [|discriminate].
        change (tl ((c2 :: r2) ++ [123%N])) with (tl (c2 :: r2) ++ [123%N]).
        eapply IH. exact H.
      * eapply IH. exact H.
Qed.

Lemma fmt_parse_rejects_open_weak : forall s ps,
  fmt_parse s = Some ps -> fmt_parse (s ++ [123%N]) = None.
Proof.
  intros s ps H. unfold fmt_parse in *. eapply fmt_parse_fuel_open. exact H.
Qed.

Lemma fmt_parse_rejects_open_nobrace_weak : forall s,
  forallb (fun c => negb ((c =? 123)%N || (c =? 125)%N)) s = true ->
  fmt_parse (s ++ [123%N]) = None.
Proof.
  intros s H. destruct s as [|c r] eqn:E.
  - reflexivity.
  - eapply fmt_parse_rejects_open_weak. apply fmt_parse_plain; [discriminate | exact H].
Qed.

Lemma fmt_parse_rejects_empty_field : fmt_parse [123%N; 125%N] = None.
Proof. reflexivity. Qed.

Print Assumptions run_pipeline_filter.
Print Assumptions parse_match_binds.
Print Assumptions json_object_members.
Print Assumptions parse_no_match_nodrop.
Print Assumptions fmt_parse_rejects_open_weak.
