(** Floating-point sums (the [sum] and [avg] accumulators add doubles in arrival
    order): the computed total differs from the exact real sum by at most the
    classical recursive-summation bound, hence two arrival orders of the same
    rows differ by at most twice that bound.  This is the precise meaning of
    "up to floating-point tolerance" in C14 for float sums. *)
From Coq Require Import List ZArith Reals Bool Lia Lra Permutation Floats.SpecFloat.
From Flocq Require Import Core BinarySingleNaN Relative Plus_error.
From AG Require Import Str F64 F64_exact_proofs Value Json Expr Ops Pipeline Agg_proofs.
Import ListNotations.
Open Scope R_scope.

Definition fR (x : f64) : R := SF2R radix2 x.
Definition u64 : R := bpow radix2 (-53).

Fixpoint sumR (l : list f64) : R := match l with [] => 0 | x :: r => fR x + sumR r end.
Fixpoint sum_absR (l : list f64) : R := match l with [] => 0 | x :: r => Rabs (fR x) + sum_absR r end.

Definition fsum_from (acc : f64) (l : list f64) : f64 := fold_left fadd l acc.
Definition fsum (l : list f64) : f64 := fsum_from f_zero l.

(** well-formed doubles *)
Definition wf (x : f64) : Prop := valid_binary prec emax x = true.

(** no NaN/infinite input and no overflow on the way *)
Fixpoint no_overflow (acc : f64) (l : list f64) : Prop :=
  match l with
  | [] => True
  | x :: r => f_is_finite x = true /\ f_is_finite (fadd acc x) = true /\ no_overflow (fadd acc x) r
  end.

Local Existing Instance Hprec.
Local Existing Instance Hmax.
Notation emin64 := (SpecFloat.emin prec emax).
Notation fexpF := (FLT_exp emin64 prec).

(** the rounding error of the sum of two FLT numbers is relative, even when the sum is tiny *)
Lemma round_plus_rel (x y : R) :
  generic_format radix2 fexpF x -> generic_format radix2 fexpF y ->
  Rabs (round radix2 fexpF (Znearest (fun z => negb (Z.even z))) (x + y) - (x + y)) <= u64 * Rabs (x + y).
Proof.
intros Fx Fy.
destruct (Rle_or_lt (Rabs (x + y)) (bpow radix2 (prec + emin64))) as [Hs|Hl].
- rewrite round_generic.
  + replace (x + y - (x + y)) with 0 by ring. rewrite Rabs_R0.
    apply Rmult_le_pos; [apply bpow_ge_0 | apply Rabs_pos].
  + apply valid_rnd_N.
  + apply (FLT_format_plus_small radix2 emin64 prec (prec_gt_0_ := Hprec)); assumption.
- replace u64 with (/2 * bpow radix2 (- prec + 1)).
  + apply (relative_error_N_FLT radix2 emin64 prec Hprec).
    apply Rlt_le. apply Rle_lt_trans with (2 := Hl).
    apply bpow_le. lia.
  + unfold u64. change (- prec + 1)%Z with (-53 + 1)%Z.
    rewrite bpow_plus. change (bpow radix2 1) with 2. field.
Qed.

(** one addition: relative error at most 2^-53, including subnormal results (where addition is exact) *)
Lemma fadd_error (a b : f64) :
  wf a -> wf b -> f_is_finite a = true -> f_is_finite b = true -> f_is_finite (fadd a b) = true ->
  wf (fadd a b) /\ Rabs (fR (fadd a b) - (fR a + fR b)) <= u64 * Rabs (fR a + fR b).
Proof.
intros Wa Wb Fa Fb Fab. unfold wf in *.
assert (Ea : a = B2SF (SF2B a Wa)) by (symmetry; apply B2SF_SF2B).
assert (Eb : b = B2SF (SF2B b Wb)) by (symmetry; apply B2SF_SF2B).
set (x := SF2B a Wa) in *. set (y := SF2B b Wb) in *.
assert (Fx : is_finite x = true).
{ unfold x. rewrite is_finite_SF2B. destruct a; try discriminate Fa; reflexivity. }
assert (Fy : is_finite y = true).
{ unfold y. rewrite is_finite_SF2B. destruct b; try discriminate Fb; reflexivity. }
assert (Es : fadd a b = B2SF (Bplus mode_NE x y)).
{ unfold fadd. rewrite Ea, Eb at 1. apply SFadd_B2SF. }
split.
- rewrite Es. apply valid_binary_B2SF.
- unfold fR. rewrite Es, SF2R_B2SF.
  rewrite Ea, Eb at 1. rewrite !SF2R_B2SF.
  rewrite Ea, Eb at 1. rewrite !SF2R_B2SF.
  generalize (Bplus_correct prec emax Hprec Hmax mode_NE x y Fx Fy).
  destruct (Rlt_bool _ _).
  + intros (H1 & _ & _). rewrite H1. cbn [round_mode].
    apply round_plus_rel; apply generic_format_B2R.
  + intros (H1 & _). rewrite Es, H1 in Fab. discriminate Fab.
Qed.

Lemma u64_pos : 0 < u64.
Proof. apply bpow_gt_0. Qed.

Lemma pow1u_ge_1 (k : nat) : 1 <= (1 + u64) ^ k.
Proof. apply pow_R1_Rle. generalize u64_pos. lra. Qed.

(** one step of the recursive-summation induction, on reals *)
Lemma step_real (u c s p q A T : R) :
  0 <= u -> 0 <= c ->
  Rabs (s - (p + q)) <= u * Rabs (p + q) ->
  Rabs A <= T -> Rabs (p - A) <= c * T ->
  Rabs (A + q) <= T + Rabs q /\
  Rabs (s - (A + q)) <= ((1 + u) * (1 + c) - 1) * (T + Rabs q).
Proof.
intros Hu Hc H1 HA H2.
assert (HT : 0 <= T) by (apply Rle_trans with (2 := HA); apply Rabs_pos).
assert (HQ := Rabs_pos q).
assert (HN : Rabs (p + q) <= Rabs (p - A) + Rabs A + Rabs q).
{ replace (p + q) with ((p - A) + A + q) at 1 by ring.
  eapply Rle_trans; [apply Rabs_triang|]. apply Rplus_le_compat_r. apply Rabs_triang. }
assert (HG : Rabs (s - (A + q)) <= Rabs (s - (p + q)) + Rabs (p - A)).
{ replace (s - (A + q)) with ((s - (p + q)) + (p - A)) by ring. apply Rabs_triang. }
split.
- eapply Rle_trans; [apply Rabs_triang|]. lra.
- set (E1 := Rabs (s - (p + q))) in *. set (E2 := Rabs (p - A)) in *.
  set (N := Rabs (p + q)) in *. set (Q := Rabs q) in *. set (G := Rabs (s - (A + q))) in *.
  set (B := Rabs A) in *.
  assert (HN2 : N <= c * T + T + Q) by lra.
  assert (HuN : u * N <= u * (c * T + T + Q)) by (apply Rmult_le_compat_l; assumption).
  assert (HcQ : 0 <= c * Q) by (apply Rmult_le_pos; assumption).
  assert (HucQ : 0 <= u * (c * Q)) by (apply Rmult_le_pos; assumption).
  apply Rle_trans with (E1 + E2); [assumption|].
  apply Rle_trans with (u * (c * T + T + Q) + c * T); [lra|].
  replace (((1 + u) * (1 + c) - 1) * (T + Q))
    with (u * (c * T + T + Q) + c * T + (c * Q + u * (c * Q))) by ring.
  lra.
Qed.

Lemma fsum_from_error (l : list f64) : forall (acc : f64) (A T : R) (k : nat),
  wf acc -> f_is_finite acc = true -> Forall wf l -> no_overflow acc l ->
  Rabs A <= T -> Rabs (fR acc - A) <= ((1 + u64) ^ k - 1) * T ->
  Rabs (fR (fsum_from acc l) - (A + sumR l)) <= ((1 + u64) ^ (k + length l) - 1) * (T + sum_absR l).
Proof.
induction l as [|x r IH]; intros acc A T k Wacc Facc Wl Hno HA HE.
- cbn [fsum_from fold_left sumR sum_absR length]. rewrite Nat.add_0_r, !Rplus_0_r. exact HE.
- cbn [fsum_from fold_left sumR sum_absR length].
  destruct Hno as (Fx & Fs & Hno).
  inversion Wl as [|x' r' Wx Wr]; subst x' r'.
  destruct (fadd_error acc x Wacc Wx Facc Fx Fs) as (Ws & Herr).
  assert (Hc : 0 <= (1 + u64) ^ k - 1) by (generalize (pow1u_ge_1 k); lra).
  destruct (step_real u64 ((1 + u64) ^ k - 1) (fR (fadd acc x)) (fR acc) (fR x) A T
              (Rlt_le _ _ u64_pos) Hc Herr HA HE) as (HA' & HE').
  replace ((1 + u64) * (1 + ((1 + u64) ^ k - 1)) - 1) with ((1 + u64) ^ (S k) - 1) in HE'
    by (cbn [pow]; ring).
  generalize (IH (fadd acc x) (A + fR x) (T + Rabs (fR x)) (S k) Ws Fs Wr Hno HA' HE').
  unfold fsum_from. rewrite Nat.add_succ_r. cbn [Nat.add].
  replace (A + fR x + sumR r) with (A + (fR x + sumR r)) by ring.
  replace (T + Rabs (fR x) + sum_absR r) with (T + (Rabs (fR x) + sum_absR r)) by ring.
  trivial.
Qed.

(** recursive summation *)
Theorem fsum_error (l : list f64) :
  Forall wf l -> no_overflow f_zero l ->
  Rabs (fR (fsum l) - sumR l) <= ((1 + u64) ^ length l - 1) * sum_absR l.
Proof.
intros Wl Hno.
generalize (fsum_from_error l f_zero 0 0 0%nat).
cbn [Nat.add]. rewrite !Rplus_0_l. intros H. apply H; try assumption.
- reflexivity.
- reflexivity.
- rewrite Rabs_R0. lra.
- unfold fR. cbn [f_zero SF2R]. replace (0 - 0) with 0 by ring. rewrite Rabs_R0. cbn [pow]. lra.
Qed.

Lemma sumR_perm l l' : Permutation l l' -> sumR l = sumR l'.
Proof.
induction 1 as [|x l l' HP IH|x y l|l l' l'' HP1 IH1 HP2 IH2]; cbn [sumR]; lra.
Qed.
Lemma sum_absR_perm l l' : Permutation l l' -> sum_absR l = sum_absR l'.
Proof.
induction 1 as [|x l l' HP IH|x y l|l l' l'' HP1 IH1 HP2 IH2]; cbn [sum_absR]; lra.
Qed.

(** two arrival orders of the same values *)
Theorem fsum_perm_error (l l' : list f64) :
  Permutation l l' -> Forall wf l -> no_overflow f_zero l -> no_overflow f_zero l' ->
  Rabs (fR (fsum l) - fR (fsum l')) <= 2 * ((1 + u64) ^ length l - 1) * sum_absR l.
Proof.
intros HP Wl Hno Hno'.
assert (Wl' : Forall wf l').
{ apply Forall_forall. intros x Hx. apply (proj1 (Forall_forall wf l) Wl).
  apply Permutation_in with (1 := Permutation_sym HP). exact Hx. }
generalize (fsum_error l Wl Hno) (fsum_error l' Wl' Hno').
rewrite <- (Permutation_length HP), <- (sumR_perm l l' HP), <- (sum_absR_perm l l' HP).
intros H1 H2.
replace (fR (fsum l) - fR (fsum l')) with ((fR (fsum l) - sumR l) + - (fR (fsum l') - sumR l)) by ring.
eapply Rle_trans; [apply Rabs_triang|]. rewrite Rabs_Ropp. lra.
Qed.

Lemma pow_bound_gen (u : R) (n : nat) : 0 <= u -> INR n * u <= / 2 ->
  forall k : nat, (k <= n)%nat -> (1 + u) ^ k <= 1 + 2 * INR k * u.
Proof.
intros Hu Hn. induction k as [|k IH]; intros Hk.
- cbn [pow INR]. lra.
- assert (Hk' : (k <= n)%nat) by lia. specialize (IH Hk').
  assert (Hku : INR k * u <= / 2).
  { apply Rle_trans with (2 := Hn). apply Rmult_le_compat_r; [exact Hu|]. apply le_INR. exact Hk'. }
  rewrite S_INR. cbn [pow].
  apply Rle_trans with ((1 + u) * (1 + 2 * INR k * u)).
  + apply Rmult_le_compat_l; [lra | exact IH].
  + assert (H2 : u * (INR k * u) <= u * / 2) by (apply Rmult_le_compat_l; assumption).
    replace ((1 + u) * (1 + 2 * INR k * u)) with (1 + 2 * INR k * u + u + 2 * (u * (INR k * u))) by ring.
    lra.
Qed.

(** the bound used by the check (2(n+1) 2^-52 sum|x|) dominates it for every realistic n *)
Lemma bound_simple (n : nat) : (INR n * u64 <= / 2) -> (1 + u64) ^ n - 1 <= 2 * INR n * u64.
Proof.
intros Hn.
generalize (pow_bound_gen u64 n (Rlt_le _ _ u64_pos) Hn n (le_n n)). lra.
Qed.

(** the accumulator's cell is this sum *)
Lemma sum_cell_is_fsum e rows :
  acc_emit (fold_left acc_step rows (acc_empty (FSum e))) = Ok (from_float (fsum (numeric_args e rows))).
Proof.
cbn [acc_empty]. rewrite sum_fold. reflexivity.
Qed.

(** non-vacuity: 0.1 + 0.2 + 0.3 in two orders differ by one ulp, within the bound *)
Example orders_differ :
  let a := f_of_dec false 1 (-1) in let b := f_of_dec false 2 (-1) in let c := f_of_dec false 3 (-1) in
  fsum [a; b; c] <> fsum [c; b; a] /\ no_overflow f_zero [a; b; c] /\ no_overflow f_zero [c; b; a].
Proof. vm_compute. repeat split; discriminate. Qed.

Print Assumptions fsum_perm_error.
Print Assumptions fadd_error.
Print Assumptions bound_simple.
Print Assumptions sum_cell_is_fsum.
