(** The live view converges from ANY starting point of the terminal: arbitrary
    earlier content above the cursor, the cursor on any row (blank rows from
    there down, as after a shell prompt), including the usual case where the
    cursor is near the bottom and the terminal SCROLLS while frames are drawn.
    The earlier content scrolls up by exactly what the tallest frame needed and
    is otherwise untouched; below it the screen shows exactly the final frame. *)
From Coq Require Import List ZArith NArith Bool Lia Arith.
From AG Require Import Str Term Term_proofs.
Import ListNotations.
Open Scope nat_scope.

(** [above]: the rows already on screen (each [w] cells); then [below] >= 1 blank rows, cursor on the first of them *)
Definition start_screen (w : nat) (above : list (list N)) (below : nat) : screen :=
  mkScr w (above ++ repeat (blank_row w) below) (length above) 0.

Definition tallest (frames : list (list str)) : nat := list_max (map (@length str) frames).

(** rows the terminal had to scroll: the tallest frame plus the cursor line must fit below [above] *)
Definition scrolled (h : nat) (above : list (list N)) (frames : list (list str)) : nat :=
  (length above + tallest frames + 1) - h.

(** *** helper lemmas: drawing and resetting anywhere on the screen, with scrolling *)
Lemma skipn_S_tl {A} n (L : list A) : skipn (S n) L = skipn n (tl L).
Proof. destruct L as [|x L]; [destruct n; reflexivity|reflexivity]. Qed.

Lemma skipn_skipn_add {A} : forall x y (l : list A), skipn x (skipn y l) = skipn (y + x) l.
Proof.
  intros x y. induction y as [|y IH]; intro l; [reflexivity|].
  destruct l as [|a l]; [destruct x; reflexivity|]. cbn [skipn Nat.add]. apply IH.
Qed.

Lemma tl_app_single {A} (X : list A) x M : tl (X ++ [x]) ++ M = tl (X ++ x :: M).
Proof. destruct X as [|y X]; [reflexivity|]. cbn [app tl]. rewrite <- app_assoc. reflexivity. Qed.

Lemma tl_app_single_length {A} (X : list A) x : length (tl (X ++ [x])) = length X.
Proof. destruct X as [|y X]; [reflexivity|]. cbn [app tl length]. rewrite app_length. cbn [length]. lia. Qed.

(** a line drawn on the bottom row: the line feed scrolls *)
Lemma draw_line_last w l X :
  length l <= w ->
  term_run (mkScr w (X ++ [blank_row w]) (length X) 0) (line_toks l)
  = mkScr w (tl (X ++ [pad w l]) ++ [blank_row w]) (length X) 0.
Proof.
  intros H. unfold line_toks. rewrite term_run_app.
  rewrite <- pad_nil at 1.
  change 0 with (length (@nil N)) at 1.
  rewrite draw_chars by (cbn [length]; lia). cbn [app].
  unfold term_run. cbn [fold_left term_step sc_w sc_c sc_r sc_rows].
  unfold line_feed. cbn [sc_w sc_c sc_r sc_rows]. unfold sc_h. cbn [sc_rows].
  rewrite app_length. cbn [length].
  match goal with |- context [Nat.ltb ?a ?b] => destruct (Nat.ltb_spec a b) as [Hlt|_]; [lia|] end.
  reflexivity.
Qed.

(** a frame of [length ls] lines drawn at row [length X], [S k] blank rows from there down:
    the top [length ls - k] rows scroll away *)
Lemma draw_frame_gen w : forall ls X k,
  Forall (good_line w) ls ->
  term_run (mkScr w (X ++ repeat (blank_row w) (S k)) (length X) 0) (frame_toks ls)
  = mkScr w (skipn (length ls - k) (X ++ map (pad w) ls) ++ repeat (blank_row w) (S (k - length ls)))
      (length X + length ls - (length ls - k)) 0.
Proof.
  induction ls as [|l ls IH]; intros X k HF.
  - cbn [map length frame_toks flat_map Nat.sub skipn]. rewrite app_nil_r, Nat.sub_0_r, Nat.add_0_r, Nat.sub_0_r.
    reflexivity.
  - inversion HF as [|? ? [Hl _] HF']; subst.
    unfold frame_toks. cbn [flat_map]. fold (frame_toks ls). rewrite term_run_app.
    destruct k as [|k].
    + cbn [repeat]. rewrite draw_line_last by exact Hl.
      rewrite <- (tl_app_single_length X (pad w l)) at 1.
      change [blank_row w] with (repeat (blank_row w) 1).
      rewrite IH by exact HF'.
      rewrite tl_app_single_length, tl_app_single.
      cbn [length map]. rewrite !Nat.sub_0_r. rewrite skipn_S_tl. cbn [Nat.sub].
      f_equal. lia.
    + change (repeat (blank_row w) (S (S k))) with (blank_row w :: repeat (blank_row w) (S k)).
      rewrite draw_line by exact Hl.
      rewrite IH by exact HF'.
      cbn [length map Nat.sub]. rewrite <- app_assoc. cbn [app].
      f_equal. rewrite app_length. cbn [length]. lia.
Qed.

(** the reset sequence below a prefix [P] of untouched rows *)
Lemma reset_run_gen w : forall n P X y k,
  length X = n ->
  term_run (mkScr w (P ++ X ++ y :: repeat (blank_row w) k) (length P + n) 0) (reset_toks n)
  = mkScr w (P ++ repeat (blank_row w) (n + S k)) (length P) 0.
Proof.
  induction n as [|n IH]; intros P X y k HX.
  - destruct X; [|discriminate]. cbn [app]. rewrite Nat.add_0_r.
    unfold reset_toks, term_run. cbn [repeat concat app fold_left term_step sc_w sc_c sc_r sc_rows].
    rewrite set_nth_middle. reflexivity.
  - destruct (exists_last (l:=X)) as [X' [x EX]]; [intro; subst; discriminate|]. subst X.
    rewrite app_length in HX. cbn [length] in HX.
    assert (HX' : length X' = n) by lia.
    unfold reset_toks. cbn [repeat concat app]. fold (reset_toks n).
    change (TEraseLine :: TCursorUp :: reset_toks n) with ([TEraseLine; TCursorUp] ++ reset_toks n).
    rewrite term_run_app.
    assert (E : term_run (mkScr w (P ++ (X' ++ [x]) ++ y :: repeat (blank_row w) k) (length P + S n) 0)
                  [TEraseLine; TCursorUp]
                = mkScr w (P ++ X' ++ x :: repeat (blank_row w) (S k)) (length P + n) 0).
    { unfold term_run. cbn [fold_left term_step sc_w sc_c sc_r sc_rows]. f_equal.
      - replace (P ++ (X' ++ [x]) ++ y :: repeat (blank_row w) k)
          with ((P ++ X' ++ [x]) ++ y :: repeat (blank_row w) k) by (rewrite <- !app_assoc; reflexivity).
        replace (length P + S n) with (length (P ++ X' ++ [x])) by (rewrite !app_length; cbn [length]; lia).
        rewrite set_nth_middle. rewrite <- !app_assoc. reflexivity.
      - lia. }
    rewrite E. rewrite IH by exact HX'. f_equal. f_equal. f_equal. lia.
Qed.

(** the invariant between frames: [s] rows of [above] have scrolled away, blank from the cursor down *)
Definition inv_scr (w : nat) (above : list (list N)) (h s : nat) : screen :=
  mkScr w (skipn s above ++ repeat (blank_row w) (h - (length above - s))) (length above - s) 0.

(** after drawing the frame [last] *)
Definition fin_scr (w : nat) (above : list (list N)) (h s : nat) (last : list str) : screen :=
  mkScr w (skipn s above ++ map (pad w) last ++ repeat (blank_row w) (h - (length above - s) - length last))
    (length above - s + length last) 0.

Lemma draw_inv w above h s f :
  s <= length above -> length above - s < h -> good_frame h w f ->
  term_run (inv_scr w above h s) (frame_toks f)
  = fin_scr w above h (Nat.max s (length above + length f + 1 - h)) f.
Proof.
  intros Hs Hh [Hn HF]. unfold inv_scr, fin_scr.
  replace (h - (length above - s)) with (S (h - (length above - s) - 1)) by lia.
  rewrite <- (skipn_length s above) at 2.
  rewrite draw_frame_gen by exact HF.
  rewrite skipn_app, !skipn_length, skipn_skipn_add.
  replace (length f - (h - (length above - s) - 1) - (length above - s)) with 0 by lia.
  cbn [skipn]. rewrite <- app_assoc.
  f_equal.
  - f_equal; [f_equal; lia|]. f_equal. f_equal. lia.
  - lia.
Qed.

Lemma step_inv w above h s f :
  s <= length above -> length above - s < h -> good_frame h w f ->
  term_run (inv_scr w above h s) (frame_toks f ++ reset_toks (length f))
  = inv_scr w above h (Nat.max s (length above + length f + 1 - h)).
Proof.
  intros Hs Hh Hg. rewrite term_run_app, draw_inv by assumption.
  destruct Hg as [Hn HF]. unfold inv_scr, fin_scr.
  set (s' := Nat.max s (length above + length f + 1 - h)).
  assert (Hs' : s' <= length above) by (subst s'; lia).
  assert (Hh' : s <= s') by (subst s'; lia).
  assert (Hf : length above + length f + 1 - h <= s') by (subst s'; lia).
  clearbody s'.
  replace (h - (length above - s') - length f) with (S (h - (length above - s') - length f - 1)) by lia.
  cbn [repeat].
  pose proof (reset_run_gen w (length f) (skipn s' above) (map (pad w) f) (blank_row w)
                (h - (length above - s') - length f - 1) (map_length _ _)) as E.
  rewrite skipn_length in E. etransitivity; [exact E|].
  f_equal. f_equal. f_equal. lia.
Qed.

Lemma frames_run_gen w above h : forall frames last s st rt,
  s <= length above -> length above - s < h ->
  term_run st rt = inv_scr w above h s ->
  Forall (good_frame h w) (frames ++ [last]) ->
  term_run st (rtoks rt (frames ++ [last]))
  = fin_scr w above h (Nat.max s (length above + tallest (frames ++ [last]) + 1 - h)) last.
Proof.
  induction frames as [|f frames IH]; intros last s st rt Hs Hh Hst HF.
  - inversion HF as [|? ? Hl _]; subst. cbn [app rtoks].
    rewrite app_nil_r, term_run_app, Hst, draw_inv by assumption.
    unfold tallest. cbn [map list_max fold_right]. rewrite Nat.max_0_r. reflexivity.
  - inversion HF as [|? ? Hf HF']; subst. cbn [app rtoks].
    rewrite app_assoc, term_run_app.
    change (tallest (f :: frames ++ [last])) with (Nat.max (length f) (tallest (frames ++ [last]))).
    assert (Hn : S (length f) <= h) by (destruct Hf; assumption).
    replace (Nat.max s (length above + Nat.max (length f) (tallest (frames ++ [last])) + 1 - h))
      with (Nat.max (Nat.max s (length above + length f + 1 - h))
                    (length above + tallest (frames ++ [last]) + 1 - h)) by lia.
    apply IH; [lia|lia| |exact HF'].
    rewrite term_run_app, Hst, <- term_run_app. apply step_inv; assumption.
Qed.

Theorem frames_converge_anywhere : forall w above below frames last,
  0 < w -> 0 < below -> Forall (fun r => length r = w) above ->
  let h := length above + below in
  Forall (good_frame h w) (frames ++ [last]) ->
  let bytes := onlcr (render_frames [] (map frame_text (frames ++ [last]))) in
  let sc := term_run (start_screen w above below) (lex bytes) in
  let s := scrolled h above (frames ++ [last]) in
  sc_rows sc = skipn s above ++ map (pad w) last ++ repeat (blank_row w) (h - (length above - s) - length last)
  /\ sc_r sc = length above - s + length last /\ sc_c sc = 0 /\ sc_w sc = w.
Proof.
  intros w above below frames last Hw Hb Ha h HF bytes sc s. subst sc bytes s.
  assert (HP : Forall (fun ls => Forall (Forall printable) ls) (frames ++ [last])).
  { eapply Forall_impl; [|exact HF]. intros ls Hg. eapply good_frame_printable; exact Hg. }
  rewrite (lexes_lex _ _ (lexes_render _ [] [] HP lexes_nil)).
  rewrite (frames_run_gen w above h frames last 0 (start_screen w above below) []).
  - cbn [Nat.max]. unfold scrolled, fin_scr. cbn [sc_rows sc_r sc_c sc_w].
    repeat split; reflexivity.
  - lia.
  - subst h. lia.
  - unfold start_screen, inv_scr, term_run. cbn [fold_left skipn]. subst h.
    f_equal; [f_equal; f_equal; lia|lia].
  - exact HF.
Qed.

Lemma map_trim_end_blanks w k : map trim_end (repeat (blank_row w) k) = repeat [] k.
Proof.
  induction k as [|k IH]; [reflexivity|]. cbn [repeat map].
  rewrite trim_end_blank, IH. reflexivity.
Qed.

(** corollary in terms of the visible text *)
Theorem frames_converge_anywhere_text : forall w above below frames last,
  0 < w -> 0 < below -> Forall (fun r => length r = w) above ->
  let h := length above + below in
  Forall (good_frame h w) (frames ++ [last]) ->
  let bytes := onlcr (render_frames [] (map frame_text (frames ++ [last]))) in
  let sc := term_run (start_screen w above below) (lex bytes) in
  let s := scrolled h above (frames ++ [last]) in
  screen_text sc = map trim_end (skipn s above) ++ map trim_end last ++ repeat [] (h - (length above - s) - length last).
Proof.
  intros w above below frames last Hw Hb Ha h HF bytes sc s.
  destruct (frames_converge_anywhere w above below frames last Hw Hb Ha HF) as [Hrows _].
  fold h in Hrows. fold bytes in Hrows. fold sc in Hrows. fold s in Hrows.
  unfold screen_text. rewrite Hrows. rewrite !map_app, map_map.
  f_equal. f_equal.
  - apply map_ext. intro l. apply trim_end_pad.
  - apply map_trim_end_blanks.
Qed.

(** the blank-screen theorem is the special case [above = []] *)
Theorem frames_converge_is_special_case : forall h w frames last,
  0 < w -> 0 < h -> Forall (good_frame h w) (frames ++ [last]) ->
  let bytes := onlcr (render_frames [] (map frame_text (frames ++ [last]))) in
  term_run (start_screen w [] h) (lex bytes) = term_run (blank_screen h w) (lex bytes).
Proof.
  intros h w frames last Hw Hh HF bytes. reflexivity.
Qed.

(** non-vacuity / sanity: three rows of earlier text, two free rows, frames of 1, 3 and 2 lines:
    the terminal scrolls by 2 *)
Example scroll_example :
  let w := 6 in
  let above := [lit "aaaaaa"; lit "bbbbbb"; lit "cccccc"] in
  let frames := [[lit "x"]; [lit "p"; lit "q"; lit "r"]] in
  let last := [lit "k  v"; lit "1  2"] in
  let sc := term_run (start_screen w above 2) (lex (onlcr (render_frames [] (map frame_text (frames ++ [last]))))) in
  (scrolled 5 above (frames ++ [last]) = 2) /\
  sc_rows sc = [lit "cccccc"; lit "k  v  "; lit "1  2  "; lit "      "; lit "      "] /\ sc_r sc = 3 /\ sc_c sc = 0.
Proof. vm_compute. repeat split; reflexivity. Qed.

Print Assumptions frames_converge_anywhere.
