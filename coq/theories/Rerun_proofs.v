(** The aggregate operators are re-entrant: processing the same upstream table again gives the same result. *)
From Coq Require Import List ZArith NArith Bool Lia.
From AG Require Import Str F64 Value Json Expr Ops Pipeline.
Import ListNotations.

Lemma g_fold_keys rows : forall g, g_keys (fold_left g_process_map rows g) = g_keys g.
Proof. induction rows as [|d rows IH]; intros g; cbn; [reflexivity|]. now rewrite IH. Qed.

Lemma g_fold_fns rows : forall g, g_fns (fold_left g_process_map rows g) = g_fns g.
Proof. induction rows as [|d rows IH]; intros g; cbn; [reflexivity|]. now rewrite IH. Qed.

Lemma any_unm_row_keys g g' d :
  g_keys g = g_keys g' -> g_fns g = g_fns g' -> any_unm_row (AGroup g) d = any_unm_row (AGroup g') d.
Proof. intros Hk Hf. cbn. now rewrite Hk, Hf. Qed.

Lemma existsb_any_unm g g' rows :
  g_keys g = g_keys g' -> g_fns g = g_fns g' ->
  existsb (any_unm_row (AGroup g)) rows = existsb (any_unm_row (AGroup g')) rows.
Proof.
  intros Hk Hf. induction rows as [|d rows IH]; [reflexivity|].
  cbn [existsb]. rewrite IH. f_equal. now apply any_unm_row_keys.
Qed.

Theorem frames_do_not_accumulate a t a1 a2 :
  agg_process_table a t = Ok a1 -> agg_process_table a1 t = Ok a2 -> agg_emit a2 = agg_emit a1.
Proof.
  intros H1 H2. destruct a as [g|s|st old]; cbn [agg_process_table] in H1.
  - destruct (existsb (any_unm_row (AGroup g)) (t_rows t)) eqn:E; [discriminate|]. injection H1 as <-.
    cbn [agg_process_table] in H2.
    set (g1 := fold_left g_process_map (t_rows t) (mkG (g_keys g) (g_fns g) [])) in *.
    assert (Hk : g_keys g1 = g_keys g) by (subst g1; now rewrite g_fold_keys).
    assert (Hf : g_fns g1 = g_fns g) by (subst g1; now rewrite g_fold_fns).
    assert (E' : existsb (any_unm_row (AGroup g1)) (t_rows t) = false).
    { rewrite <- E. now apply existsb_any_unm. }
    rewrite E' in H2. injection H2 as <-. rewrite Hk, Hf. reflexivity.
  - injection H1 as <-. cbn in H2. injection H2 as <-. reflexivity.
  - destruct (adapter_process st t) as [t'| | |] eqn:E; cbn [bind] in H1; try discriminate. injection H1 as <-.
    cbn [agg_process_table] in H2. rewrite E in H2. cbn [bind] in H2. injection H2 as <-. reflexivity.
Qed.
