(** The streaming execution of the pre-aggregate operators (per-line
    [proc_preagg] + the drain loop of Pipeline::process) equals applying each
    operator to the complete output of the previous one. *)
From Coq Require Import List ZArith Bool Lia Arith.
From AG Require Import Str F64 Value Json Expr Ops Pipeline.
Import ListNotations.

Lemma bad_or_assoc a b c : bad_or (bad_or a b) c = bad_or a (bad_or b c).
Proof. destruct a, b, c; unfold bad_or; cbn; now rewrite !orb_assoc. Qed.
Lemma bad_or_comm a b : bad_or a b = bad_or b a.
Proof. destruct a, b; unfold bad_or; cbn; f_equal; apply orb_comm. Qed.
Lemma bad_or_no_l a : bad_or no_bad a = a.
Proof. now destruct a. Qed.
Lemma bad_or_no_r a : bad_or a no_bad = a.
Proof. destruct a; unfold bad_or; cbn; now rewrite !orb_false_r. Qed.

(** [feed] keeps the number of operators *)
Lemma proc_preagg_length ops : forall r,
  length (fst (fst (proc_preagg ops r))) = length ops.
Proof.
  induction ops as [|o ops IH]; intros r; cbn; [reflexivity|].
  destruct (op_step o r) as [o' out].
  destruct out as [[r'|]| | |]; cbn; try reflexivity.
  specialize (IH r'). destruct (proc_preagg ops r') as [[rest' res] n]. cbn in *. now rewrite IH.
Qed.

Lemma feed_ops_length st r : length (p_ops (feed st r)) = length (p_ops st).
Proof.
  unfold feed. pose proof (proc_preagg_length (p_ops st) r) as H.
  destruct (proc_preagg (p_ops st) r) as [[ops' res] n]. cbn in H.
  destruct res as [[r'|]| | |]; cbn; exact H.
Qed.

Lemma feed_all_ops_length recs : forall st,
  length (p_ops (fold_left feed recs st)) = length (p_ops st).
Proof.
  induction recs as [|r recs IH]; intros st; cbn; [reflexivity|].
  now rewrite IH, feed_ops_length.
Qed.

(** adding to the error counter / the flags commutes with everything *)
Definition shift (n : nat) (b : bad) (st : pstate) : pstate :=
  mkP (p_ops st) (p_sent st) (p_err st + n) (bad_or (p_bad st) b).

Lemma shift_shift n1 b1 n2 b2 st :
  shift n1 b1 (shift n2 b2 st) = shift (n2 + n1) (bad_or b2 b1) st.
Proof. unfold shift; cbn. f_equal; [lia | apply bad_or_assoc]. Qed.

Lemma shift_0 st : shift 0 no_bad st = st.
Proof. destruct st; unfold shift; cbn. now rewrite Nat.add_0_r, bad_or_no_r. Qed.

Lemma feed_shift n0 b0 st x : feed (shift n0 b0 st) x = shift n0 b0 (feed st x).
Proof.
  destruct st as [ops sent e b]. unfold shift, feed; cbn [p_ops p_sent p_err p_bad].
  destruct (proc_preagg ops x) as [[ops' res] k].
  destruct res as [[r'|]| | |]; cbn [p_ops p_sent p_err p_bad]; f_equal; try lia;
    rewrite !bad_or_assoc; f_equal; apply bad_or_comm.
Qed.

Lemma feed_all_shift l : forall n0 b0 st,
  fold_left feed l (shift n0 b0 st) = shift n0 b0 (fold_left feed l st).
Proof.
  induction l as [|x l IH]; intros; cbn [fold_left]; [reflexivity|].
  now rewrite feed_shift, IH.
Qed.

Definition push_op (o : opstate) (st : pstate) : pstate :=
  mkP (o :: p_ops st) (p_sent st) (p_err st) (p_bad st).

(** feeding a record to [o :: rest] = stepping [o], then feeding its output to [rest] *)
Lemma feed_push o st r :
  feed (push_op o st) r =
  match op_step o r with
  | (o', Ok (Some r')) => push_op o' (feed st r')
  | (o', Ok None) => push_op o' st
  | (o', Err) => push_op o' (shift 1 no_bad st)
  | (o', Panic) => push_op o' (shift 0 (mkBad true false) st)
  | (o', Unm) => push_op o' (shift 0 (mkBad false true) st)
  end.
Proof.
  destruct st as [rest sent e b].
  unfold push_op, feed at 1; cbn [p_ops p_sent p_err p_bad proc_preagg].
  destruct (op_step o r) as [o' out].
  destruct out as [[r'|]| | |]; unfold shift; cbn [p_ops p_sent p_err p_bad].
  - unfold feed; cbn [p_ops p_sent p_err p_bad].
    destruct (proc_preagg rest r') as [[rest' res] n].
    destruct res as [[r''|]| | |]; cbn [p_ops p_sent p_err p_bad]; reflexivity.
  - now rewrite Nat.add_0_r.
  - now rewrite bad_or_no_r.
  - now rewrite Nat.add_0_r.
  - now rewrite Nat.add_0_r.
Qed.

Lemma push_shift o n b st : push_op o (shift n b st) = shift n b (push_op o st).
Proof. reflexivity. Qed.

(** the streaming state after a batch of records, in terms of [op_run] *)
Lemma stream_split recs : forall o st,
  fold_left feed recs (push_op o st) =
  let '(o', outs, n, bo) := op_run o recs in
  push_op o' (shift n bo (fold_left feed outs st)).
Proof.
  induction recs as [|r recs IH]; intros o st.
  - cbn. now rewrite shift_0.
  - cbn [fold_left op_run]. rewrite feed_push.
    destruct (op_step o r) as [o1 out].
    pose proof (IH o1) as IH1.
    destruct (op_run o1 recs) as [[[o2 outs] n] bo].
    destruct out as [[r'|]| | |]; rewrite IH1; cbn [fold_left].
    + reflexivity.
    + reflexivity.
    + rewrite feed_all_shift, shift_shift, bad_or_no_l. reflexivity.
    + rewrite feed_all_shift, shift_shift. cbn. reflexivity.
    + rewrite feed_all_shift, shift_shift. cbn. reflexivity.
Qed.

Lemma drain_loop_shift fuel : forall n0 b0 st,
  drain_loop fuel (shift n0 b0 st) = shift n0 b0 (drain_loop fuel st).
Proof.
  induction fuel as [|f IH]; intros; [reflexivity|].
  destruct st as [ops sent e b]. destruct ops as [|o rest]; [reflexivity|].
  change (shift n0 b0 (mkP (o :: rest) sent e b)) with (mkP (o :: rest) sent (e + n0) (bad_or b b0)).
  cbn [drain_loop p_ops p_sent p_err p_bad].
  change (mkP rest sent (e + n0) (bad_or b b0)) with (shift n0 b0 (mkP rest sent e b)).
  rewrite feed_all_shift. apply IH.
Qed.

Lemma drain_loop_push f o st :
  drain_loop (S f) (push_op o st) = drain_loop f (fold_left feed (op_drain o) st).
Proof. destruct st; reflexivity. Qed.

(** ** streaming = staging, one operator at a time *)
Theorem preagg_staged o ops recs :
  let '(o', outs, n, bo) := op_run o recs in
  run_preagg (o :: ops) recs = shift n bo (run_preagg ops (outs ++ op_drain o')).
Proof.
  unfold run_preagg.
  change (mkP (o :: ops) [] 0 no_bad) with (push_op o (mkP ops [] 0 no_bad)).
  rewrite stream_split.
  destruct (op_run o recs) as [[[o' outs] n] bo].
  cbn [length]. rewrite drain_loop_push, feed_all_shift, drain_loop_shift, fold_left_app.
  reflexivity.
Qed.

(** no operator left: everything fed is sent, in order *)
Lemma run_preagg_nil recs :
  run_preagg [] recs = mkP [] (rev recs) 0 no_bad.
Proof.
  unfold run_preagg. cbn [length drain_loop].
  assert (H : forall l acc, fold_left feed l (mkP [] acc 0 no_bad) = mkP [] (rev l ++ acc) 0 no_bad).
  { induction l as [|x l IH]; intros acc; cbn [fold_left]; [reflexivity|].
    unfold feed at 2; cbn. rewrite IH. cbn. now rewrite <- app_assoc. }
  rewrite H, app_nil_r. reflexivity.
Qed.

(** ** the whole pre-aggregate pipeline: stage-by-stage reference *)
Fixpoint staged (ops : list opstate) (recs : list record) : list record :=
  match ops with
  | [] => recs
  | o :: rest => staged rest (stage_out o recs)
  end.

Theorem stream_is_staged ops : forall recs,
  rev (p_sent (run_preagg ops recs)) = staged ops recs.
Proof.
  induction ops as [|o ops IH]; intros recs.
  - rewrite run_preagg_nil. cbn. apply rev_involutive.
  - pose proof (preagg_staged o ops recs) as H.
    cbn [staged]. unfold stage_out.
    destruct (op_run o recs) as [[[o' outs] n] bo].
    rewrite H. unfold shift; cbn [p_sent]. apply IH.
Qed.
