(** parseHex (funcs.rs parse_hex = i64::from_str_radix(s.trim().trim_start_matches("0x"), 16)):
    the documented result on every hexadecimal spelling of every i64. *)
From Coq Require Import List ZArith NArith Bool Lia.
From AG Require Import Str F64 Value Json Expr.
Import ListNotations.
Open Scope list_scope.
Open Scope Z_scope.

(** an independent hexadecimal printer: most significant digit first, no prefix, at least one digit *)
Definition hexd (upper : bool) (d : Z) : N :=
  if d <? 10 then Z.to_N (48 + d) else if upper then Z.to_N (55 + d) else Z.to_N (87 + d).

Fixpoint to_hex_fuel (fuel : nat) (upper : bool) (n : Z) (acc : str) : str :=
  match fuel with
  | O => acc
  | S f => let acc' := hexd upper (n mod 16) :: acc in
           if n / 16 =? 0 then acc' else to_hex_fuel f upper (n / 16) acc'
  end.
Definition to_hex (upper : bool) (n : Z) : str := to_hex_fuel 64 upper n [].

Definition zeros (k : nat) : str := repeat 48%N k.


(** * helper lemmas *)
Definition ishex (x : N) : bool := match hex_val x with Some _ => true | None => false end.

Lemma ishex_range c : ishex c = true ->
  (48 <= c <= 57 \/ 97 <= c <= 102 \/ 65 <= c <= 70)%N.
Proof.
  unfold ishex, hex_val, is_digit.
  destruct (N.leb_spec 48 c), (N.leb_spec c 57); cbn [andb]; try lia;
  destruct (N.leb_spec 97 c), (N.leb_spec c 102); cbn [andb]; try lia;
  destruct (N.leb_spec 65 c), (N.leb_spec c 70); cbn [andb]; try lia; discriminate.
Qed.

Lemma range_not_ws c : (33 <= c <= 132)%N -> is_ws c = false.
Proof.
  intros H. unfold is_ws.
  repeat match goal with
  | |- context[(?a =? ?b)%N] =>
      replace (a =? b)%N with false by (symmetry; apply N.eqb_neq; lia)
  end.
  repeat match goal with
  | |- context[(?a <=? ?b)%N] =>
      first [ replace (a <=? b)%N with false by (symmetry; apply N.leb_gt; lia)
            | replace (a <=? b)%N with true by (symmetry; apply N.leb_le; lia) ]
  end.
  reflexivity.
Qed.

Lemma ishex_not_ws c : ishex c = true -> is_ws c = false.
Proof. intros H. apply ishex_range in H. apply range_not_ws. lia. Qed.

Lemma hex_val_hexd upper d : 0 <= d < 16 -> hex_val (hexd upper d) = Some (Z.to_N d).
Proof.
  intros H.
  assert (d = 0 \/ d = 1 \/ d = 2 \/ d = 3 \/ d = 4 \/ d = 5 \/ d = 6 \/ d = 7 \/ d = 8 \/ d = 9
          \/ d = 10 \/ d = 11 \/ d = 12 \/ d = 13 \/ d = 14 \/ d = 15) as E by lia.
  repeat destruct E as [E|E]; subst d; destruct upper; vm_compute; reflexivity.
Qed.

Lemma ishex_hexd upper d : 0 <= d < 16 -> ishex (hexd upper d) = true.
Proof. intros H. unfold ishex. now rewrite hex_val_hexd. Qed.

Lemma hdv_app l1 : forall l2 acc,
  hex_digits_val (l1 ++ l2) acc =
  match hex_digits_val l1 acc with Some a => hex_digits_val l2 a | None => None end.
Proof.
  induction l1 as [|c l1 IH]; intros l2 acc; cbn [app hex_digits_val]; [reflexivity|].
  destruct (hex_val c); [apply IH|reflexivity].
Qed.

Lemma hdv_hexd upper d a : 0 <= d < 16 ->
  hex_digits_val [hexd upper d] a = Some (a * 16 + d).
Proof.
  intros H. cbn [hex_digits_val]. rewrite hex_val_hexd by assumption.
  rewrite Z2N.id by lia. reflexivity.
Qed.

Lemma to_hex_fuel_spec f : forall upper n acc,
  0 <= n < 16 ^ Z.of_nat (S f) ->
  exists ds, to_hex_fuel (S f) upper n acc = ds ++ acc /\ ds <> [] /\
             forallb ishex ds = true /\
             forall a, hex_digits_val ds a = Some (a * 16 ^ Z.of_nat (length ds) + n).
Proof.
  induction f as [|f IH]; intros upper n acc Hn.
  - change (16 ^ Z.of_nat 1) with 16 in Hn.
    cbn [to_hex_fuel].
    assert (n / 16 = 0) as E by (apply Z.div_small; lia).
    rewrite E. cbn [Z.eqb]. rewrite Z.mod_small by lia.
    exists [hexd upper n]. repeat split.
    + discriminate.
    + cbn [forallb]. rewrite ishex_hexd by lia. reflexivity.
    + intros a. rewrite hdv_hexd by lia. cbn [length]. change (16 ^ Z.of_nat 1) with 16. reflexivity.
  - remember (S f) as g eqn:Eg.
    cbn [to_hex_fuel].
    pose proof (Z.div_mod n 16 ltac:(lia)) as Hdm.
    pose proof (Z.mod_pos_bound n 16 ltac:(lia)) as Hm.
    destruct (Z.eqb_spec (n / 16) 0) as [E|E].
    + exists [hexd upper (n mod 16)]. repeat split.
      * discriminate.
      * cbn [forallb]. rewrite ishex_hexd by lia. reflexivity.
      * intros a. rewrite hdv_hexd by lia. cbn [length]. change (16 ^ Z.of_nat 1) with 16.
        f_equal. lia.
    + assert (0 <= n / 16 < 16 ^ Z.of_nat g) as Hq.
      { split; [apply Z.div_pos; lia|].
        apply Z.div_lt_upper_bound; [lia|].
        rewrite Nat2Z.inj_succ, Z.pow_succ_r in Hn by lia. lia. }
      subst g.
      destruct (IH upper (n / 16) (hexd upper (n mod 16) :: acc) Hq) as (ds & E1 & E2 & E3 & E4).
      exists (ds ++ [hexd upper (n mod 16)]). repeat split.
      * rewrite E1, <- app_assoc. reflexivity.
      * intros C. apply app_eq_nil in C. destruct C as [_ C]. discriminate.
      * rewrite forallb_app, E3. cbn [forallb]. rewrite ishex_hexd by lia. reflexivity.
      * intros a. rewrite hdv_app, E4, hdv_hexd by lia. f_equal.
        rewrite app_length. cbn [length]. rewrite Nat.add_1_r, Nat2Z.inj_succ, Z.pow_succ_r by lia.
        lia.
Qed.

Lemma to_hex_spec upper n : 0 <= n < 2 ^ 256 ->
  to_hex upper n <> [] /\ forallb ishex (to_hex upper n) = true /\
  hex_digits_val (to_hex upper n) 0 = Some n.
Proof.
  intros H. unfold to_hex.
  assert (16 ^ Z.of_nat 64 = 2 ^ 256) as E by (vm_compute; reflexivity).
  destruct (to_hex_fuel_spec 63 upper n [] ltac:(rewrite E; exact H)) as (ds & E1 & E2 & E3 & E4).
  rewrite E1, app_nil_r. repeat split; try assumption.
  rewrite E4. f_equal.
Qed.

Lemma zeros_ishex k : forallb ishex (zeros k) = true.
Proof. induction k; cbn [zeros repeat forallb]; [reflexivity|]. exact IHk. Qed.

Lemma zeros_val k : hex_digits_val (zeros k) 0 = Some 0.
Proof. induction k; cbn [zeros repeat hex_digits_val]; [reflexivity|]. exact IHk. Qed.

(** trimming *)
Lemma trim_start_ws ws s : forallb is_ws ws = true -> trim_start (ws ++ s) = trim_start s.
Proof.
  induction ws as [|c ws IH]; cbn [forallb app trim_start]; [reflexivity|].
  intros H. apply andb_true_iff in H as [H1 H2]. rewrite H1. auto.
Qed.

Lemma forallb_rev {A} (p : A -> bool) l : forallb p l = true -> forallb p (rev l) = true.
Proof.
  rewrite !forallb_forall. intros H x Hx. apply H. now apply in_rev.
Qed.

Lemma trim_end_ws ws s : forallb is_ws ws = true -> trim_end (s ++ ws) = trim_end s.
Proof.
  intros H. unfold trim_end. rewrite rev_app_distr, trim_start_ws; [reflexivity|].
  now apply forallb_rev.
Qed.

Lemma trim_core ws1 ws2 l :
  l <> [] -> is_ws (hd 0%N l) = false -> is_ws (last l 0%N) = false ->
  forallb is_ws ws1 = true -> forallb is_ws ws2 = true ->
  trim (ws1 ++ l ++ ws2) = l.
Proof.
  intros Hne Hh Hl H1 H2. unfold trim.
  rewrite trim_start_ws by assumption.
  assert (trim_start (l ++ ws2) = l ++ ws2) as ->.
  { destruct l as [|c r]; [congruence|]. cbn [hd] in Hh. cbn [app trim_start]. now rewrite Hh. }
  rewrite trim_end_ws by assumption.
  rewrite (app_removelast_last 0%N Hne) at 1 2. unfold trim_end.
  rewrite rev_app_distr. cbn [rev app trim_start]. rewrite Hl.
  cbn [rev]. rewrite rev_involutive. reflexivity.
Qed.

Lemma forallb_hd_last {A} (p : A -> bool) (d : A) l :
  l <> [] -> forallb p l = true -> p (hd d l) = true /\ p (last l d) = true.
Proof.
  intros Hne H. split.
  - destruct l; [congruence|]. cbn in *. now apply andb_true_iff in H.
  - rewrite forallb_forall in H. apply H.
    pose proof (app_removelast_last d Hne) as E. set (x := last l d) in *.
    rewrite E. apply in_or_app. right. now left.
Qed.

(** the 0x prefix *)
Lemma strip_0x_cons f r : strip_0x (S f) (48%N :: 120%N :: r) = strip_0x f r.
Proof. reflexivity. Qed.

Lemma strip_0x_none f s : strip_prefix [48%N; 120%N] s = None -> strip_0x f s = s.
Proof. intros H. destruct f; cbn [strip_0x]; [reflexivity|]. now rewrite H. Qed.

Lemma strip_prefix_ishex ds : forallb ishex ds = true -> strip_prefix [48%N; 120%N] ds = None.
Proof.
  intros H. destruct ds as [|a [|b r]]; cbn [strip_prefix]; try reflexivity.
  - destruct (48 =? a)%N; reflexivity.
  - destruct (48 =? a)%N; [|reflexivity].
    cbn [forallb] in H. apply andb_true_iff in H as [_ H]. apply andb_true_iff in H as [H _].
    apply ishex_range in H.
    replace (120 =? b)%N with false by (symmetry; apply N.eqb_neq; lia). reflexivity.
Qed.

Lemma strip_sign_nosign a r : a <> 45%N -> a <> 43%N -> strip_sign (a :: r) = (false, a :: r).
Proof.
  intros H1 H2. cbn [strip_sign].
  replace (a =? 45)%N with false by (symmetry; apply N.eqb_neq; assumption).
  replace (a =? 43)%N with false by (symmetry; apply N.eqb_neq; assumption).
  reflexivity.
Qed.

Lemma parse_hex_core ws1 ws2 (pre : bool) ds n :
  forallb is_ws ws1 = true -> forallb is_ws ws2 = true ->
  ds <> [] -> forallb ishex ds = true -> hex_digits_val ds 0 = Some n ->
  parse_hex (ws1 ++ ((if pre then lit "0x" else []) ++ ds) ++ ws2) =
  if in_i64 n then Ok (VInt n) else Err.
Proof.
  intros H1 H2 Hne Hd Hv. unfold parse_hex.
  assert (forallb (fun c => negb (is_ws c)) ((if pre then lit "0x" else []) ++ ds) = true) as Hnw.
  { rewrite forallb_app. apply andb_true_iff. split.
    - destruct pre; reflexivity.
    - rewrite forallb_forall in *. intros x Hx. apply Hd in Hx. now rewrite ishex_not_ws. }
  assert ((if pre then lit "0x" else []) ++ ds <> []) as Hne2.
  { intros C. apply app_eq_nil in C. tauto. }
  destruct (forallb_hd_last _ 0%N _ Hne2 Hnw) as [Ha Hb].
  rewrite trim_core; try assumption; try (now apply negb_true_iff).
  assert (strip_0x (length ((if pre then lit "0x" else []) ++ ds)) ((if pre then lit "0x" else []) ++ ds) = ds) as ->.
  { destruct pre.
    - change (lit "0x") with [48%N; 120%N]. cbn [app length]. rewrite strip_0x_cons.
      apply strip_0x_none. now apply strip_prefix_ishex.
    - cbn [app]. apply strip_0x_none. now apply strip_prefix_ishex. }
  destruct ds as [|a r]; [congruence|].
  assert (ishex a = true) as Hx by (cbn [forallb] in Hd; now apply andb_true_iff in Hd).
  apply ishex_range in Hx.
  rewrite strip_sign_nosign by lia.
  rewrite Hv. reflexivity.
Qed.

(** every non-negative i64, in either letter case, with any number of leading zeros, with or
    without the 0x prefix, with blanks around *)
Theorem parse_hex_of_hex : forall (upper pre : bool) (k : nat) (n : Z) (ws1 ws2 : str),
  0 <= n <= i64_max ->
  forallb is_ws ws1 = true -> forallb is_ws ws2 = true ->
  parse_hex (ws1 ++ (if pre then lit "0x" else []) ++ zeros k ++ to_hex upper n ++ ws2) = Ok (VInt n).
Proof.
  intros upper pre k n ws1 ws2 Hn H1 H2.
  assert (0 <= n < 2 ^ 256) as Hn' by (unfold i64_max in Hn; lia).
  destruct (to_hex_spec upper n Hn') as (T1 & T2 & T3).
  replace (ws1 ++ (if pre then lit "0x" else []) ++ zeros k ++ to_hex upper n ++ ws2)
    with (ws1 ++ ((if pre then lit "0x" else []) ++ (zeros k ++ to_hex upper n)) ++ ws2)
    by (now rewrite <- !app_assoc).
  rewrite (parse_hex_core ws1 ws2 pre (zeros k ++ to_hex upper n) n); try assumption.
  - replace (in_i64 n) with true; [reflexivity|].
    symmetry. unfold in_i64. apply andb_true_iff. rewrite !Z.leb_le.
    unfold i64_min, i64_max in *. lia.
  - intros C. apply app_eq_nil in C. tauto.
  - rewrite forallb_app, zeros_ishex, T2. reflexivity.
  - rewrite hdv_app, zeros_val. exact T3.
Qed.

(** negative numbers: a minus sign and no prefix (the prefix is only stripped at the very start) *)
Theorem parse_hex_negative : forall (upper : bool) (k : nat) (n : Z),
  0 <= n <= - i64_min ->
  parse_hex (45%N :: zeros k ++ to_hex upper n) = Ok (VInt (- n)).
Proof.
  intros upper k n Hn.
  assert (0 <= n < 2 ^ 256) as Hn' by (unfold i64_min in Hn; lia).
  destruct (to_hex_spec upper n Hn') as (T1 & T2 & T3).
  set (ds := zeros k ++ to_hex upper n).
  assert (forallb ishex ds = true) as Hd by (unfold ds; now rewrite forallb_app, zeros_ishex, T2).
  assert (ds <> []) as Hne by (unfold ds; intros C; apply app_eq_nil in C; tauto).
  assert (hex_digits_val ds 0 = Some n) as Hv by (unfold ds; now rewrite hdv_app, zeros_val).
  unfold parse_hex.
  assert (trim (45%N :: ds) = 45%N :: ds) as ->.
  { assert (forallb (fun c => negb (is_ws c)) (45%N :: ds) = true) as Hnw.
    { cbn [forallb]. apply andb_true_iff. split; [reflexivity|].
      rewrite forallb_forall in *. intros x Hx. apply Hd in Hx. now rewrite ishex_not_ws. }
    destruct (forallb_hd_last _ 0%N (45%N :: ds) ltac:(discriminate) Hnw) as [Ha Hb].
    pose proof (trim_core [] [] (45%N :: ds) ltac:(discriminate)) as T.
    rewrite app_nil_r in T. apply T; try reflexivity; now apply negb_true_iff. }
  rewrite strip_0x_none by reflexivity.
  change (strip_sign (45%N :: ds)) with (true, ds).
  destruct ds as [|a r]; [congruence|].
  rewrite Hv.
  replace (in_i64 (- n)) with true; [reflexivity|].
  symmetry. unfold in_i64. apply andb_true_iff. rewrite !Z.leb_le.
  unfold i64_min, i64_max in *. lia.
Qed.

(** too large: an error (the row is dropped), never a wrapped value *)
Theorem parse_hex_out_of_range : forall (upper pre : bool) (n : Z),
  i64_max < n < 2 ^ 256 ->
  parse_hex ((if pre then lit "0x" else []) ++ to_hex upper n) = Err.
Proof.
  intros upper pre n Hn.
  assert (0 <= n < 2 ^ 256) as Hn' by (unfold i64_max in Hn; lia).
  destruct (to_hex_spec upper n Hn') as (T1 & T2 & T3).
  pose proof (parse_hex_core [] [] pre (to_hex upper n) n eq_refl eq_refl T1 T2 T3) as P.
  rewrite app_nil_r in P. cbn [app] in P. rewrite P.
  replace (in_i64 n) with false; [reflexivity|].
  symmetry. unfold in_i64. apply andb_false_iff. right. apply Z.leb_gt. lia.
Qed.

(** not hexadecimal: an error *)
Theorem parse_hex_rejects : forall (s : str) (c : N) (r : str),
  hex_val c = None -> c <> 45%N -> c <> 43%N -> is_ws c = false ->
  (forall t, s ++ c :: r <> lit "0x" ++ t) ->
  forallb (fun x => match hex_val x with Some _ => true | None => false end) s = true ->
  parse_hex (s ++ c :: r ++ [49%N]) = Err.
Proof.
  intros s c r Hc Hm Hp Hw Hx Hs.
  fold ishex in Hs. change (fun x => match hex_val x with Some _ => true | None => false end) with ishex in Hs.
  unfold parse_hex.
  set (l := s ++ c :: r ++ [49%N]).
  assert (exists a t, l = a :: t /\ a <> 45%N /\ a <> 43%N /\ is_ws a = false) as (a & t & El & Ha1 & Ha2 & Ha3).
  { unfold l. destruct s as [|a s'].
    - exists c, (r ++ [49%N]). repeat split; assumption.
    - exists a, (s' ++ c :: r ++ [49%N]). cbn [forallb] in Hs. apply andb_true_iff in Hs as [Hs _].
      pose proof (ishex_not_ws _ Hs). apply ishex_range in Hs. repeat split; try lia. assumption. }
  assert (trim l = l) as ->.
  { pose proof (trim_core [] [] l) as T. rewrite app_nil_r in T. apply T; try reflexivity.
    - rewrite El. discriminate.
    - rewrite El. exact Ha3.
    - unfold l. replace (s ++ c :: r ++ [49%N]) with ((s ++ c :: r) ++ [49%N])
        by (rewrite <- app_assoc; reflexivity).
      rewrite last_last. reflexivity. }
  assert (strip_prefix [48%N; 120%N] l = None) as Hsp.
  { destruct (strip_prefix [48%N; 120%N] l) as [u|] eqn:E; [exfalso|reflexivity].
    assert (l = 48%N :: 120%N :: u) as El2.
    { destruct l as [|x [|y l']]; cbn [strip_prefix] in E.
      - discriminate.
      - destruct (48 =? x)%N; discriminate.
      - destruct (N.eqb_spec 48 x); [|discriminate]. destruct (N.eqb_spec 120 y); [|discriminate].
        injection E as ->. subst. reflexivity. }
    unfold l in El2.
    destruct s as [|x [|y s']].
    + cbn [app] in El2. injection El2 as -> _. vm_compute in Hc. discriminate.
    + cbn [app] in El2. injection El2 as -> -> E3. apply (Hx r). reflexivity.
    + cbn [app] in El2. injection El2 as -> -> E3.
      cbn [forallb] in Hs. apply andb_true_iff in Hs as [_ Hs]. apply andb_true_iff in Hs as [Hs _].
      vm_compute in Hs. discriminate. }
  rewrite strip_0x_none by assumption.
  rewrite El, strip_sign_nosign by assumption. rewrite <- El.
  assert (hex_digits_val l 0 = None) as ->.
  { unfold l. rewrite hdv_app. destruct (hex_digits_val s 0); [|reflexivity].
    cbn [hex_digits_val]. rewrite Hc. reflexivity. }
  reflexivity.
Qed.

Example parse_hex_examples :
  parse_hex (lit "0x0") = Ok (VInt 0) /\ parse_hex (lit "0") = Ok (VInt 0) /\ parse_hex (lit "0000") = Ok (VInt 0) /\
  parse_hex (lit "0x7b") = Ok (VInt 123) /\ parse_hex (lit " 0X1F ") = Err /\ parse_hex (lit "0x") = Err /\
  parse_hex (lit "") = Err /\ parse_hex (lit "-8000000000000000") = Ok (VInt i64_min) /\
  parse_hex (lit "8000000000000000") = Err /\ parse_hex (lit "0x0x1f") = Ok (VInt 31) /\
  to_hex false 255 = lit "ff" /\ to_hex true 48879 = lit "BEEF" /\ to_hex false 0 = lit "0".
Proof. vm_compute. repeat split; reflexivity. Qed.

Print Assumptions parse_hex_of_hex.
Print Assumptions parse_hex_negative.
Print Assumptions parse_hex_out_of_range.
Print Assumptions parse_hex_rejects.
