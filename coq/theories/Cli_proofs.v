(** Output-mode selection (main() / parse_output): exactly the documented values are accepted,
    `--format F` and `-o format=F` select the same mode for every F, both together are rejected,
    no option means the legacy mode. *)
From Coq Require Import List NArith Bool Lia.
From AG Require Import Str Str_proofs Cli.
Import ListNotations.
Open Scope string_scope.
Open Scope list_scope.
Open Scope N_scope.

Lemma split_eq_spec p : forall a v,
  split_eq p = (a, v) -> (p = a /\ v = []) \/ p = a ++ 61 :: v.
Proof.
  induction p as [|c r IH]; intros a v H; cbn in H.
  - inversion H; subst. left; auto.
  - destruct (c =? 61) eqn:E.
    + apply N.eqb_eq in E. inversion H; subst. right. reflexivity.
    + destruct (split_eq r) as [a' v'] eqn:E'. inversion H; subst.
      destruct (IH _ _ eq_refl) as [[-> ->]| ->].
      * left; auto.
      * right; reflexivity.
Qed.

Lemma split_eq_format v : split_eq (lit "format=" ++ v) = (lit "format", v).
Proof. reflexivity. Qed.

Lemma parse_output_format v :
  parse_output (lit "format=" ++ v) = if is_nil v then None else Some (CFormat v).
Proof.
  unfold parse_output. rewrite split_eq_format.
  destruct v; reflexivity.
Qed.

(** `--format F` is `-o format=F`, for every F (empty, containing '=', anything) *)
Theorem format_flag_is_output_format (f : str) :
  select_mode None (Some f) = select_mode (Some (lit "format=" ++ f)) None.
Proof.
  unfold select_mode. now rewrite parse_output_format.
Qed.

(** what parse_output accepts, exactly *)
Theorem parse_output_exact (p : str) (m : cli_mode) :
  parse_output p = Some m <->
  (m = CLegacy /\ (p = lit "legacy" \/ p = lit "legacy=")) \/
  (m = CJson /\ (p = lit "json" \/ p = lit "json=")) \/
  (m = CLogfmt /\ (p = lit "logfmt" \/ p = lit "logfmt=")) \/
  (exists v, v <> [] /\ m = CFormat v /\ p = lit "format=" ++ v).
Proof.
  split.
  - unfold parse_output. destruct (split_eq p) as [a v] eqn:E.
    apply split_eq_spec in E.
    destruct (str_eqb a (lit "legacy") && is_nil v) eqn:H1.
    { intros [= <-]. apply andb_true_iff in H1 as [H1 H2].
      apply str_eqb_eq in H1. destruct v; [|discriminate]. left. split; auto.
      destruct E as [[-> _]| ->]; subst a; [left|right]; reflexivity. }
    destruct (str_eqb a (lit "json") && is_nil v) eqn:H2.
    { intros [= <-]. apply andb_true_iff in H2 as [H2 H3].
      apply str_eqb_eq in H2. destruct v; [|discriminate]. right; left. split; auto.
      destruct E as [[-> _]| ->]; subst a; [left|right]; reflexivity. }
    destruct (str_eqb a (lit "logfmt") && is_nil v) eqn:H3.
    { intros [= <-]. apply andb_true_iff in H3 as [H3 H4].
      apply str_eqb_eq in H3. destruct v; [|discriminate]. right; right; left. split; auto.
      destruct E as [[-> _]| ->]; subst a; [left|right]; reflexivity. }
    destruct (str_eqb a (lit "format") && negb (is_nil v)) eqn:H4; [|discriminate].
    intros [= <-]. apply andb_true_iff in H4 as [H4 H5].
    apply str_eqb_eq in H4. right; right; right. exists v.
    destruct v as [|x v]; [discriminate|]. split; [discriminate|]. split; auto.
    destruct E as [[_ ?]| ->]; [discriminate|]. subst a. reflexivity.
  - intros [[-> [-> | ->]]|[[-> [-> | ->]]|[[-> [-> | ->]]|[v [Hv [-> ->]]]]]];
      try reflexivity.
    rewrite parse_output_format. destruct v; [contradiction|reflexivity].
Qed.

Theorem both_options_rejected (o f : str) : select_mode (Some o) (Some f) = None.
Proof. reflexivity. Qed.

Theorem default_is_legacy : select_mode None None = Some CLegacy.
Proof. reflexivity. Qed.

Theorem empty_format_rejected_both_ways :
  select_mode None (Some []) = None /\ select_mode (Some (lit "format=")) None = None.
Proof. split; reflexivity. Qed.

Print Assumptions parse_output_exact.
