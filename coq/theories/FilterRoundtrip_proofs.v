(** Every spelling of a filter parses back to that filter: AND binds tighter than
    OR, NOT tighter than both, parentheses group, filters written side by side
    are an implicit AND, quoted keywords are taken literally, bare keywords are
    the maximal runs of keyword characters; layout (any whitespace runs, blanks
    inside parentheses) and quote style do not matter. *)
From Coq Require Import List ZArith NArith Bool Lia Arith.
From AG Require Import Str Ops Filter Grammar Print.
Import ListNotations.
Open Scope string_scope.
Open Scope list_scope.
Open Scope nat_scope.

(** what may follow the search part of a query: nothing or a pipe (after optional whitespace) *)
Definition search_stop (rest : str) : bool :=
  (match rest with [] => true | c :: _ => is_space c || (c =? 124)%N end) &&
  (match skip_spaces rest with [] => true | c :: _ => (c =? 124)%N end).

(** * whitespace *)
Lemma skip_spaces_app_ws (w s : str) :
  forallb is_space w = true -> skip_spaces (w ++ s) = skip_spaces s.
Proof.
  induction w as [|c w IH]; cbn [app forallb skip_spaces]; intros H; [reflexivity|].
  apply andb_prop in H as [H1 H2]. rewrite H1. auto.
Qed.

Definition nsp_head (s : str) : Prop :=
  match s with [] => True | c :: _ => is_space c = false end.

Lemma skip_spaces_nsp (s : str) : nsp_head s -> skip_spaces s = s.
Proof. destruct s as [|c s]; cbn; intros H; [reflexivity | rewrite H; reflexivity]. Qed.

Lemma skip_spaces_idem (s : str) : skip_spaces (skip_spaces s) = skip_spaces s.
Proof.
  induction s as [|c s IH]; cbn [skip_spaces]; [reflexivity|].
  destruct (is_space c) eqn:E; [assumption|]. cbn [skip_spaces]. rewrite E. reflexivity.
Qed.

Lemma skip_spaces_len (s : str) : length (skip_spaces s) <= length s.
Proof.
  induction s as [|c s IH]; cbn [skip_spaces length]; [lia|].
  destruct (is_space c); cbn [length]; lia.
Qed.

Lemma ms1_ws (w s : str) :
  forallb is_space w = true -> w <> [] -> ms1 (w ++ s) = POk tt (skip_spaces s).
Proof.
  destruct w as [|c w]; [congruence|]. intros H _. cbn [forallb] in H.
  apply andb_prop in H as [H1 H2]. unfold ms1. cbn [app]. rewrite H1.
  f_equal. apply skip_spaces_app_ws; assumption.
Qed.

Lemma ms1_inv (s : str) (u : unit) (r : str) :
  ms1 s = POk u r -> r = skip_spaces s /\ exists c s', s = c :: s' /\ is_space c = true.
Proof.
  unfold ms1. destruct s as [|c s]; [discriminate|]. destruct (is_space c) eqn:E; [|discriminate].
  intros H. injection H as H. subst r. split; [cbn [skip_spaces]; rewrite E; reflexivity | eauto].
Qed.

Lemma ms1_not_fatal (s : str) : ms1 s <> PFatal.
Proof. unfold ms1. destruct s as [|c s]; [discriminate|]. destruct (is_space c); discriminate. Qed.

Lemma strip_prefix_app (p s : str) : strip_prefix p (p ++ s) = Some s.
Proof. induction p as [|c p IH]; cbn [app strip_prefix]; [reflexivity|]. rewrite N.eqb_refl. exact IH. Qed.

(** * quoted strings *)
Lemma quoted_body_escape (q : N) (s : str) :
  (92 =? q)%N = false ->
  forall fuel acc r, length (escape_for q s) < fuel ->
  quoted_body fuel q (escape_for q s ++ q :: r) acc = (rev acc ++ escape_for q s, q :: r).
Proof.
  intros Hq. induction s as [|c s IH]; intros fuel acc r Hf.
  - destruct fuel as [|f]; [cbn in Hf; lia|]. cbn [escape_for app quoted_body].
    rewrite N.eqb_refl. rewrite app_nil_r. reflexivity.
  - cbn [escape_for] in *. destruct ((c =? 92)%N || (c =? q)%N) eqn:E.
    + cbn [length] in Hf. destruct fuel as [|f]; [lia|]. cbn [app quoted_body].
      rewrite Hq. change (92 =? 92)%N with true. cbv iota.
      rewrite IH by lia. cbn [rev]. rewrite <- !app_assoc. reflexivity.
    + apply orb_false_elim in E as [E1 E2]. cbn [length] in Hf.
      destruct fuel as [|f]; [lia|]. cbn [app quoted_body]. rewrite E2, E1.
      rewrite IH by lia. cbn [rev]. rewrite <- !app_assoc. reflexivity.
Qed.

Lemma unescape_escape (q : N) (s : str) :
  q = 34%N \/ q = 39%N -> unescape (escape_for q s) = s.
Proof.
  intros Hq. induction s as [|c s IH]; [reflexivity|].
  cbn [escape_for]. destruct (N.eqb_spec c 92) as [->|N92].
  - cbn [orb unescape]. change (92 =? 92)%N with true. cbv iota. rewrite IH. reflexivity.
  - cbn [orb]. destruct (N.eqb_spec c q) as [->|Nq].
    + destruct Hq as [-> | ->]; cbn [unescape]; change (92 =? 92)%N with true; cbv iota.
      * change (34 =? 92)%N with false. change (34 =? 116)%N with false. change (34 =? 114)%N with false.
        change (34 =? 110)%N with false. change (34 =? 48)%N with false. change (34 =? 39)%N with false.
        change (34 =? 34)%N with true. cbv iota. rewrite IH. reflexivity.
      * change (39 =? 92)%N with false. change (39 =? 116)%N with false. change (39 =? 114)%N with false.
        change (39 =? 110)%N with false. change (39 =? 48)%N with false. change (39 =? 39)%N with true.
        cbv iota. rewrite IH. reflexivity.
    + cbn [unescape]. destruct (N.eqb_spec c 92) as [?|_]; [contradiction|]. rewrite IH. reflexivity.
Qed.

Definition qchar (o : popts) : N := if po_dq o then 34%N else 39%N.

Lemma quote_str_eq (o : popts) (s : str) : quote_str o s = qchar o :: escape_for (qchar o) s ++ [qchar o].
Proof. reflexivity. Qed.

Lemma qchar_cases (o : popts) : qchar o = 34%N \/ qchar o = 39%N.
Proof. unfold qchar. destruct (po_dq o); auto. Qed.

Lemma quoted_string_quote (o : popts) (s r : str) :
  quoted_string (quote_str o s ++ r) = POk s r.
Proof.
  rewrite quote_str_eq. cbn [app]. rewrite <- app_assoc. cbn [app].
  unfold quoted_string.
  assert (Hq : ((qchar o =? 39)%N || (qchar o =? 34)%N) = true)
    by (destruct (qchar_cases o) as [-> | ->]; reflexivity).
  rewrite Hq.
  assert (H92 : (92 =? qchar o)%N = false)
    by (destruct (qchar_cases o) as [-> | ->]; reflexivity).
  rewrite (quoted_body_escape (qchar o) s H92).
  - cbn [rev app]. rewrite N.eqb_refl. rewrite unescape_escape by apply qchar_cases. reflexivity.
  - rewrite app_length. cbn [length]. lia.
Qed.

(** * bare keywords *)
Lemma kwchar_not_space (c : N) : is_keyword_char c = true -> is_space c = false.
Proof.
  intros H. unfold is_space.
  destruct (N.eqb_spec c 32) as [->|_]; [vm_compute in H; discriminate|].
  destruct (N.eqb_spec c 9) as [->|_]; [vm_compute in H; discriminate|].
  destruct (N.eqb_spec c 13) as [->|_]; [vm_compute in H; discriminate|].
  destruct (N.eqb_spec c 10) as [->|_]; [vm_compute in H; discriminate|].
  reflexivity.
Qed.

Lemma kwchar_not (c d : N) : is_keyword_char d = false -> is_keyword_char c = true -> (c =? d)%N = false.
Proof. intros Hd Hc. destruct (N.eqb_spec c d) as [->|_]; [congruence | reflexivity]. Qed.

Definition hstop (k : str) : bool :=
  match k with [] => true | c :: _ => negb (is_keyword_char c) end.

Lemma hstop_space (c : N) (k : str) : is_space c = true -> hstop (c :: k) = true.
Proof.
  intros H. cbn [hstop]. destruct (is_keyword_char c) eqn:E; [|reflexivity].
  apply kwchar_not_space in E. congruence.
Qed.

Lemma take_while_kw (t k : str) :
  forallb is_keyword_char t = true -> hstop k = true ->
  take_while is_keyword_char (t ++ k) = (t, k).
Proof.
  induction t as [|c t IH]; cbn [app forallb]; intros Ht Hk.
  - destruct k as [|d k]; [reflexivity|]. cbn [hstop] in Hk. cbn [take_while].
    destruct (is_keyword_char d); [discriminate | reflexivity].
  - apply andb_prop in Ht as [H1 H2]. cbn [take_while]. rewrite H1, IH by assumption. reflexivity.
Qed.

Definition drop_stars : str -> str :=
  fix go (s : str) := match s with c :: r => if (c =? 42)%N then go r else s | [] => [] end.

Lemma trim_stars_eq (s : str) : trim_stars s = rev (drop_stars (rev (drop_stars s))).
Proof. reflexivity. Qed.

Lemma drop_stars_id (s : str) : head_is 42 s = false -> drop_stars s = s.
Proof. destruct s as [|c s]; cbn; intros H; [reflexivity | rewrite H; reflexivity]. Qed.

Lemma trim_stars_id (t : str) :
  head_is 42 t = false -> head_is 42 (rev t) = false -> trim_stars t = t.
Proof.
  intros H1 H2. rewrite trim_stars_eq, (drop_stars_id t H1), (drop_stars_id _ H2).
  apply rev_involutive.
Qed.

(** a word [w] at the start of [s] is not followed by whitespace *)
Definition no_word (w s : str) : Prop :=
  forall r, strip_prefix w s = Some r -> ms1 r = PFail.

Lemma no_word_head (x : N) (w : str) (c : N) (s : str) :
  (x =? c)%N = false -> no_word (x :: w) (c :: s).
Proof. intros H r. cbn [strip_prefix]. rewrite H. discriminate. Qed.

Lemma kw_no_word (w t k : str) :
  forallb is_keyword_char w = true -> forallb is_keyword_char t = true ->
  str_eqb t w = false -> hstop k = true -> no_word w (t ++ k).
Proof.
  revert t. induction w as [|x w IH]; intros t Hw Ht Hne Hk r.
  - destruct t as [|c t]; [discriminate|]. cbn [strip_prefix app]. intros H. injection H as <-.
    cbn [forallb] in Ht. apply andb_prop in Ht as [H1 _]. apply kwchar_not_space in H1.
    unfold ms1. rewrite H1. reflexivity.
  - cbn [forallb] in Hw. apply andb_prop in Hw as [Hx Hw].
    destruct t as [|c t].
    + cbn [app]. destruct k as [|d k]; cbn [strip_prefix]; [discriminate|].
      destruct (N.eqb_spec x d) as [->|_]; [|discriminate].
      cbn [hstop] in Hk. rewrite Hx in Hk. discriminate.
    + cbn [app strip_prefix]. cbn [forallb] in Ht. apply andb_prop in Ht as [Hc Ht].
      destruct (N.eqb_spec x c) as [->|_]; [|discriminate].
      cbn [str_eqb] in Hne. rewrite N.eqb_refl in Hne. cbn [andb] in Hne.
      apply IH; assumption.
Qed.

Lemma wf_kw_parts (t : str) :
  wf_keyword KWild t = true ->
  is_nil t = false /\ forallb is_keyword_char t = true /\ reserved_word t = false
  /\ head_is 42 t = false /\ head_is 42 (rev t) = false.
Proof.
  unfold wf_keyword. intros H.
  apply andb_prop in H as [H H5]. apply andb_prop in H as [H H4].
  apply andb_prop in H as [H H3]. apply andb_prop in H as [H1 H2].
  repeat split; try assumption; apply negb_true_iff; assumption.
Qed.

Lemma wf_kw_no_word (t k : str) :
  wf_keyword KWild t = true -> hstop k = true ->
  no_word (lit "NOT") (t ++ k) /\ no_word (lit "AND") (t ++ k) /\ no_word (lit "OR") (t ++ k).
Proof.
  intros H Hk. destruct (wf_kw_parts t H) as (_ & Hall & Hres & _ & _).
  unfold reserved_word in Hres.
  apply orb_false_elim in Hres as [Hres Hnot]. apply orb_false_elim in Hres as [Hand Hor].
  repeat split; apply kw_no_word; try assumption; reflexivity.
Qed.

Lemma quoted_string_kw (c : N) (s : str) : is_keyword_char c = true -> quoted_string (c :: s) = PFail.
Proof.
  intros H. unfold quoted_string.
  rewrite (kwchar_not c 39), (kwchar_not c 34) by (assumption || reflexivity). reflexivity.
Qed.

Lemma filter_atom_kw (t k : str) :
  wf_keyword KWild t = true -> hstop k = true ->
  filter_atom (t ++ k) = POk (Some (FKw KWild t)) k.
Proof.
  intros H Hk. destruct (wf_kw_parts t H) as (Hnil & Hall & _ & Hs1 & Hs2).
  unfold filter_atom, palt, pmap.
  destruct t as [|c t]; [discriminate|].
  assert (Hc : is_keyword_char c = true) by (cbn [forallb] in Hall; apply andb_prop in Hall as [? _]; assumption).
  cbn [app]. rewrite quoted_string_kw by assumption.
  change (c :: t ++ k) with ((c :: t) ++ k). rewrite take_while_kw by assumption.
  rewrite Hnil, trim_stars_id, Hnil by assumption. reflexivity.
Qed.

Lemma filter_atom_quoted (o : popts) (q k : str) :
  is_nil q = false -> filter_atom (quote_str o q ++ k) = POk (Some (FKw KExact q)) k.
Proof.
  intros H. unfold filter_atom, palt, pmap. rewrite quoted_string_quote, H. reflexivity.
Qed.

(** * well-formed filters, inductively *)
Inductive WF : filter -> Prop :=
| WF_kw kind t : wf_keyword kind t = true -> WF (FKw kind t)
| WF_not g : WF g -> WF (FNot g)
| WF_and a b : WF a -> WF b -> WF (FAnd [a; b])
| WF_or a b : WF a -> WF b -> WF (FOr [a; b]).

Fixpoint wf_WF (f : filter) : wf_filter f = true -> WF f.
Proof.
  destruct f as [l|l|g|kind t]; cbn [wf_filter]; intros H.
  - destruct l as [|a [|b [|c l]]]; try discriminate.
    apply andb_prop in H as [H1 H2]. apply WF_and; apply wf_WF; assumption.
  - destruct l as [|a [|b [|c l]]]; try discriminate.
    apply andb_prop in H as [H1 H2]. apply WF_or; apply wf_WF; assumption.
  - apply WF_not, wf_WF, H.
  - apply WF_kw, H.
Qed.

(** * the printer, equationally *)
Definition paren (o : popts) (s : str) : str := 40%N :: po_ws0 o ++ s ++ po_ws0 o ++ [41%N].

Lemma fpp_ctx (o : popts) (ctx : nat) (f : filter) :
  fpp o ctx f = if Nat.ltb (flevel f) ctx then paren o (fpp o 1 f) else fpp o 1 f.
Proof. destruct f; reflexivity. Qed.

Lemma fpp_exact o q : fpp o 1 (FKw KExact q) = quote_str o q.
Proof. reflexivity. Qed.
Lemma fpp_wild o t : fpp o 1 (FKw KWild t) = t.
Proof. reflexivity. Qed.
Lemma fpp_not o g : fpp o 1 (FNot g) = lit "NOT" ++ po_ws1 o ++ fpp o 3 g.
Proof. reflexivity. Qed.
Lemma fpp_and o a b : fpp o 1 (FAnd [a; b]) = fpp o 3 a ++ po_ws1 o ++ lit "AND" ++ po_ws1 o ++ fpp o 3 b.
Proof. reflexivity. Qed.
Lemma fpp_or o a b : fpp o 1 (FOr [a; b]) = fpp o 2 a ++ po_ws1 o ++ lit "OR" ++ po_ws1 o ++ fpp o 2 b.
Proof. reflexivity. Qed.

(** * the parser, with its local definitions named *)
Definition parenP (high : parser (option filter)) : parser (option filter) :=
  fun s => match eat 40 s with
           | Some r => match high (skip_spaces r) with
                       | POk x r' => match eat 41 (skip_spaces r') with Some r'' => POk x r'' | None => PFatal end
                       | PFail => PFail
                       | PFatal => PFatal
                       end
           | None => PFail
           end.

Definition notP (lowk : parser (option filter)) : parser (option filter) :=
  fun s => match strip_prefix (lit "NOT") s with
           | Some r => match ms1 r with
                       | POk _ r' => pmap not_filter lowk r'
                       | _ => PFail
                       end
           | None => PFail
           end.

Section Low.
Variable high : parser (option filter).
Fixpoint lowF (k : nat) : parser (option filter) :=
  match k with
  | O => fun _ => PFatal
  | S k' => fun s => match notP (lowF k') s with
                     | POk x r => POk x r
                     | PFatal => PFatal
                     | PFail => (filter_atom <|> parenP high) s
                     end
  end.
End Low.

Definition then_optF (word : String.string) (sub : parser (option filter)) (mk : bool)
  : parser (option filter) :=
  fun s => LET a, r <- sub s IN
           match (LET _u, r1 <- ms1 r IN LET _v, r2 <- ptag word r1 IN LET _w, r3 <- ms1 r2 IN sub r3) with
           | POk b r4 => POk (combine2 mk a b) r4
           | PFail => POk a r
           | PFatal => PFatal
           end.

Definition midF (f : nat) : parser (option filter) := then_optF "AND" (lowF (p_filter f) (S f)) false.

Lemma p_filter_S (f : nat) : p_filter (S f) = then_optF "OR" (midF f) true.
Proof. reflexivity. Qed.

(** the optional operator part does not fire on [k] *)
Definition stopw (word : String.string) (k : str) : Prop :=
  forall u r1, ms1 k = POk u r1 -> no_word (lit word) r1.

Lemma then_opt_none word sub mk s a r :
  sub s = POk a r -> stopw word r -> then_optF word sub mk s = POk a r.
Proof.
  intros Hs Hw. unfold then_optF. rewrite Hs. cbn [pbind].
  destruct (ms1 r) as [u r1| |] eqn:E; cbn [pbind]; [|reflexivity|exfalso; eapply ms1_not_fatal; eassumption].
  unfold ptag. destruct (strip_prefix (lit word) r1) as [r2|] eqn:E2; cbn [pbind]; [|reflexivity].
  rewrite (Hw u r1 E r2 E2). reflexivity.
Qed.

Lemma then_opt_some word sub mk s a b w r3 k :
  (forall x, skip_spaces (lit word ++ x) = lit word ++ x) ->
  forallb is_space w = true -> w <> [] -> nsp_head r3 ->
  sub s = POk (Some a) (w ++ lit word ++ w ++ r3) ->
  sub r3 = POk (Some b) k ->
  then_optF word sub mk s = POk (Some (if mk then FOr [a; b] else FAnd [a; b])) k.
Proof.
  intros Hword Hw Hne Hr3 Hs1 Hs2. unfold then_optF. rewrite Hs1. cbn [pbind].
  rewrite ms1_ws by assumption. cbn [pbind]. rewrite Hword.
  unfold ptag. rewrite strip_prefix_app. cbn [pbind].
  rewrite ms1_ws by assumption. cbn [pbind]. rewrite skip_spaces_nsp by assumption.
  rewrite Hs2. reflexivity.
Qed.

Lemma stopw_ws word (w : str) c s :
  forallb is_space w = true -> is_space c = false ->
  no_word (lit word) (c :: s) -> stopw word (w ++ c :: s).
Proof.
  intros Hw Hc Hn u r1 H. apply ms1_inv in H as [-> _].
  rewrite skip_spaces_app_ws by assumption. rewrite skip_spaces_nsp by exact Hc. exact Hn.
Qed.

Lemma stopw_nsp word c s : is_space c = false -> stopw word (c :: s).
Proof. intros Hc u r1 H. unfold ms1 in H. rewrite Hc in H. discriminate. Qed.

Lemma stopw_nil word : stopw word [].
Proof. intros u r1 H. discriminate. Qed.

Lemma no_word_lit_head word c s :
  match lit word with x :: _ => (x =? c)%N = false | [] => False end -> no_word (lit word) (c :: s).
Proof. destruct (lit word) as [|x w]; [contradiction|]. apply no_word_head. Qed.

Lemma lit_NOT : lit "NOT" = [78; 79; 84]%N.
Proof. reflexivity. Qed.

Lemma notP_head lowk c s : (78 =? c)%N = false -> notP lowk (c :: s) = PFail.
Proof. intros H. unfold notP. rewrite lit_NOT. cbn [strip_prefix]. rewrite H. reflexivity. Qed.

Lemma notP_no_word lowk s : no_word (lit "NOT") s -> notP lowk s = PFail.
Proof.
  intros H. unfold notP. destruct (strip_prefix (lit "NOT") s) as [r|] eqn:E; [|reflexivity].
  rewrite (H r E). reflexivity.
Qed.

Lemma filter_atom_nonkw c s :
  is_keyword_char c = false -> ((c =? 39)%N || (c =? 34)%N) = false -> filter_atom (c :: s) = PFail.
Proof.
  intros H1 H2. unfold filter_atom, palt, pmap, quoted_string. rewrite H2.
  cbn [take_while]. rewrite H1. reflexivity.
Qed.

Lemma lowF_S high k s :
  lowF high (S k) s = match notP (lowF high k) s with
                      | POk x r => POk x r
                      | PFatal => PFatal
                      | PFail => (filter_atom <|> parenP high) s
                      end.
Proof. reflexivity. Qed.

Section RT.
Variable o : popts.
Hypothesis Ho : popts_ok o = true.

Lemma ws0_sp : forallb is_space (po_ws0 o) = true.
Proof. unfold popts_ok in Ho. apply andb_prop in Ho as [H _]. apply andb_prop in H as [H _]. exact H. Qed.
Lemma ws1_sp : forallb is_space (po_ws1 o) = true.
Proof. unfold popts_ok in Ho. apply andb_prop in Ho as [H _]. apply andb_prop in H as [_ H]. exact H. Qed.
Lemma ws1_ne : po_ws1 o <> [].
Proof.
  unfold popts_ok in Ho. apply andb_prop in Ho as [_ H]. destruct (po_ws1 o); [discriminate|congruence].
Qed.

Lemma hstop_ws1 s : hstop (po_ws1 o ++ s) = true.
Proof.
  pose proof ws1_sp as H. pose proof ws1_ne as N. destruct (po_ws1 o) as [|c w]; [congruence|].
  cbn [forallb] in H. apply andb_prop in H as [H _]. cbn [app]. apply hstop_space, H.
Qed.

Lemma hstop_close k : hstop (po_ws0 o ++ 41%N :: k) = true.
Proof.
  pose proof ws0_sp as H. destruct (po_ws0 o) as [|c w]; [reflexivity|].
  cbn [forallb] in H. apply andb_prop in H as [H _]. cbn [app]. apply hstop_space, H.
Qed.

Lemma fpp_head g : WF g ->
  forall ctx, exists c r, fpp o ctx g = c :: r /\ is_space c = false /\ (c =? 124)%N = false.
Proof.
  induction 1 as [kind t Hk | g Hg IH | a b Ha IHa Hb IHb | a b Ha IHa Hb IHb]; intros ctx; rewrite fpp_ctx;
    (destruct (Nat.ltb _ ctx); [exists 40%N; eexists; split; [reflexivity | split; reflexivity] |]).
  - destruct kind.
    + rewrite fpp_exact, quote_str_eq. exists (qchar o); eexists; split; [reflexivity|].
      destruct (qchar_cases o) as [-> | ->]; split; reflexivity.
    + rewrite fpp_wild. destruct (wf_kw_parts t Hk) as (Hnil & Hall & _).
      destruct t as [|c t]; [discriminate|]. exists c, t. split; [reflexivity|].
      cbn [forallb] in Hall. apply andb_prop in Hall as [Hc _].
      split; [apply kwchar_not_space; assumption | apply (kwchar_not c 124); [reflexivity | assumption]].
  - rewrite fpp_not. exists 78%N. eexists. split; [reflexivity | split; reflexivity].
  - rewrite fpp_and. destruct (IHa 3) as (c & r & -> & Hc). exists c; eexists; split; [reflexivity | exact Hc].
  - rewrite fpp_or. destruct (IHa 2) as (c & r & -> & Hc). exists c; eexists; split; [reflexivity | exact Hc].
Qed.

Lemma fpp_nsp g ctx k : WF g -> nsp_head (fpp o ctx g ++ k).
Proof. intros H. destruct (fpp_head g H ctx) as (c & r & -> & Hc & _). exact Hc. Qed.

Lemma paren_app s k : paren o s ++ k = 40%N :: po_ws0 o ++ s ++ (po_ws0 o ++ 41%N :: k).
Proof. unfold paren. cbn [app]. rewrite <- !app_assoc. reflexivity. Qed.

Lemma fpp_no_word g : WF g -> forall ctx k, hstop k = true ->
  no_word (lit "AND") (fpp o ctx g ++ k) /\ no_word (lit "OR") (fpp o ctx g ++ k).
Proof.
  induction 1 as [kind t Hk | g Hg IH | a b Ha IHa Hb IHb | a b Ha IHa Hb IHb]; intros ctx k Hs; rewrite fpp_ctx;
    (destruct (Nat.ltb _ ctx); [rewrite paren_app; split; apply no_word_lit_head; reflexivity|]).
  - destruct kind.
    + rewrite fpp_exact, quote_str_eq. cbn [app].
      destruct (qchar_cases o) as [-> | ->]; split; apply no_word_lit_head; reflexivity.
    + rewrite fpp_wild. destruct (wf_kw_no_word t k Hk Hs) as (_ & H1 & H2). split; assumption.
  - rewrite fpp_not. split; apply (no_word_lit_head _ 78%N); reflexivity.
  - rewrite fpp_and, <- !app_assoc. apply IHa. apply hstop_ws1.
  - rewrite fpp_or, <- !app_assoc. apply IHa. apply hstop_ws1.
Qed.

Definition Lprop (g : filter) : Prop :=
  forall f kf k, length (fpp o 3 g) <= f -> length (fpp o 3 g) < kf -> hstop k = true ->
  lowF (p_filter f) kf (fpp o 3 g ++ k) = POk (Some g) k.
Definition Mprop (g : filter) : Prop :=
  forall f k, length (fpp o 2 g) <= f -> hstop k = true -> stopw "AND" k ->
  midF f (fpp o 2 g ++ k) = POk (Some g) k.
Definition Hprop (g : filter) : Prop :=
  forall f k, length (fpp o 1 g) <= f -> hstop k = true -> stopw "AND" k -> stopw "OR" k ->
  p_filter (S f) (fpp o 1 g ++ k) = POk (Some g) k.

Lemma L_to_M g : flevel g <> 2 -> Lprop g -> Mprop g.
Proof.
  intros Hl HL f k Hf Hk Hand.
  assert (E : fpp o 2 g = fpp o 3 g).
  { rewrite (fpp_ctx o 2), (fpp_ctx o 3). destruct g; cbn [flevel] in *; try reflexivity; congruence. }
  rewrite E in *. unfold midF. apply then_opt_none; [|assumption].
  apply HL; [assumption | lia | assumption].
Qed.

Lemma M_to_H g : flevel g <> 1 -> Mprop g -> Hprop g.
Proof.
  intros Hl HM f k Hf Hk Hand Hor.
  assert (E : fpp o 1 g = fpp o 2 g).
  { rewrite (fpp_ctx o 2). destruct g; cbn [flevel] in *; try reflexivity; congruence. }
  rewrite E in *. rewrite p_filter_S. apply then_opt_none; [|assumption].
  apply HM; assumption.
Qed.

Lemma stopw_close word k :
  match lit word with x :: _ => (x =? 41)%N = false | [] => False end ->
  stopw word (po_ws0 o ++ 41%N :: k).
Proof. intros H. apply stopw_ws; [apply ws0_sp | reflexivity | apply no_word_lit_head, H]. Qed.

Lemma H_to_L g : WF g -> flevel g < 3 -> Hprop g -> Lprop g.
Proof.
  intros Hwf Hl HH f kf k Hf Hkf Hk.
  assert (E : fpp o 3 g = paren o (fpp o 1 g)).
  { rewrite (fpp_ctx o 3). apply Nat.ltb_lt in Hl. rewrite Hl. reflexivity. }
  rewrite E in *. destruct kf as [|kf]; [lia|]. rewrite lowF_S, paren_app.
  rewrite notP_head by reflexivity.
  unfold palt. rewrite filter_atom_nonkw by reflexivity.
  unfold parenP. cbn [eat]. change (40 =? 40)%N with true. cbv iota.
  rewrite skip_spaces_app_ws by apply ws0_sp.
  rewrite skip_spaces_nsp by (apply fpp_nsp; assumption).
  unfold paren in Hf. cbn [length] in Hf. rewrite !app_length in Hf.
  destruct f as [|f]; [lia|].
  rewrite HH.
  - rewrite skip_spaces_app_ws by apply ws0_sp. rewrite skip_spaces_nsp by reflexivity.
    cbn [eat]. change (41 =? 41)%N with true. reflexivity.
  - lia.
  - apply hstop_close.
  - apply stopw_close. reflexivity.
  - apply stopw_close. reflexivity.
Qed.

Lemma stopw_ws1_lit word word' s :
  match lit word, lit word' with
  | x :: _, c :: _ => (x =? c)%N = false /\ is_space c = false
  | _, _ => False
  end -> stopw word (po_ws1 o ++ lit word' ++ s).
Proof.
  intros H. destruct (lit word) as [|x w] eqn:E; [contradiction|].
  destruct (lit word') as [|c w']; [contradiction|]. destruct H as [H1 H2]. cbn [app].
  apply stopw_ws; [apply ws1_sp | exact H2 |]. rewrite E. apply no_word_head, H1.
Qed.

Lemma notP_quote lowk q k : notP lowk (quote_str o q ++ k) = PFail.
Proof.
  rewrite quote_str_eq. cbn [app]. apply notP_head. destruct (qchar_cases o) as [-> | ->]; reflexivity.
Qed.

Theorem levels_rt g : WF g -> Lprop g /\ Mprop g /\ Hprop g.
Proof.
  induction 1 as [kind t Hk | g Hg IH | a b Ha IHa Hb IHb | a b Ha IHa Hb IHb].
  - (* keyword *)
    assert (HL : Lprop (FKw kind t)).
    { intros f kf k Hf Hkf Hs. rewrite (fpp_ctx o 3) in *. cbn [flevel Nat.ltb Nat.leb] in *.
      destruct kf as [|kf]; [lia|]. rewrite lowF_S. destruct kind.
      - rewrite fpp_exact. rewrite notP_quote.
        unfold palt. rewrite filter_atom_quoted; [reflexivity|].
        cbn [wf_keyword] in Hk. apply negb_true_iff in Hk. exact Hk.
      - rewrite fpp_wild. destruct (wf_kw_no_word t k Hk Hs) as (Hn & _ & _).
        rewrite notP_no_word by assumption. unfold palt. rewrite filter_atom_kw by assumption. reflexivity. }
    assert (HM : Mprop (FKw kind t)) by (apply L_to_M; [cbn; lia | exact HL]).
    repeat split; try assumption. apply M_to_H; [cbn; lia | exact HM].
  - (* NOT *)
    destruct IH as (IHL & _ & _).
    assert (HL : Lprop (FNot g)).
    { intros f kf k Hf Hkf Hs. rewrite (fpp_ctx o 3) in *. cbn [flevel Nat.ltb Nat.leb] in *.
      rewrite fpp_not in *. rewrite !app_length in Hf, Hkf.
      change (length (lit "NOT")) with 3 in Hf, Hkf.
      destruct kf as [|kf]; [lia|]. rewrite lowF_S. rewrite <- !app_assoc.
      unfold notP at 1. rewrite strip_prefix_app. rewrite ms1_ws by (apply ws1_sp || apply ws1_ne).
      rewrite skip_spaces_nsp by (apply fpp_nsp; assumption).
      unfold pmap. rewrite IHL by (assumption || lia). reflexivity. }
    assert (HM : Mprop (FNot g)) by (apply L_to_M; [cbn; lia | exact HL]).
    repeat split; try assumption. apply M_to_H; [cbn; lia | exact HM].
  - (* AND *)
    destruct IHa as (IHLa & _ & _). destruct IHb as (IHLb & _ & _).
    assert (HM : Mprop (FAnd [a; b])).
    { intros f k Hf Hs Hand. rewrite (fpp_ctx o 2) in *. cbn [flevel Nat.ltb Nat.leb] in *.
      rewrite fpp_and in *. rewrite !app_length in Hf. rewrite <- !app_assoc.
      unfold midF.
      apply (then_opt_some "AND" _ false) with (w := po_ws1 o) (r3 := fpp o 3 b ++ k).
      - reflexivity.
      - apply ws1_sp.
      - apply ws1_ne.
      - apply fpp_nsp; assumption.
      - apply IHLa; [lia | lia | apply hstop_ws1].
      - apply IHLb; [lia | lia | assumption]. }
    assert (HH : Hprop (FAnd [a; b])) by (apply M_to_H; [cbn; lia | exact HM]).
    repeat split; try assumption. apply H_to_L; [constructor; assumption | cbn; lia | exact HH].
  - (* OR *)
    destruct IHa as (_ & IHMa & _). destruct IHb as (_ & IHMb & _).
    assert (HH : Hprop (FOr [a; b])).
    { intros f k Hf Hs Hand Hor. rewrite fpp_or in *. rewrite !app_length in Hf. rewrite <- !app_assoc.
      rewrite p_filter_S.
      apply (then_opt_some "OR" _ true) with (w := po_ws1 o) (r3 := fpp o 2 b ++ k).
      - reflexivity.
      - apply ws1_sp.
      - apply ws1_ne.
      - apply fpp_nsp; assumption.
      - apply IHMa; [lia | apply hstop_ws1 |]. apply stopw_ws1_lit. split; reflexivity.
      - apply IHMb; [lia | assumption | assumption]. }
    assert (HL : Lprop (FOr [a; b])) by (apply H_to_L; [constructor; assumption | cbn; lia | exact HH]).
    repeat split; try assumption. apply L_to_M; [cbn; lia | exact HL].
Qed.

End RT.

(** * the search loop *)
Lemma search_stop_hstop rest : search_stop rest = true -> hstop rest = true.
Proof.
  unfold search_stop. intros H. apply andb_prop in H as [H _].
  destruct rest as [|c r]; [reflexivity|]. apply orb_prop in H as [H|H].
  - apply hstop_space, H.
  - apply N.eqb_eq in H. subst c. reflexivity.
Qed.

Lemma search_stop_stopw word rest :
  match lit word with x :: _ => (x =? 124)%N = false | [] => False end ->
  search_stop rest = true -> stopw word rest.
Proof.
  intros Hw H. unfold search_stop in H. apply andb_prop in H as [_ H].
  intros u r1 Hms. apply ms1_inv in Hms as [-> _].
  destruct (skip_spaces rest) as [|c r].
  - destruct (lit word); [contradiction|]. intros r. cbn [strip_prefix]. discriminate.
  - apply N.eqb_eq in H. subst c. apply no_word_lit_head, Hw.
Qed.

Lemma search_stop_end rest :
  search_stop rest = true -> end_of_query (skip_spaces rest) = POk tt (skip_spaces rest).
Proof.
  unfold search_stop. intros H. apply andb_prop in H as [_ H].
  unfold end_of_query. rewrite skip_spaces_idem.
  destruct (skip_spaces rest) as [|c r]; [reflexivity|]. rewrite H. reflexivity.
Qed.

Section Top.
Variable o : popts.
Hypothesis Ho : popts_ok o = true.

Lemma top_cons f g fs rest :
  fpp_top o (f :: g :: fs) ++ rest = fpp o 1 f ++ po_ws1 o ++ (fpp_top o (g :: fs) ++ rest).
Proof.
  change (fpp_top o (f :: g :: fs)) with (fpp o 1 f ++ po_ws1 o ++ fpp_top o (g :: fs)).
  rewrite <- !app_assoc. reflexivity.
Qed.

Lemma top_one f : fpp_top o [f] = fpp o 1 f.
Proof. reflexivity. Qed.

Lemma top_head f fs rest : WF f ->
  exists c r, fpp_top o (f :: fs) ++ rest = c :: r /\ is_space c = false /\ (c =? 124)%N = false.
Proof.
  intros Hf. destruct (fpp_head o f Hf 1) as (c & r & E & Hc).
  destruct fs as [|g fs].
  - rewrite top_one, E. exists c; eexists; split; [reflexivity | exact Hc].
  - rewrite top_cons, E. exists c; eexists; split; [reflexivity | exact Hc].
Qed.

Lemma top_no_word f fs rest : WF f -> hstop rest = true ->
  no_word (lit "AND") (fpp_top o (f :: fs) ++ rest) /\ no_word (lit "OR") (fpp_top o (f :: fs) ++ rest).
Proof.
  intros Hf Hr. destruct fs as [|g fs].
  - rewrite top_one. apply fpp_no_word; assumption.
  - rewrite top_cons. apply fpp_no_word; [assumption | assumption | apply hstop_ws1; assumption].
Qed.

Lemma search_step f k fu acc :
  WF f -> hstop k = true -> stopw "AND" k -> stopw "OR" k ->
  search_loop (S fu) (fpp o 1 f ++ k) acc = search_loop fu (skip_spaces k) (f :: acc).
Proof.
  intros Hf Hk Hand Hor. cbn [search_loop].
  destruct (fpp_head o f Hf 1) as (c & r & E & Hc & H124).
  assert (Hend : end_of_query (fpp o 1 f ++ k) = PFail).
  { unfold end_of_query. rewrite E. cbn [app skip_spaces]. rewrite Hc, H124. reflexivity. }
  rewrite Hend.
  rewrite skip_spaces_nsp by (apply fpp_nsp; assumption).
  unfold high_filter.
  destruct (levels_rt o Ho f Hf) as (_ & _ & HH).
  rewrite HH; [| rewrite app_length; lia | assumption | assumption | assumption].
  assert (Hlen : Nat.eqb (length (skip_spaces k)) (length (fpp o 1 f ++ k)) = false).
  { apply Nat.eqb_neq. pose proof (skip_spaces_len k). rewrite app_length, E. cbn [length]. lia. }
  rewrite Hlen. reflexivity.
Qed.

Lemma search_loop_rt fs : fs <> [] -> Forall WF fs ->
  forall rest, search_stop rest = true ->
  forall fuel acc, length (fpp_top o fs ++ rest) < fuel ->
  search_loop fuel (fpp_top o fs ++ rest) acc = POk (FAnd (rev acc ++ fs)) (skip_spaces rest).
Proof.
  induction fs as [|f fs IH]; [congruence|]. intros _ Hall rest Hrest fuel acc Hfuel.
  inversion Hall as [|x l Hf Hfs]; subst x l.
  destruct fuel as [|fu]; [lia|].
  destruct fs as [|g fs].
  - rewrite top_one in *. rewrite search_step; try assumption.
    + destruct (fpp_head o f Hf 1) as (c & r & E & _). rewrite app_length, E in Hfuel. cbn [length] in Hfuel.
      destruct fu as [|fu]; [lia|]. cbn [search_loop]. rewrite search_stop_end by assumption.
      cbn [rev]. reflexivity.
    + apply search_stop_hstop, Hrest.
    + apply search_stop_stopw; [reflexivity | assumption].
    + apply search_stop_stopw; [reflexivity | assumption].
  - rewrite top_cons in *.
    inversion Hfs as [|x l Hg Hgs]; subst x l.
    destruct (top_head g fs rest Hg) as (c & r & E & Hc & H124).
    destruct (top_no_word g fs rest Hg (search_stop_hstop rest Hrest)) as [Nand Nor].
    rewrite search_step; try assumption.
    + rewrite skip_spaces_app_ws by (apply ws1_sp; assumption).
      rewrite skip_spaces_nsp by (rewrite E; exact Hc).
      rewrite IH; try assumption; try congruence.
      * cbn [rev]. rewrite <- app_assoc. reflexivity.
      * rewrite !app_length in Hfuel. rewrite !app_length. pose proof (ws1_ne o Ho) as Hne.
        destruct (po_ws1 o); [congruence|]. cbn [length] in Hfuel. lia.
    + apply hstop_ws1; assumption.
    + rewrite E in *. apply stopw_ws; [apply ws1_sp; assumption | exact Hc | exact Nand].
    + rewrite E in *. apply stopw_ws; [apply ws1_sp; assumption | exact Hc | exact Nor].
Qed.

End Top.

Lemma forallb_WF fs : forallb wf_filter fs = true -> Forall WF fs.
Proof.
  induction fs as [|f fs IH]; cbn [forallb]; intros H; [constructor|].
  apply andb_prop in H as [H1 H2]. constructor; [apply wf_WF, H1 | apply IH, H2].
Qed.

Theorem filter_roundtrip (o : popts) (fs : list filter) (rest : str) :
  popts_ok o = true -> fs <> [] -> forallb wf_filter fs = true -> search_stop rest = true ->
  parse_search (fpp_top o fs ++ rest) = POk (FAnd fs) (skip_spaces rest).
Proof.
  intros Ho Hne Hwf Hrest. unfold parse_search.
  rewrite (search_loop_rt o Ho fs Hne (forallb_WF fs Hwf) rest Hrest); [reflexivity | lia].
Qed.

Corollary filter_spellings_agree (o1 o2 : popts) (fs : list filter) (rest : str) :
  popts_ok o1 = true -> popts_ok o2 = true -> fs <> [] -> forallb wf_filter fs = true -> search_stop rest = true ->
  parse_search (fpp_top o1 fs ++ rest) = parse_search (fpp_top o2 fs ++ rest).
Proof.
  intros H1 H2 Hne Hwf Hrest. rewrite !filter_roundtrip by assumption. reflexivity.
Qed.

(** `*` alone (and the empty search) select everything *)
Theorem star_is_everything (rest : str) :
  search_stop rest = true -> parse_search (lit "*" ++ rest) = POk (FAnd []) (skip_spaces rest).
Proof.
  intros Hrest. unfold parse_search. change (lit "*" ++ rest) with (42%N :: rest).
  cbn [length search_loop].
  assert (Hend : end_of_query (42%N :: rest) = PFail) by reflexivity.
  rewrite Hend. rewrite (skip_spaces_nsp (42%N :: rest)) by reflexivity.
  unfold high_filter. cbn [length]. rewrite p_filter_S.
  assert (Hlow : lowF (p_filter (S (length rest))) (S (S (length rest))) (42%N :: rest) = POk None rest).
  { rewrite lowF_S, notP_head by reflexivity. unfold filter_atom, palt, pmap.
    assert (Hq : quoted_string (42%N :: rest) = PFail) by reflexivity. rewrite Hq.
    change (42%N :: rest) with ([42%N] ++ rest).
    rewrite take_while_kw; [reflexivity | reflexivity | apply search_stop_hstop, Hrest]. }
  rewrite (then_opt_none "OR" _ true (42%N :: rest) None rest).
  - assert (Hlen : Nat.eqb (length (skip_spaces rest)) (S (length rest)) = false).
    { apply Nat.eqb_neq. pose proof (skip_spaces_len rest). lia. }
    rewrite Hlen. rewrite search_stop_end by assumption. reflexivity.
  - unfold midF. apply then_opt_none; [exact Hlow|].
    apply search_stop_stopw; [reflexivity | assumption].
  - apply search_stop_stopw; [reflexivity | assumption].
Qed.

Example filter_examples :
  let k n := FKw KWild (lit n) in
  parse_search (lit "a b OR c | count") = POk (FAnd [k "a"; FOr [k "b"; k "c"]]) (lit "| count") /\
  parse_search (lit "a AND b OR NOT c") = POk (FAnd [FOr [FAnd [k "a"; k "b"]; FNot (k "c")]]) [] /\
  parse_search (lit "( a OR b ) AND ""x y""") = POk (FAnd [FAnd [FOr [k "a"; k "b"]; FKw KExact (lit "x y")]]) [].
Proof. vm_compute. repeat split; reflexivity. Qed.

(** * the parser's encoding of "every line" respects the Boolean reading of AND, OR and NOT
    ([None] = the filter that selects every line; this is what fix 291b1f9 repaired) *)
Definition osem (a : option filter) (line : str) : bool :=
  match a with Some g => fmatches g line | None => true end.

Theorem combine2_sem (is_or : bool) (a b : option filter) (line : str) :
  osem (combine2 is_or a b) line = if is_or then osem a line || osem b line else osem a line && osem b line.
Proof.
  destruct a as [x|], b as [y|], is_or; cbn [combine2 osem fmatches];
    rewrite ?orb_false_r, ?andb_true_r, ?orb_true_r; reflexivity.
Qed.

Theorem not_filter_sem (a : option filter) (line : str) :
  osem (not_filter a) line = negb (osem a line).
Proof. destruct a as [x|]; reflexivity. Qed.

Example star_operands :
  let k n := FKw KWild (lit n) in
  parse_search (lit "* OR foo") = POk (FAnd []) [] /\
  parse_search (lit "foo OR *") = POk (FAnd []) [] /\
  parse_search (lit "NOT *") = POk (FAnd [FNot (FAnd [])]) [] /\
  parse_search (lit "* AND foo") = POk (FAnd [k "foo"]) [] /\
  parse_search (lit "(* OR a) AND NOT (b OR """")") = POk (FAnd [FNot (FAnd [])]) [] /\
  forall line, fmatches (FAnd [FNot (FAnd [])]) line = false.
Proof. vm_compute. repeat split; reflexivity. Qed.

Print Assumptions filter_roundtrip.
Print Assumptions filter_spellings_agree.
Print Assumptions star_is_everything.
