(** Every spelling of every well-formed query compiles to exactly the filter and the stages it was
    printed from: nothing is lost, added, reordered or misread, whatever the layout, the quote
    style, the synonyms or the redundant parentheses.  (Per-stage round trips from
    StageRT_inline_proofs / StageRT_agg_proofs, assembled as in QueryRT_proofs.) *)
From Coq Require Import List ZArith NArith Bool Lia Arith.
From AG Require Import Str F64 Value Json Expr Ops Pipeline Filter Grammar Print
     Roundtrip_proofs FilterRoundtrip_proofs StageRT_inline_proofs StageRT_agg_proofs QueryRT_proofs.
Import ListNotations.
Open Scope string_scope.
Open Scope list_scope.
Open Scope nat_scope.

(** one stage, any kind, followed by the end of the query or a single pipe *)
Theorem stage_roundtrip (o : popts) (st : stage) (t k : str) :
  popts_ok o = true -> wf_stage o st = true -> stage_ok st = true -> pp_stage o st = Some t ->
  stage_stop k = true -> single_pipe k = true ->
  exists lo, p_oper (t ++ k) = POk lo (skip_spaces k) /\ check_lop true lo = Some [st].
Proof.
  intros Ho Hwf Hok Ht Hk1 Hk2. destruct (plain_inline st) eqn:Hpl.
  - exact (stage_roundtrip_inline o st t k Ho Hpl Hwf Hok Ht Hk1 Hk2).
  - exact (stage_roundtrip_rest o st t k Ho Hpl Hwf Hok Ht Hk1 Hk2).
Qed.

(** the whole query *)
Theorem query_roundtrip (o : popts) (fs : list filter) (stages : list stage) (t : str) :
  popts_ok o = true -> forallb wf_filter fs = true ->
  forallb (wf_stage o) stages = true -> forallb stage_ok stages = true ->
  pp_query o fs stages = Some t ->
  accepts t = Some (FAnd fs, stages).
Proof. exact (query_roundtrip_from_stages stage_roundtrip o fs stages t). Qed.

(** hence any two spellings of the same query compile identically *)
Corollary query_spellings_agree (o1 o2 : popts) (fs : list filter) (stages : list stage) (t1 t2 : str) :
  popts_ok o1 = true -> popts_ok o2 = true -> forallb wf_filter fs = true ->
  forallb (wf_stage o1) stages = true -> forallb (wf_stage o2) stages = true -> forallb stage_ok stages = true ->
  pp_query o1 fs stages = Some t1 -> pp_query o2 fs stages = Some t2 ->
  accepts t1 = accepts t2.
Proof.
  intros Ho1 Ho2 Hfs Hwf1 Hwf2 Hok Ht1 Ht2.
  rewrite (query_roundtrip o1 fs stages t1 Ho1 Hfs Hwf1 Hok Ht1).
  rewrite (query_roundtrip o2 fs stages t2 Ho2 Hfs Hwf2 Hok Ht2). reflexivity.
Qed.

Print Assumptions stage_roundtrip.
Print Assumptions query_roundtrip.
Print Assumptions query_spellings_agree.
