(** Entry point of the extracted runner: the cases of Sexp.run_case plus the entry points of the model files
    that are not (yet) stages of the pipeline model — the user regexes of [parse regex] (Regex.v), the percentile
    sketch (Ckms.v) and the three chrono renderings of a date (DateFmt.v).

    Which rendering a date gets on which path is read from the source ([Generated.date_forms]: the Serialize impl,
    [Display for Value] behind to_string/concat, [ValueDisplay] behind the text printers); the error bound of the
    sketch is [Generated.ckms_error]. *)
From Coq Require Import List ZArith NArith Bool String.
From AG Require Import Generated Str F64 Sexp Regex_entry RegexStage_entry Ckms Ckms_entry DateFmt DatePaths DateFmt_entry DurFmt_entry F64Display_entry.
Import ListNotations.
Open Scope string_scope.

(** the sketch's error bound as the source writes it (a decimal literal): [Ckms.ckms_error_f] *)

Definition datepath_case (c : sexp) : sexp :=
  match c with
  | SList [_; k; n] =>
      match atom_Z n with
      | Some ns =>
          let try (p : string) := if is_sym k p then date_form p else None in
          match try "Serialize", try "Display", try "ValueDisplay" with
          | Some f, _, _ | None, Some f, _ | None, None, Some f => sstr (f ns)
          | None, None, None => sym "unmodelled"
          end
      | None => sym "bad-case"
      end
  | _ => sym "bad-case"
  end.

Definition ckms_case2 (c : sexp) : sexp :=
  match c with
  | SList [h; qb; SList vs] =>
      match dec_bits qb, map_opt dec_bits vs with
      | Some q, Some vals =>
          if f_is_nan q || existsb f_is_nan vals then SList [sym "unmodelled"]
          else
            match ckms_run ckms_error_f vals q with
            | None => SList [sym "none"]
            | Some (r, v) => SList [sym "some"; sint r; sint (bits_of_f v)]
            end
      | _, _ => sym "bad-case"
      end
  | _ => sym "bad-case"
  end.

Definition run_case2 (c : sexp) : sexp :=
  match c with
  | SList (h :: _) =>
      if is_sym h "rxstage" then rxstage_case c
      else if is_sym h "rx" || is_sym h "rxline" || is_sym h "rxspan" then rx_case c
      else if is_sym h "ckms" then ckms_case2 c
      else if is_sym h "datefmt" then datefmt_case c
      else if is_sym h "durfmt" then durfmt_case c
      else if is_sym h "f64disp" then f64disp_case c
      else if is_sym h "datepath" then datepath_case c
      else run_case c
  | _ => run_case c
  end.

(** the decimal literal of the source is the double the agent's entry point hard-wires *)
Example ckms_error_is_the_double : bits_of_f ckms_error_f = 4562254508917369340%Z.
Proof. vm_compute. reflexivity. Qed.
