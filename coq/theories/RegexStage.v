(** The row operator [parse regex "<pattern>" [from <expr>] [nodrop] [noconvert]]
    ([Parse::process] in src/operator/parse.rs, for a [Keyword::new_regex]
    pattern): the captures of Regex.v bound into a row, with the row machinery
    of the wildcard form ([parse_op] in Ops.v). *)
From Coq Require Import List ZArith NArith Bool.
From AG Require Import Str Value Json Expr Ops Regex.
Import ListNotations.
Open Scope list_scope.

(** the value bound for one named group ([Parse::matches]): a group that took
    no part in the match is [Value::None]; the text of the others goes through
    [Value::from_string] unless [noconvert] *)
Definition rx_value (noconv : bool) (o : option str) : value :=
  match o with
  | Some s => if noconv then VStr s else from_string s
  | None => VNone
  end.

Definition rx_bindings (noconv : bool) (l : list (str * option str)) : list (str * value) :=
  map (fun b => (fst b, rx_value noconv (snd b))) l.

(** [(Some matches, _)]: every field is put, over whatever the row had *)
Definition rx_bind_row (kvs : list (str * value)) (r : record) : record :=
  fold_left (fun acc fv => rput (fst fv) (snd fv) acc) kvs r.

(** [(None, false)]: the fields the row does not have yet are set to None *)
Definition rx_nodrop_row (fields : list str) (r : record) : record :=
  fold_left (fun acc f => if has f (rdata r) then acc else rput f VNone acc) fields r.

(** [Unm]: the pattern is outside the subset of Regex.v (or is one that
    lang.rs rejects: invalid, or with unnamed capture groups), or the input
    text is not ASCII.  The pattern is compiled when the query is parsed,
    before any row is read, hence before [get_input] can fail. *)
Definition rx_stage (pat : str) (from : option expr) (nodrop noconv : bool)
           (r : record) : res (option record) :=
  match parse_regex pat with
  | None => Unm
  | Some rx =>
      match unnamed_count rx with
      | S _ => Unm
      | O =>
          do inp <- get_input r from;
          match parse_regex_captures pat (trim inp) with
          | RxUnsupported => Unm
          | RxFuel => Unm
          | RxNoMatch =>
              if nodrop then Ok (Some (rx_nodrop_row (regex_named rx) r)) else Ok None
          | RxMatch l => Ok (Some (rx_bind_row (rx_bindings noconv l) r))
          end
      end
  end.
