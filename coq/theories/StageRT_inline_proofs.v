(** Every spelling of a row operator (json, logfmt, parse, split, fields, where, timeslice, limit,
    total) is read back by the operator parser as exactly that stage. *)
From Coq Require Import List ZArith NArith Bool Lia Arith.
From AG Require Import Str F64 Value Json Expr Ops Pipeline Filter Grammar Print Roundtrip_proofs FilterRoundtrip_proofs.
From AG Require Spelling_proofs F64_exact_proofs Str_proofs.
Import ListNotations.
Open Scope string_scope.
Open Scope list_scope.
Open Scope nat_scope.

(** * the continuation of a stage *)
Definition dead (s : str) : Prop := match s with [] => True | c :: _ => c = 124%N end.
Definition hd_not_pipe (p : str) : Prop := match p with c :: _ => (c =? 124)%N = false | [] => False end.

Lemma dead_strip p s : dead s -> hd_not_pipe p -> strip_prefix p s = None.
Proof.
  destruct p as [|c p]; [intros _ []|]. destruct s as [|d s]; cbn [dead hd_not_pipe strip_prefix]; [reflexivity|].
  intros -> ->. reflexivity.
Qed.

Lemma stop_dead k : stage_stop k = true -> dead (skip_spaces k).
Proof.
  unfold stage_stop. destruct (skip_spaces k) as [|c r]; cbn [dead]; [auto|].
  intros H. now apply N.eqb_eq in H.
Qed.

Lemma stop_tail c k : is_space c = true -> stage_stop (c :: k) = true -> dead (skip_spaces k).
Proof. intros E H. apply stop_dead in H. cbn [skip_spaces] in H. now rewrite E in H. Qed.

Lemma stop_hd k : stage_stop k = true -> hdp (fun c => is_space c || (c =? 124)%N) k = true.
Proof.
  destruct k as [|c k']; [reflexivity|]. unfold stage_stop. cbn [skip_spaces hdp].
  destruct (is_space c); [reflexivity|]. cbn [orb]. auto.
Qed.

Lemma stop_nid k : stage_stop k = true -> nid k = true.
Proof.
  intros H. apply stop_hd in H. unfold nid. revert H. apply hdp_weaken. intros c H.
  apply orb_true_iff in H as [H|H].
  - apply space_cases in H. destruct H as [->|[->|[->| ->]]]; reflexivity.
  - apply N.eqb_eq in H as ->. reflexivity.
Qed.

Lemma stop_hd_gen (Q : N -> bool) k :
  Q 32%N = true -> Q 9%N = true -> Q 13%N = true -> Q 10%N = true -> Q 124%N = true ->
  stage_stop k = true -> hdp Q k = true.
Proof.
  intros Q1 Q2 Q3 Q4 Q5 H. apply stop_hd in H. revert H. apply hdp_weaken. intros c H.
  apply orb_true_iff in H as [H|H].
  - apply space_cases in H. destruct H as [->|[->|[->| ->]]]; assumption.
  - apply N.eqb_eq in H as ->. assumption.
Qed.

Lemma stop_eoq k : stage_stop k = true -> end_of_query k = POk tt k.
Proof.
  unfold stage_stop, end_of_query. destruct (skip_spaces k) as [|c r]; [reflexivity|]. now intros ->.
Qed.

Lemma stop_pipe k : stage_stop k = true -> expect_pipe k = POk tt k.
Proof. intros H. unfold expect_pipe, pexpect. now rewrite stop_eoq. Qed.

Lemma stop_skip k : stage_stop k = true -> stage_stop (skip_spaces k) = true.
Proof. unfold stage_stop. now rewrite Roundtrip_proofs.skip_spaces_idem. Qed.

Lemma stop_opt_ws1 {A} (p : parser A) k :
  stage_stop k = true -> (forall s, dead s -> p s = PFail) -> opt_ws1_then p k = POk None k.
Proof.
  intros H Hp. unfold opt_ws1_then, ms1. destruct k as [|c k']; [reflexivity|].
  destruct (is_space c) eqn:E; [|reflexivity].
  now rewrite (Hp _ (stop_tail c k' E H)).
Qed.

Lemma stop_word_then {A} w (p : parser A) k :
  stage_stop k = true -> hd_not_pipe (lit w) -> popt (word_then w p) k = POk None k.
Proof.
  intros H Hw. unfold popt, word_then, ms1. destruct k as [|c k']; [reflexivity|].
  destruct (is_space c) eqn:E; [|reflexivity]. cbn [pbind]. unfold ptag.
  now rewrite (dead_strip _ _ (stop_tail c k' E H) Hw).
Qed.

Lemma stop_kw_expr w k :
  stage_stop k = true -> hd_not_pipe (lit w) -> kw_expr w k = POk None k.
Proof.
  intros H Hw. unfold kw_expr, ms1. destruct k as [|c k']; [reflexivity|].
  destruct (is_space c) eqn:E; [|reflexivity].
  now rewrite (dead_strip _ _ (stop_tail c k' E H) Hw).
Qed.

(** the continuation may not start (after whitespace) with `||`: otherwise a final expression goes on *)
Definition not_oror (k : str) : bool :=
  match skip_spaces k with _ :: r => negb (head_is 124 r) | [] => true end.

Lemma stop_fol k : stage_stop k = true -> not_oror k = true -> fol 0 k.
Proof.
  intros H1 H2. apply stopb_fol. unfold stopb. apply andb_true_iff. split.
  - pose proof (stop_hd k H1) as H. destruct k as [|c k']; [reflexivity|]. cbn [hdp] in H.
    apply orb_true_iff in H as [-> | ->]; [reflexivity|]. now rewrite !orb_true_r.
  - unfold stage_stop in H1. unfold not_oror in H2. destruct (skip_spaces k) as [|c r]; [reflexivity|].
    cbn [stop_after_spaces]. rewrite H1, H2. cbn [andb]. now rewrite !orb_true_r.
Qed.

Lemma some_inj {A} (x y : A) : Some x = Some y -> x = y.
Proof. congruence. Qed.

(** * alternatives *)
Lemma palt_ok {A} (p q : parser A) s a r : p s = POk a r -> (p <|> q) s = POk a r.
Proof. intros H. unfold palt. now rewrite H. Qed.
Lemma palt_skip {A} (p q : parser A) s : p s = PFail -> (p <|> q) s = q s.
Proof. intros H. unfold palt. now rewrite H. Qed.
Lemma palt_fail2 {A} (p q : parser A) s : p s = PFail -> q s = PFail -> (p <|> q) s = PFail.
Proof. intros H1 H2. unfold palt. now rewrite H1. Qed.

Lemma p_parse_none s : strip_prefix (lit "parse") s = None -> p_parse s = PFail.
Proof. intros H. unfold p_parse, ptag. now rewrite H. Qed.
Lemma p_json_none name mk s : strip_prefix (lit name) s = None -> p_json name mk s = PFail.
Proof. intros H. unfold p_json, oper_0_args, ptag. now rewrite H. Qed.
Lemma p_fields_none s : strip_prefix (lit "fields") s = None -> p_fields s = PFail.
Proof. intros H. unfold p_fields, ptag. now rewrite H. Qed.
Lemma p_limit_none s : strip_prefix (lit "limit") s = None -> p_limit s = PFail.
Proof. intros H. unfold p_limit, oper_0_args, ptag. now rewrite H. Qed.
Lemma p_split_none s : strip_prefix (lit "split") s = None -> p_split s = PFail.
Proof. intros H. unfold p_split. now rewrite (pkw_none _ _ H). Qed.
Lemma p_timeslice_none s : strip_prefix (lit "timeslice") s = None -> p_timeslice s = PFail.
Proof. intros H. unfold p_timeslice. now rewrite (pkw_none _ _ H). Qed.
Lemma p_total_none s : strip_prefix (lit "total") s = None -> p_total s = PFail.
Proof. intros H. unfold p_total. now rewrite (pkw_none _ _ H). Qed.

Ltac kw_fails :=
  repeat apply palt_fail2;
  first [ apply p_parse_none | apply p_json_none | apply p_fields_none | apply p_limit_none
        | apply p_split_none | apply p_timeslice_none | apply p_total_none ]; reflexivity.

Lemma p_oper_inline s l r :
  nsp s -> inline_opers s = POk l r -> p_oper s = POk (LInline l) (skip_spaces r).
Proof.
  intros Hn H. unfold p_oper. rewrite (Roundtrip_proofs.skip_spaces_nsp _ Hn).
  unfold palt, pmap. rewrite H. reflexivity.
Qed.

Section Stages.
Variable o : popts.
Hypothesis Ho : popts_ok o = true.

Lemma w0_sp : forallb is_space (po_ws0 o) = true.
Proof. unfold popts_ok in Ho. apply andb_true_iff in Ho as [H _]. now apply andb_true_iff in H as [H _]. Qed.
Lemma w1_sp : forallb is_space (po_ws1 o) = true.
Proof. unfold popts_ok in Ho. apply andb_true_iff in Ho as [H _]. now apply andb_true_iff in H as [_ H]. Qed.
Lemma w1_ne : po_ws1 o <> [].
Proof. unfold popts_ok in Ho. apply andb_true_iff in Ho as [_ H]. now destruct (po_ws1 o). Qed.

Lemma ms1_w1 y : nsp y -> ms1 (po_ws1 o ++ y) = POk tt y.
Proof. apply Roundtrip_proofs.ms1_ws; [apply w1_ne|apply w1_sp]. Qed.

Lemma hd_w1 (Q : N -> bool) y :
  Q 32%N = true -> Q 9%N = true -> Q 13%N = true -> Q 10%N = true -> hdp Q (po_ws1 o ++ y) = true.
Proof.
  intros Q1 Q2 Q3 Q4. pose proof w1_ne as Hne. pose proof w1_sp as Hsp.
  destruct (po_ws1 o) as [|c w]; [congruence|]. cbn [forallb] in Hsp. apply andb_true_iff in Hsp as [Hc _].
  cbn [app hdp]. apply space_cases in Hc. destruct Hc as [->|[->|[->| ->]]]; assumption.
Qed.

Lemma rt e rest : wf_expr e = true -> fol 0 rest -> opt_expr (pp o 0 e ++ rest) = POk e rest.
Proof. intros. now apply expr_roundtrip_fol. Qed.

Lemma req_rt e rest : wf_expr e = true -> fol 0 rest -> req_expr (pp o 0 e ++ rest) = POk e rest.
Proof. intros. unfold req_expr, pexpect. now rewrite rt. Qed.

Lemma single_arg_ok e r : wf_expr e = true -> single_arg (arg_text o e ++ r) = POk e r.
Proof.
  intros Hwf. unfold arg_text, single_arg. cbn [app eat]. change (40 =? 40)%N with true. cbv iota.
  rewrite <- !app_assoc. cbn [app].
  rewrite skip_ws_nsp; [|apply w0_sp|now apply nsp_app, nsp_pp].
  unfold pexpect. rewrite rt; [|exact Hwf|apply fol_ws; [apply w0_sp|apply fol_close]].
  rewrite skip_ws_nsp; [|apply w0_sp|reflexivity]. reflexivity.
Qed.

Lemma fol_w1 wd x : folops 0 (wd ++ x) -> fol 0 (po_ws1 o ++ wd ++ x).
Proof. apply fol_ws1; [apply w1_ne|apply w1_sp]. Qed.

(** ** where *)
Lemma where_rt e k :
  wf_expr e = true -> stage_stop k = true -> not_oror k = true ->
  inline_opers ((lit "where" ++ po_ws1 o ++ pp o 0 e) ++ k) = POk (LWhere (Some e)) (skip_spaces k).
Proof.
  intros Hwf Hk Hk2. rewrite <- !app_assoc. unfold inline_opers.
  rewrite palt_skip by kw_fails.
  unfold p_where. rewrite pkw_ok by (apply hd_w1; reflexivity). cbn [pbind].
  rewrite ms1_w1 by now apply nsp_app, nsp_pp.
  rewrite req_rt; [|exact Hwf|now apply stop_fol]. cbn [pbind].
  rewrite stop_pipe by now apply stop_skip. reflexivity.
Qed.

(** ** small facts about the printed pieces *)
Lemma space_not40 c : is_space c = true -> (c =? 40)%N = false.
Proof. intros H. apply space_cases in H. destruct H as [->|[->|[->| ->]]]; reflexivity. Qed.

Lemma w1_cons y : exists c r, po_ws1 o ++ y = c :: r /\ is_space c = true.
Proof.
  pose proof w1_ne as Hne. pose proof w1_sp as Hsp.
  destruct (po_ws1 o) as [|c w]; [congruence|]. cbn [forallb] in Hsp. apply andb_true_iff in Hsp as [Hc _].
  exists c, (w ++ y). split; [reflexivity|exact Hc].
Qed.

Lemma hd_ws (Q : N -> bool) ws y :
  forallb is_space ws = true ->
  Q 32%N = true -> Q 9%N = true -> Q 13%N = true -> Q 10%N = true -> hdp Q y = true -> hdp Q (ws ++ y) = true.
Proof.
  intros Hsp Q1 Q2 Q3 Q4 Hy. destruct ws as [|c w]; [exact Hy|].
  cbn [forallb] in Hsp. apply andb_true_iff in Hsp as [Hc _].
  cbn [app hdp]. apply space_cases in Hc. destruct Hc as [->|[->|[->| ->]]]; assumption.
Qed.

Lemma nsp_ident n r : nsp (ident_text o n ++ r).
Proof.
  unfold ident_text. destruct (safe_name n) eqn:Hs; [|reflexivity].
  unfold safe_name in Hs. destruct n as [|c n']; [discriminate|].
  do 4 (apply andb_true_iff in Hs as [Hs _]). cbn [app nsp]. now apply start_not_space.
Qed.

Lemma oper_0_args_w1 name y : oper_0_args name (lit name ++ po_ws1 o ++ y) = POk tt (po_ws1 o ++ y).
Proof.
  unfold oper_0_args, ptag. rewrite Roundtrip_proofs.strip_prefix_app. cbn [pbind].
  destruct (w1_cons y) as (c & r & -> & Hc). cbn [head_is]. now rewrite (space_not40 c Hc), Hc.
Qed.

Lemma oper_0_args_stop name k : stage_stop k = true -> oper_0_args name (lit name ++ k) = POk tt k.
Proof.
  intros Hk. unfold oper_0_args, ptag. rewrite Roundtrip_proofs.strip_prefix_app. cbn [pbind].
  pose proof (stop_hd k Hk) as Hh. destruct k as [|c k']; [reflexivity|]. cbn [hdp head_is] in *.
  destruct (is_space c) eqn:E.
  - now rewrite (space_not40 c E).
  - cbn [orb] in Hh. apply N.eqb_eq in Hh as ->. cbn. reflexivity.
Qed.

Lemma kw_from_some e R :
  wf_expr e = true -> fol 0 R -> kw_expr "from" (from_text o (Some e) ++ R) = POk (Some e) R.
Proof.
  intros Hwf HR. unfold from_text, kw_expr. rewrite <- !app_assoc.
  rewrite ms1_w1 by reflexivity. rewrite Roundtrip_proofs.strip_prefix_app.
  rewrite ms1_w1 by now apply nsp_app, nsp_pp.
  unfold pmap, pexpect. now rewrite rt.
Qed.

Lemma as_ident n k : nid k = true -> word_then "as" ident (as_text o n ++ k) = POk n k.
Proof.
  intros Hk. unfold as_text, word_then. rewrite <- !app_assoc.
  rewrite ms1_w1 by reflexivity. cbn [pbind]. unfold ptag. rewrite Roundtrip_proofs.strip_prefix_app. cbn [pbind].
  rewrite ms1_w1 by apply nsp_ident. cbn [pbind]. now apply ident_ok.
Qed.

Lemma as_req_ident n k : nid k = true -> word_then "as" req_ident (as_text o n ++ k) = POk n k.
Proof.
  intros Hk. unfold as_text, word_then. rewrite <- !app_assoc.
  rewrite ms1_w1 by reflexivity. cbn [pbind]. unfold ptag. rewrite Roundtrip_proofs.strip_prefix_app. cbn [pbind].
  rewrite ms1_w1 by apply nsp_ident. cbn [pbind]. unfold req_ident, pexpect. now rewrite ident_ok.
Qed.

(** ** json, logfmt *)
Lemma json_rt name mk f k :
  wf_opt f = true -> stage_stop k = true -> (f <> None -> not_oror k = true) ->
  p_json name mk ((lit name ++ from_text o f) ++ k) = POk (LStage (mk f)) k.
Proof.
  intros Hwf Hk Hk2. rewrite <- app_assoc. unfold p_json. destruct f as [e|].
  - unfold from_text at 1. rewrite <- !app_assoc. rewrite oper_0_args_w1. cbn [pbind].
    replace (po_ws1 o ++ lit "from" ++ po_ws1 o ++ pp o 0 e ++ k) with (from_text o (Some e) ++ k)
      by (unfold from_text; now rewrite <- !app_assoc).
    rewrite kw_from_some; [|exact Hwf|apply stop_fol; [exact Hk|apply Hk2; discriminate]].
    cbn [pbind]. now rewrite stop_pipe.
  - cbn [from_text app]. rewrite oper_0_args_stop by exact Hk. cbn [pbind].
    rewrite stop_kw_expr; [|exact Hk|reflexivity]. cbn [pbind]. now rewrite stop_pipe.
Qed.

(** ** total *)
Lemma total_rt e n k :
  wf_expr e = true -> stage_stop k = true ->
  p_total ((lit "total" ++ arg_text o e ++ as_text o n) ++ k) = POk (LStage (STotal e n)) k.
Proof.
  intros Hwf Hk. rewrite <- !app_assoc. unfold p_total.
  rewrite pkw_ok by reflexivity. cbn [pbind].
  unfold req_single_arg, pexpect. rewrite single_arg_ok by exact Hwf. cbn [pbind].
  unfold popt. rewrite as_req_ident by now apply stop_nid. cbn [pbind].
  now rewrite stop_pipe.
Qed.

(** ** timeslice *)
Lemma i64_parse_fail R :
  hdp (fun c => negb (is_digit c) && negb (c =? 45)%N) R = true -> i64_parse R = PFail.
Proof.
  intros H. unfold i64_parse. destruct R as [|c R']; [reflexivity|]. cbn [hdp] in H.
  apply andb_true_iff in H as [H1 H2]. apply negb_true_iff in H1, H2.
  cbn [strip_minus]. rewrite H2. cbn [take_digits]. now rewrite H1.
Qed.

Lemma duration_ok ns R :
  in_i64 ns = true -> dur_ok ns = true ->
  hdp (fun c => negb (is_digit c) && negb (c =? 45)%N) R = true ->
  duration (dur_text ns ++ R) = POk ns R.
Proof.
  intros Hin Hd HR. unfold duration, duration_fragment, dur_text. rewrite <- app_assoc.
  rewrite i64_parse_ok; [|exact Hin|reflexivity]. cbn [pbind].
  unfold Generated.duration_suffixes. cbn [dur_suffix]. rewrite Roundtrip_proofs.strip_prefix_app.
  change (dur_unit_ns "ns") with (Some 1%Z). cbv iota. rewrite Z.mul_1_r, Hd. cbn [pbind].
  assert (E : duration_more (length R) ns R = POk ns R).
  { destruct (length R); [reflexivity|]. cbn [duration_more]. unfold duration_fragment.
    now rewrite (i64_parse_fail R HR). }
  rewrite E. cbn [pbind]. now rewrite Hd.
Qed.

Lemma timeslice_rt e ns n k :
  wf_expr e = true -> in_i64 ns = true -> dur_ok ns = true -> stage_stop k = true ->
  p_timeslice ((lit "timeslice" ++ arg_text o e ++ po_ws1 o ++ dur_text ns
                ++ (match n with Some x => as_text o x | None => [] end)) ++ k)
  = POk (LTimeslice e (Some ns) n) k.
Proof.
  intros Hwf Hin Hd Hk. rewrite <- !app_assoc. unfold p_timeslice.
  rewrite pkw_ok by reflexivity. cbn [pbind].
  unfold req_single_arg, pexpect. rewrite single_arg_ok by exact Hwf. cbn [pbind].
  unfold opt_ws1_then. rewrite ms1_w1.
  2:{ destruct (Z_to_str_spec ns) as (d & ds & E & Hds & _). unfold dur_text. rewrite E.
      cbn [forallb] in Hds. apply andb_true_iff in Hds as [Hd0 _].
      destruct (ns <? 0)%Z; cbn [app nsp]; [reflexivity|now apply digit_not_space]. }
  rewrite duration_ok; [|exact Hin|exact Hd|].
  2:{ destruct n as [x|].
      - unfold as_text. rewrite <- !app_assoc. apply hd_w1; reflexivity.
      - cbn [app]. apply stop_hd_gen; [reflexivity..|exact Hk]. }
  cbn [pbind]. destruct n as [x|].
  - unfold popt. rewrite as_ident by now apply stop_nid. cbn [pbind]. now rewrite stop_pipe.
  - cbn [app]. rewrite stop_word_then; [|exact Hk|reflexivity]. cbn [pbind]. now rewrite stop_pipe.
Qed.
(** ** split *)
Lemma fol_nil : fol 0 [].
Proof. apply stopb_fol. reflexivity. Qed.

Lemma pp_inj x a : wf_expr x = true -> wf_expr a = true -> pp o 0 x = pp o 0 a -> x = a.
Proof.
  intros Hx Ha E. pose proof (rt x [] Hx fol_nil) as H1. pose proof (rt a [] Ha fol_nil) as H2.
  rewrite E, H2 in H1. now injection H1.
Qed.

Lemma nsp_quote s r : nsp (quote_str o s ++ r).
Proof. unfold quote_str. destruct (po_dq o); reflexivity. Qed.

Lemma on_ok sep R :
  popt (word_then "on" req_quoted_string) (po_ws1 o ++ lit "on" ++ po_ws1 o ++ quote_str o sep ++ R)
  = POk (Some sep) R.
Proof.
  unfold popt, word_then. rewrite ms1_w1 by reflexivity. cbn [pbind]. unfold ptag.
  rewrite Roundtrip_proofs.strip_prefix_app. cbn [pbind]. rewrite ms1_w1 by apply nsp_quote. cbn [pbind].
  unfold req_quoted_string, pexpect. now rewrite quoted_string_ok.
Qed.

Lemma as_expr_ok x k :
  wf_expr x = true -> fol 0 k ->
  popt (word_then "as" req_expr) (po_ws1 o ++ lit "as" ++ po_ws1 o ++ pp o 0 x ++ k) = POk (Some x) k.
Proof.
  intros Hwf Hk. unfold popt, word_then. rewrite ms1_w1 by reflexivity. cbn [pbind]. unfold ptag.
  rewrite Roundtrip_proofs.strip_prefix_app. cbn [pbind].
  rewrite ms1_w1 by now apply nsp_app, nsp_pp. cbn [pbind]. now rewrite req_rt.
Qed.

Lemma single_arg_w1 y : popt single_arg (po_ws1 o ++ y) = POk None (po_ws1 o ++ y).
Proof.
  unfold popt, single_arg. destruct (w1_cons y) as (c & r & -> & Hc). cbn [eat].
  now rewrite (space_not40 c Hc).
Qed.

Definition ends_with_expr (st : stage) : bool :=
  match st with
  | SJson (Some _) | SLogfmt (Some _) | SWhere _ => true
  | SParse _ [] (Some _) false false => true
  | SSplit _ arg (Some x) =>
      match arg with Some a => negb (str_eqb (pp o 0 x) (pp o 0 a)) | None => true end
  | _ => false
  end.

Lemma split_rt sep arg out t k :
  wf_opt arg = true -> wf_opt out = true -> (out = None -> arg = None) ->
  stage_stop k = true -> (ends_with_expr (SSplit sep arg out) = true -> not_oror k = true) ->
  pp_stage o (SSplit sep arg out) = Some t ->
  p_split (t ++ k) = POk (LStage (SSplit sep arg out)) k.
Proof.
  intros Ha Hx Hoa Hk Hk2 Ht. cbv beta iota zeta delta [pp_stage] in Ht. apply some_inj in Ht. subst t.
  rewrite <- !app_assoc. unfold p_split.
  destruct arg as [a|]; cbv beta iota.
  - rewrite pkw_ok by reflexivity. cbn [pbind].
    unfold popt at 1. rewrite single_arg_ok by exact Ha. cbn [pbind].
    rewrite on_ok. cbn [pbind].
    destruct out as [x|]; [|specialize (Hoa eq_refl); discriminate].
    cbn [ends_with_expr] in Hk2. destruct (str_eqb (pp o 0 x) (pp o 0 a)) eqn:E.
    + apply Str_proofs.str_eqb_eq in E. apply pp_inj in E; [|exact Hx|exact Ha]. subst x.
      cbn [app]. rewrite stop_word_then; [|exact Hk|reflexivity]. cbn [pbind].
      now rewrite stop_pipe.
    + rewrite <- !app_assoc. rewrite as_expr_ok; [|exact Hx|apply stop_fol; [exact Hk|now apply Hk2]].
      cbn [pbind]. now rewrite stop_pipe.
  - cbn [app]. rewrite pkw_ok by (apply hd_w1; reflexivity). cbn [pbind].
    rewrite single_arg_w1. cbn [pbind]. rewrite on_ok. cbn [pbind].
    destruct out as [x|].
    + rewrite <- !app_assoc. rewrite as_expr_ok; [|exact Hx|apply stop_fol; [exact Hk|now apply Hk2]].
      cbn [pbind]. now rewrite stop_pipe.
    + cbn [app]. rewrite stop_word_then; [|exact Hk|reflexivity]. cbn [pbind].
      now rewrite stop_pipe.
Qed.

(** ** lists of names *)
Definition vsep : parser unit := fun s => LET _u, r <- ms0 s IN ptag "," r.
Definition vp : parser str := fun s => ident (skip_spaces s).
Definition nm (m : str) : str := (po_ws0 o ++ 44%N :: po_ws0 o) ++ ident_text o m.

Lemma sep_join_cons2 sep (x y : str) r : sep_join sep (x :: y :: r) = x ++ sep ++ sep_join sep (y :: r).
Proof. reflexivity. Qed.

Lemma names_cons n l : names_text o (n :: l) = ident_text o n ++ flat_map nm l.
Proof.
  unfold names_text. revert n. induction l as [|m l IH]; intros n.
  - cbn. now rewrite app_nil_r.
  - cbn [map flat_map]. rewrite sep_join_cons2.
    change (ident_text o m :: map (ident_text o) l) with (map (ident_text o) (m :: l)).
    rewrite IH. unfold nm. now rewrite <- !app_assoc.
Qed.

Lemma len_tail l R : length l <= length (flat_map nm l ++ R).
Proof.
  induction l as [|m l IH]; cbn [flat_map length]; [lia|].
  unfold nm at 1. rewrite ?app_length in *. cbn [length]. rewrite ?app_length. lia.
Qed.

Lemma nid_tail l R : nid R = true -> nid (flat_map nm l ++ R) = true.
Proof.
  intros HR. destruct l as [|m l]; [exact HR|]. cbn [flat_map]. unfold nm at 1. rewrite <- !app_assoc.
  unfold nid. apply hd_ws; [apply w0_sp|reflexivity..].
Qed.

Lemma ptag_comma x : ptag "," (44%N :: x) = POk tt x.
Proof. reflexivity. Qed.

Lemma more_ok l : forall fuel acc R,
  length l <= fuel -> nid R = true -> ptag "," (skip_spaces R) = PFail ->
  sep_list_more fuel vsep vp (flat_map nm l ++ R) acc = POk (rev acc ++ l) R.
Proof.
  induction l as [|m l IH]; intros fuel acc R Hf HR Hc.
  - cbn [flat_map app]. rewrite app_nil_r. destruct fuel; [reflexivity|]. cbn [sep_list_more].
    unfold vsep at 1, ms0. cbn [pbind]. now rewrite Hc.
  - destruct fuel as [|fuel]; [cbn in Hf; lia|]. cbn [flat_map sep_list_more].
    unfold nm at 1. rewrite <- !app_assoc. cbn [app].
    unfold vsep at 1, ms0. cbn [pbind]. rewrite skip_ws_nsp; [|apply w0_sp|reflexivity].
    rewrite ptag_comma. unfold vp at 1.
    rewrite skip_ws_nsp; [|apply w0_sp|apply nsp_ident].
    rewrite ident_ok by (intros _; now apply nid_tail).
    rewrite IH; [|cbn [length] in Hf; lia|exact HR|exact Hc].
    cbn [rev]. now rewrite <- app_assoc.
Qed.

Lemma var_list_ok ws n l R :
  forallb is_space ws = true -> nid R = true -> ptag "," (skip_spaces R) = PFail ->
  var_list (ws ++ names_text o (n :: l) ++ R) = POk (n :: l) R.
Proof.
  intros Hws HR Hc. change var_list with (sep_list1 vsep vp). unfold sep_list1.
  rewrite names_cons, <- app_assoc. unfold vp at 1.
  rewrite skip_ws_nsp; [|exact Hws|apply nsp_ident].
  rewrite ident_ok by (intros _; now apply nid_tail). cbn [pbind].
  rewrite more_ok; [reflexivity|apply len_tail|exact HR|exact Hc].
Qed.

Lemma stop_nocomma k : stage_stop k = true -> ptag "," (skip_spaces k) = PFail.
Proof. intros Hk. unfold ptag. now rewrite (dead_strip _ _ (stop_dead k Hk)). Qed.

(** ** fields *)
Lemma ident_not_space c : is_ident_char c = true -> is_space c = false.
Proof.
  intros H. destruct (is_space c) eqn:E; [|reflexivity].
  apply space_cases in E. destruct E as [->|[->|[->| ->]]]; discriminate H.
Qed.

Lemma word_no_space w : forall n R,
  forallb is_ident_char w = true -> forallb is_ident_char n = true -> nid R = true -> str_eqb n w = false ->
  match strip_prefix w (n ++ R) with Some (c :: _) => is_space c = false | _ => True end.
Proof.
  induction w as [|x w IH]; intros n R Hw Hn HR Hne.
  - cbn [strip_prefix]. destruct n as [|c n']; [discriminate Hne|]. cbn [app].
    cbn [forallb] in Hn. apply andb_true_iff in Hn as [Hc _]. now apply ident_not_space.
  - cbn [forallb] in Hw. apply andb_true_iff in Hw as [Hx Hw].
    destruct n as [|c n'].
    + cbn [app strip_prefix]. destruct R as [|d R']; [exact I|].
      destruct (N.eqb_spec x d) as [<-|_]; [|exact I].
      unfold nid in HR. cbn [hdp] in HR. now rewrite Hx in HR.
    + cbn [app strip_prefix]. cbn [forallb] in Hn. apply andb_true_iff in Hn as [Hc Hn].
      cbn [str_eqb] in Hne. destruct (N.eqb_spec x c) as [<-|_]; [|exact I].
      rewrite N.eqb_refl in Hne. cbn [andb] in Hne. now apply IH.
Qed.

Lemma tag_skip t b rest s :
  strip_prefix (lit t) s = None -> first_word_tag ((t, b) :: rest) s = first_word_tag rest s.
Proof. intros H. cbn [first_word_tag]. now rewrite H. Qed.

Lemma word_tag_skip t rest s :
  match strip_prefix (lit t) s with Some (c :: _) => is_space c = false | _ => True end ->
  first_word_tag ((t, true) :: rest) s = first_word_tag rest s.
Proof.
  intros H. cbn [first_word_tag]. destruct (strip_prefix (lit t) s) as [[|c r]|]; [reflexivity| |reflexivity].
  now rewrite H.
Qed.

Lemma fwt_nil s : first_word_tag [] s = None.
Proof. reflexivity. Qed.

Lemma fields_mode_fail n R :
  mode_word n = false -> nid R = true -> fields_mode (ident_text o n ++ R) = PFail.
Proof.
  intros Hm HR. unfold ident_text. destruct (safe_name n) eqn:Hs; [|reflexivity].
  unfold mode_word in Hm. apply orb_false_iff in Hm as [Hm H4]. apply orb_false_iff in Hm as [Hm H3].
  apply orb_false_iff in Hm as [H1 H2].
  unfold safe_name in Hs. destruct n as [|c n']; [discriminate|].
  do 3 (apply andb_true_iff in Hs as [Hs _]). apply andb_true_iff in Hs as [Hc Hn].
  assert (Hall : forallb is_ident_char (c :: n') = true).
  { cbn [forallb]. now rewrite (starts_is_ident c Hc), Hn. }
  unfold fields_mode, Generated.fields_mode_tags. cbn [fields_mode_from].
  rewrite tag_skip.
  2:{ cbn [app]. change (lit "+") with [43%N]. cbn [strip_prefix]. rewrite N.eqb_sym.
      now rewrite (starts_not c 43%N Hc eq_refl). }
  rewrite word_tag_skip by (apply word_no_space; [reflexivity|exact Hall|exact HR|exact H1]).
  rewrite word_tag_skip by (apply word_no_space; [reflexivity|exact Hall|exact HR|exact H2]).
  rewrite fwt_nil. cbv iota.
  rewrite tag_skip.
  2:{ cbn [app]. change (lit "-") with [45%N]. cbn [strip_prefix]. rewrite N.eqb_sym.
      now rewrite (starts_not c 45%N Hc eq_refl). }
  rewrite word_tag_skip by (apply word_no_space; [reflexivity|exact Hall|exact HR|exact H3]).
  rewrite word_tag_skip by (apply word_no_space; [reflexivity|exact Hall|exact HR|exact H4]).
  reflexivity.
Qed.

Lemma fields_rt only n l k :
  (only = true -> mode_word n = false) -> stage_stop k = true ->
  p_fields ((lit "fields" ++ po_ws1 o ++ (if only then [] else lit "except" ++ po_ws1 o)
             ++ names_text o (n :: l)) ++ k)
  = POk (LStage (SFields only (n :: l))) k.
Proof.
  intros Hm Hk. rewrite <- !app_assoc. unfold p_fields, ptag.
  rewrite Roundtrip_proofs.strip_prefix_app. cbn [pbind].
  destruct only.
  - cbn [app]. rewrite ms1_w1 by (rewrite names_cons, <- app_assoc; apply nsp_ident). cbn [pbind].
    unfold popt. rewrite names_cons at 1. rewrite <- app_assoc.
    rewrite fields_mode_fail; [|now apply Hm|apply nid_tail; now apply stop_nid].
    cbn [pbind].
    pose proof (var_list_ok [] n l k eq_refl (stop_nid k Hk) (stop_nocomma k Hk)) as Hv.
    cbn [app] in Hv. rewrite Hv. reflexivity.
  - rewrite <- !app_assoc. rewrite ms1_w1 by reflexivity. cbn [pbind]. unfold popt.
    destruct (w1_cons (names_text o (n :: l) ++ k)) as (c & r & E & Hc).
    destruct (Spelling_proofs.fields_mode_synonyms (po_ws1 o ++ names_text o (n :: l) ++ k)) as (_ & _ & _ & _ & H & _).
    { rewrite E. exact Hc. }
    rewrite H. cbn [pbind].
    rewrite (var_list_ok (po_ws1 o) n l k w1_sp (stop_nid k Hk) (stop_nocomma k Hk)). reflexivity.
Qed.
(** ** parse *)
Definition tailW (W : list str) (s : str) : Prop :=
  stage_stop s = true \/ exists wd x, In wd W /\ s = po_ws1 o ++ wd ++ x.

Lemma tailW_mono W W' s : incl W W' -> tailW W s -> tailW W' s.
Proof. intros Hi [H|(wd & x & Hin & E)]; [now left|right]. exists wd, x. split; [now apply Hi|exact E]. Qed.

Lemma tail_opt_none {A} (p : parser A) W s :
  tailW W s -> (forall s, dead s -> p s = PFail) ->
  (forall wd x, In wd W -> nsp (wd ++ x) /\ p (wd ++ x) = PFail) ->
  opt_ws1_then p s = POk None s.
Proof.
  intros [H|(wd & x & Hin & ->)] Hd HW; [now apply stop_opt_ws1|].
  destruct (HW wd x Hin) as [Hn Hp]. unfold opt_ws1_then. rewrite ms1_w1 by exact Hn. now rewrite Hp.
Qed.

Lemma tail_nid W s : tailW W s -> nid s = true.
Proof.
  intros [H|(wd & x & _ & ->)]; [now apply stop_nid|]. unfold nid. apply hd_w1; reflexivity.
Qed.

Lemma tail_nocomma W s :
  tailW W s -> (forall wd x, In wd W -> nsp (wd ++ x) /\ ptag "," (wd ++ x) = PFail) ->
  ptag "," (skip_spaces s) = PFail.
Proof.
  intros [H|(wd & x & Hin & ->)] HW; [now apply stop_nocomma|].
  destruct (HW wd x Hin) as [Hn Hp]. rewrite skip_ws_nsp; [exact Hp|apply w1_sp|exact Hn].
Qed.

Definition as_list : parser (list str) :=
  fun s => LET _a, x <- ms1 s IN LET _b, y <- ptag "as" x IN LET _c, z <- ms1 y IN var_list z.

Lemma tail_as_none W s :
  tailW W s -> (forall wd x, In wd W -> nsp (wd ++ x) /\ ptag "as" (wd ++ x) = PFail) ->
  popt as_list s = POk None s.
Proof.
  intros [H|(wd & x & Hin & ->)] HW.
  - unfold popt, as_list, ms1. destruct s as [|c s']; [reflexivity|].
    destruct (is_space c) eqn:E; [|reflexivity]. cbn [pbind]. unfold ptag.
    now rewrite (dead_strip _ _ (stop_tail c s' E H)).
  - destruct (HW wd x Hin) as [Hn Hp]. unfold popt, as_list. rewrite ms1_w1 by exact Hn. cbn [pbind].
    now rewrite Hp.
Qed.

Lemma dead_from_clause s : dead s -> from_clause s = PFail.
Proof. intros H. unfold from_clause, ptag. now rewrite (dead_strip _ _ H). Qed.

Lemma dead_ptag t s : hd_not_pipe (lit t) -> dead s -> ptag t s = PFail.
Proof. intros Ht H. unfold ptag. now rewrite (dead_strip _ _ H Ht). Qed.

Lemma from1_ok f R :
  wf_opt f = true -> (f <> None -> fol 0 R) -> (f = None -> opt_ws1_then from_clause R = POk None R) ->
  opt_ws1_then from_clause (from_text o f ++ R) = POk f R.
Proof.
  intros Hwf HR1 HR2. destruct f as [e|]; [|now apply HR2].
  unfold from_text, opt_ws1_then. rewrite <- !app_assoc. rewrite ms1_w1 by reflexivity.
  unfold from_clause, ptag. rewrite Roundtrip_proofs.strip_prefix_app. cbn [pbind].
  rewrite ms1_w1 by now apply nsp_app, nsp_pp. cbn [pbind].
  rewrite req_rt; [reflexivity|exact Hwf|apply HR1; discriminate].
Qed.

Lemma regex_none s R :
  popt (fun s => LET _a, x <- ptag "regex" s IN ms1 x) (quote_str o s ++ R) = POk None (quote_str o s ++ R).
Proof. unfold popt, ptag, quote_str. destruct (po_dq o); reflexivity. Qed.

Lemma folops_as x : folops 0 (lit "as" ++ x).
Proof. repeat split; intros; vm_compute; reflexivity. Qed.
Lemma folops_nodrop x : folops 0 (lit "nodrop" ++ x).
Proof. repeat split; intros; vm_compute; reflexivity. Qed.
Lemma folops_noconvert x : folops 0 (lit "noconvert" ++ x).
Proof. repeat split; intros; vm_compute; reflexivity. Qed.

Lemma parse_rt pat fields f nodrop noconv k :
  wf_opt f = true -> stage_stop k = true ->
  (ends_with_expr (SParse pat fields f nodrop noconv) = true -> not_oror k = true) ->
  p_parse ((lit "parse" ++ po_ws1 o ++ quote_str o pat ++ from_text o f
            ++ (match fields with [] => [] | _ => po_ws1 o ++ lit "as" ++ po_ws1 o ++ names_text o fields end)
            ++ (if nodrop then po_ws1 o ++ lit "nodrop" else [])
            ++ (if noconv then po_ws1 o ++ lit "noconvert" else [])) ++ k)
  = POk (LStage (SParse pat fields f nodrop noconv)) k.
Proof.
  intros Hwf Hk Hk2. rewrite <- !app_assoc.
  set (T3 := (if noconv then po_ws1 o ++ lit "noconvert" else []) ++ k).
  set (T2 := (if nodrop then po_ws1 o ++ lit "nodrop" else []) ++ T3).
  set (T1 := (match fields with [] => [] | _ => po_ws1 o ++ lit "as" ++ po_ws1 o ++ names_text o fields end) ++ T2).
  assert (H3 : tailW [lit "noconvert"] T3).
  { subst T3. destruct noconv; [right|now left]. exists (lit "noconvert"), k. split; [now left|].
    now rewrite <- !app_assoc. }
  assert (H2 : tailW [lit "nodrop"; lit "noconvert"] T2).
  { subst T2. destruct nodrop.
    - right. exists (lit "nodrop"), T3. split; [now left|]. now rewrite <- !app_assoc.
    - cbn [app]. revert H3. apply tailW_mono. intros w [<-|[]]. right. now left. }
  assert (HF : f <> None -> fol 0 T1).
  { intros Hf. subst T1. destruct fields as [|n l].
    - cbn [app]. subst T2. destruct nodrop.
      + rewrite <- !app_assoc. apply fol_w1, folops_nodrop.
      + cbn [app]. subst T3. destruct noconv.
        * rewrite <- !app_assoc. apply fol_w1, folops_noconvert.
        * cbn [app]. apply stop_fol; [exact Hk|]. apply Hk2. destruct f; [reflexivity|congruence].
    - rewrite <- !app_assoc. apply fol_w1, folops_as. }
  assert (HT1 : tailW [lit "as"; lit "nodrop"; lit "noconvert"] T1).
  { subst T1. destruct fields as [|n l].
    - cbn [app]. revert H2. apply tailW_mono. intros w Hw. now right.
    - right. exists (lit "as"), (po_ws1 o ++ names_text o (n :: l) ++ T2). split; [now left|].
      now rewrite <- !app_assoc. }
  unfold p_parse. unfold ptag at 1. rewrite Roundtrip_proofs.strip_prefix_app. cbn [pbind].
  rewrite ms1_w1 by apply nsp_quote. cbn [pbind].
  rewrite regex_none. cbn [pbind].
  unfold req_quoted_string, pexpect. rewrite quoted_string_ok. cbn [pbind].
  rewrite from1_ok; [|exact Hwf|exact HF|].
  2:{ intros _. apply (tail_opt_none from_clause _ _ HT1 dead_from_clause).
      intros wd x [<-|[<-|[<-|[]]]]; split; reflexivity. }
  cbn [pbind].
  change (fun s : str => LET _a, x <- ms1 s IN LET _b, y <- ptag "as" x IN LET _c, z <- ms1 y IN var_list z)
    with as_list.
  assert (HA : popt as_list T1 = POk (match fields with [] => None | _ => Some fields end) T2).
  { subst T1. destruct fields as [|n l].
    - cbn [app]. apply (tail_as_none _ _ H2). intros wd x [<-|[<-|[]]]; split; reflexivity.
    - rewrite <- !app_assoc. unfold popt, as_list. rewrite ms1_w1 by reflexivity. cbn [pbind].
      unfold ptag. rewrite Roundtrip_proofs.strip_prefix_app. cbn [pbind].
      rewrite ms1_w1 by (rewrite names_cons, <- app_assoc; apply nsp_ident). cbn [pbind].
      pose proof (var_list_ok [] n l T2 eq_refl (tail_nid _ _ H2)) as Hv. cbn [app] in Hv.
      rewrite Hv; [reflexivity|]. apply (tail_nocomma _ _ H2).
      intros wd x [<-|[<-|[]]]; split; reflexivity. }
  rewrite HA. cbn [pbind].
  rewrite (tail_opt_none from_clause _ _ H2 dead_from_clause)
    by (intros wd x [<-|[<-|[]]]; split; reflexivity).
  cbn [pbind].
  assert (HN : opt_ws1_then (ptag "nodrop") T2 = POk (if nodrop then Some tt else None) T3).
  { subst T2. destruct nodrop.
    - rewrite <- !app_assoc. unfold opt_ws1_then. rewrite ms1_w1 by reflexivity.
      unfold ptag. now rewrite Roundtrip_proofs.strip_prefix_app.
    - cbn [app]. apply (tail_opt_none _ _ _ H3 (fun s => dead_ptag "nodrop" s eq_refl)).
      intros wd x [<-|[]]; split; reflexivity. }
  rewrite HN. cbn [pbind].
  assert (HC : opt_ws1_then (ptag "noconvert") T3 = POk (if noconv then Some tt else None) k).
  { subst T3. destruct noconv.
    - rewrite <- !app_assoc. unfold opt_ws1_then. rewrite ms1_w1 by reflexivity.
      unfold ptag. now rewrite Roundtrip_proofs.strip_prefix_app.
    - cbn [app]. apply stop_opt_ws1; [exact Hk|]. exact (fun s => dead_ptag "noconvert" s eq_refl). }
  rewrite HC. cbn [pbind].
  rewrite stop_pipe by exact Hk. cbn [pbind].
  destruct f, fields, nodrop, noconv; reflexivity.
Qed.
(** ** limit *)
Lemma nsp_Z z r : nsp (Z_to_str z ++ r).
Proof.
  destruct (Z_to_str_spec z) as (d & ds & E & Hds & _). rewrite E.
  cbn [forallb] in Hds. apply andb_true_iff in Hds as [Hd0 _].
  destruct (z <? 0)%Z; cbn [app nsp]; [reflexivity|now apply digit_not_space].
Qed.

Definition dtail (c : N) : bool :=
  negb (is_digit c) && negb (c =? 46)%N && negb (c =? 101)%N && negb (c =? 69)%N.

Lemma digit_not_sign d : is_digit d = true -> ((d =? 45) || (d =? 43))%N = false.
Proof.
  intros H. destruct (N.eqb_spec d 45) as [->|_]; [discriminate H|].
  destruct (N.eqb_spec d 43) as [->|_]; [discriminate H|]. reflexivity.
Qed.

Lemma double_text_int (neg : bool) d ds k :
  forallb is_digit (d :: ds) = true -> hdp dtail k = true ->
  double_text ((if neg then [45%N] else []) ++ (d :: ds) ++ k) = POk ((if neg then [45%N] else []) ++ d :: ds) k.
Proof.
  intros Hds Hk.
  assert (Hd : is_digit d = true) by (cbn [forallb] in Hds; now apply andb_true_iff in Hds as [H _]).
  assert (Hk1 : hdp (fun c => negb (is_digit c)) k = true).
  { revert Hk. apply hdp_weaken. intros c H. unfold dtail in H. now do 3 (apply andb_true_iff in H as [H _]). }
  assert (E1 : eat 46 k = None).
  { destruct k as [|c k']; [reflexivity|]. cbn [hdp] in Hk. unfold dtail in Hk.
    do 2 (apply andb_true_iff in Hk as [Hk _]). apply andb_true_iff in Hk as [_ Hk].
    apply negb_true_iff in Hk. cbn [eat]. now rewrite Hk. }
  assert (E2 : forall (A : Type) (a b : A), match k with
               | c :: _ => if ((c =? 101) || (c =? 69))%N then a else b | [] => b end = b).
  { intros A a b. destruct k as [|c k']; [reflexivity|]. cbn [hdp] in Hk. unfold dtail in Hk.
    apply andb_true_iff in Hk as [Hk H4]. apply andb_true_iff in Hk as [_ H3].
    apply negb_true_iff in H3, H4. now rewrite H3, H4. }
  unfold double_text. destruct neg; cbn [app].
  - change (45 =? 45)%N with true. cbn [orb]. cbv iota.
    change (d :: ds ++ k) with ((d :: ds) ++ k). rewrite (take_digits_app _ _ Hds Hk1). cbv iota.
    rewrite E1. cbv iota. cbn [is_nil andb]. cbv iota.
    destruct k as [|c k'].
    + now rewrite app_nil_r.
    + specialize (E2 (pres str)). cbv beta in E2. rewrite E2. now rewrite app_nil_r.
  - rewrite (digit_not_sign d Hd). cbv iota.
    change (d :: ds ++ k) with ((d :: ds) ++ k). rewrite (take_digits_app _ _ Hds Hk1). cbv iota.
    rewrite E1. cbv iota. cbn [is_nil andb]. cbv iota.
    destruct k as [|c k'].
    + now rewrite app_nil_r.
    + specialize (E2 (pres str)). cbv beta in E2. rewrite E2. now rewrite app_nil_r.
Qed.
Lemma lower_digit d : is_digit d = true -> ascii_lower d = d.
Proof.
  intros H. unfold ascii_lower. destruct (is_ascii_upper d) eqn:E; [|reflexivity].
  unfold is_digit, is_ascii_upper in *. apply andb_true_iff in H as [_ H], E as [E _].
  apply N.leb_le in H, E. lia.
Qed.

Lemma digit_word d ds c w : is_digit d = true -> is_digit c = false -> str_eqb (lower_str (d :: ds)) (c :: w) = false.
Proof.
  intros Hd Hc. cbn [lower_str map str_eqb]. rewrite (lower_digit d Hd).
  destruct (N.eqb_spec d c) as [->|_]; [congruence|reflexivity].
Qed.

Lemma parse_f64_digits (neg : bool) d ds :
  forallb is_digit (d :: ds) = true ->
  parse_f64 ((if neg then [45%N] else []) ++ d :: ds)
  = Some (f_of_dec neg (Z.of_N (digits_val (d :: ds) 0)) 0).
Proof.
  intros Hds.
  assert (Hd : is_digit d = true) by (cbn [forallb] in Hds; now apply andb_true_iff in Hds as [H _]).
  assert (ES : strip_sign ((if neg then [45%N] else []) ++ d :: ds) = (neg, d :: ds)).
  { destruct neg; cbn [app strip_sign]; [reflexivity|].
    pose proof (digit_not_sign d Hd) as H. apply orb_false_iff in H as [-> ->]. reflexivity. }
  assert (ET : take_digits (d :: ds) = (d :: ds, [])).
  { pose proof (take_digits_app (d :: ds) [] Hds eq_refl) as H. now rewrite app_nil_r in H. }
  unfold parse_f64. rewrite ES. cbv iota.
  change (lit "inf") with (105%N :: lit "nf"). change (lit "infinity") with (105%N :: lit "nfinity").
  change (lit "nan") with (110%N :: lit "an").
  rewrite !(digit_word d ds) by (exact Hd || reflexivity). cbn [orb]. cbv iota.
  rewrite ET. cbv iota. cbn [head_is eat]. cbv iota. rewrite app_nil_r. cbn [length Z.of_nat Z.opp].
  reflexivity.
Qed.

Lemma f_of_dec_int (neg : bool) m : (0 < m)%Z -> f_of_dec neg m 0 = f_of_Z (if neg then - m else m)%Z.
Proof.
  intros Hm. unfold f_of_dec. destruct (Z.eqb_spec m 0) as [->|_]; [lia|].
  change (0 <=? 0)%Z with true. change (400 <? 0)%Z with false. cbv iota.
  change (10 ^ 0)%Z with 1%Z. rewrite Z.mul_1_r. reflexivity.
Qed.

Lemma parse_f64_int n : n <> 0%Z -> parse_f64 (Z_to_str n) = Some (f_of_Z n).
Proof.
  intros Hn. destruct (Z_to_str_spec n) as (d & ds & E & Hds & Hv). rewrite E.
  rewrite (parse_f64_digits (n <? 0)%Z d ds Hds). rewrite Hv.
  rewrite f_of_dec_int by lia. f_equal. f_equal. destruct (Z.ltb_spec n 0); lia.
Qed.

Lemma limit_check n : n <> 0%Z -> (Z.abs n <= 2 ^ 53)%Z -> typecheck_limit (Some (f_of_Z n)) = Some n.
Proof.
  intros Hn Hs. pose proof (F64_exact_proofs.ftrunc_f_of_Z n Hs) as Ht.
  pose proof (F64_exact_proofs.f_is_integral_of_Z n Hs) as Hi.
  destruct (F64_exact_proofs.f_of_Z_valid n Hs) as [_ Hf].
  unfold typecheck_limit. rewrite Hf, Ht, Hi. cbn [negb orb].
  destruct (Z.eqb_spec n 0) as [->|_]; [congruence|]. cbv iota. f_equal.
  rewrite F64_exact_proofs.pow53 in Hs.
  assert (Hr : ((n <? i64_min) = false /\ (i64_max <? n) = false)%Z).
  { unfold i64_min, i64_max. change (2 ^ 63)%Z with 9223372036854775808%Z.
    split; apply Z.ltb_ge; lia. }
  destruct Hr as [Hr1 Hr2].
  unfold f_to_i64_sat. destruct (f_of_Z n) as [s|s| |s m e]; try discriminate Hf;
    cbv beta iota zeta; rewrite Ht, Hr1, Hr2; reflexivity.
Qed.

Lemma limit_rt n k :
  n <> 0%Z -> (Z.abs n <= 2 ^ 53)%Z -> stage_stop k = true ->
  p_limit ((lit "limit" ++ po_ws1 o ++ Z_to_str n) ++ k) = POk (LLimit (Some (f_of_Z n))) k.
Proof.
  intros Hn Hs Hk. rewrite <- !app_assoc. unfold p_limit. rewrite oper_0_args_w1. cbn [pbind].
  unfold opt_ws1_then. rewrite ms1_w1 by apply nsp_Z.
  assert (E : pdouble (Z_to_str n ++ k) = POk (f_of_Z n) k).
  { unfold pdouble. destruct (Z_to_str_spec n) as (d & ds & E & Hds & _).
    pose proof (parse_f64_int n Hn) as HP. rewrite E in *. rewrite <- app_assoc.
    rewrite double_text_int; [|exact Hds|apply stop_hd_gen; [reflexivity..|exact Hk]].
    cbn [pbind]. now rewrite HP. }
  rewrite E. cbn [pbind]. now rewrite stop_pipe.
Qed.
(** ** the other spellings: mode words of fields, total without `as`, parse with `from` last *)
Lemma fields_mode_plus r : fields_mode (43%N :: r) = POk true r.
Proof. reflexivity. Qed.
Lemma fields_mode_minus r : fields_mode (45%N :: r) = POk false r.
Proof. reflexivity. Qed.

(** the texts [m] of the mode: nothing (then the first field must not read as a mode word), a symbol and
    optional whitespace, or a word and whitespace *)
Definition fmode_ok (only : bool) (m : str) (n : str) : Prop :=
  if only
  then (m = [] /\ mode_word n = false) \/ m = 43%N :: po_ws0 o \/ m = lit "only" ++ po_ws1 o
       \/ m = lit "include" ++ po_ws1 o
  else m = lit "except" ++ po_ws1 o \/ m = 45%N :: po_ws0 o \/ m = lit "drop" ++ po_ws1 o.

Lemma fields_rt_gen only m n l k :
  fmode_ok only m n -> stage_stop k = true ->
  p_fields ((lit "fields" ++ po_ws1 o ++ m ++ names_text o (n :: l)) ++ k)
  = POk (LStage (SFields only (n :: l))) k.
Proof.
  intros Hm Hk. rewrite <- !app_assoc. unfold p_fields, ptag.
  rewrite Roundtrip_proofs.strip_prefix_app. cbn [pbind].
  assert (Hsym : forall b : bool, fields_mode ((if b then 43%N else 45%N) :: po_ws0 o ++ names_text o (n :: l) ++ k)
                           = POk b (po_ws0 o ++ names_text o (n :: l) ++ k) ->
          (LET mode, r2 <- popt fields_mode ((if b then 43%N else 45%N) :: po_ws0 o ++ names_text o (n :: l) ++ k) IN
           LET fs, r3 <- var_list r2 IN
           POk (LStage (SFields (match mode with Some m0 => m0 | None => true end) fs)) r3)
          = POk (LStage (SFields b (n :: l))) k).
  { intros b H. unfold popt. rewrite H. cbn [pbind].
    rewrite (var_list_ok (po_ws0 o) n l k w0_sp (stop_nid k Hk) (stop_nocomma k Hk)). reflexivity. }
  assert (Hword : forall (b : bool) w,
          fields_mode (lit w ++ po_ws1 o ++ names_text o (n :: l) ++ k)
          = POk b (po_ws1 o ++ names_text o (n :: l) ++ k) ->
          (LET mode, r2 <- popt fields_mode (lit w ++ po_ws1 o ++ names_text o (n :: l) ++ k) IN
           LET fs, r3 <- var_list r2 IN
           POk (LStage (SFields (match mode with Some m0 => m0 | None => true end) fs)) r3)
          = POk (LStage (SFields b (n :: l))) k).
  { intros b w H. unfold popt. rewrite H. cbn [pbind].
    rewrite (var_list_ok (po_ws1 o) n l k w1_sp (stop_nid k Hk) (stop_nocomma k Hk)). reflexivity. }
  destruct (w1_cons (names_text o (n :: l) ++ k)) as (c & r & E & Hc).
  destruct (Spelling_proofs.fields_mode_synonyms (po_ws1 o ++ names_text o (n :: l) ++ k))
    as (_ & S2 & S3 & _ & S5 & S6).
  { rewrite E. exact Hc. }
  unfold fmode_ok in Hm. destruct only.
  - destruct Hm as [[-> Hn]|[->|[->| ->]]].
    + cbn [app]. rewrite ms1_w1 by (rewrite names_cons, <- app_assoc; apply nsp_ident). cbn [pbind].
      unfold popt. rewrite names_cons at 1. rewrite <- app_assoc.
      rewrite fields_mode_fail; [|exact Hn|apply nid_tail; now apply stop_nid].
      cbn [pbind].
      pose proof (var_list_ok [] n l k eq_refl (stop_nid k Hk) (stop_nocomma k Hk)) as Hv.
      cbn [app] in Hv. rewrite Hv. reflexivity.
    + cbn [app]. rewrite ms1_w1 by reflexivity. cbn [pbind]. apply (Hsym true). apply fields_mode_plus.
    + rewrite <- !app_assoc. rewrite ms1_w1 by reflexivity. cbn [pbind]. now apply (Hword true "only").
    + rewrite <- !app_assoc. rewrite ms1_w1 by reflexivity. cbn [pbind]. now apply (Hword true "include").
  - destruct Hm as [->|[->| ->]].
    + rewrite <- !app_assoc. rewrite ms1_w1 by reflexivity. cbn [pbind]. now apply (Hword false "except").
    + cbn [app]. rewrite ms1_w1 by reflexivity. cbn [pbind]. apply (Hsym false). apply fields_mode_minus.
    + rewrite <- !app_assoc. rewrite ms1_w1 by reflexivity. cbn [pbind]. now apply (Hword false "drop").
Qed.

(** total without `as`: the default name *)
Lemma total_rt_default e k :
  wf_expr e = true -> stage_stop k = true ->
  p_total ((lit "total" ++ arg_text o e) ++ k) = POk (LStage (STotal e (lit "_total"))) k.
Proof.
  intros Hwf Hk. rewrite <- !app_assoc. unfold p_total.
  rewrite pkw_ok by reflexivity. cbn [pbind].
  unfold req_single_arg, pexpect. rewrite single_arg_ok by exact Hwf. cbn [pbind].
  rewrite stop_word_then; [|exact Hk|reflexivity]. cbn [pbind].
  now rewrite stop_pipe.
Qed.

(** parse with the `from` clause after the `as` clause *)
Lemma folops_from x : folops 0 (lit "from" ++ x).
Proof. repeat split; intros; vm_compute; reflexivity. Qed.

Lemma parse_rt_from_last pat n l e (nodrop noconv : bool) k :
  wf_expr e = true -> stage_stop k = true -> not_oror k = true ->
  p_parse ((lit "parse" ++ po_ws1 o ++ quote_str o pat
            ++ ((po_ws1 o ++ lit "as" ++ po_ws1 o ++ names_text o (n :: l)) ++ from_text o (Some e))
            ++ (if nodrop then po_ws1 o ++ lit "nodrop" else [])
            ++ (if noconv then po_ws1 o ++ lit "noconvert" else [])) ++ k)
  = POk (LStage (SParse pat (n :: l) (Some e) nodrop noconv)) k.
Proof.
  intros Hwf Hk Hk2. rewrite <- !app_assoc.
  set (T3 := (if noconv then po_ws1 o ++ lit "noconvert" else []) ++ k).
  set (T2 := (if nodrop then po_ws1 o ++ lit "nodrop" else []) ++ T3).
  set (T1 := from_text o (Some e) ++ T2).
  assert (H3 : tailW [lit "noconvert"] T3).
  { subst T3. destruct noconv; [right|now left]. exists (lit "noconvert"), k. split; [now left|].
    now rewrite <- !app_assoc. }
  assert (H2 : tailW [lit "nodrop"; lit "noconvert"] T2).
  { subst T2. destruct nodrop.
    - right. exists (lit "nodrop"), T3. split; [now left|]. now rewrite <- !app_assoc.
    - cbn [app]. revert H3. apply tailW_mono. intros w [<-|[]]. right. now left. }
  assert (HF : fol 0 T2).
  { subst T2. destruct nodrop.
    - rewrite <- !app_assoc. apply fol_w1, folops_nodrop.
    - cbn [app]. subst T3. destruct noconv.
      + rewrite <- !app_assoc. apply fol_w1, folops_noconvert.
      + cbn [app]. now apply stop_fol. }
  assert (HT1 : tailW [lit "from"] T1).
  { subst T1. right. exists (lit "from"), (po_ws1 o ++ pp o 0 e ++ T2). split; [now left|].
    unfold from_text. now rewrite <- !app_assoc. }
  unfold p_parse. unfold ptag at 1. rewrite Roundtrip_proofs.strip_prefix_app. cbn [pbind].
  rewrite ms1_w1 by apply nsp_quote. cbn [pbind].
  rewrite regex_none. cbn [pbind].
  unfold req_quoted_string, pexpect. rewrite quoted_string_ok. cbn [pbind].
  rewrite (tail_opt_none from_clause [lit "as"] _).
  2:{ right. exists (lit "as"), (po_ws1 o ++ names_text o (n :: l) ++ T1). split; [now left|reflexivity]. }
  2:{ exact dead_from_clause. }
  2:{ intros wd x [<-|[]]; split; reflexivity. }
  cbn [pbind].
  change (fun s : str => LET _a, x <- ms1 s IN LET _b, y <- ptag "as" x IN LET _c, z <- ms1 y IN var_list z)
    with as_list.
  assert (HA : popt as_list (po_ws1 o ++ lit "as" ++ po_ws1 o ++ names_text o (n :: l) ++ T1)
               = POk (Some (n :: l)) T1).
  { unfold popt, as_list. rewrite ms1_w1 by reflexivity. cbn [pbind].
    unfold ptag. rewrite Roundtrip_proofs.strip_prefix_app. cbn [pbind].
    rewrite ms1_w1 by (rewrite names_cons, <- app_assoc; apply nsp_ident). cbn [pbind].
    pose proof (var_list_ok [] n l T1 eq_refl (tail_nid _ _ HT1)) as Hv. cbn [app] in Hv.
    rewrite Hv; [reflexivity|]. apply (tail_nocomma _ _ HT1).
    intros wd x [<-|[]]; split; reflexivity. }
  rewrite HA. cbn [pbind].
  subst T1. rewrite from1_ok; [|exact Hwf|intros _; exact HF|discriminate].
  cbn [pbind].
  assert (HN : opt_ws1_then (ptag "nodrop") T2 = POk (if nodrop then Some tt else None) T3).
  { subst T2. destruct nodrop.
    - rewrite <- !app_assoc. unfold opt_ws1_then. rewrite ms1_w1 by reflexivity.
      unfold ptag. now rewrite Roundtrip_proofs.strip_prefix_app.
    - cbn [app]. apply (tail_opt_none _ _ _ H3 (fun s => dead_ptag "nodrop" s eq_refl)).
      intros wd x [<-|[]]; split; reflexivity. }
  rewrite HN. cbn [pbind].
  assert (HC : opt_ws1_then (ptag "noconvert") T3 = POk (if noconv then Some tt else None) k).
  { subst T3. destruct noconv.
    - rewrite <- !app_assoc. unfold opt_ws1_then. rewrite ms1_w1 by reflexivity.
      unfold ptag. now rewrite Roundtrip_proofs.strip_prefix_app.
    - cbn [app]. apply stop_opt_ws1; [exact Hk|]. exact (fun s => dead_ptag "noconvert" s eq_refl). }
  rewrite HC. cbn [pbind].
  rewrite stop_pipe by exact Hk. cbn [pbind].
  destruct nodrop, noconv; reflexivity.
Qed.

(** ** all row operators *)
Lemma inline_rt st t k :
  plain_inline st = true -> wf_stage o st = true -> stage_ok st = true ->
  pp_stage o st = Some t -> stage_stop k = true ->
  (ends_with_expr st = true -> not_oror k = true) ->
  exists l r, inline_opers (t ++ k) = POk l r /\ skip_spaces r = skip_spaces k
              /\ check_lstage l = Some [st] /\ nsp (t ++ k).
Proof.
  intros Hp Hwf Hok Ht Hk Hk2.
  destruct st as [from|from|pat fields from nodrop noconvert|sep from out|only names|e|e nm0|e ns name|n|e name| | |];
    try discriminate Hp;
    cbv beta iota zeta delta [pp_stage] in Ht; apply some_inj in Ht; subst t; cbn [wf_stage] in Hwf.
  - (* json *)
    exists (LStage (SJson from)), k. split; [|repeat split].
    unfold inline_opers. do 7 apply palt_ok. rewrite palt_skip by kw_fails.
    apply json_rt; [exact Hwf|exact Hk|]. intros Hf. apply Hk2. destruct from; [reflexivity|congruence].
  - (* logfmt *)
    exists (LStage (SLogfmt from)), k. split; [|repeat split].
    unfold inline_opers. do 6 apply palt_ok. rewrite palt_skip by kw_fails.
    apply json_rt; [exact Hwf|exact Hk|]. intros Hf. apply Hk2. destruct from; [reflexivity|congruence].
  - (* parse *)
    exists (LStage (SParse pat fields from nodrop noconvert)), k. split; [|repeat split].
    unfold inline_opers. do 8 apply palt_ok.
    apply parse_rt; [exact Hwf|exact Hk|exact Hk2].
  - (* split *)
    exists (LStage (SSplit sep from out)), k. split; [|repeat split].
    unfold inline_opers. do 3 apply palt_ok. rewrite palt_skip by kw_fails.
    apply andb_true_iff in Hwf as [Hwf H3]. apply andb_true_iff in Hwf as [H1 H2].
    apply split_rt; [exact H1|exact H2| |exact Hk|exact Hk2|reflexivity].
    intros ->. destruct from; [discriminate H3|reflexivity].
  - (* fields *)
    apply andb_true_iff in Hwf as [H1 H2]. destruct names as [|n l]; [discriminate H1|].
    exists (LStage (SFields only (n :: l))), k. split; [|repeat split].
    unfold inline_opers. do 5 apply palt_ok. rewrite palt_skip by kw_fails.
    apply fields_rt; [|exact Hk]. intros ->. cbn [andb] in H2. now apply negb_true_iff in H2.
  - (* where *)
    exists (LWhere (Some e)), (skip_spaces k). split; [|repeat split].
    + apply where_rt; [exact Hwf|exact Hk|now apply Hk2].
    + apply Roundtrip_proofs.skip_spaces_idem.
  - (* timeslice *)
    apply andb_true_iff in Hwf as [Hwf H3]. apply andb_true_iff in Hwf as [H1 H2].
    exists (LTimeslice e (Some ns) name), k. split; [|repeat split].
    unfold inline_opers. do 2 apply palt_ok. rewrite palt_skip by kw_fails.
    now apply timeslice_rt.
  - (* limit *)
    apply andb_true_iff in Hwf as [H1 H2]. apply negb_true_iff, Z.eqb_neq in H1. apply Z.leb_le in H2.
    exists (LLimit (Some (f_of_Z n))), k. split; [|repeat split].
    + unfold inline_opers. do 4 apply palt_ok. rewrite palt_skip by kw_fails.
      now apply limit_rt.
    + cbn [check_lstage]. now rewrite limit_check.
  - (* total *)
    exists (LStage (STotal e name)), k. split; [|repeat split].
    unfold inline_opers. do 1 apply palt_ok. rewrite palt_skip by kw_fails.
    now apply total_rt.
Qed.

End Stages.

(* STATEMENT FALSE (as originally stated, for every continuation [k] with [stage_stop k = true]):
   [stage_stop] only asks that the first non-blank character of [k] is `|`, so [k] may start with `||`,
   and then a stage that ends in an expression reads on.  Counterexample (checked with vm_compute):
   o = mkPO [] [32] false false false false, st = SWhere (ECol (lit "a") []), k = lit "||b":
   all premises hold, pp_stage o st = Some "where a", but p_oper "where a||b" returns
   LInline (LWhere (Some (a || b))) with rest [] (not [skip_spaces k] = "||b"), which type-checks to
   [SWhere (ELogic LOr a b)].  The same happens for `json from a`, `logfmt from a`,
   `parse '..' from a` and `split .. as a`.  The variant below adds the boolean premise that, when the
   printed stage ends in an expression, the pipe that starts [k] is not doubled. *)
Theorem stage_roundtrip_inline_weak (o : popts) (st : stage) (t k : str) :
  popts_ok o = true -> plain_inline st = true ->
  wf_stage o st = true -> stage_ok st = true -> pp_stage o st = Some t -> stage_stop k = true ->
  negb (ends_with_expr o st) || not_oror k = true ->
  exists lo, p_oper (t ++ k) = POk lo (skip_spaces k) /\ check_lop true lo = Some [st].
Proof.
  intros Ho Hp Hwf Hok Ht Hk Hk2.
  destruct (inline_rt o Ho st t k Hp Hwf Hok Ht Hk) as (l & r & H1 & H2 & H3 & H4).
  { intros E. now rewrite E in Hk2. }
  exists (LInline l). split; [|exact H3].
  rewrite (p_oper_inline _ _ _ H4 H1). now rewrite H2.
Qed.

Print Assumptions stage_roundtrip_inline_weak.

(** a single pipe (Print.single_pipe) is in particular not a doubled one *)
Lemma single_pipe_not_oror (k : str) : stage_stop k = true -> single_pipe k = true -> not_oror k = true.
Proof.
  unfold stage_stop, single_pipe, not_oror. destruct (skip_spaces k) as [|c [|c' r]]; intros H1 H2; try reflexivity.
  cbn [head_is]. exact H2.
Qed.

Theorem stage_roundtrip_inline (o : popts) (st : stage) (t k : str) :
  popts_ok o = true -> plain_inline st = true ->
  wf_stage o st = true -> stage_ok st = true -> pp_stage o st = Some t -> stage_stop k = true ->
  single_pipe k = true ->
  exists lo, p_oper (t ++ k) = POk lo (skip_spaces k) /\ check_lop true lo = Some [st].
Proof.
  intros Ho Hp Hwf Hok Ht Hk Hk2.
  apply (stage_roundtrip_inline_weak o st t k Ho Hp Hwf Hok Ht Hk).
  rewrite (single_pipe_not_oror k Hk Hk2). apply orb_true_r.
Qed.

Print Assumptions stage_roundtrip_inline.
