(** The model's decimal -> double conversion ([f_of_dec], used for every number
    read from JSON text, logfmt, parse and query literals) is correctly rounded:
    it returns the double nearest (ties to even) to the exact decimal value. *)
From Coq Require Import ZArith Reals Bool Lia Lra Floats.SpecFloat.
From Flocq Require Import Core BinarySingleNaN Round_odd.
From AG Require Import F64 F64_exact_proofs.
Open Scope Z_scope.

Definition radix10 : radix := Build_radix 10 (refl_equal true).

(** the exact real value of the decimal  (-1)^neg * m * 10^e10 *)
Definition dec_value (neg : bool) (m e10 : Z) : R :=
  F2R (Float radix10 (if neg then - m else m) e10).

(** IEEE binary64 rounding to nearest, ties to even *)
Definition rnd64 (x : R) : R := round radix2 (FLT_exp (-1074) 53) ZnearestE x.

(* ---- helper lemmas ---- *)
(** generic: meaning of f_of_scaled *)
Lemma f_of_scaled_correct (mz ez : Z) :
  (Rabs (rnd64 (F2R (Float radix2 mz ez))) < bpow radix2 1024)%R ->
  SF2R radix2 (f_of_scaled mz ez) = rnd64 (F2R (Float radix2 mz ez)) /\
  f_is_finite (f_of_scaled mz ez) = true.
Proof.
intros Hlt. unfold f_of_scaled.
rewrite binary_normalize_equiv.
generalize (binary_normalize_correct prec emax Hprec Hmax mode_NE mz ez false).
cbv zeta.
set (z := BinarySingleNaN.binary_normalize prec emax Hprec Hmax mode_NE mz ez false).
change (round radix2 (SpecFloat.fexp prec emax) (round_mode mode_NE)) with rnd64.
change (bpow radix2 emax) with (bpow radix2 1024).
rewrite Rlt_bool_true by exact Hlt.
intros (H1 & H2 & _).
rewrite SF2R_B2SF. split; [exact H1|].
destruct z; try discriminate H2; reflexivity.
Qed.

Lemma dec_value_int neg m e10 : 0 <= e10 ->
  dec_value neg m e10 = IZR ((if neg then - m else m) * 10 ^ e10).
Proof.
intros He. unfold dec_value, F2R. cbn [Fnum Fexp].
rewrite mult_IZR. f_equal.
change 10 with (radix_val radix10). rewrite IZR_Zpower by exact He. reflexivity.
Qed.

Lemma F2R_exp0 z : F2R (Float radix2 z 0) = IZR z.
Proof. unfold F2R; cbn [Fnum Fexp]. simpl. ring. Qed.

(** integers (the branch [0 <= e10]): one rounding of the exact integer *)
Theorem f_of_dec_correct_int (neg : bool) (m e10 : Z) :
  0 < m -> 0 <= e10 <= 400 ->
  (Rabs (rnd64 (dec_value neg m e10)) < bpow radix2 1024)%R ->
  SF2R radix2 (f_of_dec neg m e10) = rnd64 (dec_value neg m e10) /\
  f_is_finite (f_of_dec neg m e10) = true.
Proof.
intros Hm He Hlt. unfold f_of_dec.
assert (H0 : (m =? 0) = false) by (apply Z.eqb_neq; lia).
assert (H1 : (0 <=? e10) = true) by (apply Z.leb_le; lia).
assert (H2 : (400 <? e10) = false) by (apply Z.ltb_ge; lia).
rewrite H0, H1, H2.
rewrite dec_value_int in * by lia.
assert (E : (if neg then - (m * 10 ^ e10) else m * 10 ^ e10) = (if neg then - m else m) * 10 ^ e10).
{ destruct neg; ring. }
rewrite E. rewrite <- F2R_exp0 in *.
apply f_of_scaled_correct. exact Hlt.
Qed.

(* ---- helper lemmas ---- *)
(** extended format for the round-to-odd step: exponent [-k] wherever that
    leaves at least two guard bits below the binary64 exponent *)
Definition fexpe (k : Z) (e : Z) : Z := Z.min (- k) (FLT_exp (-1074) 53 e - 2).

#[local] Instance flt64_valid : Valid_exp (FLT_exp (-1074) 53).
Proof. apply FLT_exp_valid. reflexivity. Qed.

#[local] Instance flt64_NE : Exists_NE radix2 (FLT_exp (-1074) 53).
Proof. apply exists_NE_FLT. right. lia. Qed.

#[local] Instance fexpe_valid k : Valid_exp (fexpe k).
Proof.
intros e. unfold fexpe, FLT_exp. split; [|split]; intros; lia.
Qed.

#[local] Instance fexpe_NE k : Exists_NE radix2 (fexpe k).
Proof.
right. intros e. unfold fexpe, FLT_exp. split; intros; lia.
Qed.

Lemma fexpe_le k e : fexpe k e <= FLT_exp (-1074) 53 e - 2.
Proof. unfold fexpe. lia. Qed.

Lemma rnd64_odd k x :
  rnd64 (round radix2 (fexpe k) Zrnd_odd x) = rnd64 x.
Proof.
unfold rnd64.
apply round_N_odd with (fexpe := fexpe k); auto with typeclass_instances.
apply fexpe_le.
Qed.

Lemma Zrnd_odd_div num d : 0 < d ->
  Zrnd_odd (IZR num / IZR d) =
  if num mod d =? 0 then num / d else if Z.even (num / d) then num / d + 1 else num / d.
Proof.
intros Hd. unfold Zrnd_odd.
assert (Hd' : d <> 0) by lia.
assert (HdR : IZR d <> 0%R) by (apply IZR_neq; lia).
rewrite (Zfloor_div num d Hd').
destruct (Z.eqb_spec (num mod d) 0) as [Hr|Hr].
- destruct (Req_EM_T _ _) as [_|Hne]; [reflexivity|].
  exfalso. apply Hne.
  assert (E : num = d * (num / d)) by (pose proof (Z.div_mod num d Hd'); lia).
  rewrite E at 1. rewrite mult_IZR. field. exact HdR.
- destruct (Req_EM_T _ _) as [He|Hne].
  + exfalso. apply Hr.
    assert (E : IZR num = IZR (d * (num / d))).
    { rewrite mult_IZR, <- He. field. exact HdR. }
    apply eq_IZR in E. pose proof (Z.div_mod num d Hd'). lia.
  + destruct (Z.even (num / d)); [|reflexivity].
    rewrite Zceil_floor_neq.
    * rewrite (Zfloor_div num d Hd'). reflexivity.
    * rewrite (Zfloor_div num d Hd'). intros E. apply Hne. symmetry. exact E.
Qed.

Lemma ratio_num_bound n d k : 0 < n -> 0 < d ->
  k = Z.max 0 (56 + Z.log2 d + 1 - Z.log2 n) ->
  2 ^ 56 * d <= n * 2 ^ k.
Proof.
intros Hn Hd Hk.
pose proof (Z.log2_nonneg n) as Ln. pose proof (Z.log2_nonneg d) as Ld.
destruct (Z.log2_spec n Hn) as [Hn1 _].
destruct (Z.log2_spec d Hd) as [_ Hd2].
assert (Hk0 : 0 <= k) by lia.
assert (E : 2 ^ (56 + Z.succ (Z.log2 d)) <= 2 ^ (Z.log2 n + k)).
{ apply Z.pow_le_mono_r; lia. }
rewrite !Z.pow_add_r in E by lia.
assert (0 < 2 ^ k) by (apply Z.pow_pos_nonneg; lia).
assert (0 < 2 ^ 56) by (apply Z.pow_pos_nonneg; lia).
nia.
Qed.

Lemma bpow2_IZR k : 0 <= k -> bpow radix2 k = IZR (2 ^ k).
Proof. intros Hk. symmetry. apply (IZR_Zpower radix2 k Hk). Qed.

Lemma round_odd_ratio n d k : 0 < n -> 0 < d ->
  k = Z.max 0 (56 + Z.log2 d + 1 - Z.log2 n) ->
  round radix2 (fexpe k) Zrnd_odd (IZR n / IZR d) =
  F2R (Float radix2 (Zrnd_odd (IZR (n * 2 ^ k) / IZR d)) (- k)).
Proof.
intros Hn Hd Hk.
assert (Hk0 : 0 <= k) by lia.
pose proof (ratio_num_bound n d k Hn Hd Hk) as Hb.
assert (HdR : (0 < IZR d)%R) by (apply IZR_lt; exact Hd).
assert (HnR : (0 < IZR n)%R) by (apply IZR_lt; exact Hn).
set (x := (IZR n / IZR d)%R).
assert (Hx : (0 < x)%R) by (apply Rdiv_lt_0_compat; assumption).
assert (Hxk : (x * bpow radix2 k = IZR (n * 2 ^ k) / IZR d)%R).
{ rewrite mult_IZR, bpow2_IZR by exact Hk0. unfold x. field. lra. }
assert (Hlow : (bpow radix2 56 <= x * bpow radix2 k)%R).
{ rewrite Hxk. rewrite (bpow2_IZR 56) by lia.
  apply Rmult_le_reg_r with (IZR d); [exact HdR|].
  unfold Rdiv. rewrite Rmult_assoc, Rinv_l, Rmult_1_r by lra.
  rewrite <- mult_IZR. apply IZR_le. exact Hb. }
assert (Hmag : 57 - k <= mag radix2 x).
{ apply mag_ge_bpow. rewrite Rabs_pos_eq by lra.
  replace (57 - k - 1) with (56 + - k) by lia. rewrite bpow_plus.
  apply Rmult_le_reg_r with (bpow radix2 k); [apply bpow_gt_0|].
  rewrite Rmult_assoc, <- bpow_plus. replace (- k + k) with 0 by lia.
  rewrite Rmult_1_r. exact Hlow. }
assert (Hc : cexp radix2 (fexpe k) x = - k).
{ unfold cexp, fexpe, FLT_exp. lia. }
unfold round, scaled_mantissa. rewrite Hc.
replace (- - k) with k by lia. rewrite Hxk. reflexivity.
Qed.

(** fractions (the branch [e10 < 0], away from the underflow guard): a quotient
    rounded to odd on at least two guard bits, then rounded to nearest even,
    equals the direct rounding to nearest even of the exact quotient *)
Theorem f_of_ratio_correct (neg : bool) (n d : Z) :
  0 < n -> 0 < d ->
  (Rabs (rnd64 (IZR n / IZR d)) < bpow radix2 1024)%R ->
  SF2R radix2 (f_of_ratio neg n d) = rnd64 ((if neg then -1 else 1) * (IZR n / IZR d))%R /\
  f_is_finite (f_of_ratio neg n d) = true.
Proof.
intros Hn Hd Hlt. unfold f_of_ratio.
assert (H0 : (n =? 0) = false) by (apply Z.eqb_neq; lia).
rewrite H0. cbv zeta.
set (k := Z.max 0 (56 + Z.log2 d + 1 - Z.log2 n)).
rewrite <- (Zrnd_odd_div (n * 2 ^ k) d Hd).
set (q' := Zrnd_odd (IZR (n * 2 ^ k) / IZR d)).
pose proof (round_odd_ratio n d k Hn Hd eq_refl) as Ho. fold q' in Ho.
assert (Hv : F2R (Float radix2 (if neg then - q' else q') (- k)) =
             round radix2 (fexpe k) Zrnd_odd ((if neg then -1 else 1) * (IZR n / IZR d))%R).
{ destruct neg.
  - rewrite F2R_Zopp, <- Ho, <- round_odd_opp. f_equal. ring.
  - rewrite <- Ho. f_equal. ring. }
assert (Hr : rnd64 (F2R (Float radix2 (if neg then - q' else q') (- k))) =
             rnd64 ((if neg then -1 else 1) * (IZR n / IZR d))%R).
{ rewrite Hv. apply rnd64_odd. }
rewrite <- Hr.
apply f_of_scaled_correct.
rewrite Hr. destruct neg.
- replace (-1 * (IZR n / IZR d))%R with (- (IZR n / IZR d))%R by ring.
  unfold rnd64. rewrite round_NE_opp, Rabs_Ropp. exact Hlt.
- rewrite Rmult_1_l. exact Hlt.
Qed.

(* ---- helper lemmas ---- *)
Lemma dec_value_frac neg m e10 : e10 < 0 ->
  dec_value neg m e10 = ((if neg then -1 else 1) * (IZR m / IZR (10 ^ (- e10))))%R.
Proof.
intros He. unfold dec_value, F2R. cbn [Fnum Fexp].
replace e10 with (- - e10) at 1 by lia. rewrite bpow_opp.
rewrite <- IZR_Zpower by lia. change (radix_val radix10) with 10.
destruct neg; [rewrite opp_IZR|]; unfold Rdiv; ring.
Qed.

Lemma rnd64_sign (neg : bool) x :
  Rabs (rnd64 ((if neg then -1 else 1) * x)) = Rabs (rnd64 x).
Proof.
destruct neg.
- replace (-1 * x)%R with (- x)%R by ring.
  unfold rnd64. rewrite round_NE_opp, Rabs_Ropp. reflexivity.
- rewrite Rmult_1_l. reflexivity.
Qed.

Theorem f_of_dec_correct_frac (neg : bool) (m e10 : Z) :
  0 < m -> e10 < 0 -> - e10 <= 800 + Z.log2 m ->
  (Rabs (rnd64 (dec_value neg m e10)) < bpow radix2 1024)%R ->
  SF2R radix2 (f_of_dec neg m e10) = rnd64 (dec_value neg m e10) /\
  f_is_finite (f_of_dec neg m e10) = true.
Proof.
intros Hm He Hg Hlt. unfold f_of_dec.
assert (H0 : (m =? 0) = false) by (apply Z.eqb_neq; lia).
assert (H1 : (0 <=? e10) = false) by (apply Z.leb_gt; lia).
assert (H2 : (800 + Z.log2 m <? - e10) = false) by (apply Z.ltb_ge; lia).
rewrite H0, H1, H2.
rewrite dec_value_frac in * by exact He.
rewrite rnd64_sign in Hlt.
apply f_of_ratio_correct; try assumption.
apply Z.pow_pos_nonneg; lia.
Qed.

(** the two guards: absurdly large exponents overflow, absurdly small ones round to zero *)
Theorem f_of_dec_guard_small (neg : bool) (m e10 : Z) :
  0 < m -> e10 < 0 -> 800 + Z.log2 m < - e10 ->
  rnd64 (dec_value neg m e10) = 0%R /\ f_of_dec neg m e10 = S754_zero neg.
Proof.
intros Hm He Hg. split.
- rewrite dec_value_frac by exact He.
  set (j := - e10).
  set (x := ((if neg then -1 else 1) * (IZR m / IZR (10 ^ j)))%R).
  assert (Hj : 0 < 10 ^ j) by (apply Z.pow_pos_nonneg; lia).
  assert (HjR : (0 < IZR (10 ^ j))%R) by (apply IZR_lt; exact Hj).
  assert (HmR : (0 < IZR m)%R) by (apply IZR_lt; exact Hm).
  assert (Hax : Rabs x = (IZR m / IZR (10 ^ j))%R).
  { unfold x. rewrite Rabs_mult.
    rewrite (Rabs_pos_eq (IZR m / _)) by (apply Rlt_le, Rdiv_lt_0_compat; assumption).
    destruct neg; rewrite <- abs_IZR; cbn [Z.abs]; ring. }
  assert (Hx0 : x <> 0%R).
  { intros E. rewrite E, Rabs_R0 in Hax.
    assert (0 < IZR m / IZR (10 ^ j))%R by (apply Rdiv_lt_0_compat; assumption). lra. }
  (* integer inequality *)
  pose proof (Z.log2_nonneg m) as Ln.
  destruct (Z.log2_spec m Hm) as [_ Hm2].
  assert (Hz : m * 2 ^ 1075 < 10 ^ j).
  { assert (A : 2 ^ 1075 <= 10 ^ 800) by (apply Z.leb_le; vm_compute; reflexivity).
    assert (B : 2 ^ Z.succ (Z.log2 m) <= 10 ^ Z.succ (Z.log2 m)) by (apply Z.pow_le_mono_l; lia).
    assert (C : 10 ^ (800 + Z.succ (Z.log2 m)) <= 10 ^ j) by (apply Z.pow_le_mono_r; lia).
    rewrite Z.pow_add_r in C by lia.
    assert (0 < 2 ^ 1075) by (apply Z.pow_pos_nonneg; lia).
    assert (0 < 2 ^ Z.succ (Z.log2 m)) by (apply Z.pow_pos_nonneg; lia).
    nia. }
  assert (Hsm : (Rabs x < bpow radix2 (-1075))%R).
  { rewrite Hax. change (-1075) with (- (1075)). rewrite bpow_opp, (bpow2_IZR 1075) by lia.
    apply Rmult_lt_reg_r with (IZR (10 ^ j)); [exact HjR|].
    unfold Rdiv. rewrite Rmult_assoc, Rinv_l, Rmult_1_r by lra.
    assert (H2p : (0 < IZR (2 ^ 1075))%R) by (apply IZR_lt, Z.pow_pos_nonneg; lia).
    apply Rmult_lt_reg_l with (IZR (2 ^ 1075)); [exact H2p|].
    rewrite <- Rmult_assoc, Rinv_r, Rmult_1_l by lra.
    rewrite <- mult_IZR. apply IZR_lt. lia. }
  unfold rnd64. apply round_N_small with (ex := mag radix2 x).
  + destruct (mag radix2 x) as [ex Hex]. simpl. apply Hex. exact Hx0.
  + pose proof (mag_le_bpow radix2 x (-1075) Hx0 Hsm). unfold FLT_exp. lia.
- unfold f_of_dec.
  assert (H0 : (m =? 0) = false) by (apply Z.eqb_neq; lia).
  assert (H1 : (0 <=? e10) = false) by (apply Z.leb_gt; lia).
  assert (H2 : (800 + Z.log2 m <? - e10) = true) by (apply Z.ltb_lt; lia).
  rewrite H0, H1, H2. reflexivity.
Qed.

Theorem f_of_dec_guard_large (neg : bool) (m e10 : Z) :
  0 < m -> 400 < e10 ->
  (bpow radix2 1024 <= Rabs (dec_value neg m e10))%R /\ f_of_dec neg m e10 = S754_infinity neg.
Proof.
intros Hm He. split.
- rewrite dec_value_int by lia. rewrite <- abs_IZR.
  rewrite <- IZR_Zpower by lia.
  apply IZR_le.
  assert (A : Z.abs ((if neg then - m else m) * 10 ^ e10) = m * 10 ^ e10).
  { assert (0 < 10 ^ e10) by (apply Z.pow_pos_nonneg; lia). destruct neg; nia. }
  rewrite A.
  apply Z.le_trans with (1 * 10 ^ 401).
  + apply Z.leb_le. vm_compute. reflexivity.
  + apply Z.mul_le_mono_nonneg; try lia.
    apply Z.pow_le_mono_r; lia.
- unfold f_of_dec.
  assert (H0 : (m =? 0) = false) by (apply Z.eqb_neq; lia).
  assert (H1 : (0 <=? e10) = true) by (apply Z.leb_le; lia).
  assert (H2 : (400 <? e10) = true) by (apply Z.ltb_lt; lia).
  rewrite H0, H1, H2. reflexivity.
Qed.

(** the whole function, whenever the correctly rounded result is in range *)
Theorem f_of_dec_correct (neg : bool) (m e10 : Z) :
  0 < m -> e10 <= 400 ->
  (Rabs (rnd64 (dec_value neg m e10)) < bpow radix2 1024)%R ->
  SF2R radix2 (f_of_dec neg m e10) = rnd64 (dec_value neg m e10).
Proof.
intros Hm He Hlt.
destruct (Z_lt_le_dec e10 0) as [Hneg|Hpos].
- destruct (Z_lt_le_dec (800 + Z.log2 m) (- e10)) as [Hs|Hs].
  + destruct (f_of_dec_guard_small neg m e10 Hm Hneg Hs) as [Hr Hf].
    rewrite Hr, Hf. reflexivity.
  + apply f_of_dec_correct_frac; assumption.
- apply f_of_dec_correct_int; try assumption. lia.
Qed.

(** non-vacuity: 0.1 and 1e23 *)
Example dec_point_one : f_of_dec false 1 (-1) = S754_finite false 7205759403792794 (-56).
Proof. vm_compute. reflexivity. Qed.
Example dec_1e23 : f_of_dec false 1 23 = S754_finite false 5960464477539062 (-76 + 100).
Proof. vm_compute. reflexivity. Qed.

Print Assumptions f_of_dec_correct.
Print Assumptions f_of_ratio_correct.
