(** The JSON text that the serialiser writes parses back to the same tree
    (Output.v json_print vs Json.v json_parse), and the Serialize impls are faithful. *)
From Coq Require Import List NArith ZArith Bool Lia Floats.SpecFloat.
From AG Require Import Str F64 Value Json Expr Ops Pipeline Output Str_proofs.
Import ListNotations.
Open Scope string_scope.
Open Scope list_scope.
Open Scope N_scope.

(** trees the serialiser can produce without floats: integers in the i64/u64 range *)
Fixpoint wf_tree (t : jtree) : bool :=
  match t with
  | JInt z => ((- 2 ^ 63 <=? z) && (z <=? 2 ^ 64 - 1))%Z
  | JFloat _ => false
  | JArr l => forallb wf_tree l
  | JObj kvs => forallb (fun kv => wf_tree (snd kv)) kvs
  | _ => true
  end.

Fixpoint depth (t : jtree) : nat :=
  match t with
  | JArr l => S (fold_right (fun x n => Nat.max (depth x) n) O l)
  | JObj kvs => S (fold_right (fun kv n => Nat.max (depth (snd kv)) n) O kvs)
  | _ => O
  end.

(** strings: every code point sequence survives escaping + parsing *)
Lemma psb_plain : forall c, 32 <= c -> c <> 34 -> c <> 92 -> forall f r acc,
  parse_str_body (S f) (c :: r) acc = parse_str_body f r (c :: acc).
Proof.
  intros c H32 H34 H92 f r acc. cbn [parse_str_body].
  destruct (N.eqb_spec c 34) as [E|_]; [contradiction|].
  destruct (N.eqb_spec c 92) as [E|_]; [contradiction|].
  destruct (N.ltb_spec c 32) as [E|_]; [lia|]. reflexivity.
Qed.

Lemma psb_simple : forall e x, e <> 117 -> simple_escape e = Some x -> forall f r acc,
  parse_str_body (S f) (92 :: e :: r) acc = parse_str_body f r (x :: acc).
Proof.
  intros e x H117 Hx f r acc. cbn [parse_str_body].
  change (92 =? 34) with false. change (92 =? 92) with true. cbv iota.
  destruct (N.eqb_spec e 117) as [E|_]; [contradiction|].
  rewrite Hx. reflexivity.
Qed.

Lemma hex_val_hex_digit : forall n, n < 16 -> hex_val (hex_digit n) = Some n.
Proof.
  intros n Hn. unfold hex_digit, hex_val, is_digit.
  destruct (N.ltb_spec n 10) as [H10|H10].
  - destruct (N.leb_spec 48 (48 + n)) as [_|E]; [|lia].
    destruct (N.leb_spec (48 + n) 57) as [_|E]; [|lia].
    cbn [andb]. f_equal. lia.
  - destruct (N.leb_spec 48 (87 + n)) as [_|E]; [|lia].
    destruct (N.leb_spec (87 + n) 57) as [E|_]; [lia|].
    cbn [andb].
    destruct (N.leb_spec 97 (87 + n)) as [_|E]; [|lia].
    destruct (N.leb_spec (87 + n) 102) as [_|E]; [|lia].
    cbn [andb]. f_equal. lia.
Qed.

Lemma psb_u : forall c, c < 32 -> forall f r acc,
  parse_str_body (S f) (92 :: 117 :: 48 :: 48 :: hex_digit (c / 16) :: hex_digit (c mod 16) :: r) acc
  = parse_str_body f r (c :: acc).
Proof.
  intros c Hc f r acc. cbn [parse_str_body].
  change (92 =? 34) with false. change (92 =? 92) with true.
  change (117 =? 117) with true. cbv iota.
  assert (Hd : c / 16 < 16) by (apply N.div_lt_upper_bound; lia).
  assert (Hm : c mod 16 < 16) by (apply N.mod_lt; lia).
  unfold parse_u_escape, hex4.
  rewrite (hex_val_hex_digit _ Hd), (hex_val_hex_digit _ Hm).
  change (hex_val 48) with (Some 0).
  cbv iota beta.
  assert (E : 0 * 4096 + 0 * 256 + c / 16 * 16 + c mod 16 = c).
  { pose proof (N.div_mod c 16). lia. }
  rewrite E. unfold is_hi_surrogate, is_lo_surrogate.
  destruct (N.leb_spec 55296 c) as [E1|_]; [lia|].
  destruct (N.leb_spec 56320 c) as [E1|_]; [lia|].
  cbn [andb]. reflexivity.
Qed.

Lemma psb_flat : forall s acc rest fuel,
  (length (flat_map esc_char s) + 1 <= fuel)%nat ->
  parse_str_body fuel (flat_map esc_char s ++ 34 :: rest) acc = Some (rev acc ++ s, rest).
Proof.
  induction s as [|c s IH]; intros acc rest fuel Hf.
  - cbn [flat_map app]. destruct fuel as [|f]; [cbn in Hf; lia|].
    cbn [parse_str_body]. change (34 =? 34) with true. cbv iota.
    rewrite app_nil_r. reflexivity.
  - cbn [flat_map] in *. rewrite app_length in Hf. rewrite <- app_assoc.
    replace (rev acc ++ c :: s) with (rev (c :: acc) ++ s)
      by (cbn [rev]; rewrite <- app_assoc; reflexivity).
    unfold esc_char in *.
    destruct (N.eqb_spec c 34) as [->|H34].
    { destruct fuel as [|f]; [cbn in Hf; lia|]. cbn [app].
      rewrite (psb_simple 34 34) by (try reflexivity; lia).
      apply IH. cbn [length] in Hf. lia. }
    destruct (N.eqb_spec c 92) as [->|H92].
    { destruct fuel as [|f]; [cbn in Hf; lia|]. cbn [app].
      rewrite (psb_simple 92 92) by (try reflexivity; lia).
      apply IH. cbn [length] in Hf. lia. }
    destruct (N.eqb_spec c 10) as [->|H10].
    { destruct fuel as [|f]; [cbn in Hf; lia|]. cbn [app].
      rewrite (psb_simple 110 10) by (try reflexivity; lia).
      apply IH. cbn [length] in Hf. lia. }
    destruct (N.eqb_spec c 13) as [->|H13].
    { destruct fuel as [|f]; [cbn in Hf; lia|]. cbn [app].
      rewrite (psb_simple 114 13) by (try reflexivity; lia).
      apply IH. cbn [length] in Hf. lia. }
    destruct (N.eqb_spec c 9) as [->|H9].
    { destruct fuel as [|f]; [cbn in Hf; lia|]. cbn [app].
      rewrite (psb_simple 116 9) by (try reflexivity; lia).
      apply IH. cbn [length] in Hf. lia. }
    destruct (N.eqb_spec c 8) as [->|H8].
    { destruct fuel as [|f]; [cbn in Hf; lia|]. cbn [app].
      rewrite (psb_simple 98 8) by (try reflexivity; lia).
      apply IH. cbn [length] in Hf. lia. }
    destruct (N.eqb_spec c 12) as [->|H12].
    { destruct fuel as [|f]; [cbn in Hf; lia|]. cbn [app].
      rewrite (psb_simple 102 12) by (try reflexivity; lia).
      apply IH. cbn [length] in Hf. lia. }
    destruct (N.ltb_spec c 32) as [H32|H32].
    { destruct fuel as [|f]; [cbn in Hf; lia|]. cbn [app].
      rewrite (psb_u c H32).
      apply IH. cbn [length] in Hf. lia. }
    destruct fuel as [|f]; [cbn in Hf; lia|]. cbn [app].
    rewrite (psb_plain c) by assumption.
    apply IH. cbn [length] in Hf. lia.
Qed.

Theorem print_str_parses : forall s rest fuel,
  (length (print_str s) <= fuel)%nat ->
  parse_str_body fuel (tl (print_str s ++ rest)) [] = Some (s, rest).
Proof.
  intros s rest fuel Hf. unfold print_str in *. cbn [app tl length] in *.
  rewrite app_length in Hf. cbn [length] in Hf.
  rewrite <- app_assoc. cbn [app].
  rewrite psb_flat by lia. reflexivity.
Qed.

Lemma digits_val_app : forall a b acc, digits_val (a ++ b) acc = digits_val b (digits_val a acc).
Proof.
  induction a as [|x a IH]; intros b acc; cbn [app digits_val]; [reflexivity|apply IH].
Qed.

Definition no_digit_head (rest : str) : Prop :=
  match rest with [] => True | c :: _ => is_digit c = false end.

Lemma take_digits_app : forall ds rest,
  forallb is_digit ds = true -> no_digit_head rest ->
  take_digits (ds ++ rest) = (ds, rest).
Proof.
  induction ds as [|d ds IH]; intros rest Hd Hr.
  - cbn [app]. destruct rest as [|c r]; [reflexivity|].
    cbn [take_digits]. cbn in Hr. rewrite Hr. reflexivity.
  - cbn [forallb] in Hd. apply andb_true_iff in Hd as [Hd1 Hd2].
    cbn [app take_digits]. rewrite Hd1. rewrite (IH rest Hd2 Hr). reflexivity.
Qed.

Lemma pdf_spec : forall fuel n acc,
  0 < n -> n < 2 ^ N.of_nat fuel ->
  exists d ds, pos_digits_fuel fuel n acc = (d :: ds) ++ acc /\
               forallb is_digit (d :: ds) = true /\ d <> 48 /\
               digits_val (d :: ds) 0 = n.
Proof.
  induction fuel as [|f IH]; intros n acc Hpos Hlt.
  - cbn in Hlt. lia.
  - cbn [pos_digits_fuel].
    assert (Hm : n mod 10 < 10) by (apply N.mod_lt; lia).
    pose proof (N.le_0_l (n mod 10)) as Hm0.
    pose proof (N.le_0_l (n / 10)) as Hq0.
    pose proof (N.div_mod n 10 ltac:(lia)) as Hdm.
    destruct (N.eqb_spec (n / 10) 0) as [Hq|Hq].
    + exists (48 + n mod 10), []. cbn [app]. split; [reflexivity|].
      split.
      { cbn [forallb]. unfold is_digit.
        destruct (N.leb_spec 48 (48 + n mod 10)) as [_|E]; [|lia].
        destruct (N.leb_spec (48 + n mod 10) 57) as [_|E]; [|lia]. reflexivity. }
      split; [lia|]. cbn [digits_val]. lia.
    + assert (Hq2 : n / 10 < 2 ^ N.of_nat f).
      { apply N.div_lt_upper_bound; [lia|].
        rewrite Nat2N.inj_succ, N.pow_succ_r' in Hlt. lia. }
      destruct (IH (n / 10) ((48 + n mod 10) :: acc) ltac:(lia) Hq2)
        as (d & ds & Heq & Hall & Hd & Hval).
      exists d, (ds ++ [48 + n mod 10]). split.
      { rewrite Heq. cbn [app]. rewrite <- app_assoc. reflexivity. }
      split.
      { cbn [forallb] in *. apply andb_true_iff in Hall as [Ha Hb].
        rewrite Ha, forallb_app, Hb. cbn [forallb andb]. unfold is_digit.
        destruct (N.leb_spec 48 (48 + n mod 10)) as [_|E]; [|lia].
        destruct (N.leb_spec (48 + n mod 10) 57) as [_|E]; [|lia]. reflexivity. }
      split; [exact Hd|].
      change (d :: ds ++ [48 + n mod 10]) with ((d :: ds) ++ [48 + n mod 10]).
      rewrite digits_val_app, Hval. cbn [digits_val]. lia.
Qed.

Lemma N_to_str_spec : forall p,
  exists d ds, N_to_str (Npos p) = d :: ds /\
               forallb is_digit (d :: ds) = true /\ d <> 48 /\
               digits_val (d :: ds) 0 = Npos p.
Proof.
  intros p. unfold N_to_str.
  destruct (pdf_spec (S (N.to_nat (N.log2 (Npos p)))) (Npos p) []) as (d & ds & Heq & H).
  - lia.
  - rewrite Nat2N.inj_succ, N2Nat.id.
    apply N.log2_spec. lia.
  - exists d, ds. rewrite Heq, app_nil_r. split; [reflexivity|exact H].
Qed.

Lemma parse_number_digits : forall (neg : bool) d ds rest,
  forallb is_digit (d :: ds) = true -> (d <> 48 \/ ds = []) ->
  match rest with [] => True | c :: _ => is_digit c = false /\ c <> 46 /\ c <> 101 /\ c <> 69 end ->
  parse_number ((if neg then [45] else []) ++ (d :: ds) ++ rest)
  = Some (mk_json_int neg (Z.of_N (digits_val (d :: ds) 0)), rest).
Proof.
  intros neg d ds rest Hall Hlead Hrest.
  assert (Hd : is_digit d = true).
  { cbn [forallb] in Hall. apply andb_true_iff in Hall as [Ha _]. exact Ha. }
  assert (Hstrip : strip_minus ((if neg then [45] else []) ++ (d :: ds) ++ rest)
                   = (neg, (d :: ds) ++ rest)).
  { destruct neg; cbn [app strip_minus].
    - reflexivity.
    - destruct (N.eqb_spec d 45) as [E|_]; [|reflexivity].
      subst d. cbv in Hd. discriminate. }
  assert (Hnd : no_digit_head rest).
  { destruct rest as [|c r]; [exact I|]. cbn. tauto. }
  unfold parse_number. rewrite Hstrip. cbv beta iota.
  rewrite (take_digits_app (d :: ds) rest Hall Hnd). cbv beta iota.
  assert (Hlz : (d =? 48) && negb (is_nil ds) = false).
  { destruct Hlead as [Hne| ->].
    - destruct (N.eqb_spec d 48); [contradiction|reflexivity].
    - cbn. apply andb_false_r. }
  rewrite Hlz. cbv iota.
  assert (Hhead : head_is 46 rest = false /\ eat 46 rest = None /\ parse_exponent rest = Some (None, rest)).
  { destruct rest as [|c r]; [repeat split|].
    destruct Hrest as (_ & H46 & H101 & H69).
    cbn [head_is eat parse_exponent].
    destruct (N.eqb_spec c 46); [contradiction|].
    destruct (N.eqb_spec c 101); [contradiction|].
    destruct (N.eqb_spec c 69); [contradiction|].
    cbn [orb]. repeat split. }
  destruct Hhead as (Hh & He & Hp).
  rewrite Hh, He. cbv beta iota. cbn [andb]. cbv iota.
  rewrite Hp. cbv beta iota. rewrite app_nil_r. reflexivity.
Qed.

(** integers print and parse exactly *)
Theorem int_roundtrip : forall z rest,
  (- 2 ^ 63 <= z <= 2 ^ 64 - 1)%Z ->
  match rest with [] => True | c :: _ => is_digit c = false /\ c <> 46 /\ c <> 101 /\ c <> 69 end ->
  parse_number (Z_to_str z ++ rest) = Some (JInt z, rest).
Proof.
  intros z rest Hz Hrest.
  destruct z as [|p|p].
  - change (Z_to_str 0) with ((if false then [45] else []) ++ [48]).
    rewrite <- app_assoc.
    rewrite (parse_number_digits false 48 [] rest); [reflexivity|reflexivity|now right|exact Hrest].
  - destruct (N_to_str_spec p) as (d & ds & Heq & Hall & Hd & Hval).
    change (Z_to_str (Zpos p)) with ((if false then [45] else []) ++ N_to_str (Npos p)).
    rewrite Heq, <- app_assoc.
    rewrite (parse_number_digits false d ds rest Hall (or_introl Hd) Hrest).
    rewrite Hval. unfold mk_json_int, u64_max.
    destruct (Z.leb_spec (Z.of_N (N.pos p)) (2 ^ 64 - 1)) as [_|E]; [reflexivity|].
    cbn [Z.of_N] in E. lia.
  - destruct (N_to_str_spec p) as (d & ds & Heq & Hall & Hd & Hval).
    change (Z_to_str (Zneg p)) with ((if true then [45] else []) ++ N_to_str (Npos p)).
    rewrite Heq, <- app_assoc.
    rewrite (parse_number_digits true d ds rest Hall (or_introl Hd) Hrest).
    rewrite Hval. unfold mk_json_int. cbn [Z.of_N].
    destruct (Z.eqb_spec (Z.pos p) 0) as [E|_]; [discriminate|].
    destruct (Z.leb_spec (Z.pos p) (2 ^ 63)) as [_|E]; [reflexivity|].
    lia.
Qed.

(** *** unfolding equations for the mutually recursive parser *)
Lemma pv_S : forall f depth s, pv (S f) depth s =
      let '(tok, r) := classify (skip_ws s) in
      match tok with
      | TNull => Some (JNull, r)
      | TTrue => Some (JBool true, r)
      | TFalse => Some (JBool false, r)
      | TQuote =>
          match parse_str_body (S (length r)) r [] with
          | Some (st, r') => Some (JStr st, r')
          | None => None
          end
      | TLBrack =>
          match depth with
          | O | S O => None
          | S d =>
              match eat 93 (skip_ws r) with
              | Some r' => Some (JArr [], r')
              | None => parr f d r []
              end
          end
      | TLBrace =>
          match depth with
          | O | S O => None
          | S d =>
              match eat 125 (skip_ws r) with
              | Some r' => Some (JObj [], r')
              | None => pobj f d r []
              end
          end
      | TNum => parse_number r
      | TBad => None
      end.
Proof. reflexivity. Qed.

Lemma parr_S : forall f depth s acc, parr (S f) depth s acc =
      match pv f depth s with
      | Some (v, r) =>
          let r := skip_ws r in
          match eat 44 r with
          | Some r' => parr f depth r' (v :: acc)
          | None => match eat 93 r with
                    | Some r' => Some (JArr (rev (v :: acc)), r')
                    | None => None
                    end
          end
      | None => None
      end.
Proof. reflexivity. Qed.

Lemma pobj_S : forall f depth s acc, pobj (S f) depth s acc =
      match eat 34 (skip_ws s) with
      | Some r =>
          match parse_str_body (S (length r)) r [] with
          | Some (k, r1) =>
              match eat 58 (skip_ws r1) with
              | Some r2 =>
                  match pv f depth r2 with
                  | Some (v, r3) =>
                      let r3 := skip_ws r3 in
                      match eat 44 r3 with
                      | Some r4 => pobj f depth r4 ((k, v) :: acc)
                      | None => match eat 125 r3 with
                                | Some r4 => Some (JObj (rev ((k, v) :: acc)), r4)
                                | None => None
                                end
                      end
                  | None => None
                  end
              | None => None
              end
          | None => None
          end
      | None => None
      end.
Proof. reflexivity. Qed.

(** nested induction principle for trees *)
Fixpoint jtree_ind' (P : jtree -> Prop)
  (HNull : P JNull) (HBool : forall b, P (JBool b)) (HInt : forall z, P (JInt z))
  (HFloat : forall f, P (JFloat f)) (HStr : forall s, P (JStr s))
  (HArr : forall l, Forall P l -> P (JArr l))
  (HObj : forall kvs, Forall (fun kv => P (snd kv)) kvs -> P (JObj kvs))
  (t : jtree) {struct t} : P t :=
  let rec := jtree_ind' P HNull HBool HInt HFloat HStr HArr HObj in
  match t with
  | JNull => HNull
  | JBool b => HBool b
  | JInt z => HInt z
  | JFloat f => HFloat f
  | JStr s => HStr s
  | JArr l =>
      HArr l ((fix go (l : list jtree) : Forall P l :=
                 match l with
                 | [] => Forall_nil _
                 | x :: l' => Forall_cons x (rec x) (go l')
                 end) l)
  | JObj kvs =>
      HObj kvs ((fix go (l : list (str * jtree)) : Forall (fun kv => P (snd kv)) l :=
                   match l with
                   | [] => Forall_nil _
                   | (k, x) :: l' => Forall_cons (P := fun kv => P (snd kv)) (k, x) (rec x) (go l')
                   end) kvs)
  end.

Definition ok_rest (rest : str) : Prop :=
  match rest with
  | [] => True
  | c :: _ => is_digit c = false /\ c <> 46 /\ c <> 101 /\ c <> 69
  end.

Definition good_head (c : N) : Prop :=
  c = 110 \/ c = 116 \/ c = 102 \/ c = 34 \/ c = 91 \/ c = 123 \/ c = 45 \/ is_digit c = true.

Lemma is_digit_range : forall c, is_digit c = true -> 48 <= c <= 57.
Proof.
  intros c H. unfold is_digit in H. apply andb_true_iff in H as [H1 H2].
  apply N.leb_le in H1. apply N.leb_le in H2. lia.
Qed.

Lemma good_head_facts : forall c, good_head c ->
  is_json_ws c = false /\ c <> 93 /\ c <> 125 /\ c <> 44.
Proof.
  intros c H.
  assert (Hc : c = 110 \/ c = 116 \/ c = 102 \/ c = 34 \/ c = 91 \/ c = 123 \/ c = 45 \/ 48 <= c <= 57).
  { unfold good_head in H.
    destruct H as [H|[H|[H|[H|[H|[H|[H|H]]]]]]]; try tauto.
    apply is_digit_range in H. tauto. }
  clear H. unfold is_json_ws.
  destruct (N.eqb_spec c 32); [lia|].
  destruct (N.eqb_spec c 9); [lia|].
  destruct (N.eqb_spec c 10); [lia|].
  destruct (N.eqb_spec c 13); [lia|].
  cbn [orb]. repeat split; lia.
Qed.

Lemma skip_ws_nows : forall c r, is_json_ws c = false -> skip_ws (c :: r) = c :: r.
Proof. intros c r H. cbn [skip_ws]. rewrite H. reflexivity. Qed.

Lemma classify_num : forall c r, c = 45 \/ is_digit c = true -> classify (c :: r) = (TNum, c :: r).
Proof.
  intros c r H.
  assert (Hc : c = 45 \/ 48 <= c <= 57).
  { destruct H as [H|H]; [tauto|]. apply is_digit_range in H. tauto. }
  unfold classify.
  change (lit "null") with [110; 117; 108; 108].
  change (lit "true") with [116; 114; 117; 101].
  change (lit "false") with [102; 97; 108; 115; 101].
  cbn [strip_prefix].
  destruct (N.eqb_spec 110 c); [lia|].
  destruct (N.eqb_spec 116 c); [lia|].
  destruct (N.eqb_spec 102 c); [lia|].
  destruct (N.eqb_spec c 34); [lia|].
  destruct (N.eqb_spec c 91); [lia|].
  destruct (N.eqb_spec c 123); [lia|].
  destruct H as [->|H]; [reflexivity|].
  rewrite H. rewrite orb_true_r. reflexivity.
Qed.

Lemma Z_to_str_head : forall z, exists c tl, Z_to_str z = c :: tl /\ (c = 45 \/ is_digit c = true).
Proof.
  intros [|p|p].
  - exists 48, []. split; [reflexivity|right; reflexivity].
  - destruct (N_to_str_spec p) as (d & ds & Heq & Hall & _).
    exists d, ds. split; [exact Heq|]. right.
    cbn [forallb] in Hall. apply andb_true_iff in Hall as [Ha _]. exact Ha.
  - exists 45, (N_to_str (Npos p)). split; [reflexivity|left; reflexivity].
Qed.

Lemma print_head : forall fmt t, wf_tree t = true ->
  exists c tl, json_print fmt t = c :: tl /\ good_head c.
Proof.
  intros fmt t Hwf. unfold good_head. destruct t as [|b|z|f|s|l|kvs].
  - exists 110, [117; 108; 108]. split; [reflexivity|tauto].
  - destruct b.
    + exists 116, [114; 117; 101]. split; [reflexivity|tauto].
    + exists 102, [97; 108; 115; 101]. split; [reflexivity|tauto].
  - destruct (Z_to_str_head z) as (c & tl & Heq & H).
    exists c, tl. split; [exact Heq|tauto].
  - discriminate.
  - eexists 34, _. split; [reflexivity|tauto].
  - eexists 91, _. split; [reflexivity|tauto].
  - eexists 123, _. split; [reflexivity|tauto].
Qed.

Lemma print_length_pos : forall fmt t, wf_tree t = true -> (1 <= length (json_print fmt t))%nat.
Proof.
  intros fmt t Hwf. destruct (print_head fmt t Hwf) as (c & tl & Heq & _).
  rewrite Heq. cbn [length]. lia.
Qed.

Definition pv_ok (fmt : f64 -> str) (t : jtree) : Prop :=
  forall d rest f, (depth t < d)%nat -> ok_rest rest ->
    (length (json_print fmt t) <= f)%nat ->
    pv f d (json_print fmt t ++ rest) = Some (t, rest).

Lemma ok_rest_93 : forall r, ok_rest (93 :: r).
Proof. intros r. cbn. repeat split; discriminate. Qed.
Lemma ok_rest_44 : forall r, ok_rest (44 :: r).
Proof. intros r. cbn. repeat split; discriminate. Qed.
Lemma ok_rest_125 : forall r, ok_rest (125 :: r).
Proof. intros r. cbn. repeat split; discriminate. Qed.

Lemma depth_le_fold : forall (l : list jtree) t, In t l ->
  (depth t <= fold_right (fun x n => Nat.max (depth x) n) O l)%nat.
Proof.
  induction l as [|x l IH]; intros t Hin; [destruct Hin|].
  cbn [fold_right]. destruct Hin as [->|Hin]; [lia|]. specialize (IH t Hin). lia.
Qed.

Lemma depth_le_fold_obj : forall (l : list (str * jtree)) kv, In kv l ->
  (depth (snd kv) <= fold_right (fun kv n => Nat.max (depth (snd kv)) n) O l)%nat.
Proof.
  induction l as [|x l IH]; intros t Hin; [destruct Hin|].
  cbn [fold_right]. destruct Hin as [->|Hin]; [lia|]. specialize (IH t Hin). lia.
Qed.

Lemma parr_print : forall fmt l,
  Forall (fun t => wf_tree t = true -> pv_ok fmt t) l ->
  forallb wf_tree l = true -> l <> [] ->
  forall d rest f acc, (forall t, In t l -> (depth t < d)%nat) ->
    (length (intercalate [44%N] (map (json_print fmt) l)) + 1 <= f)%nat ->
    parr f d (intercalate [44] (map (json_print fmt) l) ++ 93 :: rest) acc
    = Some (JArr (rev acc ++ l), rest).
Proof.
  intros fmt l HF. induction HF as [|x l Hx HF IH]; intros Hwf Hne d rest f acc Hd Hf.
  - contradiction.
  - cbn [forallb] in Hwf. apply andb_true_iff in Hwf as [Hwx Hwl].
    specialize (Hx Hwx).
    pose proof (print_length_pos fmt x Hwx) as Hlen.
    destruct f as [|f]; [lia|].
    rewrite parr_S.
    destruct l as [|y l'].
    + cbn [map intercalate] in *.
      rewrite (Hx d (93 :: rest) f); [|apply Hd; left; reflexivity|apply ok_rest_93|lia].
      cbv beta iota zeta.
      rewrite skip_ws_nows by reflexivity.
      change (eat 44 (93 :: rest)) with (@None str).
      change (eat 93 (93 :: rest)) with (Some rest).
      cbv iota. cbn [rev]. reflexivity.
    + remember (y :: l') as l2 eqn:El2.
      assert (Hi : intercalate [44] (map (json_print fmt) (x :: l2))
                   = json_print fmt x ++ 44 :: intercalate [44] (map (json_print fmt) l2)).
      { rewrite El2. reflexivity. }
      rewrite Hi in *. clear Hi.
      rewrite app_length in Hf. cbn [length] in Hf.
      rewrite <- app_assoc. cbn [app].
      rewrite (Hx d (44 :: intercalate [44] (map (json_print fmt) l2) ++ 93 :: rest) f);
        [|apply Hd; left; reflexivity|apply ok_rest_44|lia].
      cbv beta iota zeta.
      rewrite skip_ws_nows by reflexivity.
      change (eat 44 (44 :: ?r)) with (Some r).
      cbn [eat]. change (44 =? 44) with true. cbv iota.
      rewrite IH; [|exact Hwl|rewrite El2; discriminate|intros t Ht; apply Hd; right; exact Ht|lia].
      cbn [rev]. rewrite <- app_assoc. reflexivity.
Qed.

Definition print_kv (fmt : f64 -> str) (kv : str * jtree) : str :=
  print_str (fst kv) ++ 58 :: json_print fmt (snd kv).

Lemma eat_quote_print_str : forall k R,
  eat 34 (skip_ws (print_str k ++ R)) = Some (tl (print_str k ++ R)).
Proof. intros k R. reflexivity. Qed.

Lemma psb_print_str : forall k R,
  parse_str_body (S (length (tl (print_str k ++ R)))) (tl (print_str k ++ R)) [] = Some (k, R).
Proof.
  intros k R. apply print_str_parses.
  unfold print_str. cbn [app tl length]. rewrite !app_length. cbn [length]. lia.
Qed.

Lemma pobj_print : forall fmt kvs,
  Forall (fun kv => wf_tree (snd kv) = true -> pv_ok fmt (snd kv)) kvs ->
  forallb (fun kv => wf_tree (snd kv)) kvs = true -> kvs <> [] ->
  forall d rest f acc, (forall kv, In kv kvs -> (depth (snd kv) < d)%nat) ->
    (length (intercalate [44%N] (map (print_kv fmt) kvs)) + 1 <= f)%nat ->
    pobj f d (intercalate [44] (map (print_kv fmt) kvs) ++ 125 :: rest) acc
    = Some (JObj (rev acc ++ kvs), rest).
Proof.
  intros fmt l HF. induction HF as [|[k x] l Hx HF IH]; intros Hwf Hne d rest f acc Hd Hf.
  - contradiction.
  - cbn [forallb snd] in Hwf. apply andb_true_iff in Hwf as [Hwx Hwl].
    cbn [snd] in Hx. specialize (Hx Hwx).
    pose proof (print_length_pos fmt x Hwx) as Hlen.
    destruct f as [|f]; [lia|].
    rewrite pobj_S.
    destruct l as [|y l'].
    + cbn [map intercalate] in *. unfold print_kv in *. cbn [fst snd] in *.
      rewrite app_length in Hf. cbn [length] in Hf.
      rewrite <- app_assoc. cbn [app].
      rewrite eat_quote_print_str, psb_print_str.
      rewrite skip_ws_nows by reflexivity.
      change (eat 58 (58 :: ?r)) with (Some r).
      cbn [eat]. change (58 =? 58) with true. cbv iota.
      rewrite (Hx d (125 :: rest) f); [|apply (Hd (k, x)); left; reflexivity|apply ok_rest_125|lia].
      cbv beta iota zeta.
      rewrite skip_ws_nows by reflexivity.
      cbn [eat]. change (125 =? 44) with false. change (125 =? 125) with true.
      cbv iota. cbn [rev]. reflexivity.
    + remember (y :: l') as l2 eqn:El2.
      assert (Hi : intercalate [44] (map (print_kv fmt) ((k, x) :: l2))
                   = print_kv fmt (k, x) ++ 44 :: intercalate [44] (map (print_kv fmt) l2)).
      { rewrite El2. reflexivity. }
      rewrite Hi in *. clear Hi.
      unfold print_kv at 1. unfold print_kv at 1 in Hf. cbn [fst snd] in *.
      rewrite !app_length in Hf. cbn [length] in Hf. rewrite ?app_length in Hf.
      rewrite <- !app_assoc. cbn [app]. rewrite <- ?app_assoc. cbn [app].
      rewrite eat_quote_print_str, psb_print_str.
      rewrite skip_ws_nows by reflexivity.
      cbn [eat]. change (58 =? 58) with true. cbv iota.
      rewrite (Hx d (44 :: intercalate [44] (map (print_kv fmt) l2) ++ 125 :: rest) f);
        [|apply (Hd (k, x)); left; reflexivity|apply ok_rest_44|lia].
      cbv beta iota zeta.
      rewrite skip_ws_nows by reflexivity.
      cbn [eat]. change (44 =? 44) with true. cbv iota.
      rewrite IH; [|exact Hwl|rewrite El2; discriminate|intros t Ht; apply Hd; right; exact Ht|lia].
      cbn [rev]. rewrite <- app_assoc. reflexivity.
Qed.

Lemma intercalate_head : forall (x : str) l c tl, x = c :: tl ->
  exists tl', intercalate [44] (x :: l) = c :: tl'.
Proof.
  intros x l c tl ->. destruct l as [|y l].
  - exists tl. reflexivity.
  - eexists. cbn [intercalate app]. reflexivity.
Qed.

Lemma pv_print : forall fmt t, wf_tree t = true -> pv_ok fmt t.
Proof.
  intros fmt t. induction t as [|b|z|f0|s|l IH|kvs IH] using jtree_ind'; intros Hwf d rest f Hd Hr Hf.
  - destruct f as [|f]; [cbn in Hf; lia|]. reflexivity.
  - destruct f as [|f]; [destruct b; cbn in Hf; lia|]. destruct b; reflexivity.
  - cbn [json_print] in *.
    destruct f as [|f].
    { destruct (Z_to_str_head z) as (c & tl & Heq & _). rewrite Heq in Hf. cbn in Hf. lia. }
    rewrite pv_S.
    destruct (Z_to_str_head z) as (c & tl & Heq & Hc).
    assert (Hgh : good_head c) by (unfold good_head; tauto).
    destruct (good_head_facts c Hgh) as (Hws & _).
    assert (Hs : skip_ws (Z_to_str z ++ rest) = Z_to_str z ++ rest).
    { rewrite Heq. cbn [app]. apply skip_ws_nows. exact Hws. }
    assert (Hcl : classify (Z_to_str z ++ rest) = (TNum, Z_to_str z ++ rest)).
    { rewrite Heq. cbn [app]. apply classify_num. exact Hc. }
    rewrite Hs, Hcl. cbv beta iota.
    apply int_roundtrip.
    + cbn [wf_tree] in Hwf. apply andb_true_iff in Hwf as [H1 H2].
      apply Z.leb_le in H1. apply Z.leb_le in H2. split; assumption.
    + exact Hr.
  - discriminate.
  - cbn [json_print] in *.
    destruct f as [|f]; [unfold print_str in Hf; cbn in Hf; lia|].
    rewrite pv_S.
    assert (Hs : skip_ws (print_str s ++ rest) = print_str s ++ rest) by reflexivity.
    assert (Hcl : classify (print_str s ++ rest) = (TQuote, tl (print_str s ++ rest))) by reflexivity.
    rewrite Hs, Hcl. cbv beta iota.
    rewrite psb_print_str. reflexivity.
  - cbn [json_print] in *. cbn [length] in Hf. rewrite app_length in Hf. cbn [length] in Hf.
    destruct f as [|f]; [lia|].
    cbn [app]. rewrite <- app_assoc. cbn [app].
    rewrite pv_S. rewrite skip_ws_nows by reflexivity.
    change (classify (91 :: ?r)) with (TLBrack, r).
    cbv beta iota.
    cbn [depth] in Hd.
    destruct d as [|[|d]]; [lia|lia|].
    destruct l as [|x l].
    + cbn [map intercalate app]. rewrite skip_ws_nows by reflexivity.
      cbn [eat]. change (93 =? 93) with true. reflexivity.
    + assert (Hwx : wf_tree x = true).
      { cbn [wf_tree forallb] in Hwf. apply andb_true_iff in Hwf as [Hw _]. exact Hw. }
      destruct (print_head fmt x Hwx) as (c & tl & Heq & Hgh).
      destruct (good_head_facts c Hgh) as (Hws & H93 & _).
      destruct (intercalate_head (json_print fmt x) (map (json_print fmt) l) c tl Heq) as (tl' & Hi).
      assert (He : eat 93 (skip_ws (intercalate [44] (map (json_print fmt) (x :: l)) ++ 93 :: rest)) = None).
      { cbn [map]. rewrite Hi. cbn [app]. rewrite skip_ws_nows by exact Hws.
        cbn [eat]. destruct (N.eqb_spec c 93); [contradiction|reflexivity]. }
      rewrite He.
      rewrite (parr_print fmt (x :: l)); [reflexivity|exact IH|exact Hwf|discriminate| |lia].
      intros t Ht. pose proof (depth_le_fold (x :: l) t Ht). lia.
  - cbn [json_print] in *. cbn [length] in Hf. rewrite app_length in Hf. cbn [length] in Hf.
    change (map (fun kv => print_str (fst kv) ++ 58 :: json_print fmt (snd kv)) kvs)
      with (map (print_kv fmt) kvs) in *.
    destruct f as [|f]; [lia|].
    cbn [app]. rewrite <- app_assoc. cbn [app].
    rewrite pv_S. rewrite skip_ws_nows by reflexivity.
    change (classify (123 :: ?r)) with (TLBrace, r).
    cbv beta iota.
    cbn [depth] in Hd.
    destruct d as [|[|d]]; [lia|lia|].
    destruct kvs as [|[k x] l].
    + cbn [map intercalate app]. rewrite skip_ws_nows by reflexivity.
      cbn [eat]. change (125 =? 125) with true. reflexivity.
    + assert (He : eat 125 (skip_ws (intercalate [44] (map (print_kv fmt) ((k, x) :: l)) ++ 125 :: rest)) = None).
      { cbn [map].
        destruct (intercalate_head (print_kv fmt (k, x)) (map (print_kv fmt) l) 34
                    (flat_map esc_char k ++ [34] ++ 58 :: json_print fmt x)) as (tl' & Hi).
        { unfold print_kv, print_str. cbn [fst snd app]. rewrite <- app_assoc. reflexivity. }
        rewrite Hi. reflexivity. }
      rewrite He.
      rewrite (pobj_print fmt ((k, x) :: l)); [reflexivity|exact IH|exact Hwf|discriminate| |lia].
      intros t Ht. pose proof (depth_le_fold_obj ((k, x) :: l) t Ht). lia.
Qed.

(** the main theorem: compact JSON text of a float-free tree of nesting < 127 parses back to itself *)
Theorem json_roundtrip : forall fmt t,
  wf_tree t = true -> (depth t < 127)%nat ->
  json_parse (json_print fmt t) = Some t.
Proof.
  intros fmt t Hwf Hd. unfold json_parse.
  pose proof (pv_print fmt t Hwf 128%nat [] (2 * length (json_print fmt t) + 4)%nat) as H.
  rewrite app_nil_r in H. rewrite H; [reflexivity|lia|exact I|lia].
Qed.

(** hence every record / table line the serialiser writes is valid JSON carrying exactly
    the fields (records: the row's keys; tables: every column in column order) *)
Theorem record_json_fields : forall fd fu d,
  match record_to_json fd fu d with
  | JObj kvs => map fst kvs = map fst d
  | _ => False
  end.
Proof.
  intros fd fu d. unfold record_to_json. rewrite map_map. cbn [fst]. reflexivity.
Qed.

Theorem table_json_columns : forall fd fu t,
  match table_to_json fd fu t with
  | JArr rows => length rows = length (t_rows t) /\
                 Forall (fun r => match r with JObj kvs => map fst kvs = t_cols t | _ => False end) rows
  | _ => False
  end.
Proof.
  intros fd fu t. unfold table_to_json. split.
  - apply map_length.
  - apply Forall_forall. intros r Hr. apply in_map_iff in Hr as (d & <- & _).
    rewrite map_map. cbn [fst]. apply map_id.
Qed.

(** values are encoded without loss: reading the tree back gives the value again
    (non-finite floats become null, dates/durations their text) *)
Fixpoint plain_value (v : value) : bool :=
  match v with
  | VStr _ | VBool _ | VNone => true
  | VInt z => in_i64 z
  | VFloat f => false
  | VDate _ | VDur _ => false
  | VArr l => forallb plain_value l
  | VObj kvs => forallb (fun kv => plain_value (snd kv)) kvs
  end.

(** objects are kept key-sorted and key-unique by [put]; that is what json_to_value rebuilds *)
Fixpoint sorted_keys (l : list (str * value)) : bool :=
  match l with
  | [] => true
  | (k, _) :: r => match r with
                   | [] => true
                   | (k', _) :: _ => str_ltb k k' && sorted_keys r
                   end
  end.

Fixpoint canonical (v : value) : bool :=
  match v with
  | VArr l => forallb canonical l
  | VObj kvs => sorted_keys kvs && forallb (fun kv => canonical (snd kv)) kvs
  | _ => true
  end.

Fixpoint value_ind2 (P : value -> Prop)
  (HStr : forall s, P (VStr s)) (HInt : forall z, P (VInt z))
  (HFloat : forall f, P (VFloat f)) (HBool : forall b, P (VBool b))
  (HDate : forall ns, P (VDate ns)) (HDur : forall ns, P (VDur ns))
  (HObj : forall kvs, Forall (fun kv => P (snd kv)) kvs -> P (VObj kvs))
  (HArr : forall l, Forall P l -> P (VArr l))
  (HNone : P VNone) (v : value) {struct v} : P v :=
  let rec := value_ind2 P HStr HInt HFloat HBool HDate HDur HObj HArr HNone in
  match v with
  | VStr s => HStr s
  | VInt z => HInt z
  | VFloat f => HFloat f
  | VBool b => HBool b
  | VDate ns => HDate ns
  | VDur ns => HDur ns
  | VObj kvs =>
      HObj kvs
        ((fix go (l : list (str * value)) : Forall (fun kv => P (snd kv)) l :=
            match l with
            | [] => Forall_nil _
            | (k, x) :: l' => Forall_cons (P := fun kv => P (snd kv)) (k, x) (rec x) (go l')
            end) kvs)
  | VArr l =>
      HArr l
        ((fix go (l : list value) : Forall P l :=
            match l with
            | [] => Forall_nil _
            | x :: l' => Forall_cons x (rec x) (go l')
            end) l)
  | VNone => HNone
  end.

Definition j2v_go : list (str * jtree) -> list (str * value) -> list (str * value) :=
  fix go (kvs : list (str * jtree)) (acc : list (str * value)) :=
    match kvs with
    | [] => acc
    | (k, v) :: r => go r (put k (json_to_value v) acc)
    end.

Definition v2j_go (fd fu : Z -> str) : list (str * value) -> list (str * jtree) :=
  fix go (l : list (str * value)) :=
    match l with
    | [] => []
    | (k, x) :: r => (k, value_to_json fd fu x) :: go r
    end.

Lemma put_last : forall (k : str) (v : value) acc,
  (forall k', In k' (map fst acc) -> str_cmp k k' = Gt) ->
  put k v acc = acc ++ [(k, v)].
Proof.
  intros k v acc. induction acc as [|[k2 v2] acc IH]; intros H.
  - reflexivity.
  - cbn [put app]. rewrite (H k2) by (left; reflexivity).
    rewrite IH; [reflexivity|]. intros k' Hk'. apply H. right. exact Hk'.
Qed.

Lemma sorted_keys_tail : forall k (x : value) r, sorted_keys ((k, x) :: r) = true -> sorted_keys r = true.
Proof.
  intros k x r H. cbn [sorted_keys] in H. destruct r as [|[k' x'] r']; [reflexivity|].
  apply andb_true_iff in H as [_ H]. exact H.
Qed.

Lemma sorted_keys_head : forall r k (x : value), sorted_keys ((k, x) :: r) = true ->
  forall b, In b (map fst r) -> str_cmp k b = Lt.
Proof.
  induction r as [|[k' x'] r IH]; intros k x H b Hb; [destruct Hb|].
  assert (Hlt : str_cmp k k' = Lt).
  { cbn [sorted_keys] in H. apply andb_true_iff in H as [H _]. unfold str_ltb in H.
    destruct (str_cmp k k'); try discriminate. reflexivity. }
  pose proof (sorted_keys_tail _ _ _ H) as Ht.
  cbn [map fst] in Hb. destruct Hb as [<-|Hb]; [exact Hlt|].
  eapply str_cmp_trans_lt; [exact Hlt|]. eapply IH; eassumption.
Qed.

Lemma j2v_go_sorted : forall fd fu kvs,
  Forall (fun kv => plain_value (snd kv) = true -> canonical (snd kv) = true ->
                    json_to_value (value_to_json fd fu (snd kv)) = snd kv) kvs ->
  forallb (fun kv => plain_value (snd kv)) kvs = true ->
  forallb (fun kv => canonical (snd kv)) kvs = true ->
  sorted_keys kvs = true ->
  forall acc,
    (forall a b, In a (map fst acc) -> In b (map fst kvs) -> str_cmp a b = Lt) ->
    j2v_go (v2j_go fd fu kvs) acc = acc ++ kvs.
Proof.
  intros fd fu kvs HF. induction HF as [|[k x] r Hx HF IH]; intros Hp Hc Hs acc Hacc.
  - cbn. rewrite app_nil_r. reflexivity.
  - cbn [forallb snd] in Hp, Hc.
    apply andb_true_iff in Hp as [Hpx Hpr]. apply andb_true_iff in Hc as [Hcx Hcr].
    cbn [snd] in Hx. specialize (Hx Hpx Hcx).
    cbn [v2j_go j2v_go]. fold (v2j_go fd fu). fold j2v_go.
    rewrite Hx.
    rewrite put_last.
    + rewrite IH; [rewrite <- app_assoc; reflexivity|exact Hpr|exact Hcr|
                   exact (sorted_keys_tail _ _ _ Hs)|].
      intros a b Ha Hb. rewrite map_app in Ha. apply in_app_or in Ha as [Ha|Ha].
      * apply Hacc; [exact Ha|right; exact Hb].
      * cbn in Ha. destruct Ha as [<-|[]]. eapply sorted_keys_head; eassumption.
    + intros k' Hk'. rewrite str_cmp_antisym.
      rewrite (Hacc k' k Hk'); [reflexivity|left; reflexivity].
Qed.

Theorem value_json_lossless : forall fd fu v,
  plain_value v = true -> canonical v = true ->
  json_to_value (value_to_json fd fu v) = v.
Proof.
  intros fd fu v.
  induction v as [s|z|f|b|ns|ns|kvs IH|l IH|] using value_ind2; intros Hp Hc;
    try reflexivity; try discriminate.
  - cbn [value_to_json json_to_value]. cbn [plain_value] in Hp. rewrite Hp. reflexivity.
  - change (json_to_value (value_to_json fd fu (VObj kvs)))
      with (VObj (j2v_go (v2j_go fd fu kvs) [])).
    cbn [plain_value canonical] in Hp, Hc. apply andb_true_iff in Hc as [Hs Hc].
    rewrite (j2v_go_sorted fd fu kvs IH Hp Hc Hs []); [reflexivity|].
    intros a b [].
  - cbn [value_to_json json_to_value]. f_equal.
    cbn [plain_value canonical] in Hp, Hc.
    induction IH as [|x l Hx HF IHl]; [reflexivity|].
    cbn [forallb] in Hp, Hc.
    apply andb_true_iff in Hp as [Hpx Hpr]. apply andb_true_iff in Hc as [Hcx Hcr].
    cbn [map]. rewrite (Hx Hpx Hcx), (IHl Hpr Hcr). reflexivity.
Qed.

Print Assumptions print_str_parses.
Print Assumptions int_roundtrip.
Print Assumptions json_roundtrip.
Print Assumptions value_json_lossless.
