(** C11: running an accepted query never panics or diverges in the model. *)
From Coq Require Import List ZArith NArith Bool Lia.
From AG Require Import Str F64 Value Json Expr Ops Pipeline Stream_proofs Local_proofs Compile_proofs Split_proofs.
Import ListNotations.

(** *** helpers *)
Lemma bind_np {A B} (r : res A) (k : A -> res B) :
  r <> Panic -> (forall x, k x <> Panic) -> bind r k <> Panic.
Proof. intros Hr Hk. destruct r; cbn [bind]; try discriminate; [apply Hk | congruence]. Qed.

Lemma aggressively_to_num_np s : aggressively_to_num s <> Panic.
Proof.
  unfold aggressively_to_num.
  destruct (from_string s); try discriminate;
    match goal with |- context[from_string ?x] => destruct (from_string x) end; discriminate.
Qed.

Lemma to_f64_np v : to_f64 v <> Panic.
Proof. destruct v; cbn [to_f64]; try discriminate. apply aggressively_to_num_np. Qed.

Lemma to_f64_agg_np v : to_f64_agg v <> Panic.
Proof. destruct v; cbn [to_f64_agg]; try discriminate. apply aggressively_to_num_np. Qed.

Lemma to_usize_np v : to_usize v <> Panic.
Proof.
  destruct v; cbn [to_usize]; try discriminate.
  - apply bind_np; [apply aggressively_to_num_np|]. intros n. destruct (fltb n f_zero); discriminate.
  - destruct (0 <=? z)%Z; discriminate.
  - destruct (fleb f_zero f); discriminate.
Qed.

Lemma to_display_np v : to_display v <> Panic.
Proof. destruct v; cbn [to_display]; try discriminate; [destruct b; discriminate| |]; match goal with |- context [dbg_value ?x] => destruct (dbg_value x) end; discriminate. Qed.

Lemma binary_op_np op l r : binary_op op l r <> Panic.
Proof.
  unfold binary_op. pose proof (to_f64_np l) as Hl. pose proof (to_f64_np r) as Hr.
  destruct (is_date l || is_date r); [discriminate|].
  destruct (to_f64 l), (to_f64 r); try discriminate; congruence.
Qed.

Lemma mk_dur_np z : mk_dur z <> Panic.
Proof. unfold mk_dur. destruct (dur_ok z); discriminate. Qed.
Lemma mk_date_np z : mk_date z <> Panic.
Proof. unfold mk_date. destruct (date_ok z); discriminate. Qed.

(** *** expressions and functions never panic: every failure is an EvalError (Err) or "unmodelled" *)
Lemma int_or_float_np z f : int_or_float z f <> Panic.
Proof. unfold int_or_float. destruct (in_i64 z); [discriminate|]. destruct (from_float f); discriminate. Qed.

Lemma arith_no_panic : forall a b,
  vadd a b <> Panic /\ vsub a b <> Panic /\ vmul a b <> Panic /\ vdiv a b <> Panic.
Proof.
  intros a b. repeat split.
  - unfold vadd. destruct (int_text a), (int_text b); cbn [vadd_typed]; try apply binary_op_np; try apply mk_dur_np; try apply mk_date_np; try apply int_or_float_np; discriminate.
  - unfold vsub. destruct (int_text a), (int_text b); cbn [vsub_typed]; try apply binary_op_np; try apply mk_dur_np; try apply mk_date_np; try apply int_or_float_np; discriminate.
  - unfold vmul. destruct (int_text a), (int_text b); cbn [vmul_typed]; try apply binary_op_np; try apply mk_dur_np; try apply int_or_float_np; discriminate.
  - unfold vdiv. destruct a, (int_text b); cbn [vdiv_typed]; try apply binary_op_np.
    match goal with |- context[negb (?x =? 0)%Z] => destruct (negb (x =? 0)%Z) end; discriminate.
Qed.

Lemma concat_displays_np args : concat_displays args <> Panic.
Proof.
  induction args as [|a r IH]; cbn [concat_displays]; [discriminate|].
  apply bind_np; [apply to_display_np|]. intros s.
  apply bind_np; [exact IH|]. discriminate.
Qed.

Lemma parse_hex_np s : parse_hex s <> Panic.
Proof.
  unfold parse_hex.
  destruct (strip_sign _) as [neg ds].
  destruct ds; [discriminate|].
  destruct (hex_digits_val _ _); [|discriminate].
  destruct (in_i64 _); discriminate.
Qed.

Lemma float1_np f args : float1 f args <> Panic.
Proof.
  unfold float1. destruct args as [|a [|b t]]; try discriminate.
  apply bind_np; [apply to_f64_np|]. discriminate.
Qed.

Lemma num1_np fi f args : num1 fi f args <> Panic.
Proof.
  unfold num1. destruct (match exact_int args with Some i => fi i | None => None end); [discriminate|apply float1_np].
Qed.

Ltac np :=
  repeat first
    [ discriminate
    | apply num1_np
    | apply float1_np
    | apply to_f64_np
    | apply to_display_np
    | apply to_usize_np
    | apply concat_displays_np
    | apply parse_hex_np
    | apply bind_np; [|intros ?]
    | match goal with
      | |- (if ?c then _ else _) <> _ => destruct c
      | |- (match ?x with _ => _ end) <> _ => destruct x
      end ].

Lemma eval_func_no_panic : forall f args, eval_func f args <> Panic.
Proof.
  intros f args. unfold eval_func.
  repeat match goal with
         | |- (if is_name ?g ?s then _ else _) <> _ => destruct (is_name g s)
         end; try solve [np].
  (* isNumeric *)
  destruct args as [|a [|b t]]; try discriminate.
  pose proof (to_f64_np a) as Ha. destruct (to_f64 a); try discriminate. congruence.
Qed.

Lemma walk_refs_np rest : forall v, walk_refs rest v <> Panic.
Proof.
  induction rest as [|rf rest IH]; intros v; cbn [walk_refs]; [discriminate|].
  destruct rf as [k|i].
  - destruct v; try discriminate. destruct (get k kvs); [apply IH | discriminate].
  - destruct v; try discriminate.
    destruct (_ || _); [discriminate|].
    destruct (nth_error _ _); [apply IH | discriminate].
Qed.

Theorem eval_no_panic : forall e d, eval e d <> Panic.
Proof.
  fix IH 1. intros e d. destruct e; cbn [eval].
  - destruct (get head d); [apply walk_refs_np | discriminate].
  - apply bind_np; [apply IH|]. intros v. destruct v; discriminate.
  - apply bind_np; [apply IH|]. intros a. apply bind_np; [apply IH|]. discriminate.
  - apply bind_np; [apply IH|]. intros a. apply bind_np; [apply IH|]. intros b.
    destruct (arith_no_panic a b) as (H1 & H2 & H3 & H4). destruct o; assumption.
  - apply bind_np; [apply IH|]. intros a. destruct a; try discriminate.
    destruct o; destruct b; try discriminate; apply IH.
  - apply bind_np; [|intros vs; apply eval_func_no_panic].
    induction args as [|a r IHr]; [discriminate|].
    apply bind_np; [apply IH|]. intros v. apply bind_np; [exact IHr|]. discriminate.
  - apply bind_np; [apply IH|]. intros cv. destruct cv; try discriminate.
    destruct b; apply IH.
  - discriminate.
  - discriminate.
Qed.

Lemma eval_str_np e d : eval_str e d <> Panic.
Proof. unfold eval_str. apply bind_np; [apply eval_no_panic|]. intros v; destruct v; discriminate. Qed.
Lemma eval_bool_np e d : eval_bool e d <> Panic.
Proof. unfold eval_bool. apply bind_np; [apply eval_no_panic|]. intros v; destruct v; discriminate. Qed.
Lemma eval_f64_np e d : eval_f64 e d <> Panic.
Proof. unfold eval_f64. apply bind_np; [apply eval_no_panic|]. intros v; apply to_f64_agg_np. Qed.

Lemma get_input_np r from : get_input r from <> Panic.
Proof. destruct from; cbn [get_input]; [apply eval_str_np | discriminate]. Qed.

Lemma put_path_np rest : forall cur newv, put_path rest cur newv <> Panic.
Proof.
  induction rest as [|rf rest IH]; intros cur newv; cbn [put_path]; [discriminate|].
  destruct rf as [k|i].
  - destruct cur; try discriminate. destruct (get k kvs).
    + apply bind_np; [apply IH | discriminate].
    + destruct rest; discriminate.
  - destruct cur; try discriminate.
    destruct (_ || _); [discriminate|].
    destruct (nth_error _ _); [|discriminate].
    apply bind_np; [apply IH | discriminate].
Qed.

Lemma put_path_nu rest : forall cur newv, put_path rest cur newv <> Unm.
Proof.
  induction rest as [|rf rest IH]; intros cur newv; cbn [put_path]; [discriminate|].
  destruct rf as [k|i].
  - destruct cur; try discriminate. destruct (get k kvs) as [child|].
    + specialize (IH child newv). destruct (put_path rest child newv); cbn [bind]; try discriminate. congruence.
    + destruct rest; discriminate.
  - destruct cur; try discriminate.
    destruct (_ || _); [discriminate|].
    destruct (nth_error _ _) as [child|]; [|discriminate].
    specialize (IH child newv). destruct (put_path rest child newv); cbn [bind]; try discriminate. congruence.
Qed.

Lemma put_expr_np key v r : put_expr key v r <> Panic.
Proof.
  unfold put_expr. destruct key; try discriminate.
  destruct (get head (rdata r)).
  - apply bind_np; [apply put_path_np | discriminate].
  - destruct rest; discriminate.
Qed.

Lemma put_expr_nu key v r : put_expr key v r <> Unm.
Proof.
  unfold put_expr. destruct key; try discriminate.
  destruct (get head (rdata r)) as [root|].
  - pose proof (put_path_nu rest root v) as H.
    destruct (put_path rest root v); cbn [bind]; try discriminate. congruence.
  - destruct rest; discriminate.
Qed.

(** *** row operators *)
Theorem apply_fun_no_panic : forall s r, apply_fun s r <> Panic.
Proof.
  intros s r. destruct s; cbn [apply_fun]; try discriminate.
  - unfold json_op. apply bind_np; [apply get_input_np|]. intros inp.
    destruct (json_parse inp) as [j|]; [destruct j|]; discriminate.
  - unfold logfmt_op. apply bind_np; [apply get_input_np|]. discriminate.
  - unfold parse_op. apply bind_np; [apply get_input_np|]. intros inp.
    destruct (kw_captures _ _ _); [discriminate|]. destruct nodrop; discriminate.
  - unfold split_op. apply bind_np; [apply get_input_np|]. intros inp.
    destruct (split_with_delimiters inp sep); [|discriminate].
    destruct out as [oc|]; [|discriminate].
    apply bind_np; [apply put_expr_np | discriminate].
  - unfold fields_op. cbv zeta. destruct (filter _ _); discriminate.
  - unfold where_op. apply bind_np; [apply eval_bool_np | discriminate].
  - unfold let_op. apply bind_np; [apply eval_no_panic | discriminate].
  - unfold timeslice_op. apply bind_np; [apply eval_no_panic|]. intros v.
    destruct v; try discriminate. destruct (_ <=? _)%Z; [discriminate|].
    unfold mk_date. destruct (date_ok _); cbn [bind]; discriminate.
Qed.

Theorem op_step_no_panic : forall o r, snd (op_step o r) <> Panic.
Proof.
  intros o r. destruct o; cbn [op_step snd]; try discriminate.
  - apply apply_fun_no_panic.
  - pose proof (eval_f64_np e (rdata r)) as H.
    destruct (eval_f64 e (rdata r)); cbn [snd]; try discriminate. congruence.
Qed.

Lemma proc_preagg_np ops : forall r, snd (fst (proc_preagg ops r)) <> Panic.
Proof.
  induction ops as [|o ops IH]; intros r; cbn [proc_preagg]; [cbn; discriminate|].
  pose proof (op_step_no_panic o r) as Hs.
  destruct (op_step o r) as [o' out]. cbn [snd] in Hs.
  destruct out as [[r'|]| | |]; cbn [fst snd]; try discriminate; try congruence.
  specialize (IH r'). destruct (proc_preagg ops r') as [[rest' res] n]. exact IH.
Qed.

Lemma feed_np st r : b_panic (p_bad st) = false -> b_panic (p_bad (feed st r)) = false.
Proof.
  intros H. unfold feed. pose proof (proc_preagg_np (p_ops st) r) as Hp.
  destruct (proc_preagg (p_ops st) r) as [[ops' res] n]. cbn [fst snd] in Hp.
  destruct res as [[r'|]| | |]; cbn [p_bad]; try exact H; try congruence.
  unfold bad_or; cbn [b_panic]. rewrite H. reflexivity.
Qed.

Lemma feed_all_np recs : forall st,
  b_panic (p_bad st) = false -> b_panic (p_bad (fold_left feed recs st)) = false.
Proof.
  induction recs as [|r recs IH]; intros st H; cbn [fold_left]; [exact H|].
  apply IH. now apply feed_np.
Qed.

Lemma drain_loop_np fuel : forall st,
  b_panic (p_bad st) = false -> b_panic (p_bad (drain_loop fuel st)) = false.
Proof.
  induction fuel as [|f IH]; intros st H; cbn [drain_loop]; [exact H|].
  destruct (p_ops st) as [|o rest]; [exact H|].
  apply IH. apply feed_all_np. exact H.
Qed.

(** the pre-aggregate part of a run never raises the panic flag *)
Theorem run_preagg_no_panic : forall ops recs, b_panic (p_bad (run_preagg ops recs)) = false.
Proof.
  intros ops recs. unfold run_preagg. apply drain_loop_np. apply feed_all_np. reflexivity.
Qed.

(** *** split makes progress: with the separator check of the type checker it never runs out of fuel *)
Theorem split_never_diverges : forall sep from out r,
  stage_ok (SSplit sep from out) = true -> split_op sep from out r <> Unm \/
  (exists e, from = Some e /\ eval_str e (rdata r) = Unm).
Proof.
  intros sep from out r Hok. cbn [stage_ok] in Hok.
  assert (Hsep : sep <> []).
  { intros ->. cbn in Hok. discriminate. }
  unfold split_op.
  destruct from as [e|]; cbn [get_input].
  - destruct (eval_str e (rdata r)) as [inp| | |] eqn:He; cbn [bind].
    + left. destruct (split_terminates inp sep Hsep) as [l Hl]. rewrite Hl.
      destruct out as [oc|]; [|discriminate].
      pose proof (put_expr_nu oc (VArr (map from_string l)) r) as H.
      destruct (put_expr _ _ _); cbn [bind]; try discriminate. congruence.
    + left; discriminate.
    + left; discriminate.
    + right. exists e. split; [reflexivity | exact He].
  - left. cbn [bind]. destruct (split_terminates (rraw r) sep Hsep) as [l Hl]. rewrite Hl.
    destruct out as [oc|]; [|discriminate].
    pose proof (put_expr_nu oc (VArr (map from_string l)) r) as H.
    destruct (put_expr _ _ _); cbn [bind]; try discriminate. congruence.
Qed.

(** *** the aggregate side *)
Lemma acc_emit_no_panic : forall a, acc_emit a <> Panic.
Proof. intros a. destruct a; cbn [acc_emit]; discriminate. Qed.

Lemma sequence_res_np {A} (l : list (res A)) :
  Forall (fun r => r <> Panic) l -> sequence_res l <> Panic.
Proof.
  induction 1 as [|r l Hr Hl IH]; cbn [sequence_res fold_right]; [discriminate|].
  apply bind_np; [exact Hr|]. intros x. apply bind_np; [exact IH|]. discriminate.
Qed.

Lemma emit_fold_np accs : forall rm : res (list (str * value)), rm <> Panic ->
  fold_left (fun rm na => do m <- rm; do v <- acc_emit (snd na); Ok (put (fst na) v m)) accs rm <> Panic.
Proof.
  induction accs as [|na accs IH]; intros rm H; cbn [fold_left]; [exact H|].
  apply IH. apply bind_np; [exact H|]. intros m.
  apply bind_np; [apply acc_emit_no_panic | discriminate].
Qed.

Theorem g_emit_no_panic : forall g, g_emit g <> Panic.
Proof.
  intros g. unfold g_emit. cbv zeta.
  apply bind_np; [|discriminate].
  apply sequence_res_np. apply Forall_forall. intros x Hin.
  apply in_map_iff in Hin as [[kvals accs] [<- _]].
  apply emit_fold_np. discriminate.
Qed.

Lemma run_rows_np rows : forall o acc, snd (run_rows o rows acc) <> Panic.
Proof.
  induction rows as [|r rows IH]; intros o acc; cbn [run_rows]; [cbn; discriminate|].
  pose proof (op_step_no_panic o r) as Hs.
  destruct (op_step o r) as [o' out]. cbn [snd] in Hs.
  destruct out as [[r'|]| | |]; try apply IH; cbn [snd]; try discriminate. congruence.
Qed.

Theorem adapter_no_panic : forall st t, adapter_process st t <> Panic.
Proof.
  intros st t. unfold adapter_process. cbv zeta.
  pose proof (run_rows_np (map (fun d => mkRec d []) (t_rows t)) (build_op st) []) as H.
  destruct (run_rows _ _ _) as [o out]. cbn [snd] in H.
  apply bind_np; [exact H | discriminate].
Qed.

(** the first aggregate operator is never an adapter, so a record never reaches one *)
Theorem post_head_not_adapter : forall stages,
  match snd (compile stages) with
  | AAdapter _ _ :: _ => False
  | _ => True
  end.
Proof.
  intros stages. rewrite compile_spec.
  pose proof (split_pre_head stages) as H.
  destruct (split_pre stages) as [p q]. cbn [snd].
  destruct q as [|s q']; [exact I|].
  destruct s; cbn in H; try discriminate; cbn [post_ref mk_aggop]; exact I.
Qed.

Definition not_adapter (a : aggop) : Prop :=
  match a with AAdapter _ _ => False | _ => True end.

Lemma process_records_ok (sent : list record) : forall a, not_adapter a ->
  exists a', fold_left (fun ra r => do a <- ra; agg_process_record a (rdata r)) sent (Ok a) = Ok a'
             /\ not_adapter a'.
Proof.
  induction sent as [|r sent IH]; intros a Ha; cbn [fold_left].
  - exists a. split; [reflexivity | exact Ha].
  - destruct a; cbn [not_adapter] in Ha; try contradiction; cbn [bind agg_process_record];
      apply IH; exact I.
Qed.

Lemma agg_emit_np a : agg_emit a <> Panic.
Proof.
  destruct a; cbn [agg_emit]; [apply g_emit_no_panic | | discriminate].
  destruct (existsb _ _); discriminate.
Qed.

Lemma agg_process_table_np a t : agg_process_table a t <> Panic.
Proof.
  destruct a; cbn [agg_process_table]; try discriminate.
  - destruct (existsb _ _); discriminate.
  - apply bind_np; [apply adapter_no_panic | discriminate].
Qed.

Lemma run_agg_rest_np rest : forall t, run_agg_rest t rest <> Panic.
Proof.
  induction rest as [|a rest IH]; intros t; cbn [run_agg_rest]; [discriminate|].
  apply bind_np; [apply agg_process_table_np|]. intros a'.
  apply bind_np; [apply agg_emit_np|]. intros t'. apply IH.
Qed.

(** *** the whole run *)
Theorem run_pipeline_no_panic : forall f stages lines, out (run_pipeline f stages lines) <> Panic.
Proof.
  intros f stages lines. unfold run_pipeline.
  pose proof (post_head_not_adapter stages) as Hh.
  destruct (compile stages) as [pre post]. cbn [snd] in Hh. cbv zeta.
  rewrite run_preagg_no_panic.
  destruct (b_unm _); [cbn [out]; discriminate|].
  destruct post as [|head rest]; [cbn [out]; discriminate|].
  destruct (existsb _ _); [cbn [out]; discriminate|].
  cbn [out].
  assert (Hna : not_adapter head) by (destruct head; [exact I | exact I | exact Hh]).
  destruct (process_records_ok (rev (p_sent (run_preagg pre (map (fun l => mkRec [] l) (filter (fun l => f (chomp l)) lines))))) head Hna)
    as [a' [Hf _]].
  rewrite Hf. cbn [bind].
  apply bind_np; [apply agg_emit_np|]. intros t.
  apply bind_np; [apply run_agg_rest_np | discriminate].
Qed.

(** *** a row that an operator rejects is skipped without changing the result for any other row *)
Theorem bad_row_isolated : forall ops a x b,
  forallb is_fun ops = true -> staged ops [x] = [] ->
  staged ops (a ++ [x] ++ b) = staged ops (a ++ b).
Proof.
  intros ops a x b Hf Hx.
  rewrite !(staged_app ops Hf), Hx. reflexivity.
Qed.

(** ... and exactly one `error:` line is reported when the rejection is an evaluation error *)
Theorem error_counted_once : forall o r,
  snd (op_step o r) = Err ->
  forall rest, let '(_, res, n) := proc_preagg (o :: rest) r in res = Ok None /\ n = 1%nat.
Proof.
  intros o r H rest. cbn [proc_preagg].
  destruct (op_step o r) as [o' out]. cbn [snd] in H. subst out. split; reflexivity.
Qed.

Print Assumptions eval_no_panic.
Print Assumptions run_pipeline_no_panic.
Print Assumptions run_preagg_no_panic.
Print Assumptions split_never_diverges.
