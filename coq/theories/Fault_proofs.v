(** After the output has failed the reader consumes AT MOST ONE more line - whatever that line is:
    one the filter rejects, one an operator drops, one that would have produced a row.  (The first
    version of the repair bc0416c, and a seeded change of round 6, looked at the failure flag only on
    some of these paths: endless input that keeps matching the filter but is dropped by an operator
    then keeps agrind reading for ever.) *)
From Coq Require Import List ZArith NArith Bool Lia Arith.
From AG Require Import Str F64 Value Json Expr Ops Pipeline Stream Stream_proofs Protocol_proofs.
Import ListNotations.
Open Scope nat_scope.

(** the very next read after the failure ends the reading phase, for ANY line *)
Theorem reader_stops_on_any_line : forall s l rest,
  y_rx s = false -> y_phase s = PRead -> y_lines s = l :: rest ->
  exists s', reader_step s = Some s' /\ y_phase s' = PDrainOp /\ y_lines s' = rest /\
             y_ops s' = y_ops s /\ y_chan s' = y_chan s /\ y_out s' = y_out s /\ y_errs s' = y_errs s.
Proof.
  intros [lines ops ph ch rx out bud errs rd] l rest.
  cbn [y_lines y_ops y_phase y_chan y_rx y_out y_budget y_errs y_rdone].
  intros -> -> ->. eexists. unfold reader_step.
  cbn [y_lines y_ops y_phase y_chan y_rx y_out y_budget y_errs y_rdone negb].
  split; [reflexivity|]. cbn [y_lines y_ops y_phase y_chan y_rx y_out y_budget y_errs y_rdone]. now repeat split.
Qed.

(** lines still unread, plus one while the reader has left the reading phase *)
Definition unread_credit (s : sys) : nat :=
  length (y_lines s) + match y_phase s with PRead => 0 | _ => 1 end.

Definition UInv (n : nat) (s : sys) : Prop :=
  y_rx s = false /\ y_rdone s = true /\ n <= unread_credit s.

Lemma UInv_reader n s s' : UInv n s -> reader_step s = Some s' -> UInv n s'.
Proof.
  unfold UInv, unread_credit.
  destruct s as [lines ops ph ch rx out bud errs rd].
  cbn [y_lines y_ops y_phase y_chan y_rx y_out y_budget y_errs y_rdone].
  intros (Hx & Hd & Hn) Hstep. subst rx rd.
  unfold reader_step, try_send in Hstep.
  cbn [y_lines y_ops y_phase y_chan y_rx y_out y_budget y_errs y_rdone] in Hstep.
  destruct ph as [| |pending|].
  - destruct lines as [|l rest].
    + inversion Hstep; subst s'. cbn [y_lines y_phase y_rx y_rdone length] in *. repeat split; lia.
    + cbn [negb] in Hstep. inversion Hstep; subst s'. cbn [y_lines y_phase y_rx y_rdone length] in *. repeat split; lia.
  - destruct ops as [|o' rest]; inversion Hstep; subst s'; cbn [y_lines y_phase y_rx y_rdone] in *; repeat split; lia.
  - destruct pending as [|r0 pending].
    + inversion Hstep; subst s'; cbn [y_lines y_phase y_rx y_rdone] in *; repeat split; lia.
    + destruct (proc_preagg ops r0) as [[ops' res] k].
      destruct res as [[r'|]| | |]; inversion Hstep; subst s'; cbn [y_lines y_phase y_rx y_rdone] in *; repeat split; lia.
  - discriminate.
Qed.

Lemma UInv_renderer n s s' : UInv n s -> renderer_step s = Some s' -> UInv n s'.
Proof.
  unfold UInv. intros (Hx & Hd & Hn) Hstep.
  unfold renderer_step in Hstep. rewrite Hd in Hstep. discriminate.
Qed.

(** in ANY continuation of a failed state at most one more line is taken from the input *)
Theorem at_most_one_line_after_failure_weak : forall s sched,
  y_rx s = false -> y_rdone s = true ->
  length (y_lines s) <= length (y_lines (run_schedule sched s)) + 1.
Proof.
  intros s sched Hx Hd.
  assert (H : UInv (length (y_lines s)) (run_schedule sched s)).
  { apply run_schedule_inv; [apply UInv_reader | apply UInv_renderer |].
    unfold UInv, unread_credit. repeat split; [assumption|assumption|lia]. }
  destruct H as (_ & _ & H). unfold unread_credit in H.
  destruct (y_phase (run_schedule sched s)); lia.
Qed.

(** the same for the states of the system: any reachable state, endless input included *)
Theorem at_most_one_line_after_failure : forall f ops lines budget sched1 sched2,
  let s := run_schedule sched1 (init f ops lines budget) in
  y_rx s = false ->
  length (y_lines s) <= length (y_lines (run_schedule sched2 s)) + 1.
Proof.
  intros f ops lines budget sched1 sched2 s Hx.
  apply at_most_one_line_after_failure_weak; [exact Hx|].
  apply rx_false_rdone; exact Hx.
Qed.

(** the premises are met: stdout fails at the first row, the renderer notices, and of the four lines
    that are still unread (none of which an operator would let through) exactly one is consumed *)
Example failure_then_dropped_lines :
  let ops := [] in
  let s0 := init (fun _ => true) ops [lit "a"; lit "b"; lit "c"; lit "d"; lit "e"] (Some 0) in
  let s := run_schedule [AReader; ARenderer] s0 in
  y_rx s = false /\ length (y_lines s) = 4 /\
  length (y_lines (run_schedule [AReader; AReader; AReader; AReader; AReader; AReader; AReader; AReader] s)) = 3.
Proof. vm_compute. repeat split. Qed.
