(** MODEL of the CKMS quantile sketch, crate [quantiles] 0.7.1
    (src/ckms/{mod.rs,store.rs,entry.rs}), as used by agrind's percentile
    aggregates: [CKMS::<f64>::new(0.001)], [insert(v)] for every non-NaN value
    in arrival order, one [query(q)] at the end.

    What is transcribed, and what is derived rather than stored:

    - [Store] keeps a vector of [Inner] blocks of at most [inner_cap = 2048]
      entries.  The LAYOUT MATTERS: the middle-insertion search of
      [Store::insert] adds to its rank [r] the [g_sum] of the block it moves
      INTO ([outer_idx += 1; r += self.data[outer_idx].g_sum]) and then counts
      ENTRIES (not [g]) inside the block, so the [delta] given to a new entry
      depends on where the block boundaries are.  The model therefore keeps the
      blocks: [st_data : list (list entry)].
    - [Inner::g_sum] is not stored: in the crate it is always the sum of the [g]
      of the block's entries (new: 0; insert: +1 with an entry of g = 1;
      [split_off] recomputes it for the tail and subtracts it from the head;
      a cross-block merge in [compress] moves [nxt_g] from one block to the
      other; joining two blocks adds them), so the model computes [sum_g] of the
      block where the crate reads [g_sum].
    - [Store::len] is the number of stored entries, [Store::n] and [CKMS::n]
      count the insertions: [st_n] is stored, [len] is computed.
    - [cma] and [last_in] do not influence [query] and are omitted.
    - [Store::compress]: the first loop walks the entries in order with a
      "current" entry and the next one, whatever block they are in, and the only
      effect of the blocks is that the merged entry stays in the block of the
      current one and the next one is removed from its block; the model runs it
      on the entries tagged with their block number ([compress_flat]) and
      regroups by runs of equal tags ([regroup]).  A block emptied by the loop
      (all of its entries merged into an entry of an earlier block) is dropped
      at that point; in the crate it survives the loop as an empty block and is
      then joined to its predecessor by the second loop (0 + len <= inner_cap
      always holds), which leaves the same blocks.  The loop counter [r] is
      incremented once per iteration (it is NOT the rank), as in the crate.
    - counters are [Z].  The [u32] fields [g], [delta], the [u32] ranks [r] and
      the [usize] counters cannot wrap below 2^32 insertions (every [g], every
      [delta + 1] and every [r] is at most the number of insertions; the debug
      build would panic on overflow, not wrap); [invariant(..) - 1] cannot
      underflow since [invariant >= 1].
    - samples are compared with [PartialOrd] on f64: [a < b] is [fltb a b],
      [a >= b] is [fleb b a] (values are not NaN). *)
From Coq Require Import List ZArith Bool Floats.SpecFloat.
From AG Require Import F64.
From AG Require Generated.
Import ListNotations.
Open Scope Z_scope.

Record entry := mkE { e_v : f64; e_g : Z; e_d : Z }.

Record ckms_state := mkS {
  st_err : f64;          (* Store.error *)
  st_err2 : f64;         (* 2.0 * error, the first product of [invariant] *)
  st_thr : Z;            (* insert_threshold *)
  st_inserts : Z;        (* inserts *)
  st_n : Z;              (* n (CKMS.n = Store.n) *)
  st_data : list (list entry)   (* Store.data, without g_sum *)
}.

Definition inner_cap : nat := 2048.

Definition f_two : f64 := f_of_Z 2.
Definition f_one : f64 := f_of_Z 1.

(** Rust [x as u32] from f64: NaN -> 0, truncation toward zero, saturating *)
Definition f_to_u32_sat (x : f64) : Z :=
  match x with
  | S754_nan => 0
  | S754_infinity s => if s then 0 else 2 ^ 32 - 1
  | _ => let t := ftrunc_Z x in
         if t <? 0 then 0 else if 2 ^ 32 - 1 <? t then 2 ^ 32 - 1 else t
  end.

(** [invariant(r, error)]: [(2.0 * error * r).floor() as u32], 0 replaced by 1.
    [err2] is [2.0 * error] (Rust's [*] associates to the left). *)
Definition invariant (err2 : f64) (r : f64) : Z :=
  let i := f_to_u32_sat (ffloor (fmul err2 r)) in
  if i =? 0 then 1 else i.

(** [CKMS::new] *)
Definition f_1e10 : f64 := f_of_bits 4457293557087583675.   (* 0.000_000_000_1 *)
Definition f_099 : f64 := f_of_bits 4607092346807469998.    (* 0.99 *)

Definition ckms_new (error : f64) : ckms_state :=
  let error := if fleb error f_1e10 then f_1e10
               else if fleb f_one error then f_099 else error in
  let err2 := fmul f_two error in
  let it := fdiv f_one err2 in
  let thr := if fltb it f_one then 1 else f_to_u64_sat it in
  mkS error err2 thr 0 0 [[]].

Definition sum_g (l : list entry) : Z := fold_right (fun e a => e_g e + a) 0 l.

Definition flat (d : list (list entry)) : list entry := concat d.

(** put [e] at index [ii] of block [oi]; a block that then has more than
    [inner_cap] entries is split at [inner_cap] and its tail becomes the next
    block (front: [insert(1, nxt)]/[push]; back: [push]; middle:
    [insert(outer_idx + 1, nxt)] -- the same thing) *)
Definition insert_at (ii : nat) (e : entry) (l : list entry) : list entry :=
  firstn ii l ++ e :: skipn ii l.

Fixpoint place (oi ii : nat) (e : entry) (d : list (list entry)) {struct d} : list (list entry) :=
  match d with
  | [] => [[e]]                      (* not reachable: Store.data is never empty *)
  | b :: rest =>
      match oi with
      | O => let b' := insert_at ii e b in
             if (inner_cap <? length b')%nat
             then firstn inner_cap b' :: skipn inner_cap b' :: rest
             else b' :: rest
      | S k => b :: place k ii e rest
      end
  end.

Definition last_v (b : list entry) (dflt : f64) : f64 :=
  e_v (last b (mkE dflt 0 0)).

(** "Seek the outer_idx forward to the right cache line": while the element is
    greater than the last entry of the block, move to the next block and add
    THAT block's g_sum to r.  (If there were no next block the crate would
    index out of bounds; this cannot happen when the element is not greater
    than the very last entry, which the "insert at the back" test excluded.) *)
Fixpoint seek_outer (x : f64) (d : list (list entry)) (oi : nat) (r : Z)
  : nat * Z * list entry :=
  match d with
  | [] => (oi, r, [])
  | b :: rest =>
      if fltb (last_v b x) x then
        match rest with
        | [] => (oi, r, b)          (* not reachable *)
        | b' :: _ => seek_outer x rest (S oi) (r + sum_g b')
        end
      else (oi, r, b)
  end.

(** "Seek the inner_idx forward": number of leading entries smaller than x *)
Fixpoint seek_inner (x : f64) (b : list entry) : nat :=
  match b with
  | e :: b' => if fltb (e_v e) x then S (seek_inner x b') else O
  | [] => O
  end.

(** [Store::insert]: the position (block, index) and the delta of the new entry *)
Definition insert_pos (err2 : f64) (x : f64) (d : list (list entry)) : nat * nat * Z :=
  match d with
  | [] => (O, O, 0)
  | [] :: _ => (O, O, 0)                               (* data[0] empty: front *)
  | (e0 :: _) :: _ =>
      if fleb x (e_v e0) then (O, O, 0)                (* data[0][0].v >= x: front *)
      else
        let lastb := last d [] in
        if fltb (last_v lastb x) x                     (* last.v < x: back *)
        then ((length d - 1)%nat, length lastb, 0)
        else
          let '(oi, r, b) := seek_outer x d O 0 in
          let ii := seek_inner x b in
          let r := r + Z.of_nat ii in
          (oi, ii, invariant err2 (f_of_Z r) - 1)
  end.

Definition store_insert (err2 : f64) (x : f64) (d : list (list entry)) : list (list entry) :=
  let '(oi, ii, dl) := insert_pos err2 x d in
  place oi ii (mkE x 1 dl) d.

(** [Store::compress], first loop, on the entries in order (see the header) *)
Definition merge_entry (cur nxt : entry) : entry :=
  mkE (e_v nxt) (e_g cur + e_g nxt) (e_d nxt).

Fixpoint compress_flat (err2 : f64) (cur : nat * entry) (rest : list (nat * entry)) (r : Z)
  : list (nat * entry) :=
  match rest with
  | [] => [cur]
  | nxt :: rest' =>
      if e_g (snd cur) + e_g (snd nxt) + e_d (snd nxt) <=? invariant err2 (f_of_Z r)
      then compress_flat err2 (fst cur, merge_entry (snd cur) (snd nxt)) rest' (r + 1)
      else cur :: compress_flat err2 nxt rest' (r + 1)
  end.

Fixpoint tag_data (k : nat) (d : list (list entry)) : list (nat * entry) :=
  match d with
  | [] => []
  | b :: rest => map (fun e => (k, e)) b ++ tag_data (S k) rest
  end.

Fixpoint regroup (l : list (nat * entry)) : list (list entry) :=
  match l with
  | [] => []
  | (t, e) :: rest =>
      match regroup rest, rest with
      | g :: gs, (t', _) :: _ => if Nat.eqb t t' then (e :: g) :: gs else [e] :: g :: gs
      | _, _ => [[e]]
      end
  end.

(** second loop: join neighbouring blocks that fit together in [inner_cap] *)
Fixpoint join_blocks (cur : list entry) (rest : list (list entry)) : list (list entry) :=
  match rest with
  | [] => [cur]
  | nx :: rest' =>
      if (length cur + length nx <=? inner_cap)%nat
      then join_blocks (cur ++ nx) rest'
      else cur :: join_blocks nx rest'
  end.

Definition store_compress (err2 : f64) (d : list (list entry)) : list (list entry) :=
  if (length (flat d) <? 3)%nat then d
  else
    match tag_data O d with
    | [] => d
    | c :: rest =>
        match regroup (compress_flat err2 c rest 1) with
        | [] => d
        | b :: bs => join_blocks b bs
        end
    end.

(** [CKMS::insert] *)
Definition ckms_insert (st : ckms_state) (x : f64) : ckms_state :=
  let d := store_insert (st_err2 st) x (st_data st) in
  let ins := (st_inserts st + 1) mod (st_thr st) in
  mkS (st_err st) (st_err2 st) (st_thr st) ins (st_n st + 1)
      (if ins =? 0 then store_compress (st_err2 st) d else d).

(** [Store::query] *)
Fixpoint query_loop (rhs : f64) (prev : entry) (rest : list entry) (r s : Z) : Z * f64 :=
  match rest with
  | [] => (s, e_v prev)
  | cur :: rest' =>
      let r' := r + e_g prev in
      if fltb rhs (f_of_Z (r' + e_g cur + e_d cur)) then (r', e_v prev)
      else query_loop rhs cur rest' r' s
  end.

Definition ckms_query (st : ckms_state) (q : f64) : option (Z * f64) :=
  match flat (st_data st) with
  | [] => None
  | e0 :: rest =>
      let nphi := fmul q (f_of_Z (st_n st)) in
      let inv := invariant (st_err2 st) nphi in
      let rhs := fadd nphi (fdiv (f_of_Z inv) f_two) in
      Some (query_loop rhs e0 rest 0 (Z.of_nat (length (e0 :: rest))))
  end.

Definition ckms_run (err : f64) (vals : list f64) (q : f64) : option (Z * f64) :=
  ckms_query (fold_left ckms_insert vals (ckms_new err)) q.

Definition ckms_samples (st : ckms_state) : list (f64 * Z * Z) :=
  map (fun e => (e_v e, e_g e, e_d e)) (flat (st_data st)).

(** the sketch's error bound as the source writes it (a decimal literal,
    [Generated.ckms_error]): the double nearest 0.001 *)
Definition ckms_error_f : f64 := f_of_dec false (fst Generated.ckms_error) (snd Generated.ckms_error).
