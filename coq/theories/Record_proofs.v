(** Record output ([k=v] columns, PrettyPrinter::format_record_as_columns):
    every field of the row is shown as [name=value]; the column order only ever
    grows by appending (the new names, sorted) — it is never permuted — except
    when the line would overflow the terminal, where it restarts from the row's
    own sorted keys; without a terminal it never restarts; and the indexing
    `self.column_widths[column_name]` cannot panic. *)
From Coq Require Import List ZArith NArith Bool Lia Arith Permutation.
From AG Require Import Str F64 Value Json Expr Ops Pipeline Display.
From AG Require Import Str_proofs Sort_proofs Split_proofs Json_proofs Layout_proofs.
Import ListNotations.
Open Scope list_scope.
Open Scope nat_scope.

(** ** helper lemmas *)
Lemma rec_bind_np {A B} (r : res A) (k : A -> res B) :
  r <> Panic -> (forall x, k x <> Panic) -> bind r k <> Panic.
Proof. intros Hr Hk. destruct r; cbn [bind]; try discriminate; [apply Hk | congruence]. Qed.

Lemma rec_sequence_np {A} (l : list (res A)) :
  Forall (fun r => r <> Panic) l -> sequence_res l <> Panic.
Proof.
  induction 1 as [|r l Hr Hl IH]; cbn [sequence_res fold_right]; [discriminate|].
  apply rec_bind_np; [exact Hr|]. intros x. apply rec_bind_np; [exact IH|]. discriminate.
Qed.

Lemma render_np : forall v, render v <> Panic.
Proof.
  induction v as [s|z|f|b|ns|ns|kvs IH|l IH|] using value_ind2; cbn [render]; try discriminate.
  - apply rec_bind_np; [|discriminate].
    induction IH as [|[k x] kvs Hx _ IHk]; [discriminate|].
    apply rec_bind_np; [exact Hx|]. intros s. apply rec_bind_np; [exact IHk|]. discriminate.
  - apply rec_bind_np; [|discriminate].
    induction IH as [|x l Hx _ IHk]; [discriminate|].
    apply rec_bind_np; [exact Hx|]. intros s. apply rec_bind_np; [exact IHk|]. discriminate.
Qed.

Lemma rec_isort_in {A} (le : A -> A -> bool) (l : list A) (x : A) : In x (isort le l) <-> In x l.
Proof.
  split; intros H.
  - eapply Permutation_in; [apply isort_perm | exact H].
  - eapply Permutation_in; [apply Permutation_sym, isort_perm | exact H].
Qed.

Lemma existsb_str_eqb_in k l : existsb (str_eqb k) l = true <-> In k l.
Proof.
  rewrite existsb_exists. split.
  - intros [x [Hin He]]. apply str_eqb_eq in He. now subst.
  - intros Hin. exists k. split; [exact Hin | apply str_eqb_refl].
Qed.

Lemma new_columns_in order d k :
  In k (new_columns order d) <-> (In k (map fst d) /\ ~ In k order).
Proof.
  unfold new_columns. rewrite rec_isort_in, filter_In. split.
  - intros [Hin Hn]. split; [exact Hin|]. intros Ho. apply existsb_str_eqb_in in Ho.
    rewrite Ho in Hn. discriminate.
  - intros [Hin Hn]. split; [exact Hin|].
    destruct (existsb (str_eqb k) order) eqn:E; [|reflexivity].
    apply existsb_str_eqb_in in E. contradiction.
Qed.

Lemma new_columns_nodup order d : NoDup (map fst d) -> NoDup (new_columns order d).
Proof.
  intros Hnd. unfold new_columns.
  eapply Permutation_NoDup; [apply Permutation_sym, isort_perm|].
  apply NoDup_filter. exact Hnd.
Qed.

(** trimming cannot eat into a token delimited by non-whitespace characters *)
Lemma trim_end_app_nonws x b post :
  is_ws b = false -> trim_end (x ++ b :: post) = x ++ b :: trim_end post.
Proof.
  intros Hb. unfold trim_end. rewrite rev_app_distr. cbn [rev]. rewrite <- app_assoc. cbn [app].
  rewrite (trim_start_app_nonws (rev post) b (rev x) Hb).
  rewrite rev_app_distr. cbn [rev]. rewrite rev_involutive, <- app_assoc. reflexivity.
Qed.

Lemma trim_keeps_token pre a m b post :
  is_ws a = false -> is_ws b = false ->
  trim (pre ++ (a :: m ++ [b]) ++ post) = trim_start pre ++ (a :: m ++ [b]) ++ trim_end post.
Proof.
  intros Ha Hb. unfold trim. cbn [app].
  rewrite (trim_start_app_nonws pre a _ Ha).
  replace (trim_start pre ++ a :: (m ++ [b]) ++ post)
    with ((trim_start pre ++ a :: m) ++ b :: post)
    by (rewrite <- !app_assoc; cbn [app]; reflexivity).
  rewrite (trim_end_app_nonws _ b post Hb).
  rewrite <- !app_assoc. cbn [app]. reflexivity.
Qed.

Lemma Forall2_In_l : forall (A B : Type) (R : A -> B -> Prop) l ys x,
  Forall2 R l ys -> In x l -> exists y, In y ys /\ R x y.
Proof.
  intros A B R l ys x HF. induction HF as [|x0 y0 l0 ys0 HR HF IH]; intros Hin.
  - destruct Hin.
  - destruct Hin as [Heq|Hin].
    + subst. exists y0. split; [left; reflexivity | exact HR].
    + destruct (IH Hin) as [y [Hy HRy]]. exists y. split; [right; exact Hy | exact HRy].
Qed.

Lemma concat_in_split {A} (y : list A) (ls : list (list A)) :
  In y ls -> exists pre post, concat ls = pre ++ y ++ post.
Proof.
  intros Hin. apply in_split in Hin as [l1 [l2 ->]].
  exists (concat l1), (concat l2). rewrite concat_app. cbn [concat]. reflexivity.
Qed.

(** *** [update_widths] *)
Definition uw_step (rw : res widths) (kv : str * value) : res widths :=
  do w0 <- rw;
  do s <- render (snd kv);
  let cur := match get (fst kv) w0 with Some n => n | None => O end in
  let vlen := Nat.max (utf8_len s) (utf8_len (fst kv)) in
  let neww := if Nat.ltb cur (vlen + min_buffer) then vlen + max_buffer else cur in
  Ok (put (fst kv) neww w0).

Lemma update_widths_fold w d : update_widths w d = fold_left uw_step d (Ok w).
Proof. reflexivity. Qed.

Lemma has_put_any {A} c k (v : A) l : has c (put k v l) = true <-> (c = k \/ has c l = true).
Proof.
  unfold has. rewrite get_put_any. destruct (str_eqb c k) eqn:E.
  - apply str_eqb_eq in E. split; [intros _; left; exact E | reflexivity].
  - apply str_eqb_neq in E. split; [intros H; right; exact H | intros [H|H]; [contradiction | exact H]].
Qed.

Lemma uw_fold_ok d : forall rw w1, fold_left uw_step d rw = Ok w1 ->
  exists w0, rw = Ok w0 /\ (forall c, has c w0 = true -> has c w1 = true) /\
             (forall c, In c (map fst d) -> has c w1 = true).
Proof.
  induction d as [|[k v] d IH]; intros rw w1 H; cbn [fold_left] in H.
  - exists w1. split; [exact H|]. split; [auto|]. intros c [].
  - destruct (IH _ _ H) as [w0' [Hs [Hkeep Hnew]]].
    unfold uw_step in Hs. cbn [fst snd] in Hs.
    destruct rw as [w0| | |]; cbn [bind] in Hs; try discriminate.
    destruct (render v) as [s| | |]; cbn [bind] in Hs; try discriminate.
    injection Hs as Hs. exists w0. split; [reflexivity|]. split.
    + intros c Hc. apply Hkeep. rewrite <- Hs. apply has_put_any. right. exact Hc.
    + intros c [Hc|Hc].
      * cbn [fst] in Hc. subst c. apply Hkeep. rewrite <- Hs. apply has_put_any. left. reflexivity.
      * apply Hnew. exact Hc.
Qed.

Lemma update_widths_ok w d w1 : update_widths w d = Ok w1 ->
  (forall c, has c w = true -> has c w1 = true) /\ (forall c, In c (map fst d) -> has c w1 = true).
Proof.
  rewrite update_widths_fold. intros H. destruct (uw_fold_ok _ _ _ H) as [w0 [E [H1 H2]]].
  injection E as <-. split; assumption.
Qed.

Lemma uw_fold_np d : forall rw, rw <> Panic -> fold_left uw_step d rw <> Panic.
Proof.
  induction d as [|kv d IH]; intros rw Hrw; cbn [fold_left]; [exact Hrw|].
  apply IH. unfold uw_step. apply rec_bind_np; [exact Hrw|]. intros w0.
  apply rec_bind_np; [apply render_np|]. discriminate.
Qed.

Lemma update_widths_np w d : update_widths w d <> Panic.
Proof. rewrite update_widths_fold. apply uw_fold_np. discriminate. Qed.

(** *** inversion of [format_record] *)
Lemma format_record_ok st r st' line :
  format_record st r = Ok (st', line) ->
  exists w1, update_widths (rp_widths st) (rdata r) = Ok w1 /\
  ((rdata r = [] /\
    st' = mkRP w1 (rp_order st ++ new_columns (rp_order st) (rdata r)) (rp_term st) /\ line = strip_eol (rraw r))
   \/
   (rdata r <> [] /\
    exists w order np cells,
      ((overflows_term (rp_term st) w1 = false /\ w = w1 /\
        order = rp_order st ++ new_columns (rp_order st) (rdata r) /\ np = false)
       \/
       (overflows_term (rp_term st) w1 = true /\ update_widths [] (rdata r) = Ok w /\
        order = new_columns [] (rdata r) /\ np = overflows_term (rp_term st) w)) /\
      sequence_res (map (record_cell np w (rdata r)) order) = Ok cells /\
      st' = mkRP w order (rp_term st) /\ line = trim (concat cells))).
Proof.
  destruct r as [d raw]. unfold format_record. cbn [rdata rraw]. intros H.
  destruct (update_widths (rp_widths st) d) as [w1| | |] eqn:Ew; cbn [bind] in H; try discriminate.
  exists w1. split; [reflexivity|].
  destruct d as [|kv d'].
  - left. injection H as <- <-. repeat split.
  - right. split; [discriminate|].
    destruct (overflows_term (rp_term st) w1) eqn:Eov.
    + destruct (update_widths [] (kv :: d')) as [w2| | |] eqn:Ew2; cbn [bind] in H; try discriminate.
      destruct (sequence_res (map (record_cell (overflows_term (rp_term st) w2) w2 (kv :: d'))
                                  (new_columns [] (kv :: d')))) as [cells| | |] eqn:Es;
        cbn [bind] in H; try discriminate.
      injection H as <- <-.
      exists w2, (new_columns [] (kv :: d')), (overflows_term (rp_term st) w2), cells.
      split; [right; repeat split|]. repeat split. exact Es.
    + cbn [bind] in H.
      destruct (sequence_res (map (record_cell false w1 (kv :: d')) (rp_order st ++ new_columns (rp_order st) (kv :: d')))) as [cells| | |] eqn:Es;
        cbn [bind] in H; try discriminate.
      injection H as <- <-.
      exists w1, (rp_order st ++ new_columns (rp_order st) (kv :: d')), false, cells.
      split; [left; repeat split|]. repeat split. exact Es.
Qed.

Lemma overflows_term_some t w : overflows_term t w = true -> t <> None.
Proof. destruct t; [discriminate | cbn; discriminate]. Qed.

Lemma format_record_term st r st' line :
  format_record st r = Ok (st', line) -> rp_term st' = rp_term st.
Proof.
  intros H. apply format_record_ok in H as [w1 [_ [[_ [-> _]]|[_ [w [order [np [cells [_ [_ [-> _]]]]]]]]]]];
    reflexivity.
Qed.

Lemma in_order1 order d k : In k (map fst d) -> In k (order ++ new_columns order d).
Proof.
  intros Hin. apply in_or_app.
  destruct (existsb (str_eqb k) order) eqn:E.
  - left. apply existsb_str_eqb_in. exact E.
  - right. apply new_columns_in. split; [exact Hin|]. intros Ho.
    apply existsb_str_eqb_in in Ho. rewrite Ho in E. discriminate.
Qed.

Definition field_token (k s : str) : str := 91%N :: k ++ 61%N :: s ++ [93%N].

(** every field of the row appears in the printed line as [name=value] *)
Theorem record_shows_every_field (st st' : rp_state) (r : record) (line : str) (k : str) (v : value) (s : str) :
  format_record st r = Ok (st', line) ->
  get k (rdata r) = Some v -> In k (map fst (rdata r)) -> render v = Ok s ->
  exists pre post, line = pre ++ field_token k s ++ post.
Proof.
  intros H Hget Hin Hren.
  apply format_record_ok in H as [w1 [Ew [[Eo _]|[_ [w [order [np [cells [Hcase [Es [_ ->]]]]]]]]]]].
  - exfalso. rewrite Eo in Hin. destruct Hin.
  - assert (Hko : In k order).
    { destruct Hcase as [[_ [_ [-> _]]]|[_ [_ [-> _]]]].
      - apply in_order1. exact Hin.
      - apply (in_order1 [] (rdata r) k Hin). }
    apply sequence_res_map_ok in Es.
    destruct (Forall2_In_l _ _ _ _ _ _ Es Hko) as [y [Hy Hcell]].
    unfold record_cell in Hcell. rewrite Hget, Hren in Hcell. cbn [bind] in Hcell.
    assert (Hy' : exists pad, y = field_token k s ++ pad).
    { destruct np.
      - injection Hcell as <-. exists []. rewrite app_nil_r. reflexivity.
      - destruct (get k w) as [cw|]; [|discriminate]. injection Hcell as <-.
        eexists. reflexivity. }
    destruct Hy' as [pad ->].
    destruct (concat_in_split _ _ Hy) as [pre [post ->]].
    rewrite <- (app_assoc (field_token k s) pad post).
    unfold field_token.
    replace (91%N :: k ++ 61%N :: s ++ [93%N]) with (91%N :: (k ++ 61%N :: s) ++ [93%N])
      by (rewrite <- app_assoc; reflexivity).
    rewrite trim_keeps_token by reflexivity.
    eexists. eexists. reflexivity.
Qed.

(** the column order after a row: appended to, or (only when the terminal overflows) restarted *)
Theorem record_order_step (st st' : rp_state) (r : record) (line : str) :
  format_record st r = Ok (st', line) ->
  rp_order st' = rp_order st ++ new_columns (rp_order st) (rdata r)
  \/ (rp_term st <> None /\ rp_order st' = new_columns [] (rdata r)).
Proof.
  intros H.
  apply format_record_ok in H as [w1 [Ew [[Eo [-> _]]|[_ [w [order [np [cells [Hcase [_ [-> _]]]]]]]]]]].
  - left. cbn [rp_order]. reflexivity.
  - cbn [rp_order]. destruct Hcase as [[_ [_ [-> _]]]|[Eov [_ [-> _]]]].
    + left. reflexivity.
    + right. split; [eapply overflows_term_some; exact Eov | reflexivity].
Qed.

(** without a terminal the order is stable for the whole stream: the order known after any
    prefix of the rows is a prefix of the order after more rows *)
Fixpoint run_states (st : rp_state) (rs : list record) : res (list rp_state) :=
  match rs with
  | [] => Ok []
  | r :: rest => do sl <- format_record st r; do more <- run_states (fst sl) rest; Ok (fst sl :: more)
  end.

Lemma run_states_cons st r rest sts :
  run_states st (r :: rest) = Ok sts ->
  exists st1 line more, format_record st r = Ok (st1, line) /\ run_states st1 rest = Ok more /\
                        sts = st1 :: more.
Proof.
  cbn [run_states]. intros H.
  destruct (format_record st r) as [[st1 line]| | |]; cbn [bind fst] in H; try discriminate.
  destruct (run_states st1 rest) as [more| | |] eqn:Em; cbn [bind] in H; try discriminate.
  injection H as <-. exists st1, line, more. repeat split. exact Em.
Qed.

Lemma run_states_extends rs : forall st sts,
  rp_term st = None -> run_states st rs = Ok sts ->
  forall j sj, nth_error sts j = Some sj ->
  exists more, rp_order sj = rp_order st ++ more /\ rp_term sj = None.
Proof.
  induction rs as [|r rest IH]; intros st sts Ht Hrun j sj Hj.
  - cbn [run_states] in Hrun. injection Hrun as <-. destruct j; discriminate.
  - destruct (run_states_cons _ _ _ _ Hrun) as [st1 [line [more [Hf [Hm ->]]]]].
    pose proof (format_record_term _ _ _ _ Hf) as Ht1. rewrite Ht in Ht1.
    assert (Hstep : exists m, rp_order st1 = rp_order st ++ m).
    { destruct (record_order_step _ _ _ _ Hf) as [E|[Hn _]].
      - eexists. exact E.
      - contradiction. }
    destruct Hstep as [m Em].
    destruct j as [|j].
    + cbn [nth_error] in Hj. injection Hj as <-. exists m. split; assumption.
    + cbn [nth_error] in Hj. destruct (IH st1 more Ht1 Hm j sj Hj) as [m' [Em' Ht']].
      exists (m ++ m'). split; [|exact Ht']. rewrite Em', Em, app_assoc. reflexivity.
Qed.

Theorem record_order_stable_no_terminal (st : rp_state) (rs : list record) (sts : list rp_state) :
  rp_term st = None -> run_states st rs = Ok sts ->
  forall i j si sj, i <= j -> nth_error sts i = Some si -> nth_error sts j = Some sj ->
  exists more, rp_order sj = rp_order si ++ more.
Proof.
  revert st sts. induction rs as [|r rest IH]; intros st sts Ht Hrun i j si sj Hij Hi Hj.
  - cbn [run_states] in Hrun. injection Hrun as <-. destruct i; discriminate.
  - destruct (run_states_cons _ _ _ _ Hrun) as [st1 [line [more [Hf [Hm ->]]]]].
    pose proof (format_record_term _ _ _ _ Hf) as Ht1. rewrite Ht in Ht1.
    destruct i as [|i].
    + cbn [nth_error] in Hi. injection Hi as <-.
      destruct j as [|j].
      * cbn [nth_error] in Hj. injection Hj as <-. exists []. rewrite app_nil_r. reflexivity.
      * cbn [nth_error] in Hj. destruct (run_states_extends _ _ _ Ht1 Hm _ _ Hj) as [m [Hm' _]].
        exists m. exact Hm'.
    + destruct j as [|j]; [lia|]. cbn [nth_error] in Hi, Hj.
      apply (IH st1 more Ht1 Hm i j si sj); [lia | exact Hi | exact Hj].
Qed.

(** the printer never permutes columns it already knows: no name is listed twice *)
Lemma NoDup_app_intro {A} (l1 l2 : list A) :
  NoDup l1 -> NoDup l2 -> (forall x, In x l1 -> In x l2 -> False) -> NoDup (l1 ++ l2).
Proof.
  intros H1 H2 Hd. induction H1 as [|a l1 Ha H1 IH]; cbn [app]; [exact H2|].
  constructor.
  - intros Hin. apply in_app_or in Hin as [Hin|Hin]; [contradiction|].
    apply (Hd a); [left; reflexivity | exact Hin].
  - apply IH. intros x Hx Hx'. apply (Hd x); [right; exact Hx | exact Hx'].
Qed.

Theorem record_order_nodup (st st' : rp_state) (r : record) (line : str) :
  NoDup (rp_order st) -> NoDup (map fst (rdata r)) ->
  format_record st r = Ok (st', line) -> NoDup (rp_order st').
Proof.
  intros Hnd Hd H.
  assert (Hnd1 : NoDup (rp_order st ++ new_columns (rp_order st) (rdata r))).
  { apply NoDup_app_intro; [exact Hnd | apply new_columns_nodup; exact Hd |].
    intros x Hx Hx'. apply new_columns_in in Hx' as [_ Hn]. contradiction. }
  apply format_record_ok in H as [w1 [Ew [[Eo [-> _]]|[_ [w [order [np [cells [Hcase [_ [-> _]]]]]]]]]]].
  - cbn [rp_order]. exact Hnd1.
  - cbn [rp_order]. destruct Hcase as [[_ [_ [-> _]]]|[_ [_ [-> _]]]].
    + exact Hnd1.
    + apply new_columns_nodup. exact Hd.
Qed.

(** the width lookup cannot fail: every ordered column has a width — an invariant of the printer *)
Definition rp_inv (st : rp_state) : Prop := forall c, In c (rp_order st) -> has c (rp_widths st) = true.

Lemma record_cell_np np w d c : (np = true \/ has c w = true) -> record_cell np w d c <> Panic.
Proof.
  intros Hc. unfold record_cell. apply rec_bind_np.
  - destruct (get c d) as [v|]; [|discriminate].
    apply rec_bind_np; [apply render_np | discriminate].
  - intros u. destruct np; [discriminate|].
    destruct Hc as [Hc|Hc]; [discriminate|].
    unfold has in Hc. destruct (get c w); [discriminate | discriminate Hc].
Qed.

Lemma cells_np np w d order :
  (forall c, In c order -> np = true \/ has c w = true) ->
  sequence_res (map (record_cell np w d) order) <> Panic.
Proof.
  intros H. apply rec_sequence_np. apply Forall_map. apply Forall_forall.
  intros c Hc. apply record_cell_np. apply H, Hc.
Qed.

Theorem record_no_panic (st : rp_state) (r : record) :
  rp_inv st -> format_record st r <> Panic /\
  (forall st' line, format_record st r = Ok (st', line) -> rp_inv st').
Proof.
  intros Hinv.
  assert (Hord1 : forall w1, update_widths (rp_widths st) (rdata r) = Ok w1 ->
            forall c, In c (rp_order st ++ new_columns (rp_order st) (rdata r)) -> has c w1 = true).
  { intros w1 Ew c Hc. destruct (update_widths_ok _ _ _ Ew) as [Hkeep Hnew].
    apply in_app_or in Hc as [Hc|Hc].
    - apply Hkeep, Hinv, Hc.
    - apply Hnew. apply new_columns_in in Hc as [Hc _]. exact Hc. }
  assert (Hord2 : forall w2, update_widths [] (rdata r) = Ok w2 ->
            forall c, In c (new_columns [] (rdata r)) -> has c w2 = true).
  { intros w2 Ew c Hc. destruct (update_widths_ok _ _ _ Ew) as [_ Hnew].
    apply Hnew. apply new_columns_in in Hc as [Hc _]. exact Hc. }
  split.
  - unfold format_record.
    destruct (update_widths (rp_widths st) (rdata r)) as [w1| | |] eqn:Ew; cbn [bind]; try discriminate.
    { specialize (Hord1 w1 eq_refl).
      destruct (rdata r) as [|kv0 d0] eqn:Ed; [discriminate|].
      destruct (overflows_term (rp_term st) w1) eqn:Eov.
      - destruct (update_widths [] (kv0 :: d0)) as [w2| | |] eqn:Ew2; cbn [bind]; try discriminate.
        + specialize (Hord2 w2 eq_refl).
          apply rec_bind_np; [|discriminate].
          apply cells_np. intros c Hc. right. apply Hord2, Hc.
        + exfalso. exact (update_widths_np [] (kv0 :: d0) Ew2).
      - cbn [bind]. apply rec_bind_np; [|discriminate].
        apply cells_np. intros c Hc. right. apply Hord1, Hc. }
    exfalso. exact (update_widths_np _ _ Ew).
  - intros st' line H.
    apply format_record_ok in H as [w1 [Ew [[Eo [-> _]]|[_ [w [order [np [cells [Hcase [_ [-> _]]]]]]]]]]].
    + unfold rp_inv. cbn [rp_order rp_widths]. apply Hord1. exact Ew.
    + unfold rp_inv. cbn [rp_order rp_widths].
      destruct Hcase as [[_ [-> [-> _]]]|[_ [Ew2 [-> _]]]].
      * apply Hord1. exact Ew.
      * apply Hord2. exact Ew2.
Qed.

Example record_example :
  let d := [(lit "a", VInt 1); (lit "b", VStr (lit "x y"))] in
  format_record (mkRP [] [] None) (mkRec d (lit "raw")) =
  Ok (mkRP [(lit "a", 9); (lit "b", 11)] [lit "a"; lit "b"] None, lit "[a=1]        [b=x y]") .
Proof. vm_compute. reflexivity. Qed.

Print Assumptions record_shows_every_field.
Print Assumptions record_order_step.
Print Assumptions record_order_stable_no_terminal.
Print Assumptions record_order_nodup.
Print Assumptions record_no_panic.
